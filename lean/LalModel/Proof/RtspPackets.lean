import LalModel.Proof.Rtp
import LalModel.Spec.Demux
import LalModel.Model.RtspRmx
/-
  The RTP packets of several frames of one stream, read by the RFC 3550 reader and regrouped into access units at the
  marker bit (Spec/Demux.lean `rtpAus`): one access unit per frame, with the frame's timestamp and the units the RFC
  depacketiser returns.
-/
namespace Lal.RtspPackets
open Lal Lal.Rtp Lal.Demux

/-- the packets of one `RtpPacker.Pack` call as an RFC 3550 reader sees them (SSRC 0) -/
def specLoop (pt ts : Nat) : Nat → List Bytes → List RtpSpec.Packet
  | _, [] => []
  | seq, [p] => [{ marker := true, pt := pt, seq := seq, ts := ts, ssrc := 0, csrc := [], payload := p }]
  | seq, p :: q :: rest =>
    { marker := false, pt := pt, seq := seq, ts := ts, ssrc := 0, csrc := [], payload := p } :: specLoop pt ts ((seq + 1) % 65536) (q :: rest)

theorem parse_packLoop (pt ts : Nat) (hpt : pt < 128) (hts : ts < 4294967296) : ∀ (ps : List Bytes) (seq : Nat), seq < 65536 →
    (packLoop pt ts 0 seq ps).map (fun p => RtpSpec.parse p.raw) = (specLoop pt ts seq ps).map some := by
  intro ps
  induction ps with
  | nil => intro _ _; rfl
  | cons p rest ih =>
    intro seq hs
    cases rest with
    | nil =>
      simp only [packLoop, specLoop, List.map_cons, List.map_nil]
      rw [spec_parse_mkPacket pt ts 0 1 seq p hpt (by omega) hs hts (by omega)]
      simp
    | cons q r =>
      simp only [packLoop, specLoop, List.map_cons]
      rw [spec_parse_mkPacket pt ts 0 0 seq p hpt (by omega) hs hts (by omega)]
      have := ih ((seq + 1) % 65536) (by omega)
      rw [this]
      simp

theorem specLoop_length (pt ts : Nat) : ∀ (ps : List Bytes) (seq : Nat), (specLoop pt ts seq ps).length = ps.length := by
  intro ps
  induction ps with
  | nil => intro _; rfl
  | cons p rest ih =>
    intro seq
    cases rest with
    | nil => rfl
    | cons q r => simp only [specLoop, List.length_cons, ih]

theorem specLoop_payloads (pt ts : Nat) : ∀ (ps : List Bytes) (seq : Nat), (specLoop pt ts seq ps).map (·.payload) = ps := by
  intro ps
  induction ps with
  | nil => intro _; rfl
  | cons p rest ih =>
    intro seq
    cases rest with
    | nil => rfl
    | cons q r => simp only [specLoop, List.map_cons, ih]

theorem specLoop_ts (pt ts : Nat) : ∀ (ps : List Bytes) (seq : Nat), ∀ x ∈ specLoop pt ts seq ps, x.ts = ts ∧ x.pt = pt := by
  intro ps
  induction ps with
  | nil => intro _ x hx; simp [specLoop] at hx
  | cons p rest ih =>
    intro seq x hx
    cases rest with
    | nil => simp only [specLoop, List.mem_singleton] at hx; rw [hx]; exact ⟨rfl, rfl⟩
    | cons q r =>
      simp only [specLoop, List.mem_cons] at hx
      rcases hx with rfl | hx
      · exact ⟨rfl, rfl⟩
      · exact ih _ x (by simpa [specLoop] using hx)

/-- the packets of one call up to and including the marker packet are all of them -/
theorem takeAu_specLoop (pt ts : Nat) : ∀ (ps : List Bytes) (seq : Nat) (rest : List RtpSpec.Packet), ps ≠ [] →
    takeAu (specLoop pt ts seq ps ++ rest) = (specLoop pt ts seq ps, rest) := by
  intro ps
  induction ps with
  | nil => intro _ _ h; exact absurd rfl h
  | cons p r ih =>
    intro seq rest _
    cases r with
    | nil => simp [specLoop, takeAu]
    | cons q r' =>
      simp only [specLoop, List.cons_append, takeAu, Bool.false_eq_true, if_false]
      have := ih ((seq + 1) % 65536) rest (by simp)
      rw [this]

theorem specLoop_last_marker (pt ts : Nat) : ∀ (ps : List Bytes) (seq : Nat), ps ≠ [] →
    ((specLoop pt ts seq ps).getLast?.map (·.marker)).getD false = true := by
  intro ps
  induction ps with
  | nil => intro _ h; exact absurd rfl h
  | cons p r ih =>
    intro seq _
    cases r with
    | nil => rfl
    | cons q r' =>
      have := ih ((seq + 1) % 65536) (by simp)
      obtain ⟨y, ys, hy⟩ : ∃ y ys, specLoop pt ts ((seq + 1) % 65536) (q :: r') = y :: ys := by
        cases r' <;> exact ⟨_, _, rfl⟩
      have e : specLoop pt ts seq (p :: q :: r') = { marker := false, pt := pt, seq := seq, ts := ts, ssrc := 0, csrc := [], payload := p }
          :: specLoop pt ts ((seq + 1) % 65536) (q :: r') := rfl
      rw [e, hy, List.getLast?_cons_cons, ← hy]
      exact this

/-- one frame of a stream: timestamp, payloads (non-empty), and the units a depacketiser must return for them -/
structure FrameP where
  ts       : Nat
  payloads : List Bytes
  units    : List Bytes

/-- the packets of consecutive `Pack` calls, the sequence number running on -/
def stream (pt : Nat) : Nat → List FrameP → List RtpSpec.Packet
  | _, [] => []
  | seq, f :: fs => specLoop pt f.ts seq f.payloads ++ stream pt ((seq + f.payloads.length) % 65536) fs

/-- ACCESS UNITS OVER RTP. Packets of consecutive frames, regrouped at the marker bit and depacketised: one access unit
    per frame, with the frame's timestamp and units. -/
theorem rtpAus_stream (k : RtpKind) (pt : Nat) : ∀ (fs : List FrameP) (seq : Nat),
    (∀ f ∈ fs, f.payloads ≠ [] ∧ depack k f.payloads = some f.units) →
    ∀ fuel, fuel ≥ (stream pt seq fs).length →
    rtpAusF k fuel (stream pt seq fs) = some (fs.map fun f => { ts := f.ts, units := f.units }) := by
  intro fs
  induction fs with
  | nil => intro seq _ fuel _; cases fuel <;> rfl
  | cons f fs ih =>
    intro seq h fuel hf
    obtain ⟨hne, hdep⟩ := h f (by simp)
    simp only [stream] at hf ⊢
    obtain ⟨x, xs, hx⟩ : ∃ x xs, specLoop pt f.ts seq f.payloads = x :: xs := by
      cases hp : f.payloads with
      | nil => exact absurd hp hne
      | cons p r => cases r <;> exact ⟨_, _, rfl⟩
    cases fuel with
    | zero => rw [hx] at hf; simp at hf
    | succ fuel =>
      have htk := takeAu_specLoop pt f.ts f.payloads seq (stream pt ((seq + f.payloads.length) % 65536) fs) hne
      have hstep : rtpAusF k (fuel + 1) (specLoop pt f.ts seq f.payloads ++ stream pt ((seq + f.payloads.length) % 65536) fs)
          = (let r := takeAu (specLoop pt f.ts seq f.payloads ++ stream pt ((seq + f.payloads.length) % 65536) fs)
             if !(r.1.getLast?.map (·.marker)).getD false then none
             else if r.1.any (·.ts != x.ts) then none
             else match depack k (r.1.map (·.payload)), rtpAusF k fuel r.2 with
               | some us, some t => some ({ ts := x.ts, units := us } :: t)
               | _, _ => none) := by
        rw [hx]; rfl
      rw [hstep, htk]
      simp only []
      have hxts : x.ts = f.ts := by
        have := specLoop_ts pt f.ts f.payloads seq x (by rw [hx]; simp)
        exact this.1
      have hany : (specLoop pt f.ts seq f.payloads).any (·.ts != x.ts) = false := by
        rw [List.any_eq_false]
        intro y hy
        have := (specLoop_ts pt f.ts f.payloads seq y hy).1
        simp [this, hxts]
      rw [specLoop_last_marker pt f.ts f.payloads seq hne, hany, specLoop_payloads, hdep]
      have hlen : fuel ≥ (stream pt ((seq + f.payloads.length) % 65536) fs).length := by
        rw [hx] at hf
        simp only [List.length_append, List.length_cons] at hf
        omega
      rw [ih _ (fun g hg => h g (by simp [hg])) fuel hlen]
      simp [hxts]

/-- sequence numbers run on, modulo 2^16 -/
theorem seqChain_specLoop (pt ts : Nat) : ∀ (ps : List Bytes) (seq : Nat) (rest : List RtpSpec.Packet),
    (∀ y, rest.head? = some y → y.seq = (seq + ps.length) % 65536) → seqChain rest = true → seq < 65536 →
    seqChain (specLoop pt ts seq ps ++ rest) = true ∧ (∀ y, (specLoop pt ts seq ps ++ rest).head? = some y → ps ≠ [] → y.seq = seq) := by
  intro ps
  induction ps with
  | nil => intro seq rest _ h2 _; exact ⟨by simpa [specLoop] using h2, fun _ _ h => absurd rfl h⟩
  | cons p r ih =>
    intro seq rest h1 h2 hs
    cases r with
    | nil =>
      refine ⟨?_, fun y hy _ => by simp [specLoop] at hy; rw [← hy]⟩
      simp only [specLoop, List.cons_append, List.nil_append]
      cases rest with
      | nil => rfl
      | cons y ys =>
        have := h1 y rfl
        simp only [seqChain, Bool.and_eq_true, beq_iff_eq]
        exact ⟨by rw [this]; simp, h2⟩
    | cons q r' =>
      have hrec := ih ((seq + 1) % 65536) rest (fun y hy => by rw [h1 y hy]; simp only [List.length_cons]; omega) h2 (by omega)
      refine ⟨?_, fun y hy _ => by simp [specLoop] at hy; rw [← hy]⟩
      have e : specLoop pt ts seq (p :: q :: r') = { marker := false, pt := pt, seq := seq, ts := ts, ssrc := 0, csrc := [], payload := p }
          :: specLoop pt ts ((seq + 1) % 65536) (q :: r') := rfl
      rw [e, List.cons_append]
      have hhead := hrec.2
      cases hsl : specLoop pt ts ((seq + 1) % 65536) (q :: r') ++ rest with
      | nil =>
        have : (specLoop pt ts ((seq + 1) % 65536) (q :: r')).length = 0 := by
          have := congrArg List.length hsl; simp only [List.length_append, List.length_nil] at this; omega
        rw [specLoop_length] at this; simp at this
      | cons y ys =>
        rw [hsl] at hrec hhead
        simp only [seqChain, Bool.and_eq_true, beq_iff_eq]
        exact ⟨hhead y rfl (by simp), hrec.1⟩

end Lal.RtspPackets
