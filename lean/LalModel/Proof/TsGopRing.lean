import LalModel.Proof.GopRing
import LalModel.Proof.GopRingTotal
/-
  The GOP ring of the HTTP-TS cache (remux.GopCacheMpegts, modelled with its Go index expressions in Model/GopRing.lean)
  IS a queue of GOPs: `Feed(b, boundary)` refines `GopCache.specFeed` — push a new GOP at a boundary (dropping the oldest
  when `gopNum` are cached), append to the newest otherwise unless it already holds `singleGopMaxFrameNum` frames — and
  `Clear()` empties it. Proved by mapping the TS ring onto the ring of remux.GopCache (`toT`), whose refinement is
  `GopCache.gops_feed`: the two Go types run the same index arithmetic.
-/
namespace Lal.GopRing
open Lal

/-- the TS ring seen as the ring part of a `GopCache` -/
def toT (r : Ring Bytes) : GopCache.T :=
  { ring := r.ring, first := r.first, last := r.last, gopSize := r.gopSize, cap := r.maxFrames }

/-- the queue of GOPs the TS ring holds, oldest first -/
def tsGops (r : Ring Bytes) : List (List Bytes) := GopCache.gops (toT r)

theorem toT_wf (r : Ring Bytes) (h : r.WF) : GopCache.WF (toT r) :=
  ⟨h.1, h.2.1, h.2.2.1, h.2.2.2⟩

/-- a video payload that `IsVideoKeyNalu` classifies as `boundary` and that is not a sequence header -/
def probe (boundary : Bool) : Bytes := if boundary then [0x17, 1] else [0x27, 1]

theorem probe_key (boundary : Bool) : Classify.isVideoKeyNalu 9 (probe boundary) = boundary := by
  cases boundary <;> decide

theorem probe_not_header (boundary : Bool) : Classify.isVideoKeySeqHeader 9 (probe boundary) = false := by
  cases boundary <;> decide

theorem toT_feedNewGopP (r : Ring Bytes) (b : Bytes) : toT (r.feedNewGopP b) = GopCache.feedNewGop (toT r) b := by
  unfold Ring.feedNewGopP GopCache.feedNewGop GopCache.isFull GopCache.setRing toT
  by_cases hf : (r.last + 1) % r.gopSize = r.first <;> simp [hf]

theorem toT_feedLastGopP (r : Ring Bytes) (b : Bytes) : toT (r.feedLastGopP b).1 = (GopCache.feedLastGop (toT r) b).1 := by
  unfold Ring.feedLastGopP GopCache.feedLastGop GopCache.isEmpty GopCache.setRing toT
  simp only [List.getD_eq_getElem?_getD]
  by_cases he : r.first = r.last
  · simp [he]
  · by_cases h1 : (r.ring[(r.last + r.gopSize - 1) % r.gopSize]?.getD []).length < r.maxFrames
    · simp [he, h1]
    · by_cases h2 : r.maxFrames = 0
      · simp [he, h2]
      · simp [he, h1, h2]

/-- one `Feed` of the TS cache on the model is one `Feed` of a `GopCache` on the mapped ring, with a probe payload of
    the same key-frame class -/
theorem toT_feedMpegts (r : Ring Bytes) (h : r.WF) (b : Bytes) (boundary : Bool) :
    ∃ r', r.feedMpegts b boundary = .ok r' ∧ r'.WF ∧ toT r' = (GopCache.feed (toT r) 9 (probe boundary) b).1 := by
  have hk := probe_key boundary
  have hh := probe_not_header boundary
  unfold Ring.feedMpegts GopCache.feed
  have e18 : ((9 : Nat) == 18) = false := by decide
  have e8 : ((9 : Nat) == 8) = false := by decide
  have e9 : ((9 : Nat) == 9) = true := by decide
  simp only [e18, e8, e9, Bool.false_and, Bool.true_and, hh, Bool.false_eq_true, if_false, hk]
  by_cases hg : r.gopSize > 1
  · have hg' : (toT r).gopSize > 1 := hg
    simp only [hg, hg', if_true]
    cases boundary with
    | true =>
      simp only [if_true, Ring.feedNewGop_eq r h]
      exact ⟨_, rfl, Ring.feedNewGopP_wf r h b, toT_feedNewGopP r b⟩
    | false =>
      simp only [Bool.false_eq_true, if_false, Ring.feedLastGop_eq r h, GoM.ok_bind, GoM.pure_eq]
      exact ⟨_, rfl, Ring.feedLastGopP_wf r h b, toT_feedLastGopP r b⟩
  · have hg' : ¬ (toT r).gopSize > 1 := hg
    simp only [hg, hg', if_false, GoM.pure_eq]
    exact ⟨r, rfl, h, rfl⟩

/-- `GopCacheMpegts.Feed` refines the queue specification -/
theorem ts_feed_refines (r : Ring Bytes) (h : r.WF) (b : Bytes) (boundary : Bool) :
    ∃ r', r.feedMpegts b boundary = .ok r' ∧ r'.WF ∧ r'.gopSize = r.gopSize ∧ r'.maxFrames = r.maxFrames ∧
      tsGops r' = GopCache.specFeed (r.gopSize - 1) r.maxFrames (tsGops r) false false boundary b := by
  obtain ⟨r', e, hw, ht⟩ := toT_feedMpegts r h b boundary
  obtain ⟨_, hs, hc, hg⟩ := GopCache.gops_feed (toT r) (toT_wf r h) 9 (probe boundary) b
  refine ⟨r', e, hw, ?_, ?_, ?_⟩
  · have := congrArg GopCache.T.gopSize ht; rw [hs] at this; exact this
  · have := congrArg GopCache.T.cap ht; rw [hc] at this; exact this
  · unfold tsGops
    rw [ht, hg, probe_key, probe_not_header]
    have e18 : ((9 : Nat) == 18) = false := by decide
    have e8 : ((9 : Nat) == 8) = false := by decide
    simp only [e18, e8, Bool.false_and, Bool.and_false, Bool.or_false, toT]

/-- `GopCacheMpegts.Clear()` (both indices back to 0) empties the queue -/
theorem ts_clear_empties (r : Ring Bytes) (h : r.WF) : tsGops { r with first := 0, last := 0 } = [] ∧ ({ r with first := 0, last := 0 } : Ring Bytes).WF := by
  refine ⟨?_, h.1, h.2.1, by have := h.1; show 0 < r.gopSize; omega, by have := h.1; show 0 < r.gopSize; omega⟩
  have := GopCache.gops_reset (toT r) (toT_wf r h)
  simpa [tsGops, toT] using this

theorem ts_new_empty (n c : Nat) : tsGops (Ring.new n c) = [] := by
  have := GopCache.gops_new n c
  simpa [tsGops, toT, Ring.new, GopCache.new] using this

/-! ### whole histories -/

/-- what happens to the HTTP-TS cache: a frame (at a GOP boundary or not), or `Clear()` when the input ends -/
inductive TsEv where
  | feed (b : Bytes) (boundary : Bool)
  | clear
deriving Repr, DecidableEq

def tsStep (r : Ring Bytes) : TsEv → GoM (Ring Bytes)
  | .feed b bd => r.feedMpegts b bd
  | .clear => .ok { r with first := 0, last := 0 }

def tsRun : Ring Bytes → List TsEv → GoM (Ring Bytes)
  | r, [] => .ok r
  | r, e :: es => do tsRun (← tsStep r e) es

/-- the specification: a queue of at most `n` GOPs of at most `c` frames (0 = unbounded), emptied by `clear` -/
def tsSpec (n c : Nat) (G : List (List Bytes)) : TsEv → List (List Bytes)
  | .feed b bd => GopCache.specFeed n c G false false bd b
  | .clear => []

theorem tsRun_refines (n c : Nat) : ∀ (evs : List TsEv) (r : Ring Bytes), r.WF → r.gopSize = n + 1 → r.maxFrames = c →
    ∃ r', tsRun r evs = .ok r' ∧ r'.WF ∧ tsGops r' = evs.foldl (tsSpec n c) (tsGops r) := by
  intro evs
  induction evs with
  | nil => intro r h _ _; exact ⟨r, rfl, h, rfl⟩
  | cons e es ih =>
    intro r h hs hc
    cases e with
    | feed b bd =>
      obtain ⟨r1, e1, w1, s1, c1, g1⟩ := ts_feed_refines r h b bd
      obtain ⟨r2, e2, w2, g2⟩ := ih r1 w1 (by rw [s1, hs]) (by rw [c1, hc])
      refine ⟨r2, ?_, w2, ?_⟩
      · simp only [tsRun, tsStep, e1, GoM.ok_bind]; exact e2
      · rw [g2, g1, hs, hc]; rfl
    | clear =>
      obtain ⟨g0, w0⟩ := ts_clear_empties r h
      obtain ⟨r2, e2, w2, g2⟩ := ih _ w0 hs hc
      refine ⟨r2, ?_, w2, ?_⟩
      · simp only [tsRun, tsStep, GoM.ok_bind]; exact e2
      · rw [g2, g0]; rfl

end Lal.GopRing
