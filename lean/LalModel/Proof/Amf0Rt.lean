import LalModel.Proof.Amf0
/- Round trip: lal's readers on the encoding of a tree (helper lemmas for Props/C18.lean). -/
namespace Lal.Amf0
open Lal

theorem wfKvs_cons {k : Bytes} {v : Amf} {r : List (Bytes × Amf)} (h : wfKvs ((k, v) :: r) = true) :
    k.length < 65536 ∧ wf v = true ∧ wfKvs r = true := by
  simpa [wfKvs] using h

theorem wfVs_cons {v : Amf} {r : List Amf} (h : wfVs (v :: r) = true) : wf v = true ∧ wfVs r = true := by
  simpa [wfVs] using h

mutual
/-- `amf0.read` at the encoding of `v` appends `member k v` and advances by exactly the encoded length. -/
theorem read_enc (lim : Nat) : (v : Amf) → wf v = true →
    ∀ (fuel stack d : Nat) (b : Bytes) (index : Nat) (k : Bytes) (ops : Opa) (rest : Bytes),
    b.drop index = enc v ++ rest → rcost v ≤ fuel → depth v ≤ stack → d + depth v ≤ lim →
    read lim fuel stack d b index k ops = .ok (ops ++ member k v, index + (enc v).length)
  | .num bits, hw, fuel, stack, d, b, index, k, ops, rest, h, hf, _, _ => by
    simp only [wf, beq_iff_eq] at hw
    simp only [rcost] at hf
    obtain ⟨f, rfl⟩ : ∃ f, fuel = f + 1 := ⟨fuel - 1, by omega⟩
    simp only [enc, writeNumber, List.cons_append] at h
    rw [read_head h, if_neg (fun hc => absurd hc.1 (by decide)), if_pos rfl, readNumber_enc bits rest hw]
    simp [member, enc, writeNumber, hw]
  | .bool x, _, fuel, stack, d, b, index, k, ops, rest, h, hf, _, _ => by
    simp only [rcost] at hf
    obtain ⟨f, rfl⟩ : ∃ f, fuel = f + 1 := ⟨fuel - 1, by omega⟩
    simp only [enc, writeBoolean, List.cons_append, List.nil_append] at h
    rw [read_head h, if_neg (fun hc => absurd hc.1 (by decide)), if_neg (by decide), if_pos rfl, readBoolean_enc x rest]
    simp [member, enc, writeBoolean]
  | .str s, hw, fuel, stack, d, b, index, k, ops, rest, h, hf, _, _ => by
    simp only [wf, decide_eq_true_eq] at hw
    simp only [rcost] at hf
    obtain ⟨f, rfl⟩ : ∃ f, fuel = f + 1 := ⟨fuel - 1, by omega⟩
    have hr := readString_enc s rest hw
    simp only [enc] at h ⊢
    by_cases hs : s.length < 65536
    · have e : writeString s ++ rest = 0x02 :: (be16 s.length ++ (s ++ rest)) := by simp [writeString, hs]
      rw [e] at h hr
      rw [read_head h, if_neg (fun hc => absurd hc.1 (by decide)), if_neg (by decide), if_neg (by decide), if_pos (Or.inl rfl), hr]
      simp [member]
    · have e : writeString s ++ rest = 0x0c :: (be32 s.length ++ (s ++ rest)) := by simp [writeString, hs]
      rw [e] at h hr
      rw [read_head h, if_neg (fun hc => absurd hc.1 (by decide)), if_neg (by decide), if_neg (by decide), if_pos (Or.inr rfl), hr]
      simp [member]
  | .null, _, fuel, stack, d, b, index, k, ops, rest, h, hf, _, _ => by
    simp only [rcost] at hf
    obtain ⟨f, rfl⟩ : ∃ f, fuel = f + 1 := ⟨fuel - 1, by omega⟩
    simp only [enc, List.cons_append, List.nil_append] at h
    rw [read_head h]
    simp [member, enc, readNull, idx?]
  | .undef, _, fuel, stack, d, b, index, k, ops, rest, h, hf, _, _ => by
    simp only [rcost] at hf
    obtain ⟨f, rfl⟩ : ∃ f, fuel = f + 1 := ⟨fuel - 1, by omega⟩
    simp only [enc, List.cons_append, List.nil_append] at h
    rw [read_head h]
    simp [member, enc, readUndefinedOrUnsupported]
  | .obj kvs, hw, fuel, stack, d, b, index, k, ops, rest, h, hf, hs, hd => by
    simp only [wf] at hw
    simp only [rcost] at hf
    simp only [depth] at hs hd
    obtain ⟨f, rfl⟩ : ∃ f, fuel = f + 1 := ⟨fuel - 1, by omega⟩
    obtain ⟨st, rfl⟩ : ∃ st, stack = st + 1 := ⟨stack - 1, by omega⟩
    simp only [enc, List.cons_append, List.nil_append, List.append_assoc] at h
    have hl := (kvs_enc lim kvs hw f st (d + 1) (0x03 :: (encKvs kvs ++ (0 :: 0 :: 9 :: rest))) 1 [] rest
      (by simp) (by omega) (by omega) (by omega)).1
    rw [read_head h, if_neg (by omega), if_neg (by decide), if_neg (by decide), if_neg (by decide),
      if_neg (by decide), if_pos rfl]
    dsimp only
    rw [readObjectHdr_enc]
    dsimp only
    rw [hl]
    simp [member, enc]; omega
  | .ecma kvs, hw, fuel, stack, d, b, index, k, ops, rest, h, hf, hs, hd => by
    simp only [wf, Bool.and_eq_true, decide_eq_true_eq] at hw
    simp only [rcost] at hf
    simp only [depth] at hs hd
    obtain ⟨f, rfl⟩ : ∃ f, fuel = f + 1 := ⟨fuel - 1, by omega⟩
    obtain ⟨st, rfl⟩ : ∃ st, stack = st + 1 := ⟨stack - 1, by omega⟩
    simp only [enc, List.cons_append, List.nil_append, List.append_assoc] at h
    have hl := (kvs_enc lim kvs hw.2 f st (d + 1) (0x08 :: (be32 kvs.length ++ (encKvs kvs ++ (0 :: 0 :: 9 :: rest)))) 5 [] rest
      (by simp [be32]) (by omega) (by omega) (by omega)).2
    rw [read_head h, if_neg (by omega), if_neg (by decide), if_neg (by decide), if_neg (by decide),
      if_neg (by decide), if_neg (by decide), if_pos rfl]
    dsimp only
    rw [readArrayHdr_enc _ _ _ hw.1]
    dsimp only
    rw [hl]
    simp [member, enc]; omega
  | .strict vs, hw, fuel, stack, d, b, index, k, ops, rest, h, hf, hs, hd => by
    simp only [wf, Bool.and_eq_true, decide_eq_true_eq] at hw
    simp only [rcost] at hf
    simp only [depth] at hs hd
    obtain ⟨f, rfl⟩ : ∃ f, fuel = f + 1 := ⟨fuel - 1, by omega⟩
    obtain ⟨st, rfl⟩ : ∃ st, stack = st + 1 := ⟨stack - 1, by omega⟩
    simp only [enc, List.cons_append, List.append_assoc] at h
    have hl := vs_enc lim vs hw.2 f st (d + 1) (0x0a :: (be32 vs.length ++ (encVs vs ++ rest))) 5 [] rest
      (by simp [be32]) (by omega) (by omega) (by omega)
    rw [read_head h, if_neg (by omega), if_neg (by decide), if_neg (by decide), if_neg (by decide),
      if_neg (by decide), if_neg (by decide), if_neg (by decide), if_pos rfl]
    dsimp only
    rw [readArrayHdr_enc _ _ _ hw.1]
    dsimp only
    rw [hl]
    simp [member, enc]; omega

/-- the loops of `ReadObject` / `ReadArray` over encoded pairs followed by the end marker -/
theorem kvs_enc (lim : Nat) : (kvs : List (Bytes × Amf)) → wfKvs kvs = true →
    ∀ (fuel stack d : Nat) (b : Bytes) (index : Nat) (ops : Opa) (rest : Bytes),
    b.drop index = encKvs kvs ++ (0 :: 0 :: 9 :: rest) → kcost kvs ≤ fuel → depthKvs kvs ≤ stack →
    d + depthKvs kvs ≤ lim →
    objLoop lim fuel stack d b index ops = .ok (ops ++ members kvs, index + ((encKvs kvs).length + 3)) ∧
    arrLoop lim fuel stack d b kvs.length index ops = .ok (ops ++ members kvs, index + ((encKvs kvs).length + 3))
  | [], _, fuel, stack, d, b, index, ops, rest, h, hf, _, _ => by
    simp only [kcost] at hf
    obtain ⟨f, rfl⟩ : ∃ f, fuel = f + 1 := ⟨fuel - 1, by omega⟩
    simp only [encKvs, List.nil_append] at h
    constructor
    · rw [objLoop_end h]; simp [members, encKvs]
    · rw [List.length_nil, arrLoop_end h]; simp [members, encKvs]
  | (k, v) :: r, hw, fuel, stack, d, b, index, ops, rest, h, hf, hs, hd => by
    obtain ⟨hk, hv, hr⟩ := wfKvs_cons hw
    simp only [kcost] at hf
    simp only [depthKvs] at hs hd
    obtain ⟨f, rfl⟩ : ∃ f, fuel = f + 1 := ⟨fuel - 1, by omega⟩
    simp only [encKvs, List.append_assoc] at h
    have h2 : b.drop (index + (2 + k.length)) = enc v ++ (encKvs r ++ (0 :: 0 :: 9 :: rest)) := by
      have := drop_drop_of (p := be16 k.length ++ k) (t := enc v ++ (encKvs r ++ (0 :: 0 :: 9 :: rest)))
        (by rw [h]; simp)
      simpa [Nat.add_comm] using this
    have hv' := read_enc lim v hv f stack d b (index + (2 + k.length)) k ops _ h2 (by omega) (by omega) (by omega)
    have h3 : b.drop (index + (2 + k.length) + (enc v).length) = encKvs r ++ (0 :: 0 :: 9 :: rest) :=
      drop_drop_of h2
    have hr' := kvs_enc lim r hr f stack d b (index + (2 + k.length) + (enc v).length) (ops ++ member k v) rest h3
      (by omega) (by omega) (by omega)
    have e1 : ops ++ member k v ++ members r = ops ++ members ((k, v) :: r) := by
      simp [members]
    have e2 : index + (2 + k.length) + (enc v).length + ((encKvs r).length + 3)
        = index + ((encKvs ((k, v) :: r)).length + 3) := by
      simp [encKvs]; omega
    constructor
    · rw [objLoop_pair h hk, hv']
      dsimp only
      rw [hr'.1, e1, e2]
    · rw [List.length_cons, arrLoop_pair h hk, hv']
      dsimp only
      rw [hr'.2, e1, e2]

/-- the loop of `ReadStrictArray` over encoded values -/
theorem vs_enc (lim : Nat) : (vs : List Amf) → wfVs vs = true →
    ∀ (fuel stack d : Nat) (b : Bytes) (index : Nat) (ops : Opa) (rest : Bytes),
    b.drop index = encVs vs ++ rest → vcost vs ≤ fuel → depthVs vs ≤ stack → d + depthVs vs ≤ lim →
    strictLoop lim fuel stack d b vs.length index ops = .ok (ops ++ items vs, index + (encVs vs).length)
  | [], _, fuel, stack, d, b, index, ops, rest, _, hf, _, _ => by
    simp only [vcost] at hf
    obtain ⟨f, rfl⟩ : ∃ f, fuel = f + 1 := ⟨fuel - 1, by omega⟩
    rw [strictLoop.eq_def]
    simp [items, encVs]
  | v :: r, hw, fuel, stack, d, b, index, ops, rest, h, hf, hs, hd => by
    obtain ⟨hv, hr⟩ := wfVs_cons hw
    simp only [vcost] at hf
    simp only [depthVs] at hs hd
    obtain ⟨f, rfl⟩ : ∃ f, fuel = f + 1 := ⟨fuel - 1, by omega⟩
    simp only [encVs, List.append_assoc] at h
    have hv' := read_enc lim v hv f stack d b index [] ops _ h (by omega) (by omega) (by omega)
    have h3 : b.drop (index + (enc v).length) = encVs r ++ rest := drop_drop_of h
    have hr' := vs_enc lim r hr f stack d b (index + (enc v).length) (ops ++ member [] v) rest h3
      (by omega) (by omega) (by omega)
    rw [List.length_cons, strictLoop.eq_def]
    dsimp only
    rw [hv']
    dsimp only
    rw [hr']
    simp [items, encVs]; omega
end

end Lal.Amf0
