import LalModel.Proof.AdmissionBasic
/- C03 — every group of every reachable state keeps `Grp.Ok` (at most one input; the pipeline runs
   exactly while there is one), -/
namespace Lal.Adm
open Grp

abbrev OkAll (s : Srv) : Prop := AllG Grp.Ok s

/-- groups unchanged ⇒ the property of all groups is unchanged -/
theorem OkAll.same {s s' : Srv} (h : OkAll s) (e : s'.groups = s.groups) : OkAll s' := AllG.of_groups_eq h e

/-- the group of `st` replaced by an Ok one (and anything else that leaves `groups` alone) -/
theorem OkAll.set {s s' : Srv} (h : OkAll s) (st : Stream) {g : Grp} (hg : g.Ok) (e : s'.groups = (s.setG st g).groups) : OkAll s' :=
  AllG.of_groups_eq (AllG.setG h st hg) e

theorem OkAll.goc {s : Srv} (h : OkAll s) (st : Stream) : (s.getOrCreate st).Ok := AllG.getOrCreate h Grp.ok_init st

namespace Srv

theorem ok_onNewRtmpPub {s : Srv} (h : OkAll s) (x : Sid) (st : Stream) (a : Bool) : OkAll (s.onNewRtmpPub x st a).1 := by
  unfold onNewRtmpPub; split
  · exact h
  · dsimp only; split
    · exact OkAll.set h st (ok_addRtmpPub (OkAll.goc h st) x) (by simp)
    · exact h

theorem ok_onDelRtmpPub {s : Srv} (h : OkAll s) (x : Sid) (st : Stream) : OkAll (s.onDelRtmpPub x st) := by
  unfold onDelRtmpPub; split
  · exact h
  · rename_i g hg
    exact OkAll.set h st (ok_delRtmpPub (h st g hg) x) (by simp)

theorem ok_onNewRtmpSub {s : Srv} (h : OkAll s) (x : Sid) (st : Stream) (a : Bool) (n : Sid) : OkAll (s.onNewRtmpSub x st a n).1 := by
  unfold onNewRtmpSub; split
  · exact h
  · exact OkAll.set h st (ok_addRtmpSub (OkAll.goc h st) x n) (by simp)

theorem ok_onDelRtmpSub {s : Srv} (h : OkAll s) (x : Sid) (st : Stream) : OkAll (s.onDelRtmpSub x st) := by
  unfold onDelRtmpSub; split
  · exact h
  · rename_i g hg
    exact OkAll.set h st (ok_delRtmpSub (h st g hg) x) (by simp)

theorem ok_onNewRtspPub {s : Srv} (h : OkAll s) (x : Sid) (st : Stream) (a : Bool) : OkAll (s.onNewRtspPub x st a).1 := by
  unfold onNewRtspPub; split
  · exact h
  · dsimp only; split
    · exact OkAll.set h st (ok_addRtspPub (OkAll.goc h st) x) (by simp)
    · exact h

theorem ok_onDelRtspPub {s : Srv} (h : OkAll s) (x : Sid) (st : Stream) : OkAll (s.onDelRtspPub x st) := by
  unfold onDelRtspPub; split
  · exact h
  · rename_i g hg
    exact OkAll.set h st (ok_delRtspPub (h st g hg) x) (by simp)

theorem ok_onNewRtspSubDescribe {s : Srv} (h : OkAll s) (x : Sid) (st : Stream) (a : Bool) : OkAll (s.onNewRtspSubDescribe x st a).1 := by
  unfold onNewRtspSubDescribe; split
  · exact h
  · exact OkAll.set h st (ok_describeRtspSub (OkAll.goc h st) x) (by simp)

theorem ok_onNewRtspSubPlay {s : Srv} (h : OkAll s) (st : Stream) (n : Sid) : OkAll (s.onNewRtspSubPlay st n) := by
  unfold onNewRtspSubPlay
  exact OkAll.set h st (ok_playRtspSub (OkAll.goc h st) n) (by simp)

theorem ok_onDelRtspSub {s : Srv} (h : OkAll s) (x : Sid) (st : Stream) : OkAll (s.onDelRtspSub x st) := by
  unfold onDelRtspSub; split
  · exact h
  · rename_i g hg
    exact OkAll.set h st (ok_delRtspSub (h st g hg) x) (by simp)

theorem ok_delPull {s : Srv} (h : OkAll s) (x : Sid) (st : Stream) : OkAll (s.delPull Code.fixed x st) := by
  unfold delPull; split
  · exact h
  · rename_i g hg
    dsimp only
    exact OkAll.set h st (Grp.ok_delPull (h st g hg) x) (by simp)

end Srv

theorem ok_rtmpTail {s : Srv} (h : OkAll s) (c : Sid) (r : RConn) : OkAll (rtmpTail s c r) := by
  unfold rtmpTail; dsimp only
  have h1 : OkAll (s.modR c fun r => { r with closed := true }) := OkAll.same h (by simp)
  split
  · exact h1
  · split
    · exact Srv.ok_onDelRtmpPub h1 _ _
    · exact Srv.ok_onDelRtmpSub h1 _ _
    · exact h1

theorem ok_rtspTail {s : Srv} (h : OkAll s) (code : Code) (c : Sid) (k : SConn) : OkAll (rtspTail code s c k) := by
  unfold rtspTail; dsimp only
  have h1 : OkAll (s.setS c (.rtspConn { k with closed := true })) := OkAll.same h (by simp)
  split
  · split
    · split
      · exact OkAll.same h1 (by simp)
      · exact Srv.ok_onDelRtspPub (OkAll.same h1 (by simp)) _ _
    · exact h1
  · split
    · split
      · split
        · exact OkAll.same h1 (by simp)
        · exact Srv.ok_onDelRtspSub (OkAll.same h1 (by simp)) _ _
      · exact h1
    · exact h1


/-- closes `OkAll` goals about states that differ from an `OkAll` state only in `sess` / `log` -/
macro "ok_same " h:term : tactic => `(tactic| exact OkAll.same $h (by simp))

theorem ok_step {s : Srv} (h : OkAll s) (e : Ev) : OkAll (step Code.fixed s e).1 := by
  cases e <;> simp only [step]
  case rOpen c => unfold rOpen; split <;> first | exact h | ok_same h
  case rPublish c st a =>
    unfold rPublish; split
    · split
      · exact h
      · split
        · split
          · exact ok_rtmpTail h _ _
          · exact h
        · dsimp only
          have h1 : OkAll (s.modR c fun r => { r with typ := .pub, stream := st }) := OkAll.same h (by simp)
          split
          · exact OkAll.same (Srv.ok_onNewRtmpPub h1 c st a) (by simp)
          · ok_same h
    · exact h
  case rPlay c st a n =>
    unfold rPlay; split
    · split
      · exact h
      · split
        · split
          · exact ok_rtmpTail h _ _
          · exact h
        · dsimp only
          have h1 : OkAll (s.modR c fun r => { r with typ := .sub, stream := st }) := OkAll.same h (by simp)
          split
          · exact Srv.ok_onNewRtmpSub h1 c st a n
          · ok_same h
    · exact h
  case rMedia c => unfold rMedia; (repeat' split) <;> exact h
  case rClose c =>
    unfold rClose; split
    · split
      · exact h
      · exact ok_rtmpTail h _ _
    · exact h
  case sOpen c => unfold sOpen; split <;> first | exact h | ok_same h
  case sAnnounce c p st a =>
    unfold sAnnounce; split
    · split
      · exact h
      · split
        · exact ok_rtspTail h _ _ _
        · dsimp only
          have h1 : ∀ v w, OkAll ((s.setS c v).setS p w) := fun v w => OkAll.same h (by simp)
          split
          · intro k g hk
            simp only [Srv.modSP_groups] at hk
            exact Srv.ok_onNewRtspPub (h1 _ _) p st a k g hk
          · refine ok_rtspTail ?_ _ _ _
            intro k g hk
            simp only [Srv.modSP_groups] at hk
            exact h1 _ _ k g hk
    · exact h
  case sDescribe c q st a =>
    unfold sDescribe; split
    · split
      · exact h
      · split
        · exact ok_rtspTail h _ _ _
        · dsimp only
          have h1 : ∀ v w, OkAll ((s.setS c v).setS q w) := fun v w => OkAll.same h (by simp)
          split
          · intro k g hk
            simp only [Srv.modSS_groups] at hk
            exact Srv.ok_onNewRtspSubDescribe (h1 _ _) q st a k g hk
          · refine ok_rtspTail ?_ _ _ _
            intro k g hk
            simp only [Srv.modSS_groups] at hk
            exact h1 _ _ k g hk
    · exact h
  case sSetup c =>
    unfold sSetup; repeat' split
    all_goals first | exact h | exact ok_rtspTail h _ _ _
  case sRecord c => unfold sRecord; (repeat' split) <;> exact h
  case sPlay c n =>
    unfold sPlay; repeat' split
    all_goals first | exact h | exact ok_rtspTail h _ _ _ | exact Srv.ok_onNewRtspSubPlay h _ _
  case sMedia c =>
    unfold sMedia; repeat' split
    all_goals first | exact h | exact ok_rtspTail h _ _ _
  case sClose c =>
    unfold sClose; repeat' split
    all_goals first | exact h | exact ok_rtspTail h _ _ _
  case custAdd k st =>
    unfold custAdd; split
    · exact h
    · dsimp only; split
      · exact OkAll.set h st (Grp.ok_addCustPub (OkAll.goc h st) k) (by simp)
      · exact h
  case custDel k =>
    unfold custDel; split
    · split
      · exact h
      · dsimp only
        split
        · ok_same h
        · rename_i g hg
          simp only [Srv.modC_groups] at hg
          have key : ∀ (s' : Srv) (st' : Stream), s'.groups = s.groups → s.groups st' = some g → OkAll (s'.setG st' (g.delCustPub k).1) := fun s' st' e hg =>
            AllG.setG (OkAll.same h e) _ (Grp.ok_delCustPub (h _ g hg) k)
          split
          · intro k' g' hk
            simp only [Srv.modC_groups] at hk
            exact key (s.modC k _) _ (by simp) hg k' g' hk
          · exact key (s.modC k _) _ (by simp) hg
    · exact h
  case custFeed k => unfold custFeed; (repeat' split) <;> exact h
  case rtpPub k st =>
    unfold rtpPub; split
    · exact h
    · dsimp only; split
      · exact OkAll.set h st (Grp.ok_startRtpPub (OkAll.goc h st) k) (by simp)
      · exact h
  case psEnd k =>
    unfold psEnd; split
    · split
      · exact h
      · dsimp only
        split
        · ok_same h
        · rename_i g hg
          simp only [Srv.setS_groups] at hg
          exact AllG.setG (OkAll.same h (by simp)) _ (Grp.ok_delPsPub (h _ g hg) k)
    · exact h
  case psMedia k => unfold psMedia; (repeat' split) <;> exact h
  case startPull st r n nid =>
    unfold startPull; split
    · exact h
    · exact OkAll.set h st (Grp.ok_startPull (OkAll.goc h st) r n nid) (by simp)
  case pullAttach a =>
    unfold pullAttach; split
    · rename_i p hp
      split
      · exact h
      · split
        · exact h
        · rename_i g hg
          cases hr : p.rtsp
          · simp only [Bool.false_eq_true, ↓reduceIte]
            split
            · exact OkAll.set h p.stream (Grp.ok_addRtmpPull (h _ g hg) Code.fixed a) (by simp)
            · exact Srv.ok_delPull (s := s.modP a _) (OkAll.same h (by simp)) _ _
          · simp only [↓reduceIte]
            split
            · exact OkAll.set h p.stream (Grp.ok_addRtspPull (h _ g hg) Code.fixed a) (by simp)
            · exact Srv.ok_delPull (s := s.modP a _) (OkAll.same h (by simp)) _ _
    · exact h
  case pullDone a =>
    unfold pullDone; split
    · split
      · exact h
      · exact Srv.ok_delPull (s := s.modP a _) (OkAll.same h (by simp)) _ _
    · exact h
  case pullMedia a => unfold pullMedia; (repeat' split) <;> exact h
  case stopPull st =>
    unfold stopPull; split
    · exact h
    · rename_i g hg
      exact OkAll.set h st (Grp.ok_stopPull (h _ g hg) Code.fixed) (by simp)
  case kick st x =>
    unfold kick; split
    · exact h
    · rename_i g hg
      exact OkAll.set h st (Grp.ok_kick (h _ g hg) Code.fixed (kkind s x) x) (by simp)
  case tick st n =>
    unfold tick; split
    · exact h
    · split
      · exact h
      · rename_i g hg
        split
        · exact AllG.eraseG h st
        · exact OkAll.set h st (Grp.ok_tick (h _ g hg) n) (by simp)
  case stat st => exact h

theorem ok_init : OkAll init := by intro st g h; simp [init] at h

theorem ok_run (evs : List Ev) : OkAll (run Code.fixed evs) := by
  unfold run
  suffices h : ∀ s : Srv, OkAll s → OkAll (evs.foldl (fun s e => (step Code.fixed s e).1) s) from h init ok_init
  induction evs with
  | nil => intro s h; exact h
  | cons e r ih => intro s h; simp only [List.foldl]; exact ih _ (ok_step h e)

end Lal.Adm
