import LalModel.Model.RtmpServer
import LalModel.Proof.Amf0Top
import LalModel.Proof.Amf0Meta
import LalModel.Proof.Go
/- Helper lemmas for Props/C04.lean: a small Hoare logic over the session monad `M`, the packer buffer,
   the handlers, the read loop, the handshake. -/
namespace Lal.RtmpServer
open Lal Lal.Amf0

/-! ### Hoare triples over `M` -/

/-- from a state satisfying `P`, `m` does not panic and a normal return satisfies `Q` -/
def Safe {α} (P : Sess → Prop) (m : M α) (Q : α → Sess → Prop) : Prop :=
  ∀ s, P s → match m s with
    | .ok a s' => Q a s'
    | .err _ => True
    | .panic _ => False

theorem Safe.pure {α} {P : Sess → Prop} {Q : α → Sess → Prop} (a : α) (h : ∀ s, P s → Q a s) :
    Safe P (Pure.pure a : M α) Q := fun s hs => h s hs

theorem Safe.bind {α β} {P : Sess → Prop} {Q : α → Sess → Prop} {R' : β → Sess → Prop} {x : M α} {f : α → M β}
    (hx : Safe P x Q) (hf : ∀ a, Safe (Q a) (f a) R') : Safe P (x >>= f) R' := by
  intro s hs
  have h1 := hx s hs
  show match M.bind x f s with | .ok a s' => R' a s' | .err _ => True | .panic _ => False
  unfold M.bind
  cases hxs : x s with
  | ok a s' => rw [hxs] at h1; exact hf a s' h1
  | err s' => trivial
  | panic p => rw [hxs] at h1; exact h1

theorem Safe.conseq {α} {P P' : Sess → Prop} {Q Q' : α → Sess → Prop} {m : M α}
    (h : Safe P' m Q') (hp : ∀ s, P s → P' s) (hq : ∀ a s, Q' a s → Q a s) : Safe P m Q := by
  intro s hs
  have := h s (hp s hs)
  cases hm : m s with
  | ok a s' => rw [hm] at this; exact hq a s' this
  | err s' => trivial
  | panic p => rw [hm] at this; exact this

theorem Safe.fail {α} {P : Sess → Prop} {Q : α → Sess → Prop} : Safe P (fail : M α) Q := fun _ _ => trivial

theorem Safe.ite {α} {P : Sess → Prop} {Q : α → Sess → Prop} {c : Prop} [Decidable c] {a b : M α}
    (ha : c → Safe P a Q) (hb : ¬ c → Safe P b Q) : Safe P (if c then a else b) Q := by
  by_cases h : c
  · simp only [h, if_true]; exact ha h
  · simp only [h, if_false]; exact hb h

theorem Safe.getS {P : Sess → Prop} : Safe P getS (fun a s => a = s ∧ P s) := fun _ hs => ⟨rfl, hs⟩

theorem Safe.modS {P : Sess → Prop} {Q : Unit → Sess → Prop} (f : Sess → Sess) (h : ∀ s, P s → Q () (f s)) :
    Safe P (modS f) Q := fun s hs => h s hs

theorem Safe.emit {P : Sess → Prop} {Q : Unit → Sess → Prop} (e : Ev) (h : ∀ s, P s → Q () { s with evs := e :: s.evs }) :
    Safe P (emit e) Q := fun s hs => h s hs

theorem Safe.liftG {α} {P : Sess → Prop} {g : GoM α} (h : isPanic g = false) :
    Safe P (liftG g) (fun a s => g = .ok a ∧ P s) := by
  intro s hs
  unfold RtmpServer.liftG
  cases g with
  | ok a => exact ⟨rfl, hs⟩
  | error e =>
    cases e with
    | err => trivial
    | panic p => simp [isPanic] at h

theorem Safe.attempt {α} {P : Sess → Prop} {m : M α} (I : Sess → Prop)
    (h : Safe P m (fun _ s => I s)) (herr : ∀ s, P s → ∀ s', m s = .err s' → I s') :
    Safe P (attempt m) (fun _ s => I s) := by
  intro s hs
  have := h s hs
  unfold RtmpServer.attempt
  cases hm : m s with
  | ok a s' => rw [hm] at this; exact this
  | err s' => exact herr s hs s' hm
  | panic p => rw [hm] at this; exact this

/-! ### the packer buffer -/

def WOp.size : WOp → Nat
  | .w n => n
  | .b => 1

def scriptTotal (l : List WOp) : Nat := (l.map WOp.size).sum

theorem growTo_ge : ∀ (f l need : Nat), 1 ≤ l → need ≤ l + f → need ≤ growTo f l need ∧ l ≤ growTo f l need
  | 0, l, need, _, h => by simp only [growTo]; omega
  | f + 1, l, need, hl, h => by
    simp only [growTo]
    split
    · have := growTo_ge f (l * 2) need (by omega) (by omega)
      omega
    · omega

theorem PBuf.grow_ok (p : PBuf) (n : Nat) (hw : p.wpos ≤ p.cap) :
    ∃ p', p.grow n = .ok p' ∧ p.cap ≤ p'.cap ∧ p'.wpos = p.wpos ∧ p'.wpos + n ≤ p'.cap := by
  unfold PBuf.grow
  by_cases h : p.cap ≥ p.wpos + n
  · rw [if_pos h]; exact ⟨p, rfl, Nat.le_refl _, rfl, h⟩
  · rw [if_neg h, if_pos hw]
    have hg := growTo_ge (p.wpos + n) (if p.cap = 0 then 128 else p.cap * 2) (p.wpos + n)
      (by split <;> omega) (by omega)
    refine ⟨_, rfl, ?_, rfl, hg.1⟩
    show p.cap ≤ growTo _ _ _
    have : p.cap ≤ (if p.cap = 0 then 128 else p.cap * 2) := by split <;> omega
    omega

/-- every write into a buffer whose write position is inside it succeeds, whatever its size -/
theorem PBuf.step_ok (p : PBuf) (o : WOp) (hw : p.wpos ≤ p.cap) :
    ∃ p', p.step o = .ok p' ∧ p.cap ≤ p'.cap ∧ p'.wpos ≤ p'.cap ∧ p'.wpos = p.wpos + o.size := by
  cases o with
  | w n =>
    obtain ⟨p1, h1, hc, hp, hf⟩ := PBuf.grow_ok p n hw
    have h2 : p1.wpos ≤ p1.cap := by omega
    refine ⟨{ p1 with wpos := p1.wpos + n }, ?_, hc, hf, by simp [WOp.size, hp]⟩
    simp [PBuf.step, h1, bind, Except.bind, h2, Pure.pure, Except.pure]
  | b =>
    obtain ⟨p1, h1, hc, hp, hf⟩ := PBuf.grow_ok p 1 hw
    have h2 : p1.wpos < p1.cap := by omega
    refine ⟨{ p1 with wpos := p1.wpos + 1 }, ?_, hc, hf, by simp [WOp.size, hp]⟩
    simp [PBuf.step, h1, bind, Except.bind, h2, Pure.pure, Except.pure]

theorem PBuf.run_ok : ∀ (l : List WOp) (p : PBuf), p.wpos ≤ p.cap →
    ∃ p', p.run l = .ok p' ∧ p.cap ≤ p'.cap ∧ p'.wpos ≤ p'.cap ∧ p'.wpos = p.wpos + scriptTotal l := by
  intro l
  induction l with
  | nil =>
    intro p hw
    exact ⟨p, rfl, Nat.le_refl _, hw, by simp [scriptTotal]⟩
  | cons o os ih =>
    intro p hw
    obtain ⟨p1, h1, hc1, hw1, hp1⟩ := PBuf.step_ok p o hw
    obtain ⟨p2, h2, hc2, hw2, hp2⟩ := ih p1 hw1
    refine ⟨p2, ?_, by omega, hw2, ?_⟩
    · simp only [PBuf.run, h1, bind, Except.bind]; exact h2
    · simp only [scriptTotal, List.map_cons, List.sum_cons] at *; omega

/-- the harness-level API: a `ModWritePos` inside the buffer keeps every later operation safe -/
def legitSteps (cap : Nat) : List PStep → Bool
  | [] => true
  | .modWritePos pos :: r => decide (pos ≤ cap) && legitSteps cap r
  | _ :: r => legitSteps cap r

theorem pbufRun_ok : ∀ (l : List PStep) (p : PBuf) (c0 : Nat), c0 ≤ p.cap → p.wpos ≤ p.cap → legitSteps c0 l = true →
    ∃ p', pbufRun p l = .ok p' ∧ p'.wpos ≤ p'.cap := by
  intro l
  induction l with
  | nil => intro p _ _ hw _; exact ⟨p, rfl, hw⟩
  | cons st r ih =>
    intro p c0 hc hw hl
    cases st with
    | op o =>
      obtain ⟨p1, h1, hc1, hw1, _⟩ := PBuf.step_ok p o hw
      obtain ⟨p2, h2, hw2⟩ := ih p1 c0 (by omega) hw1 (by simpa [legitSteps] using hl)
      exact ⟨p2, by simp only [pbufRun, h1, bind, Except.bind]; exact h2, hw2⟩
    | modWritePos pos =>
      simp only [legitSteps, Bool.and_eq_true, decide_eq_true_eq] at hl
      exact ih { p with wpos := pos } c0 hc (by show pos ≤ p.cap; omega) hl.2
    | reset => exact ih { p with wpos := 0 } c0 hc (Nat.zero_le _) (by simpa [legitSteps] using hl)

/-! ### invariants -/

/-- the packer buffer's initial capacity -/
abbrev K : Nat := Gen.c04PackerInitCap

/-- the fields replies and events do not touch -/
def SameCore (s0 s : Sess) : Prop :=
  s.role = s0.role ∧ s.avObs = s0.avObs ∧ s.queued = s0.queued ∧ s.readTo = s0.readTo ∧ s.writeTo = s0.writeTo

/-- `s` has the connection-level fields of `s0` and a packer buffer at least as large as the initial one -/
def CI (s0 s : Sess) : Prop := K ≤ s.pb.cap ∧ SameCore s0 s

/-- session invariant: the packer buffer never shrinks below its initial capacity, and a session that is neither
    publisher nor subscriber has not modified its connection -/
structure Inv (s : Sess) : Prop where
  cap : K ≤ s.pb.cap
  fresh : s.role = .unknown → s.queued = false ∧ s.readTo = false ∧ s.writeTo = false

theorem CI.refl {s : Sess} (h : K ≤ s.pb.cap) : CI s s := ⟨h, rfl, rfl, rfl, rfl, rfl⟩

theorem Inv.of_CI {s0 s : Sess} (h0 : Inv s0) (h : CI s0 s) : Inv s := by
  obtain ⟨hc, hr, _, hq, hrt, hwt⟩ := h
  exact ⟨hc, fun hu => by rw [hq, hrt, hwt]; exact h0.fresh (by rw [← hr]; exact hu)⟩

/-- a reply script the server may send: the body fits one chunk; the 12-byte header room fits the initial buffer -/
def okScript (l : List WOp) : Bool :=
  decide (scriptTotal l ≤ Gen.c04LocalChunkSize) && decide (12 ≤ K)

theorem connWrite_safe (env : Env) (typ len : Nat) (s0 : Sess) :
    Safe (CI s0) (connWrite env typ len) (fun _ => CI s0) := by
  intro s hs
  unfold connWrite
  by_cases hq : s.queued = true
  · rw [if_pos hq]; exact hs
  · rw [if_neg hq]
    cases env.wfail with
    | none => exact hs
    | some k =>
      dsimp only
      by_cases hk : s.nwrites ≥ k
      · rw [if_pos hk]; trivial
      · rw [if_neg hk]; exact hs

theorem sendReply_safe (env : Env) (csid typ : Nat) (script : List WOp) (hok : okScript script = true) (hc : csid ≤ 63)
    (s0 : Sess) : Safe (CI s0) (sendReply env csid typ script) (fun _ => CI s0) := by
  simp only [okScript, Bool.and_eq_true, decide_eq_true_eq] at hok
  obtain ⟨htot, h12⟩ := hok
  intro s hs
  have hK : K ≤ s.pb.cap := hs.1
  obtain ⟨p, hrun, hcap, hw, hwp⟩ := PBuf.run_ok script { s.pb with wpos := 12 } (by show 12 ≤ s.pb.cap; omega)
  have hcap' : s.pb.cap ≤ p.cap := hcap
  have hwp' : p.wpos = 12 + scriptTotal script := hwp
  have hb : ((p.wpos : Int) - 12 ≤ (Gen.c04LocalChunkSize : Int)) := by omega
  have h1 : ¬ p.wpos > p.cap := by omega
  have h2 : ¬ csid > 63 := by omega
  have h3 : ¬ p.wpos < 12 := by omega
  have hcw := connWrite_safe env typ p.wpos s0 { s with pb := p } ⟨by simp; omega, hs.2⟩
  simp only [sendReply, bind, M.bind, getS, liftG, hrun, hb, h1, h2, h3, if_true, if_false, modS]
  cases hx : connWrite env typ p.wpos { s with pb := p } with
  | ok a s' =>
    rw [hx] at hcw
    simp only []
    exact ⟨by simp; omega, hcw.2⟩
  | err s' => simp only []
  | panic q => rw [hx] at hcw; exact hcw.elim

/-! ### handlers -/

theorem ok_ctl4 : okScript scriptCtl4 = true := by decide
theorem ok_bw : okScript scriptPeerBandwidth = true := by decide
theorem ok_uc : okScript scriptUserControl = true := by decide
theorem ok_connectResult : okScript scriptConnectResult = true := by decide
theorem ok_createStreamResult : okScript scriptCreateStreamResult = true := by decide
theorem ok_onStatusPublish : okScript scriptOnStatusPublish = true := by decide
theorem ok_onStatusPlay : okScript scriptOnStatusPlay = true := by decide
theorem csid_pc : Gen.c04CsidProtocolControl ≤ 63 := by decide
theorem csid_oc : Gen.c04CsidOverConnection ≤ 63 := by decide
theorem csid_os : Gen.c04CsidOverStream ≤ 63 := by decide

theorem writeAck_safe (env : Env) (s0 : Sess) : Safe (CI s0) (writeAckIfNeeded env) (fun _ => CI s0) := by
  unfold writeAckIfNeeded
  refine Safe.bind Safe.getS (fun s => ?_)
  refine Safe.conseq (P' := CI s0) (Q' := fun _ => CI s0) ?_ (fun _ h => h.2) (fun _ _ h => h)
  apply Safe.ite
  · intro _; exact Safe.pure () (fun _ h => h)
  · intro _
    dsimp only
    apply Safe.ite
    · intro _; exact Safe.pure () (fun _ h => h)
    · intro _
      exact Safe.bind (Safe.modS _ (fun _ h => h)) (fun _ => sendReply_safe env _ 3 _ ok_ctl4 csid_pc s0)

theorem doWinAckSize_safe (payload : Bytes) (s0 : Sess) : Safe (CI s0) (doWinAckSize payload) (fun _ => CI s0) := by
  unfold doWinAckSize
  apply Safe.ite
  · intro _; exact Safe.fail
  · intro h
    have h4 : isPanic (beUint32? payload) = false := by rw [beUint32?_of_le (by omega)]; rfl
    exact Safe.bind (Safe.liftG h4) (fun _ => Safe.modS _ (fun _ h => h.2))

theorem doAck_safe (payload : Bytes) (s0 : Sess) : Safe (CI s0) (doAck payload) (fun _ => CI s0) := by
  unfold doAck
  apply Safe.ite
  · intro _; exact Safe.fail
  · intro h
    have h4 : isPanic (beUint32? payload) = false := by rw [beUint32?_of_le (by omega)]; rfl
    exact Safe.bind (Safe.liftG h4) (fun _ => Safe.pure () (fun _ h => h.2))

theorem doUserControl_safe (env : Env) (payload : Bytes) (s0 : Sess) :
    Safe (CI s0) (doUserControl env payload) (fun _ => CI s0) := by
  unfold doUserControl
  apply Safe.ite
  · intro _; exact Safe.fail
  · intro h
    have h2 : isPanic (beUint16? payload) = false := by rw [beUint16?_of_le (by omega)]; rfl
    refine Safe.bind (Safe.liftG h2) (fun t => ?_)
    refine Safe.conseq (P' := CI s0) (Q' := fun _ => CI s0) ?_ (fun _ h => h.2) (fun _ _ h => h)
    apply Safe.ite
    · intro _
      apply Safe.ite
      · intro _; exact Safe.fail
      · intro h6
        dsimp only
        have h4 : isPanic (beUint32? (payload.drop 2)) = false := by
          rw [beUint32?_of_le (by rw [List.length_drop]; omega)]; rfl
        refine Safe.bind (Safe.liftG h4) (fun _ => ?_)
        exact Safe.conseq (sendReply_safe env _ 4 _ ok_uc csid_pc s0) (fun _ h => h.2) (fun _ _ h => h)
    · intro _; exact Safe.pure () (fun _ h => h)

theorem callAvObserver_safe (typ : Nat) (payload : Bytes) (s0 : Sess) :
    Safe (fun s => s.avObs = true ∧ CI s0 s) (callAvObserver typ payload) (fun _ => CI s0) := by
  intro s hs
  simp only [callAvObserver, bind, M.bind, getS]
  rw [if_pos hs.1]
  exact hs.2

theorem doAv_safe (typ : Nat) (payload : Bytes) (s0 : Sess) : Safe (CI s0) (doAv typ payload) (fun _ => CI s0) := by
  unfold doAv
  refine Safe.bind Safe.getS (fun s => ?_)
  apply Safe.ite
  · intro _; exact Safe.fail
  · intro h
    refine Safe.conseq (callAvObserver_safe typ payload s0) (fun s' h' => ⟨?_, h'.2⟩) (fun _ _ h => h)
    rw [← h'.1]
    cases hb : s.avObs with
    | true => rfl
    | false => exact absurd (Or.inr hb) h

theorem doData_safe (typ : Nat) (payload : Bytes) (s0 : Sess) :
    Safe (CI s0) (doDataMessageAmf0 typ payload) (fun _ => CI s0) := by
  unfold doDataMessageAmf0
  refine Safe.bind Safe.getS (fun s => ?_)
  apply Safe.ite
  · intro _; exact Safe.fail
  · intro h
    have hav : s.avObs = true := by
      cases hb : s.avObs with
      | true => rfl
      | false => exact absurd (Or.inr hb) h
    refine Safe.bind (Safe.liftG (readString_bd payload).notPanic) (fun x => ?_)
    obtain ⟨val, l⟩ := x
    dsimp only
    apply Safe.ite
    · intro _; exact Safe.pure () (fun _ h => h.2.2)
    · intro _
      exact Safe.conseq (callAvObserver_safe typ payload s0) (fun s' h' => ⟨by rw [← h'.2.1]; exact hav, h'.2.2⟩) (fun _ _ h => h)

theorem Safe.getS_bind {α} {P : Sess → Prop} {Q : α → Sess → Prop} {f : Sess → M α}
    (h : ∀ s, P s → Safe (fun s' => s' = s) (f s) Q) : Safe P (RtmpServer.getS >>= f) Q := by
  intro s hs
  show match M.bind RtmpServer.getS f s with | .ok a s' => Q a s' | .err _ => True | .panic _ => False
  simp only [M.bind, RtmpServer.getS]
  exact h s hs s rfl

/-- packer capacity and role only: what is left to maintain once the session has become publisher or subscriber -/
def P2 (r : Role) (s : Sess) : Prop := K ≤ s.pb.cap ∧ s.role = r

theorem modConnProps_safe (s0 : Sess) (hq : s0.queued = false) (hr : s0.readTo = false) (hw : s0.writeTo = false) :
    Safe (CI s0) modConnProps (fun _ => P2 s0.role) := by
  unfold modConnProps
  apply Safe.getS_bind
  intro s hs
  obtain ⟨hc, h1, _, h3, h4, h5⟩ := hs
  have hq' : ¬ s.queued = true := by rw [h3, hq]; simp
  have hr' : ¬ s.readTo = true := by rw [h4, hr]; simp
  have hw' : ¬ s.writeTo = true := by rw [h5, hw]; simp
  rw [if_neg hq']
  refine Safe.bind (Q := fun _ => P2 s0.role) (Safe.modS _ (fun s' h' => ?_)) (fun _ => ?_)
  · subst h'; exact ⟨hc, h1⟩
  · cases hrole : s.role with
    | unknown => exact Safe.pure () (fun _ h => h)
    | pub =>
      dsimp only
      rw [if_neg hr']
      exact Safe.modS _ (fun _ h => h)
    | sub =>
      dsimp only
      rw [if_neg hw']
      exact Safe.modS _ (fun _ h => h)

theorem amf_stack : amfLim ≤ amfFrames + 1 := by decide

theorem doConnect_safe (env : Env) (p : Bytes) (s0 : Sess) : Safe (CI s0) (doConnect env p) (fun _ => CI s0) := by
  unfold doConnect
  refine Safe.bind (Safe.liftG (readObject_bd amfLim amfFrames p amf_stack).notPanic) (fun x => ?_)
  obtain ⟨opa, l⟩ := x
  dsimp only
  refine Safe.conseq (P' := CI s0) (Q' := fun _ => CI s0) ?_ (fun _ h => h.2) (fun _ _ h => h)
  split
  · exact Safe.fail
  · refine Safe.bind (Q := fun _ => CI s0) (Safe.emit _ (fun _ h => h)) (fun _ => ?_)
    refine Safe.bind (sendReply_safe env _ 5 _ ok_ctl4 csid_pc s0) (fun _ => ?_)
    refine Safe.bind (sendReply_safe env _ 6 _ ok_bw csid_pc s0) (fun _ => ?_)
    refine Safe.bind (sendReply_safe env _ 1 _ ok_ctl4 csid_pc s0) (fun _ => ?_)
    exact sendReply_safe env _ 20 _ ok_connectResult csid_oc s0

theorem doCreateStream_safe (env : Env) (s0 : Sess) : Safe (CI s0) (doCreateStream env) (fun _ => CI s0) :=
  sendReply_safe env _ 20 _ ok_createStreamResult csid_oc s0

theorem splitQ_ne_nil : ∀ b : Bytes, splitQ b ≠ []
  | [] => by simp [splitQ]
  | c :: r => by
    unfold splitQ
    split
    · simp
    · split <;> simp

theorem streamNameParts_safe (site : String) (name : Bytes) (P : Sess → Prop) :
    Safe P (streamNameParts site name) (fun _ => P) := by
  unfold streamNameParts
  dsimp only
  have hne := splitQ_ne_nil name
  cases hss : splitQ name with
  | nil => exact absurd hss hne
  | cons a t =>
    simp only [List.getElem?_cons_zero]
    apply Safe.ite
    · intro hl
      cases t with
      | nil => simp at hl
      | cons b t' =>
        simp only [List.getElem?_cons_succ, List.getElem?_cons_zero]
        exact Safe.pure () (fun _ h => h)
    · intro _; exact Safe.pure () (fun _ h => h)

theorem Inv.of_P2 {r : Role} {s : Sess} (h : P2 r s) (hr : r ≠ .unknown) : Inv s :=
  ⟨h.1, fun hu => absurd (h.2 ▸ hu) hr⟩

theorem role_unknown_of_not {s : Sess} (h : ¬ s.role ≠ .unknown) : s.role = .unknown := by
  cases hr : s.role with
  | unknown => rfl
  | pub => rw [hr] at h; simp at h
  | sub => rw [hr] at h; simp at h

theorem liftG_keep {α} {P : Sess → Prop} {g : GoM α} (h : isPanic g = false) : Safe P (liftG g) (fun _ => P) :=
  Safe.conseq (Safe.liftG h) (fun _ h => h) (fun _ _ h => h.2)

theorem attempt_liftG_keep {α} {P : Sess → Prop} {g : GoM α} (h : isPanic g = false) :
    Safe P (attempt (liftG g)) (fun _ => P) := by
  intro s hs
  unfold RtmpServer.attempt RtmpServer.liftG
  cases g with
  | ok a => exact hs
  | error e =>
    cases e with
    | err => exact hs
    | panic p => simp [isPanic] at h

theorem doPublish_safe (env : Env) (p : Bytes) : Safe Inv (doPublish env p) (fun _ => Inv) := by
  unfold doPublish
  apply Safe.getS_bind
  intro s hI
  apply Safe.ite
  · intro _; exact Safe.fail
  · intro hrole
    have hrole := role_unknown_of_not hrole
    obtain ⟨hq, hr, hw⟩ := hI.fresh hrole
    refine Safe.conseq (P' := CI s) (Q' := fun _ => Inv) ?_ (fun s' h => by subst h; exact CI.refl hI.cap) (fun _ _ h => h)
    refine Safe.bind (liftG_keep (readNull_notPanic p)) (fun l => ?_)
    dsimp only
    refine Safe.bind (liftG_keep (readString_bd _).notPanic) (fun x => ?_)
    obtain ⟨name, l1⟩ := x
    dsimp only
    refine Safe.bind (streamNameParts_safe _ name _) (fun _ => ?_)
    refine Safe.bind (attempt_liftG_keep (readString_bd _).notPanic) (fun _ => ?_)
    refine Safe.bind (sendReply_safe env _ 20 _ ok_onStatusPublish csid_os s) (fun _ => ?_)
    refine Safe.bind (Q := fun _ => CI { s with role := .pub }) (Safe.modS _ ?_) (fun _ => ?_)
    · intro s' hs'
      obtain ⟨hc, _, h2, h3, h4, h5⟩ := hs'
      exact ⟨hc, rfl, h2, h3, h4, h5⟩
    refine Safe.bind (modConnProps_safe { s with role := .pub } hq hr hw) (fun _ => ?_)
    refine Safe.bind (Q := fun _ => P2 .pub) (Safe.emit _ (fun _ h => h)) (fun _ => ?_)
    apply Safe.ite
    · intro _; exact Safe.bind (Q := fun _ _ => True) (Safe.modS _ (fun _ _ => trivial)) (fun _ => Safe.fail)
    · intro _
      apply Safe.ite
      · intro _; exact Safe.modS _ (fun _ h => Inv.of_P2 (r := .pub) h (by simp))
      · intro _; exact Safe.pure () (fun _ h => Inv.of_P2 (r := .pub) h (by simp))

theorem doPlay_safe (env : Env) (p : Bytes) : Safe Inv (doPlay env p) (fun _ => Inv) := by
  unfold doPlay
  apply Safe.getS_bind
  intro s hI
  apply Safe.ite
  · intro _; exact Safe.fail
  · intro hrole
    have hrole := role_unknown_of_not hrole
    obtain ⟨hq, hr, hw⟩ := hI.fresh hrole
    refine Safe.conseq (P' := CI s) (Q' := fun _ => Inv) ?_ (fun s' h => by subst h; exact CI.refl hI.cap) (fun _ _ h => h)
    refine Safe.bind (liftG_keep (readNull_notPanic p)) (fun l => ?_)
    dsimp only
    refine Safe.bind (liftG_keep (readString_bd _).notPanic) (fun x => ?_)
    obtain ⟨name, l1⟩ := x
    dsimp only
    refine Safe.bind (streamNameParts_safe _ name _) (fun _ => ?_)
    refine Safe.bind (sendReply_safe env _ 4 _ ok_uc csid_pc s) (fun _ => ?_)
    refine Safe.bind (sendReply_safe env _ 4 _ ok_uc csid_pc s) (fun _ => ?_)
    refine Safe.bind (sendReply_safe env _ 20 _ ok_onStatusPlay csid_os s) (fun _ => ?_)
    refine Safe.bind (Q := fun _ => CI { s with role := .sub }) (Safe.modS _ ?_) (fun _ => ?_)
    · intro s' hs'
      obtain ⟨hc, _, h2, h3, h4, h5⟩ := hs'
      exact ⟨hc, rfl, h2, h3, h4, h5⟩
    refine Safe.bind (modConnProps_safe { s with role := .sub } hq hr hw) (fun _ => ?_)
    refine Safe.bind (Q := fun _ => P2 .sub) (Safe.emit _ (fun _ h => h)) (fun _ => ?_)
    apply Safe.ite
    · intro _; exact Safe.bind (Q := fun _ _ => True) (Safe.modS _ (fun _ _ => trivial)) (fun _ => Safe.fail)
    · intro _; exact Safe.pure () (fun _ h => Inv.of_P2 (r := .sub) h (by simp))

/-- lifting a `CI`-preserving step to the invariant -/
theorem Safe.inv_of_CI {α} {m : M α} (h : ∀ s0, Safe (CI s0) m (fun _ => CI s0)) : Safe Inv m (fun _ => Inv) := by
  intro s hs
  have := h s s (CI.refl hs.cap)
  cases hx : m s with
  | ok a s' => rw [hx] at this; exact Inv.of_CI hs this
  | err _ => trivial
  | panic _ => rw [hx] at this; exact this

theorem doCommandMessage_safe (env : Env) (payload : Bytes) : Safe Inv (doCommandMessage env payload) (fun _ => Inv) := by
  unfold doCommandMessage
  refine Safe.bind (liftG_keep (readString_bd _).notPanic) (fun x => ?_)
  obtain ⟨cmd, l⟩ := x
  dsimp only
  refine Safe.bind (liftG_keep (readNumber_bd _).notPanic) (fun x => ?_)
  obtain ⟨tid, l2⟩ := x
  dsimp only
  apply Safe.ite
  · intro _; exact Safe.inv_of_CI (doConnect_safe env _)
  · intro _
    apply Safe.ite
    · intro _; exact Safe.inv_of_CI (doCreateStream_safe env)
    · intro _
      apply Safe.ite
      · intro _; exact doPublish_safe env _
      · intro _
        apply Safe.ite
        · intro _; exact doPlay_safe env _
        · intro _; exact Safe.pure () (fun _ h => h)

theorem doMsg_safe (env : Env) (typ : Nat) (payload : Bytes) : Safe Inv (doMsg env typ payload) (fun _ => Inv) := by
  unfold doMsg
  refine Safe.bind (Safe.inv_of_CI (writeAck_safe env)) (fun _ => ?_)
  apply Safe.ite
  · intro _; exact Safe.inv_of_CI (doWinAckSize_safe payload)
  · intro _
    apply Safe.ite
    · intro _; exact Safe.pure () (fun _ h => h)
    · intro _
      apply Safe.ite
      · intro _; exact doCommandMessage_safe env payload
      · intro _
        apply Safe.ite
        · intro _; exact doCommandMessage_safe env _
        · intro _
          apply Safe.ite
          · intro _; exact Safe.inv_of_CI (doData_safe typ payload)
          · intro _
            apply Safe.ite
            · intro _; exact Safe.inv_of_CI (doAck_safe payload)
            · intro _
              apply Safe.ite
              · intro _; exact Safe.inv_of_CI (doUserControl_safe env payload)
              · intro _
                apply Safe.ite
                · intro _; exact Safe.inv_of_CI (doAv_safe typ payload)
                · intro _; exact Safe.pure () (fun _ h => h)

theorem deliver_safe (env : Env) : ∀ ms : List Chunk.Msg, Safe Inv (deliver env ms) (fun _ => Inv)
  | [] => Safe.pure () (fun _ h => h)
  | m :: ms => Safe.bind (doMsg_safe env m.hdr.typ m.payload) (fun _ => deliver_safe env ms)

/-! ### the read loop: every chunk consumes at least one byte -/

theorem parseBasic_len {inp r : Bytes} {f c : Nat} (h : Chunk.parseBasic inp = some (f, c, r)) : r.length < inp.length := by
  unfold Chunk.parseBasic at h
  cases inp with
  | nil => simp at h
  | cons b0 r0 =>
    dsimp only at h
    split at h
    · cases r0 with
      | nil => simp at h
      | cons x r' => simp only [Option.some.injEq, Prod.mk.injEq] at h; rw [← h.2.2]; simp; omega
    · split at h
      · cases r0 with
        | nil => simp at h
        | cons x r' =>
          cases r' with
          | nil => simp at h
          | cons y r'' => simp only [Option.some.injEq, Prod.mk.injEq] at h; rw [← h.2.2]; simp; omega
      · simp only [Option.some.injEq, Prod.mk.injEq] at h; rw [← h.2.2]; simp

theorem parseMsgHeader_len {fmt : Nat} {s s' : Chunk.Stream} {r1 r : Bytes}
    (h : Chunk.parseMsgHeader fmt s r1 = some (s', r)) : r.length ≤ r1.length := by
  unfold Chunk.parseMsgHeader at h
  split at h
  · split at h
    · simp only [Option.some.injEq, Prod.mk.injEq] at h; rw [← h.2]; simp; omega
    · simp at h
  · split at h
    · split at h
      · simp only [Option.some.injEq, Prod.mk.injEq] at h; rw [← h.2]; simp; omega
      · simp at h
    · split at h
      · split at h
        · simp only [Option.some.injEq, Prod.mk.injEq] at h; rw [← h.2]; simp; omega
        · simp at h
      · simp only [Option.some.injEq, Prod.mk.injEq] at h; rw [← h.2]; exact Nat.le_refl _

theorem parseExt_len {fmt : Nat} {s s' : Chunk.Stream} {r2 r : Bytes}
    (h : Chunk.parseExt fmt s r2 = some (s', r)) : r.length ≤ r2.length := by
  unfold Chunk.parseExt at h
  split at h
  · split at h
    · simp only [Option.some.injEq, Prod.mk.injEq] at h; rw [← h.2]; simp; omega
    · simp at h
  · simp only [Option.some.injEq, Prod.mk.injEq] at h; rw [← h.2]; exact Nat.le_refl _

theorem takeBody_len {c c' : Chunk.Composer} {csid : Nat} {s2 : Chunk.Stream} {r3 rest : Bytes} {ms : List Chunk.Msg}
    (h : Chunk.takeBody c csid s2 r3 = .ok c' ms rest) : rest.length ≤ r3.length := by
  unfold Chunk.takeBody at h
  dsimp only at h
  repeat' (split at h)
  all_goals first
    | (cases h; done)
    | (injection h with _ _ h3; rw [← h3]; simp)

theorem readChunk_len {c c' : Chunk.Composer} {inp rest : Bytes} {ms : List Chunk.Msg}
    (h : Chunk.readChunk c inp = .ok c' ms rest) : rest.length < inp.length := by
  unfold Chunk.readChunk at h
  split at h
  · cases h
  · rename_i fmt csid r1 hb
    split at h
    · cases h
    · rename_i s1 r2 hm
      split at h
      · cases h
      · rename_i s2 r3 he
        have := parseBasic_len hb
        have := parseMsgHeader_len hm
        have := parseExt_len he
        have := takeBody_len h
        omega

/-- a result that is not a panic and whose final state (when there is one) satisfies the invariant -/
def NoPanic {α} : R α → Prop
  | .panic _ => False
  | _ => True

theorem readLoop_noPanic (env : Env) : ∀ (fuel : Nat) (c : Chunk.Composer) (inp : Bytes) (s : Sess),
    inp.length < fuel → Inv s → NoPanic (readLoop env fuel c inp s) := by
  intro fuel
  induction fuel with
  | zero => intro c inp s h; omega
  | succ n ih =>
    intro c inp s hlen hI
    unfold readLoop
    dsimp only
    have hI1 : Inv { s with readSum := s.readSum + consumedBy c inp } := ⟨hI.cap, hI.fresh⟩
    have hd := fun ms => deliver_safe env ms _ hI1
    split
    · trivial
    · rename_i ms _
      have := hd ms
      split
      · trivial
      · trivial
      · rename_i hx; rw [hx] at this; exact this
    · rename_i c' ms rest hrc
      have := hd ms
      split
      · rename_i s' hx
        rw [hx] at this
        exact ih c' rest s' (by have := readChunk_len hrc; omega) this
      · trivial
      · rename_i hx; rw [hx] at this; exact this

/-! ### handshake -/

theorem keyLen_eq : keyLen = 32 := by decide

theorem upto?_of_le {site : String} {b : Bytes} {j : Nat} (h : j ≤ b.length) : upto? site b j = .ok (b.take j) := by
  simp [upto?, h]

theorem mdwcp_ok (hm : Hmac) (b : Bytes) (offs : Nat) (key : Bytes) (h : offs + keyLen ≤ b.length) :
    ∃ d, makeDigestWithoutCenterPart hm b offs key = .ok d := by
  unfold makeDigestWithoutCenterPart
  have h1 : offs ≤ b.length := by omega
  by_cases h0 : offs ≠ 0
  · by_cases h2 : b.length > offs + keyLen
    · simp [h0, h2, upto?_of_le h1, from?_of_le h]
    · simp [h0, h2, upto?_of_le h1]
  · by_cases h2 : b.length > offs + keyLen
    · simp [h0, h2, from?_of_le h]
    · simp [h0, h2]

theorem digestOffs_le (x0 x1 x2 x3 : UInt8) (base : Nat) : digestOffs x0 x1 x2 x3 base ≤ base + 731 := by
  unfold digestOffs
  have := Nat.mod_lt (x0.toNat + x1.toNat + x2.toNat + x3.toNat) (by decide : 728 > 0)
  omega

theorem findDigest_ok (hm : Hmac) (b : Bytes) (base : Nat) (key : Bytes) (h : base + 731 + keyLen ≤ b.length) :
    ∃ r, findDigest hm b base key = .ok r ∧ ∀ o, r = some o → o + keyLen ≤ b.length := by
  have hk := keyLen_eq
  unfold findDigest
  rw [idx?_of_lt (by omega), idx?_of_lt (by omega), idx?_of_lt (by omega), idx?_of_lt (by omega)]
  simp only [GoM.ok_bind]
  have ho := digestOffs_le b[base] b[base + 1] b[base + 2] b[base + 3] base
  obtain ⟨d, hd⟩ := mdwcp_ok hm b (digestOffs b[base] b[base + 1] b[base + 2] b[base + 3] base) key (by omega)
  rw [hd, slice?_of_le (by omega) (by omega)]
  simp only [GoM.ok_bind, GoM.pure_eq]
  refine ⟨_, rfl, ?_⟩
  intro o ho'
  split at ho'
  · cases ho'; omega
  · cases ho'

theorem parseChallenge_ok (hm : Hmac) (b peerKey key : Bytes) (h : b.length = 1537) :
    ∃ r, parseChallenge hm b peerKey key = .ok r := by
  have hk := keyLen_eq
  unfold parseChallenge
  rw [from?_of_le (by omega), GoM.ok_bind, beUint32?_of_le (by rw [List.length_drop]; omega), GoM.ok_bind]
  split
  · exact ⟨_, rfl⟩
  · rw [from?_of_le (by omega), GoM.ok_bind]
    have hl : (b.drop 1).length = 1536 := by rw [List.length_drop]; omega
    obtain ⟨r1, h1, hb1⟩ := findDigest_ok hm (b.drop 1) (764 + 8) peerKey (by omega)
    rw [h1, GoM.ok_bind]
    have fin : ∀ o, o + keyLen ≤ (b.drop 1).length →
        ∃ r, (match (some o : Option Nat) with
          | none => (pure none : GoM (Option Bytes))
          | some offs => do
            let d ← slice? "parseChallenge:b[1+offs:1+offs+keyLen]" b (1 + offs) (1 + offs + keyLen)
            pure (some (hm key d))) = .ok r := by
      intro o ho
      dsimp only
      rw [slice?_of_le (by omega) (by omega), GoM.ok_bind]
      exact ⟨_, rfl⟩
    cases r1 with
    | some o =>
      dsimp only
      rw [GoM.pure_eq, GoM.ok_bind]
      exact fin o (hb1 o rfl)
    | none =>
      dsimp only
      obtain ⟨r2, h2, hb2⟩ := findDigest_ok hm (b.drop 1) 8 peerKey (by omega)
      rw [h2, GoM.ok_bind]
      cases r2 with
      | none => exact ⟨_, rfl⟩
      | some o => exact fin o (hb2 o rfl)

theorem ite_ok {α} {c : Prop} [Decidable c] {A B : GoM α} (ha : ∃ x, A = .ok x) (hb : ∃ x, B = .ok x) :
    ∃ x, (if c then A else B) = .ok x := by
  split
  · exact ha
  · exact hb

theorem readC0C1_ok (hm : Hmac) (s1 c0c1 : Bytes) (h : c0c1.length = 1537) (hs1 : s1.length = 1536) :
    ∃ simple, readC0C1 hm s1 c0c1 = .ok simple := by
  have hk := keyLen_eq
  unfold readC0C1
  obtain ⟨r, hr⟩ := parseChallenge_ok hm c0c1 clientPartKey serverFullKey h
  rw [hr, GoM.ok_bind]
  dsimp only
  apply ite_ok
  · rw [from?_of_le (by omega), GoM.ok_bind]; exact ⟨_, rfl⟩
  · rw [idx?_of_lt (by omega), idx?_of_lt (by omega), idx?_of_lt (by omega), idx?_of_lt (by omega)]
    simp only [GoM.ok_bind]
    have hmod := Nat.mod_lt (s1[8].toNat + s1[9].toNat + s1[10].toNat + s1[11].toNat) (by decide : 728 > 0)
    obtain ⟨d1, hd1⟩ := mdwcp_ok hm s1 ((s1[8].toNat + s1[9].toNat + s1[10].toNat + s1[11].toNat) % 728 + 12) serverPartKey (by omega)
    rw [hd1, GoM.ok_bind]
    have h3073 : Gen.c04HsS0s1s2Len = 3073 := by decide
    have h1536 : Gen.c04HsS2Len = 1536 := by decide
    rw [if_pos (by omega), GoM.pure_eq, GoM.ok_bind]
    obtain ⟨d2, hd2⟩ := mdwcp_ok hm (List.replicate Gen.c04HsS2Len (0 : UInt8)) (Gen.c04HsS2Len - keyLen) (r.getD [])
      (by rw [List.length_replicate]; omega)
    rw [hd2, GoM.ok_bind, from?_of_le (by rw [List.length_replicate]; omega), GoM.ok_bind]
    exact ⟨_, rfl⟩

theorem run_total (hm : Hmac) (env : Env) (s1 inp : Bytes) (hs1 : s1.length = 1536) : ∃ o, run hm env s1 inp = .ok o := by
  unfold run
  have hc : c0c1Len = 1537 := by decide
  split
  · exact ⟨_, rfl⟩
  · rename_i hlen
    obtain ⟨simple, hsim⟩ := readC0C1_ok hm s1 (inp.take c0c1Len) (by rw [List.length_take]; omega) hs1
    rw [hsim]
    dsimp only
    split
    · exact ⟨_, rfl⟩
    · split
      · exact ⟨_, rfl⟩
      · have := readLoop_noPanic env (((inp.drop c0c1Len).drop c2Len).length + 1) {} ((inp.drop c0c1Len).drop c2Len)
          { nwrites := 1, readSum := c0c1Len + c2Len } (by omega) ⟨Nat.le_refl _, fun _ => ⟨rfl, rfl, rfl⟩⟩
        split
        · exact ⟨_, rfl⟩
        · exact ⟨_, rfl⟩
        · rename_i hx; rw [hx] at this; exact this.elim

end Lal.RtmpServer
