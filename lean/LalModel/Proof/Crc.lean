import LalModel.Model.Crc
import LalModel.Spec.TsSpec
import LalModel.Proof.Bytes
namespace Lal.Crc
open Lal Lal.TsSpec

/-- the 32-bit value with its four bytes in the opposite order -/
def bswap32 (n : Nat) : Nat :=
  n % 256 * 16777216 + n / 256 % 256 * 65536 + n / 65536 % 256 * 256 + n / 16777216 % 256

theorem bswap32_lt (n : Nat) : bswap32 n < 4294967296 := by unfold bswap32; omega
theorem compose_bytes (x0 x1 x2 x3 : Nat) (h0 : x0 < 256) (h1 : x1 < 256) (h2 : x2 < 256) (h3 : x3 < 256) :
    (x0 * 16777216 + x1 * 65536 + x2 * 256 + x3) % 256 = x3
    ∧ (x0 * 16777216 + x1 * 65536 + x2 * 256 + x3) / 256 % 256 = x2
    ∧ (x0 * 16777216 + x1 * 65536 + x2 * 256 + x3) / 65536 % 256 = x1
    ∧ (x0 * 16777216 + x1 * 65536 + x2 * 256 + x3) / 16777216 % 256 = x0 := by
  refine ⟨?_, ?_, ?_, ?_⟩ <;> omega
theorem bswap32_b0 (n : Nat) : bswap32 n % 256 = n / 16777216 % 256 :=
  (compose_bytes _ _ _ _ (Nat.mod_lt _ (by decide)) (Nat.mod_lt _ (by decide)) (Nat.mod_lt _ (by decide)) (Nat.mod_lt _ (by decide))).1
theorem bswap32_b1 (n : Nat) : bswap32 n / 256 % 256 = n / 65536 % 256 :=
  (compose_bytes _ _ _ _ (Nat.mod_lt _ (by decide)) (Nat.mod_lt _ (by decide)) (Nat.mod_lt _ (by decide)) (Nat.mod_lt _ (by decide))).2.1
theorem bswap32_b2 (n : Nat) : bswap32 n / 65536 % 256 = n / 256 % 256 :=
  (compose_bytes _ _ _ _ (Nat.mod_lt _ (by decide)) (Nat.mod_lt _ (by decide)) (Nat.mod_lt _ (by decide)) (Nat.mod_lt _ (by decide))).2.2.1
theorem bswap32_b3 (n : Nat) : bswap32 n / 16777216 % 256 = n % 256 :=
  (compose_bytes _ _ _ _ (Nat.mod_lt _ (by decide)) (Nat.mod_lt _ (by decide)) (Nat.mod_lt _ (by decide)) (Nat.mod_lt _ (by decide))).2.2.2

theorem xor_lt32 {a b : Nat} (ha : a < 4294967296) (hb : b < 4294967296) : a ^^^ b < 4294967296 :=
  Nat.xor_lt_two_pow (n := 32) ha hb

theorem xor_byte0 (a b : Nat) : (a ^^^ b) % 256 = a % 256 ^^^ b % 256 := Nat.xor_mod_two_pow (n := 8)
theorem xor_byte1 (a b : Nat) : (a ^^^ b) / 256 % 256 = a / 256 % 256 ^^^ b / 256 % 256 := by
  rw [show (256 : Nat) = 2 ^ 8 from rfl, Nat.xor_div_two_pow, Nat.xor_mod_two_pow]
theorem xor_byte2 (a b : Nat) : (a ^^^ b) / 65536 % 256 = a / 65536 % 256 ^^^ b / 65536 % 256 := by
  rw [show (65536 : Nat) = 2 ^ 16 from rfl, show (256 : Nat) = 2 ^ 8 from rfl, Nat.xor_div_two_pow, Nat.xor_mod_two_pow]
theorem xor_byte3 (a b : Nat) : (a ^^^ b) / 16777216 % 256 = a / 16777216 % 256 ^^^ b / 16777216 % 256 := by
  rw [show (16777216 : Nat) = 2 ^ 24 from rfl, show (256 : Nat) = 2 ^ 8 from rfl, Nat.xor_div_two_pow, Nat.xor_mod_two_pow]

theorem eq_of_bytes {a b : Nat} (ha : a < 4294967296) (hb : b < 4294967296)
    (h0 : a % 256 = b % 256) (h1 : a / 256 % 256 = b / 256 % 256) (h2 : a / 65536 % 256 = b / 65536 % 256)
    (h3 : a / 16777216 % 256 = b / 16777216 % 256) : a = b := by omega


theorem bswap32_xor (a b : Nat) : bswap32 (a ^^^ b) = bswap32 a ^^^ bswap32 b := by
  apply eq_of_bytes (bswap32_lt _) (xor_lt32 (bswap32_lt _) (bswap32_lt _))
  · rw [xor_byte0, bswap32_b0, bswap32_b0, bswap32_b0, xor_byte3]
  · rw [xor_byte1, bswap32_b1, bswap32_b1, bswap32_b1, xor_byte2]
  · rw [xor_byte2, bswap32_b2, bswap32_b2, bswap32_b2, xor_byte1]
  · rw [xor_byte3, bswap32_b3, bswap32_b3, bswap32_b3, xor_byte0]

/-! linearity of the register shift -/

theorem crcShift_lt (c : Nat) : crcShift c < 4294967296 := by
  unfold crcShift
  split
  · exact xor_lt32 (by omega) (by decide)
  · omega

theorem crcShift_eq (c : Nat) :
    crcShift c = (c * 2 % 4294967296) ^^^ (if c / 2147483648 % 2 = 1 then 0x04C11DB7 else 0) := by
  unfold crcShift; split <;> simp

theorem crcShift_xor (a b : Nat) : crcShift (a ^^^ b) = crcShift a ^^^ crcShift b := by
  rw [crcShift_eq, crcShift_eq a, crcShift_eq b]
  have h1 : (a ^^^ b) * 2 % 4294967296 = (a * 2 % 4294967296) ^^^ (b * 2 % 4294967296) := by
    have := @Nat.shiftLeft_xor_distrib 1 a b
    simp only [Nat.shiftLeft_eq, Nat.pow_one] at this
    rw [this, show (4294967296 : Nat) = 2 ^ 32 from rfl, Nat.xor_mod_two_pow]
  have h2 : (a ^^^ b) / 2147483648 % 2 = (a / 2147483648 % 2) ^^^ (b / 2147483648 % 2) := by
    rw [show (2147483648 : Nat) = 2 ^ 31 from rfl, show (2 : Nat) = 2 ^ 1 from rfl, Nat.xor_div_two_pow, Nat.xor_mod_two_pow]
  rw [h1, h2]
  generalize a * 2 % 4294967296 = A
  generalize b * 2 % 4294967296 = B
  have ha : a / 2147483648 % 2 = 0 ∨ a / 2147483648 % 2 = 1 := by omega
  have hb : b / 2147483648 % 2 = 0 ∨ b / 2147483648 % 2 = 1 := by omega
  have hpp : ∀ x : Nat, x ^^^ 0x04C11DB7 ^^^ 0x04C11DB7 = x := by
    intro x; rw [Nat.xor_assoc, Nat.xor_self, Nat.xor_zero]
  rcases ha with ha | ha <;> rcases hb with hb | hb <;> rw [ha, hb] <;> simp
  · ac_rfl
  · ac_rfl
  · have : A ^^^ 0x04C11DB7 ^^^ (B ^^^ 0x04C11DB7) = (A ^^^ B) ^^^ 0x04C11DB7 ^^^ 0x04C11DB7 := by ac_rfl
    rw [this, hpp]


/-- eight register shifts -/
def shift8 (c : Nat) : Nat := crcShift (crcShift (crcShift (crcShift (crcShift (crcShift (crcShift (crcShift c)))))))

theorem crcByte_eq (c : Nat) (v : UInt8) : crcByte c v = shift8 (c ^^^ (v.toNat * 16777216)) := rfl

theorem shift8_xor (a b : Nat) : shift8 (a ^^^ b) = shift8 a ^^^ shift8 b := by
  simp only [shift8, crcShift_xor]

theorem shift8_lt (c : Nat) : shift8 c < 4294967296 := crcShift_lt _

theorem crcShift_small (c : Nat) (h : c < 2147483648) : crcShift c = c * 2 := by
  unfold crcShift
  rw [if_neg (by omega)]
  omega

theorem shift8_small (c : Nat) (h : c < 16777216) : shift8 c = c * 256 := by
  unfold shift8
  rw [crcShift_small c (by omega), crcShift_small (c * 2) (by omega), crcShift_small (c * 2 * 2) (by omega),
    crcShift_small (c * 2 * 2 * 2) (by omega), crcShift_small (c * 2 * 2 * 2 * 2) (by omega),
    crcShift_small (c * 2 * 2 * 2 * 2 * 2) (by omega), crcShift_small (c * 2 * 2 * 2 * 2 * 2 * 2) (by omega),
    crcShift_small (c * 2 * 2 * 2 * 2 * 2 * 2 * 2) (by omega)]
  omega

theorem mul_top_lt (x : Nat) (hx : x < 256) : x * 16777216 < 4294967296 := by omega

theorem top_bytes (x : Nat) (hx : x < 256) :
    x * 16777216 % 256 = 0 ∧ x * 16777216 / 256 % 256 = 0 ∧ x * 16777216 / 65536 % 256 = 0
    ∧ x * 16777216 / 16777216 % 256 = x := by
  refine ⟨?_, ?_, ?_, ?_⟩ <;> omega

/-- splitting the register into its top byte and the rest commutes with xor-ing a byte into the top -/
theorem xor_top (c v : Nat) (hc : c < 4294967296) (hv : v < 256) :
    c ^^^ (v * 16777216) = ((c / 16777216 ^^^ v) * 16777216) ^^^ (c % 16777216) := by
  have hvl : v * 16777216 < 4294967296 := by omega
  have hml : c % 16777216 < 4294967296 := by omega
  have e0 : c % 16777216 % 256 = c % 256 := by omega
  have e1 : c % 16777216 / 256 % 256 = c / 256 % 256 := by omega
  have e2 : c % 16777216 / 65536 % 256 = c / 65536 % 256 := by omega
  have e3 : c % 16777216 / 16777216 % 256 = 0 := by omega
  have e4 : c / 16777216 % 256 = c / 16777216 := by omega
  have hc8 : c / 16777216 < 2 ^ 8 := by omega
  obtain ⟨a0, a1, a2, a3⟩ := top_bytes v hv
  have hx : c / 16777216 ^^^ v < 256 := Nat.xor_lt_two_pow (n := 8) hc8 hv
  have hlt : (c / 16777216 ^^^ v) * 16777216 < 4294967296 := mul_top_lt _ hx
  obtain ⟨b0, b1, b2, b3⟩ := top_bytes _ hx
  apply eq_of_bytes (xor_lt32 hc hvl) (xor_lt32 hlt hml)
  · rw [xor_byte0, xor_byte0, a0, b0, Nat.xor_zero, Nat.zero_xor, e0]
  · rw [xor_byte1, xor_byte1, a1, b1, Nat.xor_zero, Nat.zero_xor, e1]
  · rw [xor_byte2, xor_byte2, a2, b2, Nat.xor_zero, Nat.zero_xor, e2]
  · rw [xor_byte3, xor_byte3, a3, b3, e3, e4, Nat.xor_zero]

/-- the table-driven byte step of the specification register -/
theorem crcByte_table (c : Nat) (v : UInt8) (hc : c < 4294967296) :
    crcByte c v = crcByte 0 (b8 (c / 16777216 ^^^ v.toNat)) ^^^ (c % 16777216 * 256) := by
  have hv : v.toNat < 256 := v.toNat_lt
  have hx : c / 16777216 ^^^ v.toNat < 256 := Nat.xor_lt_two_pow (n := 8) (by omega) hv
  rw [crcByte_eq, crcByte_eq, xor_top c v.toNat hc hv, shift8_xor, shift8_small (c % 16777216) (by omega)]
  simp only [b8_toNat, Nat.zero_xor]
  rw [Nat.mod_eq_of_lt hx]


theorem shl8_bytes (X : Nat) (_hX : X < 16777216) :
    X * 256 % 256 = 0 ∧ X * 256 / 256 % 256 = X % 256 ∧ X * 256 / 65536 % 256 = X / 256 % 256
    ∧ X * 256 / 16777216 % 256 = X / 65536 % 256 := by
  refine ⟨?_, ?_, ?_, ?_⟩ <;> omega

theorem mod24_bytes (Y : Nat) :
    Y % 16777216 % 256 = Y % 256 ∧ Y % 16777216 / 256 % 256 = Y / 256 % 256 ∧ Y % 16777216 / 65536 % 256 = Y / 65536 % 256 := by
  refine ⟨?_, ?_, ?_⟩ <;> omega

theorem shr8_bytes (s : Nat) (hs : s < 4294967296) :
    s / 256 / 16777216 % 256 = 0 ∧ s / 256 / 65536 % 256 = s / 16777216 % 256 ∧ s / 256 / 256 % 256 = s / 65536 % 256 := by
  refine ⟨?_, ?_, ?_⟩ <;> omega

theorem bswap32_shr8 (s : Nat) (hs : s < 4294967296) : bswap32 (s / 256) = bswap32 s % 16777216 * 256 := by
  obtain ⟨a0, a1, a2, a3⟩ := shl8_bytes (bswap32 s % 16777216) (Nat.mod_lt _ (by decide))
  obtain ⟨m0, m1, m2⟩ := mod24_bytes (bswap32 s)
  obtain ⟨r0, r1, r2⟩ := shr8_bytes s hs
  have hlt : bswap32 s % 16777216 * 256 < 4294967296 := by
    have : bswap32 s % 16777216 < 16777216 := Nat.mod_lt _ (by decide)
    generalize bswap32 s % 16777216 = X at this ⊢
    omega
  apply eq_of_bytes (bswap32_lt _) hlt
  · rw [bswap32_b0, a0, r0]
  · rw [bswap32_b1, a1, m0, bswap32_b0, r1]
  · rw [bswap32_b2, a2, m1, bswap32_b1, r2]
  · rw [bswap32_b3, a3, m2, bswap32_b2]

theorem bswap32_top (s : Nat) : bswap32 s / 16777216 = s % 256 := by
  have := bswap32_b3 s
  have := bswap32_lt s
  generalize bswap32 s = Y at *
  omega

/-- Table facts the step needs: every entry is the byte-swapped result of eight shifts of the index in the top byte. -/
def TableOk (tab : List Nat) : Prop :=
  ∀ i, i < 256 → tab.getD i 0 < 4294967296 ∧ bswap32 (tab.getD i 0) = crcByte 0 (b8 i)

theorem tableStep_spec (tab : List Nat) (ht : TableOk tab) (s : Nat) (v : UInt8) (hs : s < 4294967296) :
    tableStep tab s v < 4294967296 ∧ bswap32 (tableStep tab s v) = crcByte (bswap32 s) v := by
  have hv : v.toNat < 256 := v.toNat_lt
  have hs8 : s % 256 < 2 ^ 8 := by omega
  have hs24 : s / 256 < 4294967296 := by omega
  have hidx : s % 256 ^^^ v.toNat < 256 := Nat.xor_lt_two_pow (n := 8) hs8 hv
  obtain ⟨t1, t2⟩ := ht _ hidx
  unfold tableStep
  refine ⟨xor_lt32 t1 hs24, ?_⟩
  rw [bswap32_xor, t2, crcByte_table _ _ (bswap32_lt s), bswap32_top, bswap32_shr8 s hs]

theorem calcCrc_spec (tab : List Nat) (ht : TableOk tab) : ∀ (bs : Bytes) (s : Nat), s < 4294967296 →
    bs.foldl (tableStep tab) s < 4294967296 ∧ bswap32 (bs.foldl (tableStep tab) s) = crc32From (bswap32 s) bs := by
  intro bs
  induction bs with
  | nil => intro s hs; exact ⟨hs, rfl⟩
  | cons b bs ih =>
    intro s hs
    obtain ⟨h1, h2⟩ := tableStep_spec tab ht s b hs
    obtain ⟨i1, i2⟩ := ih _ h1
    simp only [List.foldl_cons, crc32From]
    refine ⟨i1, ?_⟩
    rw [i2, h2]; rfl


theorem bswap32_bswap32 (n : Nat) (h : n < 4294967296) : bswap32 (bswap32 n) = n := by
  apply eq_of_bytes (bswap32_lt _) h
  · rw [bswap32_b0, bswap32_b3]
  · rw [bswap32_b1, bswap32_b2]
  · rw [bswap32_b2, bswap32_b1]
  · rw [bswap32_b3, bswap32_b0]

theorem b8_congr {a b : Nat} (h : a % 256 = b % 256) : b8 a = b8 b := by unfold b8; rw [h]

/-- storing the byte-swapped register little-endian = storing the register big-endian -/
theorem le32_eq_be32_bswap (n : Nat) : le32 n = be32 (bswap32 n) := by
  have h0 := bswap32_b0 n
  have h1 := bswap32_b1 n
  have h2 := bswap32_b2 n
  have h3 := bswap32_b3 n
  unfold le32 be32
  rw [b8_congr (a := n) (b := bswap32 n / 16777216) (by rw [h3]),
      b8_congr (a := n / 256) (b := bswap32 n / 65536) (by rw [h2]),
      b8_congr (a := n / 65536) (b := bswap32 n / 256) (by rw [h1]),
      b8_congr (a := n / 16777216) (b := bswap32 n) (by rw [h0])]

/-- the regenerated table, checked entry by entry against the bitwise definition -/
def tableCheck (tab : List Nat) : Bool :=
  (List.range 256).all fun i => decide (tab.getD i 0 < 4294967296) && bswap32 (tab.getD i 0) == crcByte 0 (b8 i)

theorem tableOk_of_check (tab : List Nat) (h : tableCheck tab = true) : TableOk tab := by
  intro i hi
  have := List.all_eq_true.mp h i (List.mem_range.mpr hi)
  simpa using this

end Lal.Crc
