import LalModel.Model.Url
import LalModel.Proof.Auth
import LalModel.Proof.Path
/-
  `url.ParseQuery` (Model/Url.lean) on the plain query `lal_secret=<v>`.
-/
namespace Lal.Url
open Lal.Str

/-- no character that the query syntax treats specially: `&`, `;`, `%`, `+`, `=` -/
def Plain (v : Bytes) : Prop := ∀ c ∈ v, c ≠ 38 ∧ c ≠ 59 ∧ c ≠ 37 ∧ c ≠ 43 ∧ c ≠ 61

theorem unescape_cons_ne (p : Bool) (x : UInt8) (r : Bytes) (h : x ≠ 37) :
    unescape p (x :: r) =
      match unescape p r with
      | some t => some ((if p && x == 43 then 32 else x) :: t)
      | none => none := by
  rw [unescape]
  all_goals first | rfl | (intros; simp_all)

theorem unescape_plain (v : Bytes) (h : Plain v) : unescape true v = some v := by
  induction v with
  | nil => rfl
  | cons x r ih =>
    have hx := h x List.mem_cons_self
    have hr : Plain r := fun c hc => h c (List.mem_cons_of_mem _ hc)
    rw [unescape_cons_ne true x r hx.2.2.1, ih hr]
    simp [hx.2.2.2.1]

theorem secretName_plain : Plain (asc "lal_secret") := by
  unfold Plain; decide

theorem parseQuery_plain (v : Bytes) (h : Plain v) :
    parseQuery (asc "lal_secret=" ++ v) = some [(asc "lal_secret", v)] := by
  have hq : asc "lal_secret=" ++ v = asc "lal_secret" ++ 61 :: v := by
    have : asc "lal_secret=" = asc "lal_secret" ++ [61] := by decide
    rw [this]; simp
  have hall : ∀ c ∈ asc "lal_secret" ++ 61 :: v, c ≠ 38 ∧ c ≠ 59 := by
    intro c hc
    rcases List.mem_append.mp hc with h1 | h1
    · have := secretName_plain c h1; exact ⟨this.1, this.2.1⟩
    · rcases List.mem_cons.mp h1 with h2 | h2
      · rw [h2]; decide
      · have := h c h2; exact ⟨this.1, this.2.1⟩
  have hne : asc "lal_secret" ++ 61 :: v ≠ [] := by simp [asc]
  have hamp : (38 : UInt8) ∉ asc "lal_secret" ++ 61 :: v := fun hm => (hall 38 hm).1 rfl
  have hsemi : (asc "lal_secret" ++ 61 :: v).contains 59 = false := by
    simp only [List.contains_eq_mem, decide_eq_false_iff_not]
    exact fun hm => (hall 59 hm).2 rfl
  have hcut : cut 61 (asc "lal_secret" ++ 61 :: v) = (asc "lal_secret", v, true) :=
    Auth.cut_append _ _ (by decide)
  have hpiece : queryPiece (asc "lal_secret" ++ 61 :: v) = some (some (asc "lal_secret", v)) := by
    unfold queryPiece
    rw [hsemi]
    simp only [Bool.false_eq_true, if_false, hne, hcut, unescape_plain _ secretName_plain, unescape_plain _ h]
  rw [hq]
  unfold parseQuery parseQueryAll
  rw [if_neg hne, Path.splitByte_noSep hamp]
  simp [hpiece]

end Lal.Url
