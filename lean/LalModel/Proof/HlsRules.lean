import LalModel.Proof.HlsInv
/- The rules for appending to the open fragment and for opening a fragment. -/
namespace Lal.HlsC
open Lal Lal.Hls Lal.Fs

variable {PP : Bytes → Prop} {kd aw rdy : Prop} {c : Cfg} {base : Nat} {m : Mux} {o : Obs}

theorem firstVideoKey_append_audio {fs : List Frame} {g : Frame} (hg : g.audio = true) :
    firstVideoKey (fs ++ [g]) ↔ firstVideoKey fs := by
  induction fs with
  | nil => simp [firstVideoKey, hg]
  | cons f fs ih =>
    simp only [List.cons_append, firstVideoKey]
    by_cases hf : f.audio = true
    · simp [hf, ih]
    · simp [hf]

theorem firstVideoKey_append_of_video {fs : List Frame} {g : Frame} (h : firstVideoKey fs) (hv : ¬ noVideoIn fs) :
    firstVideoKey (fs ++ [g]) := by
  induction fs with
  | nil => exact absurd (fun f hf => by cases hf) hv
  | cons f fs ih =>
    simp only [List.cons_append, firstVideoKey] at h ⊢
    by_cases hf : f.audio = true
    · simp only [hf, if_true] at h ⊢
      apply ih h
      intro hn
      apply hv
      intro f' hf'
      cases hf' with
      | head => exact hf
      | tail _ h' => exact hn f' h'
    · simp only [hf] at h ⊢
      exact h

theorem firstVideoKey_append_key {fs : List Frame} {g : Frame} (h : firstVideoKey fs) (hk : g.key = true) :
    firstVideoKey (fs ++ [g]) := by
  induction fs with
  | nil =>
    simp only [List.nil_append, firstVideoKey]
    by_cases hg : g.audio = true
    · simp [hg]
    · simp [hg, hk]
  | cons f fs ih =>
    simp only [List.cons_append, firstVideoKey] at h ⊢
    by_cases hf : f.audio = true
    · simp only [hf, if_true] at h ⊢; exact ih h
    · simp only [hf] at h ⊢; exact h

theorem noVideoIn_append {fs : List Frame} {g : Frame} : noVideoIn (fs ++ [g]) ↔ noVideoIn fs ∧ g.audio = true := by
  unfold noVideoIn
  constructor
  · intro h
    exact ⟨fun f hf => h f (List.mem_append_left _ hf), h g (List.mem_append_right _ (List.mem_singleton_self g))⟩
  · intro ⟨h1, h2⟩ f hf
    rcases List.mem_append.mp hf with h | h
    · exact h1 f h
    · rw [List.mem_singleton.mp h]; exact h2

/-- The key-frame clause when an AUDIO frame is appended. -/
theorem keyClause_audio {fs : List Frame} {g : Frame} (hg : g.audio = true)
    (h : firstVideoKey fs ∧ (noVideoIn fs → kd ∨ aw)) :
    firstVideoKey (fs ++ [g]) ∧ (noVideoIn (fs ++ [g]) → kd ∨ aw) :=
  ⟨(firstVideoKey_append_audio hg).mpr h.1, fun hn => h.2 (noVideoIn_append.mp hn).1⟩

/-- The key-frame clause when the frame in flight is appended: afterwards nothing is awaited any more. -/
theorem keyClause_outer {fs : List Frame} {g : Frame} (hkd : kd → g.audio = true) (haw : aw → g.audio = false ∧ g.key = true)
    (h : firstVideoKey fs ∧ (noVideoIn fs → kd ∨ aw)) :
    firstVideoKey (fs ++ [g]) ∧ (noVideoIn (fs ++ [g]) → kd ∨ False) := by
  by_cases hn : noVideoIn fs
  · rcases h.2 hn with hk | ha
    · exact ⟨(firstVideoKey_append_audio (hkd hk)).mpr h.1, fun _ => Or.inl hk⟩
    · refine ⟨firstVideoKey_append_key h.1 (haw ha).2, fun hn' => ?_⟩
      have := (noVideoIn_append.mp hn').2
      rw [(haw ha).1] at this; cases this
  · exact ⟨firstVideoKey_append_of_video h.1 hn, fun hn' => absurd (noVideoIn_append.mp hn').1 hn⟩

/-- `m.fragment.WriteFile(tsPackets)` of frame `g` into the open fragment. -/
theorem inv_write (h : Inv PP kd aw rdy c base m o) (ho : m.opened = true) (g : Frame) (hg : g.pkts.length % 188 = 0)
    {aw' : Prop}
    (hk : ∀ fs, firstVideoKey fs ∧ (noVideoIn fs → kd ∨ aw) → firstVideoKey (fs ++ [g]) ∧ (noVideoIn (fs ++ [g]) → kd ∨ aw')) :
    Good PP c.delThr (o.step (.write m.cur (.frame g))) ∧ Inv PP kd aw' rdy c base m (o.step (.write m.cur (.frame g))) := by
  obtain ⟨now, pp, fs, hcur, hname, hfile, hpp, hfs, hkey⟩ := h.curSeg ho
  have happ := apply_write_data (d := o.dir) (p := m.cur) (Chunk.frame g) (by rw [hcur]; exact hfile)
  have hgood := inv_frame_good h.good (op := .write m.cur (.frame g))
    (by rw [happ, hcur]; exact set_other _ _ (by simp))
    (fun now' id ⟨k, v, _, hkv, _, h2⟩ => by
      rw [happ, hcur]
      apply set_other
      have := listed_lt_cid h hkv
      simp only [ne_eq, Path.seg.injEq, not_and]
      omega)
  refine ⟨hgood.1, ?_⟩
  constructor
  · exact h.ring
  · exact hgood.1
  · exact h.pp
  · intro x now' h1 h2 h3 h4
    rw [step_dir, happ, hcur, set_other _ _ (by simp only [ne_eq, Path.seg.injEq, not_and]; omega)]
    exact h.closedSegs x now' h1 h2 h3 h4
  · intro _
    refine ⟨now, pp, fs ++ [g], hcur, hname, ?_, hpp, ?_, fun hd => hk fs (hkey hd)⟩
    · rw [step_dir, happ, hcur, set_same]; simp
    · intro f hf
      rcases List.mem_append.mp hf with h' | h'
      · exact hfs f h'
      · rw [List.mem_singleton.mp h']; exact hg
  · intro k v hkv
    rw [hgood.2] at hkv; exact h.vers k v hkv

/-! ### opening a fragment -/

/-- the state `openFragment` reaches before it calls the observer -/
def openMux (c : Cfg) (m : Mux) (now ts : Nat) (discont : Bool) : Mux :=
  { m with opened := true, cur := .seg now (fragmentId m), fragTs := ts,
           frags := m.frags.set (fragIdx c m m.nfrags)
             { id := fragmentId m, dur := 0, discont := discont, name := some (now, fragmentId m) } }

def openOps (m : Mux) (now : Nat) : List FOp :=
  [.create (.seg now (fragmentId m)), .write (.seg now (fragmentId m)) (.patpmt m.patpmt)]

theorem openFragment_eq (nested : Nested) (now ts : Nat) (discont : Bool) (d : Dir) (pend : Option Frame)
    (hc : m.opened = false) :
    openFragment c nested now ts discont m d pend =
      match pend with
      | none => { m := openMux c m now ts discont, pend := none, ops := openOps m now, ok := true }
      | some a =>
        { m := (nested (openMux c m now ts discont) (applyAll under d (openOps m now)) a).1, pend := none,
          ops := openOps m now ++ (nested (openMux c m now ts discont) (applyAll under d (openOps m now)) a).2, ok := true } := by
  unfold openFragment
  simp only [hc, Bool.false_eq_true, if_false]
  cases pend <;> rfl

theorem cid_openMux (now ts : Nat) (discont : Bool) : cid (openMux c m now ts discont) = cid m := rfl

theorem slot_openMux_self (hl : m.frags.length = c.cap) (now ts : Nat) (discont : Bool) :
    slot c (openMux c m now ts discont) (cid m) = { id := cid m, dur := 0, discont := discont, name := some (now, cid m) } := by
  have := slot_set_same c m (cid m) { id := cid m, dur := 0, discont := discont, name := some (now, cid m) } hl
  exact this

theorem slot_openMux_other (now ts : Nat) (discont : Bool) {x : Nat} (hx : x % c.cap ≠ cid m % c.cap) :
    slot c (openMux c m now ts discont) x = slot c m x :=
  slot_set_other c m x (cid m) _ hx

theorem inv_open (h : Inv PP kd aw rdy c base m o) (hr : rdy) (hc : m.opened = false) (now ts : Nat) (discont : Bool)
    (hb : discont = false → kd ∨ aw) :
    AllGood PP c.delThr o (openOps m now) ∧
    Inv PP kd aw rdy c base (openMux c m now ts discont) (o.run (openOps m now)) := by
  have hcidm : fragmentId m = cid m := rfl
  have hnxt : nxt m = cid m := by unfold nxt; simp [hc]
  -- create
  have happ1 : Fs.apply under o.dir (.create (.seg now (cid m))) =
      Fs.set o.dir (.seg now (cid m)) (some { content := .data [], isOpen := true }) := rfl
  have hg1 := inv_frame_good h.good (op := .create (.seg now (cid m)))
    (by rw [happ1]; exact set_other _ _ (by simp))
    (fun now' id ⟨k, v, _, hkv, _, h2⟩ => by
      rw [happ1]; apply set_other
      have := listed_lt_cid h hkv
      simp only [ne_eq, Path.seg.injEq, not_and]; omega)
  -- write PAT/PMT
  have hd1 : (o.step (.create (.seg now (cid m)))).dir (.seg now (cid m)) = some { content := .data [], isOpen := true } := by
    rw [step_dir, happ1, set_same]
  have happ2 := apply_write_data (d := (o.step (.create (.seg now (cid m)))).dir) (p := .seg now (cid m)) (Chunk.patpmt m.patpmt) hd1
  have hg2 := inv_frame_good hg1.1 (op := .write (.seg now (cid m)) (.patpmt m.patpmt))
    (by rw [happ2]; exact set_other _ _ (by simp))
    (fun now' id ⟨k, v, _, hkv, _, h2⟩ => by
      rw [happ2]; apply set_other
      rw [hg1.2] at hkv
      have := listed_lt_cid h hkv
      simp only [ne_eq, Path.seg.injEq, not_and]; omega)
  have hdir : ∀ q, q ≠ .seg now (cid m) → (o.run (openOps m now)).dir q = o.dir q := by
    intro q hq
    show ((o.step (.create (.seg now (cid m)))).step (.write (.seg now (cid m)) (.patpmt m.patpmt))).dir q = _
    rw [step_dir, happ2, set_other _ _ hq, step_dir, happ1, set_other _ _ hq]
  have hdirp : (o.run (openOps m now)).dir (.seg now (cid m)) = some { content := .data [.patpmt m.patpmt], isOpen := true } := by
    show ((o.step (.create (.seg now (cid m)))).step (.write (.seg now (cid m)) (.patpmt m.patpmt))).dir _ = _
    rw [step_dir, happ2, set_same]; rfl
  refine ⟨⟨h.good, hg1.1, hg2.1⟩, ?_⟩
  have hnxt' : nxt (openMux c m now ts discont) = cid m + 1 := by unfold nxt; rfl
  constructor
  · constructor
    · show (m.frags.set _ _).length = _; rw [List.length_set]; exact h.ring.len
    · exact h.ring.nle
    · exact h.ring.ble
    · exact h.ring.bfill
    · intro x h1 h2 h3
      rw [hnxt'] at h2 h3
      by_cases hx : x = cid m
      · subst hx
        rw [slot_openMux_self h.ring.len]; exact ⟨rfl, now, rfl⟩
      · have hmod : x % c.cap ≠ cid m % c.cap := fun he => hx (mod_inj_window he (by omega) (by omega))
        rw [slot_openMux_other now ts discont hmod]
        exact h.ring.used x h1 (by rw [hnxt]; omega) (by rw [hnxt]; omega)
    · intro y h1 h2
      rw [hnxt'] at h1
      have hb' := h.ring.ble
      have hmod : y % c.cap ≠ cid m % c.cap := fun he => by
        have := mod_inj_window he (by unfold cid; omega) (by omega); omega
      rw [slot_openMux_other now ts discont hmod]
      exact h.ring.unused y (by rw [hnxt]; omega) h2
  · exact allGood_last (PP := PP) (D := c.delThr) (o := o) (ops := openOps m now) ⟨h.good, hg1.1, hg2.1⟩
  · exact h.pp
  · intro x now' h1 h2 h3 h4
    rw [cid_openMux] at h2 h3
    have hmod : x % c.cap ≠ cid m % c.cap := fun he => by
      have := mod_inj_window he (by omega) (by omega); omega
    rw [slot_openMux_other now ts discont hmod] at h4 ⊢
    rw [hdir _ (by simp only [ne_eq, Path.seg.injEq, not_and]; omega)]
    exact h.closedSegs x now' h1 h2 h3 h4
  · intro _
    refine ⟨now, m.patpmt, [], rfl, ?_, ?_, h.pp hr, (by intro f hf; cases hf), ?_⟩
    · rw [cid_openMux, slot_openMux_self h.ring.len]
    · rw [cid_openMux, hdirp]; rfl
    · rw [cid_openMux, slot_openMux_self h.ring.len]
      intro hd
      exact ⟨trivial, fun _ => hb hd⟩
  · intro k v hkv
    have : (o.run (openOps m now)).versions = o.versions := by
      show ((o.step (.create (.seg now (cid m)))).step (.write (.seg now (cid m)) (.patpmt m.patpmt))).versions = _
      rw [hg2.2, hg1.2]
    rw [this] at hkv
    exact h.vers k v hkv

end Lal.HlsC
