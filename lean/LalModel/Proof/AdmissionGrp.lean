import LalModel.Spec.AdmissionSpec
/- C03 — facts about one group: the slot invariant and its preservation by every group operation. -/
namespace Lal.Adm
open Grp

/-- at most one input slot is filled, and the pipeline runs exactly while one is -/
structure Grp.Ok (g : Grp) : Prop where
  one : g.inputs.length ≤ 1
  pipe : g.hook.isSome = g.hasIn

theorem Grp.ok_init : Grp.Ok {} := by constructor <;> simp [inputs, hasIn, hasPub, hasPull]

/-- with no input every slot is empty -/
theorem Grp.slots_of_not_hasIn {g : Grp} (h : g.hasIn = false) :
    g.rtmpPub = none ∧ g.rtspPub = none ∧ g.custPub = none ∧ g.psPub = none ∧ g.pullRtmp = none ∧ g.pullRtsp = none := by
  simp [hasIn, hasPub, hasPull] at h
  obtain ⟨⟨⟨⟨a, b⟩, c⟩, d⟩, e, f⟩ := h
  simp_all

theorem Grp.hasIn_iff_inputs (g : Grp) : g.hasIn = !g.inputs.isEmpty := by
  cases h1 : g.rtmpPub <;> cases h2 : g.rtspPub <;> cases h3 : g.custPub <;> cases h4 : g.psPub <;>
    cases h5 : g.pullRtmp <;> cases h6 : g.pullRtsp <;> simp [hasIn, hasPub, hasPull, inputs, h1, h2, h3, h4, h5, h6]

end Lal.Adm

set_option linter.unusedSimpArgs false
namespace Lal.Adm
open Grp

/-- tactic: split a group into the 64 combinations of its six slots -/
macro "slots " g:ident : tactic =>
  `(tactic| (rcases $g:ident with ⟨a1, a2, a3, a4, a5, a6, b1, b2, b3, b4, b5, b6, b7, b8, b9, b10⟩
             cases a1 <;> cases a2 <;> cases a3 <;> cases a4 <;> cases a5 <;> cases a6))

theorem Grp.ok_pullIfNeeded {g : Grp} (h : g.Ok) (n : Sid) : (g.pullIfNeeded n).1.Ok := by
  unfold pullIfNeeded; split
  · exact ⟨h.one, h.pipe⟩
  · exact h

theorem Grp.ok_addRtmpPub {g : Grp} (h : g.Ok) (x : Sid) : (g.addRtmpPub x).1.Ok := by
  unfold addRtmpPub; split
  · exact h
  · rename_i hin
    have := slots_of_not_hasIn (by simpa using hin)
    constructor <;> simp [addIn, inputs, hasIn, hasPub, hasPull, this]

theorem Grp.ok_addRtspPub {g : Grp} (h : g.Ok) (x : Sid) : (g.addRtspPub x).1.Ok := by
  unfold addRtspPub; split
  · exact h
  · rename_i hin
    have := slots_of_not_hasIn (by simpa using hin)
    constructor <;> simp [addIn, inputs, hasIn, hasPub, hasPull, this]

theorem Grp.ok_addCustPub {g : Grp} (h : g.Ok) (x : Sid) : (g.addCustPub x).1.Ok := by
  unfold addCustPub; split
  · exact h
  · rename_i hin
    have := slots_of_not_hasIn (by simpa using hin)
    constructor <;> simp [addIn, inputs, hasIn, hasPub, hasPull, this]

theorem Grp.ok_startRtpPub {g : Grp} (h : g.Ok) (x : Sid) : (g.startRtpPub Code.fixed x).1.Ok := by
  unfold startRtpPub; split
  · exact h
  · rename_i hin
    have := slots_of_not_hasIn (g := g) (by simpa [Code.fixed] using hin)
    constructor <;> simp [addIn, inputs, hasIn, hasPub, hasPull, this]

/-- a pull session is let in only when the group has no input (whatever else the guards ask for) -/
theorem Grp.not_hasIn_of_pullRefusal {code : Code} {g : Grp} {x : Sid} (h : ¬ (g.pullRefusal code x).isSome = true) :
    g.hasIn = false := by
  unfold pullRefusal at h
  cases hin : g.hasIn
  · rfl
  · simp [hin] at h

theorem Grp.ok_addRtmpPull {g : Grp} (h : g.Ok) (code : Code) (x : Sid) : (g.addRtmpPull code x).1.Ok := by
  unfold addRtmpPull; split
  · exact h
  · rename_i hin
    have := slots_of_not_hasIn (not_hasIn_of_pullRefusal hin)
    constructor <;> simp [addIn, inputs, hasIn, hasPub, hasPull, this]

theorem Grp.ok_addRtspPull {g : Grp} (h : g.Ok) (code : Code) (x : Sid) : (g.addRtspPull code x).1.Ok := by
  unfold addRtspPull; split
  · exact h
  · rename_i hin
    have := slots_of_not_hasIn (not_hasIn_of_pullRefusal hin)
    constructor <;> simp [addIn, inputs, hasIn, hasPub, hasPull, this]

/-- `delIn` on a group whose single input is a publisher -/
theorem Grp.ok_delIn_of_pub {g : Grp} (h : g.Ok) (hp : g.hasPub = true) : g.delIn.1.Ok := by
  have h1 := h.one
  slots g <;> simp_all [delIn, inputs, hasIn, hasPub, hasPull] <;> constructor <;> simp [inputs, hasIn, hasPub, hasPull]

theorem Grp.ok_delRtmpPub {g : Grp} (h : g.Ok) (x : Sid) : (g.delRtmpPub x).1.Ok := by
  unfold delRtmpPub; split
  · rename_i hx; exact ok_delIn_of_pub h (by simp [hasPub, hx])
  · exact h

theorem Grp.ok_delRtspPub {g : Grp} (h : g.Ok) (x : Sid) : (g.delRtspPub x).1.Ok := by
  unfold delRtspPub; split
  · rename_i hx; exact ok_delIn_of_pub h (by simp [hasPub, hx])
  · exact h

theorem Grp.ok_delCustPub {g : Grp} (h : g.Ok) (x : Sid) : (g.delCustPub x).1.Ok := by
  unfold delCustPub; split
  · rename_i hx; exact ok_delIn_of_pub h (by simp [hasPub, hx])
  · exact h

theorem Grp.ok_delPsPub {g : Grp} (h : g.Ok) (x : Sid) : (g.delPsPub x).1.Ok := by
  unfold delPsPub; split
  · rename_i hx; exact ok_delIn_of_pub h (by simp [hasPub, hx])
  · exact h

theorem Grp.ok_delPull {g : Grp} (h : g.Ok) (x : Sid) : (g.delPull Code.fixed x).1.Ok := by
  unfold delPull; split
  · exact ⟨h.one, h.pipe⟩
  · rename_i hx
    have h1 := h.one
    simp [Code.fixed] at hx
    slots g <;> simp_all [delIn, resetPull, inputs, hasIn, hasPub, hasPull] <;> constructor <;> simp [inputs, hasIn, hasPub, hasPull]

theorem Grp.ok_addRtmpSub {g : Grp} (h : g.Ok) (x n : Sid) : (g.addRtmpSub x n).1.Ok :=
  ok_pullIfNeeded (g := { g with rtmpSubs := insert g.rtmpSubs x }) ⟨h.one, h.pipe⟩ n

theorem Grp.ok_delRtmpSub {g : Grp} (h : g.Ok) (x : Sid) : (g.delRtmpSub x).Ok := ⟨h.one, h.pipe⟩
theorem Grp.ok_describeRtspSub {g : Grp} (h : g.Ok) (x : Sid) : (g.describeRtspSub x).Ok := ⟨h.one, h.pipe⟩
theorem Grp.ok_playRtspSub {g : Grp} (h : g.Ok) (n : Sid) : (g.playRtspSub n).1.Ok := ok_pullIfNeeded h n
theorem Grp.ok_delRtspSub {g : Grp} (h : g.Ok) (x : Sid) : (g.delRtspSub x).Ok := ⟨h.one, h.pipe⟩

theorem Grp.ok_startPull {g : Grp} (h : g.Ok) (r : Bool) (retry : Option Nat) (n : Sid) : (g.startPull r retry n).1.Ok :=
  ok_pullIfNeeded (g := { g with apiEnable := true, pullIsRtsp := r, retryNum := retry }) ⟨h.one, h.pipe⟩ n

theorem Grp.ok_stopPull' {g : Grp} (h : g.Ok) (code : Code) : (g.stopPull' code).1.Ok := by
  unfold stopPull'; dsimp only; split
  · exact ⟨h.one, h.pipe⟩
  · split
    · exact ⟨h.one, h.pipe⟩
    · split <;> exact ⟨h.one, h.pipe⟩

theorem Grp.ok_stopPull {g : Grp} (h : g.Ok) (code : Code) : (g.stopPull code).1.Ok :=
  ok_stopPull' (g := { g with apiEnable := false }) ⟨h.one, h.pipe⟩ code

theorem Grp.ok_kick {g : Grp} (h : g.Ok) (code : Code) (k : KKind) (x : Sid) : (g.kick code k x).1.Ok := by
  unfold kick
  cases k <;> dsimp only
  · split <;> exact h
  · split
    · exact ok_stopPull' (g := { g with apiEnable := false }) ⟨h.one, h.pipe⟩ code
    · exact h
  · split <;> exact h
  · split <;> exact h
  · split <;> exact h
  · exact h

theorem Grp.ok_tick {g : Grp} (h : g.Ok) (n : Sid) : (g.tick n).1.Ok := ok_pullIfNeeded h n

end Lal.Adm
