import LalModel.Model.Aac
import LalModel.Proof.Bytes
import LalModel.Proof.Go
namespace Lal.Aac
open Lal

theorem ascUnpack_ascPack (c : AscContext) (ho : c.audioObjectType < 32) (hs : c.samplingFrequencyIndex < 16)
    (hc : c.channelConfiguration < 16) : ascUnpack (ascPack c) = .ok c := by
  obtain ⟨o, s, ch⟩ := c
  simp only at ho hs hc
  simp only [ascPack, ascUnpack, b8_toNat]
  congr 1
  simp only [AscContext.mk.injEq]
  refine ⟨by omega, by omega, by omega⟩

/-- every 2-byte configuration is the packing of what `Unpack` reads from it, up to the 3 unused bits -/
theorem ascPack_ascUnpack (a b : UInt8) (rest : Bytes) (c : AscContext) (h : ascUnpack (a :: b :: rest) = .ok c) :
    ascPack c = [a, b8 (b.toNat / 8 * 8)] := by
  have ha := a.toNat_lt
  have hb := b.toNat_lt
  simp only [ascUnpack, Except.ok.injEq] at h
  subst h
  simp only [ascPack, b8, List.cons.injEq, and_true]
  refine ⟨?_, ?_⟩
  · have : (a.toNat / 8 % 32 * 8 + (a.toNat % 8 * 2 + b.toNat / 128) % 16 / 2) % 256 = a.toNat := by omega
    rw [this]; simp
  · congr 1; omega

theorem adtsUnpack_packAdtsHeader (c : AscContext) (n : Nat)
    (ho : 1 ≤ c.audioObjectType ∧ c.audioObjectType ≤ 4) (hs : c.samplingFrequencyIndex < 16)
    (hc : c.channelConfiguration < 8) (hn : n + 7 < 8192) :
    adtsUnpack (packAdtsHeader c n) = .ok { asc := c, adtsLength := n + 7 } := by
  obtain ⟨o, s, ch⟩ := c
  simp only at ho hs hc
  simp only [packAdtsHeader, adtsUnpack, b8_toNat]
  congr 1
  simp only [AdtsHeaderContext.mk.injEq, AscContext.mk.injEq]
  refine ⟨⟨by omega, by omega, by omega⟩, by omega⟩

theorem packAdtsHeader_length (c : AscContext) (n : Nat) : (packAdtsHeader c n).length = adtsHeaderLength := rfl

/-- ADTS header → ASC → the same configuration -/
theorem makeAsc_of_adts (c : AscContext) (n : Nat)
    (ho : 1 ≤ c.audioObjectType ∧ c.audioObjectType ≤ 4) (hs : c.samplingFrequencyIndex < 16)
    (hc : c.channelConfiguration < 8) (hn : n + 7 < 8192) :
    makeAscWithAdtsHeader (packAdtsHeader c n) = .ok (ascPack c) := by
  simp [makeAscWithAdtsHeader, adtsUnpack_packAdtsHeader c n ho hs hc hn]

theorem seqHeader_of_asc (asc : Bytes) (h : 2 ≤ asc.length) :
    makeAudioDataSeqHeaderWithAsc asc = .ok (0xaf :: 0 :: asc) := by
  have : ¬ asc.length < 2 := by omega
  simp [makeAudioDataSeqHeaderWithAsc, minAscLength, this]

end Lal.Aac
