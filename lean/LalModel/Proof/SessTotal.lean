import LalModel.Proof.UnpackTotal
import LalModel.Proof.C13Simple
import LalModel.Model.RtspIn
/-
  C13: `BaseInSession.HandleInterleavedPacket` (and with it the UDP callbacks, which call the same
  `handleRtpPacket` / `handleRtcpPacket`) never panics, for every SDP context, every channel assignment and
  every sequence of packets.
-/
namespace Lal.RtspIn
open Lal Lal.Rtp Lal.RtpUnpack Lal.Rtcp

theorem parseRtpPacket_ok (b : Bytes) (p : RtpPacket) (h : parseRtpPacket b = .ok p) : HdrOk p.raw p.hdr ∧ p.pos = 0 := by
  unfold parseRtpPacket at h
  split at h
  · rename_i hd hh
    cases h
    exact ⟨parseRtpHeader_ok b hd hh, rfl⟩
  · cases h

/-- invariant of the session: the lists of its unpackers hold good packets -/
def SessInv (s : Sess) : Prop :=
  (∀ u, s.aUnp = some u → ListInv (GoodOf u.kind) u.list) ∧ (∀ u, s.vUnp = some u → ListInv (GoodOf u.kind) u.list)

theorem mkUnp_inv (pt rate : Int) (u : Unp) (h : mkUnp pt rate = some u) : ListInv (GoodOf u.kind) u.list := by
  unfold mkUnp at h
  cases hk : kindOfPt pt with
  | none => rw [hk] at h; cases h
  | some k =>
    rw [hk] at h
    simp only [Option.map_some, Option.some.injEq] at h
    subst h
    intro p hp
    cases hp

theorem initWithSdp_inv (c : Sdp.LogicContext) : SessInv (initWithSdp c) := by
  unfold initWithSdp
  constructor
  · intro u hu
    dsimp only at hu
    split at hu
    · exact mkUnp_inv _ _ u hu
    · cases hu
  · intro u hu
    dsimp only at hu
    split at hu
    · exact mkUnp_inv _ _ u hu
    · cases hu

theorem setupWithChannel_inv (s s' : Sess) (uri : Bytes) (a b : Int) (hi : SessInv s) (h : setupWithChannel s uri a b = some s') : SessInv s' := by
  unfold setupWithChannel at h
  split at h
  · cases h; exact hi
  · split at h
    · cases h; exact hi
    · cases h

theorem feedUnp_ok (u : Unp) (pt : Int) (pkt : RtpPacket) (hi : ListInv (GoodOf u.kind) u.list) (hh : HdrOk pkt.raw pkt.hdr) (h0 : pkt.pos = 0) :
    ∃ u' evs, feedUnp u pt pkt = .ok (u', evs) ∧ u'.kind = u.kind ∧ ListInv (GoodOf u'.kind) u'.list := by
  obtain ⟨l, o, hf, hl⟩ := feed_ok (protoOf_ok u.kind u.rate) u.list hi pkt hh h0
  unfold feedUnp
  rw [hf]
  exact ⟨_, _, rfl, rfl, hl⟩

theorem handleRtp_ok (s : Sess) (b : Bytes) (hi : SessInv s) : ∃ s' evs, handleRtp s b = .ok (s', evs) ∧ SessInv s' := by
  unfold handleRtp
  split
  · exact ⟨s, [], rfl, hi⟩
  · rename_i hlen
    simp only [idx?_ok (show 1 < b.length by omega), bind, Except.bind, pure, Except.pure]
    split
    · exact ⟨s, [], rfl, hi⟩
    · have hnp := parseRtpHeader_noPanic b
      split
      · rename_i site hs; exact absurd hs (hnp site)
      · exact ⟨s, [], rfl, hi⟩
      · rename_i h hh
        have hok : HdrOk b h := parseRtpHeader_ok b h hh
        split
        · -- audio
          split
          · exact ⟨_, _, rfl, hi⟩
          · rename_i u hu
            obtain ⟨u', evs, hf, _, hinv⟩ := feedUnp_ok u s.ctx.audioPayloadTypeBase { hdr := h, raw := b } (hi.1 u hu) hok rfl
            rw [hf]
            refine ⟨_, _, rfl, ?_, ?_⟩
            · intro w hw; cases hw; exact hinv
            · intro w hw; exact hi.2 w hw
        · split
          · exact ⟨_, _, rfl, hi⟩
          · rename_i u hu
            obtain ⟨u', evs, hf, _, hinv⟩ := feedUnp_ok u s.ctx.videoPayloadTypeBase { hdr := h, raw := b } (hi.2 u hu) hok rfl
            rw [hf]
            refine ⟨_, _, rfl, ?_, ?_⟩
            · intro w hw; exact hi.1 w hw
            · intro w hw; cases hw; exact hinv

theorem handleRtcp_ok (s : Sess) (b : Bytes) (hi : SessInv s) : ∃ s' evs, handleRtcp s b = .ok (s', evs) ∧ SessInv s' := by
  unfold handleRtcp
  split
  · exact ⟨s, [], rfl, hi⟩
  · rename_i hlen
    simp only [idx?_ok (show 1 < b.length by omega), bind, Except.bind, pure, Except.pure]
    split
    · split
      · exact ⟨s, [], rfl, hi⟩
      · rename_i h28
        obtain ⟨sr, hsr⟩ := parseSr_ok b (by omega)
        rw [hsr]
        dsimp only
        split
        · split <;> exact ⟨_, _, rfl, hi⟩
        · split
          · split <;> exact ⟨_, _, rfl, hi⟩
          · exact ⟨s, [], rfl, hi⟩
    · exact ⟨s, [], rfl, hi⟩

theorem handleInterleaved_ok (s : Sess) (b : Bytes) (ch : Int) (hi : SessInv s) :
    ∃ s' evs, handleInterleaved s b ch = .ok (s', evs) ∧ SessInv s' := by
  unfold handleInterleaved
  split
  · exact handleRtp_ok s b hi
  · split
    · exact handleRtcp_ok s b hi
    · exact ⟨s, [], rfl, hi⟩

theorem run_ok : ∀ (items : List (Int × Bytes)) (s : Sess), SessInv s → ∃ s' evs, run s items = .ok (s', evs) ∧ SessInv s' := by
  intro items
  induction items with
  | nil => intro s hi; exact ⟨s, [], rfl, hi⟩
  | cons it rest ih =>
    intro s hi
    obtain ⟨ch, b⟩ := it
    obtain ⟨s1, e1, h1, hi1⟩ := handleInterleaved_ok s b ch hi
    obtain ⟨s2, e2, h2, hi2⟩ := ih s1 hi1
    unfold run
    rw [h1]; dsimp only; rw [h2]
    exact ⟨_, _, rfl, hi2⟩


/-- any sequence of SETUP requests (a refused one leaves the session as it was) -/
def setupAll (s : Sess) (l : List (Bytes × Int × Int)) : Sess :=
  l.foldl (fun s x => (setupWithChannel s x.1 x.2.1 x.2.2).getD s) s

theorem setupAll_inv : ∀ (l : List (Bytes × Int × Int)) (s : Sess), SessInv s → SessInv (setupAll s l) := by
  intro l
  induction l with
  | nil => intro s hi; exact hi
  | cons x rest ih =>
    intro s hi
    unfold setupAll
    simp only [List.foldl_cons]
    apply ih
    cases h : setupWithChannel s x.1 x.2.1 x.2.2 with
    | none => exact hi
    | some s' => exact setupWithChannel_inv s s' _ _ _ hi h

theorem session_total (c : Sdp.LogicContext) (setups : List (Bytes × Int × Int)) (items : List (Int × Bytes)) :
    ∃ r, run (setupAll (initWithSdp c) setups) items = .ok r := by
  obtain ⟨s', evs, h, _⟩ := run_ok items _ (setupAll_inv setups _ (initWithSdp_inv c))
  exact ⟨_, h⟩

end Lal.RtspIn
