import LalModel.Model.MsgClass
import LalModel.Proof.Go
/-
  Every classification helper of the fixed tree equals its closed form: in particular none of them can
  reach a Go run-time failure, whatever the payload.
-/
namespace Lal.MsgClass
open Lal
set_option linter.unusedSimpArgs false

theorem idx?_cons_zero (s : String) (x : UInt8) (l : Bytes) : idx? s (x :: l) 0 = .ok x := rfl
theorem idx?_cons_succ (s : String) (x : UInt8) (l : Bytes) (i : Nat) : idx? s (x :: l) (i + 1) = idx? s l i := by
  simp [idx?]

@[simp] theorem len8_lt2 (n : Nat) : (n + 1 + 1 + 1 + 1 + 1 + 1 + 1 + 1 < 2) = False := by simp
@[simp] theorem len8_lt5 (n : Nat) : (n + 1 + 1 + 1 + 1 + 1 + 1 + 1 + 1 < 5) = False := by simp
@[simp] theorem len8_lt8 (n : Nat) : (n + 1 + 1 + 1 + 1 + 1 + 1 + 1 + 1 < 8) = False := by simp
@[simp] theorem len8_eq0 (n : Nat) : (n + 1 + 1 + 1 + 1 + 1 + 1 + 1 + 1 = 0) = False := by simp

theorem isFourCcHvc1_eq (p : Bytes) : isFourCcHvc1 p = .ok (isFourCcHvc1P p) := by
  rcases p with _ | ⟨a, _ | ⟨b, _ | ⟨c, _ | ⟨d, _ | ⟨e, r⟩⟩⟩⟩⟩ <;>
    simp [isFourCcHvc1, isFourCcHvc1P, idx?] <;> (repeat' split) <;> (try simp_all [tVideo, tAudio]) <;> (try simp only [decide_eq_true_eq]) <;> (try (intros; omega))


macro "classify_cases" m:ident : tactic =>
  `(tactic| (rcases $m:ident with ⟨t, ts, p⟩; rcases p with _ | ⟨b0, _ | ⟨b1, _ | ⟨b2, _ | ⟨b3, _ | ⟨b4, _ | ⟨b5, _ | ⟨b6, _ | ⟨b7, r⟩⟩⟩⟩⟩⟩⟩⟩))

theorem isAvcKeySeqHeader_eq (m : Msg) : isAvcKeySeqHeader m = .ok (isAvcKeySeqHeaderP m) := by
  classify_cases m <;> simp [isAvcKeySeqHeader, isAvcKeySeqHeaderP, idx?] <;> (repeat' split) <;> (try simp_all [tVideo, tAudio]) <;> (try simp only [decide_eq_true_eq]) <;> (try (intros; omega))

theorem isHevcKeySeqHeader_eq (m : Msg) : isHevcKeySeqHeader m = .ok (isHevcKeySeqHeaderP m) := by
  classify_cases m <;> simp [isHevcKeySeqHeader, isHevcKeySeqHeaderP, isFourCcHvc1_eq, isFourCcHvc1P, idx?] <;> (repeat' split) <;> (try simp_all [tVideo, tAudio]) <;> (try simp only [decide_eq_true_eq]) <;> (try (intros; omega))

theorem isEnhanced_eq (m : Msg) : isEnhanced m = .ok (isEnhancedP m) := by
  classify_cases m <;> simp [isEnhanced, isEnhancedP, idx?]

theorem isVideoKeySeqHeader_eq (m : Msg) : isVideoKeySeqHeader m = .ok (isVideoKeySeqHeaderP m) := by
  simp only [isVideoKeySeqHeader, isVideoKeySeqHeaderP, isAvcKeySeqHeader_eq, isHevcKeySeqHeader_eq, GoM.ok_bind]
  cases isAvcKeySeqHeaderP m <;> simp

theorem isAvcKeyNalu_eq (m : Msg) : isAvcKeyNalu m = .ok (isAvcKeyNaluP m) := by
  classify_cases m <;> simp [isAvcKeyNalu, isAvcKeyNaluP, idx?] <;> (repeat' split) <;> (try simp_all [tVideo, tAudio]) <;> (try simp only [decide_eq_true_eq]) <;> (try (intros; omega))

theorem isHevcKeyNalu_eq (m : Msg) : isHevcKeyNalu m = .ok (isHevcKeyNaluP m) := by
  classify_cases m <;> simp [isHevcKeyNalu, isHevcKeyNaluP, idx?] <;> (repeat' split) <;> (try simp_all [tVideo, tAudio]) <;> (try simp only [decide_eq_true_eq]) <;> (try (intros; omega))

theorem isVideoKeyNalu_eq (m : Msg) : isVideoKeyNalu m = .ok (isVideoKeyNaluP m) := by
  simp only [isVideoKeyNalu, isVideoKeyNaluP, isAvcKeyNalu_eq, isHevcKeyNalu_eq, GoM.ok_bind]
  cases isAvcKeyNaluP m <;> simp

theorem isEnchanedHevcNalu_eq (m : Msg) : isEnchanedHevcNalu m = .ok (isEnchanedHevcNaluP m) := by
  classify_cases m <;> simp [isEnchanedHevcNalu, isEnchanedHevcNaluP, idx?] <;> (repeat' split) <;> (try simp_all [tVideo, tAudio]) <;> (try simp only [decide_eq_true_eq]) <;> (try (intros; omega))

theorem getEnchanedHevcNaluIndex_eq (m : Msg) : getEnchanedHevcNaluIndex m = .ok (getEnchanedHevcNaluIndexP m) := by
  classify_cases m <;> simp [getEnchanedHevcNaluIndex, getEnchanedHevcNaluIndexP, idx?] <;> (repeat' split) <;> (try simp_all [tVideo, tAudio]) <;> (try simp only [decide_eq_true_eq]) <;> (try (intros; omega))

theorem audioCodecId_eq (m : Msg) : audioCodecId m = .ok (audioCodecIdP m) := by
  classify_cases m <;> simp [audioCodecId, audioCodecIdP, idx?]

theorem isAacSeqHeader_eq (m : Msg) : isAacSeqHeader m = .ok (isAacSeqHeaderP m) := by
  classify_cases m <;> simp [isAacSeqHeader, isAacSeqHeaderP, audioCodecId, idx?] <;> (repeat' split) <;> (try simp_all [tVideo, tAudio]) <;> (try simp only [decide_eq_true_eq]) <;> (try (intros; omega))

theorem videoCodecId_eq (m : Msg) : videoCodecId m = .ok (videoCodecIdP m) := by
  classify_cases m <;> simp [videoCodecId, videoCodecIdP, isFourCcHvc1_eq, isFourCcHvc1P, idx?] <;> (repeat' split) <;> (try simp_all [tVideo, tAudio]) <;> (try simp only [decide_eq_true_eq]) <;> (try (intros; omega))

theorem pts_eq (m : Msg) : pts m = .ok (ptsP m) := by
  classify_cases m <;> simp [pts, ptsP, from?, beUint24?]

theorem cts_eq (m : Msg) : cts m = .ok (ctsP m) := by
  classify_cases m <;> simp [cts, ctsP, from?, beUint24?, idx?] <;> (repeat' split) <;> (try simp_all [tVideo, tAudio]) <;> (try simp only [decide_eq_true_eq]) <;> (try (intros; omega))

end Lal.MsgClass
