import LalModel.Model.HlsConcat
/-
  The HLS muxer as an observer (Model/HlsConcat.lean): whatever the sequence of `OnTsPackets` calls — with `FlushAudio()`
  calls from inside them, which re-enter the muxer with an audio frame — every segment file is PAT + PMT followed by the
  packets of consecutive calls, and the files together contain, in order, the packets of every call from the one that
  opened the first segment on.
-/
namespace Lal.HlsConcat
open Lal Lal.TsRmx

/-- the bytes of a segment after its PAT/PMT -/
def bodies (m : St) : Bytes := m.segs.flatMap fun g => g.drop m.patpmt.length

/-- every file starts with the PAT/PMT; an open muxer has a current file -/
structure WF (m : St) : Prop where
  pre : ∀ g ∈ m.segs, g.take m.patpmt.length = m.patpmt
  cur : m.opened = true → m.segs ≠ []

def bytesOf (it : Item) : Bytes := it.packets.flatten

theorem bodies_open (m : St) (ts : Nat) : bodies (openFragment (closeFragment m) ts) = bodies m := by
  simp [bodies, openFragment, closeFragment]

theorem wf_open (m : St) (ts : Nat) (h : WF m) : WF (openFragment (closeFragment m) ts) := by
  refine { pre := ?_, cur := fun _ => by simp [openFragment] }
  intro g hg
  simp only [openFragment, closeFragment, List.mem_append, List.mem_singleton] at hg
  rcases hg with hg | rfl
  · exact h.pre g hg
  · simp [openFragment, closeFragment]

/-- one of the two deciding parts of `OnTsPackets`: files may be added, nothing is written, an open muxer stays open -/
structure Quiet (m m' : St) : Prop where
  wf : WF m'
  body : bodies m' = bodies m
  pat : m'.patpmt = m.patpmt
  mono : m.opened = true → m'.opened = true

theorem quiet_refl (m : St) (h : WF m) : Quiet m m := ⟨h, rfl, rfl, id⟩

theorem quiet_open (m : St) (ts : Nat) (h : WF m) : Quiet m (openFragment (closeFragment m) ts) :=
  ⟨wf_open m ts h, bodies_open m ts, rfl, fun _ => rfl⟩

theorem quiet_dur (m : St) (d : Nat) (h : WF m) : Quiet m { m with curDur := d } :=
  ⟨{ pre := h.pre, cur := h.cur }, rfl, rfl, id⟩

theorem quiet_dur_open (m : St) (d ts : Nat) (h : WF m) : Quiet m (openFragment (closeFragment { m with curDur := d }) ts) := by
  have h' : WF { m with curDur := d } := { pre := h.pre, cur := h.cur }
  exact ⟨wf_open _ ts h', by rw [bodies_open]; rfl, rfl, fun _ => rfl⟩

theorem update1_quiet (m : St) (ts : Nat) (h : WF m) : Quiet m (update1 m ts).1 := by
  unfold update1
  by_cases ho : m.opened = true
  · rw [if_pos ho]
    simp only []
    by_cases hf : (ts > m.fragTs ∧ ts - m.fragTs > m.fragMs * 90 * 10) ∨ (m.fragTs > ts ∧ m.fragTs - ts > Gen.negMaxfraglen)
    · rw [if_pos hf]; exact quiet_open m ts h
    · rw [if_neg hf]; exact quiet_refl m h
  · rw [if_neg ho]; exact quiet_refl m h

theorem update2_quiet (m : St) (l : Loc) (ts : Nat) (b : Bool) (h : WF m) : Quiet m (update2 m l ts b).1 := by
  unfold update2
  by_cases hw : l.wasOpen = true
  · rw [if_pos hw]
    simp only []
    generalize (if ts > m.fragTs then max l.heldDur (ts - m.fragTs) else l.heldDur) = held
    by_cases hfo : l.forced = true
    · rw [if_pos hfo]
      by_cases hlt : held < m.fragMs * 90
      · rw [if_pos hlt]; exact quiet_refl m h
      · rw [if_neg hlt]
        by_cases hb : b = true
        · rw [if_pos hb]; exact quiet_open m ts h
        · rw [if_neg hb]; exact quiet_refl m h
    · rw [if_neg hfo]
      by_cases hlt : held < ({ m with curDur := held } : St).fragMs * 90
      · rw [if_pos hlt]; exact quiet_dur m held h
      · rw [if_neg hlt]
        by_cases hb : b = true
        · rw [if_pos hb]; exact quiet_dur_open m held ts h
        · rw [if_neg hb]; exact quiet_dur m held h
  · rw [if_neg hw]
    by_cases hb : b = true
    · rw [if_pos hb]; exact quiet_open m ts h
    · rw [if_neg hb]; exact quiet_refl m h

/-- the writing part: an open muxer appends the packets to its current file, a closed one drops them -/
theorem leave_open (m : St) (it : Item) (h : WF m) (ho : m.opened = true) :
    WF (observer.leave m it) ∧ (observer.leave m it).patpmt = m.patpmt ∧ (observer.leave m it).opened = true
    ∧ bodies (observer.leave m it) = bodies m ++ bytesOf it := by
  have hne := h.cur ho
  obtain ⟨older, cur, hs⟩ : ∃ older cur, m.segs = older ++ [cur] := by
    rcases List.eq_nil_or_concat m.segs with h | ⟨a, b, h⟩
    · exact absurd h hne
    · exact ⟨a, b, by simpa using h⟩
  have hrev : m.segs.reverse = cur :: older.reverse := by rw [hs]; simp
  have hl : observer.leave m it = { m with segs := older ++ [cur ++ it.packets.flatten] } := by
    show (if m.opened then (match m.segs.reverse with
      | cur :: older => { m with segs := ((cur ++ it.packets.flatten) :: older).reverse }
      | [] => m) else m) = _
    rw [if_pos ho, hrev]
    simp
  have hpc : cur.take m.patpmt.length = m.patpmt := h.pre cur (by rw [hs]; simp)
  have hlen : m.patpmt.length ≤ cur.length := by
    have := congrArg List.length hpc
    simp only [List.length_take] at this
    omega
  rw [hl]
  refine ⟨{ pre := ?_, cur := fun _ => by simp }, rfl, ho, ?_⟩
  · intro g hg
    simp only [List.mem_append, List.mem_singleton] at hg
    rcases hg with hg | rfl
    · exact h.pre g (by rw [hs]; simp [hg])
    · show (cur ++ it.packets.flatten).take m.patpmt.length = m.patpmt
      rw [List.take_append_of_le_length hlen]; exact hpc
  · simp only [bodies, hs, List.flatMap_append, List.flatMap_cons, List.flatMap_nil, List.append_nil, bytesOf]
    rw [List.drop_append_of_le_length hlen, List.append_assoc]

theorem leave_closed (m : St) (it : Item) (ho : m.opened = false) : observer.leave m it = m := by
  show (if m.opened then _ else m) = m
  rw [ho]; rfl

/-- the whole callback for an item from whose inside no effective `FlushAudio()` happens (an audio frame) -/
def whole (m : St) (it : Item) : St := observer.whole m it

/-- one `OnTsPackets` call as the remuxer makes it: `n1` / `n2` are the audio frames flushed from inside it at the two
    points where the muxer may open a file -/
def callItem (m : St) (it : Item) (n1 n2 : List Item) : St :=
  let e1 := observer.enter1 m it
  let m1 := n1.foldl whole e1.1
  let e2 := observer.enter2 m1 e1.2.1 it
  let m2 := n2.foldl whole e2.1
  observer.leave m2 it

/-- what a stretch of calls does: files stay well-formed; their bodies grow by the packets of the calls from the first one
    that found (or made) the muxer open on (`its.drop k`) — by all of them when it was open before -/
structure Grows (m m' : St) (its : List Item) : Prop where
  wf : WF m'
  pat : m'.patpmt = m.patpmt
  mono : m.opened = true → m'.opened = true
  body : ∃ k, k ≤ its.length ∧ bodies m' = bodies m ++ (its.drop k).flatMap bytesOf ∧ (m.opened = true → k = 0)
         ∧ (m'.opened = false → k = its.length)

theorem grows_refl (m : St) (h : WF m) : Grows m m [] := ⟨h, rfl, id, 0, Nat.le_refl _, by simp, fun _ => rfl, fun _ => rfl⟩

theorem grows_of_quiet {m m' : St} (h : Quiet m m') : Grows m m' [] :=
  ⟨h.wf, h.pat, h.mono, 0, Nat.le_refl _, by simp [h.body], fun _ => rfl, fun _ => rfl⟩

theorem grows_trans {m m1 m2 : St} {a b : List Item} (h1 : Grows m m1 a) (h2 : Grows m1 m2 b) : Grows m m2 (a ++ b) := by
  obtain ⟨k1, hl1, hb1, hk1, hc1⟩ := h1.body
  obtain ⟨k2, hl2, hb2, hk2, hc2⟩ := h2.body
  refine ⟨h2.wf, h2.pat.trans h1.pat, fun h => h2.mono (h1.mono h), ?_⟩
  by_cases ho : m1.opened = true
  · have hk20 := hk2 ho
    subst hk20
    refine ⟨k1, by simp only [List.length_append]; omega, ?_, hk1, ?_⟩
    · rw [hb2, hb1, List.drop_zero, List.drop_append_of_le_length hl1, List.flatMap_append, List.append_assoc]
    · intro hf
      have := h2.mono ho
      rw [hf] at this; cases this
  · have ho' : m1.opened = false := by simpa using ho
    have hk1a := hc1 ho'
    refine ⟨a.length + k2, by simp only [List.length_append]; omega, ?_, ?_, ?_⟩
    · rw [hb2, hb1, hk1a, List.drop_length, List.flatMap_nil, List.append_nil]
      congr 2
      have e0 : List.drop (a.length + k2) a = [] := List.drop_eq_nil_of_le (by omega)
      rw [List.drop_append, e0]
      simp
    · intro hm; have := h1.mono hm; rw [ho'] at this; cases this
    · intro hf; rw [hc2 hf]; simp

theorem leave_grows (m : St) (it : Item) (h : WF m) : Grows m (observer.leave m it) [it] := by
  by_cases ho : m.opened = true
  · obtain ⟨a, b, c, d⟩ := leave_open m it h ho
    exact ⟨a, b, fun _ => c, 0, by simp, by rw [d]; simp, fun _ => rfl, fun hf => by rw [c] at hf; cases hf⟩
  · have ho' : m.opened = false := by simpa using ho
    rw [leave_closed m it ho']
    refine ⟨h, rfl, id, 1, ?_, ?_, ?_, ?_⟩
    · simp
    · simp
    · intro hm; rw [ho'] at hm; cases hm
    · intro _; rfl

theorem whole_grows (m : St) (it : Item) (h : WF m) : Grows m (whole m it) [it] := by
  unfold whole Observer.whole
  have q1 : Quiet m (observer.enter1 m it).1 := update1_quiet m _ h
  have q2 : Quiet (observer.enter1 m it).1 (observer.enter2 (observer.enter1 m it).1 (observer.enter1 m it).2.1 it).1 :=
    update2_quiet _ _ _ _ q1.wf
  have := grows_trans (grows_trans (grows_of_quiet q1) (grows_of_quiet q2)) (leave_grows _ it q2.wf)
  simpa using this

theorem foldl_whole_grows : ∀ (ns : List Item) (m : St), WF m → Grows m (ns.foldl whole m) ns := by
  intro ns
  induction ns with
  | nil => intro m h; exact grows_refl m h
  | cons n ns ih =>
    intro m h
    have h1 := whole_grows m n h
    have h2 := ih (whole m n) h1.wf
    have := grows_trans h1 h2
    simpa using this

/-- HLS CONCAT, one call. -/
theorem callItem_grows (m : St) (it : Item) (n1 n2 : List Item) (h : WF m) : Grows m (callItem m it n1 n2) (n1 ++ n2 ++ [it]) := by
  unfold callItem
  simp only []
  have q1 : Quiet m (observer.enter1 m it).1 := update1_quiet m _ h
  have g1 := foldl_whole_grows n1 _ q1.wf
  have q2 := update2_quiet (n1.foldl whole (observer.enter1 m it).1) (observer.enter1 m it).2.1 (itemTs it) it.boundary g1.wf
  have g2 := foldl_whole_grows n2 _ q2.wf
  have g3 := leave_grows (n2.foldl whole (observer.enter2 (n1.foldl whole (observer.enter1 m it).1) (observer.enter1 m it).2.1 it).1) it g2.wf
  have := grows_trans (grows_trans (grows_trans (grows_trans (grows_of_quiet q1) g1) (grows_of_quiet q2)) g2) g3
  simpa using this

/-- a sequence of calls -/
def calls : St → List (Item × List Item × List Item) → St
  | m, [] => m
  | m, (it, n1, n2) :: r => calls (callItem m it n1 n2) r

/-- the items in the order in which the muxer finishes handling them (= the order of the observer calls the remuxer records) -/
def leaveOrder : List (Item × List Item × List Item) → List Item
  | [] => []
  | (it, n1, n2) :: r => n1 ++ n2 ++ [it] ++ leaveOrder r

theorem calls_grows : ∀ (cs : List (Item × List Item × List Item)) (m : St), WF m → Grows m (calls m cs) (leaveOrder cs) := by
  intro cs
  induction cs with
  | nil => intro m h; exact grows_refl m h
  | cons c cs ih =>
    intro m h
    obtain ⟨it, n1, n2⟩ := c
    have h1 := callItem_grows m it n1 n2 h
    have h2 := ih _ h1.wf
    exact grows_trans h1 h2

end Lal.HlsConcat
