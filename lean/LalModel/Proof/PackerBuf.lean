import LalModel.Model.PackerBuf
/- Lemmas about `rtmp.Buffer` (Model/PackerBuf.lean): grow always makes room, a run of writes appends. -/
namespace Lal.PackerBuf

theorem growLen_ge (fuel len need : Nat) (h1 : 1 ≤ len) (h2 : need ≤ 2 ^ fuel * len) :
    need ≤ growLen fuel len need := by
  induction fuel generalizing len with
  | zero => simp [growLen]; omega
  | succ f ih =>
    unfold growLen
    split
    · apply ih
      · omega
      · have : 2 ^ (f + 1) * len = 2 ^ f * (len * 2) := by rw [Nat.pow_succ]; simp [Nat.mul_assoc, Nat.mul_comm]
        omega
    · omega

theorem newCap_fits (cap data n : Nat) : data + n ≤ newCap cap data n := by
  unfold newCap
  have h1 : 1 ≤ (if cap = 0 then 128 else cap * 2) := by split <;> omega
  apply growLen_ge _ _ _ h1
  have h := Nat.lt_two_pow_self (n := data + n)
  calc data + n ≤ 2 ^ (data + n) * 1 := by omega
    _ ≤ 2 ^ (data + n) * (if cap = 0 then 128 else cap * 2) := Nat.mul_le_mul_left _ h1

theorem newCap_ge_cap (cap data n : Nat) : cap ≤ newCap cap data n := by
  unfold newCap
  have : ∀ fuel len need, len ≤ growLen fuel len need := by
    intro fuel
    induction fuel with
    | zero => intro len need; simp [growLen]
    | succ f ih =>
      intro len need
      unfold growLen
      split
      · exact Nat.le_trans (by omega) (ih (len * 2) need)
      · exact Nat.le_refl _
  refine Nat.le_trans ?_ (this _ _ _)
  split <;> omega

/-- the buffer is usable: the positions are inside the backing array -/
def WF (b : PBuf) : Prop := b.readPos ≤ b.writePos ∧ b.writePos ≤ b.core.length

/-- the pending data `core[readPos:writePos]` -/
def PBuf.data (b : PBuf) : Bytes := (b.core.drop b.readPos).take (b.writePos - b.readPos)

/-- `grow` in general: it never fails on a usable buffer, afterwards `n` more bytes fit, the pending data is kept -/
theorem grow_fits (b : PBuf) (n : Nat) (h : WF b) :
    ∃ b', b.grow n = .ok b' ∧ WF b' ∧ b'.writePos + n ≤ b'.core.length ∧ b'.data = b.data := by
  unfold PBuf.grow
  by_cases hfit : b.writePos + n ≤ b.core.length
  · simp only [hfit, if_true]
    exact ⟨b, rfl, h, hfit, rfl⟩
  · have h' : b.readPos ≤ b.writePos ∧ b.writePos ≤ b.core.length := h
    simp only [hfit, if_false, h', and_self, if_true]
    have hc := newCap_fits b.core.length (b.writePos - b.readPos) n
    have hl : ((b.core.drop b.readPos).take (b.writePos - b.readPos)).length = b.writePos - b.readPos := by
      simp only [List.length_take, List.length_drop]; omega
    refine ⟨_, rfl, ⟨Nat.zero_le _, ?_⟩, ?_, ?_⟩
    · simp only [List.length_append, hl, List.length_replicate]; omega
    · simp only [List.length_append, hl, List.length_replicate]; omega
    · simp only [PBuf.data, List.drop_zero, Nat.sub_zero]
      rw [List.take_left' hl]

/-- `grow` as the packer uses it (nothing consumed: `readPos = 0`): the positions stay, the prefix stays -/
theorem grow_spec (b : PBuf) (n : Nat) (h : WF b) (hr : b.readPos = 0) :
    ∃ b', b.grow n = .ok b' ∧ b'.readPos = 0 ∧ b'.writePos = b.writePos ∧
      b'.writePos + n ≤ b'.core.length ∧ b'.core.take b.writePos = b.core.take b.writePos ∧ b.core.length ≤ b'.core.length := by
  obtain ⟨_, h2⟩ := h
  unfold PBuf.grow
  by_cases hfit : b.writePos + n ≤ b.core.length
  · simp only [hfit, if_true]
    exact ⟨b, rfl, hr, rfl, hfit, rfl, Nat.le_refl _⟩
  · have h' : b.readPos ≤ b.writePos ∧ b.writePos ≤ b.core.length := ⟨by omega, h2⟩
    simp only [hfit, if_false, h', and_self, if_true]
    have hc := newCap_fits b.core.length (b.writePos - b.readPos) n
    have hg := newCap_ge_cap b.core.length (b.writePos - b.readPos) n
    refine ⟨_, rfl, rfl, by simp [hr], ?_, ?_, ?_⟩
    · simp only [List.length_append, List.length_take, List.length_drop, List.length_replicate, hr] at *
      omega
    · simp only [hr, List.drop_zero, Nat.sub_zero]
      rw [List.take_left' (by simp; omega)]
    · simp only [List.length_append, List.length_take, List.length_drop, List.length_replicate, hr] at *
      omega

theorem write_spec (b : PBuf) (p : Bytes) (h : WF b) (hr0 : b.readPos = 0) :
    ∃ b', b.write p = .ok b' ∧ b'.readPos = 0 ∧ b'.writePos = b.writePos + p.length ∧ WF b' ∧
      b'.core.take b'.writePos = b.core.take b.writePos ++ p ∧ b.core.length ≤ b'.core.length := by
  obtain ⟨g, hg, hr, hw, hfit, htake, hlen⟩ := grow_spec b p.length h hr0
  have hwf : g.writePos ≤ g.core.length := by omega
  refine ⟨{ g with core := copyAt g.core g.writePos p, writePos := g.writePos + p.length }, ?_, hr, ?_, ?_, ?_, ?_⟩
  · unfold PBuf.write
    rw [hg]
    simp only [bind, Except.bind, hwf, if_true]
  · simp [hw]
  · unfold WF copyAt
    simp only [List.length_append, List.length_take, List.length_drop, hr]
    omega
  · unfold copyAt
    have h1 : (List.take g.writePos g.core).length = g.writePos := by simp; omega
    have h2 : List.take (g.core.length - g.writePos) p = p := List.take_of_length_le (by omega)
    simp only [h2]
    rw [List.take_left' (by simp [h1])]
    rw [hw, htake]
  · unfold copyAt
    simp only [List.length_append, List.length_take, List.length_drop]
    omega

theorem writes_spec (ps : List Bytes) (b : PBuf) (h : WF b) (hr0 : b.readPos = 0) :
    ∃ b', b.writes ps = .ok b' ∧ b'.readPos = 0 ∧ b'.writePos = b.writePos + ps.flatten.length ∧ WF b' ∧
      b'.core.take b'.writePos = b.core.take b.writePos ++ ps.flatten ∧ b.core.length ≤ b'.core.length := by
  induction ps generalizing b with
  | nil => exact ⟨b, rfl, hr0, by simp, h, by simp, Nat.le_refl _⟩
  | cons p ps ih =>
    obtain ⟨b1, e1, r1, w1, wf1, t1, l1⟩ := write_spec b p h hr0
    obtain ⟨b2, e2, r2, w2, wf2, t2, l2⟩ := ih b1 wf1 r1
    refine ⟨b2, ?_, r2, ?_, wf2, ?_, Nat.le_trans l1 l2⟩
    · simp only [PBuf.writes, e1, bind, Except.bind, e2]
    · simp [w2, w1]; omega
    · rw [t2, t1]; simp

/-- the packer's buffer between two commands: nothing pending, room for the 12-byte chunk header -/
def PackerWF (b : PBuf) : Prop := b.readPos = 0 ∧ 12 ≤ b.core.length

theorem command_spec (b : PBuf) (ws : List Bytes) (csid sid : Nat) (h : PackerWF b) :
    ∃ b', command b ws csid sid = .ok (frame ws.flatten csid typeCommandAmf0 sid, b') ∧ PackerWF b' ∧ b.core.length ≤ b'.core.length := by
  obtain ⟨hr, hc⟩ := h
  have hwf : WF (b.modWritePos 12) := by simp [WF, PBuf.modWritePos, hr]; exact hc
  obtain ⟨b1, e1, hr1, w1, wf1, t1, l1⟩ := writes_spec ws (b.modWritePos 12) hwf hr
  have hw1 : b1.writePos = 12 + ws.flatten.length := by rw [w1]; rfl
  have hbytes : b1.bytes = .ok (b.core.take 12 ++ ws.flatten) := by
    unfold PBuf.bytes slice?
    have : b1.readPos ≤ b1.writePos ∧ b1.writePos ≤ b1.core.length := wf1
    simp only [this, and_self, if_true, hr1, List.drop_zero, Nat.sub_zero]
    rw [t1]; rfl
  refine ⟨b1.reset, ?_, ⟨rfl, ?_⟩, ?_⟩
  · unfold command chunkAndWrite
    simp only [e1, bind, Except.bind, hbytes]
    have hl : ¬ (b.core.take 12 ++ ws.flatten).length < 12 := by simp [List.length_take]; omega
    simp only [hl, if_false]
    have : (b.core.take 12 ++ ws.flatten).drop 12 = ws.flatten := by
      rw [List.drop_left' (by simp [List.length_take]; omega)]
    rw [this]
  · show 12 ≤ b1.core.length
    have : (b.modWritePos 12).core.length = b.core.length := rfl
    omega
  · show b.core.length ≤ b1.core.length
    exact l1

/-! ### what the writes of the AMF0 writers add up to -/

theorem wString_flatten (s : Bytes) : (wString s).flatten = Amf0.writeString s := by
  unfold wString Amf0.writeString
  split <;> simp

theorem publishWrites_flatten (name : Bytes) :
    (publishWrites name).flatten =
      Amf0.writeString sPublish ++ Amf0.writeNumber f64_3 ++ Amf0.writeNull ++ Amf0.writeString name ++ Amf0.writeString sLive := by
  simp only [publishWrites, List.flatten_append, wString_flatten]
  simp [wNumber, wNull, Amf0.writeNumber, Amf0.writeNull]

theorem playWrites_flatten (name : Bytes) :
    (playWrites name).flatten =
      Amf0.writeString sPlay ++ Amf0.writeNumber f64_3 ++ Amf0.writeNull ++ Amf0.writeString name := by
  simp only [playWrites, List.flatten_append, wString_flatten]
  simp [wNumber, wNull, Amf0.writeNumber, Amf0.writeNull]

/-- the command object of `connect` as an AMF0 tree -/
def connectObject (app tcUrl : Bytes) (isPush : Bool) : List (Bytes × Amf0.Amf) :=
  [(sApp, .str app), (sType, .str sNonprivate), (sFlashVer, .str (if isPush then Gen.flashVerPush else flashVerPull)),
   (sFpad, .bool false), (sTcUrl, .str tcUrl)]

theorem connectWrites_flatten (app tcUrl : Bytes) (isPush : Bool) :
    some (connectWrites app tcUrl isPush).flatten =
      (Amf0.writeObject (connectObject app tcUrl isPush)).map fun o => Amf0.writeString sConnect ++ Amf0.writeNumber f64_1 ++ o := by
  simp only [connectWrites, connectObject, wObject, wPair, List.flatten_append, wString_flatten, Amf0.writeObject, Amf0.writeObjectPairs,
    Amf0.writeObjectValue, List.flatten_cons, List.flatten_nil, Option.map]
  simp [wNumber, wBoolean, Amf0.writeNumber, Amf0.writeBoolean, wString_flatten]

end Lal.PackerBuf
