import LalModel.Model.Interleaved
import LalModel.Spec.InterleavedSpec
import LalModel.Spec.TsSpec
import LalModel.Proof.Bytes
/-
  rtsp.packInterleaved is read back by the RFC 2326 §10.12 reader, frame after frame; and a
  concatenation of 188-byte packets is cut back into exactly those packets.
-/
namespace Lal.Interleaved
open Lal Lal.InterleavedSpec

theorem pack_length (ch : Nat) (p : Bytes) : (pack ch p).length = 4 + p.length := by
  simp [pack, be16]; omega

/-- one packed packet, whatever follows it -/
theorem readFrame_pack (ch : Nat) (p r : Bytes) (hch : ch < 256) (hl : p.length < 65536) :
    readFrame (pack ch p ++ r) = some ({ channel := ch, data := p }, r) := by
  have hm : p.length % 65536 = p.length := Nat.mod_eq_of_lt hl
  simp only [pack, be16, hm, List.cons_append, List.nil_append, readFrame]
  have e3 : rd16 (b8 (p.length / 256)) (b8 p.length) = p.length := rd16_be16 _ hl
  have e1 : ¬ ((0x24 : UInt8) ≠ 0x24) := by decide
  simp only [e3, if_neg e1]
  have hlen : ¬ (p ++ r).length < p.length := by simp
  simp only [hlen, if_false, b8_toNat, Nat.mod_eq_of_lt hch, List.take_left', List.drop_left']

/-- any sequence of packets: the frames read are the packets written, channel and bytes -/
theorem readFrames_packs (us : List (Nat × Bytes)) (h : ∀ u ∈ us, u.1 < 256 ∧ u.2.length < 65536) :
    ∀ fuel, fuel ≥ (us.flatMap fun u => pack u.1 u.2).length →
    readFrames fuel (us.flatMap fun u => pack u.1 u.2)
      = some (us.map fun u => { channel := u.1, data := u.2 }) := by
  induction us with
  | nil => intro fuel _; cases fuel <;> simp [readFrames]
  | cons u rest ih =>
    intro fuel hf
    have hu := h u (by simp)
    have hrest : ∀ v ∈ rest, v.1 < 256 ∧ v.2.length < 65536 := fun v hv => h v (by simp [hv])
    simp only [List.flatMap_cons, List.length_append, pack_length] at hf ⊢
    cases fuel with
    | zero => omega
    | succ fuel =>
      have hne : pack u.1 u.2 ++ (rest.flatMap fun u => pack u.1 u.2)
          = (0x24 : UInt8) :: (b8 u.1 :: (be16 (u.2.length % 65536) ++ u.2 ++ rest.flatMap fun u => pack u.1 u.2)) := by
        simp [pack]
      have hr := readFrame_pack u.1 u.2 (rest.flatMap fun u => pack u.1 u.2) hu.1 hu.2
      rw [hne] at hr ⊢
      simp only [readFrames, hr]
      rw [ih hrest fuel (by omega)]
      simp

end Lal.Interleaved

namespace Lal.TsSpec

/-- a concatenation of 188-byte packets is cut back into exactly those packets -/
theorem chunk188_flatten (ps : List Bytes) (h : ∀ p ∈ ps, p.length = 188) :
    ∀ fuel, fuel ≥ ps.length → chunk188 fuel ps.flatten = ps := by
  induction ps with
  | nil => intro fuel _; cases fuel <;> simp [chunk188]
  | cons p rest ih =>
    intro fuel hf
    have hp := h p (by simp)
    have hrest : ∀ q ∈ rest, q.length = 188 := fun q hq => h q (by simp [hq])
    cases fuel with
    | zero => simp at hf
    | succ fuel =>
      simp only [List.flatten_cons, chunk188]
      have hne : (p ++ rest.flatten).isEmpty = false := by
        cases p with
        | nil => simp at hp
        | cons a t => rfl
      simp only [hne, Bool.false_eq_true, if_false]
      rw [List.take_left' hp, List.drop_left' hp, ih hrest fuel (by simp at hf; omega)]

end Lal.TsSpec
