import LalModel.Proof.AdmissionBasic
/- C03 — departures: a session that is not the accepted input of a stream cannot, by leaving, failing or
   being kicked, change that stream's input or pipeline. No reachability is needed: the identity checks
   of the (repaired) Del… functions carry the whole argument. -/
namespace Lal.Adm
open Grp Spec

/-- what the property protects: the filled slots, the pipeline, the A/V remuxer -/
def Grp.core (g : Grp) : List Sid × Option (Option Sid) × Bool := (g.inputs, g.hook, g.avRemux)

def coreAt (s : Srv) (st : Stream) : Option (List Sid × Option (Option Sid) × Bool) := (s.groups st).map Grp.core

theorem inputsAt_of_core {s s' : Srv} {st : Stream} (h : coreAt s' st = coreAt s st) :
    inputsAt s' st = inputsAt s st ∧ pipeAt s' st = pipeAt s st := by
  unfold coreAt at h
  unfold inputsAt pipeAt
  cases h1 : s'.groups st <;> cases h2 : s.groups st <;> simp [h1, h2, Grp.core] at h ⊢
  exact ⟨h.1, h.2.1⟩

theorem mem_inputs {g : Grp} {x : Sid} :
    x ∈ g.inputs ↔ g.rtmpPub = some x ∨ g.rtspPub = some x ∨ g.custPub = some x ∨ g.psPub = some x ∨
      g.pullRtmp = some x ∨ g.pullRtsp = some x := by
  simp [inputs, Option.mem_toList]

section grp
variable {g : Grp} {x : Sid} (hx : x ∉ g.inputs)
include hx

theorem Grp.delRtmpPub_foreign : (g.delRtmpPub x).1 = g := by
  unfold delRtmpPub; split
  · rename_i h; exact absurd (mem_inputs.mpr (Or.inl h)) hx
  · rfl
theorem Grp.delRtspPub_foreign : (g.delRtspPub x).1 = g := by
  unfold delRtspPub; split
  · rename_i h; exact absurd (mem_inputs.mpr (Or.inr (Or.inl h))) hx
  · rfl
theorem Grp.delCustPub_foreign : (g.delCustPub x).1 = g := by
  unfold delCustPub; split
  · rename_i h; exact absurd (mem_inputs.mpr (Or.inr (Or.inr (Or.inl h)))) hx
  · rfl
theorem Grp.delPsPub_foreign : (g.delPsPub x).1 = g := by
  unfold delPsPub; split
  · rename_i h; exact absurd (mem_inputs.mpr (Or.inr (Or.inr (Or.inr (Or.inl h))))) hx
  · rfl
theorem Grp.delPull_foreign : (g.delPull Code.fixed x).1 = { g with pulling := false } := by
  have h1 : g.pullRtmp ≠ some x := fun h => hx (mem_inputs.mpr (Or.inr (Or.inr (Or.inr (Or.inr (Or.inl h))))))
  have h2 : g.pullRtsp ≠ some x := fun h => hx (mem_inputs.mpr (Or.inr (Or.inr (Or.inr (Or.inr (Or.inr h))))))
  unfold delPull
  simp [Code.fixed, h1, h2]
end grp

theorem Grp.core_kick (code : Code) (g : Grp) (k : KKind) (x : Sid) : (g.kick code k x).1.core = g.core := by
  unfold kick
  cases k <;> dsimp only
  · split <;> rfl
  · split
    · unfold stopPull'; dsimp only; split
      · rfl
      · split
        · rfl
        · split <;> rfl
    · rfl
  · split <;> rfl
  · split <;> rfl
  · split <;> rfl

section coreAt
variable (s : Srv) (st : Stream)
@[simp] theorem coreAt_setG (k : Stream) (g : Grp) :
    coreAt (s.setG k g) st = if st = k then some g.core else coreAt s st := by
  unfold coreAt; simp only [Srv.setG_groups]; split <;> rfl
@[simp] theorem coreAt_setS (x : Sid) (v : Sess) : coreAt (s.setS x v) st = coreAt s st := rfl
@[simp] theorem coreAt_note (k : NKind) (x : Sid) : coreAt (s.note k x) st = coreAt s st := rfl
@[simp] theorem coreAt_noteRelay (l : List GObs) : coreAt (s.noteRelay l) st = coreAt s st := by
  unfold coreAt; simp
@[simp] theorem coreAt_spawned (k : Stream) (r : Bool) (a : Option Sid) : coreAt (s.spawned k r a) st = coreAt s st := by
  unfold coreAt; simp
@[simp] theorem coreAt_modR (c : Sid) (f : RConn → RConn) : coreAt (s.modR c f) st = coreAt s st := by
  unfold coreAt; simp
@[simp] theorem coreAt_modSP (c : Sid) (f : SPub → SPub) : coreAt (s.modSP c f) st = coreAt s st := by
  unfold coreAt; simp
@[simp] theorem coreAt_modSS (c : Sid) (f : SSub → SSub) : coreAt (s.modSS c f) st = coreAt s st := by
  unfold coreAt; simp
@[simp] theorem coreAt_modC (c : Sid) (f : Cust → Cust) : coreAt (s.modC c f) st = coreAt s st := by
  unfold coreAt; simp
@[simp] theorem coreAt_modP (c : Sid) (f : Pull → Pull) : coreAt (s.modP c f) st = coreAt s st := by
  unfold coreAt; simp
end coreAt

theorem coreAt_of_groups {s : Srv} {st : Stream} {g : Grp} (hg : s.groups st = some g) : coreAt s st = some g.core := by
  unfold coreAt; rw [hg]; rfl

theorem not_mem_inputsAt {s : Srv} {st : Stream} {g : Grp} {x : Sid} (hg : s.groups st = some g)
    (hx : x ∉ inputsAt s st) : x ∉ g.inputs := by
  simpa [inputsAt, hg] using hx

namespace Srv
variable {s : Srv} {x : Sid} {st : Stream}

theorem core_onDelRtmpPub (k : Stream) (hx : x ∉ inputsAt s st) : coreAt (s.onDelRtmpPub x k) st = coreAt s st := by
  unfold onDelRtmpPub; split
  · rfl
  · rename_i g hg
    simp only [coreAt_note, coreAt_setG]; split
    · rename_i h; subst h
      rw [Grp.delRtmpPub_foreign (not_mem_inputsAt hg hx), coreAt_of_groups hg]
    · rfl

theorem core_onDelRtmpSub (k : Stream) : coreAt (s.onDelRtmpSub x k) st = coreAt s st := by
  unfold onDelRtmpSub; split
  · rfl
  · rename_i g hg
    simp only [coreAt_note, coreAt_setG]; split
    · rename_i h; subst h; rw [coreAt_of_groups hg]; rfl
    · rfl

theorem core_onDelRtspPub (k : Stream) (hx : x ∉ inputsAt s st) : coreAt (s.onDelRtspPub x k) st = coreAt s st := by
  unfold onDelRtspPub; split
  · rfl
  · rename_i g hg
    simp only [coreAt_note, coreAt_setG]; split
    · rename_i h; subst h
      rw [Grp.delRtspPub_foreign (not_mem_inputsAt hg hx), coreAt_of_groups hg]
    · rfl

theorem core_onDelRtspSub (k : Stream) : coreAt (s.onDelRtspSub x k) st = coreAt s st := by
  unfold onDelRtspSub; split
  · rfl
  · rename_i g hg
    simp only [coreAt_note, coreAt_setG]; split
    · rename_i h; subst h; rw [coreAt_of_groups hg]; rfl
    · rfl

theorem core_delPull (k : Stream) (hx : x ∉ inputsAt s st) : coreAt (s.delPull Code.fixed x k) st = coreAt s st := by
  unfold delPull; split
  · rfl
  · rename_i g hg
    simp only [coreAt_noteRelay, coreAt_setG]; split
    · rename_i h; subst h
      rw [Grp.delPull_foreign (not_mem_inputsAt hg hx), coreAt_of_groups hg]; rfl
    · rfl

end Srv

theorem inputsAt_congr {s s' : Srv} (e : s'.groups = s.groups) (st : Stream) : inputsAt s' st = inputsAt s st := by
  unfold inputsAt; rw [e]

theorem core_rtmpTail {s : Srv} {c : Sid} {st : Stream} (r : RConn) (hx : c ∉ inputsAt s st) :
    coreAt (rtmpTail s c r) st = coreAt s st := by
  unfold rtmpTail; dsimp only
  have hx' : c ∉ inputsAt (s.modR c fun r => { r with closed := true }) st := by
    rw [inputsAt_congr (s := s) (by simp)]; exact hx
  split
  · simp
  · split
    · rw [Srv.core_onDelRtmpPub _ hx']; simp
    · rw [Srv.core_onDelRtmpSub]; simp
    · simp


theorem core_rtspTail {s : Srv} {c : Sid} {st : Stream} (k : SConn)
    (hx : ∀ x ∈ k.pub.toList ++ k.sub.toList, x ∉ inputsAt s st) :
    coreAt (rtspTail Code.fixed s c k) st = coreAt s st := by
  unfold rtspTail; dsimp only
  split
  · rename_i p hp
    have hp' : p ∉ inputsAt s st := hx p (by simp [hp])
    split
    · split
      · simp
      · rw [Srv.core_onDelRtspPub]
        · simp
        · rw [inputsAt_congr (s := s) (by simp)]; exact hp'
    · simp
  · split
    · rename_i q hq
      have hq' : q ∉ inputsAt s st := hx q (by simp [hq])
      split
      · split
        · simp
        · rw [Srv.core_onDelRtspSub]; simp
      · simp
    · simp

/-! ### which events the server answers by closing the connection -/

theorem rPublish_closed {s : Srv} {c : Sid} {st : Stream} {a : Bool} (h : (rPublish Code.fixed s c st a).2 = .closed) :
    ∃ r, (rPublish Code.fixed s c st a).1 = rtmpTail s c r := by
  unfold rPublish at h ⊢
  split
  · rename_i r hr
    simp only [hr] at h
    split
    · rename_i h1; simp [h1] at h
    · rename_i h1
      split
      · exact ⟨r, by simp [Code.fixed]⟩
      · rename_i h2
        simp only [h1, h2, Bool.false_eq_true, if_false] at h
        split at h <;> simp at h
  · rename_i h1
    split at h
    · exact absurd ‹_› (h1 _)
    · simp at h

theorem rPlay_closed {s : Srv} {c : Sid} {st : Stream} {a : Bool} {n : Sid} (h : (rPlay Code.fixed s c st a n).2 = .closed) :
    ∃ r, (rPlay Code.fixed s c st a n).1 = rtmpTail s c r := by
  unfold rPlay at h ⊢
  split
  · rename_i r hr
    simp only [hr] at h
    split
    · rename_i h1; simp [h1] at h
    · rename_i h1
      split
      · exact ⟨r, by simp [Code.fixed]⟩
      · rename_i h2
        simp only [h1, h2, Bool.false_eq_true, if_false] at h
        split at h <;> simp at h
  · rename_i h1
    split at h
    · exact absurd ‹_› (h1 _)
    · simp at h

theorem sAnnounce_closed {s : Srv} {c p : Sid} {st : Stream} {a : Bool} (h : (sAnnounce Code.fixed s c p st a).2 = .closed) :
    ∃ k, s.sess c = some (.rtspConn k) ∧ (sAnnounce Code.fixed s c p st a).1 = rtspTail Code.fixed s c k := by
  unfold sAnnounce at h ⊢
  split
  · rename_i k hk
    simp only [hk] at h
    split
    · rename_i h1; simp [h1] at h
    · rename_i h1
      split
      · exact ⟨k, hk, rfl⟩
      · rename_i h2
        simp only [h1, h2, Bool.false_eq_true, if_false] at h
        split at h <;> simp at h
  · rename_i h1
    split at h
    · exact absurd ‹_› (h1 _)
    · simp at h

theorem sDescribe_closed {s : Srv} {c p : Sid} {st : Stream} {a : Bool} (h : (sDescribe Code.fixed s c p st a).2 = .closed) :
    ∃ k, s.sess c = some (.rtspConn k) ∧ (sDescribe Code.fixed s c p st a).1 = rtspTail Code.fixed s c k := by
  unfold sDescribe at h ⊢
  split
  · rename_i k hk
    simp only [hk] at h
    split
    · rename_i h1; simp [h1] at h
    · rename_i h1
      split
      · exact ⟨k, hk, rfl⟩
      · rename_i h2
        simp only [h1, h2, Bool.false_eq_true, if_false] at h
        split at h <;> simp at h
  · rename_i h1
    split at h
    · exact absurd ‹_› (h1 _)
    · simp at h

theorem sSetup_cases (s : Srv) (c : Sid) :
    (sSetup Code.fixed s c).1 = s ∨ ∃ k, s.sess c = some (.rtspConn k) ∧ (sSetup Code.fixed s c).1 = rtspTail Code.fixed s c k := by
  unfold sSetup; split
  · rename_i k hk
    (repeat' split) <;> first | exact Or.inl rfl | exact Or.inr ⟨k, hk, rfl⟩
  · exact Or.inl rfl

theorem sMedia_cases (s : Srv) (c : Sid) :
    (sMedia Code.fixed s c).1 = s ∨ ∃ k, s.sess c = some (.rtspConn k) ∧ (sMedia Code.fixed s c).1 = rtspTail Code.fixed s c k := by
  unfold sMedia; split
  · rename_i k hk
    (repeat' split) <;> first | exact Or.inl rfl | exact Or.inr ⟨k, hk, rfl⟩
  · exact Or.inl rfl

theorem sClose_cases (s : Srv) (c : Sid) :
    (sClose Code.fixed s c).1 = s ∨ ∃ k, s.sess c = some (.rtspConn k) ∧ (sClose Code.fixed s c).1 = rtspTail Code.fixed s c k := by
  unfold sClose; split
  · rename_i k hk
    (repeat' split) <;> first | exact Or.inl rfl | exact Or.inr ⟨k, hk, rfl⟩
  · exact Or.inl rfl

theorem sPlay_closed {s : Srv} {c n : Sid} (h : (sPlay Code.fixed s c n).2 = .closed) :
    ∃ k, s.sess c = some (.rtspConn k) ∧ (sPlay Code.fixed s c n).1 = rtspTail Code.fixed s c k := by
  unfold sPlay at h ⊢
  split
  · rename_i k hk
    simp only [hk] at h
    split
    · rename_i h1; simp [h1] at h
    · rename_i h1
      simp only [h1] at h
      split
      · exact ⟨k, hk, rfl⟩
      · rename_i q hq
        simp only [hq, Bool.false_eq_true, if_false] at h
        split at h <;> simp at h
  · rename_i h1
    split at h
    · exact absurd ‹_› (h1 _)
    · simp at h

theorem rOpen_res (s c) : (rOpen s c).2 ≠ .closed := by unfold rOpen; split <;> simp
theorem sOpen_res (s c) : (sOpen s c).2 ≠ .closed := by unfold sOpen; split <;> simp
theorem custAdd_res (s k a) : (custAdd s k a).2 ≠ .closed := by
  unfold custAdd; split
  · simp
  · dsimp only; split <;> simp
theorem rtpPub_res (s k a) : (rtpPub Code.fixed s k a).2 ≠ .closed := by
  unfold rtpPub; split
  · simp
  · dsimp only; split <;> simp
theorem startPull_res (s a b c d) : (startPull s a b c d).2 ≠ .closed := by
  unfold startPull; split
  · simp
  · dsimp only; split <;> simp
theorem pullAttach_res (s a) : (pullAttach Code.fixed s a).2 ≠ .closed := by
  unfold pullAttach; split
  · split
    · simp
    · split
      · simp
      · dsimp only; split <;> split <;> simp
  · simp
theorem stopPull_res (s a) : (stopPull Code.fixed s a).2 ≠ .closed := by
  unfold stopPull; split
  · simp
  · dsimp only; split <;> simp
theorem tick_res (s a b) : (tick s a b).2 ≠ .closed := by
  unfold tick; split
  · simp
  · split
    · simp
    · split <;> simp

theorem leaving_rtsp {s : Srv} {c : Sid} {k : SConn} {st : Stream} {l : List Sid}
    (hk : s.sess c = some (.rtspConn k))
    (hl : l = (match s.sess c with | some (.rtspConn k) => k.pub.toList ++ k.sub.toList | _ => []))
    (hx : ∀ x ∈ l, x ∉ inputsAt s st) : ∀ x ∈ k.pub.toList ++ k.sub.toList, x ∉ inputsAt s st := by
  intro x hm; apply hx; rw [hl, hk]; exact hm

/-- T3 in terms of `coreAt` -/
theorem departure_core (s : Srv) (e : Ev) (st : Stream)
    (hd : isDeparture e (step Code.fixed s e).2 = true)
    (hx : ∀ x ∈ leaving s e, x ∉ inputsAt s st) :
    coreAt (step Code.fixed s e).1 st = coreAt s st := by
  cases e <;> simp only [step, isDeparture, beq_iff_eq] at hd ⊢
  case rOpen c => exact absurd hd (rOpen_res s c)
  case rPublish c a b =>
    obtain ⟨r, hr⟩ := rPublish_closed hd
    rw [hr]; exact core_rtmpTail _ (hx c (by simp [leaving]))
  case rPlay c a b n =>
    obtain ⟨r, hr⟩ := rPlay_closed hd
    rw [hr]; exact core_rtmpTail _ (hx c (by simp [leaving]))
  case rMedia c => unfold rMedia; (repeat' split) <;> rfl
  case rClose c =>
    have hc : c ∉ inputsAt s st := hx c (by simp [leaving])
    unfold rClose; split
    · split
      · rfl
      · exact core_rtmpTail _ hc
    · rfl
  case sOpen c => exact absurd hd (sOpen_res s c)
  case sAnnounce c p a b =>
    obtain ⟨k, hk, hr⟩ := sAnnounce_closed hd
    rw [hr]; exact core_rtspTail k (leaving_rtsp hk rfl hx)
  case sDescribe c q a b =>
    obtain ⟨k, hk, hr⟩ := sDescribe_closed hd
    rw [hr]; exact core_rtspTail k (leaving_rtsp hk rfl hx)
  case sSetup c =>
    rcases sSetup_cases s c with h | ⟨k, hk, hr⟩
    · rw [h]
    · rw [hr]; exact core_rtspTail k (leaving_rtsp hk rfl hx)
  case sRecord c => unfold sRecord; (repeat' split) <;> rfl
  case sPlay c n =>
    obtain ⟨k, hk, hr⟩ := sPlay_closed hd
    rw [hr]; exact core_rtspTail k (leaving_rtsp hk rfl hx)
  case sMedia c =>
    rcases sMedia_cases s c with h | ⟨k, hk, hr⟩
    · rw [h]
    · rw [hr]; exact core_rtspTail k (leaving_rtsp hk rfl hx)
  case sClose c =>
    rcases sClose_cases s c with h | ⟨k, hk, hr⟩
    · rw [h]
    · rw [hr]; exact core_rtspTail k (leaving_rtsp hk rfl hx)
  case custAdd k a => exact absurd hd (custAdd_res s k a)
  case custDel k =>
    have hk : k ∉ inputsAt s st := hx k (by simp [leaving])
    unfold custDel
    split
    · rename_i cu hcu
      split
      · rfl
      · dsimp only
        split
        · simp
        · rename_i g hg
          simp only [Srv.modC_groups] at hg
          have key : coreAt ((s.modC k fun x => { x with deleted := true }).setG cu.stream (g.delCustPub k).1) st = coreAt s st := by
            simp only [coreAt_setG, coreAt_modC]; split
            · rename_i h; subst h
              rw [Grp.delCustPub_foreign (not_mem_inputsAt hg hk), coreAt_of_groups hg]
            · rfl
          split
          · simp only [coreAt_modC]; exact key
          · exact key
    · rfl
  case custFeed k => unfold custFeed; (repeat' split) <;> rfl
  case rtpPub k a => exact absurd hd (rtpPub_res s k a)
  case psEnd k =>
    have hk : k ∉ inputsAt s st := hx k (by simp [leaving])
    unfold psEnd
    split
    · rename_i p hp
      split
      · rfl
      · dsimp only
        split
        · simp
        · rename_i g hg
          simp only [Srv.setS_groups] at hg
          simp only [coreAt_setG, coreAt_setS]; split
          · rename_i h; subst h
            rw [Grp.delPsPub_foreign (not_mem_inputsAt hg hk), coreAt_of_groups hg]
          · rfl
    · rfl
  case psMedia k => unfold psMedia; (repeat' split) <;> rfl
  case startPull a b c d => exact absurd hd (startPull_res s a b c d)
  case pullAttach a => exact absurd hd (pullAttach_res s a)
  case pullDone a =>
    have ha : a ∉ inputsAt s st := hx a (by simp [leaving])
    unfold pullDone
    split
    · split
      · rfl
      · rw [Srv.core_delPull]
        · simp
        · rw [inputsAt_congr (s := s) (by simp)]; exact ha
    · rfl
  case pullMedia a => unfold pullMedia; (repeat' split) <;> rfl
  case stopPull a => exact absurd hd (stopPull_res s a)
  case kick k x =>
    unfold kick
    split
    · rfl
    · rename_i g hg
      simp only [coreAt_setG]; split
      · rename_i h; subst h; rw [Grp.core_kick, coreAt_of_groups hg]
      · rfl
  case tick a b => exact absurd hd (tick_res s a b)

end Lal.Adm
