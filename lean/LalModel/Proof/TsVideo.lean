import LalModel.Model.TsRmx
import LalModel.Spec.Demux
import LalModel.Proof.Nalu
/-
  `feedVideo`'s NAL loop: what it writes into the access unit is an Annex B byte stream of well-formed units —
  AUD, the cached parameter sets before key pictures, and the published units except AUD (and H.265 SEI) —
  so the specification's byte-stream reader finds units that, up to the C06 normalisation, are the published ones.
-/
namespace Lal.TsVideo
open Lal Lal.Nalu Lal.TsRmx Lal.Publish

def codecOf (hevc : Bool) : VCodec := if hevc then .hevc else .avc

/-- a list of Annex B items (zero count, unit) that the reader accepts -/
def ItemsWF (items : List (Nat × Bytes)) : Prop := ∀ it ∈ items, it.1 ≥ 2 ∧ NalWF it.2

/-- …all of which are parameter sets (the cache) -/
def PsItems (c : VCodec) (items : List (Nat × Bytes)) : Prop := ItemsWF items ∧ ∀ it ∈ items, isParamSet c it.2 = true

def audItem (hevc : Bool) : Nat × Bytes := (3, if hevc then [0x46, 0x01, 0x10] else [0x09, 0xf0])

theorem aud_join (hevc : Bool) : (if hevc then Gen.hevcAudNalu else Gen.avcAudNalu) = joinAnnexb [audItem hevc] := by
  cases hevc <;> decide

theorem audItem_wf (hevc : Bool) : (audItem hevc).1 ≥ 2 ∧ NalWF (audItem hevc).2 := by
  cases hevc <;> decide

theorem audItem_isAud (hevc : Bool) : isAud (codecOf hevc) (audItem hevc).2 = true := by
  cases hevc <;> decide

theorem sc4_join (n : Bytes) : sc4 ++ n = joinAnnexb [(3, n)] := by
  simp [sc4, joinAnnexb, zeros, Gen.naluStartCode4]

theorem sc3_join (n : Bytes) : sc3 ++ n = joinAnnexb [(2, n)] := by
  simp [sc3, joinAnnexb, zeros, Gen.naluStartCode3]

theorem joinAnnexb_append (a b : List (Nat × Bytes)) : joinAnnexb (a ++ b) = joinAnnexb a ++ joinAnnexb b := by
  simp [joinAnnexb]

theorem join_sc3 (items : List (Nat × Bytes)) (nal : Bytes) :
    joinAnnexb items ++ sc3 ++ nal = joinAnnexb (items ++ [(2, nal)]) := by
  rw [List.append_assoc, sc3_join, joinAnnexb_append]

theorem joinAnnexb_isEmpty (items : List (Nat × Bytes)) : (joinAnnexb items).isEmpty = items.isEmpty := by
  cases items with
  | nil => rfl
  | cons a as => simp [joinAnnexb]

theorem isEmpty_append_left {α} (a b : List α) (h : a.isEmpty = false) : (a ++ b).isEmpty = false := by
  cases a with
  | nil => simp at h
  | cons x xs => rfl

theorem normTs_append (c : VCodec) (a b : List Bytes) : normTs c (a ++ b) = normTs c a ++ normTs c b := by
  simp [normTs]

theorem normTs_drop (c : VCodec) (n : Bytes) (h : (isAud c n || isParamSet c n || (c == .hevc && isSei c n)) = true) :
    normTs c [n] = [] := by
  unfold normTs
  rw [List.filter_cons]
  simp only [h, Bool.not_true, Bool.false_eq_true, if_false, List.filter_nil]

theorem normTs_keep (c : VCodec) (n : Bytes) (h : (isAud c n || isParamSet c n || (c == .hevc && isSei c n)) = false) :
    normTs c [n] = [n] := by
  unfold normTs
  rw [List.filter_cons]
  simp only [h, Bool.not_false, if_true, List.filter_nil]

theorem normTs_ps (c : VCodec) (items : List (Nat × Bytes)) (h : ∀ it ∈ items, isParamSet c it.2 = true) :
    normTs c (items.map (·.2)) = [] := by
  induction items with
  | nil => rfl
  | cons a as ih =>
    have ha := h a (by simp)
    have := ih (fun it hit => h it (by simp [hit]))
    simp only [List.map_cons, normTs, List.filter_cons, ha, Bool.or_true, Bool.true_or, Bool.not_true, Bool.false_eq_true,
      if_false]
    exact this

/-- the loop state after some units, seen through what it has written -/
structure LoopInv (hevc : Bool) (l : Loop) (done : List Bytes) : Prop where
  items : ∃ items : List (Nat × Bytes), l.out = joinAnnexb items ∧ ItemsWF items
      ∧ (l.audSent = !items.isEmpty)
      ∧ normTs (codecOf hevc) (items.map (·.2)) = normTs (codecOf hevc) done
      ∧ (!items.isEmpty) = forwards (codecOf hevc) done
  cache : ∃ ps, l.spspps = some (joinAnnexb ps) ∧ PsItems (codecOf hevc) ps
  vps : l.vps = [] ∨ (NalWF l.vps ∧ isVps (codecOf hevc) l.vps = true)
  sps : l.sps = [] ∨ (NalWF l.sps ∧ isSps (codecOf hevc) l.sps = true)

/-- `emitNal` on a state that satisfies the invariant: AUD first, the cache before a key picture, the unit -/
theorem emitNal_inv (hevc : Bool) (l : Loop) (done : List Bytes) (nal : Bytes) (keyPic resets : Bool)
    (hinv : LoopInv hevc l done) (hn : NalWF nal) :
    ∃ l', emitNal hevc l nal keyPic resets = some l' ∧ l'.vps = l.vps ∧ l'.sps = l.sps ∧ l'.spspps = l.spspps
      ∧ ∃ items : List (Nat × Bytes), l'.out = joinAnnexb items ∧ ItemsWF items ∧ l'.audSent = !items.isEmpty
          ∧ normTs (codecOf hevc) (items.map (·.2)) = normTs (codecOf hevc) done ++ normTs (codecOf hevc) [nal]
          ∧ (!items.isEmpty) = true := by
  obtain ⟨items, hout, hwf, haud, hnorm, _⟩ := hinv.items
  obtain ⟨ps, hps, hpswf, hpsty⟩ := hinv.cache
  -- after the AUD
  let items1 := if l.audSent then items else items ++ [audItem hevc]
  have h1wf : ItemsWF items1 := by
    intro it hit
    by_cases ha : l.audSent = true
    · simp only [items1, ha, if_true] at hit; exact hwf it hit
    · simp only [items1, ha, Bool.false_eq_true, if_false, List.mem_append, List.mem_singleton] at hit
      rcases hit with hit | rfl
      · exact hwf it hit
      · exact audItem_wf hevc
  have h1ne : items1.isEmpty = false := by
    by_cases ha : l.audSent = true
    · simp only [items1, ha, if_true]
      rw [ha] at haud
      simpa using haud.symm
    · simp [items1, ha]
  have h1norm : normTs (codecOf hevc) (items1.map (·.2)) = normTs (codecOf hevc) done := by
    by_cases ha : l.audSent = true
    · simp only [items1, ha, if_true]; exact hnorm
    · simp only [items1, ha, Bool.false_eq_true, if_false, List.map_append, normTs_append, hnorm, List.map_cons, List.map_nil]
      rw [normTs_drop _ _ (by simp [audItem_isAud hevc])]
      simp
  -- after the cache
  let ins := keyPic && !l.spsppsSent
  let items2 := if ins then items1 ++ ps else items1
  have h2wf : ItemsWF items2 := by
    intro it hit
    by_cases hi : ins = true
    · simp only [items2, hi, if_true, List.mem_append] at hit
      rcases hit with hit | hit
      · exact h1wf it hit
      · exact hpswf it hit
    · simp only [items2, hi, Bool.false_eq_true, if_false] at hit; exact h1wf it hit
  have h2ne : items2.isEmpty = false := by
    by_cases hi : ins = true
    · simp only [items2, hi, if_true]; exact isEmpty_append_left _ _ h1ne
    · simp only [items2, hi, Bool.false_eq_true, if_false, h1ne]
  have h2norm : normTs (codecOf hevc) (items2.map (·.2)) = normTs (codecOf hevc) done := by
    by_cases hi : ins = true
    · simp only [items2, hi, if_true, List.map_append, normTs_append, h1norm, normTs_ps _ ps hpsty, List.append_nil]
    · simp only [items2, hi, Bool.false_eq_true, if_false, h1norm]
  refine ⟨{ l with out := joinAnnexb (items2 ++ [(2, nal)]), audSent := true,
                   spsppsSent := if keyPic then true else if resets then false else l.spsppsSent }, ?_, rfl, rfl, rfl,
          items2 ++ [(2, nal)], rfl, ?_, by simp, ?_, by simp⟩
  · -- the computation
    have e1 : (if l.audSent then l else { l with out := l.out ++ (if hevc then Gen.hevcAudNalu else Gen.avcAudNalu), audSent := true })
        = { l with out := joinAnnexb items1, audSent := true } := by
      by_cases ha : l.audSent = true
      · simp only [ha, if_true, items1, ← hout]
        cases l; simp_all
      · simp only [ha, Bool.false_eq_true, if_false, items1, aud_join, hout, joinAnnexb_append]
    have hne2 : (joinAnnexb items2).isEmpty = false := by rw [joinAnnexb_isEmpty]; exact h2ne
    unfold emitNal
    simp only [e1]
    by_cases hk : keyPic = true
    · by_cases hs : l.spsppsSent = true
      · have hins : ins = false := by simp [ins, hk, hs]
        simp only [hk, hs, if_true, Bool.not_true, Bool.false_eq_true, if_false, Option.map_some, items2, hins,
          joinAnnexb_isEmpty, h1ne, join_sc3]
      · have hins : ins = true := by simp [ins, hk, hs]
        simp only [hk, hs, if_true, Bool.not_false, hps, Option.map_some, items2, hins, ← joinAnnexb_append,
          joinAnnexb_isEmpty, isEmpty_append_left _ ps h1ne, Bool.false_eq_true, if_false, join_sc3]
    · have hins : ins = false := by simp [ins, hk]
      by_cases hr : resets = true
      · simp only [hk, hr, Bool.false_eq_true, if_false, if_true, Option.map_some, items2, hins, joinAnnexb_isEmpty, h1ne,
          join_sc3]
      · simp only [hk, hr, Bool.false_eq_true, if_false, Option.map_some, items2, hins, joinAnnexb_isEmpty, h1ne,
          join_sc3]
  · intro it hit
    simp only [List.mem_append, List.mem_singleton] at hit
    rcases hit with hit | rfl
    · exact h2wf it hit
    · exact ⟨Nat.le_refl 2, hn⟩
  · simp only [List.map_append, normTs_append, h2norm, List.map_cons, List.map_nil]

/-! ### unit types: the model's classification is the specification's -/

theorem avc_type (nal : Bytes) (hn : nal ≠ []) : nalType .avc nal = avcNalType (nal.headD 0) := by
  cases nal with
  | nil => exact absurd rfl hn
  | cons h t => rfl

theorem hevc_type (nal : Bytes) (hn : nal ≠ []) : nalType .hevc nal = hevcNalType (nal.headD 0) := by
  cases nal with
  | nil => exact absurd rfl hn
  | cons h t => simp only [nalType, hevcNalType, List.headD_cons]; omega

theorem inv_with_sps {hevc : Bool} {l : Loop} {done : List Bytes} (h : LoopInv hevc l done) (nal : Bytes)
    (hn : NalWF nal) (ht : isSps (codecOf hevc) nal = true) : LoopInv hevc { l with sps := nal } done :=
  { items := h.items, cache := h.cache, vps := h.vps, sps := Or.inr ⟨hn, ht⟩ }

theorem inv_with_vps {hevc : Bool} {l : Loop} {done : List Bytes} (h : LoopInv hevc l done) (nal : Bytes)
    (hn : NalWF nal) (ht : isVps (codecOf hevc) nal = true) : LoopInv hevc { l with vps := nal } done :=
  { items := h.items, cache := h.cache, vps := Or.inr ⟨hn, ht⟩, sps := h.sps }

theorem inv_with_pps {hevc : Bool} {l : Loop} {done : List Bytes} (h : LoopInv hevc l done) (nal : Bytes) :
    LoopInv hevc { l with pps := nal } done :=
  { items := h.items, cache := h.cache, vps := h.vps, sps := h.sps }

theorem inv_with_cache {hevc : Bool} {l : Loop} {done : List Bytes} (h : LoopInv hevc l done) (nal : Bytes) (b : Bool)
    (ps : List (Nat × Bytes)) (hps : PsItems (codecOf hevc) ps) :
    LoopInv hevc { l with pps := nal, spspps := some (joinAnnexb ps), spsppsSent := b } done :=
  { items := h.items, cache := ⟨ps, rfl, hps⟩, vps := h.vps, sps := h.sps }

/-- the invariant after `emitNal` -/
theorem emit_step {hevc : Bool} {l : Loop} {done : List Bytes} (hinv : LoopInv hevc l done) (nal : Bytes) (keyPic resets : Bool)
    (hn : NalWF nal) (add : List Bytes) (hadd : normTs (codecOf hevc) [nal] = add) :
    ∃ l', emitNal hevc l nal keyPic resets = some l' ∧
      (∃ items : List (Nat × Bytes), l'.out = joinAnnexb items ∧ ItemsWF items ∧ l'.audSent = !items.isEmpty
          ∧ normTs (codecOf hevc) (items.map (·.2)) = normTs (codecOf hevc) done ++ add ∧ (!items.isEmpty) = true)
      ∧ l'.vps = l.vps ∧ l'.sps = l.sps ∧ l'.spspps = l.spspps := by
  obtain ⟨l', h1, h2, h3, h4, h5⟩ := emitNal_inv hevc l done nal keyPic resets hinv hn
  exact ⟨l', h1, hadd ▸ h5, h2, h3, h4⟩

theorem forwards_snoc (c : VCodec) (done : List Bytes) (nal : Bytes) :
    forwards c (done ++ [nal]) = (forwards c done || !skipped c nal) := by
  simp [forwards]

theorem inv_of_emit {hevc : Bool} {l l' : Loop} {done : List Bytes} (hinv : LoopInv hevc l done) (nal : Bytes)
    (hk : skipped (codecOf hevc) nal = false)
    (hi : ∃ items : List (Nat × Bytes), l'.out = joinAnnexb items ∧ ItemsWF items ∧ l'.audSent = !items.isEmpty
          ∧ normTs (codecOf hevc) (items.map (·.2)) = normTs (codecOf hevc) done ++ normTs (codecOf hevc) [nal]
          ∧ (!items.isEmpty) = true)
    (hv : l'.vps = l.vps) (hs : l'.sps = l.sps) (hc : l'.spspps = l.spspps) : LoopInv hevc l' (done ++ [nal]) := by
  refine { items := ?_, cache := hc ▸ hinv.cache, vps := hv ▸ hinv.vps, sps := hs ▸ hinv.sps }
  obtain ⟨items, a, b, c, d, e⟩ := hi
  exact ⟨items, a, b, c, by rw [normTs_append]; exact d, by rw [forwards_snoc, hk, e]; simp⟩

theorem three_ge (x : Bytes) : ((3 : Nat), x).1 ≥ 2 := by show 3 ≥ 2; omega

/-- what the normalisation does with one unit, by its type -/
theorem norm_avc (h : UInt8) (t : Bytes) :
    normTs (codecOf false) [h :: t]
      = if avcNalType h = Gen.avcNaluTypeAud ∨ avcNalType h = Gen.avcNaluTypeSps ∨ avcNalType h = Gen.avcNaluTypePps then [] else [h :: t] := by
  have ec : codecOf false = VCodec.avc := rfl
  rw [ec]
  simp only [normTs, isAud, isParamSet, isSps, isPps, isVps, nalType, avcNalType, Gen.avcNaluTypeAud, Gen.avcNaluTypeSps,
    Gen.avcNaluTypePps, List.filter_cons, List.filter_nil]
  by_cases h9 : h.toNat % 32 = 9 <;> by_cases h7 : h.toNat % 32 = 7 <;> by_cases h8 : h.toNat % 32 = 8 <;>
    simp [h9, h7, h8] <;> omega

theorem norm_hevc (h : UInt8) (t : Bytes) :
    normTs (codecOf true) [h :: t]
      = if hevcNalType h = Gen.hevcNaluTypeSei ∨ hevcNalType h = Gen.hevcNaluTypeSeiSuffix ∨ hevcNalType h = Gen.hevcNaluTypeAud
           ∨ hevcNalType h = Gen.hevcNaluTypeVps ∨ hevcNalType h = Gen.hevcNaluTypeSps ∨ hevcNalType h = Gen.hevcNaluTypePps
        then [] else [h :: t] := by
  have e : h.toNat / 2 % 64 = h.toNat % 128 / 2 := by omega
  have ec : codecOf true = VCodec.hevc := rfl
  rw [ec]
  simp only [normTs, isAud, isParamSet, isSps, isPps, isVps, isSei, nalType, hevcNalType, Gen.hevcNaluTypeAud,
    Gen.hevcNaluTypeSps, Gen.hevcNaluTypePps, Gen.hevcNaluTypeVps, Gen.hevcNaluTypeSei, Gen.hevcNaluTypeSeiSuffix,
    List.filter_cons, List.filter_nil, e]
  by_cases h1 : h.toNat % 128 / 2 = 39 <;> by_cases h2 : h.toNat % 128 / 2 = 40 <;> by_cases h3 : h.toNat % 128 / 2 = 35 <;>
    by_cases h4 : h.toNat % 128 / 2 = 32 <;> by_cases h5 : h.toNat % 128 / 2 = 33 <;> by_cases h6 : h.toNat % 128 / 2 = 34 <;>
    simp [h1, h2, h3, h4, h5, h6] <;> omega

theorem skip_inv {hevc : Bool} {l : Loop} {done : List Bytes} (hinv : LoopInv hevc l done) (nal : Bytes)
    (hk : skipped (codecOf hevc) nal = true) (h : normTs (codecOf hevc) [nal] = []) : LoopInv hevc l (done ++ [nal]) := by
  refine { items := ?_, cache := hinv.cache, vps := hinv.vps, sps := hinv.sps }
  obtain ⟨items, a, b, c, d, e⟩ := hinv.items
  exact ⟨items, a, b, c, by rw [normTs_append, h, List.append_nil]; exact d, by rw [forwards_snoc, hk, e]; simp⟩

theorem skipped_avc (h : UInt8) (t : Bytes) : skipped (codecOf false) (h :: t) = decide (avcNalType h = Gen.avcNaluTypeAud) := by
  have ec : codecOf false = VCodec.avc := rfl
  rw [ec]
  have hne : (VCodec.avc == VCodec.hevc) = false := by decide
  simp only [skipped, isAud, nalType, avcNalType, Gen.avcNaluTypeAud, hne, Bool.false_and, Bool.or_false]
  by_cases h9 : h.toNat % 32 = 9 <;> simp [h9]

theorem skipped_hevc (h : UInt8) (t : Bytes) :
    skipped (codecOf true) (h :: t) = decide (hevcNalType h = Gen.hevcNaluTypeAud ∨ hevcNalType h = Gen.hevcNaluTypeSei
      ∨ hevcNalType h = Gen.hevcNaluTypeSeiSuffix) := by
  have ec : codecOf true = VCodec.hevc := rfl
  have e : h.toNat / 2 % 64 = h.toNat % 128 / 2 := by omega
  rw [ec]
  simp only [skipped, isAud, isSei, nalType, hevcNalType, Gen.hevcNaluTypeAud, Gen.hevcNaluTypeSei, Gen.hevcNaluTypeSeiSuffix, e,
    beq_self_eq_true, Bool.true_and]
  by_cases h1 : h.toNat % 128 / 2 = 35 <;> by_cases h2 : h.toNat % 128 / 2 = 39 <;> by_cases h3 : h.toNat % 128 / 2 = 40 <;>
    simp [h1, h2, h3]

/-- one unit -/
theorem stepNal_inv (hevc : Bool) (l : Loop) (done : List Bytes) (nal : Bytes) (hinv : LoopInv hevc l done) (hn : NalWF nal) :
    ∃ l', stepNal hevc l nal = some l' ∧ LoopInv hevc l' (done ++ [nal]) := by
  obtain ⟨h, t, rfl⟩ : ∃ h t, nal = h :: t := by
    cases nal with
    | nil => exact absurd rfl hn.1
    | cons h t => exact ⟨h, t, rfl⟩
  have hnalne : (h :: t).isEmpty = false := rfl
  cases hevc with
  | false =>
    have hnorm := norm_avc h t
    unfold stepNal
    simp only [Bool.not_false, if_true, List.headD_cons]
    by_cases h9 : avcNalType h = Gen.avcNaluTypeAud
    · -- the publisher's own AUD is dropped
      refine ⟨l, by simp only [h9, if_true], skip_inv hinv _ (by rw [skipped_avc]; simp [h9]) ?_⟩
      rw [hnorm, if_pos (Or.inl h9)]
    · simp only [h9, if_false]
      have hk : skipped (codecOf false) (h :: t) = false := by rw [skipped_avc]; simp [h9]
      by_cases h7 : avcNalType h = Gen.avcNaluTypeSps
      · simp only [h7, if_true]
        have hs : isSps (codecOf false) (h :: t) = true := by
          simp only [avcNalType, Gen.avcNaluTypeSps] at h7
          simp [codecOf, isSps, nalType, h7]
        have hinv' := inv_with_sps hinv (h :: t) hn hs
        obtain ⟨l', e, hi, hv, hs', hc⟩ := emit_step hinv' (h :: t) false false hn _ rfl
        exact ⟨l', e, inv_of_emit hinv' _ hk hi hv hs' hc⟩
      · simp only [h7, if_false]
        by_cases h8 : avcNalType h = Gen.avcNaluTypePps
        · simp only [h8, if_true]
          have hp : isPps (codecOf false) (h :: t) = true := by
            simp only [avcNalType, Gen.avcNaluTypePps] at h8
            simp [codecOf, isPps, nalType, h8]
          by_cases hsps : l.sps.isEmpty = true
          · simp only [hsps, Bool.not_true, Bool.false_and, Bool.false_eq_true, if_false]
            have hinv' := inv_with_pps hinv (h :: t)
            obtain ⟨l', e, hi, hv, hs', hc⟩ := emit_step hinv' (h :: t) false false hn _ rfl
            exact ⟨l', e, inv_of_emit hinv' _ hk hi hv hs' hc⟩
          · simp only [hsps, hnalne, Bool.not_false, Bool.and_self, if_true]
            have hspswf : NalWF l.sps ∧ isSps (codecOf false) l.sps = true := by
              rcases hinv.sps with h | h
              · rw [h] at hsps; simp at hsps
              · exact h
            have hcache : PsItems (codecOf false) [(3, l.sps), (3, h :: t)] := by
              refine ⟨?_, ?_⟩
              · intro it hit
                simp only [List.mem_cons, List.mem_nil_iff, or_false] at hit
                rcases hit with rfl | rfl
                · exact ⟨three_ge _, hspswf.1⟩
                · exact ⟨three_ge _, hn⟩
              · intro it hit
                simp only [List.mem_cons, List.mem_nil_iff, or_false] at hit
                rcases hit with rfl | rfl
                · simp [isParamSet, hspswf.2]
                · simp [isParamSet, hp]
            have ejoin : sc4 ++ l.sps ++ sc4 ++ (h :: t) = joinAnnexb [(3, l.sps), (3, h :: t)] := by
              simp [sc4, joinAnnexb, zeros, Gen.naluStartCode4]
            rw [ejoin]
            have hinv' := inv_with_cache hinv (h :: t) true _ hcache
            obtain ⟨l', e, hi, hv, hs', hc⟩ := emit_step hinv' (h :: t) false false hn _ rfl
            exact ⟨l', e, inv_of_emit hinv' _ hk hi hv hs' hc⟩
        · simp only [h8, if_false]
          obtain ⟨l', e, hi, hv, hs', hc⟩ := emit_step hinv (h :: t) _ _ hn _ rfl
          exact ⟨l', e, inv_of_emit hinv _ hk hi hv hs' hc⟩
  | true =>
    have hnorm := norm_hevc h t
    unfold stepNal
    simp only [Bool.not_true, Bool.false_eq_true, if_false, List.headD_cons]
    by_cases hsei : hevcNalType h = Gen.hevcNaluTypeSei ∨ hevcNalType h = Gen.hevcNaluTypeSeiSuffix
    · refine ⟨l, by simp only [hsei, if_true], skip_inv hinv _ (by rw [skipped_hevc]; rcases hsei with x | x <;> simp [x]) ?_⟩
      rw [hnorm, if_pos (by rcases hsei with x | x; exact Or.inl x; exact Or.inr (Or.inl x))]
    · simp only [hsei, if_false]
      by_cases haud : hevcNalType h = Gen.hevcNaluTypeAud
      · refine ⟨l, by simp only [haud, if_true], skip_inv hinv _ (by rw [skipped_hevc]; simp [haud]) ?_⟩
        rw [hnorm, if_pos (Or.inr (Or.inr (Or.inl haud)))]
      · simp only [haud, if_false]
        have hk : skipped (codecOf true) (h :: t) = false := by
          rw [skipped_hevc]
          have h1 : ¬ hevcNalType h = Gen.hevcNaluTypeSei := fun x => hsei (Or.inl x)
          have h2 : ¬ hevcNalType h = Gen.hevcNaluTypeSeiSuffix := fun x => hsei (Or.inr x)
          simp [haud, h1, h2]
        by_cases hv32 : hevcNalType h = Gen.hevcNaluTypeVps
        · simp only [hv32, if_true]
          have hv : isVps (codecOf true) (h :: t) = true := by
            have e : h.toNat / 2 % 64 = h.toNat % 128 / 2 := by omega
            simp only [hevcNalType, Gen.hevcNaluTypeVps] at hv32
            simp [codecOf, isVps, nalType, e, hv32]
          have hinv' := inv_with_vps hinv (h :: t) hn hv
          obtain ⟨l', e, hi, hv', hs', hc⟩ := emit_step hinv' (h :: t) false false hn _ rfl
          exact ⟨l', e, inv_of_emit hinv' _ hk hi hv' hs' hc⟩
        · simp only [hv32, if_false]
          by_cases h33 : hevcNalType h = Gen.hevcNaluTypeSps
          · simp only [h33, if_true]
            have hs : isSps (codecOf true) (h :: t) = true := by
              have e : h.toNat / 2 % 64 = h.toNat % 128 / 2 := by omega
              simp only [hevcNalType, Gen.hevcNaluTypeSps] at h33
              simp [codecOf, isSps, nalType, e, h33]
            have hinv' := inv_with_sps hinv (h :: t) hn hs
            obtain ⟨l', e, hi, hv', hs', hc⟩ := emit_step hinv' (h :: t) false false hn _ rfl
            exact ⟨l', e, inv_of_emit hinv' _ hk hi hv' hs' hc⟩
          · simp only [h33, if_false]
            by_cases h34 : hevcNalType h = Gen.hevcNaluTypePps
            · simp only [h34, if_true]
              have hp : isPps (codecOf true) (h :: t) = true := by
                have e : h.toNat / 2 % 64 = h.toNat % 128 / 2 := by omega
                simp only [hevcNalType, Gen.hevcNaluTypePps] at h34
                simp [codecOf, isPps, nalType, e, h34]
              by_cases hfull : (!l.vps.isEmpty && !l.sps.isEmpty) = true
              · simp only [hfull, hnalne, Bool.not_false, Bool.and_self, if_true]
                simp only [Bool.and_eq_true, Bool.not_eq_true'] at hfull
                have hvpswf : NalWF l.vps ∧ isVps (codecOf true) l.vps = true := by
                  rcases hinv.vps with h | h
                  · rw [h] at hfull; simp at hfull
                  · exact h
                have hspswf : NalWF l.sps ∧ isSps (codecOf true) l.sps = true := by
                  rcases hinv.sps with h | h
                  · rw [h] at hfull; simp at hfull
                  · exact h
                have hcache : PsItems (codecOf true) [(3, l.vps), (3, l.sps), (3, h :: t)] := by
                  refine ⟨?_, ?_⟩
                  · intro it hit
                    simp only [List.mem_cons, List.mem_nil_iff, or_false] at hit
                    rcases hit with rfl | rfl | rfl
                    · exact ⟨three_ge _, hvpswf.1⟩
                    · exact ⟨three_ge _, hspswf.1⟩
                    · exact ⟨three_ge _, hn⟩
                  · intro it hit
                    simp only [List.mem_cons, List.mem_nil_iff, or_false] at hit
                    rcases hit with rfl | rfl | rfl
                    · simp [isParamSet, hvpswf.2]
                    · simp [isParamSet, hspswf.2]
                    · simp [isParamSet, hp]
                have ejoin : sc4 ++ l.vps ++ sc4 ++ l.sps ++ sc4 ++ (h :: t) = joinAnnexb [(3, l.vps), (3, l.sps), (3, h :: t)] := by
                  simp [sc4, joinAnnexb, zeros, Gen.naluStartCode4]
                rw [ejoin]
                have hinv' := inv_with_cache hinv (h :: t) true _ hcache
                obtain ⟨l', e, hi, hv', hs', hc⟩ := emit_step hinv' (h :: t) false false hn _ rfl
                exact ⟨l', e, inv_of_emit hinv' _ hk hi hv' hs' hc⟩
              · have : (!l.vps.isEmpty && !l.sps.isEmpty && !(h :: t).isEmpty) = false := by
                  simp only [Bool.not_eq_true] at hfull; simp [hfull]
                simp only [this, Bool.false_eq_true, if_false]
                have hinv' := inv_with_pps hinv (h :: t)
                obtain ⟨l', e, hi, hv', hs', hc⟩ := emit_step hinv' (h :: t) false false hn _ rfl
                exact ⟨l', e, inv_of_emit hinv' _ hk hi hv' hs' hc⟩
            · simp only [h34, if_false]
              obtain ⟨l', e, hi, hv', hs', hc⟩ := emit_step hinv (h :: t) _ _ hn _ rfl
              exact ⟨l', e, inv_of_emit hinv _ hk hi hv' hs' hc⟩

/-- the whole loop -/
theorem nalLoop_inv (hevc : Bool) : ∀ (nals : List Bytes) (l : Loop) (done : List Bytes), LoopInv hevc l done →
    (∀ n ∈ nals, NalWF n) → ∃ l', nalLoop hevc l nals = some l' ∧ LoopInv hevc l' (done ++ nals) := by
  intro nals
  induction nals with
  | nil => intro l done h _; exact ⟨l, rfl, by simpa using h⟩
  | cons n ns ih =>
    intro l done h hwf
    obtain ⟨l1, e1, h1⟩ := stepNal_inv hevc l done n h (hwf n (by simp))
    obtain ⟨l2, e2, h2⟩ := ih l1 (done ++ [n]) h1 (fun m hm => hwf m (by simp [hm]))
    refine ⟨l2, by simp only [nalLoop, e1, e2], ?_⟩
    simpa using h2

/-- the fresh loop state of `feedVideo` with a cache of well-formed parameter sets -/
theorem inv_init (hevc : Bool) (ps : List (Nat × Bytes)) (hps : PsItems (codecOf hevc) ps) :
    LoopInv hevc { spspps := some (joinAnnexb ps) } [] :=
  { items := ⟨[], rfl, fun _ h => by simp at h, rfl, rfl, rfl⟩, cache := ⟨ps, rfl, hps⟩, vps := Or.inl rfl, sps := Or.inl rfl }

/-- ACCESS UNIT THEOREM. For every list of well-formed NAL units and every cache of well-formed parameter sets, the
    loop succeeds; what it wrote is read by the H.264/H.265 Annex B byte stream reader as units which, with AUD,
    parameter sets (and H.265 SEI) set aside, are exactly the published ones; it wrote something exactly when the access
    unit has a unit other than AUD / H.265 SEI; the cache it leaves is again well-formed. -/
theorem access_unit (hevc : Bool) (ps : List (Nat × Bytes)) (hps : PsItems (codecOf hevc) ps) (nals : List Bytes)
    (hwf : ∀ n ∈ nals, NalWF n) :
    ∃ l units, nalLoop hevc { spspps := some (joinAnnexb ps) } nals = some l
      ∧ AnnexB.read l.out = some units
      ∧ normTs (codecOf hevc) units = normTs (codecOf hevc) nals
      ∧ (!l.out.isEmpty) = forwards (codecOf hevc) nals
      ∧ ∃ ps', l.spspps = some (joinAnnexb ps') ∧ PsItems (codecOf hevc) ps' := by
  obtain ⟨l, e, hinv⟩ := nalLoop_inv hevc nals _ [] (inv_init hevc ps hps) hwf
  obtain ⟨items, hout, hiwf, _, hnorm, hfw⟩ := hinv.items
  refine ⟨l, items.map (·.2), e, by rw [hout]; exact AnnexB.read_join items hiwf, by simpa using hnorm, ?_, hinv.cache⟩
  rw [hout, joinAnnexb_isEmpty]
  simpa using hfw

end Lal.TsVideo
