import LalModel.Model.PsU
import LalModel.Proof.Nalu
import LalModel.Proof.Bytes
import LalModel.Spec.PsSpec
/-
  PsUnpacker on well-formed program streams (C07 `ps_frames`).
  Part 1: a video access unit (Annex-B, start codes of any length ≥ 3) → one AvPacket per NAL unit, start code kept,
          gated by the wait-for-a-parameter-set flag.
  Part 2: PES packets → access units (boundary = a PES packet with a different PTS).
-/
namespace Lal.PsU
open Lal Lal.Av Lal.Nalu

/-- a NAL unit behind `k` zero bytes and `01`, as it sits in the elementary stream -/
def scNal (it : Nat × Bytes) : Bytes := zeros it.1 ++ 1 :: it.2

theorem joinAnnexb_cons (it : Nat × Bytes) (rest : List (Nat × Bytes)) :
    joinAnnexb (it :: rest) = scNal it ++ joinAnnexb rest := by
  simp [joinAnnexb, scNal]

/-- is the NAL unit a parameter set of the codec `pt` (SPS/PPS, resp. VPS/SPS/PPS) -/
def isPs (pt : Int) (n : Bytes) : Bool :=
  if pt = ptAvc then (n.headD 0).toNat % 32 == 7 || (n.headD 0).toNat % 32 == 8
  else (n.headD 0).toNat % 128 / 2 == 32 || (n.headD 0).toNat % 128 / 2 == 33 || (n.headD 0).toNat % 128 / 2 == 34

/-- `onAvPacketWrap`'s gate: with the wait flag set everything before the first parameter set is dropped -/
def gate (pt : Int) : Bool → List (Nat × Bytes) → Bool × List (Nat × Bytes)
  | w, [] => (w, [])
  | false, its => (false, its)
  | true, it :: rest => if isPs pt it.2 then (false, it :: rest) else gate pt true rest

theorem gate_false (pt : Int) (its : List (Nat × Bytes)) : gate pt false its = (false, its) := by
  cases its <;> rfl

theorem scan_scNal (it : Nat × Bytes) (tail : Bytes) (hk : it.1 ≥ 2) :
    scan (scNal it ++ tail) 0 0 = some (0, it.1 + 1) := by
  have := scan_zeros_one it.1 (it.2 ++ tail) 0 0 (by omega)
  simp only [scNal, List.append_assoc, List.cons_append]
  rw [this]
  congr 2 <;> omega

theorem scNal_length (it : Nat × Bytes) : (scNal it).length = it.1 + 1 + it.2.length := by
  simp [scNal, zeros_length]; omega

theorem nalHeaderPos_scNal (it : Nat × Bytes) (hk : it.1 ≥ 2) (hn : it.2 ≠ []) :
    nalHeaderPos .fixed (scNal it) = some (it.1 + 1) := by
  unfold nalHeaderPos
  have hl := scNal_length it
  have hpos : 0 < it.2.length := List.length_pos_iff.mpr hn
  have hs : iterateNaluStartCode (scNal it) 0 = some (0, it.1 + 1) := by
    unfold iterateNaluStartCode
    rw [if_neg (by omega)]
    have := scan_scNal it [] hk
    simp only [List.append_nil] at this
    simp [this]
  simp only [hs]
  rw [if_neg (by omega)]
  simp

theorem scNal_header (it : Nat × Bytes) (hn : it.2 ≠ []) : (scNal it)[it.1 + 1]? = some (it.2.headD 0) := by
  unfold scNal
  cases h : it.2 with
  | nil => exact absurd h hn
  | cons x xs =>
    rw [List.getElem?_append_right (by simp [zeros_length])]
    simp [zeros_length]

/-- `onAvPacketWrap` on one video NAL unit packet -/
theorem wrap_video (st : St) (pt : Int) (ts pts : Int) (it : Nat × Bytes) (hpt : pt = ptAvc ∨ pt = ptHevc)
    (hk : it.1 ≥ 2) (hn : it.2 ≠ []) :
    onAvPacketWrap .fixed st { pt := pt, ts := ts, pts := pts, payload := scNal it } =
      .ok (if st.waitSpsFlag && !isPs pt it.2 then (st, [])
           else ({ st with waitSpsFlag := false }, [{ pt := pt, ts := ts, pts := pts, payload := scNal it }])) := by
  have hv : ({ pt := pt, ts := ts, pts := pts, payload := scNal it } : AvPacket).isVideo = true := by
    rcases hpt with h | h <;> subst h <;> rfl
  unfold onAvPacketWrap isPs
  simp only [hv, if_true, nalHeaderPos_scNal it hk hn, idx?, scNal_header it hn]
  generalize it.2.headD 0 = x
  simp only [bind, Except.bind, pure, Except.pure]
  by_cases hw : st.waitSpsFlag = true
  · simp only [hw, if_true, Bool.true_and]
    rcases hpt with h | h
    · subst h
      simp only [if_true]
      by_cases h7 : x.toNat % 32 = 7
      · simp [h7]
      · by_cases h8 : x.toNat % 32 = 8
        · simp [h8]
        · simp [h7, h8]
    · subst h
      simp only [show ¬ (ptHevc = ptAvc) by decide, if_false]
      by_cases h32 : x.toNat % 128 / 2 = 32
      · simp [h32]
      · by_cases h33 : x.toNat % 128 / 2 = 33
        · simp [h33]
        · by_cases h34 : x.toNat % 128 / 2 = 34
          · simp [h34]
          · simp [h32, h33, h34]
  · have hw' : st.waitSpsFlag = false := by simpa using hw
    simp only [hw', Bool.false_eq_true, if_false, Bool.false_and]
    congr 2
    cases st; simp_all

/-- the AvPackets of the NAL units of one access unit -/
def mkPkts (pt ts pts : Int) (its : List (Nat × Bytes)) : List AvPacket :=
  its.map fun it => { pt := pt, ts := ts, pts := pts, payload := scNal it }

theorem wait_eta (st : St) : { st with waitSpsFlag := st.waitSpsFlag } = st := by cases st; rfl

theorem gate_cons (pt : Int) (w : Bool) (it : Nat × Bytes) (rest : List (Nat × Bytes)) :
    gate pt w (it :: rest) =
      if w && !isPs pt it.2 then gate pt true rest else (false, it :: (gate pt false rest).2) := by
  cases w
  · simp [gate, gate_false]
  · by_cases h : isPs pt it.2 = true
    · simp [gate, h, gate_false]
    · simp [gate, h]

theorem scan_scNal_at (it : Nat × Bytes) (tail : Bytes) (i : Nat) (hk : it.1 ≥ 2) :
    scan (scNal it ++ tail) i 0 = some (i, it.1 + 1) := by
  have := scan_zeros_one it.1 (it.2 ++ tail) i 0 (by omega)
  simp only [scNal, List.append_assoc, List.cons_append]
  rw [this]
  congr 2 <;> omega

theorem wrap_state (st : St) (b : Bool) (h : st.waitSpsFlag = b) : ({ st with waitSpsFlag := b } : St) = st := by
  cases st; simp_all

/-- The loop of `iterateNaluByStartCode`, positioned at the start code of a unit: one packet per NAL unit with its
    start code, through the gate. -/
theorem naluLoop_join (pt ts pts : Int) (hpt : pt = ptAvc ∨ pt = ptHevc) :
    ∀ (rest : List (Nat × Bytes)) (it : Nat × Bytes) (done : Bytes) (st : St) (fuel : Nat),
      (∀ x ∈ it :: rest, x.1 ≥ 2 ∧ NalWF x.2) → fuel ≥ rest.length + 1 →
      naluLoop .fixed (done ++ scNal it ++ joinAnnexb rest) pt ts pts fuel done.length (it.1 + 1) st
        = .ok ({ st with waitSpsFlag := (gate pt st.waitSpsFlag (it :: rest)).1 },
               mkPkts pt ts pts (gate pt st.waitSpsFlag (it :: rest)).2) := by
  intro rest
  induction rest with
  | nil =>
    intro it done st fuel hall hf
    obtain ⟨f, rfl⟩ : ∃ f, fuel = f + 1 := ⟨fuel - 1, by omega⟩
    obtain ⟨hk, hn⟩ := hall it (List.mem_cons_self ..)
    have hpos : 0 < it.2.length := List.length_pos_iff.mpr hn.1
    have hlen : (done ++ scNal it ++ joinAnnexb []).length = done.length + (it.1 + 1 + it.2.length) := by
      simp [joinAnnexb, scNal_length]
    have hdrop : (done ++ scNal it ++ joinAnnexb []).drop (done.length + (it.1 + 1)) = it.2 := by
      simp only [joinAnnexb, List.flatMap_nil, List.append_nil, scNal]
      rw [← List.drop_drop, List.drop_left]
      rw [show zeros it.1 ++ 1 :: it.2 = (zeros it.1 ++ [1]) ++ it.2 by simp]
      exact List.drop_left' (by simp [zeros_length])
    have hs : iterateNaluStartCode (done ++ scNal it ++ joinAnnexb []) (done.length + (it.1 + 1)) = none := by
      unfold iterateNaluStartCode
      rw [if_neg (by omega), hdrop, scan_none it.2 0 0 (by omega) (by simpa [zeros] using hn.2.1)]
      rfl
    have hpay : (done ++ scNal it ++ joinAnnexb []).drop done.length = scNal it := by
      simp [joinAnnexb]
    simp only [naluLoop, hs, hpay, wrap_video st pt ts pts it hpt hk hn.1, gate_cons, gate, mkPkts]
    by_cases hc : (st.waitSpsFlag && !isPs pt it.2) = true
    · simp only [hc, if_true, List.map_nil]
      have hw : st.waitSpsFlag = true := by
        cases h : st.waitSpsFlag
        · rw [h] at hc; simp at hc
        · rfl
      rw [wrap_state st true hw]
    · simp only [hc, Bool.false_eq_true, if_false, List.map_cons, List.map_nil]
  | cons it' rest' ih =>
    intro it done st fuel hall hf
    obtain ⟨f, rfl⟩ : ∃ f, fuel = f + 1 := ⟨fuel - 1, by omega⟩
    obtain ⟨hk, hn⟩ := hall it (List.mem_cons_self ..)
    obtain ⟨hk', hn'⟩ := hall it' (List.mem_cons_of_mem _ (List.mem_cons_self ..))
    have hall' : ∀ x ∈ it' :: rest', x.1 ≥ 2 ∧ NalWF x.2 := fun x hx => hall x (List.mem_cons_of_mem _ hx)
    have hpos : 0 < it.2.length := List.length_pos_iff.mpr hn.1
    have hlen : (done ++ scNal it ++ joinAnnexb (it' :: rest')).length ≥ done.length + (it.1 + 1 + it.2.length) := by
      simp only [List.length_append, scNal_length]; omega
    have hdrop : (done ++ scNal it ++ joinAnnexb (it' :: rest')).drop (done.length + (it.1 + 1))
        = it.2 ++ (scNal it' ++ joinAnnexb rest') := by
      rw [joinAnnexb_cons]
      simp only [scNal, List.append_assoc]
      rw [← List.drop_drop, List.drop_left]
      rw [show zeros it.1 ++ (1 :: it.2 ++ (zeros it'.1 ++ (1 :: it'.2 ++ joinAnnexb rest')))
            = (zeros it.1 ++ [1]) ++ (it.2 ++ (zeros it'.1 ++ (1 :: it'.2 ++ joinAnnexb rest'))) by simp]
      rw [List.drop_left' (by simp [zeros_length])]
    have hs : iterateNaluStartCode (done ++ scNal it ++ joinAnnexb (it' :: rest')) (done.length + (it.1 + 1))
        = some (done.length + (it.1 + 1) + it.2.length, it'.1 + 1) := by
      unfold iterateNaluStartCode
      rw [if_neg (by omega), hdrop,
        scan_body it.2 _ 0 0 (by omega) (by simpa [zeros] using hn.2.1) hn.1 hn.2.2,
        scan_scNal_at it' _ _ hk']
      simp
    have hpay : ((done ++ scNal it ++ joinAnnexb (it' :: rest')).drop done.length).take (done.length + (it.1 + 1) + it.2.length - done.length)
        = scNal it := by
      rw [List.append_assoc, List.drop_left]
      have : done.length + (it.1 + 1) + it.2.length - done.length = (scNal it).length := by rw [scNal_length]; omega
      rw [this, List.take_left]
    have hvb : done ++ scNal it ++ joinAnnexb (it' :: rest') = (done ++ scNal it) ++ scNal it' ++ joinAnnexb rest' := by
      rw [joinAnnexb_cons]; simp
    have hnext : done.length + (it.1 + 1) + it.2.length = (done ++ scNal it).length := by
      simp only [List.length_append, scNal_length]; omega
    simp only [naluLoop, hs, hpay, wrap_video st pt ts pts it hpt hk hn.1]
    rw [hvb, hnext]
    simp only [bind, Except.bind, pure, Except.pure]
    by_cases hc : (st.waitSpsFlag && !isPs pt it.2) = true
    · have hw : st.waitSpsFlag = true := by
        cases h : st.waitSpsFlag
        · rw [h] at hc; simp at hc
        · rfl
      simp only [hc, if_true]
      rw [ih it' (done ++ scNal it) st f hall' (by simp only [List.length_cons] at hf ⊢; omega)]
      rw [gate_cons pt st.waitSpsFlag it, hc, if_pos rfl, hw]
      simp
    · simp only [hc, Bool.false_eq_true, if_false]
      rw [ih it' (done ++ scNal it) { st with waitSpsFlag := false } f hall' (by simp only [List.length_cons] at hf ⊢; omega)]
      rw [gate_cons pt st.waitSpsFlag it]
      simp only [hc, Bool.false_eq_true, if_false, gate_false, mkPkts, List.map_cons, List.cons_append, List.nil_append]

theorem joinAnnexb_length_ge : ∀ (items : List (Nat × Bytes)), (joinAnnexb items).length ≥ items.length
  | [] => by simp [joinAnnexb]
  | x :: xs => by
    rw [joinAnnexb_cons]
    have := joinAnnexb_length_ge xs
    simp only [List.length_append, scNal_length, List.length_cons]
    omega

/-- `iterateNaluByStartCode` on a buffered access unit that starts with a start code -/
theorem iterate_join (st : St) (pts dts : Int) (it : Nat × Bytes) (rest : List (Nat × Bytes))
    (hpt : st.videoPt = ptAvc ∨ st.videoPt = ptHevc) (hvb : st.videoBuf = joinAnnexb (it :: rest))
    (hall : ∀ x ∈ it :: rest, x.1 ≥ 2 ∧ NalWF x.2) :
    iterateNaluByStartCode .fixed st pts dts =
      .ok ({ st with waitSpsFlag := (gate st.videoPt st.waitSpsFlag (it :: rest)).1 },
           mkPkts st.videoPt (Int.tdiv dts 90) (Int.tdiv pts 90) (gate st.videoPt st.waitSpsFlag (it :: rest)).2) := by
  obtain ⟨hk, hn⟩ := hall it (List.mem_cons_self ..)
  have hpos : 0 < it.2.length := List.length_pos_iff.mpr hn.1
  have hs : iterateNaluStartCode st.videoBuf 0 = some (0, it.1 + 1) := by
    rw [hvb]
    unfold iterateNaluStartCode
    rw [joinAnnexb_cons, if_neg (by simp only [List.length_append, scNal_length]; omega)]
    simp [scan_scNal it _ hk]
  have hlen : st.videoBuf.length + 1 ≥ rest.length + 1 := by
    rw [hvb]
    have := joinAnnexb_length_ge (it :: rest)
    simp only [List.length_cons] at this
    omega
  have hloop := naluLoop_join st.videoPt (Int.tdiv dts 90) (Int.tdiv pts 90) hpt rest it [] st (st.videoBuf.length + 1) hall hlen
  simp only [List.nil_append, List.length_nil, ← joinAnnexb_cons, ← hvb] at hloop
  unfold iterateNaluByStartCode
  rw [hs]
  exact hloop

/-! ### Part 2: PES packets -/

open PsSpec in
theorem readPts_tsField (pre : Bytes) (v : Nat) (post : Bytes) (hv : v < 8589934592) :
    readPts (pre ++ tsField 2 v ++ post) pre.length = .ok (v : Int) := by
  unfold readPts tsField
  have g : ∀ k (x : UInt8) (l : Bytes), (pre ++ l)[pre.length + k]? = l[k]? := by
    intro k x l
    rw [List.getElem?_append_right (by omega)]
    congr 1; omega
  simp only [idx?, List.append_assoc, List.cons_append, List.nil_append, bind, Except.bind, pure, Except.pure]
  rw [show pre.length = pre.length + 0 by rfl, g 0 0, g 1 0, g 2 0, g 3 0, g 4 0]
  simp only [List.getElem?_cons_zero, List.getElem?_cons_succ, b8_toNat]
  congr 1
  omega

/-- the PTS as `parseAvStream` holds it: -1 = absent -/
def ptsInt : Option Nat → Int
  | some p => (p : Int)
  | none => -1

open PsSpec in
/-- the PES header of a packet written by `PsSpec.pesPacket`, whatever follows it in the buffer -/
theorem pesHeader_packet (id : Nat) (pts : Option Nat) (stuff : Nat) (es tail : Bytes)
    (hL : 3 + (pesHeaderData pts stuff).length + es.length < 65536) (hhl : (pesHeaderData pts stuff).length < 256)
    (hp : ∀ p, pts = some p → p < 8589934592) :
    pesHeader (pesPacket id pts stuff es ++ tail) =
      .ok (some (3 + (pesHeaderData pts stuff).length + es.length, ptsInt pts, ptsInt pts, es)) := by
  have h16 := rd16_be16 _ hL
  unfold pesHeader be16At
  have hlen : (pesPacket id pts stuff es ++ tail).length = 9 + (pesHeaderData pts stuff).length + es.length + tail.length := by
    simp [pesPacket]; omega
  have i4 : (pesPacket id pts stuff es ++ tail)[4]? = some (b8 ((3 + (pesHeaderData pts stuff).length + es.length) / 256)) := by simp [pesPacket]
  have i5 : (pesPacket id pts stuff es ++ tail)[5]? = some (b8 (3 + (pesHeaderData pts stuff).length + es.length)) := by simp [pesPacket]
  have i7 : (pesPacket id pts stuff es ++ tail)[7]? = some (if pts.isSome then 0x80 else 0x00) := by simp [pesPacket]
  have i8 : (pesPacket id pts stuff es ++ tail)[8]? = some (b8 (pesHeaderData pts stuff).length) := by simp [pesPacket]
  have hsl : slice? "parseAvStream payload" (pesPacket id pts stuff es ++ tail) (9 + (pesHeaderData pts stuff).length)
      (9 + (pesHeaderData pts stuff).length + (3 + (pesHeaderData pts stuff).length + es.length) - 3 - (pesHeaderData pts stuff).length) = .ok es := by
    unfold slice?
    rw [if_pos (by rw [hlen]; omega)]
    have e : pesPacket id pts stuff es ++ tail = (0 :: 0 :: 1 :: b8 id :: b8 ((3 + (pesHeaderData pts stuff).length + es.length) / 256)
        :: b8 (3 + (pesHeaderData pts stuff).length + es.length) :: 0x80 :: (if pts.isSome then 0x80 else 0x00)
        :: b8 (pesHeaderData pts stuff).length :: pesHeaderData pts stuff) ++ (es ++ tail) := by
      simp [pesPacket]
    rw [e, List.drop_left' (by simp; omega)]
    have : 9 + (pesHeaderData pts stuff).length + (3 + (pesHeaderData pts stuff).length + es.length) - 3 - (pesHeaderData pts stuff).length
        - (9 + (pesHeaderData pts stuff).length) = es.length := by omega
    rw [this, List.take_left]
  have hlt : ¬ (9 + (pesHeaderData pts stuff).length + es.length + tail.length - 6 < 3 + (pesHeaderData pts stuff).length + es.length) := by omega
  have hge : ¬ (4 > 9 + (pesHeaderData pts stuff).length + es.length + tail.length) := by omega
  have hph : ¬ (3 + (pesHeaderData pts stuff).length + es.length < 3 + (pesHeaderData pts stuff).length) := by omega
  cases pts with
  | none =>
    simp only [idx?, i4, i5, i7, i8, hlen, bind, Except.bind, pure, Except.pure, h16, b8_toNat, Nat.mod_eq_of_lt hhl,
      Option.isSome_none, Bool.false_eq_true, if_false, hlt, hge, hph, hsl, ptsInt,
      show ((0 : UInt8).toNat / 64 / 2 % 2 = 1) = False by decide, show ((0 : UInt8).toNat / 64 % 2 = 1) = False by decide]
  | some p =>
    have hrp : readPts (pesPacket id (some p) stuff es ++ tail) 9 = .ok (p : Int) := by
      have e : pesPacket id (some p) stuff es ++ tail =
          [0, 0, 1, b8 id, b8 ((3 + (pesHeaderData (some p) stuff).length + es.length) / 256),
           b8 (3 + (pesHeaderData (some p) stuff).length + es.length), 0x80, 0x80, b8 (pesHeaderData (some p) stuff).length]
            ++ tsField 2 p ++ (List.replicate stuff 0xff ++ es ++ tail) := by
        simp [pesPacket, pesHeaderData]
      rw [e]
      exact readPts_tsField _ p _ (hp p rfl)
    simp only [idx?, i4, i5, i7, i8, hlen, bind, Except.bind, pure, Except.pure, h16, b8_toNat, Nat.mod_eq_of_lt hhl,
      Option.isSome_some, if_true, if_false, hlt, hge, hph, hsl, hrp, ptsInt,
      show ((128 : UInt8).toNat / 64 / 2 % 2 = 1) = True by decide, show ((128 : UInt8).toNat / 64 % 2 = 1) = False by decide]

/-- a PES packet that starts a new access unit: the buffered one is handed out, the packet's bytes start the buffer -/
theorem avVideo_new (st : St) (rtpts : Nat) (P : Nat) (es : Bytes) (it : Nat × Bytes) (rest : List (Nat × Bytes))
    (hpt : st.videoPt = ptAvc ∨ st.videoPt = ptHevc) (hvb : st.videoBuf = joinAnnexb (it :: rest))
    (hall : ∀ x ∈ it :: rest, x.1 ≥ 2 ∧ NalWF x.2) (hq : 0 ≤ st.preVideoPts) (hne : (P : Int) ≠ st.preVideoPts) :
    avVideo .fixed st rtpts P P es =
      .ok ({ st with waitSpsFlag := (gate st.videoPt st.waitSpsFlag (it :: rest)).1, videoBuf := es,
                     preVideoRtpts := rtpts, preVideoPts := P, preVideoDts := P },
           mkPkts st.videoPt (Int.tdiv st.preVideoPts 90) (Int.tdiv st.preVideoPts 90) (gate st.videoPt st.waitSpsFlag (it :: rest)).2) := by
  unfold avVideo
  have h1 : ¬ ((P : Int) = -1) := by omega
  simp only [h1, if_false, hne, ne_eq, not_false_eq_true, hq, ge_iff_le, and_self, if_true,
    iterate_join st st.preVideoPts st.preVideoPts it rest hpt hvb hall, bind, Except.bind, pure, Except.pure, List.nil_append]

/-- a PES packet of the access unit being buffered (same PTS, or none), or the very first one: its bytes are appended -/
theorem avVideo_same (st : St) (rtpts : Nat) (pts0 : Int) (es : Bytes)
    (h : (pts0 = -1 ∧ st.preVideoPts ≠ -1) ∨ (pts0 ≠ -1 ∧ (pts0 = st.preVideoPts ∨ st.preVideoPts < 0))) :
    avVideo .fixed st rtpts pts0 pts0 es =
      .ok ({ st with videoBuf := st.videoBuf ++ es, preVideoRtpts := rtpts,
                     preVideoPts := (if pts0 = -1 then st.preVideoPts else pts0), preVideoDts := pts0 }, []) := by
  unfold avVideo
  rcases h with ⟨h1, h2⟩ | ⟨h1, h2⟩
  · simp only [h1, if_true, h2, if_false, bind, Except.bind, pure, Except.pure]
  · have h3 : ¬ (pts0 ≠ st.preVideoPts ∧ st.preVideoPts ≥ 0) := by
      rcases h2 with h2 | h2
      · exact fun h => h.1 h2
      · exact fun h => by omega
    simp only [h1, if_false, h3, bind, Except.bind, pure, Except.pure]

open PsSpec in
theorem pesPacket_cons (id : Nat) (pts : Option Nat) (stuff : Nat) (es : Bytes) :
    ∃ t, pesPacket id pts stuff es = 0 :: 0 :: 1 :: b8 id :: t ∧
      t.length = 5 + (pesHeaderData pts stuff).length + es.length := by
  refine ⟨_, rfl, ?_⟩
  simp only [List.length_cons, List.length_append]
  omega

open PsSpec in
/-- one round of the `FeedRtpBody` loop on a buffer that holds exactly one video PES packet: consumed entirely -/
theorem bodyLoop_videoPes (st : St) (rtpts : Nat) (pts : Option Nat) (stuff : Nat) (es : Bytes) (st' : St) (out : List AvPacket) (f : Nat)
    (hb : st.buf = pesPacket 0xe0 pts stuff es)
    (hL : 3 + (pesHeaderData pts stuff).length + es.length < 65536) (hhl : (pesHeaderData pts stuff).length < 256)
    (hp : ∀ p, pts = some p → p < 8589934592)
    (hav : avVideo .fixed st rtpts (ptsInt pts) (ptsInt pts) es = .ok (st', out))
    (hb' : st'.buf = st.buf) :
    bodyLoop .fixed rtpts (f + 2) st = .ok ({ st' with buf := [] }, out, false) := by
  have hh := pesHeader_packet 0xe0 pts stuff es [] hL hhl hp
  simp only [List.append_nil] at hh
  obtain ⟨t, ht, htl⟩ := pesPacket_cons 0xe0 pts stuff es
  have h224 : b8 0xe0 = 0xe0 := by decide
  rw [h224] at ht
  have hcode : rd32 0 0 1 0xe0 = 0x1e0 := by decide
  have hne : ¬ (st.buf = []) := by rw [hb, ht]; simp
  have hdrop : (if 4 + (2 + (3 + (pesHeaderData pts stuff).length + es.length)) > st'.buf.length then [] else st'.buf.drop (4 + (2 + (3 + (pesHeaderData pts stuff).length + es.length)))) = [] := by
    rw [hb', hb, ht]
    split
    · rfl
    · apply List.drop_eq_nil_of_le
      simp only [List.length_cons]; omega
  have hinner : ∀ s : St, s.buf = [] → bodyLoop .fixed rtpts (f + 1) s = .ok (s, [], false) := by
    intro s hs
    unfold bodyLoop
    simp [hs]
  rw [show f + 2 = (f + 1) + 1 by rfl]
  unfold bodyLoop
  simp only []
  rw [if_neg hne]
  have hmatch : st.buf = 0 :: 0 :: 1 :: 0xe0 :: t := by rw [hb, ht]
  rw [hmatch]
  simp only [hcode, show ¬ ((0x1e0 : Nat) = 0x1ba) by decide, show ¬ ((0x1e0 : Nat) = 0x1bb) by decide,
    show ¬ ((0x1e0 : Nat) = 0x1bc) by decide, show ¬ ((0x1e0 : Nat) = 0x1c0) by decide, if_false, if_true,
    bind, Except.bind, pure, Except.pure]
  rw [← hmatch, hb]
  simp only [parseAvStream, hh, bind, Except.bind, pure, Except.pure, Bool.false_eq_true, if_false, hav]
  rw [hinner _ (by simpa using hdrop)]
  simp [hdrop]

/-! ### units that carry no elementary stream -/

open PsSpec in
/-- a pack header (any SCR / mux-rate bytes, any stuffing), a length-prefixed unit of a stream lal skips, or the end code -/
inductive Neutral : Bytes → Prop where
  | pack (body9 : Bytes) (stuff : Nat) : body9.length = 9 → stuff ≤ 7 → Neutral (packHeader body9 stuff)
  | skip (id : Nat) (body : Bytes) : (id = 0xbb ∨ id = 0xbd ∨ id = 0xbf ∨ id = 0xf0 ∨ id = 0xf1 ∨ id = 0xbe ∨ id = 0xff) →
      body.length < 65536 → Neutral (lengthUnit id body)
  | end_ : Neutral packEnd

theorem bodyLoop_empty (rtpts : Nat) (f : Nat) (s : St) (hs : s.buf = []) : bodyLoop .fixed rtpts f s = .ok (s, [], false) := by
  cases f with
  | zero => rfl
  | succ f => unfold bodyLoop; simp [hs]

open PsSpec in
theorem parsePackHeader_pack (a0 a1 a2 a3 a4 a5 a6 a7 a8 : UInt8) (stuff : Nat) (hs : stuff ≤ 7) :
    parsePackHeader .fixed (packHeader [a0, a1, a2, a3, a4, a5, a6, a7, a8] stuff) = .ok (some (10 + stuff)) := by
  have hlen : (packHeader [a0, a1, a2, a3, a4, a5, a6, a7, a8] stuff).length = 14 + stuff := by
    simp only [packHeader, List.cons_append, List.nil_append, List.length_cons, List.length_replicate]; omega
  have hx : (b8 (0xf8 + stuff)).toNat % 8 = stuff := by rw [b8_toNat]; omega
  have h13 : (packHeader [a0, a1, a2, a3, a4, a5, a6, a7, a8] stuff)[13]? = some (b8 (0xf8 + stuff)) := by
    simp [packHeader]
  unfold parsePackHeader
  simp only [hlen, idx?, h13, bind, Except.bind, pure, Except.pure, hx]
  rw [if_neg (by omega), if_neg (by intro h; omega)]

open PsSpec in
theorem parsePackStreamBody_unit (id : Nat) (body : Bytes) (hl : body.length < 65536) :
    parsePackStreamBody (lengthUnit id body) = .ok (some (2 + body.length)) := by
  have h16 := rd16_be16 _ hl
  have hlen : (lengthUnit id body).length = 6 + body.length := by
    simp only [lengthUnit, List.length_cons]; omega
  have i4 : (lengthUnit id body)[4]? = some (b8 (body.length / 256)) := by simp [lengthUnit]
  have i5 : (lengthUnit id body)[5]? = some (b8 body.length) := by simp [lengthUnit]
  unfold parsePackStreamBody be16At
  simp only [hlen, idx?, i4, i5, bind, Except.bind, pure, Except.pure, h16]
  rw [if_neg (by omega), if_neg (by omega)]
  simp

/-- one round of the loop on a buffer that is exactly one unit lal skips -/
theorem bodyLoop_skip (st : St) (rtpts : Nat) (f : Nat) (c3 : UInt8) (t : Bytes) (consumed : Nat)
    (hb : st.buf = 0 :: 0 :: 1 :: c3 :: t) (hlen : 4 + consumed = st.buf.length)
    (hdisp : (c3 = 0xba ∧ parsePackHeader .fixed st.buf = .ok (some consumed))
           ∨ ((c3 = 0xbb ∨ c3 = 0xbd ∨ c3 = 0xbf ∨ c3 = 0xf0 ∨ c3 = 0xf1 ∨ c3 = 0xbe ∨ c3 = 0xff) ∧ parsePackStreamBody st.buf = .ok (some consumed))
           ∨ (c3 = 0xb9 ∧ consumed = 0)) :
    bodyLoop .fixed rtpts (f + 2) st = .ok ({ st with buf := [] }, [], false) := by
  have hne : ¬ (st.buf = []) := by rw [hb]; simp
  have hdrop : (if 4 + consumed > st.buf.length then [] else st.buf.drop (4 + consumed)) = [] := by
    rw [if_neg (by omega)]
    exact List.drop_eq_nil_of_le (by omega)
  rw [show f + 2 = (f + 1) + 1 by rfl]
  unfold bodyLoop
  simp only []
  rw [if_neg hne]
  rcases hdisp with ⟨hc, hp⟩ | ⟨hc, hp⟩ | ⟨hc, hp⟩
  · subst hc
    rw [hb] at hp ⊢
    simp only [show rd32 0 0 1 0xba = 0x1ba by decide, if_true, hp, bind, Except.bind, pure, Except.pure]
    rw [hdrop, bodyLoop_empty rtpts _ _ rfl]
    simp
  · rw [hb] at hp ⊢
    rcases hc with h | h | h | h | h | h | h <;> subst h <;>
      simp only [show rd32 0 0 1 0xbb = 0x1bb by decide, show rd32 0 0 1 0xbd = 0x1bd by decide, show rd32 0 0 1 0xbf = 0x1bf by decide,
        show rd32 0 0 1 0xf0 = 0x1f0 by decide, show rd32 0 0 1 0xf1 = 0x1f1 by decide, show rd32 0 0 1 0xbe = 0x1be by decide,
        show rd32 0 0 1 0xff = 0x1ff by decide, Nat.reduceEqDiff, if_true, if_false, or_true, true_or, or_false, false_or,
        hp, bind, Except.bind, pure, Except.pure] <;>
      (rw [hdrop, bodyLoop_empty rtpts _ _ rfl]; simp)
  · subst hc; subst hp
    rw [hb]
    simp only [show rd32 0 0 1 0xb9 = 0x1b9 by decide, Nat.reduceEqDiff, if_true, if_false, bind, Except.bind, pure, Except.pure]
    rw [hdrop, bodyLoop_empty rtpts _ _ rfl]
    simp

open PsSpec in
/-- `FeedRtpBody` with one such unit and an empty buffer: consumed, nothing else changes -/
theorem feedRtpBody_neutral (st : St) (rtpts : Nat) (b : Bytes) (hn : Neutral b) (hb : st.buf = []) :
    feedRtpBody .fixed st b rtpts = .ok (st, [], false) := by
  have hst : ({ ({ st with buf := b } : St) with buf := [] } : St) = st := by cases st; simp_all
  unfold feedRtpBody
  simp only [hb, List.nil_append]
  cases hn with
  | pack body9 stuff h9 hs =>
    obtain ⟨a0, a1, a2, a3, a4, a5, a6, a7, a8, rfl⟩ : ∃ a0 a1 a2 a3 a4 a5 a6 a7 a8, body9 = [a0, a1, a2, a3, a4, a5, a6, a7, a8] := by
      rcases body9 with _ | ⟨a0, _ | ⟨a1, _ | ⟨a2, _ | ⟨a3, _ | ⟨a4, _ | ⟨a5, _ | ⟨a6, _ | ⟨a7, _ | ⟨a8, _ | ⟨a9, r⟩⟩⟩⟩⟩⟩⟩⟩⟩⟩
      all_goals first | (simp at h9; done) | exact ⟨_, _, _, _, _, _, _, _, _, rfl⟩
    have hlen : (packHeader [a0, a1, a2, a3, a4, a5, a6, a7, a8] stuff).length = 14 + stuff := by
      simp only [packHeader, List.cons_append, List.nil_append, List.length_cons, List.length_replicate]; omega
    rw [hlen, show 14 + stuff + 1 = (13 + stuff) + 2 by omega]
    rw [bodyLoop_skip _ rtpts _ 0xba _ (10 + stuff) rfl (by simp only []; rw [hlen]; omega)
      (Or.inl ⟨rfl, parsePackHeader_pack a0 a1 a2 a3 a4 a5 a6 a7 a8 stuff hs⟩), hst]
  | skip id body hid hl =>
    have hlen : (lengthUnit id body).length = 6 + body.length := by simp only [lengthUnit, List.length_cons]; omega
    rw [hlen, show 6 + body.length + 1 = (5 + body.length) + 2 by omega]
    rw [bodyLoop_skip _ rtpts _ (b8 id) _ (2 + body.length) rfl (by simp only []; rw [hlen]; omega)
      (Or.inr (Or.inl ⟨by rcases hid with h | h | h | h | h | h | h <;> subst h <;> decide, parsePackStreamBody_unit id body hl⟩)), hst]
  | end_ =>
    rw [show packEnd.length + 1 = 3 + 2 by rfl]
    rw [bodyLoop_skip _ rtpts _ 0xb9 _ 0 rfl rfl (Or.inr (Or.inr ⟨rfl, rfl⟩)), hst]

/-! ### frames -/

/-- one PES packet's worth of an access unit -/
structure Chunk where
  hasPts : Bool        -- does this (non-first) packet repeat the PTS
  stuff : Nat          -- stuffing bytes in the PES header
  rtpts : Nat          -- RTP timestamp of the packet that carries it
  es : Bytes
deriving Repr

/-- a video access unit as a sender lays it out: PTS, NAL units with their start-code lengths, and the cut of the
    byte stream into PES packets (the first always carries the PTS) -/
structure Frame where
  pts : Nat
  items : List (Nat × Bytes)
  pre : List (Nat × Bytes) := []      -- units without elementary stream sent before the access unit (RTP timestamp, bytes)
  first : Chunk
  more : List Chunk
deriving Repr

def Chunk.WF (c : Chunk) : Prop := c.stuff + 5 < 256 ∧ 8 + c.stuff + c.es.length < 65536

open PsSpec in
def chunkBody (pts : Nat) (force : Bool) (c : Chunk) : Bytes :=
  pesPacket 0xe0 (if force || c.hasPts then some pts else none) c.stuff c.es

def Frame.bodies (f : Frame) : List (Nat × Bytes) :=
  f.pre ++ (f.first.rtpts, chunkBody f.pts true f.first) :: f.more.map fun c => (c.rtpts, chunkBody f.pts false c)

def Frame.es (f : Frame) : Bytes := f.first.es ++ (f.more.map (·.es)).flatten

structure Frame.WF (f : Frame) : Prop where
  cut : f.es = joinAnnexb f.items
  ne : f.items ≠ []
  nals : ∀ x ∈ f.items, x.1 ≥ 2 ∧ NalWF x.2
  pts : f.pts < 8589934592
  c0 : f.first.WF
  cs : ∀ c ∈ f.more, c.WF
  neutral : ∀ b ∈ f.pre, Neutral b.2

/-- the unpacker between two `FeedRtpBody` calls while it buffers an access unit -/
structure Holding (st : St) (pt : Int) (w : Bool) (P : Int) (B : Bytes) : Prop where
  buf : st.buf = []
  vb : st.videoBuf = B
  pp : st.preVideoPts = P
  vpt : st.videoPt = pt
  wait : st.waitSpsFlag = w

open PsSpec in
theorem hdr_len (o : Option Nat) (stuff : Nat) : (pesHeaderData o stuff).length ≤ 5 + stuff := by
  cases o <;> simp [pesHeaderData, tsField] <;> omega

open PsSpec in
/-- `FeedRtpBody` with one video PES packet when nothing is buffered in `p.buf` -/
theorem feedRtpBody_pes (st : St) (rtpts : Nat) (o : Option Nat) (c : Chunk) (st' : St) (out : List AvPacket)
    (hb : st.buf = []) (hc : c.WF) (hp : ∀ p, o = some p → p < 8589934592)
    (hav : avVideo .fixed { st with buf := pesPacket 0xe0 o c.stuff c.es } rtpts (ptsInt o) (ptsInt o) c.es = .ok (st', out))
    (hb' : st'.buf = pesPacket 0xe0 o c.stuff c.es) :
    feedRtpBody .fixed st (pesPacket 0xe0 o c.stuff c.es) rtpts = .ok ({ st' with buf := [] }, out, false) := by
  have hl := hdr_len o c.stuff
  obtain ⟨t, ht, htl⟩ := pesPacket_cons 0xe0 o c.stuff c.es
  have hlen : (pesPacket 0xe0 o c.stuff c.es).length + 1 = ((pesPacket 0xe0 o c.stuff c.es).length - 1) + 2 := by
    rw [ht]; simp only [List.length_cons]; omega
  unfold feedRtpBody
  simp only [hb, List.nil_append]
  rw [hlen]
  exact bodyLoop_videoPes { st with buf := pesPacket 0xe0 o c.stuff c.es } rtpts o c.stuff c.es st' out _ rfl
    (by have := hc.2; omega) (by have := hc.1; omega) hp hav hb'

theorem feedRtpBodies_cons (st : St) (ts : Nat) (b : Bytes) (bs : List (Nat × Bytes)) (st1 : St) (o1 : List AvPacket) (e : Bool)
    (h : feedRtpBody .fixed st b ts = .ok (st1, o1, e)) :
    feedRtpBodies .fixed st ((ts, b) :: bs) =
      match feedRtpBodies .fixed st1 bs with
      | .error f => .error f
      | .ok (st2, o2) => .ok (st2, o1 ++ o2) := by
  simp only [feedRtpBodies, h, bind, Except.bind, pure, Except.pure]
  cases feedRtpBodies .fixed st1 bs with
  | error f => rfl
  | ok r => rfl

open PsSpec in
/-- one more PES packet of the access unit being buffered (same PTS or none) -/
theorem feed_chunk_same (pt : Int) (w : Bool) (P : Nat) (hP : P < 8589934592) (st : St) (B : Bytes) (c : Chunk) (o : Option Nat)
    (ho : o = some P ∨ o = none) (h : Holding st pt w P B) (hc : c.WF) :
    ∃ st1, feedRtpBody .fixed st (pesPacket 0xe0 o c.stuff c.es) c.rtpts = .ok (st1, [], false) ∧ Holding st1 pt w P (B ++ c.es) := by
  have hpi : ptsInt o = (P : Int) ∨ ptsInt o = -1 := by
    rcases ho with h | h <;> subst h <;> simp [ptsInt]
  have hcond : (ptsInt o = -1 ∧ st.preVideoPts ≠ -1) ∨ (ptsInt o ≠ -1 ∧ (ptsInt o = st.preVideoPts ∨ st.preVideoPts < 0)) := by
    rw [h.pp]
    rcases hpi with e | e
    · right; rw [e]; exact ⟨by omega, Or.inl rfl⟩
    · left; rw [e]; exact ⟨rfl, by omega⟩
  have hav := avVideo_same { st with buf := pesPacket 0xe0 o c.stuff c.es } c.rtpts (ptsInt o) c.es hcond
  have hfeed := feedRtpBody_pes st c.rtpts o c _ _ h.buf hc
    (by intro p hp; rcases ho with e | e <;> rw [e] at hp <;> simp at hp; omega) hav rfl
  refine ⟨_, hfeed, ⟨rfl, ?_, ?_, h.vpt, h.wait⟩⟩
  · show st.videoBuf ++ c.es = B ++ c.es
    rw [h.vb]
  · show (if ptsInt o = -1 then st.preVideoPts else ptsInt o) = (P : Int)
    rcases hpi with e | e
    · rw [e, if_neg (by omega)]
    · rw [e, if_pos rfl, h.pp]

/-- the later PES packets of the access unit being buffered: appended, nothing delivered -/
theorem feed_more (pt : Int) (w : Bool) (P : Nat) (hP : P < 8589934592) : ∀ (cs : List Chunk) (st : St) (B : Bytes),
    Holding st pt w P B → (∀ c ∈ cs, c.WF) →
    ∃ st', feedRtpBodies .fixed st (cs.map fun c => (c.rtpts, chunkBody P false c)) = .ok (st', [])
      ∧ Holding st' pt w P (B ++ (cs.map (·.es)).flatten)
  | [], st, B, h, _ => ⟨st, rfl, by simpa using h⟩
  | c :: cs, st, B, h, hwf => by
    obtain ⟨st1, hf, hh⟩ := feed_chunk_same pt w P hP st B c (if false || c.hasPts then some P else none)
      (by cases c.hasPts <;> simp) h (hwf c (List.mem_cons_self ..))
    obtain ⟨st', h1, h2⟩ := feed_more pt w P hP cs st1 (B ++ c.es) hh (fun x hx => hwf x (List.mem_cons_of_mem _ hx))
    refine ⟨st', ?_, by simpa using h2⟩
    simp only [List.map_cons]
    rw [feedRtpBodies_cons st c.rtpts _ _ _ _ _ (by simpa [chunkBody] using hf), h1]
    rfl

theorem feedRtpBodies_append : ∀ (a b : List (Nat × Bytes)) (st st1 : St) (o1 : List AvPacket),
    feedRtpBodies .fixed st a = .ok (st1, o1) →
    feedRtpBodies .fixed st (a ++ b) =
      match feedRtpBodies .fixed st1 b with
      | .error f => .error f
      | .ok (st2, o2) => .ok (st2, o1 ++ o2)
  | [], b, st, st1, o1, h => by
    simp only [feedRtpBodies, Except.ok.injEq, Prod.mk.injEq] at h
    obtain ⟨rfl, rfl⟩ := h
    simp only [List.nil_append]
    cases feedRtpBodies .fixed st b with
    | error f => rfl
    | ok r => rfl
  | (ts, x) :: a, b, st, st1, o1, h => by
    simp only [feedRtpBodies, bind, Except.bind, pure, Except.pure] at h
    cases h0 : feedRtpBody .fixed st x ts with
    | error f => rw [h0] at h; cases h
    | ok r0 =>
      obtain ⟨s0, p0, e0⟩ := r0
      rw [h0] at h
      simp only [] at h
      cases h1 : feedRtpBodies .fixed s0 a with
      | error f => rw [h1] at h; cases h
      | ok r1 =>
        obtain ⟨s1, p1⟩ := r1
        rw [h1] at h
        simp only [Except.ok.injEq, Prod.mk.injEq] at h
        obtain ⟨rfl, rfl⟩ := h
        simp only [List.cons_append]
        rw [feedRtpBodies_cons st ts x _ _ _ _ h0, feedRtpBodies_append a b s0 s1 p1 h1]
        cases feedRtpBodies .fixed s1 b with
        | error f => rfl
        | ok r => simp

open PsSpec in
/-- the first PES packet of the next access unit: the buffered one is delivered -/
theorem feed_first_new (pt : Int) (w : Bool) (Q P : Nat) (hP : P < 8589934592) (hne : P ≠ Q) (st : St) (c : Chunk)
    (it : Nat × Bytes) (rest : List (Nat × Bytes)) (hpt : pt = ptAvc ∨ pt = ptHevc)
    (h : Holding st pt w Q (joinAnnexb (it :: rest))) (hall : ∀ x ∈ it :: rest, x.1 ≥ 2 ∧ NalWF x.2) (hc : c.WF) :
    ∃ st1, feedRtpBody .fixed st (pesPacket 0xe0 (some P) c.stuff c.es) c.rtpts
        = .ok (st1, mkPkts pt (Int.tdiv Q 90) (Int.tdiv Q 90) (gate pt w (it :: rest)).2, false)
      ∧ Holding st1 pt (gate pt w (it :: rest)).1 P c.es := by
  have hav := avVideo_new { st with buf := pesPacket 0xe0 (some P) c.stuff c.es } c.rtpts P c.es it rest
    (by show st.videoPt = ptAvc ∨ st.videoPt = ptHevc; rw [h.vpt]; exact hpt) h.vb hall
    (by show 0 ≤ st.preVideoPts; rw [h.pp]; omega) (by show (P : Int) ≠ st.preVideoPts; rw [h.pp]; omega)
  have hfeed := feedRtpBody_pes st c.rtpts (some P) c _ _ h.buf hc (by intro p hp; simp at hp; omega) hav rfl
  simp only [h.vpt, h.wait, h.pp] at hfeed
  refine ⟨_, hfeed, ⟨rfl, rfl, rfl, rfl, rfl⟩⟩

open PsSpec in
/-- the very first PES packet of the stream -/
theorem feed_first_init (pt : Int) (w : Bool) (P : Nat) (hP : P < 8589934592) (st : St) (c : Chunk)
    (h : Holding st pt w (-1) []) (hc : c.WF) :
    ∃ st1, feedRtpBody .fixed st (pesPacket 0xe0 (some P) c.stuff c.es) c.rtpts = .ok (st1, [], false)
      ∧ Holding st1 pt w P c.es := by
  have hcond : (ptsInt (some P) = -1 ∧ st.preVideoPts ≠ -1) ∨ (ptsInt (some P) ≠ -1 ∧ (ptsInt (some P) = st.preVideoPts ∨ st.preVideoPts < 0)) := by
    right; rw [h.pp]; simp only [ptsInt]; exact ⟨by omega, Or.inr (by omega)⟩
  have hav := avVideo_same { st with buf := pesPacket 0xe0 (some P) c.stuff c.es } c.rtpts (ptsInt (some P)) c.es hcond
  have hfeed := feedRtpBody_pes st c.rtpts (some P) c _ _ h.buf hc (by intro p hp; simp at hp; omega) hav rfl
  refine ⟨_, hfeed, ⟨rfl, ?_, ?_, h.vpt, h.wait⟩⟩
  · show st.videoBuf ++ c.es = c.es
    rw [h.vb]; rfl
  · show (if ptsInt (some P) = -1 then st.preVideoPts else ptsInt (some P)) = (P : Int)
    simp only [ptsInt]
    have : ¬ ((P : Int) = -1) := by omega
    simp [this]

/-- what the unpacker delivers for a sequence of access units: every access unit but the last (which stays buffered
    until the next one starts), NAL unit by NAL unit with its start code, stamped PTS/90, through the gate -/
def expectFrames (pt : Int) : Bool → List Frame → List AvPacket
  | _, [] => []
  | _, [_] => []
  | w, f :: g :: rest =>
    mkPkts pt (Int.tdiv f.pts 90) (Int.tdiv f.pts 90) (gate pt w f.items).2 ++ expectFrames pt (gate pt w f.items).1 (g :: rest)

/-- consecutive access units have different PTS -/
def Chained : Frame → List Frame → Prop
  | _, [] => True
  | p, f :: fs => f.pts ≠ p.pts ∧ Chained f fs

/-- pack headers, system headers, private / padding packets, end codes: nothing happens -/
theorem feed_neutrals : ∀ (bs : List (Nat × Bytes)) (st : St), st.buf = [] → (∀ b ∈ bs, Neutral b.2) →
    feedRtpBodies .fixed st bs = .ok (st, [])
  | [], _, _, _ => rfl
  | (ts, b) :: bs, st, hb, hn => by
    rw [feedRtpBodies_cons st ts b bs st [] false (feedRtpBody_neutral st ts b (hn (ts, b) (List.mem_cons_self ..)) hb),
      feed_neutrals bs st hb (fun x hx => hn x (List.mem_cons_of_mem _ hx))]
    rfl

theorem feed_frame_new (pt : Int) (w : Bool) (hpt : pt = ptAvc ∨ pt = ptHevc) (p f : Frame) (st : St)
    (hp : p.WF) (hf : f.WF) (hne : f.pts ≠ p.pts) (h : Holding st pt w p.pts (joinAnnexb p.items)) :
    ∃ st', feedRtpBodies .fixed st f.bodies = .ok (st', mkPkts pt (Int.tdiv p.pts 90) (Int.tdiv p.pts 90) (gate pt w p.items).2)
      ∧ Holding st' pt (gate pt w p.items).1 f.pts (joinAnnexb f.items) := by
  cases hi : p.items with
  | nil => exact absurd hi hp.ne
  | cons it rest =>
    rw [hi] at h
    obtain ⟨st1, h1, hh1⟩ := feed_first_new pt w p.pts f.pts hf.pts hne st f.first it rest hpt h (by rw [← hi]; exact hp.nals) hf.c0
    obtain ⟨st2, h2, hh2⟩ := feed_more pt (gate pt w (it :: rest)).1 f.pts hf.pts f.more st1 f.first.es hh1 hf.cs
    refine ⟨st2, ?_, ?_⟩
    · unfold Frame.bodies
      rw [feedRtpBodies_append _ _ st st [] (feed_neutrals f.pre st h.buf hf.neutral),
        feedRtpBodies_cons st f.first.rtpts _ _ _ _ _ (by simpa [chunkBody] using h1), h2]
      simp
    · have := hf.cut
      unfold Frame.es at this
      rw [this] at hh2
      exact hh2

theorem feed_frame_init (pt : Int) (w : Bool) (f : Frame) (st : St) (hf : f.WF) (h : Holding st pt w (-1) []) :
    ∃ st', feedRtpBodies .fixed st f.bodies = .ok (st', []) ∧ Holding st' pt w f.pts (joinAnnexb f.items) := by
  obtain ⟨st1, h1, hh1⟩ := feed_first_init pt w f.pts hf.pts st f.first h hf.c0
  obtain ⟨st2, h2, hh2⟩ := feed_more pt w f.pts hf.pts f.more st1 f.first.es hh1 hf.cs
  refine ⟨st2, ?_, ?_⟩
  · unfold Frame.bodies
    rw [feedRtpBodies_append _ _ st st [] (feed_neutrals f.pre st h.buf hf.neutral),
      feedRtpBodies_cons st f.first.rtpts _ _ _ _ _ (by simpa [chunkBody] using h1), h2]
    simp
  · have := hf.cut
    unfold Frame.es at this
    rw [this] at hh2
    exact hh2

instance (c : Chunk) : Decidable c.WF := by unfold Chunk.WF; infer_instance

instance decChained : (p : Frame) → (fs : List Frame) → Decidable (Chained p fs)
  | _, [] => isTrue trivial
  | p, f :: fs => by
    unfold Chained
    exact @instDecidableAnd _ _ inferInstance (decChained f fs)

/-- all following access units, while one is buffered -/
theorem feed_frames (pt : Int) (hpt : pt = ptAvc ∨ pt = ptHevc) : ∀ (fs : List Frame) (p : Frame) (w : Bool) (st : St),
    p.WF → (∀ f ∈ fs, f.WF) → Chained p fs → Holding st pt w p.pts (joinAnnexb p.items) →
    ∃ st', feedRtpBodies .fixed st (fs.flatMap Frame.bodies) = .ok (st', expectFrames pt w (p :: fs))
  | [], p, w, st, _, _, _, _ => ⟨st, rfl⟩
  | f :: fs, p, w, st, hp, hfs, hc, h => by
    obtain ⟨hne, hc'⟩ := hc
    obtain ⟨st1, h1, hh1⟩ := feed_frame_new pt w hpt p f st hp (hfs f (List.mem_cons_self ..)) hne h
    obtain ⟨st2, h2⟩ := feed_frames pt hpt fs f _ st1 (hfs f (List.mem_cons_self ..)) (fun g hg => hfs g (List.mem_cons_of_mem _ hg)) hc' hh1
    refine ⟨st2, ?_⟩
    simp only [List.flatMap_cons]
    rw [feedRtpBodies_append _ _ st st1 _ h1, h2]
    rfl

end Lal.PsU
