import LalModel.Model.RtspRemux
import LalModel.Proof.MsgClass
import LalModel.Proof.GoOk
import LalModel.Proof.SeqHeaderTotal
import LalModel.Proof.NaluTotal
import LalModel.Proof.Amf0Meta
/-
  `Rtmp2RtspRemuxer.FeedRtmpMsg` returns normally for every message and every remuxer state.
-/
namespace Lal.RtspRemux
open Lal Lal.MsgClass
set_option linter.unusedSimpArgs false
set_option linter.unusedVariables false

theorem packNal_ok (hevc : Bool) (nal : Bytes) : Ok (fun _ => True) (Rtp.packNal hevc nal maxPayloadSize) := by
  unfold Rtp.packNal maxPayloadSize
  cases hevc <;> simp [Rtp.fuHeaderSize] <;> (repeat' split) <;> first | exact Ok.triv _ | (simp_all; done)

theorem packAvccLoop_ok (hevc : Bool) : ∀ (nals : List Bytes), (∀ n ∈ nals, n ≠ []) → Ok (fun _ => True) (packAvccLoop hevc nals) := by
  intro nals
  induction nals with
  | nil => intro _; exact Ok.triv _
  | cons n rest ih =>
    intro h
    have hn : n ≠ [] := h n (by simp)
    obtain ⟨x, r, rfl⟩ : ∃ x r, n = x :: r := by
      cases n with
      | nil => exact (hn rfl).elim
      | cons x r => exact ⟨x, r, rfl⟩
    have ihr := ih (fun k hk => h k (by simp [hk]))
    unfold packAvccLoop
    simp only [idx?, List.getElem?_cons_zero, GoM.ok_bind, GoM.pure_eq]
    repeat' split
    all_goals first
      | exact ihr
      | (obtain ⟨a, ha, _⟩ := packNal_ok hevc (x :: r)
         obtain ⟨b, hb, _⟩ := ihr
         simp only [ha, hb, GoM.ok_bind]
         exact Ok.triv _)

theorem packAvcc_ok (hevc : Bool) (inp : Bytes) : Ok (fun _ => True) (packAvcc hevc inp) := by
  unfold packAvcc
  dsimp only
  split
  · exact Ok.triv _
  · exact packAvccLoop_ok hevc _ (Nalu.splitNaluAvcc_nonempty inp)

theorem payloadPack_ok (k : Rtp.Kind) (inp : Bytes) : Ok (fun _ => True) (Rtp.payloadPack k inp maxPayloadSize) := by
  cases k <;> simp only [Rtp.payloadPack, Rtp.avcHevcPack]
  · split
    · exact Ok.triv _
    · exact packNal_ok false inp
  · split
    · exact Ok.triv _
    · exact packNal_ok true inp
  all_goals exact Ok.triv _

theorem packWith_ok (p : Packer) (audio : Bool) (pt : Int) (ts : Nat) (payload : Bytes) :
    Ok (fun _ => True) (packWith p audio pt ts payload) := by
  obtain ⟨kind, rate, seq⟩ := p
  unfold packWith
  cases kind <;> dsimp only
  · obtain ⟨r, hr, _⟩ := packAvcc_ok false payload
    simp only [hr, GoM.ok_bind, GoM.pure_eq]; exact Ok.triv _
  · obtain ⟨r, hr, _⟩ := packAvcc_ok true payload
    simp only [hr, GoM.ok_bind, GoM.pure_eq]; exact Ok.triv _
  all_goals (simp only [GoM.ok_bind, GoM.pure_eq]; exact Ok.triv _)

/-- the fields the analysis stage is about -/
def Same (a b : St) : Prop := a.msgCache = b.msgCache ∧ a.analyzeDone = b.analyzeDone

theorem getAudioPacker_cache (s : St) : Same (getAudioPacker s).1 s := by
  unfold getAudioPacker; repeat' split
  all_goals exact ⟨rfl, rfl⟩

theorem getVideoPacker_cache (s : St) : Same (getVideoPacker s).1 s := by
  unfold getVideoPacker; repeat' split
  all_goals exact ⟨rfl, rfl⟩

/-- what `FeedRtmpMsg` checks before a message is cached or remuxed -/
def LenOk (m : Msg) : Prop := (m.typeId = tAudio → 2 ≤ m.payload.length) ∧ (m.typeId = tVideo → 5 < m.payload.length)

/-- every cached message passed the length checks -/
def St.WF (s : St) : Prop := ∀ m ∈ s.msgCache, LenOk m

theorem remux_ok (s : St) (m : Msg) (hl : LenOk m) : Ok (fun r => Same r.1 s) (remux s m) := by
  obtain ⟨ha, hv⟩ := hl
  have ga := getAudioPacker_cache s
  have gv := getVideoPacker_cache s
  unfold remux
  simp only [audioCodecId_eq, videoCodecId_eq, isEnchanedHevcNalu_eq, getEnchanedHevcNaluIndex_eq, GoM.ok_bind, GoM.pure_eq]
  split
  · rename_i hA
    have h2 := ha hA
    split
    · exact Ok.ok ga
    · rename_i p _
      split
      · obtain ⟨r, hr, _⟩ := Ok.from? "remux: Payload[1:]" m.payload 1 (by omega)
        simp only [hr, GoM.ok_bind]
        obtain ⟨q, hq, _⟩ := packWith_ok p true (getAudioPacker s).1.audioPt m.ts r
        simp only [hq, GoM.ok_bind]; exact Ok.ok ga
      · obtain ⟨r, hr, _⟩ := Ok.from? "remux: Payload[2:]" m.payload 2 (by omega)
        simp only [hr, GoM.ok_bind]
        obtain ⟨q, hq, _⟩ := packWith_ok p true (getAudioPacker s).1.audioPt m.ts r
        simp only [hq, GoM.ok_bind]; exact Ok.ok ga
  · split
    · rename_i hV
      have h5 := hv hV
      split
      · exact Ok.ok gv
      · rename_i p _
        split
        · split
          · exact Ok.ok gv
          · obtain ⟨r, hr, _⟩ := Ok.from? "remux: Payload[index:]" m.payload (getEnchanedHevcNaluIndexP m) (by omega)
            simp only [hr, GoM.ok_bind]
            obtain ⟨q, hq, _⟩ := packWith_ok p false (getVideoPacker s).1.videoPt m.ts r
            simp only [hq, GoM.ok_bind]; exact Ok.ok gv
        · obtain ⟨r, hr, _⟩ := Ok.from? "remux: Payload[5:]" m.payload 5 (by omega)
          simp only [hr, GoM.ok_bind]
          obtain ⟨q, hq, _⟩ := packWith_ok p false (getVideoPacker s).1.videoPt m.ts r
          simp only [hq, GoM.ok_bind]; exact Ok.ok gv
    · exact Ok.ok ⟨rfl, rfl⟩

theorem remuxAll_ok : ∀ (ms : List Msg) (s : St), (∀ m ∈ ms, LenOk m) → Ok (fun r => Same r.1 s) (remuxAll s ms) := by
  intro ms
  induction ms with
  | nil => intro s _; exact Ok.ok ⟨rfl, rfl⟩
  | cons m rest ih =>
    intro s h
    unfold remuxAll
    obtain ⟨r1, h1, hc1⟩ := remux_ok s m (h m (by simp))
    obtain ⟨r2, h2, hc2⟩ := ih r1.1 (fun k hk => h k (by simp [hk]))
    simp only [h1, h2, GoM.ok_bind, GoM.pure_eq]
    exact Ok.ok ⟨by rw [hc2.1, hc1.1], by rw [hc2.2, hc1.2]⟩

theorem analyzeAsc_same (s : St) : (∀ s2, analyzeAsc s = .inl s2 → Same s2 s) ∧ (∀ s2, analyzeAsc s = .inr s2 → Same s2 s) := by
  unfold analyzeAsc
  constructor <;> intro s2 h <;> (repeat' split at h) <;> (first | (cases h; exact ⟨rfl, rfl⟩) | (simp at h))

/-- the events of one call either are empty or start with the SDP -/
def HeadSdp (evs : List Ev) : Prop := ∃ c rest, evs = .sdp c :: rest

theorem finishAnalyze_ok (env : Env) (s : St) (h : s.WF) : Ok (fun r => r.1.WF ∧ HeadSdp r.2) (finishAnalyze env s) := by
  unfold finishAnalyze
  obtain ⟨r, hr, _⟩ := remuxAll_ok s.msgCache s h
  simp only [hr]
  exact Ok.ok ⟨by intro m hm; simp at hm, _, _, rfl⟩

/-- `doAnalyze()`: the cache is only ever emptied; either nothing happens or the SDP comes first -/
theorem doAnalyze_ok (env : Env) (s : St) (h : s.WF) :
    Ok (fun r => r.1.WF ∧ ((r.2 = [] ∧ r.1.analyzeDone = s.analyzeDone) ∨ HeadSdp r.2)) (doAnalyze env s) := by
  unfold doAnalyze
  split
  · exact Ok.ok ⟨h, .inl ⟨rfl, rfl⟩⟩
  · dsimp only
    have h1 : Same (if s.sps.isSome = true ∧ s.pps.isSome = true then { s with videoPt := if s.vps.isSome = true then Sdp.ptHevc else Sdp.ptAvc } else s) s := by
      split <;> exact ⟨rfl, rfl⟩
    obtain ⟨hl, hrr⟩ := analyzeAsc_same (if s.sps.isSome = true ∧ s.pps.isSome = true then { s with videoPt := if s.vps.isSome = true then Sdp.ptHevc else Sdp.ptAvc } else s)
    split
    · rename_i s2 hs2
      have hs := hrr s2 hs2
      exact Ok.ok ⟨by intro m hm; rw [hs.1, h1.1] at hm; exact h m hm, .inl ⟨rfl, by rw [hs.2, h1.2]⟩⟩
    · rename_i s2 hs2
      have hs := hl s2 hs2
      exact (finishAnalyze_ok env s2 (by intro m hm; rw [hs.1, h1.1] at hm; exact h m hm)).mono (fun r hr => ⟨hr.1, .inr hr.2⟩)

theorem feedMeta_ok (s : St) (m : Msg) (h : s.WF) : Ok (fun r => r.1.WF ∧ r.2 = [] ∧ r.1.analyzeDone = s.analyzeDone) (feedMeta s m) := by
  unfold feedMeta
  have hp := Amf0.parseMetadata_notPanic Gen.amf0MaxDepth (Gen.amf0MaxDepth - 1) m.payload (by decide)
  split
  · rename_i e he
    rw [he] at hp; simp [isPanic] at hp
  · exact Ok.ok ⟨h, rfl, rfl⟩
  · refine Ok.ok ⟨?_, rfl, ?_⟩
    · dsimp only
      intro k hk
      apply h k
      revert hk
      repeat' split
      all_goals exact id
    · dsimp only
      repeat' split
      all_goals rfl

theorem gate_ok (s : St) (m : Msg) (h : s.WF) :
    Ok (fun r => ∀ s1, r = some s1 → s1.WF ∧ LenOk m ∧ Same s1 s) (gate s m) := by
  unfold gate
  simp only [audioCodecId_eq, GoM.ok_bind, GoM.pure_eq]
  have hne : tAudio ≠ tVideo := by decide
  repeat' split
  all_goals refine Ok.ok ?_
  all_goals intro s1 hs1
  all_goals first
    | (cases hs1; done)
    | (injection hs1 with hs1; subst hs1; refine ⟨?_, ⟨?_, ?_⟩, ?_, ?_⟩)
  all_goals first
    | exact h
    | rfl
    | (intro hh; omega)
    | (intro hh; simp_all; done)
    | (unfold audioDefault; dsimp only; repeat' split
       all_goals first | exact h | rfl)
    | skip

theorem storeAvc_ok (s : St) (r : GoM (Bytes × Bytes)) (hr : NoPanicB r) : Ok (fun s1 => Same s1 s) (storeAvc s r) := by
  unfold storeAvc
  split
  · exact Ok.ok ⟨rfl, rfl⟩
  · exact Ok.ok ⟨rfl, rfl⟩
  · have := hr.elim rfl
    simp_all

theorem storeHevc_ok (s : St) (enh : Bool) (r : GoM (Bytes × Bytes × Bytes)) (hr : NoPanicB r) :
    Ok (fun s1 => Same s1 s) (storeHevc s enh r) := by
  unfold storeHevc
  dsimp only
  split
  · exact Ok.ok ⟨rfl, rfl⟩
  · exact Ok.ok ⟨rfl, rfl⟩
  · have := hr.elim rfl
    simp_all

theorem analyze_ok (env : Env) (s : St) (m : Msg) (h : s.WF) (hl : LenOk m) :
    Ok (fun r => r.1.WF ∧ ((r.2 = [] ∧ r.1.analyzeDone = s.analyzeDone) ∨ HeadSdp r.2)) (analyze env s m) := by
  unfold analyze
  simp only [isAvcKeySeqHeader_eq, isHevcKeySeqHeader_eq, isAacSeqHeader_eq, isEnhanced_eq, GoM.ok_bind, GoM.pure_eq]
  have lift : ∀ (s1 : St), s1.analyzeDone = s.analyzeDone → s1.WF →
      Ok (fun r => r.1.WF ∧ ((r.2 = [] ∧ r.1.analyzeDone = s.analyzeDone) ∨ HeadSdp r.2)) (doAnalyze env s1) := by
    intro s1 hs hw
    exact (doAnalyze_ok env s1 hw).mono (fun r hr => ⟨hr.1, hr.2.imp (fun x => ⟨x.1, by rw [x.2, hs]⟩) id⟩)
  split
  · obtain ⟨s1, h1, hc⟩ := storeAvc_ok s _ (SeqHeader.avcParse_np m.payload)
    simp only [h1, GoM.ok_bind]
    exact lift s1 hc.2 (by intro k hk; rw [hc.1] at hk; exact h k hk)
  · split
    · have hnp : NoPanicB (if isEnhancedP m = true then SeqHeader.hevcParseEnhanced m.payload else SeqHeader.hevcParse m.payload) := by
        split
        · exact SeqHeader.hevcParseEnhanced_np _
        · exact SeqHeader.hevcParse_np _
      obtain ⟨s1, h1, hc⟩ := storeHevc_ok s (isEnhancedP m) _ hnp
      simp only [h1, GoM.ok_bind]
      exact lift s1 hc.2 (by intro k hk; rw [hc.1] at hk; exact h k hk)
    · split
      · rename_i _ _ hs
        have h2 : 2 ≤ m.payload.length := by
          unfold isAacSeqHeaderP at hs
          split at hs
          · rename_i hp; rw [hp]; simp only [List.length_cons]; omega
          · exact absurd hs (by decide)
        obtain ⟨r, hr, _⟩ := Ok.from? "FeedRtmpMsg: Payload[2:]" m.payload 2 h2
        simp only [hr, GoM.ok_bind]
        exact lift _ rfl h
      · exact lift _ rfl (by
          intro k hk
          simp only [List.mem_append, List.mem_singleton] at hk
          rcases hk with hk | rfl
          · exact h k hk
          · exact hl)

/-- what the group needs to know about the events of one `FeedRtmpMsg`: RTP packets only come once the SDP has -/
def Shape (s : St) (r : St × List Ev) : Prop :=
  (s.analyzeDone = true ∧ r.1.analyzeDone = true) ∨ (r.2 = [] ∧ r.1.analyzeDone = s.analyzeDone) ∨ HeadSdp r.2

/-- `rtsp_remux_total`: `FeedRtmpMsg` returns normally; every cached message has passed the length checks -/
theorem feed_ok (env : Env) (s : St) (m : Msg) (h : s.WF) : Ok (fun r => r.1.WF ∧ Shape s r) (feed env s m) := by
  unfold feed
  split
  · exact (feedMeta_ok s m h).mono (fun r hr => ⟨hr.1, .inr (.inl ⟨hr.2.1, hr.2.2⟩)⟩)
  · obtain ⟨g, hg, hgp⟩ := gate_ok s m h
    simp only [hg, GoM.ok_bind, GoM.pure_eq, isAvcKeySeqHeader_eq, isHevcKeySeqHeader_eq, isAacSeqHeader_eq]
    cases g with
    | none => exact Ok.ok ⟨h, .inr (.inl ⟨rfl, rfl⟩)⟩
    | some s1 =>
      obtain ⟨hw, hl, hsame⟩ := hgp s1 rfl
      dsimp only
      split
      · exact (analyze_ok env s1 m hw hl).mono (fun r hr => ⟨hr.1, .inr (hr.2.imp (fun x => ⟨x.1, by rw [x.2, hsame.2]⟩) id)⟩)
      · rename_i hd
        have hd' : s1.analyzeDone = true := by simpa using hd
        split
        · exact Ok.ok ⟨hw, .inl ⟨by rw [← hsame.2]; exact hd', hd'⟩⟩
        · obtain ⟨r, hr, hc⟩ := remux_ok s1 m hl
          exact ⟨r, hr, by intro k hk; rw [hc.1] at hk; exact hw k hk, .inl ⟨by rw [← hsame.2]; exact hd', by rw [hc.2]; exact hd'⟩⟩

theorem St.init_wf : ({} : St).WF := by intro m hm; simp at hm

end Lal.RtspRemux
