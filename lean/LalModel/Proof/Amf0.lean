import LalModel.Model.Amf0
import LalModel.Spec.Amf0Spec
import LalModel.Proof.Bytes
/- Helper lemmas for Props/C18.lean -/
namespace Lal.Amf0
open Lal

/-- no Go run-time failure; on success the consumed length lies in `[lo, hi]` -/
def Bd {α} (lo hi : Nat) : GoM (α × Nat) → Prop
  | .ok (_, l) => lo ≤ l ∧ l ≤ hi
  | .error .err => True
  | .error (.panic _) => False

theorem rdU32_be32 (n : Nat) (h : n < 4294967296) :
    rdU32 (b8 (n/16777216)) (b8 (n/65536)) (b8 (n/256)) (b8 n) = n := by
  simp only [rdU32, b8_toNat]; omega

theorem idx?_of_lt {site : String} {b : Bytes} {i : Nat} (h : i < b.length) : idx? site b i = .ok b[i] := by
  simp [idx?, List.getElem?_eq_getElem h]

theorem from?_of_le {site : String} {b : Bytes} {i : Nat} (h : i ≤ b.length) : from? site b i = .ok (b.drop i) := by
  simp [from?, h]

theorem slice?_of_le {site : String} {b : Bytes} {i j : Nat} (h : i ≤ j) (h2 : j ≤ b.length) :
    slice? site b i j = .ok ((b.drop i).take (j - i)) := by
  simp [slice?, h, h2]

theorem beUint16?_of_le {b : Bytes} (h : 2 ≤ b.length) :
    beUint16? b = .ok (rd16 (b[0]'(by omega)) (b[1]'(by omega))) := by
  unfold beUint16?
  rw [idx?_of_lt (show 1 < b.length by omega), idx?_of_lt (show 0 < b.length by omega)]

theorem beUint32?_of_le {b : Bytes} (h : 4 ≤ b.length) :
    beUint32? b = .ok (rdU32 (b[0]'(by omega)) (b[1]'(by omega)) (b[2]'(by omega)) (b[3]'(by omega))) := by
  unfold beUint32?
  rw [idx?_of_lt (show 3 < b.length by omega), idx?_of_lt (show 0 < b.length by omega),
    idx?_of_lt (show 1 < b.length by omega), idx?_of_lt (show 2 < b.length by omega)]

theorem readStringWithoutType_bd (b : Bytes) : Bd 2 b.length (readStringWithoutType b) := by
  unfold readStringWithoutType
  by_cases h : b.length < 2
  · simp [h, Bd]
  · rw [if_neg h, beUint16?_of_le (by omega)]
    dsimp only
    split
    · simp [Bd]
    · rename_i h2
      rw [slice?_of_le (by omega) (by omega)]
      simp only [Bd]; omega

theorem readLongStringWithoutType_bd (b : Bytes) : Bd 4 b.length (readLongStringWithoutType b) := by
  unfold readLongStringWithoutType
  by_cases h : b.length < 4
  · simp [h, Bd]
  · rw [if_neg h, beUint32?_of_le (by omega)]
    dsimp only
    split
    · simp [Bd]
    · rename_i h2
      rw [slice?_of_le (by omega) (by omega)]
      simp only [Bd]; omega

theorem readString_bd (b : Bytes) : Bd 3 b.length (readString b) := by
  unfold readString
  by_cases h : b.length < 1
  · simp [h, Bd]
  · rw [if_neg h, idx?_of_lt (by omega)]
    dsimp only
    rw [from?_of_le (by omega)]
    dsimp only
    have h1 := readStringWithoutType_bd (b.drop 1)
    have h2 := readLongStringWithoutType_bd (b.drop 1)
    simp only [List.length_drop] at h1 h2
    split
    · revert h1; cases readStringWithoutType (List.drop 1 b) with
      | error e => cases e <;> simp [Bd]
      | ok p => obtain ⟨v, l⟩ := p; simp only [Bd]; omega
    · split
      · revert h2; cases readLongStringWithoutType (List.drop 1 b) with
        | error e => cases e <;> simp [Bd]
        | ok p => obtain ⟨v, l⟩ := p; simp only [Bd]; omega
      · simp [Bd]

theorem readNumber_bd (b : Bytes) : Bd 9 b.length (readNumber b) := by
  unfold readNumber
  by_cases h : b.length < 9
  · simp [h, Bd]
  · rw [if_neg h, idx?_of_lt (by omega)]
    dsimp only
    split
    · simp [Bd]
    · rw [from?_of_le (by omega)]
      dsimp only
      rw [idx?_of_lt (by simp; omega)]
      simp only [Bd]; omega

theorem readBoolean_bd (b : Bytes) : Bd 2 b.length (readBoolean b) := by
  unfold readBoolean
  by_cases h : b.length < 2
  · simp [h, Bd]
  · rw [if_neg h, idx?_of_lt (by omega)]
    dsimp only
    split
    · simp [Bd]
    · rw [idx?_of_lt (by omega)]
      simp only [Bd]; omega


theorem atEnd?_total (b : Bytes) (i : Nat) : ∃ t, atEnd? b i = .ok t := by
  unfold atEnd?
  split
  · rw [slice?_of_le (by omega) (by omega)]; exact ⟨_, rfl⟩
  · exact ⟨_, rfl⟩

theorem atEnd?_true {b : Bytes} {i : Nat} (h : atEnd? b i = .ok true) : i + 3 ≤ b.length := by
  unfold atEnd? at h
  split at h
  · omega
  · cases h

theorem readObjectHdr_spec (b : Bytes) :
    (readObjectHdr b = .ok () ∧ 1 ≤ b.length) ∨ readObjectHdr b = .error .err := by
  unfold readObjectHdr
  by_cases h : b.length < 1
  · simp [h]
  · rw [if_neg h, idx?_of_lt (by omega)]
    dsimp only
    split
    · exact Or.inr rfl
    · exact Or.inl ⟨rfl, by omega⟩

theorem readArrayHdr_spec (mk : UInt8) (b : Bytes) :
    (∃ c, readArrayHdr mk b = .ok c ∧ 5 ≤ b.length) ∨ readArrayHdr mk b = .error .err := by
  unfold readArrayHdr
  by_cases h : b.length < 5
  · simp [h]
  · rw [if_neg h, idx?_of_lt (by omega)]
    dsimp only
    split
    · exact Or.inr rfl
    · rw [from?_of_le (by omega)]
      dsimp only
      rw [beUint32?_of_le (by simp; omega)]
      exact Or.inl ⟨_, rfl, by omega⟩

/-- Totality and consumed-length bound of the recursive readers, by induction on the fuel:
    with `2·remaining+1` (`+2` for the loops) fuel and `lim ≤ stack + depth` no run-time failure
    (index, slice, fuel, stack) is reachable and a successful call advances the index within the input. -/
theorem read_bd (lim : Nat) : ∀ fuel,
    (∀ stack depth b index k ops, 2 * (b.length - index) + 1 ≤ fuel → lim ≤ stack + depth →
      Bd (index + 1) b.length (read lim fuel stack depth b index k ops)) ∧
    (∀ stack depth b index ops, index ≤ b.length → 2 * (b.length - index) + 2 ≤ fuel → lim ≤ stack + depth →
      Bd (index + 3) b.length (objLoop lim fuel stack depth b index ops)) ∧
    (∀ stack depth b count index ops, index ≤ b.length → 2 * (b.length - index) + 2 ≤ fuel → lim ≤ stack + depth →
      Bd index b.length (arrLoop lim fuel stack depth b count index ops)) ∧
    (∀ stack depth b count index ops, index ≤ b.length → 2 * (b.length - index) + 2 ≤ fuel → lim ≤ stack + depth →
      Bd index b.length (strictLoop lim fuel stack depth b count index ops)) := by
  intro fuel
  induction fuel with
  | zero =>
    refine ⟨?_, ?_, ?_, ?_⟩ <;> intros <;> omega
  | succ fuel ih =>
    obtain ⟨ihR, ihO, ihA, ihS⟩ := ih
    refine ⟨?_, ?_, ?_, ?_⟩
    · -- read
      intro stack depth b index k ops hf hs
      rw [read]
      by_cases h1 : b.length - index < 1
      · simp [h1, Bd]
      · rw [if_neg h1, idx?_of_lt (by omega)]
        dsimp only
        by_cases hc : (b[index]'(by omega) = 0x03 ∨ b[index]'(by omega) = 0x08 ∨ b[index]'(by omega) = 0x0a) ∧ depth ≥ lim
        · rw [if_pos hc]; simp [Bd]
        · rw [if_neg hc, from?_of_le (by omega)]
          dsimp only
          have hlen : (b.drop index).length = b.length - index := List.length_drop
          split
          · have h := readNumber_bd (b.drop index)
            rw [hlen] at h
            cases hr : readNumber (List.drop index b) with
            | error e => rw [hr] at h; cases e <;> simp_all [Bd]
            | ok p => obtain ⟨v, l⟩ := p; rw [hr] at h; simp only [Bd] at h ⊢; omega
          split
          · have h := readBoolean_bd (b.drop index)
            rw [hlen] at h
            cases hr : readBoolean (List.drop index b) with
            | error e => rw [hr] at h; cases e <;> simp_all [Bd]
            | ok p => obtain ⟨v, l⟩ := p; rw [hr] at h; simp only [Bd] at h ⊢; omega
          split
          · have h := readString_bd (b.drop index)
            rw [hlen] at h
            cases hr : readString (List.drop index b) with
            | error e => rw [hr] at h; cases e <;> simp_all [Bd]
            | ok p => obtain ⟨v, l⟩ := p; rw [hr] at h; simp only [Bd] at h ⊢; omega
          split
          · rename_i hv5
            unfold readNull
            rw [hlen, if_neg h1, idx?_of_lt (by omega)]
            dsimp only
            rw [if_neg (by simp [hv5])]
            simp only [Bd]; omega
          split
          · rename_i hv3
            have hd : depth < lim := by
              have : ¬ depth ≥ lim := fun hge => hc ⟨Or.inl hv3, hge⟩
              omega
            cases stack with
            | zero => omega
            | succ st =>
              dsimp only
              rcases readObjectHdr_spec (b.drop index) with ⟨ho, hl⟩ | ho
              · rw [ho]
                dsimp only
                have h := ihO st (depth + 1) (b.drop index) 1 [] hl (by rw [hlen]; omega) (by omega)
                rw [hlen] at h
                cases hr : objLoop lim fuel st (depth + 1) (List.drop index b) 1 [] with
                | error e => rw [hr] at h; cases e <;> simp_all [Bd]
                | ok p => obtain ⟨v, l⟩ := p; rw [hr] at h; simp only [Bd] at h ⊢; omega
              · rw [ho]; simp [Bd]
          split
          · rename_i hv8
            have hd : depth < lim := by
              have : ¬ depth ≥ lim := fun hge => hc ⟨Or.inr (Or.inl hv8), hge⟩
              omega
            cases stack with
            | zero => omega
            | succ st =>
              dsimp only
              rcases readArrayHdr_spec 0x08 (b.drop index) with ⟨c, ho, hl⟩ | ho
              · rw [ho]
                dsimp only
                have h := ihA st (depth + 1) (b.drop index) c 5 [] hl (by rw [hlen]; omega) (by omega)
                rw [hlen] at h hl
                cases hr : arrLoop lim fuel st (depth + 1) (List.drop index b) c 5 [] with
                | error e => rw [hr] at h; cases e <;> simp_all [Bd]
                | ok p => obtain ⟨v, l⟩ := p; rw [hr] at h; simp only [Bd] at h ⊢; omega
              · rw [ho]; simp [Bd]
          split
          · rename_i hva
            have hd : depth < lim := by
              have : ¬ depth ≥ lim := fun hge => hc ⟨Or.inr (Or.inr hva), hge⟩
              omega
            cases stack with
            | zero => omega
            | succ st =>
              dsimp only
              rcases readArrayHdr_spec 0x0a (b.drop index) with ⟨c, ho, hl⟩ | ho
              · rw [ho]
                dsimp only
                have h := ihS st (depth + 1) (b.drop index) c 5 [] hl (by rw [hlen]; omega) (by omega)
                rw [hlen] at h hl
                cases hr : strictLoop lim fuel st (depth + 1) (List.drop index b) c 5 [] with
                | error e => rw [hr] at h; cases e <;> simp_all [Bd]
                | ok p => obtain ⟨v, l⟩ := p; rw [hr] at h; simp only [Bd] at h ⊢; omega
              · rw [ho]; simp [Bd]
          split
          · unfold readUndefinedOrUnsupported
            rw [hlen, if_neg h1]
            simp only [Bd]; omega
          · simp [Bd]
    · -- objLoop
      intro stack depth b index ops hi hf hs
      rw [objLoop]
      obtain ⟨t, ht⟩ := atEnd?_total b index
      rw [ht]
      cases t with
      | true =>
        have := atEnd?_true ht
        simp only [Bd]; omega
      | false =>
        dsimp only
        rw [from?_of_le hi]
        dsimp only
        have hlen : (b.drop index).length = b.length - index := List.length_drop
        have h := readStringWithoutType_bd (b.drop index)
        rw [hlen] at h
        cases hr : readStringWithoutType (List.drop index b) with
        | error e => rw [hr] at h; cases e <;> simp_all [Bd]
        | ok p =>
          obtain ⟨key, l⟩ := p
          rw [hr] at h
          simp only [Bd] at h
          dsimp only
          have h2 := ihR stack depth b (index + l) key ops (by omega) hs
          cases hr2 : read lim fuel stack depth b (index + l) key ops with
          | error e => rw [hr2] at h2; cases e <;> simp_all [Bd]
          | ok p2 =>
            obtain ⟨ops', index'⟩ := p2
            rw [hr2] at h2
            simp only [Bd] at h2
            dsimp only
            have h3 := ihO stack depth b index' ops' (by omega) (by omega) hs
            cases hr3 : objLoop lim fuel stack depth b index' ops' with
            | error e => rw [hr3] at h3; cases e <;> simp_all [Bd]
            | ok p3 => obtain ⟨o3, i3⟩ := p3; rw [hr3] at h3; simp only [Bd] at h3 ⊢; omega
    · -- arrLoop
      intro stack depth b count index ops hi hf hs
      rw [arrLoop.eq_def]
      dsimp only
      cases count with
      | zero =>
        dsimp only
        obtain ⟨t, ht⟩ := atEnd?_total b index
        rw [ht]
        cases t with
        | true =>
          have := atEnd?_true ht
          simp only [Bd]; omega
        | false => simp only [Bd]; omega
      | succ count =>
        dsimp only
        rw [from?_of_le hi]
        dsimp only
        have hlen : (b.drop index).length = b.length - index := List.length_drop
        have h := readStringWithoutType_bd (b.drop index)
        rw [hlen] at h
        cases hr : readStringWithoutType (List.drop index b) with
        | error e => rw [hr] at h; cases e <;> simp_all [Bd]
        | ok p =>
          obtain ⟨key, l⟩ := p
          rw [hr] at h
          simp only [Bd] at h
          dsimp only
          have h2 := ihR stack depth b (index + l) key ops (by omega) hs
          cases hr2 : read lim fuel stack depth b (index + l) key ops with
          | error e => rw [hr2] at h2; cases e <;> simp_all [Bd]
          | ok p2 =>
            obtain ⟨ops', index'⟩ := p2
            rw [hr2] at h2
            simp only [Bd] at h2
            dsimp only
            have h3 := ihA stack depth b count index' ops' (by omega) (by omega) hs
            cases hr3 : arrLoop lim fuel stack depth b count index' ops' with
            | error e => rw [hr3] at h3; cases e <;> simp_all [Bd]
            | ok p3 => obtain ⟨o3, i3⟩ := p3; rw [hr3] at h3; simp only [Bd] at h3 ⊢; omega
    · -- strictLoop
      intro stack depth b count index ops hi hf hs
      rw [strictLoop.eq_def]
      dsimp only
      cases count with
      | zero => simp only [Bd]; omega
      | succ count =>
        dsimp only
        have h2 := ihR stack depth b index [] ops (by omega) hs
        cases hr2 : read lim fuel stack depth b index [] ops with
        | error e => rw [hr2] at h2; cases e <;> simp_all [Bd]
        | ok p2 =>
          obtain ⟨ops', index'⟩ := p2
          rw [hr2] at h2
          simp only [Bd] at h2
          dsimp only
          have h3 := ihS stack depth b count index' ops' (by omega) (by omega) hs
          cases hr3 : strictLoop lim fuel stack depth b count index' ops' with
          | error e => rw [hr3] at h3; cases e <;> simp_all [Bd]
          | ok p3 => obtain ⟨o3, i3⟩ := p3; rw [hr3] at h3; simp only [Bd] at h3 ⊢; omega


/-! ### reading what was encoded -/

theorem drop_cons {b : Bytes} {i : Nat} {x : UInt8} {t : Bytes} (h : b.drop i = x :: t) :
    ∃ hi : i < b.length, b[i] = x := by
  have hi : i < b.length := by
    apply Classical.byContradiction
    intro hn
    rw [List.drop_eq_nil_of_le (by omega)] at h
    cases h
  refine ⟨hi, ?_⟩
  rw [List.drop_eq_getElem_cons hi] at h
  injection h

theorem drop_drop_of {b : Bytes} {i : Nat} {p t : Bytes} (h : b.drop i = p ++ t) :
    b.drop (i + p.length) = t := by
  rw [← List.drop_drop, h, List.drop_left]

theorem readNumber_enc (bits rest : Bytes) (h : bits.length = 8) :
    readNumber (0x00 :: (bits ++ rest)) = .ok (bits, 9) := by
  unfold readNumber
  rw [if_neg (by simp; omega), idx?_of_lt (by simp)]
  simp only [List.getElem_cons_zero, ne_eq, not_true_eq_false, if_false]
  rw [from?_of_le (by simp)]
  simp only [List.drop_succ_cons, List.drop_zero]
  rw [idx?_of_lt (by simp; omega)]
  simp only [← h, List.take_left]

theorem readBoolean_enc (x : Bool) (rest : Bytes) :
    readBoolean (0x01 :: (if x then 1 else 0) :: rest) = .ok (x, 2) := by
  cases x <;> simp [readBoolean, idx?]

theorem readStringWithoutType_enc (k t : Bytes) (h : k.length < 65536) :
    readStringWithoutType (be16 k.length ++ (k ++ t)) = .ok (k, 2 + k.length) := by
  have hr := rd16_be16 _ h
  simp only [readStringWithoutType, beUint16?, idx?, slice?, be16, List.cons_append, List.nil_append,
    List.length_cons, List.getElem?_cons_zero, List.getElem?_cons_succ, hr, List.length_append]
  rw [if_neg (by omega)]
  simp only [Nat.add_sub_cancel_left]
  rw [if_neg (by omega), if_pos (by omega)]
  simp

theorem readLongStringWithoutType_enc (k t : Bytes) (h : k.length < 4294967296) :
    readLongStringWithoutType (be32 k.length ++ (k ++ t)) = .ok (k, 4 + k.length) := by
  have hr := rdU32_be32 _ h
  simp only [readLongStringWithoutType, beUint32?, idx?, slice?, be32, List.cons_append, List.nil_append,
    List.length_cons, List.getElem?_cons_zero, List.getElem?_cons_succ, hr, List.length_append]
  rw [if_neg (by omega)]
  simp only [Nat.add_sub_cancel_left]
  rw [if_neg (by omega), if_pos (by omega)]
  simp

theorem writeString_length (s : Bytes) :
    (writeString s).length = (if s.length < 65536 then 3 else 5) + s.length := by
  unfold writeString; split <;> simp <;> omega

theorem readString_enc (s rest : Bytes) (h : s.length < 4294967296) :
    readString (writeString s ++ rest) = .ok (s, (writeString s).length) := by
  rw [writeString_length]
  by_cases hs : s.length < 65536
  · have e := readStringWithoutType_enc s rest hs
    have hf : from? "ReadString:b[1:]" (2 :: (be16 s.length ++ (s ++ rest))) 1 = .ok (be16 s.length ++ (s ++ rest)) := by
      simp [from?]
    simp only [writeString, hs, if_true, List.cons_append, List.append_assoc, readString, idx?,
      List.length_cons, List.getElem?_cons_zero, hf, e]
    rw [if_neg (by omega)]
    simp only [Except.ok.injEq, Prod.mk.injEq, true_and]
    omega
  · have e := readLongStringWithoutType_enc s rest h
    have hf : from? "ReadString:b[1:]" (12 :: (be32 s.length ++ (s ++ rest))) 1 = .ok (be32 s.length ++ (s ++ rest)) := by
      simp [from?]
    simp only [writeString, hs, if_false, List.cons_append, List.append_assoc, readString, idx?,
      List.length_cons, List.getElem?_cons_zero, hf, e]
    rw [if_neg (by omega)]
    simp <;> omega

theorem atEnd?_eq (b : Bytes) (i : Nat) : atEnd? b i = .ok ((b.drop i).take 3 == [0, 0, 9]) := by
  unfold atEnd?
  split
  · rw [slice?_of_le (by omega) (by omega)]
    simp
  · rename_i h
    have hl : ((b.drop i).take 3).length < 3 := by simp; omega
    have : ((b.drop i).take 3 == [0, 0, 9]) = false := by
      apply Bool.eq_false_iff.mpr
      intro he
      have := eq_of_beq he
      rw [this] at hl
      simp at hl
    rw [this]

theorem readArrayHdr_enc (mk : UInt8) (n : Nat) (t : Bytes) (h : n < 4294967296) :
    readArrayHdr mk (mk :: (be32 n ++ t)) = .ok n := by
  unfold readArrayHdr
  rw [if_neg (by simp), idx?_of_lt (by simp)]
  simp only [List.getElem_cons_zero, ne_eq, not_true_eq_false, if_false]
  rw [from?_of_le (by simp)]
  simp only [List.drop_succ_cons, List.drop_zero]
  rw [beUint32?_of_le (by simp)]
  simp only [be32, List.cons_append, List.getElem_cons_zero, List.getElem_cons_succ]
  rw [rdU32_be32 _ h]

theorem readObjectHdr_enc (t : Bytes) : readObjectHdr (0x03 :: t) = .ok () := by
  simp [readObjectHdr, idx?]

/-- every encoding starts with a type marker, never with the object-end marker -/
theorem enc_head (v : Amf) : ∃ m t, enc v = m :: t ∧ m ≠ 9 := by
  cases v with
  | num bits => exact ⟨0, bits, rfl, by decide⟩
  | bool x => exact ⟨1, [if x then 1 else 0], rfl, by decide⟩
  | str s =>
    by_cases h : s.length < 65536
    · exact ⟨2, be16 s.length ++ s, by simp [enc, writeString, h], by decide⟩
    · exact ⟨0x0c, be32 s.length ++ s, by simp [enc, writeString, h], by decide⟩
  | obj kvs => exact ⟨3, encKvs kvs ++ [0, 0, 9], by simp [enc], by decide⟩
  | ecma kvs => exact ⟨8, be32 kvs.length ++ (encKvs kvs ++ [0, 0, 9]), by simp [enc], by decide⟩
  | strict vs => exact ⟨0x0a, be32 vs.length ++ encVs vs, by simp [enc], by decide⟩
  | null => exact ⟨5, [], by simp [enc], by decide⟩
  | undef => exact ⟨6, [], by simp [enc], by decide⟩

theorem enc_length_pos (v : Amf) : 1 ≤ (enc v).length := by
  obtain ⟨m, t, h, _⟩ := enc_head v
  rw [h]; simp

/-- a key/value pair never looks like the end marker `00 00 09` -/
theorem pair_not_end (k : Bytes) (v : Amf) (t : Bytes) (h : k.length < 65536) :
    ((be16 k.length ++ (k ++ (enc v ++ t))).take 3 == [0, 0, 9]) = false := by
  apply Bool.eq_false_iff.mpr
  intro he
  have he := eq_of_beq he
  obtain ⟨m, t', hm, hne⟩ := enc_head v
  cases k with
  | nil =>
    rw [hm] at he
    simp [be16] at he
    exact hne he.2
  | cons x xs =>
    simp only [be16, List.cons_append, List.nil_append, List.take_succ_cons, List.cons.injEq] at he
    obtain ⟨h1, h2, _⟩ := he
    have e1 := congrArg UInt8.toNat h1
    have e2 := congrArg UInt8.toNat h2
    simp only [b8_toNat, List.length_cons] at e1 e2 h
    change _ = 0 at e1
    change _ = 0 at e2
    omega


/-! ### fuel needed to read an encoded tree (length of the longest call path) -/
mutual
def rcost : Amf → Nat
  | .obj kvs => 1 + kcost kvs
  | .ecma kvs => 1 + kcost kvs
  | .strict vs => 1 + vcost vs
  | .num _ => 1
  | .bool _ => 1
  | .str _ => 1
  | .null => 1
  | .undef => 1
def kcost : List (Bytes × Amf) → Nat
  | [] => 1
  | (_, v) :: r => 1 + (rcost v + kcost r)
def vcost : List Amf → Nat
  | [] => 1
  | v :: r => 1 + (rcost v + vcost r)
end

theorem read_head {lim fuel stack d : Nat} {b : Bytes} {index : Nat} {k : Bytes} {ops : Opa} {m : UInt8} {t : Bytes}
    (h : b.drop index = m :: t) :
    read lim (fuel + 1) stack d b index k ops =
      if (m = 0x03 ∨ m = 0x08 ∨ m = 0x0a) ∧ d ≥ lim then .error .err else
      if m = 0x00 then
        match readNumber (m :: t) with
        | .error e => .error e
        | .ok (v, l) => .ok (ops ++ [(k, .num v)], index + l)
      else if m = 0x01 then
        match readBoolean (m :: t) with
        | .error e => .error e
        | .ok (v, l) => .ok (ops ++ [(k, .bool v)], index + l)
      else if m = 0x02 ∨ m = 0x0c then
        match readString (m :: t) with
        | .error e => .error e
        | .ok (v, l) => .ok (ops ++ [(k, .str v)], index + l)
      else if m = 0x05 then
        match readNull (m :: t) with
        | .error e => .error e
        | .ok l => .ok (ops, index + l)
      else if m = 0x03 then
        match stack with
        | 0 => .error (.panic "stack")
        | stack + 1 =>
          match readObjectHdr (m :: t) with
          | .error e => .error e
          | .ok _ =>
            match objLoop lim fuel stack (d + 1) (m :: t) 1 [] with
            | .error e => .error e
            | .ok (v, l) => .ok (ops ++ [(k, .opa v)], index + l)
      else if m = 0x08 then
        match stack with
        | 0 => .error (.panic "stack")
        | stack + 1 =>
          match readArrayHdr 0x08 (m :: t) with
          | .error e => .error e
          | .ok count =>
            match arrLoop lim fuel stack (d + 1) (m :: t) count 5 [] with
            | .error e => .error e
            | .ok (v, l) => .ok (ops ++ [(k, .opa v)], index + l)
      else if m = 0x0a then
        match stack with
        | 0 => .error (.panic "stack")
        | stack + 1 =>
          match readArrayHdr 0x0a (m :: t) with
          | .error e => .error e
          | .ok count =>
            match strictLoop lim fuel stack (d + 1) (m :: t) count 5 [] with
            | .error e => .error e
            | .ok (v, l) => .ok (ops ++ [(k, .opa v)], index + l)
      else if m = 0x06 ∨ m = 0x0d then
        match readUndefinedOrUnsupported (m :: t) with
        | .error e => .error e
        | .ok l => .ok (ops, index + l)
      else .error .err := by
  obtain ⟨hi, hx⟩ := drop_cons h
  rw [read, if_neg (by omega), idx?_of_lt hi, from?_of_le (by omega)]
  simp only [hx, h]
  rfl

theorem objLoop_end {lim fuel stack d : Nat} {b : Bytes} {i : Nat} {ops : Opa} {t : Bytes}
    (h : b.drop i = 0 :: 0 :: 9 :: t) : objLoop lim (fuel + 1) stack d b i ops = .ok (ops, i + 3) := by
  rw [objLoop, atEnd?_eq, h]
  rfl

theorem arrLoop_end {lim fuel stack d : Nat} {b : Bytes} {i : Nat} {ops : Opa} {t : Bytes}
    (h : b.drop i = 0 :: 0 :: 9 :: t) : arrLoop lim (fuel + 1) stack d b 0 i ops = .ok (ops, i + 3) := by
  rw [arrLoop.eq_def]
  dsimp only
  rw [atEnd?_eq, h]
  rfl

theorem objLoop_pair {lim fuel stack d : Nat} {b : Bytes} {i : Nat} {ops : Opa} {k : Bytes} {v : Amf} {t : Bytes}
    (h : b.drop i = be16 k.length ++ (k ++ (enc v ++ t))) (hk : k.length < 65536) :
    objLoop lim (fuel + 1) stack d b i ops =
      match read lim fuel stack d b (i + (2 + k.length)) k ops with
      | .error e => .error e
      | .ok (ops', i') => objLoop lim fuel stack d b i' ops' := by
  have hi : i ≤ b.length := by
    have : (b.drop i).length = b.length - i := List.length_drop
    rw [h] at this
    simp only [List.length_append, be16_length] at this
    omega
  rw [objLoop, atEnd?_eq, h, pair_not_end k v t hk]
  dsimp only
  rw [from?_of_le hi, h]
  dsimp only
  rw [readStringWithoutType_enc k _ hk]
  rfl

theorem arrLoop_pair {lim fuel stack d : Nat} {b : Bytes} {count i : Nat} {ops : Opa} {k : Bytes} {v : Amf} {t : Bytes}
    (h : b.drop i = be16 k.length ++ (k ++ (enc v ++ t))) (hk : k.length < 65536) :
    arrLoop lim (fuel + 1) stack d b (count + 1) i ops =
      match read lim fuel stack d b (i + (2 + k.length)) k ops with
      | .error e => .error e
      | .ok (ops', i') => arrLoop lim fuel stack d b count i' ops' := by
  have hi : i ≤ b.length := by
    have : (b.drop i).length = b.length - i := List.length_drop
    rw [h] at this
    simp only [List.length_append, be16_length] at this
    omega
  rw [arrLoop.eq_def]
  dsimp only
  rw [from?_of_le hi, h]
  dsimp only
  rw [readStringWithoutType_enc k _ hk]
  rfl

end Lal.Amf0
