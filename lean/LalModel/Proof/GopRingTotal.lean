import LalModel.Model.GopRing
import LalModel.Proof.MsgClass
/-
  The GOP ring never indexes outside its slice: `Ring.WF` is an invariant of every operation, and under it every
  operation returns normally (closed forms `…P`).
-/
namespace Lal.GopRing
open Lal Lal.MsgClass
set_option linter.unusedSimpArgs false

variable {α : Type}

theorem Ring.new_wf (gopNum maxFrames : Nat) : (Ring.new gopNum maxFrames : Ring α).WF := by
  simp [Ring.new, Ring.WF]

def Ring.feedNewGopP (r : Ring α) (b : α) : Ring α :=
  { r with ring := r.ring.set r.last [b],
           first := if (r.last + 1) % r.gopSize = r.first then (r.first + 1) % r.gopSize else r.first,
           last := (r.last + 1) % r.gopSize }

theorem Ring.feedNewGop_eq (r : Ring α) (h : r.WF) (b : α) : r.feedNewGop b = .ok (r.feedNewGopP b) := by
  obtain ⟨h1, h2, h3, h4⟩ := h
  have hne : r.gopSize ≠ 0 := by omega
  have hl : r.last < r.ring.length := by omega
  by_cases hf : (r.last + 1) % r.gopSize = r.first <;>
    simp [Ring.feedNewGop, Ring.feedNewGopP, Ring.isFull, Ring.mod?, hne, Ring.at?, Ring.set?, hf, hl, List.getElem?_eq_getElem hl]

theorem Ring.feedNewGopP_wf (r : Ring α) (h : r.WF) (b : α) : (r.feedNewGopP b).WF := by
  obtain ⟨h1, h2, h3, h4⟩ := h
  have hpos : 0 < r.gopSize := by omega
  refine ⟨h1, by simpa [Ring.feedNewGopP] using h2, ?_, Nat.mod_lt _ hpos⟩
  show (if (r.last + 1) % r.gopSize = r.first then (r.first + 1) % r.gopSize else r.first) < r.gopSize
  split
  · exact Nat.mod_lt _ hpos
  · exact h3

def Ring.feedLastGopP (r : Ring α) (b : α) : Ring α × Bool :=
  if r.first = r.last then (r, true)
  else
    let pos := (r.last + r.gopSize - 1) % r.gopSize
    let g := r.ring.getD pos []
    if g.length < r.maxFrames ∨ r.maxFrames = 0 then ({ r with ring := r.ring.set pos (g ++ [b]) }, true) else (r, false)

theorem Ring.feedLastGop_eq (r : Ring α) (h : r.WF) (b : α) : r.feedLastGop b = .ok (r.feedLastGopP b) := by
  obtain ⟨h1, h2, h3, h4⟩ := h
  have hne : r.gopSize ≠ 0 := by omega
  have hpos : 0 < r.gopSize := by omega
  have hlt : (r.last + r.gopSize - 1) % r.gopSize < r.ring.length := by rw [h2]; exact Nat.mod_lt _ hpos
  by_cases he : r.first = r.last
  · simp [Ring.feedLastGop, Ring.feedLastGopP, Ring.isEmpty, he]
  · by_cases hc : (r.ring.getD ((r.last + r.gopSize - 1) % r.gopSize) []).length < r.maxFrames ∨ r.maxFrames = 0 <;>
      simp [Ring.feedLastGop, Ring.feedLastGopP, Ring.isEmpty, he, Ring.mod?, hne, Ring.at?, Ring.set?, hlt,
        List.getElem?_eq_getElem hlt, List.getD_eq_getElem?_getD] at hc ⊢ <;> (try simp [hc]) <;> (repeat' split) <;>
      first | rfl | omega | (simp_all; done)

theorem Ring.feedLastGopP_wf (r : Ring α) (h : r.WF) (b : α) : (r.feedLastGopP b).1.WF := by
  obtain ⟨h1, h2, h3, h4⟩ := h
  unfold Ring.feedLastGopP
  split
  · exact ⟨h1, h2, h3, h4⟩
  · dsimp only
    split
    · exact ⟨h1, by simpa using h2, h3, h4⟩
    · exact ⟨h1, h2, h3, h4⟩

/-- closed form of `GopCache.Feed` -/
def Cache.feedP (c : Cache α) (m : Msg) (b : α) : Cache α × Bool :=
  if m.typeId = tMeta then (c, true)
  else if m.typeId = tAudio ∧ isAacSeqHeaderP m then (c.setAsh m b, true)
  else if m.typeId = tVideo ∧ isVideoKeySeqHeaderP m then (c.setVsh m b, true)
  else if c.r.gopSize > 1 then
    if isVideoKeyNaluP m then ({ c with r := c.r.feedNewGopP b }, true)
    else ({ c with r := (c.r.feedLastGopP b).1 }, (c.r.feedLastGopP b).2)
  else (c, true)

/-- `GopCache.Feed` returns normally for every message … -/
theorem Cache.feed_eq (c : Cache α) (h : c.r.WF) (m : Msg) (b : α) : c.feed m b = .ok (c.feedP m b) := by
  unfold Cache.feed Cache.feedP
  simp only [isAacSeqHeader_eq, isVideoKeySeqHeader_eq, isVideoKeyNalu_eq, GoM.ok_bind, GoM.pure_eq,
    Ring.feedNewGop_eq _ h, Ring.feedLastGop_eq _ h]
  by_cases h1 : m.typeId = tMeta
  · simp [h1]
  · by_cases ha : m.typeId = tAudio <;> by_cases hv : m.typeId = tVideo <;>
      by_cases hs : isAacSeqHeaderP m = true <;> by_cases hk : isVideoKeySeqHeaderP m = true <;>
      by_cases hg : c.r.gopSize > 1 <;> by_cases hn : isVideoKeyNaluP m = true <;>
      (try simp_all [tAudio, tVideo, tMeta]) <;> (repeat' split) <;> first | rfl | omega | (simp_all; done)

theorem Ring.reset_wf (r : Ring α) (h : r.WF) : r.reset.WF := by
  obtain ⟨h1, h2, _, _⟩ := h
  exact ⟨h1, h2, by show 0 < r.gopSize; omega, by show 0 < r.gopSize; omega⟩

theorem Cache.setAsh_wf (c : Cache α) (h : c.r.WF) (m : Msg) (b : α) : (c.setAsh m b).r.WF := by
  unfold Cache.setAsh
  dsimp only
  split
  · exact Ring.reset_wf _ h
  · exact h

theorem Cache.setVsh_wf (c : Cache α) (h : c.r.WF) (m : Msg) (b : α) : (c.setVsh m b).r.WF := by
  unfold Cache.setVsh
  dsimp only
  split
  · exact Ring.reset_wf _ h
  · exact h

/-- … and keeps the ring well formed -/
theorem Cache.feedP_wf (c : Cache α) (h : c.r.WF) (m : Msg) (b : α) : (c.feedP m b).1.r.WF := by
  unfold Cache.feedP
  repeat' split
  all_goals first | exact h | exact Ring.feedNewGopP_wf _ h b | exact Ring.feedLastGopP_wf _ h b | exact Cache.setAsh_wf _ h m b | exact Cache.setVsh_wf _ h m b

theorem Ring.feedMpegts_ok (r : Ring α) (h : r.WF) (b : α) (boundary : Bool) :
    ∃ r', r.feedMpegts b boundary = .ok r' ∧ r'.WF := by
  unfold Ring.feedMpegts
  by_cases hg : r.gopSize > 1
  · cases boundary
    · exact ⟨(r.feedLastGopP b).1, by simp [hg, Ring.feedLastGop_eq r h], Ring.feedLastGopP_wf r h b⟩
    · exact ⟨r.feedNewGopP b, by simp [hg, Ring.feedNewGop_eq r h], Ring.feedNewGopP_wf r h b⟩
  · exact ⟨r, by simp [hg], h⟩

theorem Cache.clear_wf (c : Cache α) (h : c.r.WF) : c.clear.r.WF := by
  obtain ⟨h1, h2, _, _⟩ := h
  exact ⟨h1, h2, by show 0 < c.r.gopSize; omega, by show 0 < c.r.gopSize; omega⟩

end Lal.GopRing
