import LalModel.Proof.SessTotal
import LalModel.Model.RtspSrv
/-
  C13: the RTSP command loop (requests as parsed by nazahttp, interleaved frames) never panics: every token
  either is answered, ignored, handed to the publisher's BaseInSession, or closes this connection.
-/
namespace Lal.RtspSrv
open Lal Lal.RtspIn Lal.Sdp

def PubInv (s : St) : Prop := ∀ p, s.pub = some p → SessInv p

theorem handleReq_ok (cdc : Codec) (s : St) (r : Req) (hi : PubInv s) :
    ∃ s' items stop, handleReq cdc s r = .ok (s', items, stop) ∧ PubInv s' := by
  unfold handleReq
  repeat' split
  all_goals (try dsimp only)
  repeat' split
  all_goals (first
    | exact ⟨_, _, _, rfl, hi⟩
    | (refine ⟨_, _, _, rfl, ?_⟩
       intro p hp
       first
         | exact hi p hp
         | (simp only [Option.some.injEq] at hp; subst hp; exact initWithSdp_inv _)
         | (simp only [Option.some.injEq] at hp; subst hp
            exact setupWithChannel_inv _ _ _ _ _ (hi _ (by assumption)) (by assumption))))

theorem loop_ok (cdc : Codec) : ∀ (toks : List Tok) (s : St) (k : Nat), PubInv s → ∃ r, loop cdc s k toks = .ok r := by
  intro toks
  induction toks with
  | nil => intro s k _; exact ⟨_, rfl⟩
  | cons t rest ih =>
    intro s k hi
    cases t with
    | req r =>
      obtain ⟨s', items, stop, h, hi'⟩ := handleReq_ok cdc s r hi
      unfold loop
      rw [h]
      dsimp only
      split
      · exact ⟨_, rfl⟩
      · obtain ⟨r2, h2⟩ := ih s' (k + 1) hi'
        rw [h2]; exact ⟨_, rfl⟩
    | frame ch b =>
      unfold loop
      split
      · rename_i p hp
        obtain ⟨p', evs, h, hi'⟩ := handleInterleaved_ok p b (ch : Nat) (hi p hp)
        rw [h]
        dsimp only
        have hinv : PubInv { s with pub := some p' } := by
          intro q hq; simp only [Option.some.injEq] at hq; subst hq; exact hi'
        obtain ⟨r2, h2⟩ := ih _ (k + 1) hinv
        rw [h2]; exact ⟨_, rfl⟩
      · split
        · exact ih s (k + 1) hi
        · exact ⟨_, rfl⟩

theorem runSession_ok (cdc : Codec) (ws : Bool) (auth : Nat) (d : Describe) (toks : List Tok) :
    ∃ r, runSession cdc ws auth d toks = .ok r := by
  unfold runSession
  apply loop_ok
  intro p hp
  cases hp

/-! ### readHttpMessage: Content-Length and body -/

/-- the guard `cl < 0 || cl > maxHttpMsgBodyLength` is what keeps `make([]byte, cl)` in range -/
theorem makeLen?_ok (site : String) (n : Int) (h0 : ¬ n < 0) (h1 : ¬ n > maxHttpMsgBodyLength) : makeLen? site n = .ok n.toNat := by
  unfold makeLen?
  unfold maxHttpMsgBodyLength at h1
  rw [if_neg (by omega)]

theorem readMsgBody_noPanic (cl : ContentLength) (avail : Bytes) : NoPanic (readMsgBody cl avail) := by
  unfold readMsgBody
  cases cl with
  | absent => exact NoPanic.ok _
  | bad => exact NoPanic.err
  | val n =>
    dsimp only
    by_cases hg : n < 0 ∨ n > maxHttpMsgBodyLength
    · rw [if_pos hg]; exact NoPanic.err
    · rw [if_neg hg, makeLen?_ok _ n (by omega) (by omega)]
      dsimp only
      split
      · exact NoPanic.ok _
      · exact NoPanic.ok _

/-- what it returns was received, and the body is never longer than the bound -/
theorem readMsgBody_bounded (cl : ContentLength) (avail body rest : Bytes) (h : readMsgBody cl avail = .ok (some (body, rest))) :
    body ++ rest = avail ∧ body.length ≤ maxHttpMsgBodyLength := by
  unfold readMsgBody at h
  cases cl with
  | absent =>
    simp only [Except.ok.injEq, Option.some.injEq, Prod.mk.injEq] at h
    obtain ⟨hb, hr⟩ := h
    subst hb; subst hr
    exact ⟨rfl, Nat.zero_le _⟩
  | bad => cases h
  | val n =>
    dsimp only at h
    by_cases hg : n < 0 ∨ n > maxHttpMsgBodyLength
    · rw [if_pos hg] at h; cases h
    · rw [if_neg hg, makeLen?_ok _ n (by omega) (by omega)] at h
      dsimp only at h
      split at h
      · cases h
      · simp only [Except.ok.injEq, Option.some.injEq, Prod.mk.injEq] at h
        obtain ⟨hb, hr⟩ := h
        subst hb; subst hr
        refine ⟨List.take_append_drop _ _, ?_⟩
        simp only [List.length_take]
        omega

end Lal.RtspSrv
