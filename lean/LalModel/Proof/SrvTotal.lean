import LalModel.Proof.SessTotal
import LalModel.Model.RtspSrv
/-
  C13: the RTSP command loop (requests as parsed by nazahttp, interleaved frames) never panics: every token
  either is answered, ignored, handed to the publisher's BaseInSession, or closes this connection.
-/
namespace Lal.RtspSrv
open Lal Lal.RtspIn Lal.Sdp

def PubInv (s : St) : Prop := ∀ p, s.pub = some p → SessInv p

theorem handleReq_ok (cdc : Codec) (s : St) (r : Req) (hi : PubInv s) :
    ∃ s' items stop, handleReq cdc s r = .ok (s', items, stop) ∧ PubInv s' := by
  unfold handleReq
  repeat' split
  all_goals (try dsimp only)
  repeat' split
  all_goals (first
    | exact ⟨_, _, _, rfl, hi⟩
    | (refine ⟨_, _, _, rfl, ?_⟩
       intro p hp
       first
         | exact hi p hp
         | (simp only [Option.some.injEq] at hp; subst hp; exact initWithSdp_inv _)
         | (simp only [Option.some.injEq] at hp; subst hp
            exact setupWithChannel_inv _ _ _ _ _ (hi _ (by assumption)) (by assumption))))

theorem loop_ok (cdc : Codec) : ∀ (toks : List Tok) (s : St) (k : Nat), PubInv s → ∃ r, loop cdc s k toks = .ok r := by
  intro toks
  induction toks with
  | nil => intro s k _; exact ⟨_, rfl⟩
  | cons t rest ih =>
    intro s k hi
    cases t with
    | req r =>
      obtain ⟨s', items, stop, h, hi'⟩ := handleReq_ok cdc s r hi
      unfold loop
      rw [h]
      dsimp only
      split
      · exact ⟨_, rfl⟩
      · obtain ⟨r2, h2⟩ := ih s' (k + 1) hi'
        rw [h2]; exact ⟨_, rfl⟩
    | frame ch b =>
      unfold loop
      split
      · rename_i p hp
        obtain ⟨p', evs, h, hi'⟩ := handleInterleaved_ok p b (ch : Nat) (hi p hp)
        rw [h]
        dsimp only
        have hinv : PubInv { s with pub := some p' } := by
          intro q hq; simp only [Option.some.injEq] at hq; subst hq; exact hi'
        obtain ⟨r2, h2⟩ := ih _ (k + 1) hinv
        rw [h2]; exact ⟨_, rfl⟩
      · split
        · exact ih s (k + 1) hi
        · exact ⟨_, rfl⟩

theorem runSession_ok (cdc : Codec) (ws : Bool) (auth : Nat) (d : Describe) (toks : List Tok) :
    ∃ r, runSession cdc ws auth d toks = .ok r := by
  unfold runSession
  apply loop_ok
  intro p hp
  cases hp

end Lal.RtspSrv
