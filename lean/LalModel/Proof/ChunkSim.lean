import LalModel.Model.Chunk
import LalModel.Spec.ChunkSpec
import LalModel.Proof.Bytes
/-
  lal's ChunkComposer simulates the (strict) RTMP-specification reader: on every
  byte string the specification reader accepts, lal delivers the same messages.
-/
set_option linter.unusedSimpArgs false
set_option linter.unusedVariables false
namespace Lal.ChunkSim
open Lal Lal.Chunk

/-- the message lal's callback sees for a specification-level message -/
def ofSpec (m : ChunkSpec.Message) : Msg :=
  { hdr := { csid := m.csid, msgLen := m.payload.length, typ := m.typ, msid := m.msid, ts := m.ts },
    payload := m.payload }

theorem maxTs_eq : maxTs = 16777215 := rfl
theorem u32_eq : Chunk.u32 = ChunkSpec.u32 := rfl

/-! ### association lists -/

theorem lookup_filter_ne {α} (l : List (Nat × α)) (a b : Nat) (h : a ≠ b) :
    (l.filter (fun p => p.1 != a)).lookup b = l.lookup b := by
  induction l with
  | nil => rfl
  | cons p ps ih =>
    obtain ⟨k, v⟩ := p
    by_cases hk : k = a
    · subst hk
      have : (b == k) = false := by simp; exact fun e => h e.symm
      simp [List.filter, List.lookup, this, ih]
    · have hk' : (k != a) = true := by simp [hk]
      simp only [List.filter, hk', List.lookup]
      split <;> simp_all

theorem comp_get_set (c : Composer) (a b : Nat) (s : Stream) :
    (c.set a s).get b = if a = b then s else c.get b := by
  unfold Composer.set Composer.get
  by_cases h : a = b
  · subst h; simp [List.lookup]
  · have : (b == a) = false := by simp; exact fun e => h e.symm
    simp only [List.lookup, this, h, if_false]
    rw [lookup_filter_ne _ _ _ h]

theorem spec_get_put (s : ChunkSpec.St) (a b : Nat) (k : ChunkSpec.Cs) :
    (s.put a k).get b = if a = b then k else s.get b := by
  unfold ChunkSpec.St.put ChunkSpec.St.get
  by_cases h : a = b
  · subst h; simp [List.lookup]
  · have : (b == a) = false := by simp; exact fun e => h e.symm
    simp only [List.lookup, this, h, if_false]
    rw [lookup_filter_ne _ _ _ h]

@[simp] theorem comp_set_peer (c : Composer) (a : Nat) (s : Stream) : (c.set a s).peerChunkSize = c.peerChunkSize := rfl
@[simp] theorem spec_put_chunk (s : ChunkSpec.St) (a : Nat) (k : ChunkSpec.Cs) : (s.put a k).chunkSize = s.chunkSize := rfl

/-! ### the simulation relation -/

structure RelS (k : ChunkSpec.Cs) (s : Stream) : Prop where
  buf : s.buf = k.part
  fresh : k.have_ = false → k.open_ = false ∧ k.part = []
  len : k.have_ = true → s.hdr.msgLen = k.len
  lenlt : k.have_ = true → k.len < 16777216
  typ : k.have_ = true → s.hdr.typ = k.typ
  msid : k.have_ = true → s.hdr.msid = k.msid
  delta : k.have_ = true → s.timestamp = k.delta
  ext : k.have_ = true → (k.ext = true ↔ k.delta ≥ 16777215)
  opened : k.have_ = true → k.open_ = true →
    k.msgTs = (if s.absTsFlag then s.hdr.ts else (s.hdr.ts + s.timestamp) % Chunk.u32) ∧ k.part.length < k.len
  idle : k.have_ = true → k.open_ = false → k.msgTs = s.hdr.ts ∧ s.absTsFlag = false ∧ k.part = []

structure Rel (s : ChunkSpec.St) (c : Composer) : Prop where
  size : c.peerChunkSize = s.chunkSize
  pos : s.chunkSize ≥ 1
  streams : ∀ csid, RelS (s.get csid) (c.get csid)

theorem relS_default : RelS {} {} := by
  constructor <;> simp

theorem rel_init (cs : Nat) (h : cs ≥ 1) : Rel { chunkSize := cs } { peerChunkSize := cs } := by
  refine ⟨rfl, h, fun csid => ?_⟩
  simp [ChunkSpec.St.get, Composer.get, List.lookup]
  exact relS_default

/-! ### stage 1: basic header -/

theorem basic_sim (inp : Bytes) (f csid : Nat) (r1 : Bytes)
    (h : ChunkSpec.basicHeader inp = some (f, csid, r1)) :
    parseBasic inp = some (f, csid, r1) ∧ f < 4 ∧ r1.length < inp.length := by
  cases inp with
  | nil => simp [ChunkSpec.basicHeader] at h
  | cons b0 r0 =>
    have hb : b0.toNat < 256 := b0.toNat_lt
    simp only [ChunkSpec.basicHeader] at h
    simp only [parseBasic]
    by_cases h0 : b0.toNat % 64 = 0
    · simp only [h0, if_true] at h ⊢
      cases r0 with
      | nil => simp at h
      | cons x r =>
        simp only [Option.some.injEq, Prod.mk.injEq] at h
        obtain ⟨rfl, rfl, rfl⟩ := h
        refine ⟨by simp [Nat.add_comm], by omega, by simp; omega⟩
    · by_cases h1 : b0.toNat % 64 = 1
      · simp only [h0, h1, if_true, if_false] at h ⊢
        cases r0 with
        | nil => simp at h
        | cons x r =>
          cases r with
          | nil => simp at h
          | cons y r =>
            simp only [Option.some.injEq, Prod.mk.injEq] at h
            obtain ⟨rfl, rfl, rfl⟩ := h
            refine ⟨?_, by omega, by simp; omega⟩
            simp; omega
      · simp only [h0, h1, if_false, Option.some.injEq, Prod.mk.injEq] at h ⊢
        obtain ⟨rfl, rfl, rfl⟩ := h
        refine ⟨⟨rfl, rfl, rfl⟩, by omega, by simp⟩

/-! ### stages 2+3: message header and timestamps -/

/-- what holds between the two readers just before the chunk data is read -/
structure Mid (wasOpen : Bool) (k : ChunkSpec.Cs) (s : Stream) : Prop where
  have_ : k.have_ = true
  open_ : k.open_ = wasOpen
  buf : s.buf = k.part
  len : s.hdr.msgLen = k.len
  lenlt : k.len < 16777216
  typ : s.hdr.typ = k.typ
  msid : s.hdr.msid = k.msid
  delta : s.timestamp = k.delta
  ext : k.ext = true ↔ k.delta ≥ 16777215
  ts : k.msgTs = (if s.absTsFlag then s.hdr.ts else (s.hdr.ts + s.timestamp) % Chunk.u32)
  part : if wasOpen then k.part.length < k.len else k.part = []

theorem rd24_lt (a b c : UInt8) : rd24 a b c < 16777216 := by
  have := a.toNat_lt; have := b.toNat_lt; have := c.toNat_lt
  simp only [rd24]; omega

theorem header_sim (fmt : Nat) (hf : fmt < 4) (k : ChunkSpec.Cs) (s : Stream) (hR : RelS k s)
    (r1 r2 r3 : Bytes) (k1 k2 : ChunkSpec.Cs) (field : Option Nat)
    (h1 : ChunkSpec.messageHeader fmt k r1 = some (k1, field, r2))
    (h2 : ChunkSpec.timestamps fmt (!k.open_) k1 field r2 = some (k2, r3)) :
    ∃ s1 s2, parseMsgHeader fmt s r1 = some (s1, r2) ∧ parseExt fmt s1 r2 = some (s2, r3) ∧ Mid k.open_ k2 s2 ∧
      r3.length ≤ r1.length := by
  have hfmt : fmt = 0 ∨ fmt = 1 ∨ fmt = 2 ∨ fmt = 3 := by omega
  rcases hfmt with rfl | rfl | rfl | rfl
  · -- type 0
    simp only [ChunkSpec.messageHeader, if_true] at h1
    rcases r1 with _ | ⟨t0, _ | ⟨t1, _ | ⟨t2, _ | ⟨l0, _ | ⟨l1, _ | ⟨l2, _ | ⟨ty, _ | ⟨i0, _ | ⟨i1, _ | ⟨i2, _ | ⟨i3, r⟩⟩⟩⟩⟩⟩⟩⟩⟩⟩⟩
    all_goals try (simp at h1; done)
    by_cases ho : k.open_ = true
    · simp [ho] at h1
    · have ho' : k.open_ = false := by simpa using ho
      simp only [ho', if_false, Option.some.injEq, Prod.mk.injEq, Bool.false_eq_true] at h1
      obtain ⟨rfl, rfl, rfl⟩ := h1
      have hpart : k.part = [] := by
        by_cases hh : k.have_ = true
        · exact (hR.idle hh ho').2.2
        · exact (hR.fresh (by simpa using hh)).2
      have hv := rd24_lt t0 t1 t2
      simp only [ChunkSpec.timestamps, if_true] at h2
      simp only [parseMsgHeader, if_true]
      by_cases hx : rd24 t0 t1 t2 = 16777215
      · simp only [hx, if_true] at h2
        rcases r with _ | ⟨e0, _ | ⟨e1, _ | ⟨e2, _ | ⟨e3, r'⟩⟩⟩⟩
        all_goals try (simp at h2; done)
        by_cases ht : rd32 e0 e1 e2 e3 < 16777215
        · simp [ht] at h2
        · simp only [ht, if_false, Option.some.injEq, Prod.mk.injEq] at h2
          obtain ⟨rfl, rfl⟩ := h2
          have ht' := ht
          simp only [rd32] at ht'
          exact ⟨_, _, rfl,
            by simp only [parseExt, hx, maxTs_eq, ge_iff_le, Nat.le_refl, if_true]; rfl,
            by constructor <;> simp [ho', hR.buf, hpart, rd32, rd24_lt] <;> omega,
            by simp only [List.length_cons]; omega⟩
      · simp only [hx, if_false, Option.some.injEq, Prod.mk.injEq] at h2
        obtain ⟨rfl, rfl⟩ := h2
        have hlt : ¬ rd24 t0 t1 t2 ≥ maxTs := by rw [maxTs_eq]; omega
        exact ⟨_, _, rfl,
          by simp only [parseExt, hlt, if_false]; rfl,
          by constructor <;> simp [ho', hR.buf, hpart, rd32, rd24_lt] <;> omega,
          by simp only [List.length_cons]; omega⟩
  · -- type 1
    simp only [ChunkSpec.messageHeader, if_true, if_false, Nat.succ_ne_zero, Nat.one_ne_zero] at h1
    rcases r1 with _ | ⟨t0, _ | ⟨t1, _ | ⟨t2, _ | ⟨l0, _ | ⟨l1, _ | ⟨l2, _ | ⟨ty, r⟩⟩⟩⟩⟩⟩⟩
    all_goals try (simp at h1; done)
    by_cases hc : k.open_ = true ∨ k.have_ = false
    · simp [hc] at h1
    · simp only [hc, if_false, Option.some.injEq, Prod.mk.injEq] at h1
      obtain ⟨rfl, rfl, rfl⟩ := h1
      have ho' : k.open_ = false := by
        cases h : k.open_ <;> simp_all
      have hh : k.have_ = true := by
        cases h : k.have_ <;> simp_all
      have hv := rd24_lt t0 t1 t2
      obtain ⟨hts, habs, hpart⟩ := hR.idle hh ho'
      simp only [ChunkSpec.timestamps, Nat.one_ne_zero, if_false] at h2
      by_cases hx : rd24 t0 t1 t2 = 16777215
      · simp [hx] at h2
      · simp only [hx, if_false, Option.some.injEq, Prod.mk.injEq] at h2
        obtain ⟨rfl, rfl⟩ := h2
        have hlt : ¬ rd24 t0 t1 t2 ≥ maxTs := by rw [maxTs_eq]; omega
        exact ⟨_, _, by simp [parseMsgHeader]; rfl,
          by simp only [parseExt, hlt, if_false]; rfl,
          by constructor <;> simp [ho', hh, hR.buf, hpart, hR.msid hh, habs, hts, rd24_lt, u32_eq] <;> omega,
          by simp only [List.length_cons]; omega⟩
  · -- type 2
    have e20 : ¬ (2 = 0) := by decide
    have e21 : ¬ (2 = 1) := by decide
    simp only [ChunkSpec.messageHeader, e20, e21, if_false, if_true] at h1
    rcases r1 with _ | ⟨t0, _ | ⟨t1, _ | ⟨t2, r⟩⟩⟩
    all_goals try (simp at h1; done)
    by_cases hc : k.open_ = true ∨ k.have_ = false
    · simp [hc] at h1
    · simp only [hc, if_false, Option.some.injEq, Prod.mk.injEq] at h1
      obtain ⟨rfl, rfl, rfl⟩ := h1
      have ho' : k.open_ = false := by
        cases h : k.open_ <;> simp_all
      have hh : k.have_ = true := by
        cases h : k.have_ <;> simp_all
      have hv := rd24_lt t0 t1 t2
      obtain ⟨hts, habs, hpart⟩ := hR.idle hh ho'
      simp only [ChunkSpec.timestamps, e20, if_false] at h2
      by_cases hx : rd24 t0 t1 t2 = 16777215
      · simp [hx] at h2
      · simp only [hx, if_false, Option.some.injEq, Prod.mk.injEq] at h2
        obtain ⟨rfl, rfl⟩ := h2
        have hlt : ¬ rd24 t0 t1 t2 ≥ maxTs := by rw [maxTs_eq]; omega
        exact ⟨_, _, by simp [parseMsgHeader]; rfl,
          by simp only [parseExt, hlt, if_false]; rfl,
          by constructor <;>
              simp [ho', hh, hR.buf, hpart, hR.msid hh, hR.len hh, hR.typ hh, hR.lenlt hh, habs, hts, u32_eq] <;> omega,
          by simp only [List.length_cons]; omega⟩
  · -- type 3
    have e30 : ¬ (3 = 0) := by decide
    have e31 : ¬ (3 = 1) := by decide
    have e32 : ¬ (3 = 2) := by decide
    simp only [ChunkSpec.messageHeader, e30, e31, e32, if_false] at h1
    by_cases hh0 : k.have_ = false
    · simp [hh0] at h1
    · have hh : k.have_ = true := by cases h : k.have_ <;> simp_all
      simp only [hh0, if_false, Option.some.injEq, Prod.mk.injEq] at h1
      obtain ⟨rfl, rfl, rfl⟩ := h1
      simp only [ChunkSpec.timestamps] at h2
      have hmh : parseMsgHeader 3 s r1 = some (s, r1) := by simp [parseMsgHeader]
      have hext := hR.ext hh
      have hdel := hR.delta hh
      -- the Mid relation for the stream with `timestamp` rewritten to the same delta
      have mid : ∀ (s2 : Stream), s2.buf = s.buf → s2.hdr = s.hdr → s2.timestamp = s.timestamp → s2.absTsFlag = s.absTsFlag →
          Mid k.open_ (if (!k.open_) = true then { k with msgTs := (k.msgTs + k.delta) % ChunkSpec.u32 } else k) s2 := by
        intro s2 hb hhd htm hab
        by_cases ho : k.open_ = true
        · obtain ⟨hts, hpl⟩ := hR.opened hh ho
          constructor <;> simp [ho, hh, hb, hhd, htm, hab, hR.buf, hR.msid hh, hR.len hh, hR.typ hh, hR.lenlt hh, hdel, hext, hpl]
          · rw [hts]; simp [hdel]
        · have ho' : k.open_ = false := by simpa using ho
          obtain ⟨hts, habs, hpart⟩ := hR.idle hh ho'
          constructor <;> simp [ho', hh, hb, hhd, htm, hab, hR.buf, hR.msid hh, hR.len hh, hR.typ hh, hR.lenlt hh, hdel, hext, hpart, habs, hts, u32_eq]
      by_cases he : k.ext = true
      · rw [if_pos he] at h2
        have hge : k.delta ≥ 16777215 := hext.mp he
        rcases r1 with _ | ⟨e0, _ | ⟨e1, _ | ⟨e2, _ | ⟨e3, r'⟩⟩⟩⟩
        all_goals try (simp at h2; done)
        by_cases hv : rd32 e0 e1 e2 e3 = k.delta
        · simp only [hv, if_true, Option.some.injEq, Prod.mk.injEq] at h2
          obtain ⟨rfl, rfl⟩ := h2
          have hge' : s.timestamp ≥ maxTs := by rw [maxTs_eq, hdel]; exact hge
          exact ⟨s, { s with timestamp := k.delta, hdr := { s.hdr with ts := s.hdr.ts } }, hmh,
            by simp only [parseExt, hge', if_true, e30, e31, e32, if_false, false_or, hv],
            mid _ rfl rfl (by simp [hdel]) rfl,
            by simp only [List.length_cons]; omega⟩
        · simp [hv] at h2
      · have he' : k.ext = false := by simpa using he
        rw [if_neg he] at h2
        simp only [Option.some.injEq, Prod.mk.injEq] at h2
        obtain ⟨rfl, rfl⟩ := h2
        have hlt : ¬ k.delta ≥ 16777215 := fun h => he (hext.mpr h)
        have hlt' : ¬ s.timestamp ≥ maxTs := by rw [maxTs_eq, hdel]; exact hlt
        exact ⟨_, _, hmh, by simp only [parseExt, hlt', if_false], mid s rfl rfl rfl rfl, Nat.le_refl _⟩

/-! ### aggregate messages -/

theorem aggregate_sim (csid a : Nat) : ∀ (fuel : Nat) (buf : Bytes) (first : Option Nat) (acc : List Msg)
    (ms : List ChunkSpec.Message),
    ChunkSpec.splitAggregate csid a fuel buf first = some ms →
    aggregate csid a fuel buf first acc = (acc.reverse ++ ms.map ofSpec, true) := by
  intro fuel
  induction fuel with
  | zero =>
    intro buf first acc ms h
    cases buf with
    | nil => simp [ChunkSpec.splitAggregate] at h; subst h; simp [aggregate]
    | cons b bs => simp [ChunkSpec.splitAggregate] at h
  | succ f ih =>
    intro buf first acc ms h
    rcases buf with _ | ⟨t, _ | ⟨l0, _ | ⟨l1, _ | ⟨l2, _ | ⟨t0, _ | ⟨t1, _ | ⟨t2, _ | ⟨t3, _ | ⟨s0, _ | ⟨s1, _ | ⟨s2, rest⟩⟩⟩⟩⟩⟩⟩⟩⟩⟩⟩
    all_goals try (simp [ChunkSpec.splitAggregate] at h; done)
    · simp [ChunkSpec.splitAggregate] at h; subst h; simp [aggregate]
    · simp only [ChunkSpec.splitAggregate] at h
      by_cases hl : rest.length < rd24 l0 l1 l2 + 4
      · simp [hl] at h
      · simp only [hl, if_false] at h
        cases hrec : ChunkSpec.splitAggregate csid a f (List.drop (rd24 l0 l1 l2 + 4) rest)
            (some (first.getD (t3.toNat * 16777216 + rd24 t0 t1 t2))) with
        | none => simp [hrec] at h
        | some ms' =>
          simp only [hrec, Option.some.injEq] at h
          subst h
          have e1 : rd24 t0 t1 t2 + t3.toNat * 16777216 = t3.toNat * 16777216 + rd24 t0 t1 t2 := Nat.add_comm _ _
          have hl1 : ¬ rest.length < rd24 l0 l1 l2 := by omega
          have hl2 : ¬ (rest.drop (rd24 l0 l1 l2)).length < 4 := by simp; omega
          have htk : (rest.take (rd24 l0 l1 l2)).length = rd24 l0 l1 l2 := by simp; omega
          simp only [aggregate, List.isEmpty_cons, Bool.false_eq_true, if_false, hl1, hl2, List.drop_drop, e1]
          rw [ih _ _ _ _ hrec]
          simp [ofSpec, htk, u32_eq, Nat.add_comm]

/-! ### stage 4: chunk data and completion -/

theorem relS_other (s : ChunkSpec.St) (c : Composer) (hR : Rel s c) (csid b : Nat) (k : ChunkSpec.Cs) (st : Stream)
    (hks : RelS k st) :
    RelS ((s.put csid k).get b) ((c.set csid st).get b) := by
  rw [spec_get_put, comp_get_set]
  by_cases h : csid = b
  · simp [h, hks]
  · simp [h, hR.streams b]

theorem relS_idle (kk : ChunkSpec.Cs) (st : Stream)
    (h1 : kk.have_ = true) (h2 : kk.open_ = false) (h3 : kk.part = []) (h4 : st.buf = []) (h5 : st.absTsFlag = false)
    (h6 : st.hdr.msgLen = kk.len) (h7 : kk.len < 16777216) (h8 : st.hdr.typ = kk.typ) (h9 : st.hdr.msid = kk.msid)
    (h10 : st.timestamp = kk.delta) (h11 : kk.ext = true ↔ kk.delta ≥ 16777215) (h12 : kk.msgTs = st.hdr.ts) :
    RelS kk st := by
  constructor <;> simp [*]

theorem relS_open (kk : ChunkSpec.Cs) (st : Stream)
    (h1 : kk.have_ = true) (h2 : kk.open_ = true) (h3 : st.buf = kk.part) (h4 : kk.part.length < kk.len)
    (h6 : st.hdr.msgLen = kk.len) (h7 : kk.len < 16777216) (h8 : st.hdr.typ = kk.typ) (h9 : st.hdr.msid = kk.msid)
    (h10 : st.timestamp = kk.delta) (h11 : kk.ext = true ↔ kk.delta ≥ 16777215)
    (h12 : kk.msgTs = (if st.absTsFlag then st.hdr.ts else (st.hdr.ts + st.timestamp) % Chunk.u32)) :
    RelS kk st := by
  constructor <;> simp [*]

theorem body_sim (s : ChunkSpec.St) (c : Composer) (hR : Rel s c) (csid : Nat) (wasOpen : Bool)
    (k2 : ChunkSpec.Cs) (s2 : Stream) (hM : Mid wasOpen k2 s2) (r3 rest : Bytes)
    (s' : ChunkSpec.St) (ms : List ChunkSpec.Message)
    (h : ChunkSpec.chunkData s csid k2 r3 = some (s', ms, rest)) :
    ∃ c', takeBody c csid s2 r3 = .ok c' (ms.map ofSpec) rest ∧ Rel s' c' ∧ rest.length ≤ r3.length := by
  have hpl : k2.part.length ≤ k2.len := by
    have := hM.part
    cases wasOpen <;> simp at this
    · simp [this]
    · omega
  have hlen := hM.len
  have hlt := hM.lenlt
  have hbuf := hM.buf
  simp only [ChunkSpec.chunkData] at h
  -- both sides read the same number of bytes
  have hneed : neededSize s2.hdr.msgLen s2.buf.length c.peerChunkSize
      = (if k2.len - k2.part.length < s.chunkSize then k2.len - k2.part.length else s.chunkSize) := by
    simp only [neededSize, hlen, hbuf, hR.size, Chunk.u32]
    have : (k2.len + 4294967296 - k2.part.length) % 4294967296 = k2.len - k2.part.length := by omega
    rw [this]
    by_cases hc : k2.len - k2.part.length < s.chunkSize
    · have : ¬ k2.len - k2.part.length > s.chunkSize := by omega
      simp [hc, this]
    · simp only [hc, if_false]
      by_cases hc2 : k2.len - k2.part.length > s.chunkSize
      · simp [hc2]
      · simp only [hc2, if_false]; omega
  rw [hlen, hbuf] at hneed
  generalize hn : (if k2.len - k2.part.length < s.chunkSize then k2.len - k2.part.length else s.chunkSize) = n at h hneed
  have hnle : n ≤ k2.len - k2.part.length := by
    rw [← hn]; split <;> omega
  by_cases hshort : r3.length < n
  · simp [hshort] at h
  · simp only [hshort, if_false] at h
    have htake : (r3.take n).length = n := by simp; omega
    have hrest : (r3.drop n).length ≤ r3.length := by simp
    simp only [takeBody, hbuf, hlen, hneed, hshort, if_false]
    by_cases hdone : (k2.part ++ r3.take n).length = k2.len
    · simp only [hdone, if_true] at h ⊢
      -- the stream state after completion
      have relDone : ∀ (abs : Nat), abs = k2.msgTs →
          RelS { k2 with part := [], open_ := false }
               { s2 with buf := [], absTsFlag := false,
                         hdr := { csid := csid, msgLen := s2.hdr.msgLen, typ := s2.hdr.typ, msid := s2.hdr.msid, ts := abs } } := by
        intro abs habs
        constructor <;> simp [hM.have_, hM.len, hM.lenlt, hM.typ, hM.msid, hM.delta, hM.ext, habs]
      have hdone' : k2.part.length + min n r3.length = k2.len := by simpa using hdone
      have habs : (if s2.absTsFlag = true then s2.hdr.ts else (s2.hdr.ts + s2.timestamp) % Chunk.u32) = k2.msgTs := hM.ts.symm
      by_cases ht1 : k2.typ = 1
      · simp only [ht1, if_true] at h
        have ht1' : s2.hdr.typ = 1 := by rw [hM.typ, ht1]
        generalize hp : k2.part ++ r3.take n = part at h hdone ⊢
        rcases part with _ | ⟨a, _ | ⟨b, _ | ⟨c0, _ | ⟨d, _ | ⟨e, tl⟩⟩⟩⟩⟩
        all_goals try (simp at h; done)
        by_cases hv : rd32 a b c0 d = 0
        · simp [hv] at h
        · simp only [hv, if_false, Option.some.injEq, Prod.mk.injEq] at h
          obtain ⟨rfl, rfl, rfl⟩ := h
          have e122 : ¬ ((1:Nat) = 22) := by decide
          have hk4 : k2.len = 4 := by simpa using hdone.symm
          refine ⟨?w1, ?ga1, ?gb1, hrest⟩
          case ga1 =>
            simp only [ht1', if_true, e122, if_false, habs]
            simp [ofSpec, hM.typ, hM.msid, ht1, hlen, ← hdone]
            rfl
          case gb1 =>
            refine ⟨rfl, by simp; omega, fun b' => ?_⟩
            have := relS_other { s with chunkSize := rd32 a b c0 d } { c with peerChunkSize := rd32 a b c0 d }
              ⟨rfl, by simp; omega, hR.streams⟩ csid b'
            refine this _ _ ?_
            apply relS_idle <;> simp [hM.have_, hM.lenlt, hM.typ, hM.msid, hM.delta, hM.ext, hlen, ht1, hdone', hk4]
      · simp only [ht1, if_false] at h
        have ht1' : ¬ s2.hdr.typ = 1 := by rw [hM.typ]; exact ht1
        by_cases ht22 : k2.typ = 22
        · simp only [ht22, if_true] at h
          have ht22' : s2.hdr.typ = 22 := by rw [hM.typ, ht22]
          cases hsp : ChunkSpec.splitAggregate csid k2.msgTs k2.len (k2.part ++ r3.take n) none with
          | none => simp [hsp] at h
          | some subs =>
            simp only [hsp, Option.some.injEq, Prod.mk.injEq] at h
            obtain ⟨rfl, rfl, rfl⟩ := h
            have hagg := aggregate_sim csid k2.msgTs _ _ none [] subs hsp
            refine ⟨?w2, ?ga2, ?gb2, hrest⟩
            case ga2 =>
              simp only [ht1', ht22', if_true, if_false, habs, hdone, hagg]
              simp
              rfl
            case gb2 =>
              refine ⟨hR.size, hR.pos, fun b' => ?_⟩
              refine relS_other s c hR csid b' _ _ ?_
              apply relS_idle <;> simp [hM.have_, hM.lenlt, hM.typ, hM.msid, hM.delta, hM.ext, hlen, ht22, hdone']
        · simp only [ht22, if_false, Option.some.injEq, Prod.mk.injEq] at h
          obtain ⟨rfl, rfl, rfl⟩ := h
          have ht22' : ¬ s2.hdr.typ = 22 := by rw [hM.typ]; exact ht22
          refine ⟨?w3, ?ga3, ?gb3, hrest⟩
          case ga3 =>
            simp only [ht1', ht22', if_false, habs]
            simp [ofSpec, hM.typ, hM.msid, hlen, ← hdone]
            rfl
          case gb3 =>
            refine ⟨hR.size, hR.pos, fun b' => ?_⟩
            refine relS_other s c hR csid b' _ _ ?_
            apply relS_idle <;> simp [hM.have_, hM.lenlt, hM.typ, hM.msid, hM.delta, hM.ext, hlen, hdone']
    · simp only [hdone, if_false, Option.some.injEq, Prod.mk.injEq] at h ⊢
      obtain ⟨rfl, rfl, rfl⟩ := h
      have hlen2 : (k2.part ++ r3.take n).length < k2.len := by
        simp only [List.length_append, htake] at hdone ⊢; omega
      have hng : ¬ (k2.part ++ r3.take n).length > k2.len := by omega
      refine ⟨?w4, ?ga4, ?gb4, hrest⟩
      case ga4 => simp only [hng, if_false]; rfl
      case gb4 =>
        refine ⟨hR.size, hR.pos, fun b' => ?_⟩
        refine relS_other s c hR csid b' _ _ ?_
        have hlen2' : k2.part.length + min n r3.length < k2.len := by simpa using hlen2
        apply relS_open <;> simp [hM.have_, hM.lenlt, hM.typ, hM.msid, hM.delta, hM.ext, hM.buf, hlen, hlen2']
        have := hM.ts; rwa [hM.delta] at this

/-! ### one chunk, then the whole stream -/

theorem readChunk_sim (s : ChunkSpec.St) (c : Composer) (hR : Rel s c) (inp rest : Bytes)
    (s' : ChunkSpec.St) (ms : List ChunkSpec.Message)
    (h : ChunkSpec.readChunk s inp = some (s', ms, rest)) :
    ∃ c', readChunk c inp = .ok c' (ms.map ofSpec) rest ∧ Rel s' c' ∧ rest.length < inp.length := by
  simp only [ChunkSpec.readChunk] at h
  cases hb : ChunkSpec.basicHeader inp with
  | none => simp [hb] at h
  | some b =>
    obtain ⟨fmt, csid, r1⟩ := b
    simp only [hb] at h
    obtain ⟨hpb, hf, hl1⟩ := basic_sim inp fmt csid r1 hb
    cases hm : ChunkSpec.messageHeader fmt (s.get csid) r1 with
    | none => simp [hm] at h
    | some m =>
      obtain ⟨k1, field, r2⟩ := m
      simp only [hm] at h
      cases ht : ChunkSpec.timestamps fmt (!(s.get csid).open_) k1 field r2 with
      | none => simp [ht] at h
      | some t =>
        obtain ⟨k2, r3⟩ := t
        simp only [ht] at h
        obtain ⟨s1, s2, hp1, hp2, hM, hl3⟩ := header_sim fmt hf (s.get csid) (c.get csid) (hR.streams csid) r1 r2 r3 k1 k2 field hm ht
        obtain ⟨c', hb', hR', hl4⟩ := body_sim s c hR csid _ k2 s2 hM r3 rest s' ms h
        exact ⟨c', by simp only [readChunk, hpb, hp1, hp2, hb'], hR', by omega⟩

theorem runLoop_sim : ∀ (fuel : Nat) (s : ChunkSpec.St) (c : Composer) (inp : Bytes) (acc out : List ChunkSpec.Message)
    (acc' : List Msg) (fuel' : Nat),
    Rel s c → ChunkSpec.readAll fuel s inp acc = some out → fuel' > inp.length →
    ∃ new, out = acc ++ new ∧
      (runLoop fuel' c inp acc').msgs = acc' ++ new.map ofSpec ∧
      (runLoop fuel' c inp acc').failed = false ∧ (runLoop fuel' c inp acc').leftover = 0 := by
  intro fuel
  induction fuel with
  | zero =>
    intro s c inp acc out acc' fuel' hR h hf
    cases inp with
    | nil =>
      simp [ChunkSpec.readAll] at h; subst h
      cases fuel' with
      | zero => omega
      | succ f => exact ⟨[], by simp, by simp [runLoop, readChunk, parseBasic]⟩
    | cons b bs => simp [ChunkSpec.readAll] at h
  | succ n ih =>
    intro s c inp acc out acc' fuel' hR h hf
    cases inp with
    | nil =>
      simp [ChunkSpec.readAll] at h; subst h
      cases fuel' with
      | zero => omega
      | succ f => exact ⟨[], by simp, by simp [runLoop, readChunk, parseBasic]⟩
    | cons b bs =>
      simp only [ChunkSpec.readAll] at h
      cases hc : ChunkSpec.readChunk s (b :: bs) with
      | none => simp [hc] at h
      | some r =>
        obtain ⟨s', ms, rest⟩ := r
        simp only [hc] at h
        obtain ⟨c', hrc, hR', hlt⟩ := readChunk_sim s c hR (b :: bs) rest s' ms hc
        cases fuel' with
        | zero => omega
        | succ f =>
          obtain ⟨new, hout, h1, h2, h3⟩ := ih s' c' rest (acc ++ ms) out (acc' ++ ms.map ofSpec) f hR' h (by omega)
          refine ⟨ms ++ new, by simp [hout], ?_⟩
          simp only [runLoop, hrc]
          simp [h1, h2, h3]

/-- lal's ChunkComposer, fed any byte string the RTMP-specification reader accepts as a complete
    conforming chunk stream, delivers exactly the specification reader's messages. -/
theorem compose_sim (cs : Nat) (hcs : cs ≥ 1) (inp : Bytes) (out : List ChunkSpec.Message)
    (h : ChunkSpec.read cs inp = some out) :
    (compose { peerChunkSize := cs } inp).msgs = out.map ofSpec ∧
    (compose { peerChunkSize := cs } inp).failed = false ∧ (compose { peerChunkSize := cs } inp).leftover = 0 := by
  obtain ⟨new, hout, h1, h2, h3⟩ := runLoop_sim inp.length { chunkSize := cs } { peerChunkSize := cs } inp [] out []
    (inp.length + 1) (rel_init cs hcs) h (by omega)
  simp at hout; subst hout
  exact ⟨by simpa [compose] using h1, by simpa [compose] using h2, by simpa [compose] using h3⟩

end Lal.ChunkSim
