import LalModel.Model.TsRemux
import LalModel.Proof.MsgClass
import LalModel.Proof.GoOk
import LalModel.Proof.SeqHeaderTotal
import LalModel.Proof.NaluTotal
/-
  `Rtmp2MpegtsRemuxer.FeedRtmpMessage` returns normally for every message, every remuxer state and every observer,
  and any invariant of the observer's state that its two callbacks preserve is preserved.
-/
namespace Lal.TsRemux
open Lal Lal.MsgClass
set_option linter.unusedSimpArgs false
set_option linter.unusedVariables false

variable {σ : Type}

/-- `P` is an invariant of the observer -/
structure ObsInv (o : Observer σ) (P : σ → Prop) : Prop where
  patpmt : ∀ os b, P os → P (o.onPatPmt os b)
  ts : ∀ os e p, P os → P (o.onTs os e p).1

theorem flushAudio_inv {o : Observer σ} {P : σ → Prop} (hI : ObsInv o P) (s : St) (os : σ) (h : P os) :
    P (flushAudio o s os).2 := by
  unfold flushAudio
  split
  · exact h
  · exact hI.ts _ _ _ h

theorem flushIf_inv {o : Observer σ} {P : σ → Prop} (hI : ObsInv o P) (c : Bool) (s : St) (os : σ) (h : P os) :
    P (flushIf o c s os).2 := by
  unfold flushIf
  split
  · exact flushAudio_inv hI s os h
  · exact h

theorem cacheSeqHeader_ok {P : σ → Prop} (s : St) (os : σ) (r : GoM Bytes) (hr : NoPanicB r) (h : P os) :
    Ok (fun x => P x.2) (cacheSeqHeader s os r) := by
  unfold cacheSeqHeader
  split
  · exact Ok.ok h
  · exact Ok.ok h
  · have := hr.elim rfl
    simp_all

theorem nalStep_ok (hevc : Bool) (l : Loop) (nal : Bytes) (hn : nal ≠ []) : Ok (fun _ => True) (nalStep hevc l nal) := by
  obtain ⟨x, rest, rfl⟩ : ∃ x rest, nal = x :: rest := by
    cases nal with
    | nil => exact (hn rfl).elim
    | cons x rest => exact ⟨x, rest, rfl⟩
  unfold nalStep
  simp only [idx?, List.getElem?_cons_zero, GoM.ok_bind, GoM.pure_eq]
  repeat' split
  all_goals exact Ok.ok trivial

theorem nalLoop_ok (hevc : Bool) : ∀ (nals : List Bytes) (l : Loop), (∀ n ∈ nals, n ≠ []) → Ok (fun _ => True) (nalLoop hevc l nals) := by
  intro nals
  induction nals with
  | nil => intro l _; exact Ok.ok trivial
  | cons n rest ih =>
    intro l h
    unfold nalLoop
    obtain ⟨r, hr, _⟩ := nalStep_ok hevc l n (h n (by simp))
    simp only [hr, GoM.ok_bind, GoM.pure_eq]
    cases r with
    | none => exact Ok.ok trivial
    | some l' => exact ih l' (fun k hk => h k (by simp [hk]))

theorem videoBody_ok (m : Msg) (codecId : Nat) (h5 : 5 < m.payload.length) : Ok (fun _ => True) (videoBody m codecId) := by
  unfold videoBody
  simp only [isEnchanedHevcNalu_eq, getEnchanedHevcNaluIndex_eq, GoM.ok_bind, GoM.pure_eq]
  split
  · split
    · exact Ok.ok trivial
    · obtain ⟨r, hr, _⟩ := Ok.from? "feedVideo: Payload[index:]" m.payload (getEnchanedHevcNaluIndexP m) (by omega)
      simp only [hr, GoM.ok_bind]; exact Ok.ok trivial
  · obtain ⟨r, hr, _⟩ := Ok.from? "feedVideo: Payload[5:]" m.payload 5 (by omega)
    simp only [hr, GoM.ok_bind]; exact Ok.ok trivial

theorem sendVideo_ok {o : Observer σ} {P : σ → Prop} (hI : ObsInv o P) (s : St) (os : σ) (m : Msg) (out : Bytes) (h : P os) :
    Ok (fun x => P x.2) (sendVideo o s os m out) := by
  unfold sendVideo
  simp only [cts_eq, isVideoKeyNalu_eq, GoM.ok_bind, GoM.pure_eq]
  exact Ok.ok (hI.ts _ _ _ (flushIf_inv hI _ s os h))

theorem feedVideoFrame_ok {o : Observer σ} {P : σ → Prop} (hI : ObsInv o P) (s : St) (os : σ) (m : Msg) (codecId : Nat)
    (h5 : 5 < m.payload.length) (h : P os) : Ok (fun x => P x.2) (feedVideoFrame o s os m codecId) := by
  unfold feedVideoFrame
  obtain ⟨b, hb, _⟩ := videoBody_ok m codecId h5
  simp only [hb, GoM.ok_bind, GoM.pure_eq]
  cases b with
  | none => exact Ok.ok h
  | some body =>
    dsimp only
    split
    · exact Ok.ok h
    · obtain ⟨lr, hl, _⟩ := nalLoop_ok (decide (codecId = 12)) (Nalu.splitNaluAvcc body).1 { spspps := s.spspps } (Nalu.splitNaluAvcc_nonempty body)
      simp only [hl, GoM.ok_bind]
      split
      · exact Ok.ok h
      · split
        · exact Ok.ok h
        · exact sendVideo_ok hI _ os m _ h

theorem feedVideo_ok {o : Observer σ} {P : σ → Prop} (hI : ObsInv o P) (s : St) (os : σ) (m : Msg) (h : P os) :
    Ok (fun x => P x.2) (feedVideo o s os m) := by
  unfold feedVideo
  simp only [videoCodecId_eq, isAvcKeySeqHeader_eq, isHevcKeySeqHeader_eq, isEnhanced_eq, GoM.ok_bind, GoM.pure_eq]
  split
  · exact Ok.ok h
  · split
    · exact Ok.ok h
    · split
      · exact cacheSeqHeader_ok s os _ (SeqHeader.avcSeqHeader2Annexb_np _) h
      · split
        · split
          · exact cacheSeqHeader_ok s os _ (SeqHeader.hevcEnhancedSeqHeader2Annexb_np _) h
          · exact cacheSeqHeader_ok s os _ (SeqHeader.hevcSeqHeader2Annexb_np _) h
        · exact feedVideoFrame_ok hI s os m _ (by omega) h

theorem cacheAsc_ok {P : σ → Prop} (s : St) (os : σ) (m : Msg) (h2 : 2 < m.payload.length) (h : P os) :
    Ok (fun x => P x.2) (cacheAsc s os m) := by
  unfold cacheAsc
  obtain ⟨r, hr, _⟩ := Ok.from? "cacheAacSeqHeader: Payload[2:]" m.payload 2 (by omega)
  simp only [hr, GoM.ok_bind, GoM.pure_eq, GoM.throw_eq]
  split
  · exact Ok.ok h
  · exact Ok.ok h
  · have := (Aac.ascUnpack_np r).elim (by assumption)
    simp_all

theorem feedAac_ok {o : Observer σ} {P : σ → Prop} (hI : ObsInv o P) (s : St) (os : σ) (m : Msg) (c : Aac.AscContext)
    (h2 : 2 < m.payload.length) (h : P os) : Ok (fun x => P x.2) (feedAac o s os m c) := by
  unfold feedAac
  obtain ⟨r, hr, _⟩ := Ok.from? "feedAudio: Payload[2:]" m.payload 2 (by omega)
  simp only [hr, GoM.ok_bind, GoM.pure_eq]
  exact Ok.ok (flushIf_inv hI _ s os h)

theorem feedOpus_ok {o : Observer σ} {P : σ → Prop} (hI : ObsInv o P) (s : St) (os : σ) (m : Msg)
    (h2 : 1 < m.payload.length) (h : P os) : Ok (fun x => P x.2) (feedOpus o s os m) := by
  unfold feedOpus
  obtain ⟨r, hr, _⟩ := Ok.from? "feedAudio: Payload[1:]" m.payload 1 (by omega)
  simp only [hr, GoM.ok_bind, GoM.pure_eq]
  exact Ok.ok (flushAudio_inv hI _ os h)

theorem feedAudio_ok {o : Observer σ} {P : σ → Prop} (hI : ObsInv o P) (s : St) (os : σ) (m : Msg) (h : P os) :
    Ok (fun x => P x.2) (feedAudio o s os m) := by
  unfold feedAudio
  simp only [audioCodecId_eq, GoM.ok_bind, GoM.pure_eq]
  split
  · exact Ok.ok h
  · split
    · exact Ok.ok h
    · split
      · rename_i h1 h2 hc
        have h3 : 2 < m.payload.length := by
          rcases Nat.lt_or_ge 2 m.payload.length with h | h
          · exact h
          · exact absurd ⟨by omega, hc⟩ h2
        obtain ⟨b, hb, _⟩ := Ok.idx? "feedAudio: Payload[1]" m.payload 1 (by omega)
        simp only [hb, GoM.ok_bind]
        split
        · exact cacheAsc_ok s os m h3 h
        · split
          · exact Ok.ok h
          · exact feedAac_ok hI s os m _ h3 h
      · exact feedOpus_ok hI s os m (by omega) h

theorem onPop_ok {o : Observer σ} {P : σ → Prop} (hI : ObsInv o P) (s : St) (os : σ) (m : Msg) (h : P os) :
    Ok (fun x => P x.2) (onPop o s os m) := by
  unfold onPop
  simp only [audioCodecId_eq, GoM.ok_bind, GoM.pure_eq]
  split
  · split
    · exact Ok.ok h
    · exact feedAudio_ok hI s os m h
  · split
    · exact feedVideo_ok hI s os m h
    · exact Ok.ok h

theorem popAll_ok {o : Observer σ} {P : σ → Prop} (hI : ObsInv o P) : ∀ (ms : List Msg) (s : St) (os : σ), P os →
    Ok (fun x => P x.2) (popAll o s os ms) := by
  intro ms
  induction ms with
  | nil => intro s os h; exact Ok.ok h
  | cons m rest ih =>
    intro s os h
    unfold popAll
    obtain ⟨r, hr, hp⟩ := onPop_ok hI s os m h
    simp only [hr, GoM.ok_bind]
    exact ih _ _ hp

theorem drain_ok {o : Observer σ} {P : σ → Prop} (hI : ObsInv o P) (s : St) (os : σ) (h : P os) :
    Ok (fun x => P x.2) (drain o s os) := by
  unfold drain
  obtain ⟨r, hr, hp⟩ := popAll_ok hI s.data s _ (hI.patpmt os (Psi.packPat ++ Psi.packPmt s.videoCodecId s.audioCodecId) h)
  simp only [hr, GoM.ok_bind, GoM.pure_eq]
  exact Ok.ok hp

theorem probe_ok (s : St) (m : Msg) : Ok (fun _ => True) (probe s m) := by
  unfold probe
  simp only [audioCodecId_eq, videoCodecId_eq, GoM.ok_bind, GoM.pure_eq]
  repeat' split
  all_goals exact Ok.ok trivial

/-- `FeedRtmpMessage` -/
theorem feed_ok {o : Observer σ} {P : σ → Prop} (hI : ObsInv o P) (s : St) (os : σ) (m : Msg) (h : P os) :
    Ok (fun x => P x.2) (feed o s os m) := by
  unfold feed
  split
  · obtain ⟨r, hr, hp⟩ := onPop_ok hI s os m h
    simp only [hr, GoM.ok_bind, GoM.pure_eq]; exact Ok.ok hp
  · obtain ⟨s', hs, _⟩ := probe_ok { s with data := s.data ++ [m] } m
    simp only [hs, GoM.ok_bind, GoM.pure_eq]
    split
    · obtain ⟨r, hr, hp⟩ := drain_ok hI s' os h
      simp only [hr, GoM.ok_bind]; exact Ok.ok hp
    · split
      · obtain ⟨r, hr, hp⟩ := drain_ok hI s' os h
        simp only [hr, GoM.ok_bind]; exact Ok.ok hp
      · exact Ok.ok h

theorem feedAll_ok {o : Observer σ} {P : σ → Prop} (hI : ObsInv o P) : ∀ (ms : List Msg) (s : St) (os : σ), P os →
    Ok (fun x => P x.2) (feedAll o s os ms) := by
  intro ms
  induction ms with
  | nil => intro s os h; exact Ok.ok h
  | cons m rest ih =>
    intro s os h
    unfold feedAll
    obtain ⟨r, hr, hp⟩ := feed_ok hI s os m h
    simp only [hr, GoM.ok_bind]
    exact ih _ _ hp

theorem dispose_inv {o : Observer σ} {P : σ → Prop} (hI : ObsInv o P) (s : St) (os : σ) (h : P os) : P (dispose o s os).2 :=
  flushAudio_inv hI s os h

end Lal.TsRemux
