import LalModel.Model.AvQueue
/-
  AvPacketQueue (C07 `avqueue_order_preserving`, `avqueue_rebase`, `avqueue_monotone`), for the default
  `TimestampFilterHandleRotateFlag = true`.
-/
namespace Lal.AvQueue
open Lal Lal.Av

/-- the packets of the video track / of the other ("audio") track, as `Feed` sorts them (`pkt.IsVideo()`) -/
def vproj (l : List AvPacket) : List AvPacket := l.filter (·.isVideo)
def aproj (l : List AvPacket) : List AvPacket := l.filter (fun p => !p.isVideo)

/-- what `adjustTsHandleRotate` does to the timestamps of ONE track, packet after packet -/
def rebase : Track → List AvPacket → List AvPacket
  | _, [] => []
  | t, p :: ps => { p with ts := (rotateFn t p.ts).2 } :: rebase (rotateFn t p.ts).1 ps

/-- the track variables after the packets -/
def trackAfter : Track → List AvPacket → Track
  | t, [] => t
  | t, p :: ps => trackAfter (rotateFn t p.ts).1 ps

theorem vproj_append (a b : List AvPacket) : vproj (a ++ b) = vproj a ++ vproj b := by simp [vproj]
theorem aproj_append (a b : List AvPacket) : aproj (a ++ b) = aproj a ++ aproj b := by simp [aproj]

theorem vproj_of_video {l : List AvPacket} (h : ∀ p ∈ l, p.isVideo = true) : vproj l = l ∧ aproj l = [] := by
  constructor
  · exact List.filter_eq_self.mpr h
  · exact List.filter_eq_nil_iff.mpr (fun p hp => by simp [h p hp])

theorem aproj_of_audio {l : List AvPacket} (h : ∀ p ∈ l, p.isVideo = false) : aproj l = l ∧ vproj l = [] := by
  constructor
  · exact List.filter_eq_self.mpr (fun p hp => by simp [h p hp])
  · exact List.filter_eq_nil_iff.mpr (fun p hp => by simp [h p hp])

/-- The merge loop: each queue loses a prefix, which appears in the output in order; with enough fuel one queue
    ends empty. -/
theorem mergeLoop_spec (f : Bool) : ∀ (fuel : Nat) (aq vq : List AvPacket),
    (∀ p ∈ aq, p.isVideo = false) → (∀ p ∈ vq, p.isVideo = true) →
    aproj (mergeLoop f fuel aq vq).2.2 ++ (mergeLoop f fuel aq vq).1 = aq
    ∧ vproj (mergeLoop f fuel aq vq).2.2 ++ (mergeLoop f fuel aq vq).2.1 = vq
    ∧ (aq.length + vq.length ≤ fuel → (mergeLoop f fuel aq vq).1 = [] ∨ (mergeLoop f fuel aq vq).2.1 = [])
    ∧ (mergeLoop f fuel aq vq).1.length ≤ aq.length ∧ (mergeLoop f fuel aq vq).2.1.length ≤ vq.length := by
  intro fuel
  induction fuel with
  | zero =>
    intro aq vq _ _
    simp only [mergeLoop]
    refine ⟨by simp [aproj], by simp [vproj], ?_, Nat.le_refl _, Nat.le_refl _⟩
    intro h
    have : aq.length = 0 := by omega
    exact Or.inl (List.length_eq_zero_iff.mp this)
  | succ fuel ih =>
    intro aq vq ha hv
    cases aq with
    | nil => simp [mergeLoop, aproj, vproj]
    | cons a aq' =>
      cases vq with
      | nil => simp [mergeLoop, aproj, vproj]
      | cons v vq' =>
        have haa : a.isVideo = false := ha a (List.mem_cons_self ..)
        have hvv : v.isVideo = true := hv v (List.mem_cons_self ..)
        have ha' : ∀ p ∈ aq', p.isVideo = false := fun p hp => ha p (List.mem_cons_of_mem _ hp)
        have hv' : ∀ p ∈ vq', p.isVideo = true := fun p hp => hv p (List.mem_cons_of_mem _ hp)
        -- the two possible steps
        have popA : ∀ r : List AvPacket × List AvPacket × List AvPacket, r = mergeLoop f fuel aq' (v :: vq') →
            aproj (a :: r.2.2) ++ r.1 = a :: aq' ∧ vproj (a :: r.2.2) ++ r.2.1 = v :: vq'
            ∧ ((a :: aq').length + (v :: vq').length ≤ fuel + 1 → r.1 = [] ∨ r.2.1 = [])
            ∧ r.1.length ≤ (a :: aq').length ∧ r.2.1.length ≤ (v :: vq').length := by
          intro r hr
          obtain ⟨i1, i2, i3, i4, i5⟩ := ih aq' (v :: vq') ha' hv
          rw [← hr] at i1 i2 i3 i4 i5
          refine ⟨?_, ?_, fun h => i3 (by simp only [List.length_cons] at h ⊢; omega), by simp only [List.length_cons]; omega, i5⟩
          · simp only [aproj, List.filter_cons, haa, Bool.not_false, if_true, List.cons_append] at i1 ⊢
            rw [i1]
          · simp only [vproj, List.filter_cons, haa, Bool.false_eq_true, if_false] at i2 ⊢
            exact i2
        have popV : ∀ r : List AvPacket × List AvPacket × List AvPacket, r = mergeLoop f fuel (a :: aq') vq' →
            aproj (v :: r.2.2) ++ r.1 = a :: aq' ∧ vproj (v :: r.2.2) ++ r.2.1 = v :: vq'
            ∧ ((a :: aq').length + (v :: vq').length ≤ fuel + 1 → r.1 = [] ∨ r.2.1 = [])
            ∧ r.1.length ≤ (a :: aq').length ∧ r.2.1.length ≤ (v :: vq').length := by
          intro r hr
          obtain ⟨i1, i2, i3, i4, i5⟩ := ih (a :: aq') vq' ha hv'
          rw [← hr] at i1 i2 i3 i4 i5
          refine ⟨?_, ?_, fun h => i3 (by simp only [List.length_cons] at h ⊢; omega), i4, by simp only [List.length_cons]; omega⟩
          · simp only [aproj, List.filter_cons, hvv, Bool.not_true, Bool.false_eq_true, if_false] at i1 ⊢
            exact i1
          · simp only [vproj, List.filter_cons, hvv, if_true, List.cons_append] at i2 ⊢
            rw [i2]
        simp only [mergeLoop]
        by_cases h1 : a.ts < v.ts
        · simp only [h1, if_true]
          exact popA _ rfl
        · simp only [h1, if_false]
          by_cases h2 : a.ts > v.ts
          · simp only [h2, if_true]
            exact popV _ rfl
          · simp only [h2, if_false]
            cases f
            · simp only [Bool.false_eq_true, if_false]
              exact popA _ rfl
            · simp only [if_true]
              exact popV _ rfl

/-- between two `Feed` calls: neither queue is full, at most one holds packets, each holds its own track -/
structure Inv (q : Q) : Prop where
  la : q.audioQueue.length < maxQueueSize
  lv : q.videoQueue.length < maxQueueSize
  one : q.audioQueue = [] ∨ q.videoQueue = []
  av : ∀ p ∈ q.audioQueue, p.isVideo = false
  vv : ∀ p ∈ q.videoQueue, p.isVideo = true

theorem inv_init : Inv {} := ⟨by decide, by decide, Or.inl rfl, by simp, by simp⟩

theorem pushBack_ok (l : List AvPacket) (p : AvPacket) (h : l.length < maxQueueSize) : pushBack l p = l ++ [p] := by
  unfold pushBack
  rw [if_neg (by omega)]

/-- the tail of `Feed` after the packet was queued: merge, then flush a full queue -/
def finish (fedAudio : Bool) (q : Q) : Q × List AvPacket :=
  let m := mergeLoop fedAudio (q.audioQueue.length + q.videoQueue.length) q.audioQueue q.videoQueue
  let q2 := { q with audioQueue := m.1, videoQueue := m.2.1 }
  if m.2.1.length ≥ maxQueueSize then ({ q2 with videoQueue := [] }, m.2.2 ++ m.2.1)
  else if m.1.length ≥ maxQueueSize then ({ q2 with audioQueue := [] }, m.2.2 ++ m.1)
  else (q2, m.2.2)

theorem finish_spec (f : Bool) (q : Q) (ha : ∀ p ∈ q.audioQueue, p.isVideo = false) (hv : ∀ p ∈ q.videoQueue, p.isVideo = true)
    (hla : q.audioQueue.length ≤ maxQueueSize) (hlv : q.videoQueue.length ≤ maxQueueSize) :
    Inv (finish f q).1
    ∧ vproj (finish f q).2 ++ (finish f q).1.videoQueue = q.videoQueue
    ∧ aproj (finish f q).2 ++ (finish f q).1.audioQueue = q.audioQueue
    ∧ (finish f q).1.video = q.video ∧ (finish f q).1.audio = q.audio := by
  obtain ⟨m1, m2, m3, m4, m5⟩ := mergeLoop_spec f (q.audioQueue.length + q.videoQueue.length) q.audioQueue q.videoQueue ha hv
  have m3 := m3 (Nat.le_refl _)
  -- what is left in the queues is part of what was there
  have hva : ∀ p ∈ (mergeLoop f (q.audioQueue.length + q.videoQueue.length) q.audioQueue q.videoQueue).1, p.isVideo = false := by
    intro p hp; apply ha; rw [← m1]; exact List.mem_append_right _ hp
  have hvv : ∀ p ∈ (mergeLoop f (q.audioQueue.length + q.videoQueue.length) q.audioQueue q.videoQueue).2.1, p.isVideo = true := by
    intro p hp; apply hv; rw [← m2]; exact List.mem_append_right _ hp
  unfold finish
  simp only []
  by_cases hfv : (mergeLoop f (q.audioQueue.length + q.videoQueue.length) q.audioQueue q.videoQueue).2.1.length ≥ maxQueueSize
  · rw [if_pos hfv]
    have hae : (mergeLoop f (q.audioQueue.length + q.videoQueue.length) q.audioQueue q.videoQueue).1 = [] := by
      rcases m3 with h | h
      · exact h
      · rw [h] at hfv; simp [maxQueueSize] at hfv
    refine ⟨⟨by simp [hae, maxQueueSize], by simp [maxQueueSize], Or.inr rfl, by simp [hae], by simp⟩, ?_, ?_, rfl, rfl⟩
    · simp only [vproj_append, (vproj_of_video hvv).1, List.append_nil, List.append_assoc] at m2 ⊢
      exact m2
    · simp only [aproj_append, (vproj_of_video hvv).2, List.append_nil, hae] at m1 ⊢
      exact m1
  · rw [if_neg hfv]
    by_cases hfa : (mergeLoop f (q.audioQueue.length + q.videoQueue.length) q.audioQueue q.videoQueue).1.length ≥ maxQueueSize
    · rw [if_pos hfa]
      have hve : (mergeLoop f (q.audioQueue.length + q.videoQueue.length) q.audioQueue q.videoQueue).2.1 = [] := by
        rcases m3 with h | h
        · rw [h] at hfa; simp [maxQueueSize] at hfa
        · exact h
      refine ⟨⟨by simp [maxQueueSize], by simp [hve, maxQueueSize], Or.inl rfl, by simp, by simp [hve]⟩, ?_, ?_, rfl, rfl⟩
      · simp only [vproj_append, (aproj_of_audio hva).2, List.append_nil, hve] at m2 ⊢
        exact m2
      · simp only [aproj_append, (aproj_of_audio hva).1, List.append_nil, List.append_assoc] at m1 ⊢
        exact m1
    · rw [if_neg hfa]
      exact ⟨⟨by simpa using hfa, by simpa using hfv, m3, hva, hvv⟩, m2, m1, rfl, rfl⟩

theorem feed_eq_finish (q : Q) (pkt : AvPacket) :
    feed true q pkt = finish (adjustTsHandleRotate q pkt).2.isAudio (adjustTsHandleRotate q pkt).1 := by
  unfold feed finish
  simp

/-- One `Feed`: the invariant is kept; per track, what was queued plus the new packet (time-stamped by that track's
    `adjustTsHandleRotate` closure) is what is delivered followed by what stays queued. -/
theorem feed_spec (q : Q) (pkt : AvPacket) (hi : Inv q) :
    Inv (feed true q pkt).1
    ∧ vproj (feed true q pkt).2 ++ (feed true q pkt).1.videoQueue
        = q.videoQueue ++ (if pkt.isVideo then [{ pkt with ts := (rotateFn q.video pkt.ts).2 }] else [])
    ∧ aproj (feed true q pkt).2 ++ (feed true q pkt).1.audioQueue
        = q.audioQueue ++ (if pkt.isVideo then [] else [{ pkt with ts := (rotateFn q.audio pkt.ts).2 }])
    ∧ (feed true q pkt).1.video = (if pkt.isVideo then (rotateFn q.video pkt.ts).1 else q.video)
    ∧ (feed true q pkt).1.audio = (if pkt.isVideo then q.audio else (rotateFn q.audio pkt.ts).1) := by
  rw [feed_eq_finish]
  by_cases hv : pkt.isVideo = true
  · have e : adjustTsHandleRotate q pkt =
        ({ q with video := (rotateFn q.video pkt.ts).1, videoQueue := q.videoQueue ++ [{ pkt with ts := (rotateFn q.video pkt.ts).2 }] },
         { pkt with ts := (rotateFn q.video pkt.ts).2 }) := by
      unfold adjustTsHandleRotate
      simp only [hv, if_true, pushBack_ok _ _ hi.lv]
    rw [e]
    have hnew : ({ pkt with ts := (rotateFn q.video pkt.ts).2 } : AvPacket).isVideo = true := hv
    obtain ⟨f1, f2, f3, f4, f5⟩ := finish_spec ({ pkt with ts := (rotateFn q.video pkt.ts).2 } : AvPacket).isAudio
      { q with video := (rotateFn q.video pkt.ts).1, videoQueue := q.videoQueue ++ [{ pkt with ts := (rotateFn q.video pkt.ts).2 }] }
      hi.av (by
        intro p hp
        rcases List.mem_append.mp hp with h | h
        · exact hi.vv p h
        · rw [List.mem_singleton.mp h]; exact hnew)
      (Nat.le_of_lt hi.la) (by have := hi.lv; simp only [List.length_append, List.length_singleton]; omega)
    simp only [hv, if_true]
    exact ⟨f1, f2, by simpa using f3, f4, f5⟩
  · have hv' : pkt.isVideo = false := by simpa using hv
    have e : adjustTsHandleRotate q pkt =
        ({ q with audio := (rotateFn q.audio pkt.ts).1, audioQueue := q.audioQueue ++ [{ pkt with ts := (rotateFn q.audio pkt.ts).2 }] },
         { pkt with ts := (rotateFn q.audio pkt.ts).2 }) := by
      unfold adjustTsHandleRotate
      simp only [hv', Bool.false_eq_true, if_false, pushBack_ok _ _ hi.la]
    rw [e]
    have hnew : ({ pkt with ts := (rotateFn q.audio pkt.ts).2 } : AvPacket).isVideo = false := hv'
    obtain ⟨f1, f2, f3, f4, f5⟩ := finish_spec ({ pkt with ts := (rotateFn q.audio pkt.ts).2 } : AvPacket).isAudio
      { q with audio := (rotateFn q.audio pkt.ts).1, audioQueue := q.audioQueue ++ [{ pkt with ts := (rotateFn q.audio pkt.ts).2 }] }
      (by
        intro p hp
        rcases List.mem_append.mp hp with h | h
        · exact hi.av p h
        · rw [List.mem_singleton.mp h]; exact hnew)
      hi.vv
      (by have := hi.la; simp only [List.length_append, List.length_singleton]; omega) (Nat.le_of_lt hi.lv)
    simp only [hv', Bool.false_eq_true, if_false]
    exact ⟨f1, by simpa using f2, f3, f4, f5⟩

theorem vproj_cons (p : AvPacket) (ps : List AvPacket) :
    vproj (p :: ps) = if p.isVideo then p :: vproj ps else vproj ps := by
  unfold vproj; simp only [List.filter_cons]

theorem aproj_cons (p : AvPacket) (ps : List AvPacket) :
    aproj (p :: ps) = if p.isVideo then aproj ps else p :: aproj ps := by
  unfold aproj; simp only [List.filter_cons]
  cases p.isVideo <;> simp

/-- Any number of `Feed` calls: per track, delivered ++ still queued = what was queued ++ the track's packets with
    the track's timestamp rewriting; nothing lost, nothing duplicated, order kept, payload untouched. -/
theorem feedAll_spec : ∀ (ps : List AvPacket) (q : Q), Inv q →
    Inv (feedAll true q ps).1
    ∧ vproj (feedAll true q ps).2 ++ (feedAll true q ps).1.videoQueue = q.videoQueue ++ rebase q.video (vproj ps)
    ∧ aproj (feedAll true q ps).2 ++ (feedAll true q ps).1.audioQueue = q.audioQueue ++ rebase q.audio (aproj ps)
    ∧ (feedAll true q ps).1.video = trackAfter q.video (vproj ps)
    ∧ (feedAll true q ps).1.audio = trackAfter q.audio (aproj ps)
  | [], q, hi => by simp [feedAll, vproj, aproj, rebase, trackAfter, hi]
  | p :: ps, q, hi => by
    obtain ⟨f1, f2, f3, f4, f5⟩ := feed_spec q p hi
    obtain ⟨g1, g2, g3, g4, g5⟩ := feedAll_spec ps (feed true q p).1 f1
    simp only [feedAll]
    refine ⟨g1, ?_, ?_, ?_, ?_⟩
    · rw [vproj_append, List.append_assoc, g2, ← List.append_assoc, f2, f4, vproj_cons]
      by_cases hv : p.isVideo = true
      · simp [hv, rebase]
      · simp [hv]
    · rw [aproj_append, List.append_assoc, g3, ← List.append_assoc, f3, f5, aproj_cons]
      by_cases hv : p.isVideo = true
      · simp [hv]
      · simp [hv, rebase]
    · rw [g4, f4, vproj_cons]
      by_cases hv : p.isVideo = true
      · simp [hv, trackAfter]
      · simp [hv]
    · rw [g5, f5, aproj_cons]
      by_cases hv : p.isVideo = true
      · simp [hv]
      · simp [hv, trackAfter]

/-! ### what the rewriting does to non-decreasing timestamps: re-base to zero -/

/-- each timestamp at least the previous one -/
def Mono : Int → List AvPacket → Prop
  | _, [] => True
  | prev, p :: ps => prev ≤ p.ts ∧ Mono p.ts ps

theorem rebase_mono (ts0 : Int) : ∀ (l : List AvPacket) (t : Track),
    t.prevOriginTs ≠ -1 → t.prevModTs = t.prevOriginTs - ts0 → 0 ≤ t.prevModTs → 0 ≤ t.prevOriginTs → Mono t.prevOriginTs l →
    rebase t l = l.map fun p => { p with ts := p.ts - ts0 }
  | [], _, _, _, _, _, _ => rfl
  | p :: ps, t, h1, h2, h3, h4, hm => by
    obtain ⟨hm1, hm2⟩ := hm
    have hr : rotateFn t p.ts = ({ prevOriginTs := p.ts, prevModTs := p.ts - ts0, prevIntervalTs := p.ts - t.prevOriginTs }, p.ts - ts0) := by
      unfold rotateFn
      rw [if_neg h1]
      have hi : ¬ (p.ts - t.prevOriginTs < -1000) := by omega
      simp only [hi, if_false]
      have hn : ¬ (t.prevModTs + (p.ts - t.prevOriginTs) < 0) := by omega
      simp only [hn, if_false]
      have : t.prevModTs + (p.ts - t.prevOriginTs) = p.ts - ts0 := by omega
      rw [this]
    simp only [rebase, List.map_cons, hr]
    rw [rebase_mono ts0 ps _ (by simp only []; omega) rfl (by simp only []; omega) (by simp only []; omega) hm2]

/-- A track whose source timestamps are non-negative and non-decreasing leaves the queue re-based to start at 0,
    every timestamp shifted by the same constant (the track's first timestamp). -/
theorem rebase_first (p : AvPacket) (ps : List AvPacket) (h0 : 0 ≤ p.ts) (hm : Mono p.ts ps) :
    rebase {} (p :: ps) = (p :: ps).map fun x => { x with ts := x.ts - p.ts } := by
  have hr : rotateFn {} p.ts = ({ prevOriginTs := p.ts, prevModTs := 0, prevIntervalTs := -1 }, 0) := by
    unfold rotateFn; simp
  simp only [rebase, List.map_cons, hr]
  rw [rebase_mono p.ts ps _ (by simp only []; omega) (by simp) (by simp) (by simpa using h0) hm]
  simp

/-! ### the merged output is non-decreasing in time -/

def Sorted (l : List AvPacket) : Prop := l.Pairwise fun a b => a.ts ≤ b.ts

structure MergeOut (aq vq : List AvPacket) (r : List AvPacket × List AvPacket × List AvPacket) : Prop where
  sorted : Sorted r.2.2
  below : ∀ e ∈ r.2.2, (∀ x ∈ r.1, e.ts ≤ x.ts) ∧ (∀ x ∈ r.2.1, e.ts ≤ x.ts)
  bounded : ∀ e ∈ r.2.2, (∃ a ∈ aq, e.ts ≤ a.ts) ∧ (∃ v ∈ vq, e.ts ≤ v.ts)
  mem : ∀ e ∈ r.2.2, e ∈ aq ∨ e ∈ vq
  suba : ∀ x ∈ r.1, x ∈ aq
  subv : ∀ x ∈ r.2.1, x ∈ vq

theorem mergeLoop_sorted (f : Bool) : ∀ (fuel : Nat) (aq vq : List AvPacket), Sorted aq → Sorted vq →
    MergeOut aq vq (mergeLoop f fuel aq vq) := by
  intro fuel
  induction fuel with
  | zero =>
    intro aq vq _ _
    simp only [mergeLoop]
    exact ⟨List.Pairwise.nil, by simp, by simp, by simp, fun x h => h, fun x h => h⟩
  | succ fuel ih =>
    intro aq vq sa sv
    cases aq with
    | nil => simp only [mergeLoop]; exact ⟨List.Pairwise.nil, by simp, by simp, by simp, fun x h => h, fun x h => h⟩
    | cons a aq' =>
      cases vq with
      | nil => simp only [mergeLoop]; exact ⟨List.Pairwise.nil, by simp, by simp, by simp, fun x h => h, fun x h => h⟩
      | cons v vq' =>
        have sa' : Sorted aq' := (List.pairwise_cons.mp sa).2
        have sv' : Sorted vq' := (List.pairwise_cons.mp sv).2
        have ha : ∀ x ∈ aq', a.ts ≤ x.ts := (List.pairwise_cons.mp sa).1
        have hv : ∀ x ∈ vq', v.ts ≤ x.ts := (List.pairwise_cons.mp sv).1
        have popA : a.ts ≤ v.ts → MergeOut (a :: aq') (v :: vq')
            ((mergeLoop f fuel aq' (v :: vq')).1, (mergeLoop f fuel aq' (v :: vq')).2.1, a :: (mergeLoop f fuel aq' (v :: vq')).2.2) := by
          intro hav
          have m := ih aq' (v :: vq') sa' sv
          have hle : ∀ x, x ∈ aq' ∨ x ∈ v :: vq' → a.ts ≤ x.ts := by
            intro x hx
            rcases hx with h | h
            · exact ha x h
            · rcases List.mem_cons.mp h with h | h
              · rw [h]; exact hav
              · exact Int.le_trans hav (hv x h)
          refine ⟨?_, ?_, ?_, ?_, fun x h => List.mem_cons_of_mem _ (m.suba x h), m.subv⟩
          · exact List.pairwise_cons.mpr ⟨fun e he => hle e (m.mem e he), m.sorted⟩
          · intro e he
            rcases List.mem_cons.mp he with h | h
            · subst h
              exact ⟨fun x hx => hle x (Or.inl (m.suba x hx)), fun x hx => hle x (Or.inr (m.subv x hx))⟩
            · exact m.below e h
          · intro e he
            rcases List.mem_cons.mp he with h | h
            · subst h
              exact ⟨⟨e, List.mem_cons_self .., Int.le_refl _⟩, ⟨v, List.mem_cons_self .., hav⟩⟩
            · obtain ⟨⟨a0, ha0, h1⟩, h2⟩ := m.bounded e h
              exact ⟨⟨a0, List.mem_cons_of_mem _ ha0, h1⟩, h2⟩
          · intro e he
            rcases List.mem_cons.mp he with h | h
            · subst h; exact Or.inl (List.mem_cons_self ..)
            · rcases m.mem e h with h | h
              · exact Or.inl (List.mem_cons_of_mem _ h)
              · exact Or.inr h
        have popV : v.ts ≤ a.ts → MergeOut (a :: aq') (v :: vq')
            ((mergeLoop f fuel (a :: aq') vq').1, (mergeLoop f fuel (a :: aq') vq').2.1, v :: (mergeLoop f fuel (a :: aq') vq').2.2) := by
          intro hva
          have m := ih (a :: aq') vq' sa sv'
          have hle : ∀ x, x ∈ a :: aq' ∨ x ∈ vq' → v.ts ≤ x.ts := by
            intro x hx
            rcases hx with h | h
            · rcases List.mem_cons.mp h with h | h
              · rw [h]; exact hva
              · exact Int.le_trans hva (ha x h)
            · exact hv x h
          refine ⟨?_, ?_, ?_, ?_, m.suba, fun x h => List.mem_cons_of_mem _ (m.subv x h)⟩
          · exact List.pairwise_cons.mpr ⟨fun e he => hle e (m.mem e he), m.sorted⟩
          · intro e he
            rcases List.mem_cons.mp he with h | h
            · subst h
              exact ⟨fun x hx => hle x (Or.inl (m.suba x hx)), fun x hx => hle x (Or.inr (m.subv x hx))⟩
            · exact m.below e h
          · intro e he
            rcases List.mem_cons.mp he with h | h
            · subst h
              exact ⟨⟨a, List.mem_cons_self .., hva⟩, ⟨e, List.mem_cons_self .., Int.le_refl _⟩⟩
            · obtain ⟨h1, ⟨v0, hv0, h2⟩⟩ := m.bounded e h
              exact ⟨h1, ⟨v0, List.mem_cons_of_mem _ hv0, h2⟩⟩
          · intro e he
            rcases List.mem_cons.mp he with h | h
            · subst h; exact Or.inr (List.mem_cons_self ..)
            · rcases m.mem e h with h | h
              · exact Or.inl h
              · exact Or.inr (List.mem_cons_of_mem _ h)
        simp only [mergeLoop]
        by_cases h1 : a.ts < v.ts
        · simp only [h1, if_true]
          exact popA (Int.le_of_lt h1)
        · simp only [h1, if_false]
          by_cases h2 : a.ts > v.ts
          · simp only [h2, if_true]
            exact popV (Int.le_of_lt h2)
          · simp only [h2, if_false]
            cases f
            · simp only [Bool.false_eq_true, if_false]
              exact popA (by omega)
            · simp only [if_true]
              exact popV (by omega)

/-- everything the video / audio track will still hand out: queued packets, then the packets to come, re-stamped -/
def futV (q : Q) (ps : List AvPacket) : List AvPacket := q.videoQueue ++ rebase q.video (vproj ps)
def futA (q : Q) (ps : List AvPacket) : List AvPacket := q.audioQueue ++ rebase q.audio (aproj ps)

theorem fut_push (q : Q) (p : AvPacket) (ps : List AvPacket) (hi : Inv q) :
    futV (adjustTsHandleRotate q p).1 ps = futV q (p :: ps) ∧ futA (adjustTsHandleRotate q p).1 ps = futA q (p :: ps) := by
  unfold futV futA adjustTsHandleRotate
  by_cases hv : p.isVideo = true
  · simp only [hv, if_true, pushBack_ok _ _ hi.lv, vproj_cons, aproj_cons, rebase, List.append_assoc, List.cons_append, List.nil_append]
    trivial
  · have hv' : p.isVideo = false := by simpa using hv
    simp only [hv', Bool.false_eq_true, if_false, pushBack_ok _ _ hi.la, vproj_cons, aproj_cons, rebase, List.append_assoc, List.cons_append, List.nil_append]
    trivial

/-- no queue reaches its capacity in this `Feed` (a full queue is flushed regardless of the other track) -/
def noFlushStep (q : Q) (p : AvPacket) : Prop :=
  (mergeLoop (adjustTsHandleRotate q p).2.isAudio
      ((adjustTsHandleRotate q p).1.audioQueue.length + (adjustTsHandleRotate q p).1.videoQueue.length)
      (adjustTsHandleRotate q p).1.audioQueue (adjustTsHandleRotate q p).1.videoQueue).1.length < maxQueueSize ∧
  (mergeLoop (adjustTsHandleRotate q p).2.isAudio
      ((adjustTsHandleRotate q p).1.audioQueue.length + (adjustTsHandleRotate q p).1.videoQueue.length)
      (adjustTsHandleRotate q p).1.audioQueue (adjustTsHandleRotate q p).1.videoQueue).2.1.length < maxQueueSize

def NoFlush : Q → List AvPacket → Prop
  | _, [] => True
  | q, p :: ps => noFlushStep q p ∧ NoFlush (feed true q p).1 ps

theorem sorted_of_suffix {l₁ l₂ : List AvPacket} (h : Sorted (l₁ ++ l₂)) : Sorted l₂ := (List.pairwise_append.mp h).2.1
theorem sorted_of_prefix {l₁ l₂ : List AvPacket} (h : Sorted (l₁ ++ l₂)) : Sorted l₁ := (List.pairwise_append.mp h).1

/-- The merge of one `Feed` (no flush), against everything still to come. -/
theorem finish_sorted (f : Bool) (a : Q) (ps : List AvPacket)
    (ha : ∀ p ∈ a.audioQueue, p.isVideo = false) (hv : ∀ p ∈ a.videoQueue, p.isVideo = true)
    (sv : Sorted (futV a ps)) (sa : Sorted (futA a ps))
    (hnf : (mergeLoop f (a.audioQueue.length + a.videoQueue.length) a.audioQueue a.videoQueue).1.length < maxQueueSize ∧
           (mergeLoop f (a.audioQueue.length + a.videoQueue.length) a.audioQueue a.videoQueue).2.1.length < maxQueueSize) :
    Sorted (finish f a).2
    ∧ (∀ e ∈ (finish f a).2, e ∈ futV a ps ∨ e ∈ futA a ps)
    ∧ (∀ e ∈ (finish f a).2, (∀ x ∈ futV (finish f a).1 ps, e.ts ≤ x.ts) ∧ (∀ x ∈ futA (finish f a).1 ps, e.ts ≤ x.ts))
    ∧ (∃ pre, futV a ps = pre ++ futV (finish f a).1 ps) ∧ (∃ pre, futA a ps = pre ++ futA (finish f a).1 ps) := by
  obtain ⟨m1, m2, _, _, _⟩ := mergeLoop_spec f (a.audioQueue.length + a.videoQueue.length) a.audioQueue a.videoQueue ha hv
  have mo := mergeLoop_sorted f (a.audioQueue.length + a.videoQueue.length) a.audioQueue a.videoQueue
    (sorted_of_prefix sa) (sorted_of_prefix sv)
  have hfin : finish f a = ({ a with audioQueue := (mergeLoop f (a.audioQueue.length + a.videoQueue.length) a.audioQueue a.videoQueue).1,
                                     videoQueue := (mergeLoop f (a.audioQueue.length + a.videoQueue.length) a.audioQueue a.videoQueue).2.1 },
                            (mergeLoop f (a.audioQueue.length + a.videoQueue.length) a.audioQueue a.videoQueue).2.2) := by
    unfold finish
    simp only []
    rw [if_neg (by omega), if_neg (by omega)]
  rw [hfin]
  have hpa := (List.pairwise_append.mp sa).2.2
  have hpv := (List.pairwise_append.mp sv).2.2
  refine ⟨mo.sorted, ?_, ?_, ?_, ?_⟩
  · intro e he
    rcases mo.mem e he with h | h
    · exact Or.inr (List.mem_append_left _ h)
    · exact Or.inl (List.mem_append_left _ h)
  · intro e he
    obtain ⟨⟨a0, ha0, h1⟩, ⟨v0, hv0, h2⟩⟩ := mo.bounded e he
    constructor
    · intro x hx
      rcases List.mem_append.mp hx with h | h
      · exact (mo.below e he).2 x h
      · exact Int.le_trans h2 (hpv v0 hv0 x h)
    · intro x hx
      rcases List.mem_append.mp hx with h | h
      · exact (mo.below e he).1 x h
      · exact Int.le_trans h1 (hpa a0 ha0 x h)
  · refine ⟨vproj (mergeLoop f (a.audioQueue.length + a.videoQueue.length) a.audioQueue a.videoQueue).2.2, ?_⟩
    simp only [futV]
    rw [← List.append_assoc, m2]
  · refine ⟨aproj (mergeLoop f (a.audioQueue.length + a.videoQueue.length) a.audioQueue a.videoQueue).2.2, ?_⟩
    simp only [futA]
    rw [← List.append_assoc, m1]

/-- `avqueue_monotone`, generalised to any state reached: as long as no queue fills up, and the two tracks' re-stamped
    timestamps are each non-decreasing, the merged output is non-decreasing in time. -/
theorem feedAll_sorted : ∀ (ps : List AvPacket) (q : Q), Inv q → Sorted (futV q ps) → Sorted (futA q ps) → NoFlush q ps →
    Sorted (feedAll true q ps).2 ∧ ∀ e ∈ (feedAll true q ps).2, e ∈ futV q ps ∨ e ∈ futA q ps
  | [], _, _, _, _, _ => by simp [feedAll, Sorted]
  | p :: ps, q, hi, sv, sa, hnf => by
    obtain ⟨hn1, hn2⟩ := hnf
    obtain ⟨fp1, fp2⟩ := fut_push q p ps hi
    have hi' := (feed_spec q p hi).1
    -- typing of the queues after the push
    have hty : (∀ x ∈ (adjustTsHandleRotate q p).1.audioQueue, x.isVideo = false) ∧ (∀ x ∈ (adjustTsHandleRotate q p).1.videoQueue, x.isVideo = true) := by
      unfold adjustTsHandleRotate
      by_cases hv : p.isVideo = true
      · simp only [hv, if_true, pushBack_ok _ _ hi.lv]
        refine ⟨hi.av, ?_⟩
        intro x hx
        rcases List.mem_append.mp hx with h | h
        · exact hi.vv x h
        · rw [List.mem_singleton.mp h]; exact hv
      · have hv' : p.isVideo = false := by simpa using hv
        simp only [hv', Bool.false_eq_true, if_false, pushBack_ok _ _ hi.la]
        refine ⟨?_, hi.vv⟩
        intro x hx
        rcases List.mem_append.mp hx with h | h
        · exact hi.av x h
        · rw [List.mem_singleton.mp h]; exact hv'
    obtain ⟨s1, s2, s3, ⟨prev, s4⟩, ⟨prea, s5⟩⟩ := finish_sorted (adjustTsHandleRotate q p).2.isAudio (adjustTsHandleRotate q p).1 ps
      hty.1 hty.2 (by rw [fp1]; exact sv) (by rw [fp2]; exact sa) hn1
    rw [← feed_eq_finish] at s1 s2 s3 s4 s5
    rw [fp1] at s2 s4
    rw [fp2] at s2 s5
    obtain ⟨i1, i2⟩ := feedAll_sorted ps (feed true q p).1 hi'
      (by rw [s4] at sv; exact sorted_of_suffix sv) (by rw [s5] at sa; exact sorted_of_suffix sa) hn2
    simp only [feedAll]
    constructor
    · refine List.pairwise_append.mpr ⟨s1, i1, ?_⟩
      intro e he x hx
      rcases i2 x hx with h | h
      · exact (s3 e he).1 x h
      · exact (s3 e he).2 x h
    · intro e he
      rcases List.mem_append.mp he with h | h
      · exact s2 e h
      · rcases i2 e h with h | h
        · exact Or.inl (by rw [s4]; exact List.mem_append_right _ h)
        · exact Or.inr (by rw [s5]; exact List.mem_append_right _ h)

theorem mono_sorted : ∀ (l : List AvPacket) (prev : Int), Mono prev l → Sorted l ∧ ∀ x ∈ l, prev ≤ x.ts
  | [], _, _ => ⟨List.Pairwise.nil, by simp⟩
  | p :: ps, prev, h => by
    obtain ⟨h1, h2⟩ := h
    obtain ⟨i1, i2⟩ := mono_sorted ps p.ts h2
    refine ⟨List.pairwise_cons.mpr ⟨i2, i1⟩, ?_⟩
    intro x hx
    rcases List.mem_cons.mp hx with h | h
    · rw [h]; exact h1
    · exact Int.le_trans h1 (i2 x h)

/-- non-negative, non-decreasing source timestamps stay non-decreasing after the re-stamping -/
theorem sorted_rebase_of_mono (p : AvPacket) (ps : List AvPacket) (h0 : 0 ≤ p.ts) (hm : Mono p.ts ps) :
    Sorted (rebase {} (p :: ps)) := by
  rw [rebase_first p ps h0 hm]
  have hs : Sorted (p :: ps) := (mono_sorted (p :: ps) p.ts ⟨Int.le_refl _, hm⟩).1
  unfold Sorted at hs ⊢
  rw [List.pairwise_map]
  exact hs.imp (fun h => by simp only []; omega)

instance decNoFlush : (q : Q) → (ps : List AvPacket) → Decidable (NoFlush q ps)
  | _, [] => isTrue trivial
  | q, p :: ps => by
    unfold NoFlush noFlushStep
    exact @instDecidableAnd _ _ inferInstance (decNoFlush (feed true q p).1 ps)

instance (l : List AvPacket) : Decidable (Sorted l) := by unfold Sorted; infer_instance

end Lal.AvQueue
