import LalModel.Proof.Amf0Top
/- Encodings nested deeper than the limit are refused with an error (helper lemmas for Props/C18.lean). -/
namespace Lal.Amf0
open Lal

mutual
theorem read_deep (lim : Nat) : (v : Amf) → wf v = true →
    ∀ (fuel stack d : Nat) (b : Bytes) (index : Nat) (k : Bytes) (ops : Opa) (rest : Bytes),
    b.drop index = enc v ++ rest → rcost v ≤ fuel → lim ≤ stack + d → d ≤ lim → lim < d + depth v →
    read lim fuel stack d b index k ops = .error .err
  | .num _, _, _, _, _, _, _, _, _, _, _, _, _, hl, hdeep => by simp only [depth] at hdeep; omega
  | .bool _, _, _, _, _, _, _, _, _, _, _, _, _, hl, hdeep => by simp only [depth] at hdeep; omega
  | .str _, _, _, _, _, _, _, _, _, _, _, _, _, hl, hdeep => by simp only [depth] at hdeep; omega
  | .null, _, _, _, _, _, _, _, _, _, _, _, _, hl, hdeep => by simp only [depth] at hdeep; omega
  | .undef, _, _, _, _, _, _, _, _, _, _, _, _, hl, hdeep => by simp only [depth] at hdeep; omega
  | .obj kvs, hw, fuel, stack, d, b, index, k, ops, rest, h, hf, hs, hl, hdeep => by
    simp only [wf] at hw
    simp only [rcost] at hf
    simp only [depth] at hdeep
    obtain ⟨f, rfl⟩ : ∃ f, fuel = f + 1 := ⟨fuel - 1, by omega⟩
    simp only [enc, List.cons_append, List.nil_append, List.append_assoc] at h
    rw [read_head h]
    by_cases hge : d ≥ lim
    · rw [if_pos ⟨Or.inl rfl, hge⟩]
    · obtain ⟨st, rfl⟩ : ∃ st, stack = st + 1 := ⟨stack - 1, by omega⟩
      have hlp := (kvs_deep lim kvs hw f st (d + 1) (0x03 :: (encKvs kvs ++ (0 :: 0 :: 9 :: rest))) 1 [] rest
        (by simp) (by omega) (by omega) (by omega) (by omega)).1
      rw [if_neg (by omega), if_neg (by decide), if_neg (by decide), if_neg (by decide),
        if_neg (by decide), if_pos rfl]
      dsimp only
      rw [readObjectHdr_enc]
      dsimp only
      rw [hlp]
  | .ecma kvs, hw, fuel, stack, d, b, index, k, ops, rest, h, hf, hs, hl, hdeep => by
    simp only [wf, Bool.and_eq_true, decide_eq_true_eq] at hw
    simp only [rcost] at hf
    simp only [depth] at hdeep
    obtain ⟨f, rfl⟩ : ∃ f, fuel = f + 1 := ⟨fuel - 1, by omega⟩
    simp only [enc, List.cons_append, List.nil_append, List.append_assoc] at h
    rw [read_head h]
    by_cases hge : d ≥ lim
    · rw [if_pos ⟨Or.inr (Or.inl rfl), hge⟩]
    · obtain ⟨st, rfl⟩ : ∃ st, stack = st + 1 := ⟨stack - 1, by omega⟩
      have hlp := (kvs_deep lim kvs hw.2 f st (d + 1) (0x08 :: (be32 kvs.length ++ (encKvs kvs ++ (0 :: 0 :: 9 :: rest)))) 5 [] rest
        (by simp [be32]) (by omega) (by omega) (by omega) (by omega)).2
      rw [if_neg (by omega), if_neg (by decide), if_neg (by decide), if_neg (by decide),
        if_neg (by decide), if_neg (by decide), if_pos rfl]
      dsimp only
      rw [readArrayHdr_enc _ _ _ hw.1]
      dsimp only
      rw [hlp]
  | .strict vs, hw, fuel, stack, d, b, index, k, ops, rest, h, hf, hs, hl, hdeep => by
    simp only [wf, Bool.and_eq_true, decide_eq_true_eq] at hw
    simp only [rcost] at hf
    simp only [depth] at hdeep
    obtain ⟨f, rfl⟩ : ∃ f, fuel = f + 1 := ⟨fuel - 1, by omega⟩
    simp only [enc, List.cons_append, List.append_assoc] at h
    rw [read_head h]
    by_cases hge : d ≥ lim
    · rw [if_pos ⟨Or.inr (Or.inr rfl), hge⟩]
    · obtain ⟨st, rfl⟩ : ∃ st, stack = st + 1 := ⟨stack - 1, by omega⟩
      have hlp := vs_deep lim vs hw.2 f st (d + 1) (0x0a :: (be32 vs.length ++ (encVs vs ++ rest))) 5 [] rest
        (by simp [be32]) (by omega) (by omega) (by omega) (by omega)
      rw [if_neg (by omega), if_neg (by decide), if_neg (by decide), if_neg (by decide),
        if_neg (by decide), if_neg (by decide), if_neg (by decide), if_pos rfl]
      dsimp only
      rw [readArrayHdr_enc _ _ _ hw.1]
      dsimp only
      rw [hlp]

theorem kvs_deep (lim : Nat) : (kvs : List (Bytes × Amf)) → wfKvs kvs = true →
    ∀ (fuel stack d : Nat) (b : Bytes) (index : Nat) (ops : Opa) (rest : Bytes),
    b.drop index = encKvs kvs ++ (0 :: 0 :: 9 :: rest) → kcost kvs ≤ fuel → lim ≤ stack + d → d ≤ lim →
    lim < d + depthKvs kvs →
    objLoop lim fuel stack d b index ops = .error .err ∧
    arrLoop lim fuel stack d b kvs.length index ops = .error .err
  | [], _, _, _, _, _, _, _, _, _, _, _, hl, hdeep => by simp only [depthKvs] at hdeep; omega
  | (k, v) :: r, hw, fuel, stack, d, b, index, ops, rest, h, hf, hs, hl, hdeep => by
    obtain ⟨hk, hv, hr⟩ := wfKvs_cons hw
    simp only [kcost] at hf
    simp only [depthKvs] at hdeep
    obtain ⟨f, rfl⟩ : ∃ f, fuel = f + 1 := ⟨fuel - 1, by omega⟩
    simp only [encKvs, List.append_assoc] at h
    have h2 : b.drop (index + (2 + k.length)) = enc v ++ (encKvs r ++ (0 :: 0 :: 9 :: rest)) := by
      have := drop_drop_of (p := be16 k.length ++ k) (t := enc v ++ (encKvs r ++ (0 :: 0 :: 9 :: rest)))
        (by rw [h]; simp)
      simpa [Nat.add_comm] using this
    rw [objLoop_pair h hk, List.length_cons, arrLoop_pair h hk]
    by_cases hfit : d + depth v ≤ lim
    · have hv' := read_enc lim v hv f stack d b (index + (2 + k.length)) k ops _ h2 (by omega) (by omega) hfit
      have h3 : b.drop (index + (2 + k.length) + (enc v).length) = encKvs r ++ (0 :: 0 :: 9 :: rest) :=
        drop_drop_of h2
      have hr' := kvs_deep lim r hr f stack d b (index + (2 + k.length) + (enc v).length) (ops ++ member k v) rest h3
        (by omega) hs hl (by omega)
      rw [hv']
      exact hr'
    · have hv' := read_deep lim v hv f stack d b (index + (2 + k.length)) k ops _ h2 (by omega) hs hl (by omega)
      rw [hv']
      exact ⟨rfl, rfl⟩

theorem vs_deep (lim : Nat) : (vs : List Amf) → wfVs vs = true →
    ∀ (fuel stack d : Nat) (b : Bytes) (index : Nat) (ops : Opa) (rest : Bytes),
    b.drop index = encVs vs ++ rest → vcost vs ≤ fuel → lim ≤ stack + d → d ≤ lim → lim < d + depthVs vs →
    strictLoop lim fuel stack d b vs.length index ops = .error .err
  | [], _, _, _, _, _, _, _, _, _, _, _, hl, hdeep => by simp only [depthVs] at hdeep; omega
  | v :: r, hw, fuel, stack, d, b, index, ops, rest, h, hf, hs, hl, hdeep => by
    obtain ⟨hv, hr⟩ := wfVs_cons hw
    simp only [vcost] at hf
    simp only [depthVs] at hdeep
    obtain ⟨f, rfl⟩ : ∃ f, fuel = f + 1 := ⟨fuel - 1, by omega⟩
    simp only [encVs, List.append_assoc] at h
    rw [List.length_cons, strictLoop.eq_def]
    dsimp only
    by_cases hfit : d + depth v ≤ lim
    · have hv' := read_enc lim v hv f stack d b index [] ops _ h (by omega) (by omega) hfit
      have h3 : b.drop (index + (enc v).length) = encVs r ++ rest := drop_drop_of h
      have hr' := vs_deep lim r hr f stack d b (index + (enc v).length) (ops ++ member [] v) rest h3
        (by omega) hs hl (by omega)
      rw [hv']
      exact hr'
    · have hv' := read_deep lim v hv f stack d b index [] ops _ h (by omega) hs hl (by omega)
      rw [hv']
end

/-- a well-formed tree nested deeper than the limit is refused by the reader its marker selects -/
theorem readValue_deep (lim stack : Nat) (v : Amf) (rest : Bytes) (hw : wf v = true) (h1 : 1 ≤ lim)
    (hs : lim ≤ stack + 1) (hd : lim < depth v) :
    readValue lim stack (enc v ++ rest) = .error .err := by
  cases v with
  | num _ => simp [depth] at hd
  | bool _ => simp [depth] at hd
  | str _ => simp [depth] at hd
  | null => simp [depth] at hd
  | undef => simp [depth] at hd
  | obj kvs =>
    simp only [wf] at hw
    simp only [depth] at hd
    have hc := encKvs_cost kvs
    have e : enc (.obj kvs) ++ rest = 0x03 :: (encKvs kvs ++ 0 :: 0 :: 9 :: rest) := by simp [enc]
    have hlp := (kvs_deep lim kvs hw (fuelFor (0x03 :: (encKvs kvs ++ 0 :: 0 :: 9 :: rest))) stack 1
      (0x03 :: (encKvs kvs ++ 0 :: 0 :: 9 :: rest)) 1 [] rest
      (by simp) (by simp [fuelFor]; omega) hs h1 (by omega)).1
    rw [e]
    simp only [readValue]
    simp [readObject, readObjectHdr_enc, hlp]
  | ecma kvs =>
    simp only [wf, Bool.and_eq_true, decide_eq_true_eq] at hw
    simp only [depth] at hd
    have hc := encKvs_cost kvs
    have e : enc (.ecma kvs) ++ rest = 0x08 :: (be32 kvs.length ++ (encKvs kvs ++ 0 :: 0 :: 9 :: rest)) := by simp [enc]
    have hlp := (kvs_deep lim kvs hw.2 (fuelFor (0x08 :: (be32 kvs.length ++ (encKvs kvs ++ 0 :: 0 :: 9 :: rest)))) stack 1
      (0x08 :: (be32 kvs.length ++ (encKvs kvs ++ 0 :: 0 :: 9 :: rest))) 5 [] rest
      (by simp [be32]) (by simp [fuelFor]; omega) hs h1 (by omega)).2
    have hh := readArrayHdr_enc 0x08 kvs.length (encKvs kvs ++ 0 :: 0 :: 9 :: rest) hw.1
    rw [e]
    simp only [readValue]
    simp [readArray, hh, hlp]
  | strict vs =>
    simp only [wf, Bool.and_eq_true, decide_eq_true_eq] at hw
    simp only [depth] at hd
    have hc := encVs_cost vs
    have e : enc (.strict vs) ++ rest = 0x0a :: (be32 vs.length ++ (encVs vs ++ rest)) := by simp [enc]
    have hlp := vs_deep lim vs hw.2 (fuelFor (0x0a :: (be32 vs.length ++ (encVs vs ++ rest)))) stack 1
      (0x0a :: (be32 vs.length ++ (encVs vs ++ rest))) 5 [] rest
      (by simp [be32]) (by simp [fuelFor]; omega) hs h1 (by omega)
    have hh := readArrayHdr_enc 0x0a vs.length (encVs vs ++ rest) hw.1
    rw [e]
    simp only [readValue]
    simp [readStrictArray, hh, hlp]

end Lal.Amf0
