import LalModel.Proof.Amf0Top
/- metadata.go, lal's writers, and injectivity of the Go-side image on what lal writes
   (helper lemmas for Props/C18.lean). -/
namespace Lal.Amf0
open Lal

theorem readString_cases (b : Bytes) :
    readString b = .error .err ∨ ∃ v l, readString b = .ok (v, l) ∧ 3 ≤ l ∧ l ≤ b.length := by
  have h := readString_bd b
  cases hr : readString b with
  | error e => rw [hr] at h; cases e <;> simp_all [Bd]
  | ok p => obtain ⟨v, l⟩ := p; rw [hr] at h; exact Or.inr ⟨v, l, rfl, h⟩

theorem sdfPrefix_length : sdfPrefix.length = 16 := by decide

theorem readString_sdfPrefix (rest : Bytes) : readString (sdfPrefix ++ rest) = .ok (sdfName, 16) := by
  have := readString_enc sdfName rest (by decide)
  rw [show (writeString sdfName).length = 16 from sdfPrefix_length] at this
  exact this

/-- stripping the prefix returns the remaining bytes exactly -/
theorem without_prefix (rest : Bytes) : metadataEnsureWithoutSdf (sdfPrefix ++ rest) = .ok (rest, false) := by
  unfold metadataEnsureWithoutSdf
  rw [readString_sdfPrefix]
  dsimp only
  rw [if_neg (by simp), from?_of_le (by simp [sdfPrefix_length])]
  rw [← sdfPrefix_length, List.drop_left]

theorem with_notPanic (b : Bytes) : isPanic (metadataEnsureWithSdf b) = false := by
  unfold metadataEnsureWithSdf
  rcases readString_cases b with h | ⟨v, l, h, _, _⟩ <;> rw [h] <;> dsimp only
  · rfl
  · split <;> rfl

theorem without_notPanic (b : Bytes) : isPanic (metadataEnsureWithoutSdf b) = false := by
  unfold metadataEnsureWithoutSdf
  rcases readString_cases b with h | ⟨v, l, h, _, hl⟩ <;> rw [h] <;> dsimp only
  · rfl
  · split
    · rfl
    · rw [from?_of_le hl]; rfl

/-- `MetadataEnsureWithoutSdf ∘ MetadataEnsureWithSdf` and `MetadataEnsureWithoutSdf` return the same bytes -/
theorem with_without (b : Bytes) :
    ∃ w e x e' e'', metadataEnsureWithSdf b = .ok (w, e) ∧ metadataEnsureWithoutSdf w = .ok (x, e') ∧
      metadataEnsureWithoutSdf b = .ok (x, e'') := by
  rcases readString_cases b with h | ⟨v, l, h, _, hl⟩
  · refine ⟨b, true, b, true, true, ?_, ?_, ?_⟩ <;> simp [metadataEnsureWithSdf, metadataEnsureWithoutSdf, h]
  · by_cases hv : v = sdfName
    · refine ⟨b, false, b.drop l, false, false, ?_, ?_, ?_⟩
      · simp [metadataEnsureWithSdf, h, hv]
      · simp [metadataEnsureWithoutSdf, h, hv, from?, hl]
      · simp [metadataEnsureWithoutSdf, h, hv, from?, hl]
    · refine ⟨sdfPrefix ++ b, false, b, false, false, ?_, without_prefix b, ?_⟩
      · simp [metadataEnsureWithSdf, h, hv]
      · simp [metadataEnsureWithoutSdf, h, hv]

/-- adding the prefix keeps the metadata bytes exactly -/
theorem with_adds_prefix (b : Bytes) (v : Bytes) (l : Nat) (h : readString b = .ok (v, l)) (hv : v ≠ sdfName) :
    metadataEnsureWithSdf b = .ok (sdfPrefix ++ b, false) := by
  simp [metadataEnsureWithSdf, h, hv]

theorem parseMetadata_notPanic (lim stack : Nat) (b : Bytes) (hs : lim ≤ stack + 1) :
    isPanic (parseMetadata lim stack b) = false := by
  unfold parseMetadata
  rw [from?_of_le (Nat.zero_le _)]
  dsimp only
  rw [List.drop_zero]
  rcases readString_cases b with h | ⟨v, l, h, _, hl⟩ <;> rw [h] <;> dsimp only
  · rfl
  · have key : ∀ pos, pos ≤ b.length →
        isPanic (match from? "ParseMetadata:b[pos:]" b pos with
          | .error e => (.error e : GoM Opa)
          | .ok s2 =>
            match readObjectOrArray lim stack s2 with
            | .error e => .error e
            | .ok (opa, _) => .ok opa) = false := by
      intro pos hp
      rw [from?_of_le hp]
      dsimp only
      have := (readObjectOrArray_bd lim stack (b.drop pos) hs).notPanic
      cases hr : readObjectOrArray lim stack (List.drop pos b) with
      | error e => rw [hr] at this; cases e <;> simp_all [isPanic]
      | ok p => rfl
    by_cases hv : v = sdfName
    · rw [if_pos hv, Nat.zero_add, from?_of_le hl]
      dsimp only
      rcases readString_cases (b.drop l) with h1 | ⟨v1, l1, h1, _, hl1⟩ <;> rw [h1] <;> dsimp only
      · rfl
      · rw [List.length_drop] at hl1
        exact key (l + l1) (by omega)
    · rw [if_neg hv]
      dsimp only
      rw [Nat.zero_add]
      exact key l hl

/-! ### lal's writers -/

/-- members of an object lal can write: short key, scalar well-formed value -/
def flatOK (kvs : List (Bytes × Amf)) : Bool :=
  kvs.all fun kv => decide (kv.1.length < 65536) && (scalarValue kv.2 && wf kv.2)

theorem writeObjectPairs_eq : (kvs : List (Bytes × Amf)) → (kvs.all fun kv => scalarValue kv.2) = true →
    writeObjectPairs kvs = some (encKvs kvs)
  | [], _ => rfl
  | (k, v) :: r, h => by
    simp only [List.all_cons, Bool.and_eq_true] at h
    have ih := writeObjectPairs_eq r h.2
    cases v <;> simp_all [writeObjectPairs, writeObjectValue, scalarValue, encKvs, enc]

theorem write_eq_enc (v : Amf) (h : lalWritable v = true) : write v = some (enc v) := by
  cases v with
  | obj kvs =>
    simp only [lalWritable] at h
    simp [write, writeObject, writeObjectPairs_eq kvs h, enc]
  | _ => simp_all [write, lalWritable, enc, writeNull]

theorem flatOK_spec : (kvs : List (Bytes × Amf)) → flatOK kvs = true →
    wfKvs kvs = true ∧ depthKvs kvs = 0 ∧ (kvs.all fun kv => scalarValue kv.2) = true
  | [], _ => by simp [wfKvs, depthKvs]
  | (k, v) :: r, h => by
    simp only [flatOK, List.all_cons, Bool.and_eq_true, decide_eq_true_eq] at h
    have ih := flatOK_spec r (by simpa [flatOK] using h.2)
    obtain ⟨⟨hk, hsv, hwv⟩, _⟩ := h
    have hd : depth v = 0 := by cases v <;> simp_all [scalarValue, depth]
    simp [wfKvs, depthKvs, hk, hwv, hsv, hd, ih.1, ih.2.1, ih.2.2]

/-- `ParseMetadata` of "name string ++ flat object": the object's members -/
theorem parseMetadata_name_object (lim stack : Nat) (name : Bytes) (kvs : List (Bytes × Amf))
    (hn : name.length < 4294967296) (hne : name ≠ sdfName) (hk : flatOK kvs = true) (hl : 1 ≤ lim) :
    parseMetadata lim stack (writeString name ++ enc (.obj kvs)) = .ok (members kvs) := by
  obtain ⟨hw, hd, _⟩ := flatOK_spec kvs hk
  have ho := readObject_enc lim stack kvs [] hw (by omega) (by omega)
  rw [List.append_nil] at ho
  have hm : ∃ t, enc (.obj kvs) = 0x03 :: t := ⟨encKvs kvs ++ [0, 0, 9], by simp [enc]⟩
  obtain ⟨t, ht⟩ := hm
  unfold parseMetadata
  rw [from?_of_le (Nat.zero_le _)]
  dsimp only
  rw [List.drop_zero, readString_enc name _ hn]
  dsimp only
  rw [if_neg hne]
  dsimp only
  rw [Nat.zero_add, from?_of_le (by simp), List.drop_left]
  dsimp only
  unfold readObjectOrArray
  rw [if_neg (by rw [ht]; simp), idx?_of_lt (by rw [ht]; simp)]
  simp only [ht, List.getElem_cons_zero, if_true]
  rw [← ht, ho]

theorem readNull_notPanic (b : Bytes) : isPanic (readNull b) = false := by
  unfold readNull
  by_cases h : b.length < 1
  · simp [h, isPanic]
  · rw [if_neg h, idx?_of_lt (by omega)]
    dsimp only
    split <;> rfl

theorem readNull_consumed (b : Bytes) (n : Nat) (h : readNull b = .ok n) : n = 1 ∧ n ≤ b.length := by
  unfold readNull at h
  by_cases hl : b.length < 1
  · simp [hl] at h
  · rw [if_neg hl, idx?_of_lt (by omega)] at h
    dsimp only at h
    split at h
    · cases h
    · cases h; omega

theorem depthKvs_scalar : (kvs : List (Bytes × Amf)) → (kvs.all fun kv => scalarValue kv.2) = true → depthKvs kvs = 0
  | [], _ => rfl
  | (k, v) :: r, h => by
    simp only [List.all_cons, Bool.and_eq_true] at h
    have ih := depthKvs_scalar r h.2
    cases v <;> simp_all [scalarValue, depthKvs, depth]

theorem depth_lalWritable (v : Amf) (h : lalWritable v = true) : depth v ≤ 1 := by
  cases v with
  | obj kvs =>
    simp only [lalWritable] at h
    simp [depth, depthKvs_scalar kvs h]
  | _ => simp_all [depth, lalWritable]

/-! ### the Go-side image is injective on what lal writes -/

theorem members_inj : (a b : List (Bytes × Amf)) → (a.all fun kv => scalarValue kv.2) = true →
    (b.all fun kv => scalarValue kv.2) = true → members a = members b → a = b
  | [], [], _, _, _ => rfl
  | [], (k, v) :: r, _, hb, h => by
    simp only [List.all_cons, Bool.and_eq_true] at hb
    cases v <;> simp_all [members, member, scalarValue]
  | (k, v) :: r, [], ha, _, h => by
    simp only [List.all_cons, Bool.and_eq_true] at ha
    cases v <;> simp_all [members, member, scalarValue]
  | (k, v) :: r, (k', v') :: r', ha, hb, h => by
    simp only [List.all_cons, Bool.and_eq_true] at ha hb
    have ih := members_inj r r' ha.2 hb.2
    cases v <;> cases v' <;> simp_all [members, member, scalarValue]

theorem top_inj (v w : Amf) (hv : lalWritable v = true) (hw : lalWritable w = true) (h : top v = top w) : v = w := by
  cases v with
  | obj a =>
    cases w with
    | obj b =>
      simp only [lalWritable] at hv hw
      simp only [top, erase, Option.some.injEq, Val.opa.injEq] at h
      rw [members_inj a b hv hw h]
    | _ => simp_all [top, erase, lalWritable]
  | _ => cases w <;> simp_all [top, erase, lalWritable]

end Lal.Amf0
