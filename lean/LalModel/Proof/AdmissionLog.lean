import LalModel.Proof.AdmissionMedia
/- C03 — the notification log: for every session, the notifications about it are exactly what its
   place in its life demands (`Spec.expect`). -/
set_option linter.unusedSimpArgs false
namespace Lal.Adm
open Grp Spec

structure LInv (s : Srv) : Prop where
  hist : ∀ x, proj s.log x = expect (s.sess x)
  ghost : ∀ a p, s.sess a = some (.pull p) → (p.st = .inflight → p.wasAttached = false) ∧ (p.st = .attached → p.wasAttached = true)

theorem proj_append (l : List Notif) (k : NKind) (y x : Sid) :
    proj (l ++ [⟨k, y⟩]) x = proj l x ++ (if y = x then [k] else []) := by
  unfold proj; simp only [List.filter_append, List.map_append]
  by_cases h : y = x <;> simp [h]

theorem proj_append_list (l : List Notif) (ks : List NKind) (y x : Sid) :
    proj (l ++ ks.map (fun k => ⟨k, y⟩)) x = proj l x ++ (if y = x then ks else []) := by
  induction ks generalizing l with
  | nil => simp
  | cons k r ih =>
    have : l ++ (k :: r).map (fun k => (⟨k, y⟩ : Notif)) = (l ++ [⟨k, y⟩]) ++ r.map (fun k => ⟨k, y⟩) := by simp
    rw [this, ih, proj_append]
    by_cases h : y = x <;> simp [h]

/-- the accounting rule: the step appended `notes` about `y`; `y`'s expectation grew by exactly these;
    nobody else's expectation changed -/
theorem hist_step {s s' : Srv} (hl : ∀ x, proj s.log x = expect (s.sess x)) (y : Sid) (notes : List NKind)
    (hlog : s'.log = s.log ++ notes.map (fun k => ⟨k, y⟩))
    (hoth : ∀ x, x ≠ y → expect (s'.sess x) = expect (s.sess x))
    (hy : expect (s'.sess y) = expect (s.sess y) ++ notes) : ∀ x, proj s'.log x = expect (s'.sess x) := by
  intro x
  rw [hlog, proj_append_list, hl]
  by_cases h : y = x
  · subst h; simp [hy]
  · simp [h, hoth x (Ne.symm h)]

theorem hist_same {s s' : Srv} (hl : ∀ x, proj s.log x = expect (s.sess x)) (hlog : s'.log = s.log)
    (he : ∀ x, expect (s'.sess x) = expect (s.sess x)) : ∀ x, proj s'.log x = expect (s'.sess x) := by
  intro x; rw [hlog, he, hl]

theorem linv_init : LInv init := by
  constructor
  · intro x; simp [init, proj, expect]
  · intro a p h; simp [init] at h

def ghostOk : Option Sess → Prop
  | some (.pull p) => (p.st = .inflight → p.wasAttached = false) ∧ (p.st = .attached → p.wasAttached = true)
  | _ => True

/-- a step that notifies nobody: every session either is untouched or has (and had) nothing to be
    notified about -/
theorem LInv.keep {s s' : Srv} (hl : LInv s) (hlog : s'.log = s.log)
    (hs : ∀ x, s'.sess x = s.sess x ∨ (expect (s'.sess x) = [] ∧ expect (s.sess x) = [] ∧ ghostOk (s'.sess x))) : LInv s' := by
  constructor
  · refine hist_same hl.hist hlog ?_
    intro x; rcases hs x with e | ⟨e1, e2, _⟩
    · rw [e]
    · rw [e1, e2]
  · intro a p ha
    rcases hs a with e | ⟨_, _, e3⟩
    · exact hl.ghost a p (e ▸ ha)
    · rw [ha] at e3; exact e3

/-- a step that appends `notes` about session `y` -/
theorem LInv.noted {s s' : Srv} (hl : LInv s) (y : Sid) (notes : List NKind)
    (hlog : s'.log = s.log ++ notes.map (fun k => ⟨k, y⟩))
    (hs : ∀ x, x ≠ y → (s'.sess x = s.sess x ∨ (expect (s'.sess x) = [] ∧ expect (s.sess x) = [] ∧ ghostOk (s'.sess x))))
    (hy : expect (s'.sess y) = expect (s.sess y) ++ notes) (hg : ghostOk (s'.sess y)) : LInv s' := by
  constructor
  · refine hist_step hl.hist y notes hlog ?_ hy
    intro x hx; rcases hs x hx with e | ⟨e1, e2, _⟩
    · rw [e]
    · rw [e1, e2]
  · intro a p ha
    by_cases h : a = y
    · subst h; rw [ha] at hg; exact hg
    · rcases hs a h with e | ⟨_, _, e3⟩
      · exact hl.ghost a p (e ▸ ha)
      · rw [ha] at e3; exact e3

/-! ### RTMP -/

theorem linv_rOpen {s : Srv} (hl : LInv s) (c : Sid) : LInv (rOpen s c).1 := by
  unfold rOpen; split
  · rename_i hf
    have hn : s.sess c = none := by simpa [Srv.fresh] using hf
    refine hl.keep rfl ?_
    intro x; simp only [Srv.setS_sess]; split
    · rename_i e; subst e; right; simp [expect, hn, ghostOk]
    · left; rfl
  · exact hl

theorem linv_sOpen {s : Srv} (hl : LInv s) (c : Sid) : LInv (sOpen s c).1 := by
  unfold sOpen; split
  · rename_i hf
    have hn : s.sess c = none := by simpa [Srv.fresh] using hf
    refine hl.keep rfl ?_
    intro x; simp only [Srv.setS_sess]; split
    · rename_i e; subst e; right; simp [expect, hn, ghostOk]
    · left; rfl
  · exact hl

/-- the log after the tail of handleTcpConnect -/
theorem rtmpTail_log {s : Srv} (h : Inv s) {c : Sid} {r : RConn} (hc : s.sess c = some (.rtmp r)) (hcl : r.closed = false) :
    (rtmpTail s c r).log = s.log ++ (if r.typ = .unknown ∨ r.flag = true then [] else [stopOf r.typ]).map (fun k => ⟨k, c⟩) := by
  have hc0 := claimOf_of_sess hc
  unfold rtmpTail; dsimp only
  split
  · rename_i hfl; simp [hfl]
  · rename_i hfl
    have hfl' : r.flag = false := by simpa using hfl
    split
    · rename_i htyp
      have hclaim : claimOf s c = some (r.stream, .rtmpPub) := by rw [hc0]; simp [Sess.claim, hcl, hfl', htyp]
      obtain ⟨g, hg, -⟩ := (h.ci c _ _).mp hclaim
      unfold Srv.onDelRtmpPub
      simp [hg, htyp, hfl', stopOf]
    · rename_i htyp
      have hclaim : claimOf s c = some (r.stream, .rtmpSub) := by rw [hc0]; simp [Sess.claim, hcl, hfl', htyp]
      obtain ⟨g, hg, -⟩ := (h.ci c _ _).mp hclaim
      unfold Srv.onDelRtmpSub
      simp [hg, htyp, hfl', stopOf]
    · rename_i htyp; simp [htyp]

theorem linv_rtmpTail {s : Srv} (h : Inv s) (hl : LInv s) {c : Sid} {r : RConn} (hc : s.sess c = some (.rtmp r)) (hcl : r.closed = false) :
    LInv (rtmpTail s c r) := by
  refine hl.noted c _ (rtmpTail_log h hc hcl) ?_ ?_ ?_
  · intro x hx; left; exact rtmpTail_sess_ne s c r hx
  · rw [rtmpTail_sess_self (r := r) hc, hc]
    simp only [expect]
    by_cases h1 : r.typ = .unknown ∨ r.flag = true
    · simp [h1]
    · simp [h1, hcl]
  · rw [rtmpTail_sess_self (r := r) hc]; simp [ghostOk]

theorem linv_rClose {s : Srv} (h : Inv s) (hl : LInv s) (c : Sid) : LInv (rClose s c).1 := by
  unfold rClose; split
  · rename_i r hr
    split
    · exact hl
    · rename_i hcl; exact linv_rtmpTail h hl hr (by simpa using hcl)
  · exact hl

theorem rtmp_flag_false {s : Srv} (h : Inv s) {c : Sid} {r : RConn} (hr : s.sess c = some (.rtmp r)) (hcl : r.closed = false) :
    r.flag = false := by
  cases hf : r.flag
  · rfl
  · have := h.flag c r hr hf; rw [hcl] at this; cases this

theorem linv_rPublish {s : Srv} (h : Inv s) (hl : LInv s) (c : Sid) (st : Stream) (a : Bool) :
    LInv (rPublish Code.fixed s c st a).1 := by
  rcases rPublish_eq s c st a with e | ⟨r, hr, hcl, e⟩ | ⟨r, hr, hcl, htyp, e⟩
  · rw [e]; exact hl
  · rw [e]; exact linv_rtmpTail h hl hr hcl
  · rw [e]
    have hfl := rtmp_flag_false h hr hcl
    by_cases hacc : ((s.modR c fun r => { r with typ := .pub, stream := st }).onNewRtmpPub c st a).2 = true
    · rw [if_pos hacc]
      obtain ⟨-, e1⟩ := Srv.onNewRtmpPub_true hacc
      rw [e1, modR_eq_setS hr, modR_eq_setS (r := { r with typ := .pub, stream := st }) (by simp)]
      refine hl.noted c [.pubStart] (by simp) ?_ ?_ ?_
      · intro x hx; left; simp [hx]
      · simp [expect, hr, htyp, hfl, hcl, startOf]
      · simp [ghostOk]
    · rw [if_neg hacc, modR_modR hr]
      refine hl.keep (by simp) ?_
      intro x; simp only [Srv.setS_sess]; split
      · rename_i e; subst e; right; simp [expect, hr, htyp, ghostOk]
      · left; rfl

theorem linv_rPlay {s : Srv} (h : Inv s) (hl : LInv s) (c : Sid) (st : Stream) (a : Bool) (nid : Sid) :
    LInv (rPlay Code.fixed s c st a nid).1 := by
  rcases rPlay_eq s c st a nid with e | ⟨r, hr, hcl, e⟩ | ⟨r, hr, hcl, htyp, hfr, e | ⟨g', n, b, hn, -, e⟩⟩
  · rw [e]; exact hl
  · rw [e]; exact linv_rtmpTail h hl hr hcl
  · rw [e, modR_modR hr]
    refine hl.keep (by simp) ?_
    intro x; simp only [Srv.setS_sess]; split
    · rename_i e; subst e; right; simp [expect, hr, htyp, ghostOk]
    · left; rfl
  · rw [e, modR_eq_setS hr]
    have hfl := rtmp_flag_false h hr hcl
    have hnone : s.sess nid = none := by simpa [Srv.fresh] using hfr
    have hnc : nid ≠ c := by rintro rfl; rw [hr] at hnone; cases hnone
    refine hl.noted c [.subStart] (by simp) ?_ ?_ ?_
    · intro x hx
      simp only [Srv.note_sess, Srv.sess_spawned, Srv.setG_sess, Srv.setS_sess]
      split
      · rename_i hxn
        have : x = nid := by rcases hn with hn | hn <;> rw [hn] at hxn <;> cases hxn; rfl
        subst this; right; simp [expect, hnone, ghostOk]
      · left; simp [hx]
    · simp only [Srv.note_sess, Srv.sess_spawned, Srv.setG_sess, Srv.setS_sess]
      have : some c ≠ n := by rcases hn with hn | hn <;> rw [hn] <;> simp [hnc.symm]
      simp [this, expect, hr, htyp, hfl, hcl, startOf]
    · simp only [Srv.note_sess, Srv.sess_spawned, Srv.setG_sess, Srv.setS_sess]
      have : some c ≠ n := by rcases hn with hn | hn <;> rw [hn] <;> simp [hnc.symm]
      simp [this, ghostOk]

/-! ### customize, GB28181, API, tick -/

theorem linv_custAdd {s : Srv} (hl : LInv s) (k : Sid) (st : Stream) : LInv (custAdd s k st).1 := by
  rcases custAdd_eq s k st with e | ⟨hfr, -, e⟩
  · rw [e]; exact hl
  · rw [e]
    have hn : s.sess k = none := by simpa [Srv.fresh] using hfr
    refine hl.keep (by simp) ?_
    intro x; simp only [Srv.setS_sess, Srv.setG_sess]; split
    · rename_i e; subst e; right; simp [expect, hn, ghostOk]
    · left; rfl

theorem linv_rtpPub {s : Srv} (hl : LInv s) (k : Sid) (st : Stream) : LInv (rtpPub Code.fixed s k st).1 := by
  rcases rtpPub_eq s k st with e | ⟨hfr, -, e⟩
  · rw [e]; exact hl
  · rw [e]
    have hn : s.sess k = none := by simpa [Srv.fresh] using hfr
    refine hl.keep (by simp) ?_
    intro x; simp only [Srv.setS_sess, Srv.setG_sess]; split
    · rename_i e; subst e; right; simp [expect, hn, ghostOk]
    · left; rfl

theorem linv_custDel {s : Srv} (hl : LInv s) (k : Sid) : LInv (custDel Code.fixed s k).1 := by
  unfold custDel; split
  · rename_i cu hcu
    split
    · exact hl
    · dsimp only
      have key : ∀ s' : Srv, s'.log = s.log → (∀ x, x ≠ k → s'.sess x = s.sess x) →
          isCust (s'.sess k) → LInv s' := by
        intro s' h1 h2 h3
        refine hl.keep h1 ?_
        intro x; by_cases hx : x = k
        · subst hx; right
          cases hv : s'.sess x with
          | none => rw [hv] at h3; exact absurd h3 (by simp [isCust])
          | some v =>
            cases v <;> simp [hv, isCust] at h3
            simp [hcu, expect, ghostOk]
        · left; exact h2 x hx
      split
      · exact key _ (by simp) (fun x hx => sess_modC_ne _ _ _ hx) (by rw [modC_eq_setS hcu]; simp [isCust])
      · split
        · refine key _ (by simp) (fun x hx => ?_) ?_
          · rw [sess_modC_ne _ _ _ hx]; simp [sess_modC_ne _ _ _ hx]
          · rw [modC_eq_setS hcu, modC_eq_setS (r := { cu with deleted := true }) (by simp)]
            simp [isCust]
        · refine key _ (by simp) (fun x hx => ?_) ?_
          · simp [sess_modC_ne _ _ _ hx]
          · rw [modC_eq_setS hcu]; simp [isCust]
  · exact hl

theorem linv_psEnd {s : Srv} (hl : LInv s) (k : Sid) : LInv (psEnd s k).1 := by
  unfold psEnd; split
  · rename_i p hp
    split
    · exact hl
    · dsimp only
      have key : ∀ s' : Srv, s'.log = s.log → (∀ x, s'.sess x = if x = k then some (.ps { p with ended := true }) else s.sess x) → LInv s' := by
        intro s' h1 h2
        refine hl.keep h1 ?_
        intro x; rw [h2]; split
        · rename_i e; subst e; right; simp [hp, expect, ghostOk]
        · left; rfl
      split
      · exact key _ (by simp) (fun x => by simp)
      · exact key _ (by simp) (fun x => by simp)
  · exact hl

/-- a new relay-pull attempt (or none) and nothing else -/
theorem LInv.spawnOnly {s : Srv} (hl : LInv s) {st : Stream} {g' : Grp} {b : Bool} {n : Option Sid} {nid : Sid}
    (hfr : s.fresh nid = true) (hn : n = none ∨ n = some nid) : LInv ((s.setG st g').spawned st b n) := by
  have hnone : s.sess nid = none := by simpa [Srv.fresh] using hfr
  refine hl.keep (by simp) ?_
  intro x; rw [Srv.sess_spawned]; split
  · rename_i hx
    have : x = nid := by rcases hn with hn | hn <;> rw [hn] at hx <;> cases hx; rfl
    subst this; right; simp [expect, hnone, ghostOk]
  · left; rfl

theorem linv_startPull {s : Srv} (hl : LInv s) (st : Stream) (r : Bool) (retry : Option Nat) (nid : Sid) :
    LInv (startPull s st r retry nid).1 := by
  unfold startPull; split
  · exact hl
  · rename_i hf
    refine hl.spawnOnly (by simpa using hf) ?_
    unfold Grp.startPull; exact pullIfNeeded_spawn _ nid

theorem linv_stopPull {s : Srv} (hl : LInv s) (st : Stream) : LInv (stopPull Code.fixed s st).1 := by
  unfold stopPull; split
  · exact hl
  · exact hl.keep rfl (fun x => Or.inl rfl)

theorem linv_kick {s : Srv} (hl : LInv s) (st : Stream) (x : Sid) : LInv (kick Code.fixed s st x).1 := by
  unfold kick; split
  · exact hl
  · exact hl.keep rfl (fun x => Or.inl rfl)

theorem linv_tick {s : Srv} (hl : LInv s) (st : Stream) (nid : Sid) : LInv (tick s st nid).1 := by
  unfold tick; split
  · exact hl
  · rename_i hf
    split
    · exact hl
    · split
      · exact hl.keep rfl (fun x => Or.inl rfl)
      · refine hl.spawnOnly (by simpa using hf) ?_
        unfold Grp.tick; exact pullIfNeeded_spawn _ nid

/-! ### relay pull -/

theorem noteRelay_log_append (s : Srv) (l1 l2 : List GObs) : (s.noteRelay (l1 ++ l2)).log = ((s.noteRelay l1).noteRelay l2).log := by
  induction l1 generalizing s with
  | nil => rfl
  | cons o r ih => cases o <;> simp [Srv.noteRelay, ih]

theorem delIn_relay_log (s : Srv) (g : Grp) : (s.noteRelay g.delIn.2).log = s.log := by
  unfold Grp.delIn; dsimp only; split <;> simp [Srv.noteRelay]

theorem addIn_relay_log (s : Srv) (g : Grp) : (s.noteRelay g.addIn.2).log = s.log := by
  unfold Grp.addIn; simp [Srv.noteRelay]

theorem delPull_relay_log (s : Srv) (g : Grp) (a : Sid) :
    (s.noteRelay (g.delPull Code.fixed a).2).log = s.log ++ [⟨.pullStop, a⟩] := by
  unfold Grp.delPull; split
  · simp [Srv.noteRelay]
  · dsimp only
    rw [noteRelay_log_append]
    simp only [Srv.noteRelay, Srv.note_log]
    rw [delIn_relay_log]

theorem Srv.delPull_log (s : Srv) (a : Sid) (st : Stream) : (s.delPull Code.fixed a st).log = s.log ++ [⟨.pullStop, a⟩] := by
  unfold Srv.delPull; split
  · rfl
  · rename_i g hg
    dsimp only
    have := delPull_relay_log (s.setG st (g.delPull Code.fixed a).1) g a
    simpa using this

theorem linv_pullEnd {s : Srv} (hl : LInv s) {a : Sid} {p : Pull} (hp : s.sess a = some (.pull p)) (hnd : p.st ≠ .done) :
    LInv ((s.modP a fun x => { x with st := .done }).delPull Code.fixed a p.stream) := by
  obtain ⟨g1, g2⟩ := hl.ghost a p hp
  refine hl.noted a [.pullStop] ?_ ?_ ?_ ?_
  · rw [Srv.delPull_log]; simp
  · intro x hx; left; rw [Srv.sess_delPull, sess_modP_ne _ _ _ hx]
  · rw [Srv.sess_delPull, modP_eq_setS hp]
    simp only [Srv.setS_sess, if_true, hp, expect]
    cases hst : p.st
    · simp [g1 hst]
    · simp [g2 hst]
    · exact absurd hst hnd
  · rw [Srv.sess_delPull, modP_eq_setS hp]; simp [ghostOk]

theorem linv_pullDone {s : Srv} (hl : LInv s) (a : Sid) : LInv (pullDone Code.fixed s a).1 := by
  unfold pullDone; split
  · rename_i p hp
    split
    · exact hl
    · rename_i hnd; exact linv_pullEnd hl hp hnd
  · exact hl

theorem linv_pullAttach {s : Srv} (hl : LInv s) (a : Sid) : LInv (pullAttach Code.fixed s a).1 := by
  unfold pullAttach; split
  · rename_i p hp
    split
    · exact hl
    · rename_i hst
      have hst' : p.st = .inflight := by simpa using hst
      split
      · exact hl
      · rename_i g hg
        have accepted : ∀ (g' : Grp) (l : List GObs),
            (∀ s0 : Srv, (s0.noteRelay l).log = s0.log ++ [⟨.pullStart, a⟩]) →
            LInv (((s.setG p.stream g').modP a fun x => { x with st := .attached, wasAttached := true }).noteRelay l) := by
          intro g' l hlog
          refine hl.noted a [.pullStart] (by rw [hlog]; simp) ?_ ?_ ?_
          · intro x hx; left; rw [Srv.noteRelay_sess, sess_modP_ne _ _ _ hx]; rfl
          · rw [Srv.noteRelay_sess, modP_eq_setS (r := p) (by simpa using hp)]
            simp [expect, hp, hst']
          · rw [Srv.noteRelay_sess, modP_eq_setS (r := p) (by simpa using hp)]
            simp [ghostOk]
        have relayAdd : ∀ (g0 : Grp) (s0 : Srv), (s0.noteRelay (g0.addIn.2 ++ [.relayStart a])).log = s0.log ++ [⟨.pullStart, a⟩] := by
          intro g0 s0; rw [noteRelay_log_append]; simp only [Srv.noteRelay, Srv.note_log]; rw [addIn_relay_log]
        dsimp only
        cases hr : p.rtsp
        · simp only [Bool.false_eq_true, if_false]
          by_cases hacc : (g.addRtmpPull Code.fixed a).2.1 = true
          · rw [if_pos hacc]
            refine accepted _ _ ?_
            intro s0
            unfold Grp.addRtmpPull at hacc ⊢
            split at hacc
            · simp at hacc
            · rename_i hin; simp only [hin, Bool.false_eq_true, if_false]; exact relayAdd _ s0
          · rw [if_neg hacc]; exact linv_pullEnd hl hp (by rw [hst']; simp)
        · simp only [if_true]
          by_cases hacc : (g.addRtspPull Code.fixed a).2.1 = true
          · rw [if_pos hacc]
            refine accepted _ _ ?_
            intro s0
            unfold Grp.addRtspPull at hacc ⊢
            split at hacc
            · simp at hacc
            · rename_i hin; simp only [hin, Bool.false_eq_true, if_false]; exact relayAdd _ s0
          · rw [if_neg hacc]; exact linv_pullEnd hl hp (by rw [hst']; simp)
  · exact hl

/-! ### RTSP -/

theorem linv_rtspTail {s : Srv} (h : Inv s) (hl : LInv s) {c : Sid} {k : SConn} (hc : s.sess c = some (.rtspConn k)) (hcl : k.closed = false) :
    LInv (rtspTail Code.fixed s c k) := by
  obtain ⟨h1, h2, h3⟩ := h.link c k hc hcl
  obtain ⟨kp, ks, kc⟩ := k
  dsimp only at hcl h1 h2 h3
  subst hcl
  unfold rtspTail; dsimp only
  cases kp with
  | some p =>
    obtain ⟨pp, hp, hpc, hpe, hpf, hpa⟩ := h2 p rfl
    have hpne : p ≠ c := by rintro rfl; rw [hc] at hp; cases hp
    have hp1 : ∀ v, (s.setS c v).sess p = some (.rtspPub pp) := by intro v; simp [hpne, hp]
    simp only [hp1, hpf, Code.fixed, Bool.and_false, Bool.false_eq_true, if_false]
    rw [modSP_eq_setS (hp1 _)]
    have hclaim : claimOf s p = some (pp.stream, .rtspPub) := by rw [claimOf_of_sess hp]; simp [Sess.claim, hpa, hpe]
    obtain ⟨g, hg, -⟩ := (h.ci p _ _).mp hclaim
    refine hl.noted p [.pubStop] ?_ ?_ ?_ ?_
    · unfold Srv.onDelRtspPub; simp [hg]
    · intro x hx
      simp only [Srv.sess_onDelRtspPub, Srv.setS_sess, hx, if_false]
      split
      · rename_i e; subst e; right; simp [expect, hc, ghostOk]
      · left; rfl
    · simp [expect, hp, hpa, hpe]
    · simp [ghostOk]
  | none =>
    cases ks with
    | some q =>
      obtain ⟨qq, hq, hqc, hqe, hqf, hqa⟩ := h3 q rfl
      have hqne : q ≠ c := by rintro rfl; rw [hc] at hq; cases hq
      have hq1 : ∀ v, (s.setS c v).sess q = some (.rtspSub qq) := by intro v; simp [hqne, hq]
      simp only [hq1, hqf, Code.fixed, Bool.and_false, Bool.false_eq_true, if_false]
      rw [modSS_eq_setS (hq1 _)]
      have hclaim : claimOf s q = some (qq.stream, .rtspSub) := by rw [claimOf_of_sess hq]; simp [Sess.claim, hqa, hqe]
      obtain ⟨g, hg, -⟩ := (h.ci q _ _).mp hclaim
      refine hl.noted q [.subStop] ?_ ?_ ?_ ?_
      · unfold Srv.onDelRtspSub; simp [hg]
      · intro x hx
        simp only [Srv.sess_onDelRtspSub, Srv.setS_sess, hx, if_false]
        split
        · rename_i e; subst e; right; simp [expect, hc, ghostOk]
        · left; rfl
      · simp [expect, hq, hqa, hqe]
      · simp [ghostOk]
    | none =>
      refine hl.keep (by simp) ?_
      intro x; simp only [Srv.setS_sess]; split
      · rename_i e; subst e; right; simp [expect, hc, ghostOk]
      · left; rfl

theorem linv_sSetup {s : Srv} (h : Inv s) (hl : LInv s) (c : Sid) : LInv (sSetup Code.fixed s c).1 := by
  unfold sSetup; split
  · rename_i k hk
    split
    · exact hl
    · rename_i hcl
      split
      · exact linv_rtspTail h hl hk (by simpa using hcl)
      · exact hl
  · exact hl

theorem linv_sRecord {s : Srv} (hl : LInv s) (c : Sid) : LInv (sRecord s c).1 := by
  unfold sRecord; (repeat' split) <;> exact hl

theorem linv_sMedia {s : Srv} (h : Inv s) (hl : LInv s) (c : Sid) : LInv (sMedia Code.fixed s c).1 := by
  unfold sMedia; split
  · rename_i k hk
    split
    · exact hl
    · rename_i hcl
      split
      · (repeat' split) <;> exact hl
      · split
        · exact hl
        · exact linv_rtspTail h hl hk (by simpa using hcl)
  · exact hl

theorem linv_sClose {s : Srv} (h : Inv s) (hl : LInv s) (c : Sid) : LInv (sClose Code.fixed s c).1 := by
  unfold sClose; split
  · rename_i k hk
    split
    · exact hl
    · rename_i hcl; exact linv_rtspTail h hl hk (by simpa using hcl)
  · exact hl

theorem linv_sPlay {s : Srv} (h : Inv s) (hl : LInv s) (c nid : Sid) : LInv (sPlay Code.fixed s c nid).1 := by
  unfold sPlay; split
  · rename_i k hk
    split
    · exact hl
    · rename_i hcl
      simp only [Bool.or_eq_true, Bool.not_eq_true', not_or, Bool.not_eq_true, Bool.not_eq_false] at hcl
      split
      · exact linv_rtspTail h hl hk hcl.1
      · split
        · unfold Srv.onNewRtspSubPlay
          exact hl.spawnOnly hcl.2 (pullIfNeeded_spawn _ nid)
        · exact hl
  · exact hl

theorem linv_rtsp_refused {s : Srv} (hl : LInv s) {c p : Sid} {k k' : SConn} (v : Sess)
    (hc : s.sess c = some (.rtspConn k)) (hp : s.sess p = none) (hv : expect (some v) = []) (hg : ghostOk (some v)) :
    LInv ((s.setS c (.rtspConn k')).setS p v) := by
  refine hl.keep (by simp) ?_
  intro x; simp only [Srv.setS_sess]
  split
  · rename_i e; subst e; right; exact ⟨hv, by simp [hp, expect], hg⟩
  · split
    · rename_i e; subst e; right; simp [expect, hc, ghostOk]
    · left; rfl

theorem linv_sAnnounce {s : Srv} (h : Inv s) (hl : LInv s) (c p : Sid) (st : Stream) (a : Bool) :
    LInv (sAnnounce Code.fixed s c p st a).1 := by
  rcases sAnnounce_eq s c p st a with e | ⟨k, hk, hcl, e⟩ | ⟨hk, hfr, e⟩
  · rw [e]; exact hl
  · rw [e]; exact linv_rtspTail h hl hk hcl
  · rw [e]
    have hpn : s.sess p = none := by simpa [Srv.fresh] using hfr
    have hpc : p ≠ c := by rintro rfl; rw [hk] at hpn; cases hpn
    by_cases hacc : (((s.setS c (.rtspConn { pub := some p })).setS p (.rtspPub { conn := c, stream := st })).onNewRtspPub p st a).2 = true
    · rw [if_pos hacc]
      obtain ⟨-, e1⟩ := Srv.onNewRtspPub_true hacc
      rw [e1, modSP_eq_setS (r := { conn := c, stream := st }) (by simp)]
      refine hl.noted p [.pubStart] (by simp) ?_ ?_ ?_
      · intro x hx
        simp only [Srv.setS_sess, Srv.note_sess, Srv.setG_sess, hx, if_false]
        split
        · rename_i e; subst e; right; simp [expect, hk, ghostOk]
        · left; rfl
      · simp [expect, hpn]
      · simp [ghostOk]
    · rw [if_neg hacc]
      have e : rtspTail Code.fixed (((s.setS c (.rtspConn { pub := some p })).setS p (.rtspPub { conn := c, stream := st })).modSP p
          fun x => { x with flag := true }) c { pub := some p } =
          (s.setS c (.rtspConn { pub := some p, closed := true })).setS p (.rtspPub { conn := c, stream := st, flag := true, ended := true }) := by
        rw [modSP_eq_setS (r := { conn := c, stream := st }) (by simp)]
        unfold rtspTail; dsimp only
        have : ∀ v, (((((s.setS c (.rtspConn { pub := some p })).setS p (.rtspPub { conn := c, stream := st })).setS p
            (.rtspPub { conn := c, stream := st, flag := true })).setS c v).sess p) = some (.rtspPub { conn := c, stream := st, flag := true }) := by
          intro v; simp [hpc]
        simp only [this, Code.fixed, Bool.and_self, if_true]
        rw [modSP_eq_setS (this _)]
        unfold Srv.setS; congr 1; funext y; dsimp only
        by_cases h1 : y = p <;> by_cases h2 : y = c <;> simp [h1, h2, hpc]
      rw [e]
      exact linv_rtsp_refused hl _ hk hpn (by simp [expect]) (by simp [ghostOk])

theorem linv_sDescribe {s : Srv} (h : Inv s) (hl : LInv s) (c q : Sid) (st : Stream) (a : Bool) :
    LInv (sDescribe Code.fixed s c q st a).1 := by
  rcases sDescribe_eq s c q st a with e | ⟨k, hk, hcl, e⟩ | ⟨hk, hfr, e⟩
  · rw [e]; exact hl
  · rw [e]; exact linv_rtspTail h hl hk hcl
  · rw [e]
    have hqn : s.sess q = none := by simpa [Srv.fresh] using hfr
    have hqc : q ≠ c := by rintro rfl; rw [hk] at hqn; cases hqn
    by_cases hacc : (((s.setS c (.rtspConn { sub := some q })).setS q (.rtspSub { conn := c, stream := st })).onNewRtspSubDescribe q st a).2 = true
    · rw [if_pos hacc]
      have e1 := Srv.onNewRtspSubDescribe_true hacc
      rw [e1, modSS_eq_setS (r := { conn := c, stream := st }) (by simp)]
      refine hl.noted q [.subStart] (by simp) ?_ ?_ ?_
      · intro x hx
        simp only [Srv.setS_sess, Srv.note_sess, Srv.setG_sess, hx, if_false]
        split
        · rename_i e; subst e; right; simp [expect, hk, ghostOk]
        · left; rfl
      · simp [expect, hqn]
      · simp [ghostOk]
    · rw [if_neg hacc]
      have e : rtspTail Code.fixed (((s.setS c (.rtspConn { sub := some q })).setS q (.rtspSub { conn := c, stream := st })).modSS q
          fun x => { x with flag := true }) c { sub := some q } =
          (s.setS c (.rtspConn { sub := some q, closed := true })).setS q (.rtspSub { conn := c, stream := st, flag := true, ended := true }) := by
        rw [modSS_eq_setS (r := { conn := c, stream := st }) (by simp)]
        unfold rtspTail; dsimp only
        have : ∀ v, (((((s.setS c (.rtspConn { sub := some q })).setS q (.rtspSub { conn := c, stream := st })).setS q
            (.rtspSub { conn := c, stream := st, flag := true })).setS c v).sess q) = some (.rtspSub { conn := c, stream := st, flag := true }) := by
          intro v; simp [hqc]
        simp only [this, Code.fixed, Bool.and_self, if_true]
        rw [modSS_eq_setS (this _)]
        unfold Srv.setS; congr 1; funext y; dsimp only
        by_cases h1 : y = q <;> by_cases h2 : y = c <;> simp [h1, h2, hqc]
      rw [e]
      exact linv_rtsp_refused hl _ hk hqn (by simp [expect]) (by simp [ghostOk])

/-! ### every event, every reachable state -/

theorem linv_step {s : Srv} (h : Inv s) (hl : LInv s) (e : Ev) : LInv (step Code.fixed s e).1 := by
  cases e <;> simp only [step]
  case rOpen c => exact linv_rOpen hl c
  case rPublish c st a => exact linv_rPublish h hl c st a
  case rPlay c st a n => exact linv_rPlay h hl c st a n
  case rMedia c => unfold rMedia; (repeat' split) <;> exact hl
  case rClose c => exact linv_rClose h hl c
  case sOpen c => exact linv_sOpen hl c
  case sAnnounce c p st a => exact linv_sAnnounce h hl c p st a
  case sDescribe c q st a => exact linv_sDescribe h hl c q st a
  case sSetup c => exact linv_sSetup h hl c
  case sRecord c => exact linv_sRecord hl c
  case sPlay c n => exact linv_sPlay h hl c n
  case sMedia c => exact linv_sMedia h hl c
  case sClose c => exact linv_sClose h hl c
  case custAdd k st => exact linv_custAdd hl k st
  case custDel k => exact linv_custDel hl k
  case custFeed k => unfold custFeed; (repeat' split) <;> exact hl
  case rtpPub k st => exact linv_rtpPub hl k st
  case psEnd k => exact linv_psEnd hl k
  case psMedia k => unfold psMedia; (repeat' split) <;> exact hl
  case startPull st r n nid => exact linv_startPull hl st r n nid
  case pullAttach a => exact linv_pullAttach hl a
  case pullDone a => exact linv_pullDone hl a
  case pullMedia a => unfold pullMedia; (repeat' split) <;> exact hl
  case stopPull st => exact linv_stopPull hl st
  case kick st x => exact linv_kick hl st x
  case tick st n => exact linv_tick hl st n
  case stat st => exact hl

theorem linv_run (evs : List Ev) : LInv (run Code.fixed evs) := by
  unfold run
  suffices h : ∀ s : Srv, Inv s → LInv s → LInv (evs.foldl (fun s e => (step Code.fixed s e).1) s) from h init inv_init linv_init
  induction evs with
  | nil => intro s _ h; exact h
  | cons e r ih => intro s h hl; simp only [List.foldl]; exact ih _ (inv_step h e) (linv_step h hl e)

end Lal.Adm
