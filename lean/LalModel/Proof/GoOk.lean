import LalModel.Model.Go
import LalModel.Proof.Go
/-
  `Ok Q x`: the Go function modelled by `x` returns normally (no panic, no error) with a result satisfying `Q`;
  `NoPanic x`: it does not reach a run-time failure (it may return an error). Composition lemmas for the
  `do`-blocks of the C05 models.
-/
namespace Lal

def Ok {α} (Q : α → Prop) (x : GoM α) : Prop := ∃ a, x = .ok a ∧ Q a

def NoPanic {α} (x : GoM α) : Prop := isPanic x = false

theorem Ok.ok {α} {Q : α → Prop} {a : α} (h : Q a) : Ok Q (Except.ok a : GoM α) := ⟨a, rfl, h⟩
theorem Ok.pure {α} {Q : α → Prop} {a : α} (h : Q a) : Ok Q (Pure.pure a : GoM α) := ⟨a, rfl, h⟩

theorem Ok.triv {α} (a : α) : Ok (fun _ => True) (Except.ok a : GoM α) := ⟨a, rfl, trivial⟩

theorem Ok.bind {α β} {R : α → Prop} {Q : β → Prop} {x : GoM α} {f : α → GoM β}
    (hx : Ok R x) (hf : ∀ a, R a → Ok Q (f a)) : Ok Q (x >>= f) := by
  obtain ⟨a, rfl, ha⟩ := hx
  exact hf a ha

theorem Ok.ite {α} {Q : α → Prop} {c : Prop} [Decidable c] {x y : GoM α}
    (hx : c → Ok Q x) (hy : ¬ c → Ok Q y) : Ok Q (if c then x else y) := by
  split
  · exact hx ‹_›
  · exact hy ‹_›

theorem Ok.mono {α} {Q R : α → Prop} {x : GoM α} (h : Ok Q x) (hqr : ∀ a, Q a → R a) : Ok R x := by
  obtain ⟨a, e, ha⟩ := h
  exact ⟨a, e, hqr a ha⟩

theorem Ok.of_eq {α} {Q : α → Prop} {x : GoM α} {a : α} (e : x = .ok a) (h : Q a) : Ok Q x := ⟨a, e, h⟩

theorem Ok.idx? (s : String) (b : Bytes) (i : Nat) (h : i < b.length) : Ok (fun _ => True) (idx? s b i) := by
  simp [Ok, Lal.idx?, List.getElem?_eq_getElem h]

theorem Ok.from? (s : String) (b : Bytes) (i : Nat) (h : i ≤ b.length) : Ok (fun r => r = b.drop i) (from? s b i) := by
  simp [Ok, Lal.from?, h]

theorem Ok.noPanic {α} {Q : α → Prop} {x : GoM α} (h : Ok Q x) : NoPanic x := by
  obtain ⟨a, rfl, _⟩ := h; rfl

theorem NoPanic.ok {α} (a : α) : NoPanic (Except.ok a : GoM α) := rfl
theorem NoPanic.pure {α} (a : α) : NoPanic (Pure.pure a : GoM α) := rfl
theorem NoPanic.err {α} : NoPanic (Except.error .err : GoM α) := rfl
theorem NoPanic.throwErr {α} : NoPanic (throw Fault.err : GoM α) := rfl

theorem NoPanic.bind {α β} {x : GoM α} {f : α → GoM β} (hx : NoPanic x) (hf : ∀ a, x = .ok a → NoPanic (f a)) :
    NoPanic (x >>= f) := by
  cases x with
  | ok a => exact hf a rfl
  | error e =>
    cases e with
    | err => rfl
    | panic s => simp [NoPanic, isPanic] at hx

theorem NoPanic.ite {α} {c : Prop} [Decidable c] {x y : GoM α} (hx : c → NoPanic x) (hy : ¬ c → NoPanic y) :
    NoPanic (if c then x else y) := by
  split
  · exact hx ‹_›
  · exact hy ‹_›

theorem NoPanic.idx? (s : String) (b : Bytes) (i : Nat) (h : i < b.length) : NoPanic (idx? s b i) := (Ok.idx? s b i h).noPanic
theorem NoPanic.from? (s : String) (b : Bytes) (i : Nat) (h : i ≤ b.length) : NoPanic (from? s b i) := (Ok.from? s b i h).noPanic

theorem NoPanic.slice? (s : String) (b : Bytes) (i j : Nat) (h : i ≤ j ∧ j ≤ b.length) : NoPanic (slice? s b i j) := by
  simp [NoPanic, Lal.slice?, h, isPanic]

/-- a result that is neither `ok` nor `err` contradicts `NoPanic` -/
theorem NoPanic.elim {α} {x : GoM α} (h : NoPanic x) {e : Fault} (he : x = .error e) : e = .err := by
  cases e with
  | err => rfl
  | panic s => rw [he] at h; simp [NoPanic, isPanic] at h


theorem NoPanic.absurd {α} {x : GoM α} {s : String} (h : NoPanic x) (he : x = .error (.panic s)) : False := by
  rw [he] at h; simp [NoPanic, isPanic] at h

theorem NoPanic.throw_of {α β} {x : GoM α} {e : Fault} (h : NoPanic x) (he : x = .error e) : NoPanic (throw e : GoM β) := by
  cases e with
  | err => rfl
  | panic s => exact (h.absurd he).elim

theorem NoPanic.absurd' {α} {x : GoM α} {s : String} (he : x = .error (.panic s)) (h : NoPanic x) : False := h.absurd he
theorem NoPanic.throw_of' {α β} {x : GoM α} {e : Fault} (he : x = .error e) (h : NoPanic x) : NoPanic (throw e : GoM β) := h.throw_of he
theorem NoPanic.error_of' {α β} {x : GoM α} {e : Fault} (he : x = .error e) (h : NoPanic x) : NoPanic (Except.error e : GoM β) := h.throw_of he

/-- normalise a `do`-block: join points are inlined, `throw e >>= k` collapses -/
macro "np_norm" : tactic =>
  `(tactic| simp only [GoM.throw_bind, GoM.ok_bind, GoM.pure_eq, GoM.throw_eq, GoM.error_bind, bind_pure_comp, Functor.map, Except.map])

/-- structural `NoPanic` prover: `if`, `>>=`, guarded `idx?` / `from?` / `slice?` (side conditions by `omega`) -/
macro "np" : tactic => `(tactic| repeat' (first
  | exact NoPanic.ok _ | exact NoPanic.err | exact NoPanic.pure _
  | assumption
  | (exfalso; exact NoPanic.absurd' (by assumption) (by assumption))
  | (exact NoPanic.throw_of' (by assumption) (by assumption))
  | (exact NoPanic.error_of' (by assumption) (by assumption))
  | (apply NoPanic.idx?; omega) | (apply NoPanic.from?; omega) | (apply NoPanic.slice?; omega)
  | (apply NoPanic.ite <;> intro _)
  | (refine NoPanic.bind ?_ (fun _ _ => ?_))
  | split))
/-- returns normally (neither a run-time failure nor an error) -/
def Total {α} (x : GoM α) : Prop := ∃ a, x = .ok a

theorem Total.ok {α} (a : α) : Total (Except.ok a : GoM α) := ⟨a, rfl⟩
theorem Total.pure {α} (a : α) : Total (Pure.pure a : GoM α) := ⟨a, rfl⟩
theorem Total.bind {α β} {x : GoM α} {f : α → GoM β} (hx : Total x) (hf : ∀ a, x = .ok a → Total (f a)) : Total (x >>= f) := by
  obtain ⟨a, rfl⟩ := hx
  exact hf a rfl
theorem Total.ite {α} {c : Prop} [Decidable c] {x y : GoM α} (hx : c → Total x) (hy : ¬ c → Total y) :
    Total (if c then x else y) := by
  split
  · exact hx ‹_›
  · exact hy ‹_›
theorem Total.idx? (s : String) (b : Bytes) (i : Nat) (h : i < b.length) : Total (idx? s b i) := by
  obtain ⟨a, e, _⟩ := Ok.idx? s b i h; exact ⟨a, e⟩
theorem Total.from? (s : String) (b : Bytes) (i : Nat) (h : i ≤ b.length) : Total (from? s b i) := by
  obtain ⟨a, e, _⟩ := Ok.from? s b i h; exact ⟨a, e⟩
theorem Total.toOk {α} {x : GoM α} (h : Total x) : Ok (fun _ => True) x := by
  obtain ⟨a, e⟩ := h; exact ⟨a, e, trivial⟩
theorem Ok.toTotal {α} {Q : α → Prop} {x : GoM α} (h : Ok Q x) : Total x := by
  obtain ⟨a, e, _⟩ := h; exact ⟨a, e⟩

/-- structural `Total` prover (same shape as `np`) -/
macro "tot" : tactic => `(tactic| repeat' (first
  | exact Total.ok _ | exact Total.pure _
  | assumption
  | (apply Total.idx?; omega) | (apply Total.from?; omega)
  | (apply Total.ite <;> intro _)
  | (refine Total.bind ?_ (fun _ _ => ?_))
  | split))

end Lal
