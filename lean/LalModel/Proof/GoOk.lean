import LalModel.Model.Go
import LalModel.Proof.Go
/-
  `Ok Q x`: the Go function modelled by `x` returns normally (no panic, no error) with a result satisfying `Q`;
  `NoPanicB x`: it does not reach a run-time failure (it may return an error). Composition lemmas for the
  `do`-blocks of the C05 models.
-/
namespace Lal

def Ok {α} (Q : α → Prop) (x : GoM α) : Prop := ∃ a, x = .ok a ∧ Q a

def NoPanicB {α} (x : GoM α) : Prop := isPanic x = false

theorem Ok.ok {α} {Q : α → Prop} {a : α} (h : Q a) : Ok Q (Except.ok a : GoM α) := ⟨a, rfl, h⟩
theorem Ok.pure {α} {Q : α → Prop} {a : α} (h : Q a) : Ok Q (Pure.pure a : GoM α) := ⟨a, rfl, h⟩

theorem Ok.triv {α} (a : α) : Ok (fun _ => True) (Except.ok a : GoM α) := ⟨a, rfl, trivial⟩

theorem Ok.bind {α β} {R : α → Prop} {Q : β → Prop} {x : GoM α} {f : α → GoM β}
    (hx : Ok R x) (hf : ∀ a, R a → Ok Q (f a)) : Ok Q (x >>= f) := by
  obtain ⟨a, rfl, ha⟩ := hx
  exact hf a ha

theorem Ok.ite {α} {Q : α → Prop} {c : Prop} [Decidable c] {x y : GoM α}
    (hx : c → Ok Q x) (hy : ¬ c → Ok Q y) : Ok Q (if c then x else y) := by
  split
  · exact hx ‹_›
  · exact hy ‹_›

theorem Ok.mono {α} {Q R : α → Prop} {x : GoM α} (h : Ok Q x) (hqr : ∀ a, Q a → R a) : Ok R x := by
  obtain ⟨a, e, ha⟩ := h
  exact ⟨a, e, hqr a ha⟩

theorem Ok.of_eq {α} {Q : α → Prop} {x : GoM α} {a : α} (e : x = .ok a) (h : Q a) : Ok Q x := ⟨a, e, h⟩

theorem Ok.idx? (s : String) (b : Bytes) (i : Nat) (h : i < b.length) : Ok (fun _ => True) (idx? s b i) := by
  simp [Ok, Lal.idx?, List.getElem?_eq_getElem h]

theorem Ok.from? (s : String) (b : Bytes) (i : Nat) (h : i ≤ b.length) : Ok (fun r => r = b.drop i) (from? s b i) := by
  simp [Ok, Lal.from?, h]

theorem Ok.noPanic {α} {Q : α → Prop} {x : GoM α} (h : Ok Q x) : NoPanicB x := by
  obtain ⟨a, rfl, _⟩ := h; rfl

theorem NoPanicB.ok {α} (a : α) : NoPanicB (Except.ok a : GoM α) := rfl
theorem NoPanicB.pure {α} (a : α) : NoPanicB (Pure.pure a : GoM α) := rfl
theorem NoPanicB.err {α} : NoPanicB (Except.error .err : GoM α) := rfl
theorem NoPanicB.throwErr {α} : NoPanicB (throw Fault.err : GoM α) := rfl

theorem NoPanicB.bind {α β} {x : GoM α} {f : α → GoM β} (hx : NoPanicB x) (hf : ∀ a, x = .ok a → NoPanicB (f a)) :
    NoPanicB (x >>= f) := by
  cases x with
  | ok a => exact hf a rfl
  | error e =>
    cases e with
    | err => rfl
    | panic s => simp [NoPanicB, isPanic] at hx

theorem NoPanicB.ite {α} {c : Prop} [Decidable c] {x y : GoM α} (hx : c → NoPanicB x) (hy : ¬ c → NoPanicB y) :
    NoPanicB (if c then x else y) := by
  split
  · exact hx ‹_›
  · exact hy ‹_›

theorem NoPanicB.idx? (s : String) (b : Bytes) (i : Nat) (h : i < b.length) : NoPanicB (idx? s b i) := (Ok.idx? s b i h).noPanic
theorem NoPanicB.from? (s : String) (b : Bytes) (i : Nat) (h : i ≤ b.length) : NoPanicB (from? s b i) := (Ok.from? s b i h).noPanic

theorem NoPanicB.slice? (s : String) (b : Bytes) (i j : Nat) (h : i ≤ j ∧ j ≤ b.length) : NoPanicB (slice? s b i j) := by
  simp [NoPanicB, Lal.slice?, h, isPanic]

/-- a result that is neither `ok` nor `err` contradicts `NoPanicB` -/
theorem NoPanicB.elim {α} {x : GoM α} (h : NoPanicB x) {e : Fault} (he : x = .error e) : e = .err := by
  cases e with
  | err => rfl
  | panic s => rw [he] at h; simp [NoPanicB, isPanic] at h


theorem NoPanicB.absurd {α} {x : GoM α} {s : String} (h : NoPanicB x) (he : x = .error (.panic s)) : False := by
  rw [he] at h; simp [NoPanicB, isPanic] at h

theorem NoPanicB.throw_of {α β} {x : GoM α} {e : Fault} (h : NoPanicB x) (he : x = .error e) : NoPanicB (throw e : GoM β) := by
  cases e with
  | err => rfl
  | panic s => exact (h.absurd he).elim

theorem NoPanicB.absurd' {α} {x : GoM α} {s : String} (he : x = .error (.panic s)) (h : NoPanicB x) : False := h.absurd he
theorem NoPanicB.throw_of' {α β} {x : GoM α} {e : Fault} (he : x = .error e) (h : NoPanicB x) : NoPanicB (throw e : GoM β) := h.throw_of he
theorem NoPanicB.error_of' {α β} {x : GoM α} {e : Fault} (he : x = .error e) (h : NoPanicB x) : NoPanicB (Except.error e : GoM β) := h.throw_of he

/-- normalise a `do`-block: join points are inlined, `throw e >>= k` collapses -/
macro "np_norm" : tactic =>
  `(tactic| simp only [GoM.throw_bind, GoM.ok_bind, GoM.pure_eq, GoM.throw_eq, GoM.error_bind, bind_pure_comp, Functor.map, Except.map])

/-- structural `NoPanicB` prover: `if`, `>>=`, guarded `idx?` / `from?` / `slice?` (side conditions by `omega`) -/
macro "np" : tactic => `(tactic| repeat' (first
  | exact NoPanicB.ok _ | exact NoPanicB.err | exact NoPanicB.pure _
  | assumption
  | (exfalso; exact NoPanicB.absurd' (by assumption) (by assumption))
  | (exact NoPanicB.throw_of' (by assumption) (by assumption))
  | (exact NoPanicB.error_of' (by assumption) (by assumption))
  | (apply NoPanicB.idx?; omega) | (apply NoPanicB.from?; omega) | (apply NoPanicB.slice?; omega)
  | (apply NoPanicB.ite <;> intro _)
  | (refine NoPanicB.bind ?_ (fun _ _ => ?_))
  | split))
/-- returns normally (neither a run-time failure nor an error) -/
def Total {α} (x : GoM α) : Prop := ∃ a, x = .ok a

theorem Total.ok {α} (a : α) : Total (Except.ok a : GoM α) := ⟨a, rfl⟩
theorem Total.pure {α} (a : α) : Total (Pure.pure a : GoM α) := ⟨a, rfl⟩
theorem Total.bind {α β} {x : GoM α} {f : α → GoM β} (hx : Total x) (hf : ∀ a, x = .ok a → Total (f a)) : Total (x >>= f) := by
  obtain ⟨a, rfl⟩ := hx
  exact hf a rfl
theorem Total.ite {α} {c : Prop} [Decidable c] {x y : GoM α} (hx : c → Total x) (hy : ¬ c → Total y) :
    Total (if c then x else y) := by
  split
  · exact hx ‹_›
  · exact hy ‹_›
theorem Total.idx? (s : String) (b : Bytes) (i : Nat) (h : i < b.length) : Total (idx? s b i) := by
  obtain ⟨a, e, _⟩ := Ok.idx? s b i h; exact ⟨a, e⟩
theorem Total.from? (s : String) (b : Bytes) (i : Nat) (h : i ≤ b.length) : Total (from? s b i) := by
  obtain ⟨a, e, _⟩ := Ok.from? s b i h; exact ⟨a, e⟩
theorem Total.toOk {α} {x : GoM α} (h : Total x) : Ok (fun _ => True) x := by
  obtain ⟨a, e⟩ := h; exact ⟨a, e, trivial⟩
theorem Ok.toTotal {α} {Q : α → Prop} {x : GoM α} (h : Ok Q x) : Total x := by
  obtain ⟨a, e, _⟩ := h; exact ⟨a, e⟩

/-- structural `Total` prover (same shape as `np`) -/
macro "tot" : tactic => `(tactic| repeat' (first
  | exact Total.ok _ | exact Total.pure _
  | assumption
  | (apply Total.idx?; omega) | (apply Total.from?; omega)
  | (apply Total.ite <;> intro _)
  | (refine Total.bind ?_ (fun _ _ => ?_))
  | split))

end Lal
