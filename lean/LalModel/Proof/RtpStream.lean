import LalModel.Proof.RtpUnpack
/- From per-unit facts to the hypotheses of `feedAll_reorder` for a whole stream of units. -/
namespace Lal.RtpUnpack
open Lal Lal.Rtp Lal.Seq16 Lal.RtpSpec

/-- consecutive units of one packer: each starts where the previous one ended -/
def Chain (pr : Proto) : Nat → List (List RtpPacket × List AvPacket) → Prop
  | _, [] => True
  | seq, (u, out) :: rest => UnitFacts pr u seq out ∧ Chain pr ((seq + u.length) % 65536) rest

def flat (units : List (List RtpPacket × List AvPacket)) : List RtpPacket := (units.map (·.1)).flatten

theorem flat_cons (u : List RtpPacket) (out : List AvPacket) (rest : List (List RtpPacket × List AvPacket)) :
    flat ((u, out) :: rest) = u ++ flat rest := by simp [flat]

theorem getD_append_mid {α} (A u B : List α) (x : α) (d : α) : (A ++ (x :: u) ++ B).getD A.length d = x := by
  simp [List.getD_eq_getElem?_getD, List.append_assoc]

theorem range_map {α β} (f : α → β) (d : α) : ∀ (u A B : List α) (all : List α), all = A ++ u ++ B →
    (List.range' A.length u.length).map (fun i => f (all.getD i d)) = u.map f := by
  intro u
  induction u with
  | nil => intro A B all _; simp
  | cons x u' ih =>
    intro A B all h
    simp only [List.length_cons, List.range'_succ, List.map_cons]
    congr 1
    · rw [h, getD_append_mid]
    · have h2 : all = (A ++ [x]) ++ u' ++ B := by rw [h]; simp [List.append_assoc]
      have := ih (A ++ [x]) B all h2
      simpa using this

theorem chain_facts (pr : Proto) (d : RtpPacket) : ∀ (units : List (List RtpPacket × List AvPacket)) (seq : Nat),
    Chain pr seq units → ∀ i, i < (flat units).length →
      ((flat units).getD i d).hdr.seq = (seq + i) % 65536 ∧
      ∃ q, pr.calcPosition ((flat units).getD i d) = .ok q ∧ q.hdr = ((flat units).getD i d).hdr := by
  intro units
  induction units with
  | nil => intro seq _ i h; simp [flat] at h
  | cons x rest ih =>
    intro seq hc i hi
    obtain ⟨u, out⟩ := x
    obtain ⟨hu, hrest⟩ := hc
    rw [flat_cons] at hi ⊢
    by_cases hlt : i < u.length
    · have hget : (u ++ flat rest).getD i d = u[i] := by
        simp [List.getD_eq_getElem?_getD, List.getElem?_append_left hlt, List.getElem?_eq_getElem hlt]
      rw [hget]
      exact ⟨hu.seqs i hlt, hu.hcalc _ (List.getElem_mem hlt)⟩
    · have hge : u.length ≤ i := by omega
      have hget : (u ++ flat rest).getD i d = (flat rest).getD (i - u.length) d := by
        simp [List.getD_eq_getElem?_getD, List.getElem?_append_right hge]
      rw [hget]
      have := ih _ hrest (i - u.length) (by simp at hi; omega)
      refine ⟨?_, this.2⟩
      rw [this.1]; omega

section assemble
variable (pr : Proto) (s0 : Nat) (units : List (List RtpPacket × List AvPacket))

/-- the `i`-th packet sent / stored -/
def rawAt (i : Nat) : RtpPacket := (flat units).getD i default
def pkAt (i : Nat) : RtpPacket := posOf pr (rawAt units i)

theorem stream_of_chain (_hs0 : s0 < 65536) (hc : Chain pr s0 units) (hn : (flat units).length ≤ 32768) :
    Stream pr s0 (flat units).length (rawAt units) (pkAt pr units) := by
  have hf := chain_facts pr default units s0 hc
  have hsq : ∀ i, (s0 + i) % 65536 = sq s0 i := fun i => rfl
  refine ⟨hn, ?_, ?_, ?_⟩
  · intro i hi
    obtain ⟨q, hq, _⟩ := (hf i hi).2
    have hq' : pr.calcPosition (rawAt units i) = .ok q := hq
    show pr.calcPosition (rawAt units i) = .ok (posOf pr (rawAt units i))
    simp only [posOf, hq']
  · intro i hi; exact (hf i hi).1
  · intro i hi
    obtain ⟨q, hq, hh⟩ := (hf i hi).2
    have hq' : pr.calcPosition (rawAt units i) = .ok q := hq
    show (posOf pr (rawAt units i)).hdr.seq = _
    simp only [posOf, hq']
    rw [hh]; exact (hf i hi).1

theorem unitsOK_of_chain (hs0 : s0 < 65536) (hc0 : Chain pr s0 units) (hn : (flat units).length ≤ 32768) :
    ∀ (rest : List (List RtpPacket × List AvPacket)) (A : List RtpPacket), flat units = A ++ flat rest →
      Chain pr (sq s0 A.length) rest →
      UnitsOK pr s0 (flat units).length (pkAt pr units) A.length (rest.map fun x => (x.1.length, x.2)) := by
  have st := stream_of_chain pr s0 units hs0 hc0 hn
  intro rest
  induction rest with
  | nil =>
    intro A hA _
    show A.length = (flat units).length
    rw [hA]; simp [flat]
  | cons x rest ih =>
    intro A hA hc
    obtain ⟨u, out⟩ := x
    obtain ⟨hu, hrest⟩ := hc
    rw [flat_cons] at hA
    have hA' : flat units = A ++ u ++ flat rest := by rw [hA, List.append_assoc]
    have hlen : (flat units).length = A.length + u.length + (flat rest).length := by rw [hA']; simp; omega
    have hmap : (List.range' A.length u.length).map (pkAt pr units) = u.map (posOf pr) :=
      range_map (posOf pr) default u A (flat rest) (flat units) hA'
    show UnitsOK pr s0 _ _ A.length ((u.length, out) :: rest.map fun x => (x.1.length, x.2))
    refine ⟨hu.len, by omega, ?_, ?_, ?_⟩
    · intro T
      show pr.tryUnpackOne ((List.range' A.length u.length).map (pkAt pr units) ++ T) = _
      rw [hmap, hu.a1 T]
      have : (sq s0 A.length + u.length - 1) % 65536 = sq s0 (A.length + u.length - 1) := by
        have := hu.len; unfold sq; omega
      rw [this]
    · intro j T hj1 hj2 hT
      have hmapj : (List.range' A.length j).map (pkAt pr units) = (u.take j).map (posOf pr) := by
        rw [← take_range'_le j u.length A.length (by omega), List.map_take, hmap, ← List.map_take]
      show pr.tryUnpackOne ((List.range' A.length j).map (pkAt pr units) ++ T) = _
      rw [hmapj]
      apply hu.a2 j T hj1 hj2
      rcases hT with h | ⟨h, T', hT', hlo, hhi⟩
      · exact Or.inl h
      · refine Or.inr ⟨_, T', hT', ?_⟩
        rw [st.seqPk h hhi]
        have e : (sq s0 A.length + (j - 1)) % 65536 = sq s0 (A.length + j - 1) := by unfold sq; omega
        rw [e]
        intro hone
        have := (subSeq_sq s0 h (A.length + j - 1) (by omega)).mp hone
        omega
    · have hA2 : flat units = (A ++ u) ++ flat rest := hA'
      have e : (sq s0 A.length + u.length) % 65536 = sq s0 (A ++ u).length := by simp [sq]; omega
      have := ih (A ++ u) hA2 (e ▸ hrest)
      simpa using this

end assemble

/-! ### the stream lal's packer produces -/

/-- the payloads of one `Pack` call when the payload packer returns -/
def payloadsOf : Kind → Bytes → Nat → List Bytes
  | .avc, i, m => nalPayloads false i m
  | .hevc, i, m => nalPayloads true i m
  | .aac, i, m => aacPack i m
  | .pcm, i, m => rawPack i m
  | .opus, i, m => rawPack i m

/-- the unit a sender may hand to `RtpPacker.Pack` -/
def UnitWF : Kind → Bytes → Nat → Prop
  | .avc, u, m => AvcNalWF u m
  | .hevc, u, m => HevcNalWF u m
  | .aac, u, m => 0 < u.length ∧ u.length < 8192 ∧ 0 < m
  | .pcm, u, m => 0 < u.length ∧ 0 < m
  | .opus, u, m => 0 < u.length ∧ 0 < m

instance (k : Kind) (u : Bytes) (m : Nat) : Decidable (UnitWF k u m) := by
  cases k <;> unfold UnitWF <;> infer_instance

/-- what `onAvPacket` must receive for a frame: the media time back in milliseconds, the unit itself
    (AVCC: 4-byte length first for video) -/
def expected (kind : Kind) (rate : Nat) (f : Nat × Bytes) : AvPacket :=
  { ts := msOf rate (rtpTimestamp f.1 rate),
    payload := match kind with
      | .avc | .hevc => be32 f.2.length ++ f.2
      | _ => f.2 }

theorem payloadPack_ok (kind : Kind) (u : Bytes) (m : Nat) (h : UnitWF kind u m) :
    payloadPack kind u m = .ok (payloadsOf kind u m) := by
  cases kind with
  | avc =>
    have hw : NalWF false u m := by unfold NalWF; simpa [UnitWF] using h
    have hne : ¬ (u = [] ∨ m = 0) := by
      intro hc
      rcases hc with rfl | rfl
      · exact h
      · rcases hw.fits with h1 | h1
        · have : u = [] := by simpa using h1
          subst this; exact h
        · simp [fuHeaderSize] at h1
    simp only [payloadPack, avcHevcPack, if_neg hne, payloadsOf]
    exact packNal_ok false u m hw.fits
  | hevc =>
    have hw : NalWF true u m := by unfold NalWF; simpa [UnitWF] using h
    have hne : ¬ (u = [] ∨ m = 0) := by
      intro hc
      rcases hc with rfl | rfl
      · exact h
      · rcases hw.fits with h1 | h1
        · have : u = [] := by simpa using h1
          subst this; exact h
        · simp [fuHeaderSize] at h1
    simp only [payloadPack, avcHevcPack, if_neg hne, payloadsOf]
    exact packNal_ok true u m hw.fits
  | aac => rfl
  | pcm => rfl
  | opus => rfl

/-- units with their expected outputs, the sequence number threaded as `genSeq` does -/
def streamU (kind : Kind) (rate ssrc maxSize pt : Nat) : Nat → List (Nat × Bytes) → List (List RtpPacket × List AvPacket)
  | _, [] => []
  | seq, f :: fs =>
    (packLoop pt (rtpTimestamp f.1 rate) ssrc seq (payloadsOf kind f.2 maxSize), [expected kind rate f]) ::
      streamU kind rate ssrc maxSize pt ((seq + (payloadsOf kind f.2 maxSize).length) % 65536) fs

theorem packerPackAll_ok (kind : Kind) (rate ssrc maxSize pt : Nat) : ∀ (frames : List (Nat × Bytes)) (seq : Nat),
    (∀ f ∈ frames, UnitWF kind f.2 maxSize) →
    packerPackAll kind rate ssrc maxSize pt seq frames = .ok ((streamU kind rate ssrc maxSize pt seq frames).map (·.1)) := by
  intro frames
  induction frames with
  | nil => intro seq _; rfl
  | cons f fs ih =>
    intro seq hwf
    obtain ⟨ms, u⟩ := f
    have h1 := payloadPack_ok kind u maxSize (hwf (ms, u) (by simp))
    simp only [packerPackAll, packerPack, h1, ih _ (fun g hg => hwf g (by simp [hg])), streamU, List.map_cons]

theorem streamU_outs (kind : Kind) (rate ssrc maxSize pt : Nat) : ∀ (frames : List (Nat × Bytes)) (seq : Nat),
    (streamU kind rate ssrc maxSize pt seq frames).flatMap (·.2) = frames.map (expected kind rate) := by
  intro frames
  induction frames with
  | nil => intro seq; rfl
  | cons f fs ih => intro seq; simp [streamU, ih]

theorem chain_streamU (kind : Kind) (rate ssrc maxSize pt : Nat) (hr : 1000 ≤ rate ∧ rate < 4294967296000) :
    ∀ (frames : List (Nat × Bytes)) (seq : Nat), seq < 65536 → (∀ f ∈ frames, UnitWF kind f.2 maxSize) →
    Chain (protoOf kind rate) seq (streamU kind rate ssrc maxSize pt seq frames) := by
  intro frames
  induction frames with
  | nil => intro seq _ _; trivial
  | cons f fs ih =>
    intro seq hs hwf
    obtain ⟨ms, u⟩ := f
    have hw := hwf (ms, u) (by simp)
    refine ⟨?_, ?_⟩
    · cases kind with
      | avc => exact unit_video false rate pt ssrc maxSize seq _ u hr hs (by unfold NalWF; simpa [UnitWF] using hw)
      | hevc => exact unit_video true rate pt ssrc maxSize seq _ u hr hs (by unfold NalWF; simpa [UnitWF] using hw)
      | aac => exact unit_aac rate pt ssrc maxSize seq _ u hr hs hw.1 hw.2.1 hw.2.2
      | pcm => exact unit_raw rate pt ssrc maxSize seq _ u hr hs hw.1 hw.2
      | opus => exact unit_raw rate pt ssrc maxSize seq _ u hr hs hw.1 hw.2
    · rw [packLoop_length]
      exact ih _ (by omega) (fun g hg => hwf g (by simp [hg]))

/-- End to end: lal's packets, any arrival order inside the window with duplicates and wrap-around,
    lal's container and unpackers ⇒ every unit is delivered once, in order, byte for byte. -/
theorem feedAll_stream (kind : Kind) (rate ssrc maxSize pt seq0 listMax : Nat) (frames : List (Nat × Bytes)) (σ : List Nat)
    (hr : 1000 ≤ rate ∧ rate < 4294967296000) (hs0 : seq0 < 65536)
    (hwf : ∀ f ∈ frames, UnitWF kind f.2 maxSize)
    (hn : (flat (streamU kind rate ssrc maxSize pt seq0 frames)).length ≤ 32768)
    (hσ : ∀ i ∈ σ, i < (flat (streamU kind rate ssrc maxSize pt seq0 frames)).length)
    (hfirst : σ.head? = some 0)
    (hall : ∀ i, i < (flat (streamU kind rate ssrc maxSize pt seq0 frames)).length → i ∈ σ)
    (hwin : inWindow listMax ((streamU kind rate ssrc maxSize pt seq0 frames).map (·.1.length)) 0 [] σ = true) :
    ∃ l', feedAll (protoOf kind rate) { maxSize := listMax } (σ.map (rawAt (streamU kind rate ssrc maxSize pt seq0 frames)))
      = .ok (l', frames.map (expected kind rate)) := by
  let units := streamU kind rate ssrc maxSize pt seq0 frames
  have hc : Chain (protoOf kind rate) seq0 units := chain_streamU kind rate ssrc maxSize pt hr frames seq0 hs0 hwf
  have st := stream_of_chain (protoOf kind rate) seq0 units hs0 hc hn
  have hsq : sq seq0 ([] : List RtpPacket).length = seq0 := by simp [sq, Nat.mod_eq_of_lt hs0]
  have hu := unitsOK_of_chain (protoOf kind rate) seq0 units hs0 hc hn units [] (by simp) (by rw [hsq]; exact hc)
  have hmax : Maximal (units.map fun x => (x.1.length, x.2)) 0 [] := by
    cases hx : units with
    | nil => simp [Maximal]
    | cons x xs =>
      rw [hx] at hu
      obtain ⟨h1, _⟩ := hu
      simp only [List.map_cons, Maximal]
      obtain ⟨k, hk⟩ : ∃ k, x.1.length = k + 1 := ⟨x.1.length - 1, by omega⟩
      rw [hk]; simp [List.range'_succ]
  have hwin' : inWindow listMax ((units.map fun x => (x.1.length, x.2)).map (·.1)) 0 [] σ = true := by
    rw [List.map_map]; exact hwin
  obtain ⟨l', h⟩ := feedAll_reorder (listMax := listMax) st σ (units.map fun x => (x.1.length, x.2)) 0 [] []
    { maxSize := listMax } hu
    { items := rfl, size := rfl, flag := rfl, done := (fun h => by omega), max := rfl }
    { sorted := List.Pairwise.nil, lo := (fun x hx => by cases hx), hi := (fun x hx => by cases hx), first := fun _ => Or.inl rfl }
    (fun x hx => by cases hx) hmax hσ (fun _ _ => Or.inr hfirst) hwin' (fun i hi => Or.inr (hall i hi))
  refine ⟨l', ?_⟩
  rw [h]
  congr 2
  rw [List.flatMap_map]
  exact streamU_outs kind rate ssrc maxSize pt frames seq0

end Lal.RtpUnpack
