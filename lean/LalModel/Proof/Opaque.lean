import LalModel.Proof.TsRemux
import LalModel.Proof.RtspRemux
import LalModel.Model.Fanout
/-
  Payloads lal cannot interpret: what the remuxers and the subscriber loops do with them.
-/
namespace Lal
open Lal.MsgClass
set_option linter.unusedSimpArgs false

theorem TsRemux.onPop_unknown_video {σ} (o : TsRemux.Observer σ) (s : TsRemux.St) (os : σ) (m : Msg)
    (hv : m.typeId = tVideo) (hc : videoCodecIdP m ≠ 7 ∧ videoCodecIdP m ≠ 12) : TsRemux.onPop o s os m = .ok (s, os) := by
  have hne : ¬ (tVideo = tAudio) := by decide
  unfold TsRemux.onPop TsRemux.feedVideo
  simp only [hne, hv, if_false, if_true, videoCodecId_eq, GoM.ok_bind, GoM.pure_eq, hc, ne_eq, not_false_eq_true, and_self]
  split <;> rfl

theorem TsRemux.onPop_unknown_audio {σ} (o : TsRemux.Observer σ) (s : TsRemux.St) (os : σ) (m : Msg)
    (ha : m.typeId = tAudio) (hc : audioCodecIdP m ≠ 10 ∧ audioCodecIdP m ≠ 13) : TsRemux.onPop o s os m = .ok (s, os) := by
  unfold TsRemux.onPop
  simp only [ha, if_true, audioCodecId_eq, GoM.ok_bind, GoM.pure_eq, hc, ne_eq, not_false_eq_true, and_self]

theorem RtspRemux.remux_no_video_packer (s : RtspRemux.St) (m : Msg) (hv : m.typeId = tVideo) (hs : s.sps = none) :
    RtspRemux.remux s m = .ok (s, []) := by
  have hne : ¬ (tVideo = tAudio) := by decide
  unfold RtspRemux.remux RtspRemux.getVideoPacker
  simp [hne, hv, hs]

theorem RtspRemux.remux_no_audio_packer (s : RtspRemux.St) (m : Msg) (ha : m.typeId = tAudio)
    (hp : s.audioPacker = none) (hpt : s.audioPt = Sdp.ptUnknown) : RtspRemux.remux s m = .ok (s, []) := by
  unfold RtspRemux.remux RtspRemux.getAudioPacker
  simp [ha, hp, hpt, Sdp.ptUnknown, Sdp.ptG711A, Sdp.ptG711U, Sdp.ptOpus, Sdp.ptAac]

theorem Fanout.rtmpSubStep_live (hdr cached n : Nat) (key isHdr : Bool) (s : Fanout.Sub) (hk : s.kind = .rtmp)
    (hf : s.fresh = false) (hw : s.wait = false) :
    Fanout.rtmpSubStep hdr cached n key isHdr s = { s with count := s.count + 1 } := by
  unfold Fanout.rtmpSubStep
  simp [hk, hf, hw]

theorem Fanout.flvSubStep_live (hdr cached n : Nat) (key isHdr : Bool) (s : Fanout.Sub) (hk : s.kind = .flv)
    (hf : s.fresh = false) (hw : s.wait = false) :
    Fanout.flvSubStep hdr cached n key isHdr s = { s with count := s.count + 1 } := by
  unfold Fanout.flvSubStep
  simp [hk, hf, hw]

end Lal
