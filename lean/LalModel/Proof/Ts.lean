import LalModel.Model.Ts
import LalModel.Spec.TsSpec
import LalModel.Proof.Bytes
namespace Lal.Ts
open Lal

theorem packPcr_length (v : Nat) : (packPcr v).length = 6 := rfl
theorem packPts_length (fb v : Nat) : (packPts fb v).length = 5 := rfl
theorem keyAf_length (f : Frame) : (keyAf f).length = 8 := rfl

theorem pesHeaderSize_cases (f : Frame) : (f.dts = f.pts ∧ pesHeaderSize f = 5) ∨ (f.dts ≠ f.pts ∧ pesHeaderSize f = 10) := by
  unfold pesHeaderSize
  by_cases h : f.dts = f.pts
  · left; simp [h]
  · right; simp [h]

theorem pesHeader_length (f : Frame) : (pesHeader f).length = 9 + pesHeaderSize f := by
  unfold pesHeader pesHeaderSize
  by_cases h : f.dts = f.pts
  · have h' : f.pts = f.dts := h.symm
    simp [h, packPts]
  · have h' : ¬ f.pts = f.dts := fun e => h e.symm
    simp [h, h', packPts]


/-- prefix of a packet before the frame bytes: adaptation field (first packet of a key frame) and PES header (first packet) -/
def afOf (f : Frame) (first : Bool) : Bytes := if first && f.key then keyAf f else []
def pesOf (f : Frame) (first : Bool) : Bytes := if first then pesHeader f else []
/-- `bodySize` of the Go loop -/
def bodySize (f : Frame) (first : Bool) : Nat := 188 - (4 + (afOf f first).length + (pesOf f first).length)

theorem afOf_length (f : Frame) (first : Bool) : (afOf f first).length = if first && f.key then 8 else 0 := by
  unfold afOf; split <;> simp [keyAf_length]

theorem pesOf_length (f : Frame) (first : Bool) : (pesOf f first).length = if first then 9 + pesHeaderSize f else 0 := by
  unfold pesOf; split <;> simp [pesHeader_length]

theorem bodySize_ge (f : Frame) (first : Bool) : 157 ≤ bodySize f first ∧ bodySize f first ≤ 184 := by
  unfold bodySize
  rw [afOf_length, pesOf_length]
  rcases pesHeaderSize_cases f with ⟨_, h⟩ | ⟨_, h⟩ <;> rw [h] <;> split <;> split <;> omega

theorem bodySize_eq (f : Frame) (first : Bool) :
    bodySize f first + (4 + (afOf f first).length + (pesOf f first).length) = 188 := by
  have := bodySize_ge f first
  unfold bodySize at *
  omega

theorem tsHeader_length (a : Bool) (b c : Nat) (d : Bool) : (tsHeader a b c d).length = 4 := rfl

theorem onePacket_length (f : Frame) (first : Bool) (cc : Nat) (rest : Bytes) :
    (onePacket f first cc rest).1.length = 188 := by
  have hp := pesHeader_length f
  have hs := pesHeaderSize_cases f
  unfold onePacket
  cases first <;> cases hk : f.key <;>
    simp only [Bool.false_and, Bool.true_and, Bool.false_eq_true, if_false, if_true, List.length_nil, keyAf_length] <;>
    split <;> (try split) <;> (try split) <;>
    simp only [List.length_append, tsHeader_length, List.length_take, List.length_cons, List.length_drop,
      keyAf_length, List.length_replicate, List.length_nil] at * <;>
    omega

theorem onePacket_rest (f : Frame) (first : Bool) (cc : Nat) (rest : Bytes) :
    (onePacket f first cc rest).2 = rest.drop (bodySize f first) := by
  have hp := pesHeader_length f
  have hs := pesHeaderSize_cases f
  unfold onePacket bodySize afOf pesOf
  cases first <;> cases hk : f.key <;>
    simp only [Bool.false_and, Bool.true_and, Bool.false_eq_true, if_false, if_true, List.length_nil, keyAf_length] <;>
    split <;> (try split) <;> (try rfl) <;>
    (symm; apply List.drop_eq_nil_of_le; omega)

end Lal.Ts

namespace Lal.TsSpec
open Lal

/-- payload-only packet -/
theorem parsePacket_plain (b1 b2 b3 : UInt8) (body : Bytes)
    (hl : body.length = 184) (h1 : b1.toNat / 128 % 2 = 0) (h3 : b3.toNat / 16 = 1) :
    parsePacket (0x47 :: b1 :: b2 :: b3 :: body)
      = some { pusi := b1.toNat / 64 % 2 = 1, pid := b1.toNat % 32 * 256 + b2.toNat, cc := b3.toNat % 16,
               af := none, payload := body } := by
  unfold parsePacket
  have hlen : ¬ (0x47 :: b1 :: b2 :: b3 :: body).length ≠ 188 := by simp [hl]
  rw [if_neg hlen]
  simp only []
  have e1 : ¬ (b1.toNat / 128 % 2 = 1) := by omega
  have e2 : ¬ (b3.toNat / 64 ≠ 0) := by omega
  have e3 : b3.toNat / 16 % 4 = 1 := by omega
  simp [e1, e2, e3]

/-- packet with an adaptation field followed by payload -/
theorem parsePacket_af (b1 b2 b3 l : UInt8) (afb pl : Bytes) (af : AdaptationField)
    (hl : afb.length + pl.length = 183) (hn : afb.length = l.toNat) (hn2 : l.toNat ≤ 182)
    (h1 : b1.toNat / 128 % 2 = 0) (h3 : b3.toNat / 16 = 3)
    (haf : parseAfBody afb = some af) :
    parsePacket (0x47 :: b1 :: b2 :: b3 :: l :: (afb ++ pl))
      = some { pusi := b1.toNat / 64 % 2 = 1, pid := b1.toNat % 32 * 256 + b2.toNat, cc := b3.toNat % 16,
               af := some af, payload := pl } := by
  unfold parsePacket
  have hlen : ¬ (0x47 :: b1 :: b2 :: b3 :: l :: (afb ++ pl)).length ≠ 188 := by simp; omega
  rw [if_neg hlen]
  simp only []
  have e1 : ¬ (b1.toNat / 128 % 2 = 1) := by omega
  have e2 : ¬ (b3.toNat / 64 ≠ 0) := by omega
  have e3 : b3.toNat / 16 % 4 = 3 := by omega
  have t : (afb ++ pl).take l.toNat = afb := by rw [← hn]; simp
  have d : (afb ++ pl).drop l.toNat = pl := by rw [← hn]; simp
  simp [e1, e2, e3, t, d, haf]
  omega


theorem all_ff (k : Nat) : (List.replicate k (0xFF : UInt8)).all (· == 0xFF) = true := by
  simp

theorem parseAfBody_nil : parseAfBody [] = some {} := rfl

theorem parseAfBody_stuff (k : Nat) : parseAfBody (0x00 :: List.replicate k 0xFF) = some {} := by
  simp [parseAfBody]

theorem parseAfBody_pcr (v k : Nat) :
    parseAfBody (0x50 :: (Ts.packPcr v ++ List.replicate k 0xFF))
      = some { discontinuity := false, randomAccess := true, pcr := some (v % 8589934592, 0) } := by
  simp [parseAfBody, Ts.packPcr]
  omega


theorem parseTimestamp_packPts (fb v : Nat) (hfb : fb ≤ 3) :
    parseTimestamp fb (Ts.packPts fb v) = some (v % 8589934592) := by
  simp only [Ts.packPts, parseTimestamp, b8_toNat]
  have a : ¬ ((fb * 16 + v / 1073741824 % 8 * 2 + 1) % 256 / 16 ≠ fb) := by omega
  have b : ¬ ((fb * 16 + v / 1073741824 % 8 * 2 + 1) % 256 % 2 ≠ 1 ∨ (v / 32768 % 32768 * 2 + 1) % 256 % 2 ≠ 1 ∨
      (v % 32768 * 2 + 1) % 256 % 2 ≠ 1) := by omega
  rw [if_neg a, if_neg b]
  congr 1
  omega

theorem plainStreamId_av (sid : Nat) (hs : 0xC0 ≤ sid ∧ sid ≤ 0xEF) : plainStreamId sid = false := by
  simp [plainStreamId]; omega

/-- generic: a PES packet with the optional header, flags byte `fl`, header data `hdr`, then `data` -/
theorem parsePes_shape (sid P : Nat) (fl : UInt8) (hdr data : Bytes)
    (hs : 0xC0 ≤ sid ∧ sid ≤ 0xEF) (hP : P < 65536) (hh : hdr.length < 256)
    (hP0 : P = 0 → videoStreamId sid = true) (hP1 : P ≠ 0 → 3 + hdr.length + data.length = P) :
    parsePes (0x00 :: 0x00 :: 0x01 :: b8 sid :: b8 (P / 256) :: b8 P :: 0x80 :: fl :: b8 hdr.length :: (hdr ++ data))
      = (let ptsDts := fl.toNat / 64
          if ptsDts = 0 then some { sid := sid, declLen := P, pts := none, dts := none, data := data }
          else if ptsDts = 1 then none
          else if ptsDts = 2 then
            if hdr.length < 5 then none else
            match parseTimestamp 2 (hdr.take 5) with
            | none => none
            | some pts => some { sid := sid, declLen := P, pts := some pts, dts := some pts, data := data }
          else
            if hdr.length < 10 then none else
            match parseTimestamp 3 (hdr.take 5), parseTimestamp 1 ((hdr.drop 5).take 5) with
            | some pts, some dts => some { sid := sid, declLen := P, pts := some pts, dts := some dts, data := data }
            | _, _ => none) := by
  have hsid : (b8 sid).toNat = sid := by simp; omega
  have hl : (b8 hdr.length).toNat = hdr.length := by simp; omega
  have hd : rd16 (b8 (P / 256)) (b8 P) = P := rd16_be16 P hP
  unfold parsePes
  simp only [hsid, hd, hl, plainStreamId_av sid hs]
  have c1 : ¬ sid < 0xBC := by omega
  have c2 : ¬ (P = 0 ∧ (!videoStreamId sid) = true) := by
    intro ⟨a, b⟩; rw [hP0 a] at b; simp at b
  have c3 : ¬ (P ≠ 0 ∧ (0x80 :: fl :: b8 hdr.length :: (hdr ++ data)).length ≠ P) := by
    intro ⟨a, b⟩; apply b; have := hP1 a; simp; omega
  rw [if_neg c1, if_neg c2, if_neg c3]
  simp
  rw [if_neg (by omega : ¬ (hdr.length + data.length < hdr.length))]
  rfl


/-- what a demultiplexer reads from lal's PES header followed by the frame -/
theorem parsePes_pesHeader (f : Ts.Frame) (hs : 0xC0 ≤ f.sid ∧ f.sid ≤ 0xEF)
    (hlen : videoStreamId f.sid = true ∨ f.raw.length + Ts.pesHeaderSize f + 3 ≤ 65535) :
    parsePes (Ts.pesHeader f ++ f.raw)
      = some { sid := f.sid,
               declLen := if f.raw.length + Ts.pesHeaderSize f + 3 > 65535 then 0 else f.raw.length + Ts.pesHeaderSize f + 3,
               pts := some ((f.pts + Ts.delay) % 8589934592), dts := some ((f.dts + Ts.delay) % 8589934592),
               data := f.raw } := by
  by_cases h : f.dts = f.pts
  · have h' : f.pts = f.dts := h.symm
    have hsz : Ts.pesHeaderSize f = 5 := by simp [Ts.pesHeaderSize, h]
    rw [hsz] at hlen ⊢
    generalize hP : (if f.raw.length + 5 + 3 > 65535 then 0 else f.raw.length + 5 + 3) = P
    have hPlt : P < 65536 := by rw [← hP]; split <;> omega
    have hP0 : P = 0 → videoStreamId f.sid = true := by
      intro hz; rw [← hP] at hz; split at hz
      · rcases hlen with a | a
        · exact a
        · omega
      · omega
    have hP1 : P ≠ 0 → 3 + (Ts.packPts 2 ((f.pts + Ts.delay) % 18446744073709551616)).length + f.raw.length = P := by
      intro hz; rw [← hP] at hz ⊢; split at hz
      · omega
      · rename_i hb; rw [if_neg hb]; simp [Ts.packPts]; omega
    have e := parsePes_shape f.sid P (b8 0x80)
      (Ts.packPts 2 ((f.pts + Ts.delay) % 18446744073709551616)) f.raw hs hPlt (by simp [Ts.packPts]) hP0 hP1
    have hform : Ts.pesHeader f ++ f.raw = 0x00 :: 0x00 :: 0x01 :: b8 f.sid :: b8 (P / 256) :: b8 P :: 0x80 :: b8 0x80 ::
        b8 (Ts.packPts 2 ((f.pts + Ts.delay) % 18446744073709551616)).length ::
        (Ts.packPts 2 ((f.pts + Ts.delay) % 18446744073709551616) ++ f.raw) := by
      rw [← hP]
      simp [Ts.pesHeader, hsz, h, Ts.packPts]
    rw [hform, e]
    have ht := parseTimestamp_packPts 2 ((f.pts + Ts.delay) % 18446744073709551616) (by omega)
    have htk : (Ts.packPts 2 ((f.pts + Ts.delay) % 18446744073709551616)).take 5 = Ts.packPts 2 ((f.pts + Ts.delay) % 18446744073709551616) := rfl
    simp only [htk, ht]
    simp [Ts.packPts, h]
  · have h' : ¬ f.pts = f.dts := fun e => h e.symm
    have hsz : Ts.pesHeaderSize f = 10 := by simp [Ts.pesHeaderSize, h]
    rw [hsz] at hlen ⊢
    generalize hP : (if f.raw.length + 10 + 3 > 65535 then 0 else f.raw.length + 10 + 3) = P
    generalize hX : (f.pts + Ts.delay) % 18446744073709551616 = X
    generalize hY : (f.dts + Ts.delay) % 18446744073709551616 = Y
    have hPlt : P < 65536 := by rw [← hP]; split <;> omega
    have hP0 : P = 0 → videoStreamId f.sid = true := by
      intro hz; rw [← hP] at hz; split at hz
      · rcases hlen with a | a
        · exact a
        · omega
      · omega
    have hP1 : P ≠ 0 → 3 + (Ts.packPts 3 X ++ Ts.packPts 1 Y).length + f.raw.length = P := by
      intro hz; rw [← hP] at hz ⊢; split at hz
      · omega
      · rename_i hb; rw [if_neg hb]; simp [Ts.packPts]; omega
    have e := parsePes_shape f.sid P (b8 0xC0) (Ts.packPts 3 X ++ Ts.packPts 1 Y) f.raw hs hPlt (by simp [Ts.packPts]) hP0 hP1
    have hform : Ts.pesHeader f ++ f.raw = 0x00 :: 0x00 :: 0x01 :: b8 f.sid :: b8 (P / 256) :: b8 P :: 0x80 :: b8 0xC0 ::
        b8 (Ts.packPts 3 X ++ Ts.packPts 1 Y).length :: ((Ts.packPts 3 X ++ Ts.packPts 1 Y) ++ f.raw) := by
      rw [← hP, ← hX, ← hY]
      simp [Ts.pesHeader, hsz, h, h', Ts.packPts]
    rw [hform, e]
    have ht3 := parseTimestamp_packPts 3 X (by omega)
    have ht1 := parseTimestamp_packPts 1 Y (by omega)
    have htk : (Ts.packPts 3 X ++ Ts.packPts 1 Y).take 5 = Ts.packPts 3 X := rfl
    have htd : ((Ts.packPts 3 X ++ Ts.packPts 1 Y).drop 5).take 5 = Ts.packPts 1 Y := rfl
    simp only [htk, htd, ht3, ht1]
    simp [Ts.packPts, ← hX, ← hY]


end Lal.TsSpec

namespace Lal.Ts
open Lal Lal.TsSpec

/-- `pcr` of the Go code -/
def pcrVal (f : Frame) : Nat := if f.dts > delay then f.dts - delay else 0

/-- the adaptation field a demultiplexer sees in a packet of the frame -/
def expAf (f : Frame) (first stuffed : Bool) : Option AdaptationField :=
  if first && f.key then some { discontinuity := false, randomAccess := true, pcr := some (pcrVal f % 8589934592, 0) }
  else if stuffed then some {} else none

def expPacket (f : Frame) (first : Bool) (cc : Nat) (rest : Bytes) : Packet :=
  { pusi := first, pid := f.pid % 8192, cc := cc % 16,
    af := expAf f first (decide (rest.length < bodySize f first)),
    payload := pesOf f first ++ rest.take (bodySize f first) }

theorem hdr_facts (pusi : Bool) (pid cc : Nat) (af : Bool) :
    tsHeader pusi pid cc af = [0x47, b8 ((if pusi then 64 else 0) + pid / 256 % 32), b8 pid, b8 ((if af then 48 else 16) + cc % 16)]
    ∧ (b8 ((if pusi then 64 else 0) + pid / 256 % 32)).toNat / 128 % 2 = 0
    ∧ ((b8 ((if pusi then 64 else 0) + pid / 256 % 32)).toNat / 64 % 2 = 1 ↔ pusi = true)
    ∧ (b8 ((if pusi then 64 else 0) + pid / 256 % 32)).toNat % 32 * 256 + (b8 pid).toNat = pid % 8192
    ∧ (b8 ((if af then 48 else 16) + cc % 16)).toNat / 16 = (if af then 3 else 1)
    ∧ (b8 ((if af then 48 else 16) + cc % 16)).toNat % 16 = cc % 16 := by
  refine ⟨rfl, ?_, ?_, ?_, ?_, ?_⟩ <;> simp only [b8_toNat] <;> cases pusi <;> cases af <;> simp <;> omega

theorem parse_plain (pusi : Bool) (pid cc : Nat) (pl : Bytes) (hl : pl.length = 184) :
    parsePacket (tsHeader pusi pid cc false ++ pl)
      = some { pusi := pusi, pid := pid % 8192, cc := cc % 16, af := none, payload := pl } := by
  obtain ⟨e, h1, h2, h3, h4, h5⟩ := hdr_facts pusi pid cc false
  rw [e]
  simp only [List.cons_append, List.nil_append]
  rw [parsePacket_plain _ _ _ _ hl h1 (by simpa using h4)]
  simp only [h3, h5]
  cases pusi <;> simp_all

theorem parse_stuffNoAf (pusi : Bool) (pid cc stuff : Nat) (pl : Bytes) (h1 : 1 ≤ stuff) (hl : stuff + pl.length = 184)
    (hpl : 1 ≤ pl.length) :
    parsePacket (tsHeader pusi pid cc true
        ++ (b8 (stuff - 1) :: (if stuff ≥ 2 then 0x00 :: List.replicate (stuff - 2) 0xFF else [])) ++ pl)
      = some { pusi := pusi, pid := pid % 8192, cc := cc % 16, af := some {}, payload := pl } := by
  obtain ⟨e, g1, g2, g3, g4, g5⟩ := hdr_facts pusi pid cc true
  rw [e]
  simp only [List.cons_append, List.nil_append]
  have hlt : (b8 (stuff - 1)).toNat = stuff - 1 := by simp; omega
  have haf : parseAfBody (if stuff ≥ 2 then 0x00 :: List.replicate (stuff - 2) 0xFF else []) = some {} := by
    split
    · exact parseAfBody_stuff _
    · rfl
  have hal : (if stuff ≥ 2 then (0x00 : UInt8) :: List.replicate (stuff - 2) 0xFF else []).length = stuff - 1 := by
    split <;> simp <;> omega
  rw [parsePacket_af _ _ _ _ _ pl {} (by rw [hal]; omega) (by rw [hal, hlt]) (by rw [hlt]; omega) g1 (by simpa using g4) haf]
  simp only [g3]
  cases pusi <;> simp_all

theorem parse_keyAf (pid cc v stuff : Nat) (pl : Bytes) (hl : 8 + stuff + pl.length = 184) (hpl : 1 ≤ pl.length) :
    parsePacket (tsHeader true pid cc true ++ (b8 (7 + stuff) :: 0x50 :: packPcr v) ++ List.replicate stuff 0xFF ++ pl)
      = some { pusi := true, pid := pid % 8192, cc := cc % 16,
               af := some { discontinuity := false, randomAccess := true, pcr := some (v % 8589934592, 0) }, payload := pl } := by
  obtain ⟨e, g1, g2, g3, g4, g5⟩ := hdr_facts true pid cc true
  rw [e]
  have hlt : (b8 (7 + stuff)).toNat = 7 + stuff := by simp; omega
  have hform : [0x47, b8 ((if true = true then 64 else 0) + pid / 256 % 32), b8 pid, b8 ((if true = true then 48 else 16) + cc % 16)]
        ++ (b8 (7 + stuff) :: 0x50 :: packPcr v) ++ List.replicate stuff 0xFF ++ pl
      = 0x47 :: b8 ((if true = true then 64 else 0) + pid / 256 % 32) :: b8 pid :: b8 ((if true = true then 48 else 16) + cc % 16)
          :: b8 (7 + stuff) :: ((0x50 :: (packPcr v ++ List.replicate stuff 0xFF)) ++ pl) := by
    simp
  rw [hform]
  rw [parsePacket_af _ _ _ _ _ pl _ (by simp [packPcr]; omega) (by rw [hlt]; simp [packPcr]; omega) (by rw [hlt]; omega)
        g1 (by simpa using g4) (parseAfBody_pcr v stuff)]
  simp_all

theorem parse_onePacket (f : Frame) (first : Bool) (cc : Nat) (rest : Bytes) (hr : rest ≠ []) :
    parsePacket (onePacket f first cc rest).1 = some (expPacket f first cc rest) := by
  have hp := pesHeader_length f
  have hs := pesHeaderSize_cases f
  have hrl : 0 < rest.length := List.length_pos_iff.mpr hr
  have hb := bodySize_eq f first
  unfold expPacket expAf
  unfold onePacket
  unfold bodySize afOf pesOf at *
  cases first
  · -- a later packet: no adaptation field of its own, no PES header
    simp only [Bool.false_and, Bool.false_eq_true, if_false, List.length_nil, List.append_nil, List.nil_append] at hb ⊢
    split
    · rename_i h
      rw [parse_plain _ _ _ _ (by simp; omega)]
      simp; omega
    · rename_i h
      rw [parse_stuffNoAf _ _ _ _ _ (by omega) (by omega) (by omega)]
      have : rest.take (188 - (4 + 0 + 0)) = rest := List.take_of_length_le (by omega)
      simp [this]; omega
  · cases hk : f.key
    · -- first packet, not a key frame: PES header only
      simp only [hk, Bool.true_and, Bool.false_eq_true, if_false, if_true, List.length_nil, List.append_nil] at hb ⊢
      split
      · rename_i h
        rw [List.append_assoc, parse_plain _ _ _ _ (by simp; omega)]
        simp; omega
      · rename_i h
        rw [List.append_assoc, parse_stuffNoAf _ _ _ _ _ (by omega) (by simp; omega) (by simp; omega)]
        have : rest.take (188 - (4 + 0 + (pesHeader f).length)) = rest := List.take_of_length_le (by omega)
        simp [this]; omega
    · -- first packet of a key frame: adaptation field with PCR, then the PES header
      simp only [hk, Bool.true_and, if_true, keyAf_length] at hb ⊢
      split
      · rename_i h
        have e : tsHeader true f.pid cc true ++ keyAf f ++ pesHeader f ++ rest.take (188 - (4 + 8 + (pesHeader f).length))
            = tsHeader true f.pid cc true ++ (b8 (7 + 0) :: 0x50 :: packPcr (pcrVal f)) ++ List.replicate 0 0xFF
                ++ (pesHeader f ++ rest.take (188 - (4 + 8 + (pesHeader f).length))) := by
          simp [keyAf, pcrVal]; rfl
        rw [e, parse_keyAf _ _ _ _ _ (by simp; omega) (by simp; omega)]
      · rename_i h
        have e : tsHeader true f.pid cc true ++ (b8 (7 + (188 - (4 + 8 + (pesHeader f).length) - rest.length)) :: (keyAf f).drop 1)
              ++ List.replicate (188 - (4 + 8 + (pesHeader f).length) - rest.length) 0xFF ++ pesHeader f ++ rest
            = tsHeader true f.pid cc true ++ (b8 (7 + (188 - (4 + 8 + (pesHeader f).length) - rest.length)) :: 0x50 :: packPcr (pcrVal f))
                ++ List.replicate (188 - (4 + 8 + (pesHeader f).length) - rest.length) 0xFF ++ (pesHeader f ++ rest) := by
          simp [keyAf, pcrVal]
        rw [e, parse_keyAf _ _ _ _ _ (by simp; omega) (by simp; omega)]
        have : rest.take (188 - (4 + 8 + (pesHeader f).length)) = rest := List.take_of_length_le (by omega)
        simp [this]


/-- what a demultiplexer sees packet by packet (mirrors `packLoop`) -/
def expLoop (f : Frame) : Nat → Bool → Nat → Bytes → List Packet
  | 0, _, _, _ => []
  | fuel + 1, first, cc, rest =>
    if rest.isEmpty then [] else
    expPacket f first ((cc + 1) % 256) rest :: expLoop f fuel false ((cc + 1) % 256) (rest.drop (bodySize f first))

theorem onePacket_head (f : Frame) (first : Bool) (cc : Nat) (rest : Bytes) :
    (onePacket f first cc rest).1.head? = some 0x47 := by
  unfold onePacket
  cases first <;> cases hk : f.key <;>
    simp only [Bool.false_and, Bool.true_and, Bool.false_eq_true, if_false, if_true, List.length_nil, keyAf_length] <;>
    split <;> (try split) <;> rfl

theorem parse_packLoop (f : Frame) : ∀ fuel first cc rest, cc < 256 →
    parsePackets (packLoop f fuel first cc rest).1 = some (expLoop f fuel first cc rest)
    ∧ (packLoop f fuel first cc rest).1.length = (expLoop f fuel first cc rest).length
    ∧ (packLoop f fuel first cc rest).2 = (cc + (expLoop f fuel first cc rest).length) % 256 := by
  intro fuel
  induction fuel with
  | zero => intro first cc rest hcc; simp [packLoop, expLoop, parsePackets]; omega
  | succ n ih =>
    intro first cc rest hcc
    unfold packLoop expLoop
    by_cases hr : rest = []
    · simp [hr, parsePackets]; omega
    · have hne : rest.isEmpty = false := by simpa using hr
      simp only [hne, Bool.false_eq_true, if_false]
      obtain ⟨a, b, c⟩ := ih false ((cc + 1) % 256) (onePacket f first ((cc + 1) % 256) rest).2 (by omega)
      rw [onePacket_rest] at a b c
      refine ⟨?_, ?_, ?_⟩
      · simp only [parsePackets, parse_onePacket f first _ rest hr, onePacket_rest, a]
      · simp only [List.length_cons, onePacket_rest, b]
      · simp only [onePacket_rest, c, List.length_cons]; omega

theorem packLoop_all188 (f : Frame) : ∀ fuel first cc rest, ∀ p ∈ (packLoop f fuel first cc rest).1,
    p.length = 188 ∧ p.head? = some 0x47 := by
  intro fuel
  induction fuel with
  | zero => intro first cc rest p hp; simp [packLoop] at hp
  | succ n ih =>
    intro first cc rest p hp
    unfold packLoop at hp
    by_cases hr : rest = []
    · simp [hr] at hp
    · have hne : rest.isEmpty = false := by simpa using hr
      simp only [hne, Bool.false_eq_true, if_false, List.mem_cons] at hp
      rcases hp with rfl | hp
      · exact ⟨onePacket_length _ _ _ _, onePacket_head _ _ _ _⟩
      · exact ih _ _ _ p hp


theorem expLoop_payload (f : Frame) : ∀ fuel first cc rest, rest.length ≤ fuel →
    (expLoop f fuel first cc rest).flatMap (·.payload) = if rest = [] then [] else pesOf f first ++ rest := by
  intro fuel
  induction fuel with
  | zero =>
    intro first cc rest h
    have : rest = [] := List.eq_nil_of_length_eq_zero (by omega)
    simp [expLoop, this]
  | succ n ih =>
    intro first cc rest h
    unfold expLoop
    by_cases hr : rest = []
    · simp [hr]
    · have hne : rest.isEmpty = false := by simpa using hr
      have hB := bodySize_ge f first
      have hrl : 0 < rest.length := List.length_pos_iff.mpr hr
      simp only [hne, Bool.false_eq_true, if_false, List.flatMap_cons, hr]
      rw [ih false _ (rest.drop (bodySize f first)) (by simp; omega)]
      have hd : (if rest.drop (bodySize f first) = [] then [] else pesOf f false ++ rest.drop (bodySize f first))
          = rest.drop (bodySize f first) := by
        by_cases h0 : rest.drop (bodySize f first) = []
        · rw [if_pos h0, h0]
        · rw [if_neg h0]; rfl
      rw [hd]
      simp only [expPacket]
      rw [List.append_assoc, List.take_append_drop]

theorem expLoop_idx (f : Frame) : ∀ fuel first cc rest i (h : i < (expLoop f fuel first cc rest).length),
    ((expLoop f fuel first cc rest)[i]).cc = (cc + 1 + i) % 16
    ∧ ((expLoop f fuel first cc rest)[i]).pusi = (first && i == 0)
    ∧ ((expLoop f fuel first cc rest)[i]).pid = f.pid % 8192
    ∧ ((expLoop f fuel first cc rest)[i]).payload ≠ []
    ∧ (first = false → ((expLoop f fuel first cc rest)[i]).af = none ∨ ((expLoop f fuel first cc rest)[i]).af = some {}) := by
  intro fuel
  induction fuel with
  | zero => intro first cc rest i h; simp [expLoop] at h
  | succ n ih =>
    intro first cc rest i h
    unfold expLoop at h ⊢
    by_cases hr : rest = []
    · simp [hr] at h
    · have hne : rest.isEmpty = false := by simpa using hr
      simp only [hne, Bool.false_eq_true, if_false] at h ⊢
      cases i with
      | zero =>
        have hB := bodySize_ge f first
        simp only [List.getElem_cons_zero, expPacket]
        refine ⟨by omega, by simp, trivial, ?_, ?_⟩
        · intro h0
          have h1 := (List.append_eq_nil_iff.mp h0).2
          have h2 := List.take_eq_nil_iff.mp h1
          rcases h2 with h2 | h2
          · omega
          · exact hr h2
        · intro hf
          subst hf
          simp only [expAf, Bool.false_and, Bool.false_eq_true, if_false]
          split
          · right; rfl
          · left; rfl
      | succ j =>
        simp only [List.getElem_cons_succ]
        have h' : j < (expLoop f n false ((cc + 1) % 256) (rest.drop (bodySize f first))).length := by
          simpa using h
        obtain ⟨a, b, c, d, e⟩ := ih false ((cc + 1) % 256) (rest.drop (bodySize f first)) j h'
        refine ⟨by rw [a]; omega, by rw [b]; simp, c, d, fun _ => e rfl⟩


theorem ccChain_of_idx : ∀ (ps : List Packet) (c : Nat),
    (∀ i (hi : i < ps.length), ps[i].cc = (c + 1 + i) % 16 ∧ ps[i].payload ≠ []) → ccChain (c % 16) ps = true := by
  intro ps
  induction ps with
  | nil => intro c _; rfl
  | cons p ps ih =>
    intro c h
    have h0 := h 0 (by simp)
    simp only [List.getElem_cons_zero] at h0
    have hne : p.payload.isEmpty = false := by simpa using h0.2
    unfold ccChain
    simp only [hne, Bool.false_eq_true, if_false, Bool.and_eq_true, beq_iff_eq]
    refine ⟨by rw [h0.1]; omega, ?_⟩
    have := ih (c + 1) (fun i hi => by
      have := h (i + 1) (by simp; omega)
      simp only [List.getElem_cons_succ] at this
      refine ⟨by rw [this.1]; omega, this.2⟩)
    rw [h0.1]
    have e : (c + 1 + 0) % 16 = (c + 1) % 16 := by omega
    rw [e]; exact this

theorem pack_unfold (f : Frame) (hraw : f.raw ≠ []) :
    ∃ m, f.raw.length = m + 1 ∧
      expLoop f f.raw.length true f.cc f.raw
        = expPacket f true ((f.cc + 1) % 256) f.raw
            :: expLoop f m false ((f.cc + 1) % 256) (f.raw.drop (bodySize f true)) := by
  have hrl : 0 < f.raw.length := List.length_pos_iff.mpr hraw
  refine ⟨f.raw.length - 1, by omega, ?_⟩
  have e : f.raw.length = (f.raw.length - 1) + 1 := by omega
  have hne : f.raw.isEmpty = false := by simpa using hraw
  conv => lhs; rw [e]; unfold expLoop
  simp only [hne, Bool.false_eq_true, if_false]

/-- The specification demultiplexer on the packets of one frame. -/
theorem demux_pack (f : Frame) (hraw : f.raw ≠ []) (hcc : f.cc < 256) (hpid : f.pid < 8192)
    (hs : 0xC0 ≤ f.sid ∧ f.sid ≤ 0xEF)
    (hlen : videoStreamId f.sid = true ∨ f.raw.length + pesHeaderSize f + 3 ≤ 65535) :
    demuxUnit (pack f).1
      = some { pid := f.pid, cc0 := (f.cc + 1) % 16, packets := (pack f).1.length, rai := f.key,
               pcr := if f.key then some (pcrVal f % 8589934592, 0) else none,
               laterMarks := false,
               pes := { sid := f.sid,
                        declLen := if f.raw.length + pesHeaderSize f + 3 > 65535 then 0 else f.raw.length + pesHeaderSize f + 3,
                        pts := some ((f.pts + delay) % 8589934592), dts := some ((f.dts + delay) % 8589934592),
                        data := f.raw } } := by
  obtain ⟨hparse, hlenEq, _⟩ := parse_packLoop f f.raw.length true f.cc f.raw hcc
  obtain ⟨m, hm, hexp⟩ := pack_unfold f hraw
  have hB := bodySize_ge f true
  have hidx := expLoop_idx f m false ((f.cc + 1) % 256) (f.raw.drop (bodySize f true))
  have hpay := expLoop_payload f f.raw.length true f.cc f.raw (Nat.le_refl _)
  rw [hexp] at hpay
  simp only [hraw, if_false, List.flatMap_cons] at hpay
  unfold demuxUnit pack
  rw [hlenEq, hparse, hexp]
  simp only []
  have c1 : (expPacket f true ((f.cc + 1) % 256) f.raw).pusi = true := rfl
  have c2 : (expLoop f m false ((f.cc + 1) % 256) (f.raw.drop (bodySize f true))).any (·.pusi) = false := by
    rw [List.any_eq_false]
    intro q hq
    obtain ⟨i, hi, rfl⟩ := List.mem_iff_getElem.mp hq
    simp [(hidx i hi).2.1]
  have c3 : (expLoop f m false ((f.cc + 1) % 256) (f.raw.drop (bodySize f true))).any
      (fun q => q.pid != (expPacket f true ((f.cc + 1) % 256) f.raw).pid) = false := by
    rw [List.any_eq_false]
    intro q hq
    obtain ⟨i, hi, rfl⟩ := List.mem_iff_getElem.mp hq
    simp [(hidx i hi).2.2.1, expPacket]
  have c4 : (expPacket f true ((f.cc + 1) % 256) f.raw).payload.isEmpty = false := by
    simp [expPacket, pesOf, pesHeader]
  have c5 : ccChain (expPacket f true ((f.cc + 1) % 256) f.raw).cc
      (expLoop f m false ((f.cc + 1) % 256) (f.raw.drop (bodySize f true))) = true := by
    apply ccChain_of_idx
    intro i hi
    exact ⟨(hidx i hi).1, (hidx i hi).2.2.2.1⟩
  have hlater : ∀ q ∈ expLoop f m false ((f.cc + 1) % 256) (f.raw.drop (bodySize f true)), q.af = none ∨ q.af = some {} := by
    intro q hq
    obtain ⟨i, hi, rfl⟩ := List.mem_iff_getElem.mp hq
    exact (hidx i hi).2.2.2.2 rfl
  simp only [c1, c2, c3, c4, c5, Bool.not_true, Bool.false_eq_true, if_false]
  rw [hpay]
  simp only [pesOf, if_true]
  rw [TsSpec.parsePes_pesHeader f hs hlen]
  simp only [expPacket, expAf, Bool.true_and]
  have hp : f.pid % 8192 = f.pid := Nat.mod_eq_of_lt hpid
  have hc : (f.cc + 1) % 256 % 16 = (f.cc + 1) % 16 := by omega
  cases hk : f.key
  · simp only [Bool.false_eq_true, if_false, hp, hc]
    by_cases hst : f.raw.length < bodySize f true <;> simp [hst] <;>
      (intro q hq; rcases hlater q hq with e | e <;> simp [e])
  · simp [hp, hc]
    intro q hq; rcases hlater q hq with e | e <;> simp [e]

/-- every packet of a frame as a demultiplexer sees its header -/
theorem pack_packets (f : Frame) (hcc : f.cc < 256) :
    ∃ qs, parsePackets (pack f).1 = some qs ∧ qs.length = (pack f).1.length
      ∧ (pack f).2 = (f.cc + qs.length) % 256
      ∧ ∀ i (h : i < qs.length), qs[i].cc = (f.cc + 1 + i) % 16 ∧ qs[i].pusi = (i == 0)
          ∧ qs[i].pid = f.pid % 8192 ∧ qs[i].payload ≠ [] := by
  obtain ⟨a, b, c⟩ := parse_packLoop f f.raw.length true f.cc f.raw hcc
  refine ⟨expLoop f f.raw.length true f.cc f.raw, a, b.symm, c, ?_⟩
  intro i h
  obtain ⟨h1, h2, h3, h4, _⟩ := expLoop_idx f f.raw.length true f.cc f.raw i h
  exact ⟨h1, by rw [h2]; simp, h3, h4⟩

theorem pack_nonempty (f : Frame) (hraw : f.raw ≠ []) : (pack f).1 ≠ [] := by
  obtain ⟨m, hm, _⟩ := pack_unfold f hraw
  have hne : f.raw.isEmpty = false := by simpa using hraw
  unfold pack
  rw [hm]
  unfold packLoop
  simp [hne]

theorem bodySize_false (f : Frame) : bodySize f false = 184 := by
  simp [bodySize, afOf, pesOf]

theorem bodySize_true (f : Frame) : bodySize f true = 184 - (if f.key then 8 else 0) - (9 + pesHeaderSize f) := by
  have hp := pesHeader_length f
  have hs := pesHeaderSize_cases f
  unfold bodySize afOf pesOf
  cases hk : f.key <;> simp [hp, keyAf_length] <;> omega

theorem expLoop_count (f : Frame) : ∀ fuel cc rest, rest.length ≤ fuel →
    (expLoop f fuel false cc rest).length = (rest.length + 183) / 184 := by
  intro fuel
  induction fuel with
  | zero =>
    intro cc rest h
    have : rest = [] := List.eq_nil_of_length_eq_zero (by omega)
    simp [expLoop, this]
  | succ n ih =>
    intro cc rest h
    unfold expLoop
    by_cases hr : rest = []
    · simp [hr]
    · have hne : rest.isEmpty = false := by simpa using hr
      have hrl : 0 < rest.length := List.length_pos_iff.mpr hr
      simp only [hne, Bool.false_eq_true, if_false, List.length_cons]
      rw [ih _ _ (by simp [bodySize_false]; omega), bodySize_false, List.length_drop]
      omega

/-- number of packets of a frame -/
theorem pack_count (f : Frame) (hcc : f.cc < 256) (hraw : f.raw ≠ []) :
    (pack f).1.length = 1 + (f.raw.length - bodySize f true + 183) / 184 := by
  obtain ⟨_, hlenEq, _⟩ := parse_packLoop f f.raw.length true f.cc f.raw hcc
  obtain ⟨m, hm, hexp⟩ := pack_unfold f hraw
  have hB := bodySize_ge f true
  unfold pack
  rw [hlenEq, hexp, List.length_cons, expLoop_count f m _ _ (by simp; omega), List.length_drop]
  omega

end Lal.Ts
