import LalModel.Model.CfgChain
import LalModel.Proof.SeqHeader
import LalModel.Proof.Aac
import LalModel.Proof.Sdp
namespace Lal.CfgChain
open Lal

/-- SDP parameter sets → RTMP: `AvPacket2RtmpRemuxer.InitWithAvConfig` emits the AAC sequence header `af 00 asc` and the
    AVC sequence header `BuildSeqHeaderFromSpsPps` builds -/
theorem initWithAvConfig_avc (ascb sps pps sh : Bytes) (ha : 2 ≤ ascb.length) (hb : SeqHeader.avcBuild sps pps = .ok sh) :
    initWithAvConfig (some ascb) none (some sps) (some pps) = .ok [(8, 0xaf :: 0 :: ascb), (9, sh)] := by
  simp [initWithAvConfig, Aac.seqHeader_of_asc ascb ha, hb]

theorem initWithAvConfig_hevc (ascb vps sps pps sh : Bytes) (ha : 2 ≤ ascb.length) (hb : SeqHeader.hevcBuild vps sps pps = .ok sh) :
    initWithAvConfig (some ascb) (some vps) (some sps) (some pps) = .ok [(8, 0xaf :: 0 :: ascb), (9, sh)] := by
  simp [initWithAvConfig, Aac.seqHeader_of_asc ascb ha, hb]

/-- RTMP → SDP: a fresh `Rtmp2RtspRemuxer` fed the AVC sequence header lal builds and an AAC sequence header
    announces exactly `sdp.Pack` of the parameter sets, the configuration and its sampling frequency -/
theorem rtmp2rtspSdp_avc (c : Sdp.Codec) (tool : Bytes) (x y : UInt8) (sps pps ascb : Bytes) (ctx : Aac.AscContext) (f : Nat)
    (hs : sps.length < 65536) (hp : pps.length < 65536) (hsne : sps ≠ []) (hpne : pps ≠ [])
    (ha : Aac.ascUnpack ascb = .ok ctx) (hf : Aac.samplingFrequency ctx = some f) :
    rtmp2rtspSdp c tool (some (SeqHeader.avcLayout x y sps pps)) (some (0xaf :: 0 :: ascb)) =
      .ok (Sdp.pack c tool { videoPt := Sdp.ptAvc, vps := none, sps := some sps, pps := some pps }
                         { audioPt := Sdp.ptAac, samplingFrequency := f, asc := some ascb }) := by
  have hparse := SeqHeader.avcParse_layout x y sps pps hs hp
  have hlen : ¬ ((SeqHeader.avcLayout x y sps pps).length ≤ 5) := by
    simp [SeqHeader.avcLayout, be16]
  have htake : (SeqHeader.avcLayout x y sps pps).take 2 = [0x17, 0] := by
    simp [SeqHeader.avcLayout]
  have hs' : nilIfEmpty sps = some sps := by
    cases sps with
    | nil => exact absurd rfl hsne
    | cons a as => rfl
  have hp' : nilIfEmpty pps = some pps := by
    cases pps with
    | nil => exact absurd rfl hpne
    | cons a as => rfl
  have hal : ascb.length ≥ 2 := by
    cases ascb with
    | nil => simp [Aac.ascUnpack] at ha
    | cons a as =>
      cases as with
      | nil => simp [Aac.ascUnpack] at ha
      | cons b bs => simp
  have hlen2 : ¬ ((0xaf :: 0 :: ascb : Bytes).length ≤ 2) := by simp only [List.length_cons]; omega
  have hseq : ((0xaf :: 0 :: ascb : Bytes).headD 0).toNat / 16 = 10 ∧ ((0xaf :: 0 :: ascb : Bytes).drop 1).headD 1 = 0 := by
    refine ⟨?_, rfl⟩
    show (175 : UInt8).toNat / 16 = 10
    decide
  simp only [rtmp2rtspSdp, hlen, if_false, htake, if_true, hparse, hs', hp', GoM.ok_bind, GoM.pure_eq, hlen2, hseq, and_self,
    not_true_eq_false, List.drop_succ_cons, List.drop_zero, Option.isNone_some, Bool.false_eq_true, or_self, ha, hf,
    Option.isSome_none, ite_false]
  simp [ha, hf]

end Lal.CfgChain
