import LalModel.Proof.HlsClose
/-
  `FeedMpegts` — with its forced splits, boundary splits and the observer's re-entrant call — flattened into a plain
  list of four primitive actions (close a fragment, open one, append a frame, update a duration through the fragment
  pointer), with the exact list of frames it appends. Every further invariant is then an induction over such lists.
-/
namespace Lal.HlsC
open Lal Lal.Hls Lal.Fs

inductive Act where
  | close (isLast : Bool)
  | opn (now ts : Nat) (discont : Bool)
  | wr (f : Frame)
  | dur (fi ts : Nat)

variable {c : Cfg}

def actStep (c : Cfg) (m : Mux) (d : Dir) : Act → Mux × List FOp
  | .close l => closeFragment c l m d
  | .opn now ts dc => (openMux c m now ts dc, openOps m now)
  | .wr f => (m, [.write m.cur (.frame f)])
  | .dur fi ts => (updDur m fi ts, [])

def actsRun (c : Cfg) : List Act → Mux → Dir → Mux × List FOp
  | [], m, _ => (m, [])
  | a :: as, m, d =>
    ((actsRun c as (actStep c m d a).1 (applyAll under d (actStep c m d a).2)).1,
     (actStep c m d a).2 ++ (actsRun c as (actStep c m d a).1 (applyAll under d (actStep c m d a).2)).2)

/-- the `opened` flag after the actions, `none` when an action is not enabled (open while open, append while closed) -/
def actsOk : List Act → Bool → Option Bool
  | [], o => some o
  | .close _ :: as, _ => actsOk as false
  | .opn _ _ _ :: as, o => if o then none else actsOk as true
  | .wr _ :: as, o => if o then actsOk as o else none
  | .dur _ _ :: as, o => actsOk as o

def writesOf : List Act → List Frame
  | [] => []
  | .wr f :: as => f :: writesOf as
  | _ :: as => writesOf as

def hasOpn : List Act → Bool
  | [] => false
  | .opn _ _ _ :: _ => true
  | _ :: as => hasOpn as

theorem applyAll_append (d : Dir) (a b : List FOp) : applyAll under d (a ++ b) = applyAll under (applyAll under d a) b := by
  simp [applyAll, List.foldl_append]

theorem actsRun_append (as bs : List Act) (m : Mux) (d : Dir) :
    actsRun c (as ++ bs) m d =
      ((actsRun c bs (actsRun c as m d).1 (applyAll under d (actsRun c as m d).2)).1,
       (actsRun c as m d).2 ++ (actsRun c bs (actsRun c as m d).1 (applyAll under d (actsRun c as m d).2)).2) := by
  induction as generalizing m d with
  | nil => simp [actsRun, applyAll]
  | cons a as ih =>
    simp only [List.cons_append, actsRun]
    rw [ih]
    simp only [applyAll_append, List.append_assoc]

theorem actsOk_append (as bs : List Act) (o o1 o2 : Bool) (h1 : actsOk as o = some o1) (h2 : actsOk bs o1 = some o2) :
    actsOk (as ++ bs) o = some o2 := by
  induction as generalizing o with
  | nil => simp only [actsOk, Option.some.injEq] at h1; subst h1; exact h2
  | cons a as ih =>
    cases a with
    | close l => exact ih _ h1
    | opn now ts dc =>
      simp only [actsOk, List.cons_append] at h1 ⊢
      cases o with
      | true => simp at h1
      | false => simp only [Bool.false_eq_true, if_false] at h1 ⊢; exact ih _ h1
    | wr f =>
      simp only [actsOk, List.cons_append] at h1 ⊢
      cases o with
      | false => simp at h1
      | true => simp only [if_true] at h1 ⊢; exact ih _ h1
    | dur fi ts => exact ih _ h1

theorem writesOf_append (as bs : List Act) : writesOf (as ++ bs) = writesOf as ++ writesOf bs := by
  induction as with
  | nil => rfl
  | cons a as ih => cases a <;> simp [writesOf, ih]

theorem hasOpn_append (as bs : List Act) : hasOpn (as ++ bs) = (hasOpn as || hasOpn bs) := by
  induction as with
  | nil => simp [hasOpn]
  | cons a as ih => cases a <;> simp [hasOpn, ih]

theorem closeFragment_opened (l : Bool) (m : Mux) (d : Dir) : (closeFragment c l m d).1.opened = false := by
  by_cases ho : m.opened = true
  · rw [closeFragment_eq l d ho]
    show (closeTail c (closedMux c m) _).1.opened = false
    unfold closeTail
    split
    · obtain ⟨r, ops, hw, _⟩ := writeRecord_spec (c := c) (closedMux c m) (applyAll under d (closeOps1 c m l) .record)
      rw [hw]; exact closedMux_opened
    · split
      · split <;> exact closedMux_opened
      · exact closedMux_opened
  · have ho' : m.opened = false := by cases hm : m.opened <;> simp_all
    rw [closeFragment_closed l d ho']; exact ho'

theorem updDur_opened (m : Mux) (fi ts : Nat) : (updDur m fi ts).opened = m.opened := by
  unfold updDur; split
  · split <;> rfl
  · rfl

/-- the `opened` flag the actions leave is the one `actsOk` computes -/
theorem actsRun_opened : ∀ (as : List Act) (m : Mux) (d : Dir) (o : Bool), actsOk as m.opened = some o →
    (actsRun c as m d).1.opened = o
  | [], m, _, o, h => by simp only [actsOk, Option.some.injEq] at h; exact h
  | .close l :: as, m, d, o, h => by
    simp only [actsRun, actStep]
    apply actsRun_opened as _ _ o
    rw [closeFragment_opened]; exact h
  | .opn now ts dc :: as, m, d, o, h => by
    simp only [actsRun, actStep]
    apply actsRun_opened as _ _ o
    simp only [actsOk] at h
    show actsOk as true = some o
    cases hm : m.opened with
    | true => rw [hm] at h; simp at h
    | false => rw [hm] at h; simpa using h
  | .wr f :: as, m, d, o, h => by
    simp only [actsRun, actStep]
    apply actsRun_opened as _ _ o
    simp only [actsOk] at h
    cases hm : m.opened with
    | false => rw [hm] at h; simp at h
    | true => rw [hm] at h; simpa [hm] using h
  | .dur fi ts :: as, m, d, o, h => by
    simp only [actsRun, actStep]
    apply actsRun_opened as _ _ o
    rw [updDur_opened]; exact h

/-- An `UR` result described by a list of actions. -/
structure URacts (c : Cfg) (m : Mux) (d : Dir) (pend : Option Frame) (r : UR) (as : List Act) (final : Bool) : Prop where
  eq_m   : r.m = (actsRun c as m d).1
  eq_ops : r.ops = (actsRun c as m d).2
  ok     : r.ok = true
  valid  : actsOk as m.opened = some final
  pendEq : r.pend = if hasOpn as then none else pend
  writes : writesOf as = if hasOpn as then pend.toList else []

/-- What the observer's re-entrant call is, as actions: from an open fragment, ends with an open fragment, appends exactly `a`. -/
def NestedActs (c : Cfg) (nested : Nested) (a : Frame) : Prop :=
  ∀ m d, m.opened = true → ∃ as, nested m d a = actsRun c as m d ∧ actsOk as true = some true ∧ writesOf as = [a]

theorem openFragment_acts (nested : Nested) (now ts : Nat) (discont : Bool) (m : Mux) (d : Dir) (pend : Option Frame)
    (hc : m.opened = false) (hn : ∀ a, pend = some a → NestedActs c nested a) :
    ∃ as, URacts c m d pend (openFragment c nested now ts discont m d pend) as true ∧ hasOpn as = true := by
  rw [openFragment_eq nested now ts discont d pend hc]
  cases pend with
  | none =>
    refine ⟨[.opn now ts discont], ⟨rfl, ?_, rfl, ?_, rfl, rfl⟩, rfl⟩
    · simp [actsRun, actStep]
    · simp [actsOk, hc]
  | some a =>
    obtain ⟨as, he, hv, hw⟩ := hn a rfl (openMux c m now ts discont) (applyAll under d (openOps m now)) rfl
    refine ⟨.opn now ts discont :: as, ⟨?_, ?_, rfl, ?_, rfl, ?_⟩, rfl⟩
    · simp only [actsRun, actStep]; rw [he]
    · simp only [actsRun, actStep]; rw [he]
    · simp only [actsOk, hc, Bool.false_eq_true, if_false]; exact hv
    · simp only [writesOf, hasOpn, if_true, Option.toList]; exact hw

theorem reopen_acts (nested : Nested) (now ts : Nat) (discont : Bool) (m : Mux) (d : Dir) (pend : Option Frame)
    (hn : ∀ a, pend = some a → NestedActs c nested a) :
    ∃ as, URacts c m d pend (reopen c nested now ts discont m d pend) as true ∧ hasOpn as = true := by
  unfold reopen
  obtain ⟨as, h, ho⟩ := openFragment_acts nested now ts discont (closeFragment c false m d).1
    (applyAll under d (closeFragment c false m d).2) pend (closeFragment_opened false m d) hn
  refine ⟨.close false :: as, ⟨?_, ?_, h.ok, ?_, ?_, ?_⟩, ?_⟩
  · simp only [actsRun, actStep]; exact h.eq_m
  · simp only [actsRun, actStep]; rw [← h.eq_ops]
  · simp only [actsOk]
    have := h.valid
    rw [closeFragment_opened] at this; exact this
  · simp only [hasOpn]; exact h.pendEq
  · simp only [writesOf, hasOpn]; exact h.writes
  · simp only [hasOpn]; exact ho

theorem URacts.snoc_dur {m : Mux} {d : Dir} {pend : Option Frame} {r : UR} {as : List Act} {final : Bool}
    (h : URacts c m d pend r as final) (fi ts : Nat) :
    URacts c m d pend { m := updDur r.m fi ts, pend := r.pend, ops := r.ops, ok := true } (as ++ [.dur fi ts]) final := by
  refine ⟨?_, ?_, rfl, ?_, ?_, ?_⟩
  · rw [actsRun_append]; simp only [actsRun, actStep]; rw [← h.eq_m]
  · rw [actsRun_append]; simp only [actsRun, actStep, List.append_nil]; exact h.eq_ops
  · exact actsOk_append _ _ _ _ _ h.valid (by simp [actsOk])
  · rw [hasOpn_append]; simp only [hasOpn, Bool.or_false]; exact h.pendEq
  · rw [writesOf_append, hasOpn_append]; simp only [writesOf, hasOpn, Bool.or_false, List.append_nil]; exact h.writes

theorem updateOpened_acts (nested : Nested) (now ts : Nat) (boundary : Bool) (m : Mux) (d : Dir) (pend : Option Frame)
    (ho : m.opened = true) (hn : ∀ a, pend = some a → NestedActs c nested a) :
    ∃ as, URacts c m d pend (updateOpened c nested now ts boundary m d pend) as true := by
  unfold updateOpened
  have h1 : ∃ as1, URacts c m d pend
      (if forceSplit c m ts then reopen c nested now ts true m d pend else { m := m, pend := pend, ops := [], ok := true }) as1 true := by
    split
    · obtain ⟨as, h, _⟩ := reopen_acts nested now ts true m d pend hn; exact ⟨as, h⟩
    · exact ⟨[], ⟨rfl, rfl, rfl, by simp [actsOk, ho], rfl, rfl⟩⟩
  obtain ⟨as1, h1⟩ := h1
  generalize (if forceSplit c m ts then reopen c nested now ts true m d pend else ({ m := m, pend := pend, ops := [], ok := true } : UR)) = r1 at h1
  simp only [h1.ok, Bool.not_true, Bool.false_eq_true, if_false]
  have h2 := h1.snoc_dur (fragIdx c m m.nfrags) ts
  split
  · exact ⟨_, h2⟩
  · split
    · -- boundary: close + open again
      have hn' : ∀ a, r1.pend = some a → NestedActs c nested a := by
        intro a ha
        rw [h1.pendEq] at ha
        split at ha
        · cases ha
        · exact hn a ha
      obtain ⟨as3, h3, ho3⟩ := reopen_acts nested now ts false (updDur r1.m (fragIdx c m m.nfrags) ts)
        (applyAll under d r1.ops) r1.pend hn'
      refine ⟨(as1 ++ [.dur (fragIdx c m m.nfrags) ts]) ++ as3, ⟨?_, ?_, h3.ok, ?_, ?_, ?_⟩⟩
      · rw [actsRun_append, ← h2.eq_m, ← h2.eq_ops]; exact h3.eq_m
      · rw [actsRun_append, ← h2.eq_m, ← h2.eq_ops]
        show r1.ops ++ _ = r1.ops ++ _
        rw [h3.eq_ops]
      · refine actsOk_append _ _ _ true _ h2.valid ?_
        have := h3.valid
        rw [updDur_opened] at this
        have hr1 : r1.m.opened = true := by
          have := actsRun_opened (c := c) as1 m d true h1.valid
          rw [← h1.eq_m] at this; exact this
        rw [hr1] at this; exact this
      · rw [hasOpn_append, ho3, Bool.or_true]; simp only [if_true]
        have := h3.pendEq; rw [ho3] at this; simpa using this
      · rw [writesOf_append, hasOpn_append, ho3, Bool.or_true]
        simp only [if_true]
        have hw3 := h3.writes
        rw [ho3] at hw3; simp only [if_true] at hw3
        rw [hw3, h2.writes, h1.pendEq]
        by_cases hop1 : hasOpn as1 = true
        · have : hasOpn (as1 ++ [Act.dur (fragIdx c m m.nfrags) ts]) = true := by rw [hasOpn_append, hop1]; rfl
          simp [this, hop1]
        · have hop1' : hasOpn as1 = false := by cases h : hasOpn as1 <;> simp_all
          have : hasOpn (as1 ++ [Act.dur (fragIdx c m m.nfrags) ts]) = false := by rw [hasOpn_append, hop1']; rfl
          simp [this, hop1']
    · exact ⟨_, h2⟩

theorem updateFragment_acts (nested : Nested) (now ts : Nat) (boundary : Bool) (m : Mux) (d : Dir) (pend : Option Frame)
    (hn : ∀ a, pend = some a → NestedActs c nested a) :
    ∃ as, URacts c m d pend (updateFragment c nested now ts boundary m d pend) as (m.opened || boundary) := by
  unfold updateFragment
  by_cases ho : m.opened = true
  · simp only [ho, if_true, Bool.true_or]
    exact updateOpened_acts nested now ts boundary m d pend ho hn
  · have ho' : m.opened = false := by cases hm : m.opened <;> simp_all
    simp only [ho', Bool.false_eq_true, if_false, Bool.false_or]
    by_cases hb : boundary = true
    · simp only [hb, if_true]
      obtain ⟨as, h, _⟩ := reopen_acts nested now ts true m d pend hn
      exact ⟨as, h⟩
    · have hb' : boundary = false := by cases h : boundary <;> simp_all
      simp only [hb', Bool.false_eq_true, if_false]
      exact ⟨[], ⟨rfl, rfl, rfl, by simp [actsOk, ho'], rfl, rfl⟩⟩

/-- `FeedMpegts` as actions; the frames appended are the flushed audio (if a fragment was opened) and then the frame
    itself — when a fragment is, or becomes, open; otherwise nothing happens at all. -/
theorem feedWith_acts (nested : Nested) (now : Nat) (f : Frame) (m : Mux) (d : Dir) (pend : Option Frame)
    (hn : ∀ a, pend = some a → NestedActs c nested a) :
    ∃ as, (feedWith c nested now f m d pend).1 = (actsRun c as m d).1 ∧
          (feedWith c nested now f m d pend).2.2 = (actsRun c as m d).2 ∧
          actsOk as m.opened = some (m.opened || f.boundary) ∧
          (feedWith c nested now f m d pend).2.1 = (if hasOpn as then none else pend) ∧
          writesOf as = (if hasOpn as then pend.toList else []) ++ (if (m.opened || f.boundary) then [f] else []) := by
  unfold feedWith
  dsimp only
  obtain ⟨as, h⟩ := updateFragment_acts nested now (if f.audio = true then f.pts else f.dts) f.boundary m d pend hn
  generalize updateFragment c nested now (if f.audio = true then f.pts else f.dts) f.boundary m d pend = r at h
  have hro : r.m.opened = (m.opened || f.boundary) := by
    have := actsRun_opened (c := c) as m d _ h.valid
    rw [← h.eq_m] at this; exact this
  simp only [h.ok, Bool.not_true, Bool.false_eq_true, if_false]
  by_cases hop : (m.opened || f.boundary) = true
  · rw [hop] at hro
    simp only [hro, Bool.not_true, Bool.false_eq_true, if_false]
    refine ⟨as ++ [.wr f], ?_, ?_, ?_, ?_, ?_⟩
    · rw [actsRun_append]; simp only [actsRun, actStep]; exact h.eq_m
    · rw [actsRun_append]; simp only [actsRun, actStep, List.append_nil]
      rw [← h.eq_m, ← h.eq_ops]
    · rw [hop]
      refine actsOk_append _ _ _ true _ ?_ (by simp [actsOk])
      have := h.valid; rw [hop] at this; exact this
    · rw [hasOpn_append]; simp only [hasOpn, Bool.or_false]; exact h.pendEq
    · rw [writesOf_append, hasOpn_append, h.writes, hop]; simp [hasOpn, writesOf]
  · have hop' : (m.opened || f.boundary) = false := by cases h' : (m.opened || f.boundary) <;> simp_all
    rw [hop'] at hro
    simp only [hro, Bool.not_false, if_true]
    refine ⟨as, h.eq_m, h.eq_ops, ?_, h.pendEq, ?_⟩
    · rw [hop']; have := h.valid; rw [hop'] at this; exact this
    · rw [h.writes, hop']; simp

theorem nestedActs_feedInner (now : Nat) (a : Frame) : NestedActs c (feedInner c now) a := by
  intro m d ho
  obtain ⟨as, h1, h2, h3, _, h5⟩ := feedWith_acts (c := c) (fun m _ _ => (m, [])) now a m d none (fun a' ha' => by cases ha')
  refine ⟨as, ?_, ?_, ?_⟩
  · show ((feedWith c (fun m _ _ => (m, [])) now a m d none).1, (feedWith c (fun m _ _ => (m, [])) now a m d none).2.2) = _
    rw [h1, h2]
  · rw [ho] at h3; simpa using h3
  · rw [h5, ho]; simp

/-- `FeedMpegts` with the real observer. -/
theorem feed_acts (now : Nat) (f : Frame) (m : Mux) (d : Dir) (pend : Option Frame) :
    ∃ as, (feed c now f m d pend).1 = (actsRun c as m d).1 ∧
          (feed c now f m d pend).2.2 = (actsRun c as m d).2 ∧
          actsOk as m.opened = some (m.opened || f.boundary) ∧
          (feed c now f m d pend).2.1 = (if hasOpn as then none else pend) ∧
          writesOf as = (if hasOpn as then pend.toList else []) ++ (if (m.opened || f.boundary) then [f] else []) :=
  feedWith_acts (feedInner c now) now f m d pend (fun a _ => nestedActs_feedInner now a)

end Lal.HlsC
