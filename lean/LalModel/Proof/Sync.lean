import LalModel.Model.Sync
/-
  C20 — generic theorems about the synchronisation machine of `Model/Sync.lean`, proved once:

  * `acyclic_no_deadlock` : threads that acquire along a ranking of the locks never form a wait-for cycle;
  * `lockset_no_race`     : accesses that all hold the location's guard are never co-enabled with a conflicting one;
  * `no_close_no_abort`   : without `close` no reachable state has aborted on a closed channel;
  * `ordered_of_conforms`, `acyclic_of_rank` : from an acquired-while-holding table with a rank function to the above.
-/
namespace Lal.Sync

/-! ### one step of one thread -/

/-- What a step does to the stepping thread. -/
def ThreadStep (s : State) (t t' : Thread) : Prop :=
  ∃ op, t.todo = op :: t'.todo ∧
    (match op with
     | .acquire l => t'.held = l :: t.held ∧ heldBySome s.threads l = false
     | .release l => t'.held = t.held.erase l
     | _ => t'.held = t.held)

theorem next_spec {cap : Chan → Nat} {s s' : State} {i : Tid} (h : next cap s i = some s') :
    ∃ t t', s.threads[i]? = some t ∧ s'.threads = s.threads.set i t' ∧ ThreadStep s t t' := by
  unfold next at h
  cases ht : s.threads[i]? with
  | none => simp [ht] at h
  | some t =>
    simp only [ht] at h
    cases hd : t.todo with
    | nil => simp [hd] at h
    | cons op r =>
      simp only [hd] at h
      cases op with
      | acquire l =>
        by_cases hb : heldBySome s.threads l = true
        · simp [hb] at h
        · simp only [hb] at h
          refine ⟨t, { todo := r, held := l :: t.held }, rfl, ?_, .acquire l, by simp [hd], ?_⟩
          · simp at h; rw [← h]
          · simp at hb; simp [hb]
      | release l =>
        refine ⟨t, { todo := r, held := t.held.erase l }, rfl, ?_, .release l, by simp [hd], by simp⟩
        simp at h; rw [← h]
      | read x =>
        refine ⟨t, { todo := r, held := t.held }, rfl, ?_, .read x, by simp [hd], by simp⟩
        simp at h; rw [← h]
      | write x =>
        refine ⟨t, { todo := r, held := t.held }, rfl, ?_, .write x, by simp [hd], by simp⟩
        simp at h; rw [← h]
      | send c =>
        refine ⟨t, { todo := r, held := t.held }, rfl, ?_, .send c, by simp [hd], by simp⟩
        by_cases hc : s.closed c = true
        · simp [hc] at h; rw [← h]
        · by_cases hb : s.buf c < cap c
          · simp [hc, hb] at h; rw [← h]
          · simp [hc, hb] at h
      | recv c =>
        refine ⟨t, { todo := r, held := t.held }, rfl, ?_, .recv c, by simp [hd], by simp⟩
        by_cases hb : 0 < s.buf c
        · simp [hb] at h; rw [← h]
        · by_cases hc : s.closed c = true
          · simp [hb, hc] at h; rw [← h]
          · simp [hb, hc] at h
      | close c =>
        refine ⟨t, { todo := r, held := t.held }, rfl, ?_, .close c, by simp [hd], by simp⟩
        by_cases hc : s.closed c = true
        · simp [hc] at h; rw [← h]
        · simp [hc] at h; rw [← h]

/-- A per-thread invariant that every thread step preserves holds in every reachable state. -/
theorem reach_threads_inv {cap : Chan → Nat} {progs : List (List Op)} (P : Thread → Prop)
    (h0 : ∀ p ∈ progs, P { todo := p, held := [] })
    (hstep : ∀ s t t', ThreadStep s t t' → P t → P t')
    {s : State} (hr : Reach cap (init progs) s) : ∀ t ∈ s.threads, P t := by
  induction hr with
  | refl =>
    intro t ht
    simp only [init, List.mem_map] at ht
    obtain ⟨p, hp, rfl⟩ := ht
    exact h0 p hp
  | step i _ hn ih =>
    obtain ⟨t, t', hi, hs, hts⟩ := next_spec hn
    intro u hu
    rw [hs] at hu
    rcases List.mem_or_eq_of_mem_set hu with hu | hu
    · exact ih u hu
    · rw [hu]
      exact hstep _ t t' hts (ih t (List.mem_of_getElem? hi))

/-! ### lock order ⇒ no wait-for cycle -/

theorem ordered_step {rank : Lock → Nat} (s : State) (t t' : Thread) (hs : ThreadStep s t t')
    (h : ordered rank t.held t.todo = true) : ordered rank t'.held t'.todo = true := by
  obtain ⟨op, hd, hh⟩ := hs
  rw [hd] at h
  cases op with
  | acquire l => simp only at hh; simp only [ordered, Bool.and_eq_true] at h; rw [hh.1]; exact h.2
  | release l => simp only at hh; simp only [ordered, Bool.and_eq_true] at h; rw [hh]; exact h.2
  | read x => simp only at hh; simp only [ordered] at h; rw [hh]; exact h
  | write x => simp only at hh; simp only [ordered] at h; rw [hh]; exact h
  | send c => simp only at hh; simp only [ordered] at h; rw [hh]; exact h
  | recv c => simp only at hh; simp only [ordered] at h; rw [hh]; exact h
  | close c => simp only at hh; simp only [ordered] at h; rw [hh]; exact h

/-- thread `i` is about to acquire `l` -/
def Wants (s : State) (i : Tid) (l : Lock) : Prop :=
  ∃ ti r, s.threads[i]? = some ti ∧ ti.todo = .acquire l :: r

theorem waitsPlus_wants {s : State} {i k : Tid} (h : WaitsPlus s i k) : ∃ l, Wants s i l := by
  cases h with
  | single hw => obtain ⟨ti, _, l, r, hi, _, hd, _⟩ := hw; exact ⟨l, ti, r, hi, hd⟩
  | cons hw _ => obtain ⟨ti, _, l, r, hi, _, hd, _⟩ := hw; exact ⟨l, ti, r, hi, hd⟩

theorem waits_rank {rank : Lock → Nat} {s : State}
    (hinv : ∀ t ∈ s.threads, ordered rank t.held t.todo = true)
    {i j : Tid} (hw : Waits s i j) {li lj : Lock} (hi : Wants s i li) (hj : Wants s j lj) :
    rank li < rank lj := by
  obtain ⟨ti, tj, l, r, hti, htj, hd, hl⟩ := hw
  obtain ⟨ti', ri, hti', hdi⟩ := hi
  obtain ⟨tj', rj, htj', hdj⟩ := hj
  rw [hti] at hti'; cases hti'
  rw [htj] at htj'; cases htj'
  rw [hd] at hdi; cases hdi
  have ho := hinv tj (List.mem_of_getElem? htj)
  rw [hdj] at ho
  simp only [ordered, Bool.and_eq_true, List.all_eq_true, decide_eq_true_eq] at ho
  exact ho.1 li hl

theorem chain_rank {rank : Lock → Nat} {s : State}
    (hinv : ∀ t ∈ s.threads, ordered rank t.held t.todo = true)
    {i k : Tid} (h : WaitsPlus s i k) : ∀ li lk, Wants s i li → Wants s k lk → rank li < rank lk := by
  induction h with
  | single hw => intro li lk hi hk; exact waits_rank hinv hw hi hk
  | cons hw hp ih =>
    intro li lk hi hk
    obtain ⟨lj, hj⟩ := waitsPlus_wants hp
    exact Nat.lt_trans (waits_rank hinv hw hi hj) (ih lj lk hj hk)

/-- **Generic theorem 1.** If every thread acquires its locks along a ranking (strictly upwards), releases only
    what it holds and ends holding nothing, then no reachable state — under ANY interleaving — contains a
    wait-for cycle among threads blocked on locks. -/
theorem acyclic_no_deadlock (cap : Chan → Nat) (rank : Lock → Nat) (progs : List (List Op))
    (hp : ∀ p ∈ progs, ordered rank [] p = true) {s : State} (hr : Reach cap (init progs) s) :
    ∀ i, ¬ WaitsPlus s i i := by
  have hinv : ∀ t ∈ s.threads, ordered rank t.held t.todo = true :=
    reach_threads_inv (fun t => ordered rank t.held t.todo = true) (fun p h => hp p h)
      (fun s t t' hs h => ordered_step s t t' hs h) hr
  intro i hc
  obtain ⟨l, hl⟩ := waitsPlus_wants hc
  exact Nat.lt_irrefl _ (chain_rank hinv hc l l hl hl)

/-! ### progress: some thread can always move -/

theorem lockOnly_step (s : State) (t t' : Thread) (hs : ThreadStep s t t')
    (h : lockOnly t.todo = true) : lockOnly t'.todo = true := by
  obtain ⟨op, hd, _⟩ := hs
  rw [hd] at h
  cases op <;> simp_all [lockOnly]

/-- rank of the lock a thread is about to acquire (0 when its next operation is something else) -/
def wantRank (rank : Lock → Nat) (t : Thread) : Nat :=
  match t.todo with
  | .acquire l :: _ => rank l
  | _ => 0

def rankBound (rank : Lock → Nat) : List Thread → Nat
  | [] => 0
  | t :: ts => max (wantRank rank t) (rankBound rank ts)

theorem le_rankBound (rank : Lock → Nat) : ∀ (ts : List Thread) (t : Thread), t ∈ ts → wantRank rank t ≤ rankBound rank ts := by
  intro ts
  induction ts with
  | nil => intro t h; cases h
  | cons a r ih =>
    intro t h
    simp only [rankBound]
    rcases List.mem_cons.mp h with h | h
    · rw [h]; exact Nat.le_max_left _ _
    · exact Nat.le_trans (ih t h) (Nat.le_max_right _ _)

/-- a thread whose next operation cannot be executed is waiting for a lock that some thread holds -/
theorem blocked_spec {cap : Chan → Nat} {s : State} {i : Tid} {t : Thread}
    (hi : s.threads[i]? = some t) (hne : t.todo ≠ []) (hl : lockOnly t.todo = true)
    (hb : next cap s i = none) : ∃ l r, t.todo = .acquire l :: r ∧ heldBySome s.threads l = true := by
  unfold next at hb
  simp only [hi] at hb
  cases hd : t.todo with
  | nil => exact absurd hd hne
  | cons op r =>
    simp only [hd] at hb
    rw [hd] at hl
    cases op with
    | acquire l =>
      by_cases hh : heldBySome s.threads l = true
      · exact ⟨l, r, rfl, hh⟩
      · simp [hh] at hb
    | release l => simp at hb
    | read x => simp at hb
    | write x => simp at hb
    | send c => simp [lockOnly] at hl
    | recv c => simp [lockOnly] at hl
    | close c => simp [lockOnly] at hl

/-- **Generic theorem 1b (progress).** With ordered lock acquisition and no channel operations, as long as some thread
    has not finished, some thread can execute its next operation: the system as a whole never gets stuck on locks. -/
theorem lock_progress (cap : Chan → Nat) (rank : Lock → Nat) (progs : List (List Op))
    (hp : ∀ p ∈ progs, ordered rank [] p = true) (hlo : ∀ p ∈ progs, lockOnly p = true)
    {s : State} (hr : Reach cap (init progs) s) (hu : ∃ t ∈ s.threads, t.todo ≠ []) :
    ∃ i s', next cap s i = some s' := by
  have hinv : ∀ t ∈ s.threads, ordered rank t.held t.todo = true :=
    reach_threads_inv (fun t => ordered rank t.held t.todo = true) (fun p h => hp p h)
      (fun s t t' hs h => ordered_step s t t' hs h) hr
  have hlk : ∀ t ∈ s.threads, lockOnly t.todo = true :=
    reach_threads_inv (fun t => lockOnly t.todo = true) (fun p h => hlo p h)
      (fun s t t' hs h => lockOnly_step s t t' hs h) hr
  apply Classical.byContradiction
  intro hno
  have hnone : ∀ i, next cap s i = none := by
    intro i
    cases hn : next cap s i with
    | none => rfl
    | some s' => exact absurd ⟨i, s', hn⟩ hno
  -- every unfinished thread waits for a held lock; its holder is unfinished and waits for a higher-ranked lock
  have key : ∀ (n : Nat) (i : Tid) (t : Thread), s.threads[i]? = some t → t.todo ≠ [] → rankBound rank s.threads - wantRank rank t = n → False := by
    intro n
    induction n using Nat.strongRecOn with
    | _ n ih =>
      intro i t hi hne hn
      obtain ⟨l, r, hd, hh⟩ := blocked_spec hi hne (hlk t (List.mem_of_getElem? hi)) (hnone i)
      simp only [heldBySome, List.any_eq_true] at hh
      obtain ⟨tj, htj, hlj⟩ := hh
      have hlj' : l ∈ tj.held := by simpa using hlj
      obtain ⟨j, hj⟩ := List.getElem?_of_mem htj
      have hoj := hinv tj htj
      have hnej : tj.todo ≠ [] := by
        intro he
        rw [he] at hoj
        simp only [ordered, List.isEmpty_iff] at hoj
        rw [hoj] at hlj'
        cases hlj'
      obtain ⟨l', r', hd', _⟩ := blocked_spec hj hnej (hlk tj htj) (hnone j)
      rw [hd'] at hoj
      simp only [ordered, Bool.and_eq_true, List.all_eq_true, decide_eq_true_eq] at hoj
      have hlt : rank l < rank l' := hoj.1 l hlj'
      have hwi : wantRank rank t = rank l := by simp [wantRank, hd]
      have hwj : wantRank rank tj = rank l' := by simp [wantRank, hd']
      have hbj := le_rankBound rank s.threads tj htj
      have hbi := le_rankBound rank s.threads t (List.mem_of_getElem? hi)
      exact ih (rankBound rank s.threads - wantRank rank tj) (by omega) j tj hj hnej rfl
  obtain ⟨t, ht, hne⟩ := hu
  obtain ⟨i, hi⟩ := List.getElem?_of_mem ht
  exact key _ i t hi hne rfl

/-! ### from the extractor's table to a ranking -/

theorem ordered_of_conforms {holds : List (Lock × Lock)} {rank : Lock → Nat}
    (hrank : ∀ p ∈ holds, rank p.1 < rank p.2) :
    ∀ (p : List Op) (held : List Lock), conforms holds held p = true → ordered rank held p = true := by
  intro p
  induction p with
  | nil => intro held h; simpa [conforms, ordered] using h
  | cons op r ih =>
    intro held h
    cases op with
    | acquire l =>
      simp only [conforms, Bool.and_eq_true, List.all_eq_true] at h
      simp only [ordered, Bool.and_eq_true, List.all_eq_true, decide_eq_true_eq]
      refine ⟨fun x hx => ?_, ih _ h.2⟩
      have := h.1 x hx
      simp only [List.contains_iff_mem] at this
      exact hrank (x, l) this
    | release l =>
      simp only [conforms, Bool.and_eq_true] at h
      simp only [ordered, Bool.and_eq_true]
      exact ⟨h.1, ih _ h.2⟩
    | read x => simp only [conforms] at h; simp only [ordered]; exact ih _ h
    | write x => simp only [conforms] at h; simp only [ordered]; exact ih _ h
    | send c => simp only [conforms] at h; simp only [ordered]; exact ih _ h
    | recv c => simp only [conforms] at h; simp only [ordered]; exact ih _ h
    | close c => simp only [conforms] at h; simp only [ordered]; exact ih _ h

theorem path_rank {E : List (Lock × Lock)} {rank : Lock → Nat} (hrank : ∀ p ∈ E, rank p.1 < rank p.2)
    {a b : Lock} (h : Path E a b) : rank a < rank b := by
  induction h with
  | edge he => exact hrank _ he
  | cons he _ ih => exact Nat.lt_trans (hrank _ he) ih

/-- A relation that a rank function orients strictly upwards has no cycle. -/
theorem acyclic_of_rank {E : List (Lock × Lock)} (rank : Lock → Nat) (hrank : ∀ p ∈ E, rank p.1 < rank p.2) :
    Acyclic E := fun _ h => Nat.lt_irrefl _ (path_rank hrank h)

/-! ### lock sets ⇒ no data race -/

/-- two different threads never hold the same lock -/
def Excl (s : State) : Prop :=
  ∀ (i j : Tid) (ti tj : Thread) (l : Lock), i ≠ j → s.threads[i]? = some ti → s.threads[j]? = some tj → l ∈ ti.held → l ∉ tj.held

theorem heldBySome_false {ts : List Thread} {l : Lock} (h : heldBySome ts l = false) :
    ∀ t ∈ ts, l ∉ t.held := by
  intro t ht hl
  have : heldBySome ts l = true := by
    simp only [heldBySome, List.any_eq_true]
    exact ⟨t, ht, by simpa using hl⟩
  rw [h] at this; cases this

theorem held_step_mem {s : State} {t t' : Thread} (hs : ThreadStep s t t') {l : Lock} (hl : l ∈ t'.held) :
    l ∈ t.held ∨ (∀ u ∈ s.threads, l ∉ u.held) := by
  obtain ⟨op, _, hh⟩ := hs
  cases op with
  | acquire l0 =>
    simp only at hh
    rw [hh.1] at hl
    rcases List.mem_cons.mp hl with h | h
    · right; rw [h]; exact heldBySome_false hh.2
    · left; exact h
  | release l0 => simp only at hh; rw [hh] at hl; left; exact List.mem_of_mem_erase hl
  | read x => simp only at hh; rw [hh] at hl; left; exact hl
  | write x => simp only at hh; rw [hh] at hl; left; exact hl
  | send c => simp only at hh; rw [hh] at hl; left; exact hl
  | recv c => simp only at hh; rw [hh] at hl; left; exact hl
  | close c => simp only at hh; rw [hh] at hl; left; exact hl

theorem excl_step {cap : Chan → Nat} {s s' : State} {i : Tid} (hn : next cap s i = some s') (he : Excl s) :
    Excl s' := by
  obtain ⟨t, t', hi, hs, hts⟩ := next_spec hn
  intro a b ta tb l hab ha hb hla hlb
  rw [hs] at ha hb
  rw [List.getElem?_set] at ha hb
  by_cases hai : i = a
  · -- a is the stepping thread
    subst hai
    have hbi : ¬ i = b := hab
    simp only [hbi, if_false] at hb
    have hta : ta = t' := by
      by_cases hlt : i < s.threads.length
      · simp [hlt] at ha; exact ha.symm
      · simp [hlt] at ha
    rw [hta] at hla
    rcases held_step_mem hts hla with h | h
    · exact he i b t tb l hab hi hb h hlb
    · exact h tb (List.mem_of_getElem? hb) hlb
  · simp only [hai, if_false] at ha
    by_cases hbi : i = b
    · subst hbi
      have htb : tb = t' := by
        by_cases hlt : i < s.threads.length
        · simp [hlt] at hb; exact hb.symm
        · simp [hlt] at hb
      rw [htb] at hlb
      rcases held_step_mem hts hlb with h | h
      · exact he a i ta t l hab ha hi hla h
      · exact h ta (List.mem_of_getElem? ha) hla
    · simp only [hbi, if_false] at hb
      exact he a b ta tb l hab ha hb hla hlb

theorem excl_reach {cap : Chan → Nat} {progs : List (List Op)} {s : State} (hr : Reach cap (init progs) s) :
    Excl s := by
  induction hr with
  | refl =>
    intro i j ti tj l _ hi _ hl
    have := List.mem_of_getElem? hi
    simp only [init, List.mem_map] at this
    obtain ⟨p, _, rfl⟩ := this
    simp at hl
  | step i _ hn ih => exact excl_step hn ih

theorem guarded_step {sel : Loc → Bool} {guard : Loc → Lock} (s : State) (t t' : Thread) (hs : ThreadStep s t t')
    (h : guarded sel guard t.held t.todo = true) : guarded sel guard t'.held t'.todo = true := by
  obtain ⟨op, hd, hh⟩ := hs
  rw [hd] at h
  cases op with
  | acquire l => simp only at hh; simp only [guarded] at h; rw [hh.1]; exact h
  | release l => simp only at hh; simp only [guarded] at h; rw [hh]; exact h
  | read x => simp only at hh; simp only [guarded, Bool.and_eq_true] at h; rw [hh]; exact h.2
  | write x => simp only at hh; simp only [guarded, Bool.and_eq_true] at h; rw [hh]; exact h.2
  | send c => simp only at hh; simp only [guarded] at h; rw [hh]; exact h
  | recv c => simp only at hh; simp only [guarded] at h; rw [hh]; exact h
  | close c => simp only at hh; simp only [guarded] at h; rw [hh]; exact h

theorem guarded_access {sel : Loc → Bool} {guard : Loc → Lock} {t : Thread} {x : Loc} {w : Bool}
    (h : guarded sel guard t.held t.todo = true) (ha : nextAccess t = some (x, w)) (hx : sel x = true) :
    guard x ∈ t.held := by
  unfold nextAccess at ha
  cases hd : t.todo with
  | nil => simp [hd] at ha
  | cons op r =>
    rw [hd] at h
    cases op with
    | read y =>
      simp [hd] at ha
      simp only [guarded, Bool.and_eq_true, Bool.or_eq_true, Bool.not_eq_true'] at h
      rw [← ha.1] at hx
      rcases h.1 with h1 | h1
      · rw [h1] at hx; cases hx
      · rw [← ha.1]; simpa using h1
    | write y =>
      simp [hd] at ha
      simp only [guarded, Bool.and_eq_true, Bool.or_eq_true, Bool.not_eq_true'] at h
      rw [← ha.1] at hx
      rcases h.1 with h1 | h1
      · rw [h1] at hx; cases hx
      · rw [← ha.1]; simpa using h1
    | acquire l => simp [hd] at ha
    | release l => simp [hd] at ha
    | send c => simp [hd] at ha
    | recv c => simp [hd] at ha
    | close c => simp [hd] at ha

/-- **Generic theorem 2.** If every access to a selected location is made while holding that location's guard
    lock, then in no reachable state — under ANY interleaving — are two different threads about to perform
    conflicting accesses to a selected location (with release/acquire ordering from the Go memory model, all
    accesses to it are ordered). -/
theorem lockset_no_race (cap : Chan → Nat) (sel : Loc → Bool) (guard : Loc → Lock) (progs : List (List Op))
    (hp : ∀ p ∈ progs, guarded sel guard [] p = true) {s : State} (hr : Reach cap (init progs) s) :
    ∀ x, sel x = true → ¬ Race s x := by
  have hg : ∀ t ∈ s.threads, guarded sel guard t.held t.todo = true :=
    reach_threads_inv (fun t => guarded sel guard t.held t.todo = true) (fun p h => hp p h)
      (fun s t t' hs h => guarded_step s t t' hs h) hr
  have he := excl_reach hr
  intro x hx hrace
  obtain ⟨i, j, ti, tj, wi, wj, hij, hi, hj, hai, haj, _⟩ := hrace
  have h1 := guarded_access (hg ti (List.mem_of_getElem? hi)) hai hx
  have h2 := guarded_access (hg tj (List.mem_of_getElem? hj)) haj hx
  exact he i j ti tj (guard x) hij hi hj h1 h2

theorem accessOk_guard {table : List AccessRow} {sel : Loc → Bool} {guard : Loc → Lock}
    (hrows : ∀ r ∈ table, sel r.1 = true → guard r.1 ∈ r.2.2)
    {x : Loc} {w : Bool} {held : List Lock} (h : accessOk table x w held = true) :
    (!sel x || held.contains (guard x)) = true := by
  simp only [accessOk, List.any_eq_true, Bool.and_eq_true, beq_iff_eq, List.all_eq_true] at h
  obtain ⟨r, hr, ⟨hx, _⟩, hall⟩ := h
  by_cases hs : sel x = true
  · have hg := hrows r hr (by rw [hx]; exact hs)
    rw [hx] at hg
    have := hall _ hg
    simp only [Bool.or_eq_true]
    exact Or.inr this
  · simp at hs; simp [hs]

/-- A thread all of whose accesses are rows of the table holds the guard at every selected access, provided
    the guard of a selected location occurs in the lock set of each of its rows (checked on the table). -/
theorem guarded_of_conformsAccess {table : List AccessRow} {sel : Loc → Bool} {guard : Loc → Lock}
    (hrows : ∀ r ∈ table, sel r.1 = true → guard r.1 ∈ r.2.2) :
    ∀ (p : List Op) (held : List Lock), conformsAccess table held p = true → guarded sel guard held p = true := by
  intro p
  induction p with
  | nil => intro held _; simp [guarded]
  | cons op r ih =>
    intro held h
    cases op with
    | acquire l => simp only [conformsAccess] at h; simp only [guarded]; exact ih _ h
    | release l => simp only [conformsAccess] at h; simp only [guarded]; exact ih _ h
    | read x =>
      simp only [conformsAccess, Bool.and_eq_true] at h
      simp only [guarded, Bool.and_eq_true]
      exact ⟨accessOk_guard hrows h.1, ih _ h.2⟩
    | write x =>
      simp only [conformsAccess, Bool.and_eq_true] at h
      simp only [guarded, Bool.and_eq_true]
      exact ⟨accessOk_guard hrows h.1, ih _ h.2⟩
    | send c => simp only [conformsAccess] at h; simp only [guarded]; exact ih _ h
    | recv c => simp only [conformsAccess] at h; simp only [guarded]; exact ih _ h
    | close c => simp only [conformsAccess] at h; simp only [guarded]; exact ih _ h

/-! ### channels that are never closed -/

theorem closes_tail {c : Chan} {op : Op} {r : List Op} (h : closes c (op :: r) = false) : closes c r = false := by
  cases op with
  | close c' => simp only [closes, Bool.or_eq_false_iff] at h; exact h.2
  | acquire l => simpa [closes] using h
  | release l => simpa [closes] using h
  | read x => simpa [closes] using h
  | write x => simpa [closes] using h
  | send c' => simpa [closes] using h
  | recv c' => simpa [closes] using h

theorem next_no_close {cap : Chan → Nat} {s s' : State} {i : Tid} (h : next cap s i = some s')
    (hprog : ∀ t ∈ s.threads, ∀ c, closes c t.todo = false)
    (hcl : ∀ c, s.closed c = false) (hp : s.panicked = false) :
    (∀ c, s'.closed c = false) ∧ s'.panicked = false := by
  unfold next at h
  cases ht : s.threads[i]? with
  | none => simp [ht] at h
  | some t =>
    simp only [ht] at h
    have hmem := List.mem_of_getElem? ht
    cases hd : t.todo with
    | nil => simp [hd] at h
    | cons op r =>
      simp only [hd] at h
      cases op with
      | acquire l =>
        by_cases hb : heldBySome s.threads l = true
        · simp [hb] at h
        · simp [hb] at h; rw [← h]; exact ⟨hcl, hp⟩
      | release l => simp at h; rw [← h]; exact ⟨hcl, hp⟩
      | read x => simp at h; rw [← h]; exact ⟨hcl, hp⟩
      | write x => simp at h; rw [← h]; exact ⟨hcl, hp⟩
      | send c =>
        have hc := hcl c
        by_cases hb : s.buf c < cap c
        · simp [hc, hb] at h; rw [← h]; exact ⟨hcl, hp⟩
        · simp [hc, hb] at h
      | recv c =>
        have hc := hcl c
        by_cases hb : 0 < s.buf c
        · simp [hb] at h; rw [← h]; exact ⟨hcl, hp⟩
        · simp [hb, hc] at h
      | close c =>
        have := hprog t hmem c
        rw [hd] at this
        simp [closes] at this

/-- **Generic theorem 3.** If no thread ever executes `close`, no reachable state has aborted with
    "send on closed channel" / "close of closed channel". -/
theorem no_close_no_abort (cap : Chan → Nat) (progs : List (List Op))
    (hp : ∀ p ∈ progs, ∀ c, closes c p = false) {s : State} (hr : Reach cap (init progs) s) :
    s.panicked = false ∧ ∀ c, s.closed c = false := by
  have hprog : ∀ t ∈ s.threads, ∀ c, closes c t.todo = false :=
    reach_threads_inv (fun t => ∀ c, closes c t.todo = false) (fun p h => hp p h)
      (fun s t t' hs h c => by
        obtain ⟨op, hd, _⟩ := hs
        have := h c
        rw [hd] at this
        exact closes_tail this) hr
  clear hprog
  induction hr with
  | refl => exact ⟨rfl, fun _ => rfl⟩
  | step i hr' hn ih =>
    have hprog' := reach_threads_inv (fun t => ∀ c, closes c t.todo = false) (fun p h => hp p h)
      (fun s t t' hs h c => by
        obtain ⟨op, hd, _⟩ := hs
        have := h c
        rw [hd] at this
        exact closes_tail this) hr'
    have := next_no_close hn hprog' ih.2 ih.1
    exact ⟨this.2, this.1⟩

end Lal.Sync
