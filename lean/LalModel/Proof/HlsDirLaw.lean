import LalModel.Proof.HlsRecord
/- The model's own directory is the operation list applied to the initial directory. -/
namespace Lal.HlsC
open Lal Lal.Hls Lal.Fs

variable {c : Cfg}

theorem step_dir_law (w : World) (e : Ev) : (step c w e).1.dir = applyAll under w.dir (step c w e).2 := by
  cases e with
  | start => cases hm : w.mux <;> simp [step, hm, applyAll, Fs.apply]
  | patpmt b => cases hm : w.mux <;> simp [step, hm, applyAll]
  | pend a => simp [step, applyAll]
  | feed f now => cases hm : w.mux <;> simp [step, hm, applyAll]
  | dispose => cases hm : w.mux <;> simp [step, hm, applyAll]
  | cleanup =>
    simp only [step]
    split
    · cases hm : w.mux <;> simp [applyAll]
    · simp [applyAll]

theorem runWorld_dir : ∀ (evs : List Ev) (w : World), (runWorld c w evs).dir = applyAll under w.dir (run c w evs).flatten
  | [], _ => rfl
  | e :: es, w => by
    show (runWorld c (step c w e).1 es).dir = applyAll under w.dir ((step c w e).2 :: run c (step c w e).1 es).flatten
    rw [List.flatten_cons, applyAll_append, ← step_dir_law, runWorld_dir es]

theorem runWorld_append : ∀ (a b : List Ev) (w : World), runWorld c w (a ++ b) = runWorld c (runWorld c w a) b
  | [], _, _ => rfl
  | e :: es, b, w => runWorld_append es b _

end Lal.HlsC
