import LalModel.Model.Bytes
/-
  Model of base.MakeWsFrameHeader (pkg/base/websocket.go) for the header lal
  builds in BasicHttpSubSession.Write: FIN, binary, unmasked; and of the list of
  queue items one Write produces.
-/
namespace Lal.Ws

structure Header where
  fin : Bool
  rsv1 : Bool
  rsv2 : Bool
  rsv3 : Bool
  opcode : Nat        -- 0..15
  payloadLength : Nat -- uint64
  masked : Bool
  maskKey : Nat       -- uint32
deriving Repr, DecidableEq

def bit (b : Bool) (v : Nat) : Nat := if b then v else 0

/-- `base.MakeWsFrameHeader`. The Go ORs the flags into byte 0; the four flag
    bits and the 4-bit opcode do not overlap, so OR is addition here
    (opcode < 16 is the type's range in every caller). -/
def makeFrameHeader (h : Header) : Bytes :=
  let b0 := b8 (bit h.fin 128 + bit h.rsv1 64 + bit h.rsv2 32 + bit h.rsv3 16 + h.opcode % 16)
  let m := bit h.masked 128
  let key := if h.masked then le32 h.maskKey else []
  if h.payloadLength < 126 then [b0, b8 (m + h.payloadLength)] ++ key
  else if h.payloadLength ≤ 65535 then [b0, b8 (m + 126)] ++ be16 h.payloadLength ++ key
  else [b0, b8 (m + 127)] ++ be64 h.payloadLength ++ key

/-- The header `BasicHttpSubSession.Write` builds for a unit of `n` bytes. -/
def subHeader (n : Nat) : Header :=
  { fin := true, rsv1 := false, rsv2 := false, rsv3 := false, opcode := 2,
    payloadLength := n, masked := false, maskKey := 0 }

/-- The buffers one `BasicHttpSubSession.Write(b)` hands to the connection. On the pinned tree each was a
    `conn.Write` of its own, i.e. its own item of the asynchronous write queue (S18); since lal commit
    "fix: websocket subscribers … queued as one write" they are the buffers of ONE `conn.Writev`, i.e. one
    queue item (Model/Queue.lean `subItems`), still written to the socket one after the other. -/
def subWrite (isWs : Bool) (b : Bytes) : List Bytes :=
  if isWs then [makeFrameHeader (subHeader b.length), b] else [b]

end Lal.Ws
