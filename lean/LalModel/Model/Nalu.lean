import LalModel.Model.Go
/-
  Model of the NAL-unit stream functions of pkg/avc/avc.go (pkg/hevc and pkg/h2645 forward to them):
  IterateNaluStartCode, IterateNaluAnnexb / SplitNaluAnnexb, IterateNaluAvcc / SplitNaluAvcc,
  Avcc2Annexb, Annexb2Avcc, and h2645.JoinNaluAvcc.

  An iteration is modelled by the list of slices handed to the handler plus the error flag
  (the Go calls the handler before returning some of its errors, so both are observable).
  A Go `nil` slice and the empty list are identified (`nals == nil` ⇒ ErrShortBuffer, nothing handled).
-/
namespace Lal.Nalu

def startCode3 : Bytes := [0, 0, 1]
def startCode4 : Bytes := [0, 0, 0, 1]

/-- The loop of `IterateNaluStartCode` over `nalu[start:]`: `i` is the loop index, `count` the
    number of zero bytes seen immediately before. Result relative to `start`: (i - count, count + 1). -/
def scan : Bytes → Nat → Nat → Option (Nat × Nat)
  | [], _, _ => none
  | x :: rest, i, count =>
    if x = 0 then scan rest (i + 1) (count + 1)
    else if x = 1 then
      if count ≥ 2 then some (i - count, count + 1) else scan rest (i + 1) 0
    else scan rest (i + 1) 0

/-- `avc.IterateNaluStartCode(nalu, start)`; `none` = (-1, -1). The "start code" is every zero
    byte before the 01, so its length can exceed 4. -/
def iterateNaluStartCode (nalu : Bytes) (start : Nat) : Option (Nat × Nat) :=
  if start ≥ nalu.length then none
  else (scan (nalu.drop start) 0 0).map fun (p, l) => (start + p, l)

/-- the `for` loop of `IterateNaluAnnexb`; `s` = `nals[start:]` -/
def annexbLoop : Nat → Bytes → List Bytes × Bool
  | 0, _ => ([], true)
  | fuel+1, s =>
    if s.isEmpty then ([], true) else        -- IterateNaluStartCode: start >= len ⇒ -1; start < len fails ⇒ ErrAvc
    match scan s 0 0 with
    | none => ([s], false)
    | some (p, l) =>
      if 0 < p then
        let (r, e) := annexbLoop fuel (s.drop (p + l))
        (s.take p :: r, e)
      else ([], true)

/-- `avc.IterateNaluAnnexb`: handled slices and whether an error is returned -/
def iterateNaluAnnexb (nals : Bytes) : List Bytes × Bool :=
  if nals.isEmpty then ([], true) else
  match scan nals 0 0 with
  | none => ([nals], true)
  | some (p, l) => annexbLoop nals.length (nals.drop (p + l))

def splitNaluAnnexb := iterateNaluAnnexb

/-- the `for` loop of `IterateNaluAvcc`; `s` = `nals[pos:]` -/
def avccLoop : Nat → Bytes → List Bytes × Bool
  | 0, _ => ([], true)
  | fuel+1, s =>
    match s with
    | a :: b :: c :: d :: s' =>
      let length := rd32 a b c d
      if s'.isEmpty then ([], true)
      else if length < s'.length then
        if length = 0 then avccLoop fuel s'
        else
          let (r, e) := avccLoop fuel (s'.drop length)
          (s'.take length :: r, e)
      else if length = s'.length then ([s'], false)
      else ([s'], true)
    | _ => ([], true)

/-- `avc.IterateNaluAvcc` -/
def iterateNaluAvcc (nals : Bytes) : List Bytes × Bool :=
  if nals.isEmpty then ([], true) else avccLoop nals.length nals

def splitNaluAvcc := iterateNaluAvcc

/-- `avc.Avcc2Annexb`: the bytes returned (also on error) and the error flag -/
def avcc2Annexb (nals : Bytes) : Bytes × Bool :=
  let (l, e) := iterateNaluAvcc nals
  (l.flatMap (startCode4 ++ ·), e)

/-- `h2645.JoinNaluAvcc` (and what `Annexb2Avcc` appends per unit); lengths are uint32 -/
def joinNaluAvcc (l : List Bytes) : Bytes := l.flatMap fun n => be32 n.length ++ n

/-- `avc.Annexb2Avcc` -/
def annexb2Avcc (nals : Bytes) : Bytes × Bool :=
  let (l, e) := iterateNaluAnnexb nals
  (joinNaluAvcc l, e)

end Lal.Nalu
