import LalModel.Model.MsgClass
import LalModel.Model.SeqHeader
/-
  Model of pkg/remux/rtmp2avpacket.go (`Rtmp2AvPacketRemuxer.FeedRtmpMsg`, default options: `EraseSeiFlag = true`):
  the library remuxer handed to customize / hook sessions. Not part of the group's own fan-out.
-/
namespace Lal.AvPacketRemux
open Lal Lal.MsgClass

structure Loop where
  out : Bytes := []
  vps : Bytes := []
  sps : Bytes := []
  pps : Bytes := []
  appended : Bool := false
  spspps : Option Bytes
deriving Repr, DecidableEq

def sc4 : Bytes := Nalu.startCode4

/-- the `IterateNaluAvcc` handler -/
def nalStep (h264 : Bool) (l : Loop) (nal : Bytes) : GoM Loop := do
  let b ← idx? "Rtmp2AvPacketRemuxer: nal[0]" nal 0
  let plain (l : Loop) : Loop := { l with out := l.out ++ sc4 ++ nal }
  let key (l : Loop) : Loop :=
    let l := if !l.appended then { l with out := l.out ++ l.spspps.getD [], appended := true } else l
    plain l
  if h264 then
    let t := b.toNat % 32
    if t = 7 then return { l with sps := nal }
    if t = 8 then
      let l := { l with pps := nal }
      return if l.sps.length ≠ 0 ∧ l.pps.length ≠ 0 then { l with spspps := some (sc4 ++ l.sps ++ sc4 ++ l.pps) } else l
    if t = 5 then return key l
    if t = 6 then return l
    return plain l
  else
    let t := b.toNat % 128 / 2
    if t = 32 then return { l with vps := nal }
    if t = 33 then return { l with sps := nal }
    if t = 34 then
      let l := { l with pps := nal }
      return if l.vps.length ≠ 0 ∧ l.sps.length ≠ 0 ∧ l.pps.length ≠ 0
        then { l with spspps := some (sc4 ++ l.vps ++ sc4 ++ l.sps ++ sc4 ++ l.pps) } else l
    if 16 ≤ t ∧ t ≤ 23 then return key l
    if t = 39 then return l
    return plain l

def nalLoop (h264 : Bool) : Loop → List Bytes → GoM Loop
  | l, [] => .ok l
  | l, n :: rest => do nalLoop h264 (← nalStep h264 l n) rest

/-- an emitted `base.AvPacket` -/
structure Pkt where
  pt : Int
  ts : Nat
  pts : Nat
  payload : Bytes
deriving Repr, DecidableEq

/-- `FeedRtmpMsg(msg)`: the cached parameter sets, the packet handed to `onAvPacket`, whether an error is returned -/
def feed (spspps : Option Bytes) (m : Msg) : GoM (Option Bytes × Option Pkt × Bool) := do
  if m.typeId ≠ tVideo then return (spspps, none, false)
  if m.payload.length ≤ 5 then return (spspps, none, false)
  let h264 := (← videoCodecId m) = 7
  if ← isVideoKeySeqHeader m then
    match (if h264 then SeqHeader.avcSeqHeader2Annexb m.payload else SeqHeader.hevcSeqHeader2Annexb m.payload) with
    | .ok b => return (some b, none, false)
    | .error .err => return (none, none, true)
    | .error e => throw e
  let (nals, err) := Nalu.iterateNaluAvcc (← from? "Rtmp2AvPacketRemuxer: Payload[5:]" m.payload 5)
  let l ← nalLoop h264 { spspps := spspps } nals
  let pkt ← (do
    if l.out.length > 0 then
      return some { pt := if h264 then 96 else 98, ts := m.ts, pts := ← pts m, payload := l.out }
    else return none : GoM (Option Pkt))
  return (l.spspps, pkt, err)

end Lal.AvPacketRemux
