import LalModel.Model.Go
/-
  Model of pkg/aac/aac.go and seqheader.go: AscContext.Unpack/Pack, PackAdtsHeader,
  GetSamplingFrequency, AdtsHeaderContext.Unpack, MakeAscWithAdtsHeader,
  MakeAudioDataSeqHeaderWithAsc, MakeAudioDataSeqHeaderWithAdtsHeader, SequenceHeaderContext.Unpack.
  The bit-writer/bit-reader calls at fixed offsets are written as the byte arithmetic they perform
  (validated against the real code over every ASC value on every run).
-/
namespace Lal.Aac

/-- `aac.AscContext`; the fields are uint8 -/
structure AscContext where
  audioObjectType : Nat        -- [5b]
  samplingFrequencyIndex : Nat -- [4b]
  channelConfiguration : Nat   -- [4b]
deriving Repr, DecidableEq

def adtsHeaderLength : Nat := 7
def minAscLength : Nat := 2

/-- `AscContext.Unpack` : 5 + 4 + 4 bits of the first two bytes; short input is an error -/
def ascUnpack (asc : Bytes) : GoM AscContext :=
  match asc with
  | a :: b :: _ =>
    .ok { audioObjectType := a.toNat / 8,
          samplingFrequencyIndex := a.toNat % 8 * 2 + b.toNat / 128,
          channelConfiguration := b.toNat / 8 % 16 }
  | _ => .error .err

/-- `AscContext.Pack`: `WriteBits8(5|4|4, v)` write the low bits of each field -/
def ascPack (c : AscContext) : Bytes :=
  [b8 (c.audioObjectType % 32 * 8 + c.samplingFrequencyIndex % 16 / 2),
   b8 (c.samplingFrequencyIndex % 2 * 128 + c.channelConfiguration % 16 * 8)]

/-- `AscContext.PackAdtsHeader(frameLength)`:
    `WriteBits8(2, AudioObjectType-1)` is uint8 arithmetic (object type 0 wraps to 255),
    `WriteBits16(13, uint16(frameLength+7))` keeps 13 bits. -/
def packAdtsHeader (c : AscContext) (frameLength : Nat) : Bytes :=
  let prof := (c.audioObjectType + 255) % 256 % 4
  let sfi := c.samplingFrequencyIndex % 16
  let ch := c.channelConfiguration % 8
  let len := (frameLength + 7) % 8192
  [0xFF, 0xF1,
   b8 (prof * 64 + sfi * 4 + ch / 4),
   b8 (ch % 4 * 64 + len / 2048),
   b8 (len / 8),
   b8 (len % 8 * 32 + 31),
   0xFC]

/-- `AscContext.GetSamplingFrequency`; `none` = ErrSamplingFrequencyIndex (value -1) -/
def samplingFrequency (c : AscContext) : Option Nat :=
  [96000, 88200, 64000, 48000, 44100, 32000, 24000, 22050, 16000, 12000, 11025, 8000, 7350][c.samplingFrequencyIndex]?

/-- `aac.AdtsHeaderContext` -/
structure AdtsHeaderContext where
  asc : AscContext
  adtsLength : Nat
deriving Repr, DecidableEq

/-- `AdtsHeaderContext.Unpack`: needs 7 bytes, reads bytes 2..5 -/
def adtsUnpack (h : Bytes) : GoM AdtsHeaderContext :=
  match h with
  | _ :: _ :: b2 :: b3 :: b4 :: b5 :: _ :: _ =>
    .ok { asc := { audioObjectType := (b2.toNat / 64 + 1) % 256,
                   samplingFrequencyIndex := b2.toNat / 4 % 16,
                   channelConfiguration := b2.toNat % 2 * 4 + b3.toNat / 64 },
          adtsLength := b3.toNat % 4 * 2048 + b4.toNat * 8 + b5.toNat / 32 }
  | _ => .error .err

/-- `aac.MakeAscWithAdtsHeader` -/
def makeAscWithAdtsHeader (h : Bytes) : GoM Bytes := do
  let c ← adtsUnpack h
  pure (ascPack c.asc)

/-- `aac.MakeAudioDataSeqHeaderWithAsc` -/
def makeAudioDataSeqHeaderWithAsc (asc : Bytes) : GoM Bytes :=
  if asc.length < minAscLength then .error .err else .ok (0xaf :: 0 :: asc)

/-- `aac.MakeAudioDataSeqHeaderWithAdtsHeader` -/
def makeAudioDataSeqHeaderWithAdtsHeader (h : Bytes) : GoM Bytes := do
  let asc ← makeAscWithAdtsHeader h
  makeAudioDataSeqHeaderWithAsc asc

/-- `SequenceHeaderContext.Unpack`: (SoundFormat, SoundRate, SoundSize, SoundType, AacPacketType);
    reads that do not fit yield 0 (errors ignored) -/
def seqHeaderUnpack (b : Bytes) : Nat × Nat × Nat × Nat × Nat :=
  match b with
  | [] => (0, 0, 0, 0, 0)
  | [a] => (a.toNat / 16, a.toNat / 4 % 4, a.toNat / 2 % 2, a.toNat % 2, 0)
  | a :: p :: _ => (a.toNat / 16, a.toNat / 4 % 4, a.toNat / 2 % 2, a.toNat % 2, p.toNat)

end Lal.Aac
