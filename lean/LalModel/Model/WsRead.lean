import LalModel.Model.Bytes
import LalModel.Model.Go
/-
  Model of base.ReadWsPayload (pkg/base/websocket.go) applied to a reader that holds exactly the bytes `b`
  and then reports EOF. `.error .err` = any returned error (short read, length with the top bit set).
  `cipher` (the unmasking loop, 8 bytes at a time in Go) is modelled by its specification
  `payload[i] ^= mask[i % 4]`; its index arithmetic is not modelled.
  What the fixed code guarantees and the model shows: the bytes held are at most the bytes received
  (`io.ReadAll(io.LimitReader(r, n))`), never the announced length.
-/
namespace Lal.WsRead
open Lal

def unmask (key : Bytes) : Nat → Bytes → Bytes
  | _, [] => []
  | i, x :: rest => (x ^^^ key.getD (i % 4) 0) :: unmask key (i + 1) rest

/-- the (extended) payload length behind the two fixed bytes: `none` = short read -/
def readLen (l : Nat) (r0 : Bytes) : Option (Nat × Bytes) :=
  if l < 126 then some (l, r0)
  else if l = 126 then
    match r0 with
    | a :: c :: r => some (rd16 a c, r)
    | _ => none
  else
    match r0 with
    | a :: c :: d :: e :: f :: g :: h :: i :: r => some (rd64 a c d e f g h i, r)
    | _ => none

/-- the masking key -/
def readKey (masked : Bool) (r1 : Bytes) : Option (Bytes × Bytes) :=
  if masked then
    match r1 with
    | a :: c :: d :: e :: r => some ([a, c, d, e], r)
    | _ => none
  else some ([], r1)

/-- `io.ReadAll(io.LimitReader(r, n))`, the length check and the unmasking -/
def readBody (masked : Bool) (key : Bytes) (n : Nat) (r2 : Bytes) : GoM (Bytes × Bytes) :=
  -- RFC 6455 5.2: the most significant bit of the 64 bit length must be 0
  if n > 9223372036854775807 then .error .err
  else if r2.length < n then .error .err
  else .ok (if masked then unmask key 0 (r2.take n) else r2.take n, r2.drop n)

/-- the payload and the unread rest -/
def readWsPayload (b : Bytes) : GoM (Bytes × Bytes) :=
  match b with
  | _ :: b1 :: r0 =>
    match readLen (b1.toNat % 128) r0 with
    | none => .error .err
    | some (n, r1) =>
      match readKey (b1.toNat / 128 = 1) r1 with
      | none => .error .err
      | some (key, r2) => readBody (b1.toNat / 128 = 1) key n r2
  | _ => .error .err

end Lal.WsRead
