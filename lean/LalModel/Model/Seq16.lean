/-
  Model of pkg/rtprtcp/rtp.go `CompareSeq` and `SubSeq` (16-bit RTP sequence numbers, wrap-around aware).
  Arguments are Go `uint16` values, i.e. naturals below 65536; `a - b` is only evaluated when `a > b`,
  so the `uint16` subtraction never wraps.
-/
namespace Lal.Seq16

/-- `rtprtcp.CompareSeq(a, b)` : 0 equal, 1 `a` newer, -1 `a` older (half window 32768). -/
def compareSeq (a b : Nat) : Int :=
  if a = b then 0
  else if a > b then (if a - b < 32768 then 1 else -1)
  else (if b - a < 32768 then -1 else 1)

/-- `rtprtcp.SubSeq(a, b)` : signed distance; note the 16384 threshold of the Go code. -/
def subSeq (a b : Nat) : Int :=
  if a = b then 0
  else if a > b then
    (if a - b < 16384 then ((a - b : Nat) : Int) else ((a - b : Nat) : Int) - 65536)
  else
    (if b - a < 16384 then -((b - a : Nat) : Int) else 65536 - ((b - a : Nat) : Int))

end Lal.Seq16
