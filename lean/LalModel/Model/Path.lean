import LalModel.Model.Str
import LalModel.Model.Url
import LalModel.Generated.C14
/-
  Model of the request-path → file-path and stream-name → output-path mappings (C14):

  * `path/filepath.Clean` and `filepath.Join` on `/`-separated byte strings (Unix), as a stack of path
    elements (`cleanStep`); `Proof/Path.lean` proves it against its specification (normal form, same
    denotation, idempotent);
  * pkg/hls/path_strategy.go — `DefaultPathStrategy.GetRequestInfo / getStreamNameFromTsFileName /
    GetMuxerOutPath / GetLiveM3u8FileName / GetRecordM3u8FileName / GetTsFileNameWithPath / GetTsFileName`
    and `StreamNameIsSafePathElement`;
  * pkg/hls/server_handler.go — what `ServeHTTPWithUrlCtx` reads for a request (sub-session mode off);
  * pkg/hls/muxer.go — the paths `NewMuxer / ensureDir / openFragment / writePlaylist / writeRecordPlaylist`
    hand to the file-system layer;
  * pkg/logic/group__record_{hls,flv,mpegts}.go — the guards and file names of `startHlsIfNeeded`,
    `startRecordFlvIfNeeded`, `startRecordMpegtsIfNeeded`.
-/
namespace Lal.Path
open Lal.Str

def dot : Bytes := [46]
def dotdot : Bytes := [46, 46]

/-- one element of the path against the stack of elements kept so far (top first) -/
def cleanStep (rooted : Bool) (st : List Bytes) (seg : Bytes) : List Bytes :=
  if seg = [] ∨ seg = dot then st
  else if seg = dotdot then
    match st with
    | [] => if rooted then [] else [dotdot]
    | top :: rest => if top = dotdot then dotdot :: st else rest
  else seg :: st

def isRooted (p : Bytes) : Bool := p.head? == some 47

/-- cleaned form as (rooted, elements) -/
def norm (p : Bytes) : Bool × List Bytes :=
  (isRooted p, ((splitByte 47 p).foldl (cleanStep (isRooted p)) []).reverse)

def render (n : Bool × List Bytes) : Bytes :=
  if n.1 then 47 :: joinWith [47] n.2
  else if n.2 = [] then dot else joinWith [47] n.2

/-- `filepath.Clean` -/
def clean (p : Bytes) : Bytes := render (norm p)

/-- `filepath.Join`: leading empty elements are dropped, the rest is joined with `/` and cleaned;
    all empty gives `""` -/
def join (elems : List Bytes) : Bytes :=
  match elems.dropWhile (· == []) with
  | [] => []
  | es => clean (joinWith [47] es)

/-- `p` denotes a location at or below the directory `root` (both read as cleaned paths): same
    rootedness, the elements of `root` are a prefix of those of `p`, and what follows never goes up -/
def under (root p : Bytes) : Prop :=
  (norm root).1 = (norm p).1 ∧ ∃ rest, (norm p).2 = (norm root).2 ++ rest ∧ dotdot ∉ rest

instance (root p : Bytes) : Decidable (under root p) :=
  if h1 : (norm root).1 = (norm p).1 then
    if h2 : (norm root).2 = (norm p).2.take (norm root).2.length ∧ dotdot ∉ (norm p).2.drop (norm root).2.length then
      isTrue ⟨h1, (norm p).2.drop (norm root).2.length, by
        have := List.take_append_drop (norm root).2.length (norm p).2
        rw [← h2.1] at this; exact this.symm, h2.2⟩
    else isFalse (by
      intro ⟨_, rest, he, hn⟩
      apply h2
      rw [he]
      simp [hn])
  else isFalse (fun h => h1 h.1)

/-! ### stream names -/

/-- `hls.StreamNameIsSafePathElement`: the name is one ordinary path element -/
def safeName (name : Bytes) : Bool :=
  name != [] && name != dot && name != dotdot && !name.contains 47 && !name.contains 92

/-- `getStreamNameFromTsFileName`: the text before the second `-` counted from the end, the whole name
    when there are fewer than two -/
def dashPositions (i : Nat) : Bytes → List Nat
  | [] => []
  | x :: r => if x = 45 then i :: dashPositions (i + 1) r else dashPositions (i + 1) r

def tsStreamName (fileName : Bytes) : Bytes :=
  match (dashPositions 0 fileName).reverse with
  | _ :: i :: _ => fileName.take i
  | _ => fileName

/-! ### request side -/

structure RequestInfo where
  streamName : Bytes := []
  fileNameWithPath : Bytes := []
deriving Repr, DecidableEq

/-- `uriItems[len(uriItems)-2]` of `strings.Split(path, "/")` -/
def secondLastItem (path : Bytes) : Bytes :=
  match (splitByte 47 path).reverse with
  | _ :: s :: _ => s
  | _ => []

/-- the stream name `GetRequestInfo` derives, before the safety check -/
def requestStream (u : Url.UrlCtx) : Bytes :=
  if u.fileType = asc "m3u8" then
    if u.lastItem = Gen.c14PlaylistName ∨ u.lastItem = Gen.c14RecordName then secondLastItem u.path
    else u.filenameWithoutType
  else if u.fileType = asc "ts" then tsStreamName u.lastItem
  else []

/-- `DefaultPathStrategy.GetRequestInfo` -/
def getRequestInfo (u : Url.UrlCtx) (root : Bytes) : RequestInfo :=
  let s := requestStream u
  if u.fileType = asc "m3u8" then
    if !safeName s then {}
    else if u.lastItem = Gen.c14PlaylistName ∨ u.lastItem = Gen.c14RecordName then
      { streamName := s, fileNameWithPath := join [root, s, u.lastItem] }
    else { streamName := s, fileNameWithPath := join [root, s, Gen.c14PlaylistName] }
  else if u.fileType = asc "ts" then
    if !safeName s then {} else { streamName := s, fileNameWithPath := join [root, s, u.lastItem] }
  else {}

/-- what `ServerHandler.ServeHTTPWithUrlCtx` does for a delivered request when the sub-session mode is
    off: answers "invalid hls request" without touching the file system, or reads exactly one file -/
inductive Served where
  | invalid
  | read (file : Bytes)
deriving Repr, DecidableEq

def serve (u : Url.UrlCtx) (root : Bytes) : Served :=
  let ri := getRequestInfo u root
  if u.lastItem = [] ∨ (u.fileType ≠ asc "m3u8" ∧ u.fileType ≠ asc "ts") ∨ ri.streamName = [] ∨ ri.fileNameWithPath = []
  then .invalid else .read ri.fileNameWithPath

/-! ### write side -/

def muxerOutPath (root name : Bytes) : Bytes := join [root, name]
def liveM3u8 (outPath : Bytes) : Bytes := join [outPath, Gen.c14PlaylistName]
def recordM3u8 (outPath : Bytes) : Bytes := join [outPath, Gen.c14RecordName]
/-- `GetTsFileName`: `%s-%d-%d.ts` with (streamName, timestamp, index) -/
def tsFileName (name : Bytes) (index timestamp : Int) : Bytes :=
  name ++ [45] ++ intDec timestamp ++ [45] ++ intDec index ++ asc ".ts"
def tsFileNameWithPath (outPath fileName : Bytes) : Bytes := join [outPath, fileName]

/-- every path a `hls.Muxer` for `name` hands to the file-system layer when it writes the fragments
    `frags` = (index, timestamp): the directory always (`ensureDir`); the live playlist always (`Start` reads what an
    earlier publish left there, `continueMediaSequence`); its `.bak` once a
    fragment is closed; the record playlist unless the cleanup mode is `CleanupModeAsap` (2); the fragments -/
def muxerPaths (root name : Bytes) (cleanupMode : Nat) (frags : List (Int × Int)) : List Bytes :=
  let op := muxerOutPath root name
  if frags = [] then [op, liveM3u8 op] else
  [op, liveM3u8 op, liveM3u8 op ++ asc ".bak"] ++
    (if cleanupMode = 2 then [] else [recordM3u8 op, recordM3u8 op ++ asc ".bak"]) ++
    frags.map (fun f => tsFileNameWithPath op (tsFileName name f.1 f.2))

/-- `startRecordFlvIfNeeded` / `startRecordMpegtsIfNeeded`: `%s-%d.flv` / `%s-%d.ts` below the configured directory -/
def recordFile (outPath name : Bytes) (nowUnix : Int) (ext : Bytes) : Bytes :=
  join [outPath, name ++ [45] ++ intDec nowUnix ++ ext]

/-- the output configuration of a group -/
structure OutConf where
  hlsEnable : Bool
  hlsRoot : Bytes
  hlsCleanupMode : Nat := 1
  flvEnable : Bool
  flvRoot : Bytes
  tsEnable : Bool
  tsRoot : Bytes

/-- every path `Group.addIn` (startHlsIfNeeded, startRecordFlvIfNeeded, startRecordMpegtsIfNeeded) and the
    HLS muxer it starts create or write for the stream `name`, with the directory each belongs to -/
def groupPaths (c : OutConf) (name : Bytes) (nowUnix : Int) (frags : List (Int × Int)) : List (Bytes × Bytes) :=
  if !safeName name then [] else
  (if c.hlsEnable then (muxerPaths c.hlsRoot name c.hlsCleanupMode frags).map (fun p => (c.hlsRoot, p)) else []) ++
  (if c.flvEnable then [(c.flvRoot, recordFile c.flvRoot name nowUnix (asc ".flv"))] else []) ++
  (if c.tsEnable then [(c.tsRoot, recordFile c.tsRoot name nowUnix (asc ".ts"))] else [])

end Lal.Path
