import LalModel.Model.Bytes
import LalModel.Model.Crc
import LalModel.Generated.C09
/-
  Model of pkg/mpegts/psi.go (`PsiSection.Pack` and its writers), pat.go (`PackPat`) and
  pmt.go (`PackPmt`). The Go code writes the fields with a `nazabits.BitWriter`; every field group
  ends on a byte boundary, so the model gives the bytes arithmetically:
     `WriteBit(ssi); WriteBit(0); WriteBits8(2, 0xff); WriteBits16(12, len)` = `[ssi*128 + 48 + len/256%16, len%256]` …
-/
namespace Lal.Psi

/-- `mpegts.Descriptor` (the fields `Pack` reads). `declLen` is `Descriptor.Length`, only compared with 0. -/
structure Descriptor where
  declLen : Nat
  tag     : Nat
  fmtId   : Nat := 0      -- Registration.FormatIdentifier (uint32)
  addInfo : Bytes := []   -- Registration.AdditionalIdentificationInfo
  extTag  : Nat := 0      -- Extension.Tag
  unknown : Bytes := []   -- Extension.Unknown
deriving Repr, DecidableEq

/-- `mpegts.PmtProgramElement` -/
structure PmtElem where
  streamType  : Nat
  pid         : Nat
  descriptors : List Descriptor := []
deriving Repr, DecidableEq

/-- `calcDescriptorLength` (a `uint8`) -/
def descriptorLength (d : Descriptor) : Nat :=
  if d.declLen = 0 then 0
  else if d.tag = Gen.tsDescriptorTagRegistration then (4 + d.addInfo.length) % 256
  else if d.tag = Gen.tsDescriptorTagExtension then (1 + d.unknown.length) % 256
  else 0

/-- `calcDescriptorsLength` (a `uint16`) -/
def descriptorsLength (ds : List Descriptor) : Nat :=
  ds.foldl (fun acc d => (acc + 2 + descriptorLength d) % 65536) 0

/-- `writeDescriptor` -/
def writeDescriptor (d : Descriptor) : Bytes :=
  [b8 d.tag, b8 (descriptorLength d)] ++
    (if d.tag = Gen.tsDescriptorTagRegistration then be16 (d.fmtId / 65536 % 65536) ++ be16 (d.fmtId % 65536) ++ d.addInfo
     else if d.tag = Gen.tsDescriptorTagExtension then b8 d.extTag :: d.unknown
     else [])

/-- `writeDescriptorsWithLength`: '1111' + 12-bit length, then the descriptors -/
def writeDescriptorsWithLength (ds : List Descriptor) : Bytes :=
  let l := descriptorsLength ds
  [b8 (240 + l / 256 % 16), b8 l] ++ ds.flatMap writeDescriptor

/-- `writePatSection`: program_number, '111' + 13-bit PID -/
def writePatSection (pes : List (Nat × Nat)) : Bytes :=
  pes.flatMap fun (pn, pmpid) => be16 pn ++ [b8 (224 + pmpid / 256 % 32), b8 pmpid]

/-- `writePmtSection`: '111' PCR_PID, '1111' program_info_length, then the elements -/
def writePmtSection (pcrPid programInfoLength : Nat) (pes : List PmtElem) : Bytes :=
  [b8 (224 + pcrPid / 256 % 32), b8 pcrPid, b8 (240 + programInfoLength / 256 % 16), b8 programInfoLength] ++
    pes.flatMap fun pe =>
      [b8 pe.streamType, b8 (224 + pe.pid / 256 % 32), b8 pe.pid] ++ writeDescriptorsWithLength pe.descriptors

/-- `calaPmtSectionLength` -/
def pmtSectionLength (pes : List PmtElem) : Nat :=
  pes.foldl (fun acc pe => (acc + 5 + (if pe.descriptors.isEmpty then 0 else descriptorsLength pe.descriptors)) % 65536) 4

/-- What `PackPat` / `PackPmt` put into a `PsiSection` before calling `Pack`. -/
inductive Table where
  | pat (pes : List (Nat × Nat))
  | pmt (pcrPid : Nat) (pes : List PmtElem)
deriving Repr

/-- `calcPsiSectionLength` (a `uint16`): 5 + table data + 4 -/
def sectionLength : Table → Nat
  | .pat pes => (5 + 4 * pes.length % 65536 + 4) % 65536
  | .pmt _ pes => (5 + pmtSectionLength pes + 4) % 65536

/-- `PsiSection.Pack` for `sectionSyntaxIndicator = 1`, `tableIdExtension = 1`, `currentNextIndicator = 1`,
    version / section numbers 0, pointer_field 0: returns `psiSection` (its length is the first Go result).
    The Go code allocates `1+3+sectionLength` zero bytes, writes the fields from the front, computes the
    CRC over `psiSection[1:len-4]` and stores it little-endian in the last four bytes. -/
def pack (t : Table) : Bytes :=
  let sl := sectionLength t
  let tableId := match t with | .pat _ => Gen.tsPsiIdPas | .pmt _ _ => Gen.tsPsiIdPms
  let data := match t with
    | .pat pes => writePatSection pes
    | .pmt pcrPid pes => writePmtSection pcrPid 0 pes
  let written := [0x00, b8 tableId, b8 (128 + 48 + sl / 256 % 16), b8 sl] ++ be16 1 ++ [b8 (192 + 0 * 2 + 1), 0x00, 0x00] ++ data
  let body := (written ++ List.replicate (4 + sl) 0).take (4 + sl - 4)
  body ++ le32 (Crc.calcCrc32 0xffffffff (body.drop 1))

/-- `copy(ts, tsheader); copy(ts[4:], psiData); 0xff up to 188` -/
def tsWrap (hdr psiData : Bytes) : Bytes :=
  hdr ++ psiData ++ List.replicate (188 - 4 - psiData.length) 0xFF

/-- `mpegts.PackPat()` -/
def packPat : Bytes :=
  tsWrap [0x47, 0x40, 0x00, 0x10] (pack (.pat [(1, Gen.tsPidPmt)]))

/-- the two descriptors `PackPmt` attaches to an Opus stream -/
def opusDescriptors : List Descriptor :=
  [{ declLen := 4, tag := Gen.tsDescriptorTagRegistration, fmtId := Gen.tsOpusIdentifier },
   { declLen := 2, tag := Gen.tsDescriptorTagExtension, extTag := 0x80, unknown := [0x02] }]

/-- the program elements `PackPmt` declares: video first (AVC / HEVC by RTMP codec id), then audio
    (AAC / Opus by RTMP sound format); any other id — in particular -1, "no such track seen" — declares nothing -/
def pmtElems (videoCodecId audioCodecId : Int) : List PmtElem :=
  let v : List PmtElem :=
    if videoCodecId = Gen.rtmpCodecIdAvc then [{ streamType := Gen.tsStreamTypeAvc, pid := Gen.tsPidVideo }]
    else if videoCodecId = Gen.rtmpCodecIdHevc then [{ streamType := Gen.tsStreamTypeHevc, pid := Gen.tsPidVideo }]
    else []
  let a : List PmtElem :=
    if audioCodecId = Gen.rtmpSoundFormatAac then [{ streamType := Gen.tsStreamTypeAac, pid := Gen.tsPidAudio }]
    else if audioCodecId = Gen.rtmpSoundFormatOpus then
      [{ streamType := Gen.tsStreamTypePrivate, pid := Gen.tsPidAudio, descriptors := opusDescriptors }]
    else []
  v ++ a

/-- `PackPmt` once the elements are chosen: TS header with PID 0x1001 and PUSI, section, 0xFF fill; `pcrPid = 0x100` -/
def packPmtOf (pes : List PmtElem) : Bytes :=
  tsWrap [0x47, 0x50, 0x01, 0x10] (pack (.pmt 0x100 pes))

/-- `mpegts.PackPmt(videoCodecId, audioCodecId)`; the arguments are Go `int`s (`-1` = no such track seen). -/
def packPmt (videoCodecId audioCodecId : Int) : Bytes := packPmtOf (pmtElems videoCodecId audioCodecId)

end Lal.Psi
