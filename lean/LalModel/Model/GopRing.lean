import LalModel.Model.MsgClass
/-
  Model of pkg/remux/gop_cache.go (`GopCache`: cached sequence headers + ring of GOPs, used for RTMP and HTTP-FLV)
  and pkg/remux/gop_cache_mpegts.go (`GopCacheMpegts`, used for HTTP-TS). The cached items are opaque (`α`):
  the RTMP chunks / FLV tag / TS packets of one message.

  The ring is a Go slice of `gopSize = gopNum + 1` elements indexed with `gopRingFirst/Last`; the model keeps the
  list and the two indices and indexes it in `GoM` (`ring[i]` panics when out of range), so that "the indices
  stay inside the ring" is a proved invariant and not an assumption.
-/
namespace Lal.GopRing
open Lal Lal.MsgClass

structure Ring (α : Type) where
  ring : List (List α)
  first : Nat
  last : Nat
  gopSize : Nat
  maxFrames : Nat            -- singleGopMaxFrameNum
deriving Repr, DecidableEq

/-- `NewGopCache(…, gopNum, singleGopMaxFrameNum)` / `NewGopCacheMpegts` -/
def Ring.new {α} (gopNum maxFrames : Nat) : Ring α :=
  { ring := List.replicate (gopNum + 1) [], first := 0, last := 0, gopSize := gopNum + 1, maxFrames := maxFrames }

/-- `gc.gopRing[i]` -/
def Ring.at? {α} (r : Ring α) (site : String) (i : Nat) : GoM (List α) :=
  match r.ring[i]? with
  | some g => .ok g
  | none => .error (.panic site)

/-- `gc.gopRing[i] = g` -/
def Ring.set? {α} (r : Ring α) (site : String) (i : Nat) (g : List α) : GoM (Ring α) :=
  if i < r.ring.length then .ok { r with ring := r.ring.set i g } else .error (.panic site)

/-- `x % gc.gopSize` (integer division by zero panics) -/
def Ring.mod? {α} (r : Ring α) (x : Nat) : GoM Nat :=
  if r.gopSize = 0 then .error (.panic "gopSize: integer divide by zero") else .ok (x % r.gopSize)

def Ring.isFull {α} (r : Ring α) : GoM Bool := do return (← r.mod? (r.last + 1)) = r.first
def Ring.isEmpty {α} (r : Ring α) : Bool := r.first = r.last

/-- `GetGopCount` -/
def Ring.count {α} (r : Ring α) : GoM Nat := r.mod? (r.last + r.gopSize - r.first)

/-- `feedNewGop` -/
def Ring.feedNewGop {α} (r : Ring α) (b : α) : GoM (Ring α) := do
  let r ← (do if ← r.isFull then pure { r with first := ← r.mod? (r.first + 1) } else pure r)
  let _ ← r.at? "gopRing[gopRingLast].Clear" r.last        -- Clear(): data = data[:0]
  let r ← r.set? "gopRing[gopRingLast].Feed" r.last [b]
  return { r with last := ← r.mod? (r.last + 1) }

/-- `feedLastGop`: the returned flag is `false` when the GOP is over its frame limit -/
def Ring.feedLastGop {α} (r : Ring α) (b : α) : GoM (Ring α × Bool) := do
  if ¬ r.isEmpty then
    let pos ← r.mod? (r.last + r.gopSize - 1)              -- (last - 1 + gopSize) % gopSize
    let g ← r.at? "gopRing[gopPos].len" pos
    if g.length < r.maxFrames ∨ r.maxFrames = 0 then
      return (← r.set? "gopRing[gopPos].Feed" pos (g ++ [b]), true)
    else return (r, false)
  return (r, true)

/-- `GetGopDataAt(pos)` for `0 ≤ pos` -/
def Ring.dataAt {α} (r : Ring α) (pos : Nat) : GoM (List α) := do
  if pos ≥ (← r.count) then return []
  r.at? "gopRing[(pos+first)%gopSize]" (← r.mod? (pos + r.first))

/-- all cached GOP data in order (what a fresh subscriber is sent) -/
def Ring.allLoop {α} (r : Ring α) : Nat → Nat → GoM (List α)
  | 0, _ => .ok []
  | n+1, i => do
    let d ← r.dataAt i
    let rest ← r.allLoop n (i + 1)
    return d ++ rest

def Ring.all {α} (r : Ring α) : GoM (List α) := do r.allLoop (← r.count) 0

/-- `GopCache` -/
structure Cache (α : Type) where
  metaWith : Option α := none
  metaWithout : Option α := none
  vsh : Option α := none
  ash : Option α := none
  vshPayload : Option Bytes := none     -- payload of the last video / audio sequence header: a changed one empties the ring
  ashPayload : Option Bytes := none
  r : Ring α
deriving Repr, DecidableEq

def Cache.new {α} (gopNum maxFrames : Nat) : Cache α := { r := Ring.new gopNum maxFrames }

/-- the ring emptied (`gopRingFirst = gopRingLast = 0`) -/
def Ring.reset {α} (r : Ring α) : Ring α := { r with first := 0, last := 0 }

/-- a sequence header whose content differs from the cached one empties the ring -/
def Cache.setAsh {α} (c : Cache α) (m : Msg) (b : α) : Cache α :=
  { c with ash := some b, ashPayload := some m.payload,
           r := if c.ashPayload.isSome ∧ c.ashPayload ≠ some m.payload then c.r.reset else c.r }
def Cache.setVsh {α} (c : Cache α) (m : Msg) (b : α) : Cache α :=
  { c with vsh := some b, vshPayload := some m.payload,
           r := if c.vshPayload.isSome ∧ c.vshPayload ≠ some m.payload then c.r.reset else c.r }

/-- `GopCache.Feed(msg, b)`: the cache and the returned flag -/
def Cache.feed {α} (c : Cache α) (m : Msg) (b : α) : GoM (Cache α × Bool) := do
  if m.typeId = tMeta then return (c, true)
  if m.typeId = tAudio then
    if ← isAacSeqHeader m then return (c.setAsh m b, true)
  if m.typeId = tVideo then
    if ← isVideoKeySeqHeader m then return (c.setVsh m b, true)
  if c.r.gopSize > 1 then
    if ← isVideoKeyNalu m then
      return ({ c with r := ← c.r.feedNewGop b }, true)
    else
      let (r, ok) ← c.r.feedLastGop b
      return ({ c with r := r }, ok)
  return (c, true)

/-- `GopCache.Clear()` -/
def Cache.clear {α} (c : Cache α) : Cache α :=
  { c with metaWith := none, metaWithout := none, vsh := none, ash := none, vshPayload := none, ashPayload := none,
           r := { c.r with first := 0, last := 0 } }

/-- `GopCacheMpegts.Feed(b, boundary)` -/
def Ring.feedMpegts {α} (r : Ring α) (b : α) (boundary : Bool) : GoM (Ring α) := do
  if r.gopSize > 1 then
    if boundary then r.feedNewGop b
    else return (← r.feedLastGop b).1
  else return r

/-- the ring invariant -/
def Ring.WF {α} (r : Ring α) : Prop :=
  r.gopSize ≥ 1 ∧ r.ring.length = r.gopSize ∧ r.first < r.gopSize ∧ r.last < r.gopSize

end Lal.GopRing
