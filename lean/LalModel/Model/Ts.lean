import LalModel.Model.Bytes
import LalModel.Generated.C09
/-
  Model of pkg/mpegts/pack.go: `Frame.Pack`, `packPcr`, `packPts`.

  The Go loop fills one 188-byte packet per iteration in place (`packet := buf[pos:pos+188]`,
  fresh zeroed memory). The model builds the same packet by concatenation, one case per branch of
  the Go code:

    * TS header (4 bytes), `frame.Cc++` before every packet (a `uint8`);
    * first packet of a key frame: 8-byte adaptation field `[7, 0x50, pcr(6)]`;
    * first packet: PES header with PTS (`Pts == Dts`) or PTS+DTS, `pesSize > 0xFFFF → 0`;
    * `bodySize <= inSize`: the packet is filled with the next `bodySize` bytes of the frame;
    * otherwise the frame ends in this packet and `stuffSize = bodySize - inSize` bytes of stuffing
      go into the adaptation field: either the existing one is extended (`has Adaptation`) or a new
      one `[stuffSize-1, 0x00, 0xFF…]` is inserted (`no Adaptation`).

  This file follows the tree as it is after the two `fix:` commits of branch w-C09
  (adaptation-field stuffing offsets; `<< 1` of PTS[32..30]); the code as it was before them is kept
  below in `PreFix` together with the witnesses, for the record.
-/
namespace Lal.Ts

/-- `mpegts.Frame` (`Cts` is not used by `Pack`). `pts dts < 2^64`, `cc < 2^8`, `pid < 2^16`, `sid < 2^8`. -/
structure Frame where
  pts : Nat
  dts : Nat
  cc  : Nat
  pid : Nat
  sid : Nat
  key : Bool
  raw : Bytes
deriving Repr, DecidableEq

/-- `mpegts.delay` (regenerated from the source) -/
abbrev delay : Nat := Gen.tsDelay

/-- `packPcr(out, pcr)`: six bytes. `uint8(pcr<<7) | 0x7e` = PCR bit 0, six reserved ones, extension bit 8 = 0. -/
def packPcr (pcr : Nat) : Bytes :=
  [b8 (pcr / 33554432), b8 (pcr / 131072), b8 (pcr / 512), b8 (pcr / 2), b8 (pcr % 2 * 128 + 126), 0]

/-- `packPts(out, fb, pts)`: five bytes, `fb ≤ 3`.
    out[0] = (fb<<4) | (uint8((pts>>30)&0x07) << 1) | 1 -/
def packPts (fb pts : Nat) : Bytes :=
  let v1 := pts / 32768 % 32768 * 2 + 1
  let v2 := pts % 32768 * 2 + 1
  [b8 (fb * 16 + pts / 1073741824 % 8 * 2 + 1), b8 (v1 / 256), b8 v1, b8 (v2 / 256), b8 v2]

/-- The four TS header bytes: sync, PUSI | PID high 5 bits, PID low, adaptation_field_control | counter. -/
def tsHeader (pusi : Bool) (pid cc : Nat) (af : Bool) : Bytes :=
  [b8 Gen.tsSyncByte, b8 ((if pusi then 64 else 0) + pid / 256 % 32), b8 pid, b8 ((if af then 48 else 16) + cc % 16)]

/-- the adaptation field of the first packet of a key frame: length 7, RAI + PCR flag, PCR = Dts - delay (0 if that is negative) -/
def keyAf (f : Frame) : Bytes :=
  [7, 0x50] ++ packPcr (if f.dts > delay then f.dts - delay else 0)

def pesHeaderSize (f : Frame) : Nat := if f.dts ≠ f.pts then 10 else 5

/-- the PES header written into the first packet: 9 fixed bytes + PTS [+ DTS] -/
def pesHeader (f : Frame) : Bytes :=
  let headerSize := pesHeaderSize f
  let flags := if f.dts ≠ f.pts then 0xC0 else 0x80
  let pesSize0 := f.raw.length + headerSize + 3
  let pesSize := if pesSize0 > 0xFFFF then 0 else pesSize0
  [0x00, 0x00, 0x01, b8 f.sid, b8 (pesSize / 256), b8 pesSize, 0x80, b8 flags, b8 headerSize]
    ++ packPts (flags / 64) ((f.pts + delay) % 18446744073709551616)
    ++ (if f.pts ≠ f.dts then packPts 1 ((f.dts + delay) % 18446744073709551616) else [])

/-- One iteration of the loop: the packet written and the part of the frame still to be packed.
    `cc` is `frame.Cc` after the increment, `rest = frame.Raw[lpos:]` (non-empty). -/
def onePacket (f : Frame) (first : Bool) (cc : Nat) (rest : Bytes) : Bytes × Bytes :=
  let hasAf := first && f.key
  let af := if hasAf then keyAf f else []
  let pes := if first then pesHeader f else []
  let wpos := 4 + af.length + pes.length
  let bodySize := 188 - wpos
  let inSize := rest.length
  if bodySize ≤ inSize then
    (tsHeader first f.pid cc hasAf ++ af ++ pes ++ rest.take bodySize, rest.drop bodySize)
  else
    let stuffSize := bodySize - inSize
    if hasAf then
      -- has Adaptation: base = 5 + packet[4]; PES header moved up by stuffSize; packet[4] += stuffSize; 0xFF fill
      (tsHeader first f.pid cc true ++ (b8 (7 + stuffSize) :: af.drop 1) ++ List.replicate stuffSize 0xFF ++ pes ++ rest, [])
    else
      -- no Adaptation: packet[3] |= 0x20; packet[4] = stuffSize-1; if stuffSize >= 2 {packet[5] = 0; 0xFF fill}
      (tsHeader first f.pid cc true
         ++ (b8 (stuffSize - 1) :: (if stuffSize ≥ 2 then 0x00 :: List.replicate (stuffSize - 2) 0xFF else []))
         ++ pes ++ rest, [])

/-- `for lpos != rpos { … }`; fuel = number of bytes still to pack (every iteration consumes at least one). -/
def packLoop (f : Frame) : Nat → Bool → Nat → Bytes → List Bytes × Nat
  | 0, _, cc, _ => ([], cc)
  | fuel + 1, first, cc, rest =>
    if rest.isEmpty then ([], cc) else
    let cc' := (cc + 1) % 256
    let r := onePacket f first cc' rest
    let t := packLoop f fuel false cc' r.2
    (r.1 :: t.1, t.2)

/-- `Frame.Pack()`: the packets (the Go function returns them concatenated) and `frame.Cc` afterwards. -/
def pack (f : Frame) : List Bytes × Nat := packLoop f f.raw.length true f.cc f.raw

/-! ### The code before the fixes (pinned tree), kept as a record of the two defects -/
namespace PreFix

/-- `out[0] = (fb << 4) | (uint8(pts>>30) & 0x07) | 1`: PTS[32..30] land one bit too low, bit 30 is lost in the marker. -/
def packPts (fb pts : Nat) : Bytes :=
  let v1 := pts / 32768 % 32768 * 2 + 1
  let v2 := pts % 32768 * 2 + 1
  [b8 (fb * 16 + pts / 1073741824 % 8 / 2 * 2 + 1), b8 (v1 / 256), b8 v1, b8 (v2 / 256), b8 v2]

def pesHeader (f : Frame) : Bytes :=
  let headerSize := pesHeaderSize f
  let flags := if f.dts ≠ f.pts then 0xC0 else 0x80
  let pesSize0 := f.raw.length + headerSize + 3
  let pesSize := if pesSize0 > 0xFFFF then 0 else pesSize0
  [0x00, 0x00, 0x01, b8 f.sid, b8 (pesSize / 256), b8 pesSize, 0x80, b8 flags, b8 headerSize]
    ++ packPts (flags / 64) ((f.pts + delay) % 18446744073709551616)
    ++ (if f.pts ≠ f.dts then packPts 1 ((f.dts + delay) % 18446744073709551616) else [])

/-- `copy(dst[at:], src)` on a Go slice: as many bytes as fit. -/
def blit (dst : Bytes) (at_ : Nat) (src : Bytes) : Bytes :=
  dst.take at_ ++ (src.take (dst.length - at_)) ++ dst.drop (at_ + src.length)

/-- The pinned `has Adaptation` branch, on the 188-byte packet as an array:
    `base := 4 + packet[4]` (one short: the length byte itself is not counted), the bytes `[base, wpos)` are
    moved up by `stuffSize`, `wpos = base + stuffSize` (so the frame data overwrites the moved PES header),
    `packet[4] += stuffSize`, `packet[base .. base+stuffSize) = 0xFF`. -/
def stuffAf (packet : Bytes) (wpos stuffSize : Nat) (rest : Bytes) : Bytes :=
  let base := 4 + (packet.getD 4 0).toNat
  let p1 := if wpos > base then blit packet (base + stuffSize) ((packet.drop base).take (wpos - base)) else packet
  let wpos' := base + stuffSize
  let p2 := p1.set 4 (b8 ((p1.getD 4 0).toNat + stuffSize))
  let p3 := blit p2 base (List.replicate stuffSize 0xFF)
  blit p3 wpos' rest

def onePacket (f : Frame) (first : Bool) (cc : Nat) (rest : Bytes) : Bytes × Bytes :=
  let hasAf := first && f.key
  let af := if hasAf then keyAf f else []
  let pes := if first then pesHeader f else []
  let wpos := 4 + af.length + pes.length
  let bodySize := 188 - wpos
  let inSize := rest.length
  if bodySize ≤ inSize then
    (tsHeader first f.pid cc hasAf ++ af ++ pes ++ rest.take bodySize, rest.drop bodySize)
  else
    let stuffSize := bodySize - inSize
    if hasAf then
      let packet := tsHeader first f.pid cc true ++ af ++ pes ++ List.replicate (188 - wpos) 0
      (stuffAf packet wpos stuffSize rest, [])
    else
      (tsHeader first f.pid cc true
         ++ (b8 (stuffSize - 1) :: (if stuffSize ≥ 2 then 0x00 :: List.replicate (stuffSize - 2) 0xFF else []))
         ++ pes ++ rest, [])

def packLoop (f : Frame) : Nat → Bool → Nat → Bytes → List Bytes × Nat
  | 0, _, cc, _ => ([], cc)
  | fuel + 1, first, cc, rest =>
    if rest.isEmpty then ([], cc) else
    let cc' := (cc + 1) % 256
    let r := onePacket f first cc' rest
    let t := packLoop f fuel false cc' r.2
    (r.1 :: t.1, t.2)

def pack (f : Frame) : List Bytes × Nat := packLoop f f.raw.length true f.cc f.raw

end PreFix

end Lal.Ts
