import LalModel.Model.MsgClass
import LalModel.Model.SeqHeader
import LalModel.Model.Aac
import LalModel.Model.Ts
import LalModel.Model.Psi
import LalModel.Generated.C05Consts
import LalModel.Generated.C06Consts
/-
  Model of pkg/remux/rtmp2mpegts.go (`Rtmp2MpegtsRemuxer`: feedVideo, feedAudio, FlushAudio, onFrame),
  pkg/remux/rtmp2mpegts_filter_.go (`rtmp2MpegtsFilter`: the probe queue of 16 messages) and
  pkg/remux/rtmp2mpegts_filter__timestamp.go (`Rtmp2MpegtsTimestampFilter.Do`), as of the `fix:` commits of
  branch w-C05 (short enhanced-RTMP frame, empty message in the probe filter).

  The remuxer calls its observer synchronously, and the observer may call back: `hls.Muxer` opens a fragment from
  inside `OnTsPackets(video frame)` and then `Group.OnFragmentOpen` calls `FlushAudio()`, whose audio frame is
  delivered (nested `OnTsPackets`) before the video frame's callback returns. The model therefore hands the
  observer, together with a video frame, the audio frame a `FlushAudio()` call made now would deliver (`pending`);
  the observer says whether it made that call. A second nested call finds the cache empty (it is reset before
  the callback) and does nothing.

  `Frame.Pack` is the (pure, total) function of Model/Ts.lean, validated by C09.
-/
namespace Lal.TsRemux
open Lal Lal.MsgClass

/-- one `OnTsPackets(tsPackets, frame, boundary)` callback -/
structure FrameEv where
  f : Ts.Frame             -- as handed to the observer: after the timestamp filter, `cc` = value before packing
  cts : Nat
  boundary : Bool
  packets : List Bytes
  ccAfter : Nat
deriving Repr, DecidableEq

/-- `IRtmp2MpegtsRemuxerObserver` as a state machine -/
structure Observer (σ : Type) where
  onPatPmt : σ → Bytes → σ
  /-- `OnTsPackets`; `pending` = the frame a nested `FlushAudio()` would deliver. Returns whether it was called. -/
  onTs : σ → FrameEv → Option FrameEv → σ × Bool

structure St where
  -- rtmp2MpegtsFilter
  done : Bool := false
  data : List Msg := []
  audioCodecId : Int := -1
  videoCodecId : Int := -1
  -- Rtmp2MpegtsRemuxer
  spspps : Option Bytes := none        -- `nil` vs a (possibly empty) slice
  asc : Option Aac.AscContext := none
  audioCc : Nat := 0
  videoCc : Nat := 0
  basicAudioDts : Option Nat := none   -- `math.MaxUint64` = none
  basicVideoDts : Option Nat := none
  audioCache : Bytes := []
  audioFirstPts : Nat := 0
  opened : Bool := false
deriving Repr, DecidableEq

def maxAudioCacheDelayByAudio : Nat := Gen.maxAudioCacheDelayByAudio
def maxAudioCacheDelayByVideo : Nat := Gen.maxAudioCacheDelayByVideo

def St.videoSeqHeaderCached (s : St) : Bool := match s.spspps with | some b => !b.isEmpty | none => false
def St.audioCacheEmpty (s : St) : Bool := s.audioCache.isEmpty

/-- `timestampFilter.Do(frame)`: the (new) base and the re-based dts -/
def rebase (basic : Option Nat) (dts : Nat) : Option Nat × Nat :=
  let b := basic.getD dts
  (some b, if dts < b then dts else dts - b)

/-- `onFrame(frame)` up to (not including) the observer callback: timestamp filter, boundary, `opened`, `Pack` -/
def prepFrame (s : St) (audio : Bool) (cc dts cts : Nat) (key : Bool) (raw : Bytes) : St × FrameEv :=
  let (s, dts') :=
    if audio then let (b, d) := rebase s.basicAudioDts dts; ({ s with basicAudioDts := b }, d)
    else let (b, d) := rebase s.basicVideoDts dts; ({ s with basicVideoDts := b }, d)
  let pts := dts' + 90 * cts
  let boundary :=
    if audio then !s.videoSeqHeaderCached
    else key && (s.asc.isNone || !s.opened || !s.audioCacheEmpty)
  let s := if boundary then { s with opened := true } else s
  let f : Ts.Frame := { pts := pts, dts := dts', cc := cc, pid := if audio then Gen.tsPidAudio else Gen.tsPidVideo,
                        sid := if audio then Gen.tsStreamIdAudio else Gen.tsStreamIdVideo, key := key, raw := raw }
  let (pk, cc') := Ts.pack f
  (s, { f := f, cts := cts, boundary := boundary, packets := pk, ccAfter := cc' })

/-- `FlushAudio()` up to the callback: `none` when the cache is empty -/
def flushPrep (s : St) : Option (St × FrameEv) :=
  if s.audioCacheEmpty then none
  else
    let raw := s.audioCache
    let (s, ev) := prepFrame { s with audioCache := [] } true s.audioCc s.audioFirstPts 0 false raw
    some ({ s with audioCc := ev.ccAfter }, ev)

/-- `FlushAudio()` called from the remuxer itself -/
def flushAudio {σ} (o : Observer σ) (s : St) (os : σ) : St × σ :=
  match flushPrep s with
  | none => (s, os)
  | some (s', ev) => (s', (o.onTs os ev none).1)

def naluStartCode3 : Bytes := Nalu.startCode3
def naluStartCode4 : Bytes := Nalu.startCode4
/-- `avc.AudNalu` / `hevc.AudNalu` -/
def avcAud : Bytes := [0, 0, 0, 1, 0x09, 0xf0]
def hevcAud : Bytes := [0, 0, 0, 1, 0x46, 0x01, 0x10]

/-- the local variables of the NAL loop of `feedVideo` -/
structure Loop where
  out : Bytes := []
  audSent : Bool := false
  spsppsSent : Bool := false
  vps : Bytes := []
  sps : Bytes := []
  pps : Bytes := []
  spspps : Option Bytes
deriving Repr, DecidableEq

/-- `appendSpsPps` + the rest of the loop body after the AUD / SEI filtering; `none` = `return`. An in-band parameter set
    (`isParamSet`) is written where the publisher put it and leaves `spsppsSent` alone. -/
def emitNal (hevc : Bool) (l : Loop) (nal : Bytes) (irap clearFlag : Bool) (isParamSet : Bool := false) : Option Loop :=
  let l := if !l.audSent then { l with out := l.out ++ (if hevc then hevcAud else avcAud), audSent := true } else l
  let l? : Option Loop :=
    if isParamSet then some l
    else if irap then
      if !l.spsppsSent then
        match l.spspps with
        | none => none
        | some sp => some { l with out := l.out ++ sp, spsppsSent := true }
      else some { l with spsppsSent := true }
    else if clearFlag then some { l with spsppsSent := false }
    else some l
  l?.map fun l => { l with out := l.out ++ (if l.out.isEmpty then naluStartCode4 else naluStartCode3) ++ nal }

/-- one iteration; `nal[0]` is a Go index expression -/
def nalStep (hevc : Bool) (l : Loop) (nal : Bytes) : GoM (Option Loop) := do
  let h ← idx? "feedVideo: nal[0]" nal 0
  if !hevc then
    let t := h.toNat % 32
    if t = 9 then return some l
    if t = 7 then return emitNal false { l with sps := nal } nal false false true
    if t = 8 then
      let l := { l with pps := nal }
      -- a complete group refreshes the cache and counts as "already sent" for the key frame that follows
      let l := if l.sps.length ≠ 0 ∧ l.pps.length ≠ 0
        then { l with spspps := some (naluStartCode4 ++ l.sps ++ naluStartCode4 ++ l.pps), spsppsSent := true } else l
      return emitNal false l nal false false true
    return emitNal false l nal (t = 5) (t = 1)
  else
    let t := h.toNat % 128 / 2
    if t = 39 ∨ t = 40 then return some l
    if t = 35 then return some l
    if t = 32 then return emitNal true { l with vps := nal } nal false false true
    if t = 33 then return emitNal true { l with sps := nal } nal false false true
    if t = 34 then
      let l := { l with pps := nal }
      let l := if l.vps.length ≠ 0 ∧ l.sps.length ≠ 0 ∧ l.pps.length ≠ 0
        then { l with spspps := some (naluStartCode4 ++ l.vps ++ naluStartCode4 ++ l.sps ++ naluStartCode4 ++ l.pps), spsppsSent := true } else l
      return emitNal true l nal false false true
    let irap := decide (16 ≤ t ∧ t ≤ 23)
    return emitNal true l nal irap (!irap)

/-- the NAL loop: `.ok (l, aborted)` -/
def nalLoop (hevc : Bool) : Loop → List Bytes → GoM (Loop × Bool)
  | l, [] => .ok (l, false)
  | l, nal :: rest => do
    match ← nalStep hevc l nal with
    | none => return (l, true)
    | some l' => nalLoop hevc l' rest

/-- `FlushAudio()` under a condition (`if !s.audioCacheEmpty() && first+delay < ts { s.FlushAudio() }`) -/
def flushIf {σ} (o : Observer σ) (c : Bool) (s : St) (os : σ) : St × σ := if c then flushAudio o s os else (s, os)

/-- `s.spspps, err = …SeqHeader2Annexb(payload)`: the result is assigned also on error (`nil`) -/
def cacheSeqHeader {σ} (s : St) (os : σ) (r : GoM Bytes) : GoM (St × σ) :=
  match r with
  | .ok b => .ok ({ s with spspps := some b }, os)
  | .error .err => .ok ({ s with spspps := none }, os)
  | .error e => .error e

/-- the AVCC units of a frame message: `msg.Payload[index:]` (enhanced HEVC) or `msg.Payload[5:]`; `none` = the
    message is shorter than its own header (ignored) -/
def videoBody (m : Msg) (codecId : Nat) : GoM (Option Bytes) := do
  if codecId = 12 ∧ (← isEnchanedHevcNalu m) then
    let index ← getEnchanedHevcNaluIndex m
    if m.payload.length < index then return none
    return some (← from? "feedVideo: Payload[index:]" m.payload index)
  else return some (← from? "feedVideo: Payload[5:]" m.payload 5)

/-- the end of `feedVideo`: flush stale audio, build the frame, `onFrame` -/
def sendVideo {σ} (o : Observer σ) (s : St) (os : σ) (m : Msg) (out : Bytes) : GoM (St × σ) := do
  let dts := m.ts * 90
  let r := flushIf o (!s.audioCacheEmpty && decide (s.audioFirstPts + maxAudioCacheDelayByVideo < dts)) s os
  let cts ← cts m
  let key ← isVideoKeyNalu m
  let pf := prepFrame r.1 false r.1.videoCc dts cts key out
  let pending := flushPrep pf.1
  let cb := o.onTs r.2 pf.2 (pending.map (·.2))
  let s' := if cb.2 then (match pending with | some q => q.1 | none => pf.1) else pf.1
  return ({ s' with videoCc := pf.2.ccAfter }, cb.1)

/-- `feedVideo(msg)` after the sequence-header cases -/
def feedVideoFrame {σ} (o : Observer σ) (s : St) (os : σ) (m : Msg) (codecId : Nat) : GoM (St × σ) := do
  match ← videoBody m codecId with
  | none => return (s, os)
  | some body =>
    let sp := Nalu.splitNaluAvcc body
    if sp.2 then return (s, os)
    let lr ← nalLoop (codecId = 12) { spspps := s.spspps } sp.1
    let s := { s with spspps := lr.1.spspps }
    if lr.2 then return (s, os)
    if lr.1.out.length = 0 then return (s, os)
    sendVideo o s os m lr.1.out

/-- `feedVideo(msg)` -/
def feedVideo {σ} (o : Observer σ) (s : St) (os : σ) (m : Msg) : GoM (St × σ) := do
  if m.payload.length ≤ 5 then return (s, os)
  let codecId ← videoCodecId m
  if codecId ≠ 7 ∧ codecId ≠ 12 then return (s, os)
  if ← isAvcKeySeqHeader m then return ← cacheSeqHeader s os (SeqHeader.avcSeqHeader2Annexb m.payload)
  if ← isHevcKeySeqHeader m then
    if ← isEnhanced m then return ← cacheSeqHeader s os (SeqHeader.hevcEnhancedSeqHeader2Annexb m.payload)
    else return ← cacheSeqHeader s os (SeqHeader.hevcSeqHeader2Annexb m.payload)
  feedVideoFrame o s os m codecId

/-- `cacheAacSeqHeader(msg)`: `s.ascCtx, err = aac.NewAscContext(msg.Payload[2:])` -/
def cacheAsc {σ} (s : St) (os : σ) (m : Msg) : GoM (St × σ) := do
  let ascb ← from? "cacheAacSeqHeader: Payload[2:]" m.payload 2
  match Aac.ascUnpack ascb with
  | .ok c => return ({ s with asc := some c }, os)
  | .error .err => return ({ s with asc := none }, os)
  | .error e => throw e

/-- `feedAudio`, AAC raw frame. `c` is `*s.ascCtx`, which neither `FlushAudio` nor an observer can change. -/
def feedAac {σ} (o : Observer σ) (s : St) (os : σ) (m : Msg) (c : Aac.AscContext) : GoM (St × σ) := do
  let pts := m.ts * 90
  -- flushed when the cache is old enough, when the timestamp went back, or when one PES packet could not hold more
  let r := flushIf o (!s.audioCacheEmpty && (decide (s.audioFirstPts + maxAudioCacheDelayByAudio < pts) ||
      decide (pts < s.audioFirstPts) || decide (s.audioCache.length + 7 + m.payload.length - 2 > Gen.maxAudioCacheSize))) s os
  let s1 := if r.1.audioCacheEmpty then { r.1 with audioFirstPts := pts } else r.1
  let adts := Aac.packAdtsHeader c (m.payload.length - 2)
  let raw ← from? "feedAudio: Payload[2:]" m.payload 2
  return ({ s1 with audioCache := s1.audioCache ++ adts ++ raw }, r.2)

/-- `feedAudio`, Opus: one frame per message -/
def feedOpus {σ} (o : Observer σ) (s : St) (os : σ) (m : Msg) : GoM (St × σ) := do
  let raw ← from? "feedAudio: Payload[1:]" m.payload 1
  return flushAudio o { s with audioFirstPts := m.ts * 90, audioCache := s.audioCache ++ raw } os

/-- `feedAudio(msg)` (reached only for AAC and Opus) -/
def feedAudio {σ} (o : Observer σ) (s : St) (os : σ) (m : Msg) : GoM (St × σ) := do
  -- the AAC header has two bytes, the other formats (Opus) one
  if m.payload.length ≤ 1 then return (s, os)
  let codec ← audioCodecId m
  if m.payload.length = 2 ∧ codec = 10 then return (s, os)
  if codec = 10 then
    if (← idx? "feedAudio: Payload[1]" m.payload 1) = 0 then return ← cacheAsc s os m
    match s.asc with
    | none => return (s, os)
    | some c => feedAac o s os m c
  else feedOpus o s os m

/-- `onPop(msg)` -/
def onPop {σ} (o : Observer σ) (s : St) (os : σ) (m : Msg) : GoM (St × σ) := do
  if m.typeId = tAudio then
    let c ← audioCodecId m
    if c ≠ 10 ∧ c ≠ 13 then return (s, os)
    feedAudio o s os m
  else if m.typeId = tVideo then feedVideo o s os m
  else return (s, os)

def popAll {σ} (o : Observer σ) : St → σ → List Msg → GoM (St × σ)
  | s, os, [] => .ok (s, os)
  | s, os, m :: rest => do
    let (s, os) ← onPop o s os m
    popAll o s os rest

/-- `drain()` -/
def drain {σ} (o : Observer σ) (s : St) (os : σ) : GoM (St × σ) := do
  let os := o.onPatPmt os (Psi.packPat ++ Psi.packPmt s.videoCodecId s.audioCodecId)
  let (s, os) ← popAll o s os s.data
  return ({ s with data := [], done := true }, os)

/-- the codec probe of `filter.Push(msg)`: an empty message carries no codec id (w-C05 fix) -/
def probe (s : St) (m : Msg) : GoM St := do
  if m.payload.length ≠ 0 then
    if m.typeId = tAudio then return { s with audioCodecId := ((← audioCodecId m : Nat) : Int) }
    if m.typeId = tVideo then return { s with videoCodecId := ((← videoCodecId m : Nat) : Int) }
  return s

/-- `FeedRtmpMessage(msg)` = `filter.Push(msg)` -/
def feed {σ} (o : Observer σ) (s : St) (os : σ) (m : Msg) : GoM (St × σ) := do
  if s.done then return ← onPop o s os m
  let s ← probe { s with data := s.data ++ [m] } m
  if s.videoCodecId ≠ -1 ∧ s.audioCodecId ≠ -1 then return ← drain o s os
  if s.data.length ≥ Gen.calcFragmentHeaderQueueSize then return ← drain o s os
  return (s, os)

/-- `Dispose()` -/
def dispose {σ} (o : Observer σ) (s : St) (os : σ) : St × σ := flushAudio o s os

def feedAll {σ} (o : Observer σ) : St → σ → List Msg → GoM (St × σ)
  | s, os, [] => .ok (s, os)
  | s, os, m :: rest => do
    let (s, os) ← feed o s os m
    feedAll o s os rest

/-! ### the recording observer of the L0 harness -/

inductive Ev where
  | patpmt (b : Bytes)
  | frame (e : FrameEv)
  | mark
deriving Repr, DecidableEq

/-- appends every callback; with `reflush` it calls `FlushAudio()` from inside `OnTsPackets` whenever `boundary` is set
    (before recording the frame), as `hls.Muxer`/`Group.OnFragmentOpen` do when a fragment is opened -/
def recorder (reflush : Bool) : Observer (List Ev) where
  onPatPmt := fun l b => l ++ [.patpmt b]
  onTs := fun l ev pending =>
    if reflush ∧ ev.boundary then
      match pending with
      | some a => (l ++ [.frame a, .frame ev], true)
      | none => (l ++ [.frame ev], true)
    else (l ++ [.frame ev], false)

/-- the `c05.ts` op: every message, a marker, `Dispose()` -/
def run (reflush : Bool) (ms : List Msg) : GoM (List Ev) := do
  let o := recorder reflush
  let (s, l) ← feedAll o {} [] ms
  return (dispose o s (l ++ [.mark])).2

end Lal.TsRemux
