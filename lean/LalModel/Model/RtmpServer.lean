import LalModel.Model.Go
import LalModel.Model.Amf0
import LalModel.Model.Chunk
import LalModel.Generated.Amf0Consts
import LalModel.Generated.C04Consts
/-
  Model of the server side of one RTMP connection (C04):
    pkg/rtmp/server_session.go  ServerSession.RunLoop / handshake / runReadLoop / doMsg and every do* handler,
                                writeAcknowledgementIfNeeded, modConnProps
    pkg/rtmp/handshake.go       HandshakeServer.ReadC0C1 / WriteS0S1S2 / ReadC2, parseChallenge, findDigest,
                                makeDigestWithoutCenterPart (HMAC-SHA256 is the parameter `hm`)
    pkg/rtmp/stream.go          StreamMsg.read*WithType / peekStringWithType (Skip = drop: skipping past the end
                                resets the buffer, i.e. leaves it empty), Stream.toAvMsg
    pkg/rtmp/message_packer.go  MessagePacker.write* of the server side, ChunkAndWrite, writeSingleChunkHeader and the
                                packer's `Buffer` (grow doubles until the write fits; the pinned tree doubled once: S20)
    naza connection             Write (synchronous, or queued after ModWriteChanSize), Mod* (panic when called twice),
                                Stat.ReadBytesSum (bytes handed to the session so far)
  on top of `Chunk.readChunk` (the composer, C08) and the AMF0 readers (C18).

  The session is a state monad over `Sess` whose results are `ok | err | panic`: `err` = the Go function returned a
  non-nil error (RunLoop then returns and the connection is closed), `panic site` = a Go run-time failure (index or
  slice out of range, nil interface call, explicit panic) which, lal having no recover(), terminates the process.
  The model has exactly the guards the Go code has (the FIXED tree: commits `fix: rtmp ServerSession.doUserControl checks
  the payload length…`, `…rejects audio/video/data messages that arrive before publish…`, `…refuses a second publish or
  play on one connection`; the model of the unfixed code and its witnesses are in the history of this file and of
  Props/C04.lean).

  Environment (parameters): the observer's answers (`Env.pubMode`, `Env.subDeny`), the index of the first failing
  synchronous `conn.Write` (`Env.wfail`), HMAC (`hm`), the random/time bytes of S1 (`s1`).
-/
namespace Lal.RtmpServer
open Lal Lal.Amf0

/-! ## constants -/

def sConnect : Bytes := [0x63, 0x6f, 0x6e, 0x6e, 0x65, 0x63, 0x74]
def sCreateStream : Bytes := [0x63, 0x72, 0x65, 0x61, 0x74, 0x65, 0x53, 0x74, 0x72, 0x65, 0x61, 0x6d]
def sPublish : Bytes := [0x70, 0x75, 0x62, 0x6c, 0x69, 0x73, 0x68]
def sPlay : Bytes := [0x70, 0x6c, 0x61, 0x79]
def sApp : Bytes := [0x61, 0x70, 0x70]
/-- "|RtmpSampleAccess" -/
def sSampleAccess : Bytes := [0x7c, 0x52, 0x74, 0x6d, 0x70, 0x53, 0x61, 0x6d, 0x70, 0x6c, 0x65, 0x41, 0x63, 0x63, 0x65, 0x73, 0x73]

/-- `clientKey[:clientPartKeyLen]` = "Genuine Adobe Flash Player 001" -/
def clientPartKey : Bytes := [0x47, 0x65, 0x6e, 0x75, 0x69, 0x6e, 0x65, 0x20, 0x41, 0x64, 0x6f, 0x62, 0x65, 0x20, 0x46, 0x6c, 0x61, 0x73, 0x68,
  0x20, 0x50, 0x6c, 0x61, 0x79, 0x65, 0x72, 0x20, 0x30, 0x30, 0x31]
/-- `serverKey[:serverPartKeyLen]` = "Genuine Adobe Flash Media Server 001" -/
def serverPartKey : Bytes := [0x47, 0x65, 0x6e, 0x75, 0x69, 0x6e, 0x65, 0x20, 0x41, 0x64, 0x6f, 0x62, 0x65, 0x20, 0x46, 0x6c, 0x61, 0x73, 0x68,
  0x20, 0x4d, 0x65, 0x64, 0x69, 0x61, 0x20, 0x53, 0x65, 0x72, 0x76, 0x65, 0x72, 0x20, 0x30, 0x30, 0x31]
/-- the 32 bytes both keys end with -/
def keyTail : Bytes := [0xF0, 0xEE, 0xC2, 0x4A, 0x80, 0x68, 0xBE, 0xE8, 0x2E, 0x00, 0xD0, 0xD1, 0x02, 0x9E, 0x7E, 0x57, 0x6E, 0xEC, 0x5D, 0x2D,
  0x29, 0x80, 0x6F, 0xAB, 0x93, 0xB8, 0xE6, 0x36, 0xCF, 0xEB, 0x31, 0xAE]
/-- `serverKey[:serverFullKeyLen]` -/
def serverFullKey : Bytes := serverPartKey ++ keyTail

def keyLen : Nat := Gen.c04HsKeyLen
def c0c1Len : Nat := Gen.c04HsC0c1Len
def c2Len : Nat := Gen.c04HsC2Len

/-- AMF0 nesting limit and the stack budget the readers run with (C18 `read_total`) -/
def amfLim : Nat := Gen.amf0MaxDepth
def amfFrames : Nat := Gen.amf0MaxDepth - 1

/-! ## handshake (pkg/rtmp/handshake.go) -/

/-- HMAC-SHA256 as a parameter: `hm key data` -/
abbrev Hmac := Bytes → Bytes → Bytes

/-- `copy(out, mac.Sum(nil))` into a `keyLen`-byte buffer -/
def fit32 (d : Bytes) : Bytes := (d ++ List.replicate keyLen 0).take keyLen

/-- `makeDigestWithoutCenterPart(b, offs, key, out)`: the value copied into `out` -/
def makeDigestWithoutCenterPart (hm : Hmac) (b : Bytes) (offs : Nat) (key : Bytes) : GoM Bytes := do
  let left ← if offs ≠ 0 then upto? "makeDigestWithoutCenterPart:b[:offs]" b offs else pure []
  -- `if len(b)-offs-keyLen > 0` (Go int arithmetic)
  let right ← if b.length > offs + keyLen then from? "makeDigestWithoutCenterPart:b[offs+keyLen:]" b (offs + keyLen) else pure []
  pure (hm key (left ++ right))

/-- the offset `findDigest` computes from four peer bytes -/
def digestOffs (x0 x1 x2 x3 : UInt8) (base : Nat) : Nat :=
  (x0.toNat + x1.toNat + x2.toNat + x3.toNat) % 728 + base + 4

/-- `findDigest(b, base, key)`: `some offs` / `none` (= -1) -/
def findDigest (hm : Hmac) (b : Bytes) (base : Nat) (key : Bytes) : GoM (Option Nat) := do
  let x0 ← idx? "findDigest:b[base]" b base
  let x1 ← idx? "findDigest:b[base+1]" b (base + 1)
  let x2 ← idx? "findDigest:b[base+2]" b (base + 2)
  let x3 ← idx? "findDigest:b[base+3]" b (base + 3)
  let offs := digestOffs x0 x1 x2 x3 base
  let d ← makeDigestWithoutCenterPart hm b offs key
  let cmp ← slice? "findDigest:b[offs:offs+keyLen]" b offs (offs + keyLen)
  pure (if fit32 d = cmp then some offs else none)

/-- `parseChallenge(b, peerKey, key)`: `none` = nil digest (simple mode) -/
def parseChallenge (hm : Hmac) (b peerKey key : Bytes) : GoM (Option Bytes) := do
  let v ← from? "parseChallenge:b[5:]" b 5
  let ver ← beUint32? v
  if ver = 0 then pure none else
  let b1 ← from? "parseChallenge:b[1:]" b 1
  let o1 ← findDigest hm b1 (764 + 8) peerKey
  let o ← match o1 with
    | some o => pure (some o)
    | none => findDigest hm b1 8 peerKey
  match o with
  | none => pure none
  | some offs => do
    let d ← slice? "parseChallenge:b[1+offs:1+offs+keyLen]" b (1 + offs) (1 + offs + keyLen)
    pure (some (hm key d))

/-- `HandshakeServer.ReadC0C1` after the 1537 bytes have been read: `true` = simple mode.
    `s1` is S1 as it stands when the digest position is computed (time, version, random1528): 1536 bytes. -/
def readC0C1 (hm : Hmac) (s1 c0c1 : Bytes) : GoM Bool := do
  let s2key ← parseChallenge hm c0c1 clientPartKey serverFullKey
  let simple := match s2key with
    | none => true
    | some k => k.length = 0
  if simple then
    let _ ← from? "ReadC0C1:c0c1[1:]" c0c1 1
    pure true
  else
    let x0 ← idx? "ReadC0C1:s1[8]" s1 8
    let x1 ← idx? "ReadC0C1:s1[9]" s1 9
    let x2 ← idx? "ReadC0C1:s1[10]" s1 10
    let x3 ← idx? "ReadC0C1:s1[11]" s1 11
    let offs := (x0.toNat + x1.toNat + x2.toNat + x3.toNat) % 728 + 12
    let _ ← makeDigestWithoutCenterPart hm s1 offs serverPartKey
    -- `s.s0s1s2[1+offs:]` of the 3073-byte reply
    let _ ← (if 1 + offs ≤ Gen.c04HsS0s1s2Len then pure () else throw (Fault.panic "ReadC0C1:s0s1s2[1+offs:]") : GoM Unit)
    -- S2: digest over the first s2Len-keyLen bytes
    let s2 := List.replicate Gen.c04HsS2Len (0 : UInt8)
    let _ ← makeDigestWithoutCenterPart hm s2 (Gen.c04HsS2Len - keyLen) (s2key.getD [])
    let _ ← from? "ReadC0C1:s2[replyOffs:]" s2 (Gen.c04HsS2Len - keyLen)
    pure false

/-! ## session state -/

inductive Role where
  | unknown | pub | sub
deriving DecidableEq, Repr

/-- what the connection's environment observes, in order -/
inductive Ev where
  | connect                              -- observer.OnRtmpConnect
  | newPub                               -- observer.OnNewRtmpPubSession
  | newSub                               -- observer.OnNewRtmpSubSession
  | av (typ len : Nat)                   -- avObserver.OnReadRtmpAvMsg (message type id, payload length)
  | reply (typ len : Nat) (queued : Bool) -- one conn.Write: message type id, bytes; queued = through the write queue
deriving DecidableEq, Repr

structure Env where
  /-- OnNewRtmpPubSession: 0 = accepts and registers the A/V observer, 1 = refuses, 2 = accepts without registering -/
  pubMode : Nat := 0
  subDeny : Bool := false
  /-- index (S0S1S2 = 0) of the first failing synchronous conn.Write -/
  wfail : Option Nat := none
deriving Repr

/-- the message packer's `Buffer` (readPos is always 0 on the server side) -/
structure PBuf where
  cap : Nat := Gen.c04PackerInitCap
  wpos : Nat := 0
deriving DecidableEq, Repr

structure Sess where
  role : Role := .unknown
  avObs : Bool := false        -- s.avObserver != nil
  peerWinAckSize : Nat := 0
  recvLastAck : Nat := 0
  seqNum : Nat := 0
  queued : Bool := false       -- connection option WriteChanSize > 0
  readTo : Bool := false       -- connection option ReadTimeoutMs > 0
  writeTo : Bool := false      -- connection option WriteTimeoutMs > 0
  nwrites : Nat := 0           -- successful conn.Write calls so far
  readSum : Nat := 0           -- connection Stat.ReadBytesSum
  pb : PBuf := {}
  byObserver : Bool := false   -- DisposeByObserverFlag
  evs : List Ev := []          -- newest first
deriving Repr

inductive R (α : Type) where
  | ok (a : α) (s : Sess)
  | err (s : Sess)
  | panic (site : String)
deriving Repr

def M (α : Type) := Sess → R α

@[inline] def M.pure {α} (a : α) : M α := fun s => .ok a s
@[inline] def M.bind {α β} (x : M α) (f : α → M β) : M β := fun s =>
  match x s with
  | .ok a s' => f a s'
  | .err s' => .err s'
  | .panic p => .panic p

instance : Monad M where
  pure := M.pure
  bind := M.bind

/-- `return err` -/
def fail {α} : M α := fun s => .err s
def gopanic {α} (site : String) : M α := fun _ => .panic site
def getS : M Sess := fun s => .ok s s
def modS (f : Sess → Sess) : M Unit := fun s => .ok () (f s)
def emit (e : Ev) : M Unit := modS fun s => { s with evs := e :: s.evs }

/-- a pure Go computation inside the session -/
def liftG {α} (g : GoM α) : M α := fun s =>
  match g with
  | .ok a => .ok a s
  | .error .err => .err s
  | .error (.panic p) => .panic p

/-- `v, err := f(); if err != nil { /* ignored */ }` -/
def attempt {α} (m : M α) : M (Option α) := fun s =>
  match m s with
  | .ok a s' => .ok (some a) s'
  | .err s' => .ok none s'
  | .panic p => .panic p

/-! ## message packer (pkg/rtmp/message_packer.go) -/

/-- one write into the packer's buffer: `Write(p)` with `len(p) = n`, or `WriteByte` -/
inductive WOp where
  | w (n : Nat)
  | b
deriving DecidableEq, Repr

/-- the `for newLen-dataLen < n { newLen *= 2 }` loop of `Buffer.grow`; `need = dataLen + n` -/
def growTo : Nat → Nat → Nat → Nat
  | 0, l, _ => l
  | f + 1, l, need => if l < need then growTo f (l * 2) need else l

/-- `Buffer.grow(n)` (fixed tree: doubles until the pending data and the `n` new bytes fit) -/
def PBuf.grow (p : PBuf) (n : Nat) : GoM PBuf :=
  if p.cap ≥ p.wpos + n then .ok p else
  -- copy(buf, b.core[b.readPos:b.writePos])
  if p.wpos ≤ p.cap then
    .ok { cap := growTo (p.wpos + n) (if p.cap = 0 then 128 else p.cap * 2) (p.wpos + n), wpos := p.wpos }
  else .error (.panic "Buffer.grow:core[readPos:writePos]")

def PBuf.step (p : PBuf) : WOp → GoM PBuf
  | .w n => do
    let p ← p.grow n
    -- copy(b.core[b.writePos:], p); b.writePos += len(p)
    if p.wpos ≤ p.cap then pure { p with wpos := p.wpos + n } else throw (.panic "Buffer.Write:core[writePos:]")
  | .b => do
    let p ← p.grow 1
    if p.wpos < p.cap then pure { p with wpos := p.wpos + 1 } else throw (.panic "Buffer.WriteByte:core[writePos]")

def PBuf.run (p : PBuf) : List WOp → GoM PBuf
  | [] => pure p
  | o :: os => do
    let p ← p.step o
    p.run os

/-- `Buffer.Bytes()` = `core[readPos:writePos]`: its length -/
def PBuf.bytesLen (p : PBuf) : GoM Nat :=
  if p.wpos ≤ p.cap then .ok p.wpos else .error (.panic "Buffer.Bytes:core[readPos:writePos]")

/-- the exported operations of the packer's `Buffer` as the harness drives them -/
inductive PStep where
  | op (o : WOp)
  | modWritePos (pos : Nat)
  | reset
deriving Repr

def pbufRun (p : PBuf) : List PStep → GoM PBuf
  | [] => pure p
  | .op o :: r => do
    let p ← p.step o
    pbufRun p r
  | .modWritePos pos :: r => pbufRun { p with wpos := pos } r
  | .reset :: r => pbufRun { p with wpos := 0 } r

/-- writes of `Amf0.WriteString(s)` with `len(s) = n < 65536`, `WriteNumber`, `WriteNull` -/
def wString (n : Nat) : List WOp := [.w 1, .w 2, .w n]
def wNumber : List WOp := [.w 1, .w 8]
def wNull : List WOp := [.w 1]
/-- `Amf0.WriteObject`: per pair key length, key, value; then the end marker -/
def wObject (pairs : List (Nat × List WOp)) : List WOp :=
  [.w 1] ++ pairs.flatMap (fun kv => [.w 2, .w kv.1] ++ kv.2) ++ [.w 3]

def scriptCtl4 : List WOp := [.w 4]                    -- writeProtocolControlMessage / writeAcknowledgement
def scriptPeerBandwidth : List WOp := [.w 4, .b]
def scriptUserControl : List WOp := [.w 2, .w 4]       -- stream begin / is recorded / ping response
/-- `writeConnectResult` -/
def scriptConnectResult : List WOp :=
  wString 7 ++ wNumber ++
  wObject [(6, wString 13), (12, wNumber)] ++
  wObject [(5, wString 6), (4, wString 29), (11, wString 21), (14, wNumber), (7, wString Gen.c04ConnectResultVersionLen)]
/-- `writeCreateStreamResult` -/
def scriptCreateStreamResult : List WOp := wString 7 ++ wNumber ++ wNull ++ wNumber
/-- `writeOnStatusPublish` -/
def scriptOnStatusPublish : List WOp :=
  wString 8 ++ wNumber ++ wNull ++ wObject [(5, wString 6), (4, wString 23), (11, wString 16)]
/-- `writeOnStatusPlay` -/
def scriptOnStatusPlay : List WOp :=
  wString 8 ++ wNumber ++ wNull ++ wObject [(5, wString 6), (4, wString 20), (11, wString 10)]

/-- `conn.Write(b)` of a reply of `len` bytes -/
def connWrite (env : Env) (typ len : Nat) : M Unit := fun s =>
  if s.queued then .ok () { s with evs := .reply typ len true :: s.evs }
  else
    match env.wfail with
    | some k =>
      if s.nwrites ≥ k then .err s
      else .ok () { s with nwrites := s.nwrites + 1, evs := .reply typ len false :: s.evs }
    | none => .ok () { s with nwrites := s.nwrites + 1, evs := .reply typ len false :: s.evs }

/-- `packer.b.ModWritePos(12)`, the writes of `script`, `ChunkAndWrite(writer, csid, typeid, streamid)` -/
def sendReply (env : Env) (csid typ : Nat) (script : List WOp) : M Unit := do
  let s ← getS
  let p ← liftG (({ s.pb with wpos := 12 } : PBuf).run script)
  -- bodyLen := packer.b.Len() - 12
  let bodyLen : Int := (p.wpos : Int) - 12
  if bodyLen ≤ (Gen.c04LocalChunkSize : Int) then
    -- writeSingleChunkHeader(packer.b.Bytes(), ...)
    if p.wpos > p.cap then gopanic "Buffer.Bytes:core[readPos:writePos]" else
    if csid > 63 then gopanic "writeSingleChunkHeader:panic(csid)" else
    if p.wpos < 12 then gopanic "writeSingleChunkHeader:out[i]" else
    -- packer.b.WriteTo(writer): one conn.Write of the whole buffer, then Reset
    modS fun s => { s with pb := p }
    connWrite env typ p.wpos
    modS fun s => { s with pb := { p with wpos := 0 } }
  else
    -- Message2Chunks(packer.b.Bytes()[12:], &h): a 12-byte first header, 1-byte continuation headers
    if p.wpos > p.cap then gopanic "Buffer.Bytes:core[readPos:writePos]" else
    if p.wpos < 12 then gopanic "ChunkAndWrite:Bytes()[12:]" else
    let n := p.wpos - 12
    modS fun s => { s with pb := { p with wpos := 0 } }
    connWrite env typ (n + 12 + ((n + Gen.c04LocalChunkSize - 1) / Gen.c04LocalChunkSize - 1))

/-! ## handlers (pkg/rtmp/server_session.go) -/

def u32 : Nat := 4294967296
def u64 : Nat := 18446744073709551616

/-- `writeAcknowledgementIfNeeded` -/
def writeAckIfNeeded (env : Env) : M Unit := do
  let s ← getS
  if s.peerWinAckSize = 0 then pure () else
  let delta := (s.readSum + u64 - s.recvLastAck) % u64 % u32
  if delta < (Gen.c04WindowAcknowledgementSize / 2) % u32 then pure () else
  let seq0 := (s.seqNum + delta) % u32
  let seq := if seq0 > Gen.c04AckSeqMax then delta else seq0
  modS fun s => { s with recvLastAck := s.readSum, seqNum := seq }
  sendReply env Gen.c04CsidProtocolControl 3 scriptCtl4

/-- `doWinAckSize` -/
def doWinAckSize (payload : Bytes) : M Unit := do
  if payload.length < 4 then fail else
  let v ← liftG (beUint32? payload)
  modS fun s => { s with peerWinAckSize := v }

/-- `doAck` -/
def doAck (payload : Bytes) : M Unit := do
  if payload.length < 4 then fail else
  let _ ← liftG (beUint32? payload)
  pure ()

/-- `doUserControl` -/
def doUserControl (env : Env) (payload : Bytes) : M Unit := do
  if payload.length < 2 then fail else
  let t ← liftG (beUint16? payload)
  if t = Gen.c04UserControlPingRequest then
    if payload.length < 6 then fail else
    -- stream.msg.buff.Skip(2)
    let p2 := payload.drop 2
    let _ ← liftG (beUint32? p2)
    sendReply env Gen.c04CsidProtocolControl 4 scriptUserControl
  else pure ()

/-- `s.avObserver.OnReadRtmpAvMsg(stream.toAvMsg())` -/
def callAvObserver (typ : Nat) (payload : Bytes) : M Unit := do
  let s ← getS
  if s.avObs then emit (.av typ payload.length) else gopanic "s.avObserver.OnReadRtmpAvMsg: nil interface"

/-- the `RtmpTypeIdAudio` / `RtmpTypeIdVideo` arm of `doMsg` -/
def doAv (typ : Nat) (payload : Bytes) : M Unit := do
  let s ← getS
  if s.role ≠ .pub ∨ s.avObs = false then fail else
  callAvObserver typ payload

/-- `doDataMessageAmf0` -/
def doDataMessageAmf0 (typ : Nat) (payload : Bytes) : M Unit := do
  let s ← getS
  if s.role ≠ .pub ∨ s.avObs = false then fail else
  let (val, _) ← liftG (readString payload)
  if val = sSampleAccess then pure () else
  callAvObserver typ payload

/-- `ObjectPairArray.FindString` -/
def findString : Opa → Bytes → Option Bytes
  | [], _ => none
  | (k, .str v) :: r, key => if k = key then some v else findString r key
  | (_, _) :: r, key => findString r key

/-- `strings.Split(name, "?")` -/
def splitQ : Bytes → List Bytes
  | [] => [[]]
  | c :: r =>
    if c = 0x3f then [] :: splitQ r
    else match splitQ r with
      | [] => [[c]]
      | h :: t => (c :: h) :: t

/-- `s.conn.ModWriteChanSize / ModReadTimeoutMs / ModWriteTimeoutMs` panic when the option is already set -/
def modConnProps : M Unit := do
  let s ← getS
  if s.queued then gopanic "connection.ModWriteChanSize: already set" else
  modS fun s => { s with queued := Gen.c04WChanSize > 0 }
  match s.role with
  | .pub =>
    if s.readTo then gopanic "connection.ModReadTimeoutMs: already set" else
    modS fun s => { s with readTo := Gen.c04ReadAvTimeoutMs > 0 }
  | .sub =>
    if s.writeTo then gopanic "connection.ModWriteTimeoutMs: already set" else
    modS fun s => { s with writeTo := Gen.c04ServerSessionWriteAvTimeoutMs > 0 }
  | .unknown => pure ()

/-- `doConnect` -/
def doConnect (env : Env) (p : Bytes) : M Unit := do
  let (opa, _) ← liftG (readObject amfLim amfFrames p)
  match findString opa sApp with
  | none => fail
  | some _ =>
    emit .connect
    sendReply env Gen.c04CsidProtocolControl 5 scriptCtl4
    sendReply env Gen.c04CsidProtocolControl 6 scriptPeerBandwidth
    sendReply env Gen.c04CsidProtocolControl 1 scriptCtl4
    sendReply env Gen.c04CsidOverConnection 20 scriptConnectResult

/-- `doCreateStream` -/
def doCreateStream (env : Env) : M Unit :=
  sendReply env Gen.c04CsidOverConnection 20 scriptCreateStreamResult

/-- the stream name handling shared by `doPublish` and `doPlay`: `ss := strings.Split(..); ss[0]; ss[1]` -/
def streamNameParts (site : String) (name : Bytes) : M Unit := do
  let ss := splitQ name
  match ss[0]? with
  | none => gopanic (site ++ ":ss[0]")
  | some _ =>
    if ss.length = 2 then
      match ss[1]? with
      | none => gopanic (site ++ ":ss[1]")
      | some _ => pure ()
    else pure ()

/-- `doPublish` -/
def doPublish (env : Env) (p : Bytes) : M Unit := do
  let s ← getS
  -- a session that already is a publisher or a subscriber refuses a further publish / play
  if s.role ≠ .unknown then fail else
  let l ← liftG (readNull p)
  let p1 := p.drop l
  let (name, l1) ← liftG (readString p1)
  let p2 := p1.drop l1
  streamNameParts "doPublish" name
  -- pubType: a read error is only logged
  let _ ← attempt (liftG (readString p2))
  sendReply env Gen.c04CsidOverStream 20 scriptOnStatusPublish
  modS fun s => { s with role := .pub }
  modConnProps
  emit .newPub
  if env.pubMode = 1 then do
    modS fun s => { s with byObserver := true }
    fail
  else if env.pubMode = 0 then modS fun s => { s with avObs := true }
  else pure ()

/-- `doPlay` -/
def doPlay (env : Env) (p : Bytes) : M Unit := do
  let s ← getS
  if s.role ≠ .unknown then fail else
  let l ← liftG (readNull p)
  let p1 := p.drop l
  let (name, _) ← liftG (readString p1)
  streamNameParts "doPlay" name
  sendReply env Gen.c04CsidProtocolControl 4 scriptUserControl
  sendReply env Gen.c04CsidProtocolControl 4 scriptUserControl
  sendReply env Gen.c04CsidOverStream 20 scriptOnStatusPlay
  modS fun s => { s with role := .sub }
  modConnProps
  emit .newSub
  if env.subDeny then do
    modS fun s => { s with byObserver := true }
    fail
  else pure ()

/-- `doCommandMessage` -/
def doCommandMessage (env : Env) (payload : Bytes) : M Unit := do
  let (cmd, l) ← liftG (readString payload)
  let p1 := payload.drop l
  let (_, l2) ← liftG (readNumber p1)
  let p2 := p1.drop l2
  if cmd = sConnect then doConnect env p2
  else if cmd = sCreateStream then doCreateStream env
  else if cmd = sPublish then doPublish env p2
  else if cmd = sPlay then doPlay env p2
  else pure ()

/-- `doCommandAmf3Message`: `stream.msg.Skip(1)` -/
def doCommandAmf3Message (env : Env) (payload : Bytes) : M Unit :=
  doCommandMessage env (payload.drop 1)

/-- `doMsg` -/
def doMsg (env : Env) (typ : Nat) (payload : Bytes) : M Unit := do
  writeAckIfNeeded env
  if typ = 5 then doWinAckSize payload
  else if typ = 1 then pure ()
  else if typ = 20 then doCommandMessage env payload
  else if typ = 17 then doCommandAmf3Message env payload
  else if typ = 18 then doDataMessageAmf0 typ payload
  else if typ = 3 then doAck payload
  else if typ = 4 then doUserControl env payload
  else if typ = 8 ∨ typ = 9 then doAv typ payload
  else pure ()

/-! ## the read loop -/

/-- the callbacks of one chunk, in order; stops at the first error -/
def deliver (env : Env) : List Chunk.Msg → M Unit
  | [] => pure ()
  | m :: ms => do
    doMsg env m.hdr.typ m.payload
    deliver env ms

inductive Final where
  | alive    -- still reading when the peer's bytes ran out
  | closed   -- RunLoop returned an error: this connection is closed
deriving DecidableEq, Repr

/-- bytes of `inp` the composer has read when the callbacks of this chunk run -/
def consumedBy (c : Chunk.Composer) (inp : Bytes) : Nat :=
  match Chunk.parseBasic inp with
  | none => 0
  | some (fmt, csid, r1) =>
    match Chunk.parseMsgHeader fmt (c.get csid) r1 with
    | none => 0
    | some (s1, r2) =>
      match Chunk.parseExt fmt s1 r2 with
      | none => 0
      | some (s2, r3) =>
        inp.length - r3.length + Chunk.neededSize s2.hdr.msgLen s2.buf.length c.peerChunkSize

structure Out where
  final : Final
  /-- 0 = no S0S1S2 written, 1 = simple, 2 = complex -/
  hs : Nat
  evs : List Ev     -- oldest first
  /-- what `Server.handleTcpConnect` looks at when RunLoop has returned -/
  role : Role := .unknown
  byObserver : Bool := false
deriving Repr

/-- `ChunkComposer.RunLoop(s.conn, s.doMsg)`; `.panic "fuel"` never happens (every chunk consumes a byte) -/
def readLoop (env : Env) : Nat → Chunk.Composer → Bytes → Sess → R Final
  | 0, _, _, _ => .panic "fuel"
  | fuel + 1, c, inp, s =>
    let s1 := { s with readSum := s.readSum + consumedBy c inp }
    match Chunk.readChunk c inp with
    | .eof => .ok .alive s
    | .fail ms =>
      match deliver env ms s1 with
      | .ok _ s' => .ok .closed s'
      | .err s' => .ok .closed s'
      | .panic p => .panic p
    | .ok c' ms rest =>
      match deliver env ms s1 with
      | .ok _ s' => readLoop env fuel c' rest s'
      | .err s' => .ok .closed s'
      | .panic p => .panic p

/-- `ServerSession.RunLoop` on the byte stream `inp` of the peer. `Except.error site` = the process panics. -/
def run (hm : Hmac) (env : Env) (s1 inp : Bytes) : Except String Out :=
  if inp.length < c0c1Len then .ok { final := .alive, hs := 0, evs := [] } else
  match readC0C1 hm s1 (inp.take c0c1Len) with
  | .error (.panic p) => .error p
  | .error .err => .ok { final := .closed, hs := 0, evs := [] }
  | .ok simple =>
    -- WriteS0S1S2
    if env.wfail = some 0 then .ok { final := .closed, hs := 0, evs := [] } else
    let hs := if simple then 1 else 2
    let rest := inp.drop c0c1Len
    if rest.length < c2Len then .ok { final := .alive, hs := hs, evs := [] } else
    let body := rest.drop c2Len
    match readLoop env (body.length + 1) {} body { nwrites := 1, readSum := c0c1Len + c2Len } with
    | .ok f s => .ok { final := f, hs := hs, evs := s.evs.reverse, role := s.role, byObserver := s.byObserver }
    | .err s => .ok { final := .closed, hs := hs, evs := s.evs.reverse, role := s.role, byObserver := s.byObserver }
    | .panic p => .error p

/-- `Server.handleTcpConnect` after `session.RunLoop()` returned: the observer's Del callback, if any
    (`some true` = OnDelRtmpPubSession, `some false` = OnDelRtmpSubSession) -/
def delCallback (o : Out) : Option Bool :=
  if o.byObserver then none else
  match o.role with
  | .pub => some true
  | .sub => some false
  | .unknown => none

end Lal.RtmpServer
