import LalModel.Model.Bytes
import LalModel.Model.Ws
import LalModel.Model.Interleaved
/-
  C15 — model of the asynchronous write path of a subscriber session.

  * `Conn` : naza `connection` (github.com/q191201771/naza pkg/connection/connection.go) as lal's
    subscriber sessions configure it: `Option.WriteChanSize = cap > 0`, `WriteChanFullBehavior`
    left at its default (`WriteChanFullBehaviorReturnError`). `Write`/`Writev` = `tryEnqueue`
    (one `wMsg` = one `Item` whatever the number of buffers), `runWriteLoop` = the events `take`
    (receive from `wChan`), `done` (the socket write returned), `fail k` (the socket write returned
    an error after `k` bytes: write deadline, reset, or `Close` from another goroutine; the
    connection closes itself), `Flush`.
  * `subItems` : the queue items ONE logical unit becomes, per protocol
    (rtmp.ServerSession.Write/Writev, base.BasicHttpSubSession.Write/WriteHttpResponseHeader for
    HTTP-FLV / HTTP-TS plain and WebSocket, rtsp.ServerCommandSession.WriteInterleavedPacket plain
    and WebSocket). `PreFix.subItems` is the pinned tree (WebSocket header and payload enqueued
    separately).
  * `Sess` : a subscriber session: the connection, the liveness bookkeeping of
    base.BasicSessionStat (`isAlive`), and ghost logs of what was offered / accepted.
  * `fanout` : the group's loop over a subscriber set for one unit (pkg/logic/group__core_streaming.go).

  Time is not modelled: WHEN the writer takes, finishes or fails is the event order, chosen by the
  environment (the consumer and the Go scheduler); the write deadline firing is the event `fail`.
-/
namespace Lal.Queue

abbrev Item := Bytes

/-- naza `WriteChanFullBehavior` -/
inductive FullBehavior | returnError | block
deriving Repr, DecidableEq

/-- what `connection.Write` / `Writev` does with one call -/
inductive Outcome
  | accepted        -- sent to wChan; returns (len, nil) at once
  | full            -- `default:` branch of the select: ErrWriteChanFull, nothing queued
  | closedAlready   -- closedFlag set: ErrClosedAlready
  | blocked         -- the caller waits for the consumer (Block behaviour on a full queue, or a synchronous connection)
deriving Repr, DecidableEq

structure Conn where
  cap : Nat                         -- Option.WriteChanSize; 0 = synchronous (no writer goroutine)
  behavior : FullBehavior := .returnError
  queue : List Item := []           -- wChan, oldest first
  inflight : Option Item := none    -- the item runWriteLoop received and is writing to the socket
  wire : List Item := []            -- items written completely, in order
  tail : Bytes := []                -- the bytes a failed write still delivered
  wrote : Nat := 0                  -- stat.WroteBytesSum
  closed : Bool := false            -- closedFlag
deriving Repr, DecidableEq

/-- everything the consumer received -/
def Conn.received (c : Conn) : Bytes := c.wire.flatten ++ c.tail

/-- `connection.Write` / `connection.Writev` -/
def Conn.tryEnqueue (c : Conn) (it : Item) : Conn × Outcome :=
  if c.closed then (c, .closedAlready)
  else if c.cap = 0 then (c, .blocked)
  else if c.queue.length < c.cap then ({ c with queue := c.queue ++ [it] }, .accepted)
  else match c.behavior with
    | .returnError => (c, .full)
    | .block => (c, .blocked)

def Conn.enqueueAll (c : Conn) : List Item → Conn × List Outcome
  | [] => (c, [])
  | it :: rest =>
    let r := c.tryEnqueue it
    let r2 := r.1.enqueueAll rest
    (r2.1, r.2 :: r2.2)

/-- runWriteLoop: `case msg := <-c.wChan` -/
def Conn.take (c : Conn) : Conn :=
  if c.closed then c else
  match c.inflight, c.queue with
  | none, it :: q => { c with inflight := some it, queue := q }
  | _, _ => c

/-- runWriteLoop: `c.write(msg.b)` / `c.writev(msg.bs)` returned without error -/
def Conn.done (c : Conn) : Conn :=
  if c.closed then c else
  match c.inflight with
  | some it => { c with inflight := none, wire := c.wire ++ [it], wrote := c.wrote + it.length }
  | none => c

/-- the socket write returned an error after `k` bytes (deadline exceeded, peer reset, or the socket was
    closed under it): `c.close(err)`; the writer goroutine returns; what is still queued is never written -/
def Conn.fail (c : Conn) (k : Nat) : Conn :=
  if c.closed then c else
  match c.inflight with
  | some it => { c with inflight := none, tail := it.take k, wrote := c.wrote + (it.take k).length, closed := true }
  | none => c

/-- `connection.Close` (session Dispose): the write in flight, if any, is interrupted having delivered nothing more -/
def Conn.close (c : Conn) : Conn :=
  if c.closed then c else { (c.fail 0) with closed := true }

/-- `connection.Flush` on an asynchronous connection: a BLOCKING send of a marker and a wait until the
    writer reached it, i.e. until the consumer has read everything queued before. Not on the fan-out
    path (extracted fact `Gen.c15WritePathConnCalls`). -/
def Conn.flush (c : Conn) : Conn :=
  if c.closed then c else
  let pend := c.inflight.toList ++ c.queue
  { c with inflight := none, queue := [], wire := c.wire ++ pend, wrote := c.wrote + pend.flatten.length }

/-! ### protocols -/

inductive Proto | rtmp | flv | wsflv | ts | wsts | rtsp | wsrtsp
deriving Repr, DecidableEq

def Proto.ws : Proto → Bool
  | .wsflv | .wsts | .wsrtsp => true
  | _ => false

def Proto.isRtsp : Proto → Bool
  | .rtsp | .wsrtsp => true
  | _ => false

/-- one logical unit handed to a session by the fan-out: an RTMP message's chunks (or a merge-writer
    batch), an FLV tag / the FLV header, a run of TS packets, an RTP packet with its interleaved channel;
    `raw` = written around the WebSocket framing (`WriteHttpResponseHeader`). -/
structure U where
  data : Bytes
  ch : Nat := 0
  raw : Bool := false
deriving Repr, DecidableEq

/-- the bytes of the unit before any WebSocket framing -/
def body (p : Proto) (u : U) : Bytes :=
  if p.isRtsp && !u.raw then Interleaved.pack u.ch u.data else u.data

/-- what the consumer must find on the wire for the unit -/
def frame (p : Proto) (u : U) : Bytes :=
  if p.ws && !u.raw then (Ws.subWrite true (body p u)).flatten else body p u

/-- the queue items of one unit: ONE, whatever the protocol (tree with the `fix:` commit: WebSocket header and
    payload travel as one `Writev` item / one buffer) -/
def subItems (p : Proto) (u : U) : List Item := [frame p u]

namespace PreFix
/-- pinned tree: `BasicHttpSubSession.Write` and `ServerCommandSession.WriteInterleavedPacket` call
    `conn.Write` twice over WebSocket: header, then payload -/
def subItems (p : Proto) (u : U) : List Item := Ws.subWrite (p.ws && !u.raw) (body p u)
end PreFix

/-! ### sessions -/

structure Sess where
  proto : Proto
  conn : Conn
  statWrote : Nat := 0        -- rtsp: BaseOutSession.sessionStat, bytes of the packets whose enqueue returned nil
  stale : Option Nat := none  -- BasicSessionStat.staleStat (nil before the first IsAlive)
  offered : List U := []      -- ghost: every unit handed to the session
  accepted : List U := []     -- ghost: the units all of whose items were accepted
deriving Repr, DecidableEq

def Sess.init (p : Proto) (cap : Nat) : Sess := { proto := p, conn := { cap := cap } }

/-- one `session.Write…(unit)`: every item is offered in turn, errors are not looked at (rtmp/flv/ts: `_ =`;
    rtsp: the error of the LAST conn.Write decides whether the packet is counted as written) -/
def Sess.writeWith (items : Proto → U → List Item) (s : Sess) (u : U) : Sess × List Outcome :=
  let r := s.conn.enqueueAll (items s.proto u)
  let allOk := r.2.all (· == .accepted)
  let lastOk := r.2.getLast? == some .accepted
  ({ s with conn := r.1,
            statWrote := if s.proto.isRtsp && lastOk then s.statWrote + u.data.length else s.statWrote,
            offered := s.offered ++ [u],
            accepted := if allOk then s.accepted ++ [u] else s.accepted }, r.2)

def Sess.write (s : Sess) (u : U) : Sess × List Outcome := s.writeWith subItems u

/-- the counter `IsAlive` looks at: the connection's written bytes (rtmp, flv, ts), the session's own
    count of accepted packets (rtsp) -/
def Sess.counter (s : Sess) : Nat := if s.proto.isRtsp then s.statWrote else s.conn.wrote

/-- `BasicSessionStat.isAlive` (write side) -/
def Sess.isAlive (s : Sess) : Sess × Bool :=
  match s.stale with
  | none => ({ s with stale := some s.counter }, true)
  | some st => ({ s with stale := some s.counter }, s.counter != st)

def Sess.dispose (s : Sess) : Sess := { s with conn := s.conn.close }

/-- one subscriber's share of `Group.disposeInactiveSessions` -/
def Sess.sweep (s : Sess) : Sess :=
  if s.isAlive.2 then s.isAlive.1 else s.isAlive.1.dispose

inductive Ev
  | write (u : U)     -- the fan-out hands the session one unit
  | take | done       -- the writer goroutine
  | fail (k : Nat)    -- the socket write in flight fails after k bytes (write deadline, reset)
  | dispose           -- session.Dispose()
  | sweep             -- the periodic liveness sweep reaches this session
deriving Repr, DecidableEq

def Sess.stepWith (items : Proto → U → List Item) (s : Sess) : Ev → Sess
  | .write u => (s.writeWith items u).1
  | .take => { s with conn := s.conn.take }
  | .done => { s with conn := s.conn.done }
  | .fail k => { s with conn := s.conn.fail k }
  | .dispose => s.dispose
  | .sweep => s.sweep

def Sess.step (s : Sess) (e : Ev) : Sess := s.stepWith subItems e
def Sess.run (s : Sess) (evs : List Ev) : Sess := evs.foldl Sess.step s
def Sess.runWith (items : Proto → U → List Item) (s : Sess) (evs : List Ev) : Sess := evs.foldl (Sess.stepWith items) s

/-- the units written by an event list -/
def written (evs : List Ev) : List U :=
  evs.filterMap fun e => match e with
    | .write u => some u
    | _ => none

/-! ### fan-out -/

/-- The loop over a subscriber set for one unit, as `broadcastByRtmpMsg` / `feedTsPackets` / `feedRtpPacket`
    run it under `Group.mutex`: each session is offered the unit; the returned outcomes are every
    `connection.Write`/`Writev` call made, in order. The state of subscriber i afterwards depends on
    subscriber i alone. -/
def fanout (subs : List Sess) (u : U) : List Sess × List Outcome :=
  ((subs.map fun s => (s.write u).1), subs.flatMap fun s => (s.write u).2)

/-- the fan-out got through without waiting for any consumer -/
def nonBlocking (os : List Outcome) : Bool := os.all (· != .blocked)

end Lal.Queue
