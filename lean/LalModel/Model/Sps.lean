import LalModel.Model.Bits
/-
  Model of pkg/avc/beta.go: ParseSps = parseSpsBasic + parseSpsGamma + the width/height
  computation, field by field over the nazabits model.

  Go details kept:
    * only an error of parseSpsBasic is returned; parseSpsGamma's error is logged and the
      fields read so far are used (width/height computed from whatever was parsed);
    * `x, _ = br.Read…()` sequences followed by `if br.Err() != nil { return Wrap(err) }`
      (reads after a failure fail too because the reader's error is sticky);
    * the struct starts zeroed and every field is assigned by one read, so a failing
      read leaves the field 0;
    * width/height are uint32 arithmetic.

  `parseSps` additionally follows the `fix:` commit of branch w-C05 (a panic of the bit reader is recovered and
  returned as an error; `parseSpsWith` is the function without that `defer`).
  The model follows the tree with the two `fix:` commits of branch w-C19 (S21): `nal2rbsp` before
  bit-parsing, crop units from chroma_format_idc and frame_mbs_only_flag, profile_idc 135 in the
  high-profile list. The pinned behaviour is kept as `Variant.pinned` so that the witnesses of the
  defect stay checkable.
-/
namespace Lal.Sps
open Lal.Bits

/-- `avc.Sps` (Go field names; all unsigned, `SarNum/SarDen` are never negative) -/
structure Sps where
  profileIdc : Nat := 0
  constraintSet0 : Nat := 0
  constraintSet1 : Nat := 0
  constraintSet2 : Nat := 0
  levelIdc : Nat := 0
  spsId : Nat := 0
  chromaFormatIdc : Nat := 0
  residualColorTransformFlag : Nat := 0   -- separate_colour_plane_flag
  bitDepthLuma : Nat := 0
  bitDepthChroma : Nat := 0
  transFormBypass : Nat := 0
  log2MaxFrameNumMinus4 : Nat := 0
  picOrderCntType : Nat := 0
  log2MaxPicOrderCntLsb : Nat := 0
  numRefFrames : Nat := 0
  gapsInFrameNumValueAllowedFlag : Nat := 0
  picWidthInMbsMinusOne : Nat := 0
  picHeightInMapUnitsMinusOne : Nat := 0
  frameMbsOnlyFlag : Nat := 0
  mbAdaptiveFrameFieldFlag : Nat := 0
  direct8X8InferenceFlag : Nat := 0
  frameCroppingFlag : Nat := 0
  frameCropLeftOffset : Nat := 0
  frameCropRightOffset : Nat := 0
  frameCropTopOffset : Nat := 0
  frameCropBottomOffset : Nat := 0
  sarNum : Nat := 0
  sarDen : Nat := 0
deriving Repr, DecidableEq

/-- `avc.Context` -/
structure Context where
  profile : Nat
  level : Nat
  width : Nat
  height : Nat
  sps : Sps
deriving Repr, DecidableEq

structure St where
  sps : Sps
  br : BitReader
deriving Repr, DecidableEq

/-- A parser fragment: `none` = the Go function has returned (early exit); the state is what was
    parsed so far. A Go panic aborts. -/
def PM (α : Type) := St → GoM (Option α × St)

def PM.pure {α} (a : α) : PM α := fun s => .ok (some a, s)

def PM.bind {α β} (m : PM α) (f : α → PM β) : PM β := fun s =>
  match m s with
  | .ok (some a, s') => f a s'
  | .ok (none, s') => .ok (none, s')
  | .error e => .error e

instance : Monad PM where
  pure := PM.pure
  bind := PM.bind

/-- `v, err = br.Read…(); if err != nil { return … }` -/
def rd {α} (r : BitReader → Rd α) : PM α := fun s =>
  match r s.br with
  | .ok (some v, br) => .ok (some v, { s with br := br })
  | .ok (none, br) => .ok (none, { s with br := br })
  | .error e => .error e

/-- `v, _ = br.Read…()`: the zero value on error, parsing goes on -/
def rdIgn {α} (zero : α) (r : BitReader → Rd α) : PM α := fun s =>
  match r s.br with
  | .ok (some v, br) => .ok (some v, { s with br := br })
  | .ok (none, br) => .ok (some zero, { s with br := br })
  | .error e => .error e

/-- `if br.Err() != nil { return … }` -/
def errCheck : PM Unit := fun s => if s.br.err then .ok (none, s) else .ok (some (), s)

def set (f : Sps → Sps) : PM Unit := fun s => .ok (some (), { s with sps := f s.sps })

def getSps : PM Sps := fun s => .ok (some s.sps, s)

/-- what differs between the pinned tree and the fixed one -/
structure Variant where
  stripEpb : Bool
  cropByChroma : Bool
  profiles : List Nat
deriving Repr, DecidableEq

/-- the `case` list of parseSpsGamma: profiles that carry chroma_format_idc … scaling matrix -/
def highProfiles : List Nat := [100, 110, 122, 244, 44, 83, 86, 118, 128, 138, 139, 134, 135]

def Variant.fixed : Variant := { stripEpb := true, cropByChroma := true, profiles := highProfiles }
def Variant.pinned : Variant :=
  { stripEpb := false, cropByChroma := false, profiles := [100, 110, 122, 244, 44, 83, 86, 118, 128, 138, 139, 134] }

/-- inner loop of the scaling list: `size` remaining entries -/
def scalingList : Nat → Nat → Nat → PM Unit
  | 0, _, _ => pure ()
  | k+1, last, next => do
    let next' ← if next ≠ 0 then (do
        let v ← rd readSe                                  -- delta_scale
        pure (((last : Int) + v) % 256).toNat)             -- (lastScale + deltaScale) & 0xff
      else pure next
    scalingList k (if next' ≠ 0 then next' else last) next'

/-- outer loop: `n` lists remain, `i` is the index of the next one -/
def scalingLists : Nat → Nat → PM Unit
  | 0, _ => pure ()
  | n+1, i => do
    let flag ← rd (readBits 1)                             -- seq_scaling_list_present_flag
    if flag = 0 then scalingLists n (i + 1) else do
      scalingList (if i ≥ 6 then 64 else 16) 8 8
      scalingLists n (i + 1)

/-- offset_for_ref_frame loop -/
def skipSe : Nat → PM Unit
  | 0 => pure ()
  | n+1 => do let _ ← rd readSe; skipSe n

def sarTable : List (Nat × Nat) :=
  [(0, 1), (1, 1), (12, 11), (10, 11), (16, 11), (40, 33), (24, 11), (20, 11), (32, 11), (80, 33),
   (18, 11), (15, 11), (64, 33), (160, 99), (4, 3), (3, 2), (2, 1)]

/-- bit_depth_luma_minus8 … the scaling matrix (the rest of the high-profile `case`) -/
def gammaChromaTail (cf : Nat) : PM Unit := do
  let l ← rd readUe
  set fun s => { s with bitDepthLuma := (l + 8) % 4294967296 }
  let c ← rd readUe
  set fun s => { s with bitDepthChroma := (c + 8) % 4294967296 }
  let b ← rd (readBits 1)                                  -- qpprime_y_zero_transform_bypass_flag
  set fun s => { s with transFormBypass := b }
  let flag ← rd (readBits 1)                               -- seq_scaling_matrix_present_flag
  if flag = 1 then scalingLists (if cf = 3 then 12 else 8) 0 else pure ()

/-- the `switch sps.ProfileIdc` part -/
def gammaChroma (hp : List Nat := highProfiles) : PM Unit := do
  let s ← getSps
  if hp.contains s.profileIdc then do
    let cf ← rd readUe                                     -- chroma_format_idc
    set fun s => { s with chromaFormatIdc := cf }
    if cf = 3 then do
      let f ← rd (readBits 1)                              -- separate_colour_plane_flag
      set fun s => { s with residualColorTransformFlag := f }
    gammaChromaTail cf
  else
    set fun s => { s with chromaFormatIdc := 1, bitDepthLuma := 8, bitDepthChroma := 8 }

/-- log2_max_frame_num_minus4 … the pic_order_cnt_type branches -/
def gammaPoc : PM Unit := do
  let a ← rd readUe
  set fun s => { s with log2MaxFrameNumMinus4 := a }
  let t ← rd readUe
  set fun s => { s with picOrderCntType := t }
  if t = 0 then do
    let v ← rd readUe
    set fun s => { s with log2MaxPicOrderCntLsb := (v + 4) % 4294967296 }
  else if t = 1 then do
    let _ ← rdIgn 0 (readBits 1)                           -- delta_pic_order_always_zero
    let _ ← rdIgn 0 readSe                                 -- offset_for_non_ref_pic
    let _ ← rdIgn 0 readSe                                 -- offset_for_top_to_bottom_field
    errCheck
    let n ← rd readUe                                      -- num_ref_frames_in_pic_order_cnt_cycle
    skipSe n
  else pure ()

/-- max_num_ref_frames … pic_height_in_map_units_minus1, frame_mbs_only, direct_8x8 -/
def gammaDims : PM Unit := do
  let n ← rdIgn 0 readUe
  set fun s => { s with numRefFrames := n }
  let g ← rdIgn 0 (readBits 1)
  set fun s => { s with gapsInFrameNumValueAllowedFlag := g }
  let w ← rdIgn 0 readUe
  set fun s => { s with picWidthInMbsMinusOne := w }
  let h ← rdIgn 0 readUe
  set fun s => { s with picHeightInMapUnitsMinusOne := h }
  errCheck
  let f ← rd (readBits 1)
  set fun s => { s with frameMbsOnlyFlag := f }
  if f = 0 then do
    let m ← rd (readBits 1)
    set fun s => { s with mbAdaptiveFrameFieldFlag := m }
  let d ← rd (readBits 1)
  set fun s => { s with direct8X8InferenceFlag := d }

def gammaCrop : PM Unit := do
  let c ← rd (readBits 1)
  set fun s => { s with frameCroppingFlag := c }
  if c = 1 then do
    let l ← rdIgn 0 readUe
    set fun s => { s with frameCropLeftOffset := l }
    let r ← rdIgn 0 readUe
    set fun s => { s with frameCropRightOffset := r }
    let t ← rdIgn 0 readUe
    set fun s => { s with frameCropTopOffset := t }
    let b ← rdIgn 0 readUe
    set fun s => { s with frameCropBottomOffset := b }
    errCheck

def gammaVui : PM Unit := do
  let flag ← rd (readBits 1)                               -- vui_parameters_present_flag
  if flag = 1 then do
    let flag ← rd (readBits 1)                             -- aspect_ratio_info_present_flag
    if flag = 1 then do
      let ari ← rd (readBits 8)                            -- aspect_ratio_idc
      if ari = 255 then do
        let n ← rd (readBits 16)
        set fun s => { s with sarNum := n }
        let d ← rd (readBits 16)
        set fun s => { s with sarDen := d }
      else if ari < 17 then
        set fun s => { s with sarNum := (sarTable.getD ari (0, 0)).1, sarDen := (sarTable.getD ari (0, 0)).2 }
      else pure ()
  set fun s => if s.sarDen = 0 then { s with sarNum := 1, sarDen := 1 } else s

/-- `parseSpsGamma` -/
def parseSpsGamma (hp : List Nat := highProfiles) : PM Unit := do
  gammaChroma hp; gammaPoc; gammaDims; gammaCrop; gammaVui

/-- `parseSpsBasic`: `none` = error returned -/
def parseSpsBasic : PM Unit := do
  let _ ← rd (readBits 8)                                  -- NAL header
  let p ← rd (readBits 8)
  set fun s => { s with profileIdc := p }
  let c0 ← rd (readBits 1)
  set fun s => { s with constraintSet0 := c0 }
  let c1 ← rd (readBits 1)
  set fun s => { s with constraintSet1 := c1 }
  let c2 ← rd (readBits 1)
  set fun s => { s with constraintSet2 := c2 }
  let _ ← rd (readBits 5)
  let l ← rd (readBits 8)
  set fun s => { s with levelIdc := l }
  let id ← rd readUe
  set fun s => { s with spsId := id }
  if id ≥ 32 then (fun s => .ok (none, s)) else pure ()

def u32 (n : Nat) : Nat := n % 4294967296

/-- uint32 `a - b` -/
def sub32 (a b : Nat) : Nat := (u32 a + 4294967296 - u32 b) % 4294967296

/-- the crop units of `ParseSps`: `cropUnitX := 1; cropUnitY := 2 - frame_mbs_only_flag;
    switch chroma_format_idc { case 1: x = 2, y *= 2; case 2: x = 2 }` (pinned code: 2 and 2) -/
def cropUnitX (byChroma : Bool) (s : Sps) : Nat :=
  if byChroma then (if s.chromaFormatIdc = 1 ∨ s.chromaFormatIdc = 2 then 2 else 1) else 2
def cropUnitY (byChroma : Bool) (s : Sps) : Nat :=
  if byChroma then (if s.chromaFormatIdc = 1 then (2 - s.frameMbsOnlyFlag) * 2 else 2 - s.frameMbsOnlyFlag) else 2

def widthOf (byChroma : Bool) (s : Sps) : Nat :=
  sub32 ((s.picWidthInMbsMinusOne + 1) * 16) ((s.frameCropLeftOffset + s.frameCropRightOffset) * cropUnitX byChroma s)

def heightOf (byChroma : Bool) (s : Sps) : Nat :=
  sub32 ((2 - s.frameMbsOnlyFlag) * (s.picHeightInMapUnitsMinusOne + 1) * 16)
        ((s.frameCropTopOffset + s.frameCropBottomOffset) * cropUnitY byChroma s)

/-- `avc.nal2rbsp`: drop a 0x03 that follows two zero bytes; `zeros` is the loop variable -/
def nal2rbsp : Bytes → Nat → Bytes
  | [], _ => []
  | b :: rest, zeros =>
    if zeros ≥ 2 ∧ b = 3 then nal2rbsp rest 0
    else b :: nal2rbsp rest (if b = 0 then zeros + 1 else 0)

/-- `avc.ParseSps(payload, &ctx)` on a zero Context -/
def parseSpsWith (v : Variant) (payload : Bytes) : GoM Context :=
  match parseSpsBasic { sps := {}, br := newBitReader (if v.stripEpb then nal2rbsp payload 0 else payload) } with
  | .error e => .error e
  | .ok (none, _) => .error .err
  | .ok (some _, st) =>
    match parseSpsGamma v.profiles st with
    | .error e => .error e
    | .ok (_, st') =>
      .ok { profile := st'.sps.profileIdc, level := st'.sps.levelIdc,
            width := widthOf v.cropByChroma st'.sps, height := heightOf v.cropByChroma st'.sps, sps := st'.sps }

/-- `defer func() { if recover() != nil { err = ErrAvc } }()` (the `fix:` commit of branch w-C05): a run-time
    failure inside the bit reader (nazabits' `ReadBits32(0)` at the end of the buffer) is returned as an error -/
def recoverErr {α} : GoM α → GoM α
  | .error (.panic _) => .error .err
  | r => r

/-- `avc.ParseSps` of the fixed tree -/
def parseSps (payload : Bytes) : GoM Context := recoverErr (parseSpsWith Variant.fixed payload)

end Lal.Sps
