import LalModel.Model.RtpUnpack
import LalModel.Model.Sdp
import LalModel.Model.AvQueue
import LalModel.Model.Av2Rtmp
/-
  Model of the RTP ingest path of pkg/rtsp/base_in_session.go with the observer that logic.Group installs
  (`AddRtspPubSession`: `remux.NewAvPacket2RtmpRemuxer().WithOnRtmpMsg(...)`, `Group.OnSdp` → `remuxer.OnSdp`,
  `Group.OnAvPacket` → `remuxer.OnAvPacket`):

    InitWithSdp              which unpacker per track (rtprtcp.DefaultRtpUnpackerFactory, unpackerItemMaxSize),
                             AvPacketQueue iff both tracks are unpackable, observer.OnSdp → InitWithAvConfig
    handleRtpPacket          (reached from HandleInterleavedPacket for an RTP channel and from the UDP read
                             callback onReadRtpPacket): length and payload-type filter, ParseRtpHeader,
                             audio before video, RtpUnpackContainer.Feed
    onAvPacketUnpacked       → AvPacketQueue.Feed → onAvPacket → observer.OnAvPacket, or directly
  RTCP (receiver reports), statistics and logging are not modelled: they do not touch the media path.
-/
namespace Lal.RtspIngest
open Lal Lal.Rtp Lal.RtpUnpack Lal.Av

/-- `unpackerItemMaxSize` (pkg/rtsp/rtsp.go) -/
def unpackerItemMaxSize : Nat := 1024

/-- the unpacker `DefaultRtpUnpackerFactory` builds for a base payload type (`none`: Log.Fatalf, never reached
    behind IsAudioUnpackable / IsVideoUnpackable) -/
def kindOfPt (pt : Int) : Option Kind :=
  if pt = ptAac then some .aac
  else if pt = ptG711U ∨ pt = ptG711A then some .pcm
  else if pt = ptOpus then some .opus
  else if pt = ptAvc then some .avc
  else if pt = ptHevc then some .hevc
  else none

/-- `LogicContext.IsAudioUnpackable` (with the `fix:` commit of branch w-C07: false without an audio media description;
    the pinned code looked at `audioPayloadTypeBase` only, whose zero value is AvPacketPtG711U) -/
def isAudioUnpackable (c : Sdp.LogicContext) : Bool :=
  c.hasAudio && (
  (c.audioPayloadTypeBase == ptAac && c.asc.isSome) || c.audioPayloadTypeBase == ptG711A ||
  c.audioPayloadTypeBase == ptG711U || c.audioPayloadTypeBase == ptOpus)

/-- `LogicContext.IsVideoUnpackable` -/
def isVideoUnpackable (c : Sdp.LogicContext) : Bool :=
  c.videoPayloadTypeBase == ptAvc || c.videoPayloadTypeBase == ptHevc

/-- one `RtpUnpackContainer` with the payload type its protocol stamps on the packets -/
structure Unp where
  pt : Int
  kind : Kind
  rate : Nat
  list : PktList
deriving Repr, DecidableEq

/-- `BaseInSession`, unpacking half: the SDP context and the two containers (written only by `handleRtpPacket`) -/
structure Unpackers where
  ctx : Sdp.LogicContext
  audio : Option Unp := none
  video : Option Unp := none
deriving Repr, DecidableEq

/-- delivery half: the queue (if any) and the remuxer behind `onAvPacket` (written only by `onAvPacketUnpacked`) -/
structure Delivery where
  queue : Option AvQueue.Q := none
  remux : Av2Rtmp.St := {}
deriving Repr, DecidableEq

/-- `BaseInSession` (media path) + the remuxer behind it -/
structure Sess where
  unp : Unpackers
  del : Delivery
deriving Repr, DecidableEq

def mkUnp (pt : Int) (rate : Int) : Option Unp :=
  (kindOfPt pt).map fun k => { pt := pt, kind := k, rate := rate.toNat, list := { maxSize := unpackerItemMaxSize } }

/-- `NewBaseInSessionWithObserver` + `InitWithSdp` : the session and the messages `OnSdp` makes the remuxer emit -/
def initWithSdp (ctx : Sdp.LogicContext) : Sess × List Av2Rtmp.Msg :=
  let a := if isAudioUnpackable ctx then mkUnp ctx.audioPayloadTypeBase ctx.audioClockRate else none
  let v := if isVideoUnpackable ctx then mkUnp ctx.videoPayloadTypeBase ctx.videoClockRate else none
  let q := if isAudioUnpackable ctx && isVideoUnpackable ctx then some ({} : AvQueue.Q) else none
  let r := Av2Rtmp.initWithAvConfig {} ctx.asc ctx.vps ctx.sps ctx.pps
  ({ unp := { ctx := ctx, audio := a, video := v }, del := { queue := q, remux := r.1 } }, r.2)

/-- `onAvPacketUnpacked` for the packets one `Feed` call delivered: through the queue if there is one, then the remuxer -/
def deliver (var : Av2Rtmp.Variant) (rotate : Bool) (d : Delivery) : List Av.AvPacket → Delivery × List Av2Rtmp.Msg
  | [] => (d, [])
  | pkt :: us =>
    let r1 : Delivery × List Av2Rtmp.Msg :=
      match d.queue with
      | some q =>
        let f := AvQueue.feed rotate q pkt
        let m := Av2Rtmp.feedAll var d.remux f.2
        ({ queue := some f.1, remux := m.1 }, m.2)
      | none =>
        let m := Av2Rtmp.feedAvPacket var d.remux pkt
        ({ d with remux := m.1 }, m.2)
    let r2 := deliver var rotate r1.1 us
    (r2.1, r1.2 ++ r2.2)

/-- the packets of a container's `Feed`, stamped with the payload type its protocol was created with -/
def tagUnits (pt : Int) (units : List RtpUnpack.AvPacket) : List Av.AvPacket :=
  units.map fun u => { pt := pt, ts := u.ts, payload := u.payload }

/-- the unpacking half of `handleRtpPacket(b)`: length and payload-type filter, `ParseRtpHeader`, audio before video,
    `RtpUnpackContainer.Feed`; result: the packets handed to `onAvPacketUnpacked`, in call order -/
def unpackStep (s : Unpackers) (b : Bytes) : GoM (Unpackers × List Av.AvPacket) :=
  if b.length < 12 then .ok (s, []) else
  let packetType : Int := ((b.getD 1 0).toNat % 128 : Nat)
  if ¬ (s.ctx.audioPayloadTypeOrigin = packetType ∨ s.ctx.videoPayloadTypeOrigin = packetType) then .ok (s, []) else
  match parseRtpHeader b with
  | .error .err => .ok (s, [])
  | .error f => .error f
  | .ok h =>
    let pkt : RtpPacket := { hdr := h, raw := b }
    if s.ctx.audioPayloadTypeOrigin = packetType then
      match s.audio with
      | none => .ok (s, [])
      | some u =>
        match RtpUnpack.feed (protoOf u.kind u.rate) u.list pkt with
        | .error f => .error f
        | .ok (l', units) => .ok ({ s with audio := some { u with list := l' } }, tagUnits u.pt units)
    else
      match s.video with
      | none => .ok (s, [])
      | some u =>
        match RtpUnpack.feed (protoOf u.kind u.rate) u.list pkt with
        | .error f => .error f
        | .ok (l', units) => .ok ({ s with video := some { u with list := l' } }, tagUnits u.pt units)

/-- `handleRtpPacket(b)` -/
def handleRtpPacket (var : Av2Rtmp.Variant) (rotate : Bool) (s : Sess) (b : Bytes) : GoM (Sess × List Av2Rtmp.Msg) :=
  match unpackStep s.unp b with
  | .error f => .error f
  | .ok (u1, units) =>
    let d := deliver var rotate s.del units
    .ok ({ unp := u1, del := d.1 }, d.2)

/-- a sequence of arrivals -/
def handleAll (var : Av2Rtmp.Variant) (rotate : Bool) : Sess → List Bytes → GoM (Sess × List Av2Rtmp.Msg)
  | s, [] => .ok (s, [])
  | s, b :: bs =>
    match handleRtpPacket var rotate s b with
    | .error f => .error f
    | .ok (s1, o1) =>
      match handleAll var rotate s1 bs with
      | .error f => .error f
      | .ok (s2, o2) => .ok (s2, o1 ++ o2)

/-- the whole ingest: SDP (ANNOUNCE body / DESCRIBE answer), then the RTP packets in arrival order -/
def ingest (var : Av2Rtmp.Variant) (rotate : Bool) (c : Sdp.Codec) (sdp : Bytes) (arrivals : List Bytes) : GoM (List Av2Rtmp.Msg) :=
  match Sdp.parseLogic c sdp with
  | none => .error .err
  | some ctx =>
    let (s, m0) := initWithSdp ctx
    match handleAll var rotate s arrivals with
    | .error f => .error f
    | .ok (_, ms) => .ok (m0 ++ ms)

end Lal.RtspIngest
