import LalModel.Model.TsRmx
import LalModel.Model.Rtp
import LalModel.Model.Sdp
import LalModel.Model.CfgChain
/-
  Functional model of `remux.Rtmp2RtspRemuxer` (pkg/remux/rtmp2rtsp.go) on top of `Rtp.packerPack`
  (rtprtcp.RtpPacker.Pack with the per-codec payload packers) and `Sdp.pack` (sdp.Pack).

  One `feed` = one `FeedRtmpMsg` call; the result is the new state and the callbacks made, in order
  (`onSdp(ctx)` / `onRtpPacket(pkt)`).

  * `RtspRemuxerAddSpsPps2KeyFrameFlag` is false (the default; the extractor refuses to run otherwise).
  * The SSRC (`rand.Uint32()`) and the first sequence number (`rand.Int() % 65536`) of each packer are
    random in lal; the model uses 0 for both and the harness prints them relative to that.
  * Metadata messages (type 18: `audiocodecid` / `audiosamplerate` hints) are not modelled; the scenarios
    consist of audio and video messages.
-/
namespace Lal.RtspRmx
open Lal Lal.TsRmx

/-- a `rtprtcp.RtpPacker`: payload packer kind, clock rate, next sequence number -/
structure Packer where
  kind : Rtp.Kind
  rate : Nat
  seq  : Nat := 0
deriving Repr, DecidableEq

structure St where
  analyzeDone     : Bool := false
  msgCache        : List Msg := []
  vps             : Option Bytes := none
  sps             : Option Bytes := none
  pps             : Option Bytes := none
  asc             : Option Bytes := none
  audioPt         : Int := -1      -- base.AvPacketPtUnknown
  videoPt         : Int := -1
  audioSampleRate : Int := -1
  audioPacker     : Option Packer := none
  videoPacker     : Option Packer := none
deriving Repr, DecidableEq

inductive Out where
  | sdp (ctx : Option Sdp.LogicContext)     -- `none`: sdp.Pack failed, the callback receives the zero context
  | rtp (pkt : Rtp.RtpPacket)
deriving Repr, DecidableEq

/-- `IsAacSeqHeader` for an audio message -/
def isAacSeqHeader (p : Bytes) : Bool := audioCodecId p == Gen.rtmpSoundFormatAac && pb p 1 == 0

def g711 (id : Nat) : Bool := id == Gen.rtmpSoundFormatG711A || id == Gen.rtmpSoundFormatG711U

/-- `getAudioPacker` -/
def getAudioPacker (s : St) : St × Option Packer :=
  match s.audioPacker with
  | some p => (s, some p)
  | none =>
    let mk (p : Packer) : St × Option Packer := ({ s with audioPacker := some p }, some p)
    if s.audioPt = Sdp.ptG711A ∨ s.audioPt = Sdp.ptG711U then mk { kind := .pcm, rate := s.audioSampleRate.toNat }
    else if s.audioPt = Sdp.ptOpus then mk { kind := .opus, rate := s.audioSampleRate.toNat }
    else if s.audioPt = Sdp.ptAac then
      match s.asc with
      | none => (s, none)
      | some a =>
        match Aac.ascUnpack a with
        | .error _ => (s, none)
        | .ok ctx => mk { kind := .aac, rate := (Aac.samplingFrequency ctx).getD 0 }
    else (s, none)

/-- `getVideoPacker` -/
def getVideoPacker (s : St) : St × Option Packer :=
  if s.sps.isNone then (s, none) else
  match s.videoPacker with
  | some p => (s, some p)
  | none =>
    let p : Packer := { kind := if s.videoPt = Sdp.ptAvc then .avc else .hevc, rate := 90000 }
    ({ s with videoPacker := some p }, some p)

/-- `RtpPackerPayloadAvcHevc.Pack` with `Typ = RtpPackerPayloadAvcHevcTypeAvcc`: split, drop AUDs, `PackNal` each -/
def packAvcc (hevc : Bool) (inp : Bytes) (maxSize : Nat) : List Bytes :=
  if maxSize = 0 then [] else
  let (nals, err) := Nalu.splitNaluAvcc inp
  if err then [] else
  nals.flatMap fun nal =>
    let isAud := if hevc then hevcNalType (nal.headD 0) = Gen.hevcNaluTypeAud else avcNalType (nal.headD 0) = Gen.avcNaluTypeAud
    if isAud then [] else
    match Rtp.packNal hevc nal maxSize with
    | .ok ps => ps
    | .error _ => []

/-- `RtpPacker.Pack` around a list of payloads -/
def packerEmit (p : Packer) (pt : Int) (ms : Nat) (payloads : List Bytes) : Packer × List Out :=
  let pkts := Rtp.packLoop (pt % 256).toNat (Rtp.rtpTimestamp ms p.rate) 0 p.seq payloads
  ({ p with seq := (p.seq + payloads.length) % 65536 }, pkts.map .rtp)

/-- `remux` -/
def remux (s : St) (m : Msg) : St × List Out :=
  let p := m.payload
  if m.typ = 8 then
    match getAudioPacker s with
    | (s, none) => (s, [])
    | (s, some pk) =>
      let id := audioCodecId p
      let body := if g711 id || id == Gen.rtmpSoundFormatOpus then p.drop 1 else p.drop 2
      let payloads := match pk.kind with
        | .aac => Rtp.aacPack body Gen.rtpMaxPayloadSize
        | _ => Rtp.rawPack body Gen.rtpMaxPayloadSize
      let (pk', o) := packerEmit pk s.audioPt m.ts payloads
      ({ s with audioPacker := some pk' }, o)
  else if m.typ = 9 then
    match getVideoPacker s with
    | (s, none) => (s, [])
    | (s, some pk) =>
      let hevcMsg := videoCodecId p = Gen.rtmpCodecIdHevc
      let body := if hevcMsg && isEnhancedNalu p then p.drop (enhancedNaluIndex p) else p.drop 5
      -- `in == nil` cannot happen (len(payload) > 5 was checked by the caller and the index is at most 8 … a slice
      -- `payload[8:]` of a shorter payload panics in Go; the functional model treats it as empty)
      let payloads := packAvcc (pk.kind == .hevc) body Gen.rtpMaxPayloadSize
      let (pk', o) := packerEmit pk s.videoPt m.ts payloads
      ({ s with videoPacker := some pk' }, o)
  else (s, [])

def remuxAll : St → List Msg → St × List Out
  | s, [] => (s, [])
  | s, m :: ms =>
    let (s1, o1) := remux s m
    let (s2, o2) := remuxAll s1 ms
    (s2, o1 ++ o2)

/-- `isAnalyzeEnough` -/
def isAnalyzeEnough (s : St) : Bool :=
  (s.sps.isSome && s.pps.isSome && (s.asc.isSome || s.audioPt != -1)) || s.msgCache.length ≥ Gen.maxAnalyzeAvMsgSize

/-- the first half of `doAnalyze` once the headers suffice: the video payload type, then the audio payload type and
    the sample rate of the AudioSpecificConfig. Second component `none`: the configuration is unusable. -/
def settle (s : St) : St × Option St :=
  let s := if s.sps.isSome && s.pps.isSome then { s with videoPt := if s.vps.isSome then Sdp.ptHevc else Sdp.ptAvc } else s
  (s, match s.asc with
      | none => some s
      | some a =>
        match Aac.ascUnpack a with
        | .error _ => none
        | .ok ctx =>
          match Aac.samplingFrequency ctx with
          | none => none
          | some f => some { s with audioPt := Sdp.ptAac, audioSampleRate := f })

/-- `doAnalyze` -/
def doAnalyze (c : Sdp.Codec) (tool : Bytes) (s : St) : St × List Out :=
  if !isAnalyzeEnough s then (s, []) else
  match settle s with
  | (s, none) =>
    -- `r.asc = nil; return` (for an unknown frequency index `audioSampleRate` has become -1 as well)
    let bad := match s.asc with
      | some a => (match Aac.ascUnpack a with | .ok _ => true | .error _ => false)
      | none => false
    ({ s with audioPt := Sdp.ptAac, asc := none, audioSampleRate := if bad then -1 else s.audioSampleRate }, [])
  | (_, some s) =>
    let ctx := Sdp.pack c tool { videoPt := s.videoPt, vps := s.vps, sps := s.sps, pps := s.pps }
                              { audioPt := s.audioPt, samplingFrequency := s.audioSampleRate, asc := s.asc }
    ({ (remuxAll s s.msgCache).1 with msgCache := [], analyzeDone := true }, .sdp ctx :: (remuxAll s s.msgCache).2)

/-- `FeedRtmpMsg` for audio / video messages -/
def feed (c : Sdp.Codec) (tool : Bytes) (s : St) (m : Msg) : St × List Out :=
  let p := m.payload
  if m.typ = 18 then (s, []) else
  if m.typ = 8 ∧ (p.length ≤ 1 ∨ (p.length = 2 ∧ audioCodecId p = Gen.rtmpSoundFormatAac)) then (s, []) else
  if m.typ = 9 ∧ p.length ≤ 5 then (s, []) else
  let s :=
    if m.typ = 8 ∧ s.audioPt = -1 then
      let id := audioCodecId p
      let rate (d : Nat) : Int := if s.audioSampleRate < 0 then d else s.audioSampleRate
      if id = Gen.rtmpSoundFormatG711U then { s with audioPt := Sdp.ptG711U, audioSampleRate := rate Gen.pcmDefaultSampleRate }
      else if id = Gen.rtmpSoundFormatG711A then { s with audioPt := Sdp.ptG711A, audioSampleRate := rate Gen.pcmDefaultSampleRate }
      else if id = Gen.rtmpSoundFormatOpus then { s with audioPt := Sdp.ptOpus, audioSampleRate := rate Gen.opusDefaultSampleRate }
      else s
    else s
  let avcSh := m.typ = 9 ∧ isAvcKeySeqHeader p
  let hevcSh := m.typ = 9 ∧ isHevcKeySeqHeader p
  let aacSh := m.typ = 8 ∧ isAacSeqHeader p
  if !s.analyzeDone then
    if avcSh then
      let s := match SeqHeader.avcParse p with
        | .ok (sp, pp) => { s with sps := CfgChain.nilIfEmpty sp, pps := CfgChain.nilIfEmpty pp }
        | .error _ => { s with sps := none, pps := none }
      doAnalyze c tool s
    else if hevcSh then
      let s := if isExt p then
          match SeqHeader.hevcParseEnhanced p with
          | .ok (v, sp, pp) => { s with vps := some v, sps := some sp, pps := some pp }
          | .error _ => { s with vps := none, sps := none, pps := none }
        else
          match SeqHeader.hevcParse p with
          | .ok (v, sp, pp) => { s with vps := CfgChain.nilIfEmpty v, sps := CfgChain.nilIfEmpty sp, pps := CfgChain.nilIfEmpty pp }
          | .error _ => { s with vps := none, sps := none, pps := none }
      doAnalyze c tool s
    else if aacSh then doAnalyze c tool { s with asc := some (p.drop 2) }
    else doAnalyze c tool { s with msgCache := s.msgCache ++ [m] }
  else if avcSh ∨ hevcSh ∨ aacSh then (s, [])
  else remux s m

def run (c : Sdp.Codec) (tool : Bytes) : St → List Msg → St × List Out
  | s, [] => (s, [])
  | s, m :: ms =>
    let (s1, o1) := feed c tool s m
    let (s2, o2) := run c tool s1 ms
    (s2, o1 ++ o2)

end Lal.RtspRmx
