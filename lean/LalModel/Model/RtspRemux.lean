import LalModel.Model.MsgClass
import LalModel.Model.SeqHeader
import LalModel.Model.Aac
import LalModel.Model.Sdp
import LalModel.Model.Rtp
import LalModel.Model.Amf0
import LalModel.Generated.Amf0Consts
import LalModel.Generated.C05Consts
/-
  Model of pkg/remux/rtmp2rtsp.go (`Rtmp2RtspRemuxer`): codec hints from metadata, the analysis stage (sequence
  headers, a cache of at most 16 messages, `sdp.Pack`), then RTP packing of every message (`remux`), as of the `fix:`
  commit of branch w-C05 (short enhanced-RTMP frame). `RtspRemuxerAddSpsPps2KeyFrameFlag` is `false` (its default).

  Reused models: Model/SeqHeader (sequence header parsers, `GoM`), Model/Aac, Model/Sdp (`sdp.Pack`, C19),
  Model/Rtp (payload packers and `RtpPacker`, C12), Model/Amf0 (`ParseMetadata`, C18).
  Random values (SSRC, first sequence number) are parameters: sequence numbers are relative to each packer's first.
-/
namespace Lal.RtspRemux
open Lal Lal.MsgClass

/-! ### float64 → integer conversions as the amd64 Go compiler performs them (CVTTSD2SQ / CVTTSD2SL) -/

/-- the value truncated toward zero; `none` for NaN / ±Inf -/
def f64Trunc (bits : Bytes) : Option Int :=
  match bits with
  | [b0, b1, b2, b3, b4, b5, b6, b7] =>
    let neg := b0.toNat / 128 = 1
    let e := b0.toNat % 128 * 16 + b1.toNat / 16
    let frac := b1.toNat % 16 * 281474976710656 + b2.toNat * 1099511627776 + b3.toNat * 4294967296
                + b4.toNat * 16777216 + b5.toNat * 65536 + b6.toNat * 256 + b7.toNat
    if e = 2047 then none
    else if e = 0 then some 0
    else
      let m := 4503599627370496 + frac
      let v : Nat := if e ≥ 1075 then m * 2 ^ (e - 1075) else m / 2 ^ (1075 - e)
      some (if neg then -(v : Int) else (v : Int))
  | _ => none

/-- `int(f)` -/
def f64ToInt (bits : Bytes) : Int :=
  match f64Trunc bits with
  | some t => if -9223372036854775808 ≤ t ∧ t < 9223372036854775808 then t else -9223372036854775808
  | none => -9223372036854775808

/-- `uint8(f)`: through a 32-bit conversion (out of range: 0x80000000, low byte 0) -/
def f64ToU8 (bits : Bytes) : Nat :=
  match f64Trunc bits with
  | some t => if -2147483648 ≤ t ∧ t < 2147483648 then (t % 256).toNat else 0
  | none => 0

/-- `ObjectPairArray.Find(key).(float64)` -/
def findNum (o : Amf0.Opa) (key : Bytes) : Option Bytes :=
  match o.find? (fun kv => kv.1 = key) with
  | some (_, .num bits) => some bits
  | _ => none

def kAudiocodecid : Bytes := Sdp.asc "audiocodecid"
def kAudiosamplerate : Bytes := Sdp.asc "audiosamplerate"

/-! ### state and events -/

/-- an `rtprtcp.RtpPacker`; `seq` counts from the packer's (random) first sequence number -/
structure Packer where
  kind : Rtp.Kind
  rate : Int
  seq : Nat := 0
deriving Repr, DecidableEq

structure St where
  analyzeDone : Bool := false
  msgCache : List Msg := []
  vps : Option Bytes := none
  sps : Option Bytes := none
  pps : Option Bytes := none
  asc : Option Bytes := none
  audioPt : Int := Sdp.ptUnknown
  videoPt : Int := Sdp.ptUnknown
  audioSampleRate : Int := -1
  audioPacker : Option Packer := none
  videoPacker : Option Packer := none
deriving Repr, DecidableEq

inductive Ev where
  | sdp (ctx : Sdp.LogicContext)
  | rtp (audio : Bool) (p : Rtp.RtpPacket)
deriving Repr, DecidableEq

/-- the environment: base64/hex and the tool string of `sdp.Pack` -/
structure Env where
  codec : Sdp.Codec
  tool : Bytes

def maxAnalyzeAvMsgSize : Nat := Gen.maxAnalyzeAvMsgSize
def maxPayloadSize : Nat := 1200

/-- `append([]byte(nil), s...)` -/
def nilIfEmpty (b : Bytes) : Option Bytes := if b.isEmpty then none else some b

/-- `uint32(float64(ts) * float64(clockRate) / 1000)`: truncation toward zero, then the low 32 bits of the 64-bit
    integer (amd64); exact for `ts * |rate| < 2^53`. A negative clock rate occurs: G.711 announced by the metadata
    leaves `audioSampleRate = -1`. -/
def rtpTs (ts : Nat) (rate : Int) : Nat :=
  if rate ≥ 0 then Rtp.rtpTimestamp ts rate.toNat
  else (4294967296 - ts * (-rate).toNat / 1000 % 4294967296) % 4294967296

/-- the unit loop of `RtpPackerPayloadAvcHevc.Pack`: drop AUDs, `PackNal` every other unit -/
def packAvccLoop (hevc : Bool) : List Bytes → GoM (List Bytes)
  | [] => .ok []
  | nal :: rest => do
    let h ← idx? "RtpPackerPayloadAvcHevc.Pack: nal[0]" nal 0
    let t := if hevc then h.toNat % 128 / 2 else h.toNat % 32
    if (hevc ∧ t = 35) ∨ (¬ hevc ∧ t = 9) then packAvccLoop hevc rest
    else
      let a ← Rtp.packNal hevc nal maxPayloadSize
      let b ← packAvccLoop hevc rest
      return a ++ b

/-- `RtpPackerPayloadAvcHevc.Pack` with `Typ = Avcc`: split (nothing on a split error), then the loop -/
def packAvcc (hevc : Bool) (inp : Bytes) : GoM (List Bytes) :=
  let (nals, err) := Nalu.splitNaluAvcc inp
  if err then .ok [] else packAvccLoop hevc nals

/-- the audio payload packers on a sub-slice of the message (`Payload[1:]` / `Payload[2:]`): such a slice is never `nil`,
    so an EMPTY one is packed too (the packers test `in == nil`, not `len(in) == 0`) -/
def audioPayloadPack (k : Rtp.Kind) (inp : Bytes) (maxSize : Nat) : List Bytes :=
  if maxSize = 0 then []
  else match k with
    | .aac => [[0, 16, b8 (inp.length / 32), b8 (inp.length % 32 * 8)] ++ inp]
    | _ => [inp]

/-- `RtpPacker.Pack(AvPacket{Timestamp, PayloadType, Payload})` -/
def packWith (p : Packer) (audio : Bool) (pt : Int) (ts : Nat) (payload : Bytes) : GoM (Packer × List Ev) := do
  let payloads ← (match p.kind with
    | .avc => packAvcc false payload
    | .hevc => packAvcc true payload
    | k => (.ok (audioPayloadPack k payload maxPayloadSize) : GoM (List Bytes)))
  let pkts := Rtp.packLoop (pt % 256).toNat (rtpTs ts p.rate) 0 p.seq payloads
  return ({ p with seq := (p.seq + payloads.length) % 65536 }, pkts.map (Ev.rtp audio))

/-- `getAudioPacker()` -/
def getAudioPacker (s : St) : St × Option Packer :=
  match s.audioPacker with
  | some p => (s, some p)
  | none =>
    let mk (p : Packer) : St × Option Packer := ({ s with audioPacker := some p }, some p)
    if s.audioPt = Sdp.ptG711A ∨ s.audioPt = Sdp.ptG711U then mk { kind := .pcm, rate := s.audioSampleRate }
    else if s.audioPt = Sdp.ptOpus then mk { kind := .opus, rate := s.audioSampleRate }
    else if s.audioPt = Sdp.ptAac then
      match s.asc with
      | none => (s, none)
      | some ascb =>
        match Aac.ascUnpack ascb with
        | .ok c => mk { kind := .aac, rate := match Aac.samplingFrequency c with | some f => (f : Int) | none => -1 }
        | .error _ => (s, none)
    else (s, none)

/-- `getVideoPacker()` -/
def getVideoPacker (s : St) : St × Option Packer :=
  if s.sps.isNone then (s, none) else
  match s.videoPacker with
  | some p => (s, some p)
  | none =>
    -- `if r.payloadType == AvPacketPtAvc {…} else {…}`: anything but AVC is packed with the HEVC headers
    let p : Packer := { kind := if s.videoPt = Sdp.ptAvc then .avc else .hevc, rate := 90000 }
    ({ s with videoPacker := some p }, some p)

/-- `remux(msg)` -/
def remux (s : St) (m : Msg) : GoM (St × List Ev) := do
  if m.typeId = tAudio then
    let (s, p?) := getAudioPacker s
    match p? with
    | none => return (s, [])
    | some p =>
      let c ← audioCodecId m
      let payload ← (if c = 7 ∨ c = 8 ∨ c = 13 then from? "remux: Payload[1:]" m.payload 1 else from? "remux: Payload[2:]" m.payload 2)
      let (p, evs) ← packWith p true s.audioPt m.ts payload
      return ({ s with audioPacker := some p }, evs)
  else if m.typeId = tVideo then
    let (s, p?) := getVideoPacker s
    match p? with
    | none => return (s, [])
    | some p =>
      let payload ← (do
        if (← videoCodecId m) = 12 ∧ (← isEnchanedHevcNalu m) then
          let index ← getEnchanedHevcNaluIndex m
          if m.payload.length < index then return none
          return some (← from? "remux: Payload[index:]" m.payload index)
        else return some (← from? "remux: Payload[5:]" m.payload 5) : GoM (Option Bytes))
      match payload with
      | none => return (s, [])
      | some payload =>
        let (p, evs) ← packWith p false s.videoPt m.ts payload
        return ({ s with videoPacker := some p }, evs)
  else return (s, [])

def remuxAll : St → List Msg → GoM (St × List Ev)
  | s, [] => .ok (s, [])
  | s, m :: rest => do
    let (s, e1) ← remux s m
    let (s, e2) ← remuxAll s rest
    return (s, e1 ++ e2)

/-- `isAnalyzeEnough()` -/
def isAnalyzeEnough (s : St) : Bool :=
  (s.sps.isSome && s.pps.isSome && (s.asc.isSome || s.audioPt ≠ Sdp.ptUnknown)) || s.msgCache.length ≥ maxAnalyzeAvMsgSize

/-- `doAnalyze()`, the AAC part: the sampling rate comes from the AudioSpecificConfig; an unusable one is dropped
    (`.inr`: "invalid asc", the function returns and the analysis goes on with the next message) -/
def analyzeAsc (s : St) : St ⊕ St :=
  match s.asc with
  | none => .inl s
  | some ascb =>
    let s := { s with audioPt := Sdp.ptAac }
    match Aac.ascUnpack ascb with
    | .error _ => .inr { s with asc := none }
    | .ok c =>
      match Aac.samplingFrequency c with
      | none => .inr { s with asc := none, audioSampleRate := -1 }
      | some f => .inl { s with audioSampleRate := f }

/-- `doAnalyze()`, the end: `sdp.Pack`, `onSdp`, the cached messages, `analyzeDone` -/
def finishAnalyze (env : Env) (s : St) : GoM (St × List Ev) :=
  let ctx := (Sdp.pack env.codec env.tool
    { videoPt := s.videoPt, vps := s.vps, sps := s.sps, pps := s.pps }
    { audioPt := s.audioPt, samplingFrequency := s.audioSampleRate, asc := s.asc }).getD {}
  match remuxAll s s.msgCache with
  | .error e => .error e
  | .ok r => .ok ({ r.1 with msgCache := [], analyzeDone := true }, Ev.sdp ctx :: r.2)

/-- `doAnalyze()` -/
def doAnalyze (env : Env) (s : St) : GoM (St × List Ev) :=
  if ¬ isAnalyzeEnough s then .ok (s, [])
  else
    let s1 := if s.sps.isSome ∧ s.pps.isSome then { s with videoPt := if s.vps.isSome then Sdp.ptHevc else Sdp.ptAvc } else s
    match analyzeAsc s1 with
    | .inr s2 => .ok (s2, [])
    | .inl s2 => finishAnalyze env s2

/-- `FeedRtmpMsg`, metadata: codec hints -/
def feedMeta (s : St) (m : Msg) : GoM (St × List Ev) :=
  match Amf0.parseMetadata Gen.amf0MaxDepth (Gen.amf0MaxDepth - 1) m.payload with
  | .error (.panic e) => .error (.panic e)
  | .error .err => .ok (s, [])
  | .ok md =>
    let s := match findNum md kAudiocodecid with
      | some bits =>
        let c := f64ToU8 bits
        if c = 8 then { s with audioPt := Sdp.ptG711U } else if c = 7 then { s with audioPt := Sdp.ptG711A }
        else if c = 13 then { s with audioPt := Sdp.ptOpus } else s
      | none => s
    let s := match findNum md kAudiosamplerate with
      | some bits => { s with audioSampleRate := f64ToInt bits }
      | none => s
    .ok (s, [])

/-- G.711 / Opus are recognised from the first audio message (no sequence header exists for them) -/
def audioDefault (s : St) (c : Nat) : St :=
  let dflt (pt : Int) (r : Int) : St :=
    { s with audioPt := pt, audioSampleRate := if s.audioSampleRate < 0 then r else s.audioSampleRate }
  if c = 8 then dflt Sdp.ptG711U Gen.pcmDefaultSampleRate else if c = 7 then dflt Sdp.ptG711A Gen.pcmDefaultSampleRate
  else if c = 13 then dflt Sdp.ptOpus Gen.opusDefaultSampleRate else s

/-- `FeedRtmpMsg`, the length checks: `none` = "rtmp msg too short, ignore" -/
def gate (s : St) (m : Msg) : GoM (Option St) := do
  if m.typeId = tAudio then
    -- the AAC header has two bytes, the other formats (G.711, Opus) one
    if m.payload.length ≤ 1 then return none
    if m.payload.length = 2 ∧ (← audioCodecId m) = 10 then return none
    if s.audioPt = Sdp.ptUnknown then return some (audioDefault s (← audioCodecId m))
    return some s
  else if m.typeId = tVideo then
    if m.payload.length ≤ 5 then return none
    return some s
  else return some s

/-- the result of a sequence-header parser stored into the remuxer: `nil` on error -/
def storeAvc (s : St) (r : GoM (Bytes × Bytes)) : GoM St :=
  match r with
  | .ok (sp, pp) => .ok { s with sps := nilIfEmpty sp, pps := nilIfEmpty pp }
  | .error .err => .ok { s with sps := none, pps := none }
  | .error e => .error e

/-- the enhanced parser returns sub-slices of the payload (never nil), the classic one copies (`append(nil, …)`) -/
def storeHevc (s : St) (enh : Bool) (r : GoM (Bytes × Bytes × Bytes)) : GoM St :=
  let keep (b : Bytes) : Option Bytes := if enh then some b else nilIfEmpty b
  match r with
  | .ok (v, sp, pp) => .ok { s with vps := keep v, sps := keep sp, pps := keep pp }
  | .error .err => .ok { s with vps := none, sps := none, pps := none }
  | .error e => .error e

/-- `FeedRtmpMsg`, the analysis stage -/
def analyze (env : Env) (s : St) (m : Msg) : GoM (St × List Ev) := do
  if ← isAvcKeySeqHeader m then
    doAnalyze env (← storeAvc s (SeqHeader.avcParse m.payload))
  else if ← isHevcKeySeqHeader m then
    let enh ← isEnhanced m
    doAnalyze env (← storeHevc s enh (if enh then SeqHeader.hevcParseEnhanced m.payload else SeqHeader.hevcParse m.payload))
  else if ← isAacSeqHeader m then
    doAnalyze env { s with asc := some (← from? "FeedRtmpMsg: Payload[2:]" m.payload 2) }
  else doAnalyze env { s with msgCache := s.msgCache ++ [m] }

/-- `FeedRtmpMsg(msg)` -/
def feed (env : Env) (s : St) (m : Msg) : GoM (St × List Ev) := do
  if m.typeId = tMeta then feedMeta s m
  else
    match ← gate s m with
    | none => return (s, [])
    | some s1 =>
      if ¬ s1.analyzeDone then analyze env s1 m
      else if (← isAvcKeySeqHeader m) ∨ (← isHevcKeySeqHeader m) ∨ (← isAacSeqHeader m) then return (s1, [])
      else remux s1 m

def feedAll (env : Env) : St → List Msg → GoM (St × List Ev)
  | s, [] => .ok (s, [])
  | s, m :: rest => do
    let (s, e1) ← feed env s m
    let (s, e2) ← feedAll env s rest
    return (s, e1 ++ e2)

end Lal.RtspRemux
