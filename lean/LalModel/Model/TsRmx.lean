import LalModel.Model.Ts
import LalModel.Model.Psi
import LalModel.Model.Nalu
import LalModel.Model.SeqHeader
import LalModel.Model.Aac
import LalModel.Generated.C06Consts
import LalModel.Generated.C19Consts
/-
  Functional model of `remux.Rtmp2MpegtsRemuxer` (pkg/remux/rtmp2mpegts.go), its probe filter
  `rtmp2MpegtsFilter` (rtmp2mpegts_filter_.go) and `Rtmp2MpegtsTimestampFilter`
  (rtmp2mpegts_filter__timestamp.go), on top of `Ts.pack` (mpegts.Frame.Pack) and `Psi.packPat/packPmt`.

  One `feed` = one `FeedRtmpMessage` call; the result is the new remuxer state and the observer calls it
  made, in order (`OnPatPmt(b)` / `OnTsPackets(packets, frame, boundary)`).

  This is the FUNCTIONAL model: message payloads are long enough for the bytes `base.RtmpMsg`'s helpers index
  (the remuxer's own guards `len <= 5` / `len <= 2` are modelled; the unguarded `Payload[0]` of the probe filter
  on an empty payload belongs to C05's fault-aware model). `Header.MsgLen = len(Payload)`.

  The observer may call back into the remuxer: lal's HLS muxer calls `FlushAudio` from inside `OnTsPackets`
  when it opens a new segment (Group.OnFragmentOpen). The model is therefore parametrised by an `Observer`:
  a state machine whose `enter` says whether `FlushAudio()` is called at that point of `OnTsPackets`, and whose
  `leave` is the rest of the callback. `hookObs true` is the observer that calls `FlushAudio` at the beginning of
  every `OnTsPackets` whose `boundary` is true, `hookObs false` the one that never does;
  Model/HlsConcat.lean has the observer that is lal's HLS muxer.
-/
namespace Lal.TsRmx
open Lal

/-- `base.RtmpMsg` as the remuxer reads it: `Header.MsgTypeId`, `Header.TimestampAbs` (uint32), `Payload`. -/
structure Msg where
  typ     : Nat
  ts      : Nat
  payload : Bytes
deriving Repr, DecidableEq

/-- `msg.Payload[i]` (256 = not there) -/
def pb (p : Bytes) (i : Nat) : Nat := (p[i]?.map (·.toNat)).getD 256

def isExt (p : Bytes) : Bool := pb p 0 / 128 % 2 == 1 && pb p 0 < 256
def isHvc1 (p : Bytes) : Bool := pb p 1 == 0x68 && pb p 2 == 0x76 && pb p 3 == 0x63 && pb p 4 == 0x31

/-- `RtmpMsg.VideoCodecId` -/
def videoCodecId (p : Bytes) : Nat :=
  if !isExt p then pb p 0 % 16
  else if isHvc1 p then Gen.rtmpCodecIdHevc else Gen.rtmpCodecIdAvc

/-- `RtmpMsg.AudioCodecId` -/
def audioCodecId (p : Bytes) : Nat := pb p 0 / 16

/-- `IsAvcKeySeqHeader` (the type id is checked by the caller) -/
def isAvcKeySeqHeader (p : Bytes) : Bool := pb p 0 == 0x17 && pb p 1 == 0
/-- `IsHevcKeySeqHeader` -/
def isHevcKeySeqHeader (p : Bytes) : Bool :=
  if isExt p then isHvc1 p && pb p 0 % 16 == 0 else pb p 0 == 0x1c && pb p 1 == 0
/-- `IsAvcKeyNalu || IsHevcKeyNalu` -/
def isVideoKeyNalu (p : Bytes) : Bool :=
  (pb p 0 == 0x17 && pb p 1 == 1) ||
  (if isExt p then pb p 0 / 16 % 8 == 1 && pb p 0 % 16 != 0 else pb p 0 == 0x1c && pb p 1 == 1)
/-- `IsEnchanedHevcNalu`: extended header with packet type CodedFrames (1) or CodedFramesX (3) -/
def isEnhancedNalu (p : Bytes) : Bool := isExt p && (pb p 0 % 16 == 1 || pb p 0 % 16 == 3)
/-- `GetEnchanedHevcNaluIndex` when `IsEnchanedHevcNalu` -/
def enhancedNaluIndex (p : Bytes) : Nat := if pb p 0 % 16 == 1 then 8 else 5
/-- `RtmpMsg.Cts` of a video message: 24-bit big endian at offset 2 (classic) / 5 (CodedFrames) / 0 -/
def cts (p : Bytes) : Nat :=
  let at_ (i : Nat) := pb p i % 256 * 65536 + pb p (i + 1) % 256 * 256 + pb p (i + 2) % 256
  if isExt p then (if pb p 0 % 16 == 1 then at_ 5 else 0) else at_ 2

/-- The remuxer (and its two filters). `spspps = none` is Go's nil slice. -/
structure St where
  -- rtmp2MpegtsFilter
  done         : Bool := false
  queue        : List Msg := []
  audioId      : Int := -1
  videoId      : Int := -1
  -- Rtmp2MpegtsRemuxer
  spspps       : Option Bytes := none
  asc          : Option Aac.AscContext := none
  audioCc      : Nat := 0
  videoCc      : Nat := 0
  cache        : Bytes := []       -- audioCacheFrames
  cacheFirst   : Nat := 0          -- audioCacheFirstFramePts
  opened       : Bool := false
  -- Rtmp2MpegtsTimestampFilter (none = math.MaxUint64, "not set")
  baseA        : Option Nat := none
  baseV        : Option Nat := none
deriving Repr, DecidableEq

/-- One `OnTsPackets` call. `frame` is the `mpegts.Frame` as `onFrame` hands it to `Pack()` (timestamps re-based, `Cc`
    not yet advanced); what the observer receives follows from it: the packets `frame.Pack()` returns and `frame.Cc`
    afterwards. -/
structure Item where
  frame    : Ts.Frame
  boundary : Bool
deriving Repr, DecidableEq

def Item.packets (i : Item) : List Bytes := (Ts.pack i.frame).1
/-- `frame.Cc` as the observer sees it -/
def Item.cc (i : Item) : Nat := (Ts.pack i.frame).2
def Item.sid (i : Item) : Nat := i.frame.sid
def Item.key (i : Item) : Bool := i.frame.key
def Item.dts (i : Item) : Nat := i.frame.dts
def Item.pts (i : Item) : Nat := i.frame.pts

/-- an observer call -/
inductive Out where
  | patpmt (b : Bytes)
  | ts (i : Item)
deriving Repr, DecidableEq

/-- What the remuxer's observer does inside `OnTsPackets`, as far as the remuxer can notice it. -/
structure Observer (σ : Type) where
  /-- the callback's local variables that live across a `FlushAudio()` it makes -/
  τ : Type
  /-- `OnPatPmt` -/
  patpmt : σ → Bytes → σ
  /-- first part of `OnTsPackets`; `true`: the observer calls `FlushAudio()` at the end of it -/
  enter1 : σ → Item → σ × τ × Bool
  /-- second part; `true`: the observer calls `FlushAudio()` (again) at the end of it -/
  enter2 : σ → τ → Item → σ × Bool
  /-- the rest of the callback -/
  leave : σ → Item → σ

/-- the whole callback when no `FlushAudio()` it makes has any effect -/
def Observer.whole {σ : Type} (obs : Observer σ) (o : σ) (i : Item) : σ :=
  let r := obs.enter1 o i
  obs.leave (obs.enter2 r.1 r.2.1 i).1 i

/-- the observer of the c06.ts ops: `FlushAudio()` on entry when `hook` and `boundary` -/
def hookObs (hook : Bool) : Observer Unit :=
  { τ := Unit, patpmt := fun _ _ => (), enter1 := fun _ i => ((), (), hook && i.boundary), enter2 := fun _ _ _ => ((), false),
    leave := fun _ _ => () }

/-- `Rtmp2MpegtsTimestampFilter.Do` for one track: the new base and the re-based DTS. A DTS below the base is left
    as it is (S22). -/
def rebase (base : Option Nat) (dts : Nat) : Nat × Nat :=
  let b := base.getD dts
  (b, if dts < b then dts else dts - b)

section
variable {σ : Type} (obs : Observer σ)

/-- `FlushAudio` when the cache is not empty: one audio frame stamped with the first cached frame's time.
    (A `FlushAudio()` from inside this callback finds the cache already reset and does nothing.) -/
def audioFrame (s : St) (o : σ) : St × σ × Out :=
  let (b, dts) := rebase s.baseA s.cacheFirst
  let boundary := (s.spspps.getD []).isEmpty   -- !videoSeqHeaderCached()
  let f : Ts.Frame := { pts := dts, dts := dts, cc := s.audioCc, pid := Gen.tsPidAudio, sid := Gen.tsStreamIdAudio,
                        key := false, raw := s.cache }
  let it : Item := { frame := f, boundary := boundary }
  ({ s with cache := [], baseA := some b, opened := s.opened || boundary, audioCc := it.cc },
   obs.whole o it, .ts it)

/-- `Rtmp2MpegtsRemuxer.FlushAudio` -/
def flushAudio (s : St) (o : σ) : St × σ × List Out :=
  if s.cache.isEmpty then (s, o, []) else let (s', o', out) := audioFrame obs s o; (s', o', [out])
end

/-- `avc.ParseNaluType` / `hevc.ParseNaluType` -/
def avcNalType (h : UInt8) : Nat := h.toNat % 32
def hevcNalType (h : UInt8) : Nat := h.toNat % 128 / 2
/-- `hevc.IsIrapNalu` -/
def hevcIsIrap (t : Nat) : Bool := Gen.hevcNaluTypeSliceBlaWlp ≤ t && t ≤ Gen.hevcNaluTypeSliceRsvIrapVcl23

/-- state of the NAL loop of `feedVideo` -/
structure Loop where
  out        : Bytes := []
  audSent    : Bool := false
  spsppsSent : Bool := false
  vps        : Bytes := []
  sps        : Bytes := []
  pps        : Bytes := []
  spspps     : Option Bytes
deriving Repr

def sc4 : Bytes := Gen.naluStartCode4
def sc3 : Bytes := Gen.naluStartCode3

/-- what the loop does with a NAL unit that is neither filtered nor a parameter set: AUD first, the cached parameter
    sets before a key picture, start code, the unit. `none` = `appendSpsPps` failed (nothing cached): the whole message
    is dropped. `keyPic`: IDR slice / IRAP; `resets`: the unit clears `spsppsSent` (H.264 type 1; H.265 any non-IRAP). -/
def emitNal (hevc : Bool) (l : Loop) (nal : Bytes) (keyPic resets : Bool) : Option Loop :=
  let l1 := if l.audSent then l else { l with out := l.out ++ (if hevc then Gen.hevcAudNalu else Gen.avcAudNalu), audSent := true }
  let l2 : Option Loop :=
    if keyPic then
      if !l1.spsppsSent then
        match l1.spspps with
        | none => none
        | some ps => some { l1 with out := l1.out ++ ps, spsppsSent := true }
      else some l1
    else if resets then some { l1 with spsppsSent := false }
    else some l1
  l2.map fun l => { l with out := l.out ++ (if l.out.isEmpty then sc4 else sc3) ++ nal }

/-- one iteration of `for _, nal := range nals`. In-band parameter sets stay where the publisher put them (they are
    written like any other unit, without touching `spsppsSent`) and refresh the cache when the group is complete, in
    which case the key picture that follows in this message gets no second copy. -/
def stepNal (hevc : Bool) (l : Loop) (nal : Bytes) : Option Loop :=
  let h := nal.headD 0
  if !hevc then
    let t := avcNalType h
    if t = Gen.avcNaluTypeAud then some l
    else if t = Gen.avcNaluTypeSps then emitNal false { l with sps := nal } nal false false
    else if t = Gen.avcNaluTypePps then
      if !l.sps.isEmpty && !nal.isEmpty then
        emitNal false { l with pps := nal, spspps := some (sc4 ++ l.sps ++ sc4 ++ nal), spsppsSent := true } nal false false
      else emitNal false { l with pps := nal } nal false false
    else emitNal false l nal (t = Gen.avcNaluTypeIdrSlice) (t = Gen.avcNaluTypeSlice)
  else
    let t := hevcNalType h
    if t = Gen.hevcNaluTypeSei ∨ t = Gen.hevcNaluTypeSeiSuffix then some l
    else if t = Gen.hevcNaluTypeAud then some l
    else if t = Gen.hevcNaluTypeVps then emitNal true { l with vps := nal } nal false false
    else if t = Gen.hevcNaluTypeSps then emitNal true { l with sps := nal } nal false false
    else if t = Gen.hevcNaluTypePps then
      if !l.vps.isEmpty && !l.sps.isEmpty && !nal.isEmpty then
        emitNal true { l with pps := nal, spspps := some (sc4 ++ l.vps ++ sc4 ++ l.sps ++ sc4 ++ nal), spsppsSent := true } nal false false
      else emitNal true { l with pps := nal } nal false false
    else emitNal true l nal (hevcIsIrap t) (!hevcIsIrap t)

def nalLoop (hevc : Bool) : Loop → List Bytes → Option Loop
  | l, [] => some l
  | l, n :: ns =>
    match stepNal hevc l n with
    | none => none
    | some l' => nalLoop hevc l' ns

def goErr {α} (r : GoM α) : Option α := match r with | .ok a => some a | .error _ => none

/-- what `feedVideo` makes of a message, before anything is emitted -/
inductive VRes where
  /-- the message is ignored (too short, another codec, broken AVCC framing, key picture without any parameter sets) -/
  | ignore
  /-- `s.spspps` is replaced; nothing to send (a sequence header, or a message all of whose units are filtered) -/
  | cache (spspps : Option Bytes)
  /-- an access unit: the new `s.spspps`, the Annex B bytes, `frame.Key`, `frame.Cts` -/
  | frame (spspps : Option Bytes) (raw : Bytes) (key : Bool) (cts : Nat)
deriving Repr, DecidableEq

/-- the first part of `feedVideo`: classification of the message, parameter-set cache, the NAL loop -/
def videoAu (spspps : Option Bytes) (m : Msg) : VRes :=
  let p := m.payload
  if p.length ≤ 5 then .ignore else
  let codec := videoCodecId p
  if codec ≠ Gen.rtmpCodecIdAvc ∧ codec ≠ Gen.rtmpCodecIdHevc then .ignore else
  if isAvcKeySeqHeader p then .cache (goErr (SeqHeader.avcSeqHeader2Annexb p))
  else if isHevcKeySeqHeader p then
    .cache (goErr (if isExt p then SeqHeader.hevcEnhancedSeqHeader2Annexb p else SeqHeader.hevcSeqHeader2Annexb p))
  else
  let hevc := codec = Gen.rtmpCodecIdHevc
  let off := if hevc && isEnhancedNalu p then enhancedNaluIndex p else 5
  let r := Nalu.splitNaluAvcc (p.drop off)
  if r.2 then .ignore else
  match nalLoop hevc { spspps := spspps } r.1 with
  | none =>
    -- `return` in the middle of the loop: parameter sets seen so far in this message stay cached. The only way to
    -- get here is `s.spspps == nil`, and the loop assigns `s.spspps` only a non-nil value, so nothing changed.
    .ignore
  | some l => if l.out.isEmpty then .cache l.spspps else .frame l.spspps l.out (isVideoKeyNalu p) (cts p)

/-- what `feedAudio` makes of a message -/
inductive ARes where
  | ignore
  /-- `s.ascCtx` is replaced -/
  | config (asc : Option Aac.AscContext)
  /-- an AAC frame behind its ADTS header: appended to the cache -/
  | aac (entry : Bytes)
  /-- an Opus packet: sent at once -/
  | opus (pkt : Bytes)
deriving Repr, DecidableEq

section
variable {σ : Type} (obs : Observer σ)

/-- the second part of `feedVideo` (`onFrame` included): audio that has waited too long goes first, then the frame -/
def videoFrame (s : St) (o : σ) (ts : Nat) (raw : Bytes) (key : Bool) (c : Nat) : St × σ × List Out :=
  let dts0 := ts * 90
  let r0 := if !s.cache.isEmpty ∧ s.cacheFirst + Gen.maxAudioCacheDelayByVideo < dts0 then flushAudio obs s o else (s, o, [])
  let s := r0.1
  -- onFrame
  let rb := rebase s.baseV dts0
  let dts := rb.2
  let pts := dts + 90 * c
  let boundary := key && (s.asc.isNone || !s.opened || !s.cache.isEmpty)
  let f : Ts.Frame := { pts := pts, dts := dts, cc := s.videoCc, pid := Gen.tsPidVideo, sid := Gen.tsStreamIdVideo,
                        key := key, raw := raw }
  let s := { s with baseV := some rb.1, opened := s.opened || boundary }
  let it : Item := { frame := f, boundary := boundary }
  let e1 := obs.enter1 r0.2.1 it
  let r1 := if e1.2.2 then flushAudio obs s e1.1 else (s, e1.1, [])
  let e2 := obs.enter2 r1.2.1 e1.2.1 it
  let r2 := if e2.2 then flushAudio obs r1.1 e2.1 else (r1.1, e2.1, [])
  ({ r2.1 with videoCc := it.cc }, obs.leave r2.2.1 it, r0.2.2 ++ r1.2.2 ++ r2.2.2 ++ [.ts it])

/-- `feedVideo` -/
def feedVideo (s : St) (o : σ) (m : Msg) : St × σ × List Out :=
  match videoAu s.spspps m with
  | .ignore => (s, o, [])
  | .cache ps => ({ s with spspps := ps }, o, [])
  | .frame ps raw key c => videoFrame obs { s with spspps := ps } o m.ts raw key c

/-- `feedAudio` without the cache: what the message contributes -/
def audioAu (asc : Option Aac.AscContext) (m : Msg) : ARes :=
  let p := m.payload
  let aac := audioCodecId p = Gen.rtmpSoundFormatAac
  -- `onPop`: only AAC and Opus reach `feedAudio`
  if ¬ aac ∧ audioCodecId p ≠ Gen.rtmpSoundFormatOpus then .ignore
  -- the AAC tag header has two bytes, the others (Opus) one
  else if p.length ≤ 1 ∨ (p.length = 2 ∧ aac) then .ignore
  else if aac ∧ pb p 1 = 0 then .config (goErr (Aac.ascUnpack (p.drop 2)))
  else if aac then
    match asc with
    | none => .ignore
    | some c => .aac (Aac.packAdtsHeader c (p.length - 2) ++ p.drop 2)     -- `msg.Header.MsgLen - 2`
  else .opus (p.drop 1)

/-- `feedAudio` (with the codec check of `onPop`) -/
def feedAudio (s : St) (o : σ) (m : Msg) : St × σ × List Out :=
  match audioAu s.asc m with
  | .ignore => (s, o, [])
  | .config a => ({ s with asc := a }, o, [])
  | .aac entry =>
    let pts := m.ts * 90
    -- `len(cache) + AdtsHeaderLength + len(payload) - 2` is `len(cache) + len(entry)`
    let r := if !s.cache.isEmpty ∧ (s.cacheFirst + Gen.maxAudioCacheDelayByAudio < pts ∨ pts < s.cacheFirst
                                    ∨ s.cache.length + entry.length > Gen.maxAudioCacheSize)
             then flushAudio obs s o else (s, o, [])
    let s := r.1
    let s := if s.cache.isEmpty then { s with cacheFirst := pts } else s
    ({ s with cache := s.cache ++ entry }, r.2.1, r.2.2)
  | .opus pkt => flushAudio obs { s with cacheFirst := m.ts * 90, cache := s.cache ++ pkt } o

/-- `onPop` -/
def onPop (s : St) (o : σ) (m : Msg) : St × σ × List Out :=
  if m.typ = 8 then feedAudio obs s o m
  else if m.typ = 9 then feedVideo obs s o m
  else (s, o, [])

def popAll : St → σ → List Msg → St × σ × List Out
  | s, o, [] => (s, o, [])
  | s, o, m :: ms =>
    let (s1, o1, out1) := onPop obs s o m
    let (s2, o2, out2) := popAll s1 o1 ms
    (s2, o2, out1 ++ out2)

/-- `rtmp2MpegtsFilter.drain` (`OnPatPmt` is not an `OnTsPackets`: the observer state does not move) -/
def drain (s : St) (o : σ) : St × σ × List Out :=
  let patpmt := Psi.packPat ++ Psi.packPmt s.videoId s.audioId
  let (s', o', out) := popAll obs { s with queue := [], done := true } (obs.patpmt o patpmt) s.queue
  (s', o', .patpmt patpmt :: out)

/-- `FeedRtmpMessage` = `rtmp2MpegtsFilter.Push` -/
def feed (s : St) (o : σ) (m : Msg) : St × σ × List Out :=
  if s.done then onPop obs s o m else
  let s := { s with queue := s.queue ++ [m] }
  let s := if m.typ = 8 then { s with audioId := (audioCodecId m.payload : Nat) }
           else if m.typ = 9 then { s with videoId := (videoCodecId m.payload : Nat) } else s
  if s.videoId ≠ -1 ∧ s.audioId ≠ -1 then drain obs s o
  else if s.queue.length ≥ Gen.calcFragmentHeaderQueueSize then drain obs s o
  else (s, o, [])
end

/-! ### The NAL loop before the `fix:` commit 1ebd3ee (pinned tree), kept as a record of the defect -/
namespace PreFix

/-- in-band parameter sets are taken out of the access unit (`continue`); only a complete group refreshes the cache, and
    the cache is written only in front of an IDR / IRAP picture -/
def stepNal (hevc : Bool) (l : Loop) (nal : Bytes) : Option Loop :=
  let h := nal.headD 0
  if !hevc then
    let t := avcNalType h
    if t = Gen.avcNaluTypeAud then some l
    else if t = Gen.avcNaluTypeSps then some { l with sps := nal }
    else if t = Gen.avcNaluTypePps then
      if !l.sps.isEmpty && !nal.isEmpty then some { l with pps := nal, spspps := some (sc4 ++ l.sps ++ sc4 ++ nal) }
      else some { l with pps := nal }
    else emitNal false l nal (t = Gen.avcNaluTypeIdrSlice) (t = Gen.avcNaluTypeSlice)
  else
    let t := hevcNalType h
    if t = Gen.hevcNaluTypeSei ∨ t = Gen.hevcNaluTypeSeiSuffix then some l
    else if t = Gen.hevcNaluTypeAud then some l
    else if t = Gen.hevcNaluTypeVps then some { l with vps := nal }
    else if t = Gen.hevcNaluTypeSps then some { l with sps := nal }
    else if t = Gen.hevcNaluTypePps then
      if !l.vps.isEmpty && !l.sps.isEmpty && !nal.isEmpty then
        some { l with pps := nal, spspps := some (sc4 ++ l.vps ++ sc4 ++ l.sps ++ sc4 ++ nal) }
      else some { l with pps := nal }
    else emitNal true l nal (hevcIsIrap t) (!hevcIsIrap t)

def nalLoop (hevc : Bool) : Loop → List Bytes → Option Loop
  | l, [] => some l
  | l, n :: ns =>
    match stepNal hevc l n with
    | none => none
    | some l' => nalLoop hevc l' ns

end PreFix

/-- a scenario step: a message, or an explicit `FlushAudio()` / `Dispose()` call from outside -/
inductive Ev where
  | msg (m : Msg)
  | flush
deriving Repr, DecidableEq

section
variable {σ : Type} (obs : Observer σ)

def step (s : St) (o : σ) : Ev → St × σ × List Out
  | .msg m => feed obs s o m
  | .flush => flushAudio obs s o

def run : St → σ → List Ev → St × σ × List Out
  | s, o, [] => (s, o, [])
  | s, o, e :: es =>
    let (s1, o1, out1) := step obs s o e
    let (s2, o2, out2) := run s1 o1 es
    (s2, o2, out1 ++ out2)
end

end Lal.TsRmx
