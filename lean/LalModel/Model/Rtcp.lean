import LalModel.Model.Bytes
import LalModel.Model.Go
import LalModel.Model.Seq16
/-
  Model of pkg/rtprtcp rtcp.go (ParseRtcpHeader, ParseSr, Sr.GetMiddleNtp), rtcp_pack.go (Rr.Pack) and
  rtcp_rr_producer.go (RrProducer.FeedRtpPacket / Produce). `uint32` arithmetic is written `% 2^32`.
  ParseRtcpHeader / ParseSr index fixed offsets: on a short buffer they panic (their documented
  precondition is `len(b) >= RtcpHeaderLength` / `RtcpSrMinLength`, which `handleRtcpPacket` checks).
-/
namespace Lal.Rtcp
open Lal

def u32 : Nat := 4294967296

structure RtcpHeader where
  version : Nat
  padding : Nat
  count   : Nat
  pt      : Nat
  length  : Nat
deriving Repr, DecidableEq

/-- `ParseRtcpHeader` : `b[0]`, `b[1]`, `bele.BeUint16(b[2:])` -/
def parseRtcpHeader (b : Bytes) : GoM RtcpHeader := do
  let b0 ← idx? "ParseRtcpHeader b[0]" b 0
  let b1 ← idx? "ParseRtcpHeader b[1]" b 1
  let r ← from? "ParseRtcpHeader b[2:]" b 2
  let l0 ← idx? "BeUint16 [0]" r 0
  let l1 ← idx? "BeUint16 [1]" r 1
  return { version := b0.toNat / 64, padding := b0.toNat / 32 % 2, count := b0.toNat % 32, pt := b1.toNat,
           length := rd16 l0 l1 }

structure Sr where
  ssrc : Nat
  msw  : Nat
  lsw  : Nat
  ts   : Nat
  pktCnt : Nat
  octCnt : Nat
deriving Repr, DecidableEq

/-- `bele.BeUint32(b[off:])` -/
def be32At (site : String) (b : Bytes) (off : Nat) : GoM Nat := do
  let r ← from? site b off
  let a ← idx? site r 0
  let c ← idx? site r 1
  let d ← idx? site r 2
  let e ← idx? site r 3
  return rd32 a c d e

/-- `ParseSr` -/
def parseSr (b : Bytes) : GoM Sr := do
  let a ← be32At "ParseSr b[4:]" b 4
  let c ← be32At "ParseSr b[8:]" b 8
  let d ← be32At "ParseSr b[12:]" b 12
  let e ← be32At "ParseSr b[16:]" b 16
  let f ← be32At "ParseSr b[20:]" b 20
  let g ← be32At "ParseSr b[24:]" b 24
  return { ssrc := a, msw := c, lsw := d, ts := e, pktCnt := f, octCnt := g }

/-- `Sr.GetMiddleNtp` : `uint32(((uint64(Msw)<<32 | uint64(Lsw)) << 16) >> 32)` -/
def Sr.middleNtp (s : Sr) : Nat := s.msw % 65536 * 65536 + s.lsw / 65536

/-- `RrProducer` (the sender/media ssrc fields are never set: 0) -/
structure RrProducer where
  baseSeq : Option Nat := none      -- `-1` = none
  maxSeq  : Option Nat := none
  cycles  : Nat := 0
  received : Nat := 0
  extendedSeq : Nat := 0
  expectedPrior : Nat := 0
  receivedPrior : Nat := 0
deriving Repr, DecidableEq

/-- `RrProducer.FeedRtpPacket` -/
def RrProducer.feed (r : RrProducer) (seq : Nat) : RrProducer :=
  let received := (r.received + 1) % u32
  let baseSeq := match r.baseSeq with | none => some seq | some x => some x
  let (maxSeq, cycles) := match r.maxSeq with
    | none => (seq, r.cycles)
    | some m =>
      if Seq16.compareSeq seq m > 0 then (seq, if seq < m then (r.cycles + 1) % u32 else r.cycles) else (m, r.cycles)
  { r with received := received, baseSeq := baseSeq, maxSeq := some maxSeq, cycles := cycles,
           extendedSeq := cycles * 65536 % u32 + maxSeq }

/-- `Rr.Pack` (`BePutUint32(b[18:], extendedSeq)` is then half overwritten by the jitter written at 20) -/
def rrPack (fraction lost cycles extendedSeq lsr : Nat) : Bytes :=
  [129, 201, 0, 7] ++ be32 0 ++ be32 0 ++ [b8 fraction] ++ be24 (lost / 256) ++ be16 (cycles % 65536)
    ++ [b8 (extendedSeq / 16777216), b8 (extendedSeq / 65536)] ++ be32 0 ++ be32 lsr ++ be32 0

/-- `RrProducer.Produce` : the packet (`nil` before the first RTP packet) and the producer afterwards -/
def RrProducer.produce (r : RrProducer) (lsr : Nat) : Option Bytes × RrProducer :=
  match r.baseSeq with
  | none => (none, r)
  | some base =>
    let expected := (r.extendedSeq + u32 - base + 1) % u32
    let lost := if expected < r.received then 0 else expected - r.received
    let expectedInterval := (expected + u32 - r.expectedPrior) % u32
    let receivedInterval := (r.received + u32 - r.receivedPrior) % u32
    let lostInterval := (expectedInterval + u32 - receivedInterval) % u32
    let fraction := if expectedInterval = 0 ∨ lostInterval = 0 then 0
                    else lostInterval * 256 % u32 / expectedInterval % 256
    (some (rrPack fraction lost r.cycles r.extendedSeq lsr),
     { r with expectedPrior := expected, receivedPrior := r.received })

end Lal.Rtcp
