import LalModel.Model.MsgClass
import LalModel.Generated.C05Consts
/-
  Model of pkg/remux/dummy_audio_filter.go (`DummyAudioFilter`): three stages (analysis / normal / dummy); in the
  dummy stage silent AAC frames are interleaved with the video, one every 21/21/22 ms, up to each video timestamp.

  `feed` returns the messages handed to `onPop` (the group's `broadcastByRtmpMsg`) in call order.

  `DummyAudio.*`        the tree with the `fix:` commit of branch w-C05: a forward jump of more than
                        `maxGapMs` re-synchronises instead of being filled frame by frame, and the catch-up loop
                        computes in 64 bits;
  `DummyAudio.Pinned.*` the pinned tree (S7): `ats := prevAudioTs + dur` in uint32, loop until `ats > ts`.
-/
namespace Lal.DummyAudio
open Lal Lal.MsgClass

def maxU32 : Nat := 4294967295

/-- `dummyAudioFilterMaxGapMs` -/
def maxGapMs : Nat := Gen.dummyAudioFilterMaxGapMs

structure St where
  waitMs : Nat                 -- uint32(filter.waitAudioMs)
  stage : Nat := 1             -- 1 analysis, 2 normal, 3 dummy
  queue : List Msg := []       -- earlyStageQueue (clones)
  firstVideoTs : Nat := maxU32
  prevAudioTs : Nat := maxU32
  audioCount : Nat := 0
deriving Repr, DecidableEq

def St.new (waitMs : Nat) : St := { waitMs := waitMs }

/-- `makeAudioSeqHeader(ts)` -/
def audioSeqHeader (ts : Nat) : Msg := { typeId := tAudio, ts := ts, payload := [0xaf, 0x00, 0x11, 0x90] }

/-- `makeOneAudio(ts)` (the caller increments `audioCount`) -/
def oneAudio (ts : Nat) : Msg := { typeId := tAudio, ts := ts, payload := [0xaf, 0x01, 0x21, 0x10, 0x04, 0x60, 0x8c, 0x1c] }

/-- `calcAudioDurationMs()` -/
def dur (audioCount : Nat) : Nat := if audioCount % 3 = 1 ∨ audioCount % 3 = 2 then 21 else 22

/-- the catch-up loop of `handleDummyStage` (64-bit arithmetic: no wrap). Every iteration advances `prevAudioTs`
    by at least 21, so `ts + 1 - prevAudioTs` iterations always suffice (`catchUp_fuel`). -/
def catchUp : Nat → St → Nat → St × List Msg
  | 0, st, _ => (st, [])
  | f+1, st, ts =>
    let ats := st.prevAudioTs + dur st.audioCount
    if ats > ts then (st, [])
    else
      let r := catchUp f { st with prevAudioTs := ats, audioCount := st.audioCount + 1 } ts
      (r.1, oneAudio ats :: r.2)

/-- `handleDummyStage(msg)` -/
def handleDummy (st : St) (m : Msg) : GoM (St × List Msg) := do
  if m.typeId = tAudio then return (st, [])
  if m.typeId = tMeta then return (st, [m])
  if ← isVideoKeySeqHeader m then return (st, [audioSeqHeader m.ts, m])
  if st.prevAudioTs = maxU32 then
    return ({ st with prevAudioTs := m.ts, audioCount := st.audioCount + 1 }, [oneAudio m.ts, m])
  if m.ts > st.prevAudioTs ∧ m.ts - st.prevAudioTs > maxGapMs then
    return ({ st with prevAudioTs := m.ts, audioCount := st.audioCount + 1 }, [oneAudio m.ts, m])
  let r := catchUp (m.ts + 1 - st.prevAudioTs) st m.ts
  return (r.1, r.2 ++ [m])

/-- `for i := range earlyStageQueue { handleDummyStage(queue[i]) }` -/
def drainQueue : St → List Msg → GoM (St × List Msg)
  | st, [] => .ok (st, [])
  | st, q :: rest => do
    let (st, o1) ← handleDummy st q
    let (st, o2) ← drainQueue st rest
    return (st, o1 ++ o2)

/-- `handleAnalysisStage(msg)` -/
def handleAnalysis (st : St) (m : Msg) : GoM (St × List Msg) := do
  if m.typeId = tMeta then return ({ st with queue := st.queue ++ [m] }, [])
  if m.typeId = tAudio then return ({ st with stage := 2 }, st.queue ++ [m])
  if m.typeId = tVideo then
    if ← isVideoKeySeqHeader m then return ({ st with queue := st.queue ++ [m] }, [])
    if st.firstVideoTs = maxU32 then
      return ({ st with queue := st.queue ++ [m], firstVideoTs := m.ts }, [])
    -- uint32 subtraction
    if (m.ts + 4294967296 - st.firstVideoTs) % 4294967296 < st.waitMs then
      return ({ st with queue := st.queue ++ [m] }, [])
    let (st', o1) ← drainQueue { st with stage := 3 } st.queue
    let (st'', o2) ← handleDummy { st' with queue := [] } m
    return (st'', o1 ++ o2)
  return (st, [])

/-- `DummyAudioFilter.Feed(msg)` -/
def feed (st : St) (m : Msg) : GoM (St × List Msg) :=
  if st.stage = 1 then handleAnalysis st m
  else if st.stage = 2 then .ok (st, [m])
  else if st.stage = 3 then handleDummy st m
  else .ok (st, [])

def feedAll : St → List Msg → GoM (St × List Msg)
  | st, [] => .ok (st, [])
  | st, m :: rest => do
    let (st, o1) ← feed st m
    let (st, o2) ← feedAll st rest
    return (st, o1 ++ o2)

/-! ### the pinned tree (S7) -/
namespace Pinned

/-- `for { ats := prevAudioTs + dur (uint32); if ats > ts { break }; … }` with an explicit iteration budget:
    the Go loop has none. -/
def catchUp : Nat → St → Nat → St × List Msg
  | 0, st, _ => (st, [])
  | f+1, st, ts =>
    let ats := (st.prevAudioTs + dur st.audioCount) % 4294967296
    if ats > ts then (st, [])
    else
      let r := catchUp f { st with prevAudioTs := ats, audioCount := st.audioCount + 1 } ts
      (r.1, oneAudio ats :: r.2)

end Pinned

end Lal.DummyAudio
