import LalModel.Model.SeqHeader
import LalModel.Model.Aac
import LalModel.Model.Sdp
/-
  The two places where lal chains the functions above on a live stream's configuration:
    pkg/remux/rtmp2rtsp.go   Rtmp2RtspRemuxer.FeedRtmpMsg / doAnalyze: RTMP sequence headers → sdp.Pack
    pkg/remux/avpacket2rtmp.go AvPacket2RtmpRemuxer.InitWithAvConfig: SDP parameter sets → RTMP sequence headers
  Only the configuration path is modelled (classic, non-enhanced sequence headers; AAC audio).
-/
namespace Lal.CfgChain
open Lal

/-- `append([]byte(nil), s...)`: an empty result is nil -/
def nilIfEmpty (b : Bytes) : Option Bytes := if b.isEmpty then none else some b

/-- A fresh `Rtmp2RtspRemuxer` fed an optional video message then an optional audio message
    (payloads); result: the LogicContext handed to `onSdp`, if any. -/
def rtmp2rtspSdp (c : Sdp.Codec) (tool : Bytes) (v a : Option Bytes) : GoM (Option Sdp.LogicContext) := do
  -- video
  let (vps, sps, pps) ← (match v with
    | none => pure (none, none, none)
    | some p =>
      if p.length ≤ 5 then pure (none, none, none)
      else if p.take 2 = [0x17, 0] then
        match SeqHeader.avcParse p with
        | .ok (s, q) => pure (none, nilIfEmpty s, nilIfEmpty q)
        | .error .err => pure (none, none, none)
        | .error e => throw e
      else if p.take 2 = [0x1c, 0] then
        match SeqHeader.hevcParse p with
        | .ok (v, s, q) => pure (nilIfEmpty v, nilIfEmpty s, nilIfEmpty q)
        | .error .err => pure (none, none, none)
        | .error e => throw e
      else pure (none, none, none) : GoM (Option Bytes × Option Bytes × Option Bytes))
  -- audio: AAC sequence header only
  match a with
  | none => pure none
  | some p =>
    if p.length ≤ 2 then pure none
    else if ¬ ((p.headD 0).toNat / 16 = 10 ∧ (p.drop 1).headD 1 = 0) then pure none     -- IsAacSeqHeader
    else
      let ascb := p.drop 2
      if sps.isNone ∨ pps.isNone then pure none else
      match Aac.ascUnpack ascb with
      | .error _ => pure none
      | .ok ctx =>
        match Aac.samplingFrequency ctx with
        | none => pure none
        | some f =>
          pure (Sdp.pack c tool
            { videoPt := if vps.isSome then Sdp.ptHevc else Sdp.ptAvc, vps := vps, sps := sps, pps := pps }
            { audioPt := Sdp.ptAac, samplingFrequency := f, asc := some ascb })

/-- `AvPacket2RtmpRemuxer.InitWithAvConfig(asc, vps, sps, pps)`: the (type id, payload) of the audio and
    video sequence-header messages emitted (metadata aside) -/
def initWithAvConfig (asc vps sps pps : Option Bytes) : GoM (List (Nat × Bytes)) := do
  let hasA := asc.isSome
  let hasV := sps.isSome ∧ pps.isSome
  if ¬ hasA ∧ ¬ hasV then return []
  let ash ← (if hasA then
      match Aac.makeAudioDataSeqHeaderWithAsc (asc.getD []) with
      | .ok b => pure (some b)
      | .error .err => pure none
      | .error e => throw e
    else pure (some []) : GoM (Option Bytes))
  match ash with
  | none => return []
  | some ash =>
    let vsh ← (if hasV then
        match (if vps.isSome then SeqHeader.hevcBuild (vps.getD []) (sps.getD []) (pps.getD [])
               else SeqHeader.avcBuild (sps.getD []) (pps.getD [])) with
        | .ok b => pure (some b)
        | .error .err => pure none
        | .error e => throw e
      else pure (some []) : GoM (Option Bytes))
    match vsh with
    | none => return []
    | some vsh => return (if hasA then [(8, ash)] else []) ++ (if hasV then [(9, vsh)] else [])

end Lal.CfgChain
