import LalModel.Model.Str
/-
  MD5 (RFC 1321) and base64 (RFC 4648 §4, Go's `base64.StdEncoding`) as executable Lean functions.

  The C14 models take both as PARAMETERS (`Auth.Ext`) and the theorems use only the stated laws; these
  implementations instantiate the parameters in the driver (so that the correspondence run compares real
  digests with `nazamd5.Md5` / `encoding/base64`) and in the non-vacuity examples. Words are `Nat` below 2^32.
-/
namespace Lal.Md5
open Lal.Str

def m32 : Nat := 4294967296

def rotl (x n : Nat) : Nat := ((x <<< n) % m32) ||| (x >>> (32 - n))

def sTab : List Nat :=
  [7, 12, 17, 22, 7, 12, 17, 22, 7, 12, 17, 22, 7, 12, 17, 22,
   5, 9, 14, 20, 5, 9, 14, 20, 5, 9, 14, 20, 5, 9, 14, 20,
   4, 11, 16, 23, 4, 11, 16, 23, 4, 11, 16, 23, 4, 11, 16, 23,
   6, 10, 15, 21, 6, 10, 15, 21, 6, 10, 15, 21, 6, 10, 15, 21]

def kTab : List Nat :=
  [0xd76aa478, 0xe8c7b756, 0x242070db, 0xc1bdceee, 0xf57c0faf, 0x4787c62a, 0xa8304613, 0xfd469501,
   0x698098d8, 0x8b44f7af, 0xffff5bb1, 0x895cd7be, 0x6b901122, 0xfd987193, 0xa679438e, 0x49b40821,
   0xf61e2562, 0xc040b340, 0x265e5a51, 0xe9b6c7aa, 0xd62f105d, 0x02441453, 0xd8a1e681, 0xe7d3fbc8,
   0x21e1cde6, 0xc33707d6, 0xf4d50d87, 0x455a14ed, 0xa9e3e905, 0xfcefa3f8, 0x676f02d9, 0x8d2a4c8a,
   0xfffa3942, 0x8771f681, 0x6d9d6122, 0xfde5380c, 0xa4beea44, 0x4bdecfa9, 0xf6bb4b60, 0xbebfbc70,
   0x289b7ec6, 0xeaa127fa, 0xd4ef3085, 0x04881d05, 0xd9d4d039, 0xe6db99e5, 0x1fa27cf8, 0xc4ac5665,
   0xf4292244, 0x432aff97, 0xab9423a7, 0xfc93a039, 0x655b59c3, 0x8f0ccc92, 0xffeff47d, 0x85845dd1,
   0x6fa87e4f, 0xfe2ce6e0, 0xa3014314, 0x4e0811a1, 0xf7537e82, 0xbd3af235, 0x2ad7d2bb, 0xeb86d391]

/-- the 16 little-endian words of a 64-byte block -/
def words : Bytes → List Nat
  | a :: b :: c :: d :: r => (a.toNat + b.toNat * 256 + c.toNat * 65536 + d.toNat * 16777216) :: words r
  | _ => []

structure St where
  a : Nat
  b : Nat
  c : Nat
  d : Nat

def not32 (x : Nat) : Nat := (m32 - 1) ^^^ x

/-- one of the 64 operations -/
def op (m : List Nat) (s : St) (i : Nat) : St :=
  let (f, g) :=
    if i < 16 then ((s.b &&& s.c) ||| (not32 s.b &&& s.d), i)
    else if i < 32 then ((s.d &&& s.b) ||| (not32 s.d &&& s.c), (5 * i + 1) % 16)
    else if i < 48 then (s.b ^^^ s.c ^^^ s.d, (3 * i + 5) % 16)
    else (s.c ^^^ (s.b ||| not32 s.d), (7 * i) % 16)
  let f := (f + s.a + kTab.getD i 0 + m.getD g 0) % m32
  { a := s.d, d := s.c, c := s.b, b := (s.b + rotl f (sTab.getD i 0)) % m32 }

def block (s : St) (blk : Bytes) : St :=
  let m := words blk
  let t := (List.range 64).foldl (op m) s
  { a := (s.a + t.a) % m32, b := (s.b + t.b) % m32, c := (s.c + t.c) % m32, d := (s.d + t.d) % m32 }

def le64 (n : Nat) : Bytes := le32 (n % m32) ++ le32 (n / m32)

def pad (msg : Bytes) : Bytes :=
  msg ++ [0x80] ++ List.replicate ((119 - msg.length % 64) % 64) 0 ++ le64 (8 * msg.length)

def blocks (fuel : Nat) (s : St) (b : Bytes) : St :=
  match fuel with
  | 0 => s
  | fuel + 1 => if b.length < 64 then s else blocks fuel (block s (b.take 64)) (b.drop 64)

def digest (msg : Bytes) : Bytes :=
  let p := pad msg
  let s := blocks (p.length / 64 + 1) ⟨0x67452301, 0xefcdab89, 0x98badcfe, 0x10325476⟩ p
  le32 s.a ++ le32 s.b ++ le32 s.c ++ le32 s.d

/-- `nazamd5.Md5`: 32 lower-case hex characters -/
def md5hex (msg : Bytes) : Bytes := hexLower (digest msg)

/-! ### base64 -/

def b64Alphabet : Bytes := asc "ABCDEFGHIJKLMNOPQRSTUVWXYZabcdefghijklmnopqrstuvwxyz0123456789+/"

def b64Char (n : Nat) : UInt8 := b64Alphabet.getD n 0

/-- `base64.StdEncoding.EncodeToString` -/
def b64enc : Bytes → Bytes
  | a :: b :: c :: r =>
    let n := a.toNat * 65536 + b.toNat * 256 + c.toNat
    b64Char (n / 262144) :: b64Char (n / 4096 % 64) :: b64Char (n / 64 % 64) :: b64Char (n % 64) :: b64enc r
  | [a, b] =>
    let n := a.toNat * 65536 + b.toNat * 256
    [b64Char (n / 262144), b64Char (n / 4096 % 64), b64Char (n / 64 % 64), 61]
  | [a] =>
    let n := a.toNat * 65536
    [b64Char (n / 262144), b64Char (n / 4096 % 64), 61, 61]
  | [] => []

def b64Val (c : UInt8) : Option Nat :=
  if 65 ≤ c.toNat ∧ c.toNat ≤ 90 then some (c.toNat - 65)
  else if 97 ≤ c.toNat ∧ c.toNat ≤ 122 then some (c.toNat - 71)
  else if 48 ≤ c.toNat ∧ c.toNat ≤ 57 then some (c.toNat + 4)
  else if c = 43 then some 62
  else if c = 47 then some 63
  else none

/-- quanta of the input with `\r` and `\n` already removed -/
def b64decQ : Bytes → Option Bytes
  | [] => some []
  | [a, b, 61, 61] =>
    match b64Val a, b64Val b with
    | some x, some y => some [b8 ((x * 64 + y) / 16)]
    | _, _ => none
  | [a, b, c, 61] =>
    match b64Val a, b64Val b, b64Val c with
    | some x, some y, some z => let n := (x * 64 + y) * 64 + z; some [b8 (n / 1024), b8 (n / 4)]
    | _, _, _ => none
  | a :: b :: c :: d :: r =>
    match b64Val a, b64Val b, b64Val c, b64Val d with
    | some x, some y, some z, some w =>
      let n := ((x * 64 + y) * 64 + z) * 64 + w
      match b64decQ r with
      | some t => some (b8 (n / 65536) :: b8 (n / 256) :: b8 n :: t)
      | none => none
    | _, _, _, _ => none
  | _ => none

/-- `base64.StdEncoding.DecodeString` (non-strict: `\r`, `\n` ignored, padding required, trailing bits
    not checked); `none` = the decoder returns an error -/
def b64dec (s : Bytes) : Option Bytes := b64decQ (s.filter fun c => c != 13 && c != 10)

end Lal.Md5
