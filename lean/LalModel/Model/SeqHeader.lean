import LalModel.Model.Sps
import LalModel.Model.HevcPs
import LalModel.Model.Nalu
/-
  Model of the RTMP/FLV video sequence-header functions:
    pkg/avc/avc.go   BuildSeqHeaderFromSpsPps, ParseSpsPpsFromSeqHeader(WithoutMalloc),
                     parseSpsPpsListFromSeqHeaderWithoutMalloc, SpsPpsSeqHeader2Annexb, BuildSpsPps2Annexb
    pkg/hevc/hevc.go BuildSeqHeaderFromVpsSpsPps, ParseVpsSpsPpsFromSeqHeader(WithoutMalloc),
                     parseVpsSpsPpsFromRecord, parseVpsSpsPpsAnnexbFromRecord (the fallback strategy),
                     ParseVpsSpsPpsFromEnhancedSeqHeader, VpsSpsPps(Enhanced)SeqHeader2Annexb, BuildVpsSpsPps2Annexb
  Parsers are in `GoM` with exactly the guards of the Go.
-/
namespace Lal.SeqHeader
open Lal Lal.Nalu

/- ------------------------------- AVC ------------------------------- -/

/-- `avc.BuildSeqHeaderFromSpsPps`: fails when `ParseSps` fails; lengths are written as two bytes -/
def avcBuild (sps pps : Bytes) : GoM Bytes := do
  let ctx ← Sps.parseSps sps
  pure ([0x17, 0, 0, 0, 0, 1, b8 ctx.profile, 0, b8 ctx.level, 0xFF, 0xE1]
        ++ be16 sps.length ++ sps ++ [1] ++ be16 pps.length ++ pps)

/-- `avc.ParseSpsPpsFromSeqHeaderWithoutMalloc` (and `ParseSpsPpsFromSeqHeader`, which copies) -/
def avcParse (p : Bytes) : GoM (Bytes × Bytes) := do
  if p.length < 13 then throw .err
  if (← idx? "avc.seqhdr[0]" p 0) ≠ 0x17 ∨ (← idx? "avc.seqhdr[1]" p 1) ≠ 0 ∨ (← idx? "avc.seqhdr[2]" p 2) ≠ 0
     ∨ (← idx? "avc.seqhdr[3]" p 3) ≠ 0 ∨ (← idx? "avc.seqhdr[4]" p 4) ≠ 0 then throw .err
  let numOfSps := (← idx? "avc.seqhdr[10]" p 10).toNat % 32
  if numOfSps ≠ 1 then throw .err
  let spsLength := rd16 (← idx? "avc.seqhdr[11]" p 11) (← idx? "avc.seqhdr[12]" p 12)
  if p.length < 13 + spsLength then throw .err
  let sps ← slice? "avc.seqhdr sps" p 13 (13 + spsLength)
  let index := 13 + spsLength
  if p.length < 16 + spsLength then throw .err
  let numOfPps := (← idx? "avc.seqhdr[numpps]" p index).toNat % 32
  if numOfPps ≠ 1 then throw .err
  let ppsLength := rd16 (← idx? "avc.seqhdr[ppslen]" p (index + 1)) (← idx? "avc.seqhdr[ppslen+1]" p (index + 2))
  if p.length < 16 + spsLength + ppsLength then throw .err
  let pps ← slice? "avc.seqhdr pps" p (index + 3) (index + 3 + ppsLength)
  pure (sps, pps)

/-- one list of `parseSpsPpsListFromSeqHeaderWithoutMalloc`: `n` × (2-byte length, unit); the reader is
    byte aligned throughout, so `ReadBytes` is a bounds-checked slice -/
def readUnits : Nat → Bytes → Option (List Bytes × Bytes)
  | 0, b => some ([], b)
  | n+1, b =>
    match b with
    | l0 :: l1 :: rest =>
      let len := rd16 l0 l1
      if rest.length < len then none else
      match readUnits n (rest.drop len) with
      | some (us, r) => some (rest.take len :: us, r)
      | none => none
    | _ => none

/-- `parseSpsPpsListFromSeqHeaderWithoutMalloc` -/
def avcParseLists (p : Bytes) : GoM (List Bytes × List Bytes) :=
  if p.length < 5 then .error .err
  else if p.take 5 ≠ [0x17, 0, 0, 0, 0] then .error .err
  else if p.length < 10 then .error .err
  else match p.drop 10 with
    | [] => .error .err
    | n :: rest =>
      match readUnits (n.toNat % 32) rest with
      | none => .error .err
      | some (spsList, rest') =>
        match rest' with
        | [] => .error .err
        | m :: rest'' =>
          match readUnits (m.toNat % 32) rest'' with
          | none => .error .err
          | some (ppsList, _) => .ok (spsList, ppsList)

/-- `avc.SpsPpsSeqHeader2Annexb` -/
def avcSeqHeader2Annexb (p : Bytes) : GoM Bytes := do
  let (s, q) ← avcParseLists p
  pure ((s ++ q).flatMap (startCode4 ++ ·))

/-- `avc.BuildSpsPps2Annexb` -/
def avcBuildAnnexb (sps pps : Bytes) : Bytes := startCode4 ++ sps ++ startCode4 ++ pps

/- ------------------------------- HEVC ------------------------------- -/

/-- `hevc.BuildSeqHeaderFromVpsSpsPps` -/
def hevcBuild (vps sps pps : Bytes) : GoM Bytes := do
  let (r, ctx) ← HevcPs.parseVps vps HevcPs.newContext
  if r.isNone then throw .err
  let (r, ctx) ← HevcPs.parseSps sps ctx
  if r.isNone then throw .err
  let c := ctx.generalConstraintIndicatorFlags
  pure ([0x1c, 0, 0, 0, 0, 1,
         b8 ((ctx.generalProfileSpace * 64 % 256) ||| (ctx.generalTierFlag * 32 % 256) ||| ctx.generalProfileIdc)]
        ++ be32 ctx.generalProfileCompatibilityFlags
        ++ be32 (c / 65536) ++ be16 c
        ++ [b8 ctx.generalLevelIdc, 0xf0, 0x00, 0xfc,
            b8 (ctx.chromaFormat ||| 0xfc), b8 (ctx.bitDepthLumaMinus8 ||| 0xf8), b8 (ctx.bitDepthChromaMinus8 ||| 0xf8),
            0, 0,
            b8 ((ctx.numTemporalLayers * 8 % 256) ||| (ctx.temporalIdNested * 4 % 256) ||| ctx.lengthSizeMinusOne),
            3]
        ++ [32, 0, 1] ++ be16 vps.length ++ vps
        ++ [33, 0, 1] ++ be16 sps.length ++ sps
        ++ [34, 0, 1] ++ be16 pps.length ++ pps)

/-- one array of `parseVpsSpsPpsFromRecord`: type byte, numNalus = 1, length, unit.
    `minLen` is the constant the Go compares `len(payload)` with before touching the array header
    (`none` for the first array, which is reached without a check). -/
def hevcArray (p : Bytes) (index typ : Nat) (need : Nat) : GoM (Bytes × Nat) := do
  if (← idx? "hevc.record[type]" p index).toNat % 64 ≠ typ then throw .err
  if rd16 (← idx? "hevc.record[num]" p (index + 1)) (← idx? "hevc.record[num+1]" p (index + 2)) ≠ 1 then throw .err
  let len := rd16 (← idx? "hevc.record[len]" p (index + 3)) (← idx? "hevc.record[len+1]" p (index + 4))
  if p.length < need + len then throw .err
  let u ← slice? "hevc.record unit" p (index + 5) (index + 5 + len)
  pure (u, len)

/-- `hevc.parseVpsSpsPpsFromRecord`. The `fix:` commit of branch w-C05 added the length check before
    `payload[27]` … `payload[32]` (`hevcParseRecordPinned` is the function without it). -/
def hevcParseRecord (p : Bytes) : GoM (Bytes × Bytes × Bytes) := do
  if p.length < 33 then throw .err
  let n ← idx? "hevc.record[27]" p 27
  if n ≠ 3 ∧ n ≠ 4 then throw .err
  let (vps, vl) ← hevcArray p 28 32 33
  if p.length < 38 + vl then throw .err
  let (sps, sl) ← hevcArray p (33 + vl) 33 (38 + vl)
  if p.length < 43 + vl + sl then throw .err
  let (pps, _) ← hevcArray p (38 + vl + sl) 34 (43 + vl + sl)
  pure (vps, sps, pps)

/-- the pinned tree (S6): `payload[27]` … `payload[32]` without a length check; reached unguarded from
    `ParseVpsSpsPpsFromEnhancedSeqHeader` -/
def hevcParseRecordPinned (p : Bytes) : GoM (Bytes × Bytes × Bytes) := do
  let n ← idx? "hevc.record[27]" p 27
  if n ≠ 3 ∧ n ≠ 4 then throw .err
  let (vps, vl) ← hevcArray p 28 32 33
  if p.length < 38 + vl then throw .err
  let (sps, sl) ← hevcArray p (33 + vl) 33 (38 + vl)
  if p.length < 43 + vl + sl then throw .err
  let (pps, _) ← hevcArray p (38 + vl + sl) 34 (43 + vl + sl)
  pure (vps, sps, pps)

/-- `bytes.Index(b, NaluStartCode4)` -/
def indexSc4 : Bytes → Nat → Option Nat
  | [], _ => none
  | b@(_ :: rest), i => if b.take 4 = startCode4 then some i else indexSc4 rest (i + 1)

/-- `hevc.ParseNaluType` -/
def hevcNaluType (v : UInt8) : Nat := v.toNat % 128 / 2

/-- loop of `hevc.parseVpsSpsPpsAnnexbFromRecord`; `i` is the loop variable -/
def hevcAnnexbLoop (p : Bytes) : Nat → Nat → Bytes × Bytes × Bytes → GoM (Bytes × Bytes × Bytes)
  | 0, _, acc => .ok acc
  | fuel+1, i, (vps, sps, pps) =>
    if ¬ (i + 4 < p.length) then .ok (vps, sps, pps) else
    match indexSc4 (p.drop i) 0 with
    | none => .ok (vps, sps, pps)
    | some start =>
      let i := i + start
      let endv := match indexSc4 (p.drop (i + 4)) 0 with
        | some e => e + 4
        | none => p.length - i
      match slice? "hevc.annexb nal" p (i + 4) (i + endv) with
      | .error e => .error e
      | .ok nal =>
        if nal.isEmpty then hevcAnnexbLoop p fuel (i + endv) (vps, sps, pps) else   -- two adjacent start codes (w-C05 fix)
        match idx? "hevc.annexb nal[0]" nal 0 with
        | .error e => .error e
        | .ok h =>
          let t := hevcNaluType h
          let acc := if t = 32 then (vps ++ nal, sps, pps) else if t = 33 then (vps, sps ++ nal, pps)
                     else if t = 34 then (vps, sps, pps ++ nal) else (vps, sps, pps)
          hevcAnnexbLoop p fuel (i + endv) acc

/-- `hevc.parseVpsSpsPpsAnnexbFromRecord` -/
def hevcParseAnnexbRecord (p : Bytes) : GoM (Bytes × Bytes × Bytes) := do
  let (v, s, q) ← hevcAnnexbLoop p (p.length + 1) 0 ([], [], [])
  if v.isEmpty ∨ s.isEmpty ∨ q.isEmpty then throw .err
  pure (v, s, q)

/-- `hevc.ParseVpsSpsPpsFromSeqHeaderWithoutMalloc` with
    `StrategyTryAnnexbWhenParseVspFromSeqHeaderFailed = true` (the default) -/
def hevcParse (p : Bytes) : GoM (Bytes × Bytes × Bytes) := do
  if p.length < 5 then throw .err
  if (← idx? "hevc.seqhdr[0]" p 0) ≠ 0x1c ∨ (← idx? "hevc.seqhdr[1]" p 1) ≠ 0 ∨ (← idx? "hevc.seqhdr[2]" p 2) ≠ 0
     ∨ (← idx? "hevc.seqhdr[3]" p 3) ≠ 0 ∨ (← idx? "hevc.seqhdr[4]" p 4) ≠ 0 then throw .err
  if p.length < 33 then throw .err
  match hevcParseRecord p with
  | .ok r => pure r
  | .error (.panic s) => throw (.panic s)
  | .error .err => hevcParseAnnexbRecord p

/-- `hevc.ParseVpsSpsPpsFromEnhancedSeqHeader` -/
def hevcParseEnhanced (p : Bytes) : GoM (Bytes × Bytes × Bytes) := do
  if p.length < 1 then throw .err
  let b ← idx? "hevc.enhanced[0]" p 0
  if b.toNat % 16 = 0 then hevcParseRecord p else throw .err

def annexb3 (v s q : Bytes) : Bytes := startCode4 ++ v ++ startCode4 ++ s ++ startCode4 ++ q

/-- `hevc.VpsSpsPpsSeqHeader2Annexb` -/
def hevcSeqHeader2Annexb (p : Bytes) : GoM Bytes := do
  let (v, s, q) ← hevcParse p
  pure (annexb3 v s q)

/-- `hevc.VpsSpsPpsEnhancedSeqHeader2Annexb` -/
def hevcEnhancedSeqHeader2Annexb (p : Bytes) : GoM Bytes := do
  let (v, s, q) ← hevcParseEnhanced p
  pure (annexb3 v s q)

/-- `hevc.BuildVpsSpsPps2Annexb` -/
def hevcBuildAnnexb (vps sps pps : Bytes) : GoM Bytes := do
  let (r, ctx) ← HevcPs.parseVps vps HevcPs.newContext
  if r.isNone then throw .err
  let (r, _) ← HevcPs.parseSps sps ctx
  if r.isNone then throw .err
  pure (annexb3 vps sps pps)

end Lal.SeqHeader
