import LalModel.Model.Bytes
/-
  Model of pkg/httpflv/tag.go (PackHttpflvTag, ReadTag, parseTagHeader), of the
  13-byte FLV file header written by FlvFileWriter.WriteFlvHeader /
  SubSession.WriteFlvHeader, and of FlvFileReader (ReadFlvHeader + ReadTag loop).
-/
namespace Lal.Flv

/-- httpflv.TagHeaderSize / PrevTagSizeFieldSize -/
def tagHeaderSize : Nat := 11
def prevTagSizeFieldSize : Nat := 4

/-- `httpflv.PackHttpflvTag(t, timestamp, in)`; `ts` is a Go `uint32`. -/
def packTag (t : UInt8) (ts : Nat) (p : Bytes) : Bytes :=
  t :: (be24 p.length ++ be24 ts ++ [b8 (ts / 16777216), 0, 0, 0] ++ p ++ be32 (11 + p.length))

structure TagHeader where
  typ      : UInt8
  dataSize : Nat
  ts       : Nat
  streamId : Nat := 0
deriving Repr, DecidableEq

/-- `httpflv.parseTagHeader` on an 11-byte slice. -/
def parseTagHeader : Bytes → Option TagHeader
  | [t, s0, s1, s2, t0, t1, t2, t3, _, _, _] =>
      some { typ := t, dataSize := rd24 s0 s1 s2, ts := t3.toNat * 16777216 + rd24 t0 t1 t2 }
  | _ => none

/-- `httpflv.ReadTag` over the unread bytes of a reader: header, raw (= 11 + body + 4), rest.
    `none` = the Go function returns an error (short read). -/
def readTag (b : Bytes) : Option (TagHeader × Bytes × Bytes) :=
  if b.length < 11 then none else
  match parseTagHeader (b.take 11) with
  | none => none
  | some h =>
    let needed := h.dataSize + 4
    if (b.drop 11).length < needed then none
    else some (h, b.take (11 + needed), b.drop (11 + needed))

/-- `Tag.Payload()` -/
def payloadOfRaw (raw : Bytes) : Bytes := (raw.drop 11).take (raw.length - 11 - 4)

/-- FlvFileReader: ReadFlvHeader (13 bytes, not inspected) then ReadTag until EOF. -/
def readTags : Nat → Bytes → List (TagHeader × Bytes)
  | 0, _ => []
  | fuel+1, b =>
    match readTag b with
    | none => []
    | some (h, raw, rest) => (h, raw) :: readTags fuel rest

def readFile (b : Bytes) : Option (List (TagHeader × Bytes)) :=
  if b.length < 13 then none else some (readTags b.length (b.drop 13))

end Lal.Flv
