import LalModel.Model.Bytes
/-
  A directory as the HLS muxer sees it through `filesystemlayer.IFileSystemLayer` (naza): a map from path to
  file, a file being its content plus "a writer still has it open". Generic in the path type `κ` and in the
  content type `γ`: the model of `hls.Muxer` uses structured paths / structured playlists (`Model/Hls.lean`),
  the driver's oracle replays the IMPLEMENTATION's operation log over plain strings / bytes.

  One `Op` is one call of the file-system layer, i.e. one instant at which a reader (or a crash) can observe the
  directory. `writeFile` is `ioutil.WriteFile` (create + write + close of a path nobody reads: the `.bak` file);
  `rename` is POSIX `rename(2)` and is assumed atomic (DESIGN §9).
-/
namespace Lal.Fs

/-- One call of the file-system layer. `γ` = content of `WriteFile`, `β` = argument of `IFile.Write`
    (bytes on the implementation side; the model keeps "PAT/PMT" and "the packets of frame f" apart). -/
inductive Op (κ γ β : Type) where
  | mkdirAll (p : κ)
  | create (p : κ)
  | write (p : κ) (b : β)
  | close (p : κ)
  | writeFile (p : κ) (c : γ)
  | rename (a b : κ)
  | remove (p : κ)
  | readFile (p : κ)
  | removeAll (p : κ)
deriving Repr

/-- What a path holds: the pieces appended through an `IFile` (a segment) or a whole document written at once. -/
inductive Content (γ β : Type) where
  | data (l : List β)
  | doc (c : γ)
deriving Repr

structure File (γ β : Type) where
  content : Content γ β
  isOpen  : Bool
deriving Repr

/-- The directory: total lookup, `none` = no such file. -/
abbrev Dir (κ γ β : Type) := κ → Option (File γ β)

def empty {κ γ β : Type} : Dir κ γ β := fun _ => none

variable {κ γ β : Type} [DecidableEq κ]

def set (d : Dir κ γ β) (p : κ) (f : Option (File γ β)) : Dir κ γ β := fun q => if q = p then f else d q

/-- `under root p`: `p` lies below the directory `root` (what `RemoveAll root` deletes). -/
def apply (under : κ → κ → Bool) (d : Dir κ γ β) : Op κ γ β → Dir κ γ β
  | .mkdirAll _ => d
  | .create p => set d p (some { content := .data [], isOpen := true })
  | .write p b =>
    match d p with
    | some { content := .data old, isOpen := o } => set d p (some { content := .data (old ++ [b]), isOpen := o })
    | _ => d
  | .close p =>
    match d p with
    | some f => set d p (some { f with isOpen := false })
    | none => d
  | .writeFile p c => set d p (some { content := .doc c, isOpen := false })
  | .rename a b =>
    match d a with
    | some f => set (set d a none) b (some f)
    | none => d
  | .remove p => set d p none
  | .readFile _ => d
  | .removeAll r => fun q => if under r q then none else d q

def applyAll (under : κ → κ → Bool) (d : Dir κ γ β) (ops : List (Op κ γ β)) : Dir κ γ β := ops.foldl (apply under) d

end Lal.Fs
