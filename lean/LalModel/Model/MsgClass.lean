import LalModel.Model.Go
/-
  Model of the classification helpers of `base.RtmpMsg` (pkg/base/t_rtmp.go): which published message is a
  video key frame, a sequence header, an enhanced-RTMP packet, which codec it carries, its composition time.
  They are called on EVERY published message by the GOP caches, the wait-for-key-frame gates, the TS and RTSP
  remuxers, the dummy-audio filter and the group's statistics.

  `MsgClass.*`        the tree with the `fix:` commit of branch w-C05 (every helper checks the length it needs);
  `MsgClass.Pinned.*` the pinned tree (S6): `Payload[0]`, `[1]`, `[1..4]`, `[2:]`, `[5:]` without length checks.

  Both are written in `GoM` with one `idx?`/`from?` per Go index/slice expression, under exactly the guards the
  Go has; `&&`/`||` short-circuit as in Go. `MsgClass.*P` are the closed forms the `GoM` versions are proved
  equal to (Proof/MsgClass.lean), used by the larger models.
-/
namespace Lal.MsgClass
open Lal

/-- `base.RtmpMsg`: `typeId` = Header.MsgTypeId (uint8), `ts` = Header.TimestampAbs (uint32), Payload.
    `Header.MsgLen` is `payload.length` (a well-framed message: the chunk composer delivers exactly MsgLen bytes). -/
structure Msg where
  typeId : Nat
  ts : Nat
  payload : Bytes
deriving Repr, DecidableEq, Inhabited

def tAudio : Nat := 8
def tVideo : Nat := 9
def tMeta : Nat := 18

/-- `bele.BeUint24(b)`: needs 3 bytes -/
def beUint24? (site : String) (b : Bytes) : GoM Nat :=
  match b with
  | a :: c :: d :: _ => .ok (rd24 a c d)
  | _ => .error (.panic site)

/-- "hvc1" -/
def hvc1 : Bytes := [0x68, 0x76, 0x63, 0x31]

/-! ### the fixed tree -/

/-- `msg.isFourCcHvc1()` -/
def isFourCcHvc1 (p : Bytes) : GoM Bool := do
  if ¬ (p.length ≥ 5) then return false
  if (← idx? "isFourCcHvc1[1]" p 1) ≠ 0x68 then return false
  if (← idx? "isFourCcHvc1[2]" p 2) ≠ 0x76 then return false
  if (← idx? "isFourCcHvc1[3]" p 3) ≠ 0x63 then return false
  return (← idx? "isFourCcHvc1[4]" p 4) = 0x31

/-- `msg.IsAvcKeySeqHeader()` -/
def isAvcKeySeqHeader (m : Msg) : GoM Bool := do
  if m.typeId ≠ tVideo then return false
  if ¬ (m.payload.length ≥ 2) then return false
  if (← idx? "IsAvcKeySeqHeader[0]" m.payload 0) ≠ 0x17 then return false
  return (← idx? "IsAvcKeySeqHeader[1]" m.payload 1) = 0

/-- `msg.IsHevcKeySeqHeader()` -/
def isHevcKeySeqHeader (m : Msg) : GoM Bool := do
  if m.typeId ≠ tVideo ∨ m.payload.length < 2 then return false
  let b0 ← idx? "IsHevcKeySeqHeader[0]" m.payload 0
  if b0.toNat / 128 ≠ 0 then
    let packetType := b0.toNat % 16
    if (← isFourCcHvc1 m.payload) ∧ packetType = 0 then return true
    return false
  else
    if b0 ≠ 0x1c then return false
    return (← idx? "IsHevcKeySeqHeader[1]" m.payload 1) = 0

/-- `msg.IsEnhanced()` -/
def isEnhanced (m : Msg) : GoM Bool := do
  if m.payload.length = 0 then return false
  return (← idx? "IsEnhanced[0]" m.payload 0).toNat / 128 ≠ 0

/-- `msg.IsVideoKeySeqHeader()` = `IsAvcKeySeqHeader() || IsHevcKeySeqHeader()` -/
def isVideoKeySeqHeader (m : Msg) : GoM Bool := do
  if ← isAvcKeySeqHeader m then return true
  isHevcKeySeqHeader m

/-- `msg.IsAvcKeyNalu()` -/
def isAvcKeyNalu (m : Msg) : GoM Bool := do
  if m.typeId ≠ tVideo then return false
  if ¬ (m.payload.length ≥ 2) then return false
  if (← idx? "IsAvcKeyNalu[0]" m.payload 0) ≠ 0x17 then return false
  return (← idx? "IsAvcKeyNalu[1]" m.payload 1) = 1

/-- `msg.IsHevcKeyNalu()` -/
def isHevcKeyNalu (m : Msg) : GoM Bool := do
  if m.typeId ≠ tVideo ∨ m.payload.length < 2 then return false
  let b0 ← idx? "IsHevcKeyNalu[0]" m.payload 0
  if b0.toNat / 128 ≠ 0 then
    let frameType := b0.toNat / 16 % 8
    let packetType := b0.toNat % 16
    return frameType = 1 ∧ packetType ≠ 0
  if b0 ≠ 0x1c then return false
  return (← idx? "IsHevcKeyNalu[1]" m.payload 1) = 1

/-- `msg.IsEnchanedHevcNalu()` -/
def isEnchanedHevcNalu (m : Msg) : GoM Bool := do
  if m.payload.length = 0 then return false
  let b0 ← idx? "IsEnchanedHevcNalu[0]" m.payload 0
  if b0.toNat / 128 ≠ 0 then
    let packetType := b0.toNat % 16
    if packetType = 1 ∨ packetType = 3 then return true
  return false

/-- `msg.GetEnchanedHevcNaluIndex()` -/
def getEnchanedHevcNaluIndex (m : Msg) : GoM Nat := do
  if m.payload.length = 0 then return 0
  let b0 ← idx? "GetEnchanedHevcNaluIndex[0]" m.payload 0
  if b0.toNat / 128 ≠ 0 then
    let packetType := b0.toNat % 16
    if packetType = 1 then return 8
    if packetType = 3 then return 5
  return 0

/-- `msg.IsVideoKeyNalu()` -/
def isVideoKeyNalu (m : Msg) : GoM Bool := do
  if ← isAvcKeyNalu m then return true
  isHevcKeyNalu m

/-- `msg.AudioCodecId()` -/
def audioCodecId (m : Msg) : GoM Nat := do
  if m.payload.length = 0 then return 0
  return (← idx? "AudioCodecId[0]" m.payload 0).toNat / 16

/-- `msg.IsAacSeqHeader()` -/
def isAacSeqHeader (m : Msg) : GoM Bool := do
  if m.typeId ≠ tAudio then return false
  if ¬ (m.payload.length ≥ 2) then return false
  if (← audioCodecId m) ≠ 10 then return false
  return (← idx? "IsAacSeqHeader[1]" m.payload 1) = 0

/-- `msg.VideoCodecId()` -/
def videoCodecId (m : Msg) : GoM Nat := do
  if m.payload.length = 0 then return 0
  let b0 ← idx? "VideoCodecId[0]" m.payload 0
  if b0.toNat / 128 = 0 then return b0.toNat % 16
  if ← isFourCcHvc1 m.payload then return 12
  return 7

/-- `msg.Pts()` (uint32 addition) -/
def pts (m : Msg) : GoM Nat := do
  if m.payload.length < 5 then return m.ts
  let c ← beUint24? "Pts:BeUint24" (← from? "Pts:Payload[2:]" m.payload 2)
  return (m.ts + c) % 4294967296

/-- `msg.Cts()` -/
def cts (m : Msg) : GoM Nat := do
  if m.payload.length < 5 then return 0
  if m.typeId = tAudio then
    return ← beUint24? "Cts:BeUint24" (← from? "Cts:Payload[2:]" m.payload 2)
  let b0 ← idx? "Cts[0]" m.payload 0
  if b0.toNat / 128 ≠ 0 then
    let packetType := b0.toNat % 16
    if packetType = 1 then
      if m.payload.length < 8 then return 0
      return ← beUint24? "Cts:BeUint24" (← from? "Cts:Payload[5:]" m.payload 5)
    return 0
  beUint24? "Cts:BeUint24" (← from? "Cts:Payload[2:]" m.payload 2)

/-! ### closed forms -/

def isFourCcHvc1P (p : Bytes) : Bool :=
  match p with
  | _ :: a :: b :: c :: d :: _ => a = 0x68 ∧ b = 0x76 ∧ c = 0x63 ∧ d = 0x31
  | _ => false

def isAvcKeySeqHeaderP (m : Msg) : Bool :=
  match m.payload with
  | b0 :: b1 :: _ => m.typeId = tVideo ∧ b0 = 0x17 ∧ b1 = 0
  | _ => false

def isHevcKeySeqHeaderP (m : Msg) : Bool :=
  match m.payload with
  | b0 :: b1 :: _ =>
    m.typeId = tVideo ∧
      (if b0.toNat / 128 ≠ 0 then isFourCcHvc1P m.payload ∧ b0.toNat % 16 = 0 else b0 = 0x1c ∧ b1 = 0)
  | _ => false

def isEnhancedP (m : Msg) : Bool :=
  match m.payload with
  | b0 :: _ => b0.toNat / 128 ≠ 0
  | _ => false

def isVideoKeySeqHeaderP (m : Msg) : Bool := isAvcKeySeqHeaderP m || isHevcKeySeqHeaderP m

def isAvcKeyNaluP (m : Msg) : Bool :=
  match m.payload with
  | b0 :: b1 :: _ => m.typeId = tVideo ∧ b0 = 0x17 ∧ b1 = 1
  | _ => false

def isHevcKeyNaluP (m : Msg) : Bool :=
  match m.payload with
  | b0 :: b1 :: _ =>
    m.typeId = tVideo ∧
      (if b0.toNat / 128 ≠ 0 then b0.toNat / 16 % 8 = 1 ∧ b0.toNat % 16 ≠ 0 else b0 = 0x1c ∧ b1 = 1)
  | _ => false

def isVideoKeyNaluP (m : Msg) : Bool := isAvcKeyNaluP m || isHevcKeyNaluP m

def isEnchanedHevcNaluP (m : Msg) : Bool :=
  match m.payload with
  | b0 :: _ => b0.toNat / 128 ≠ 0 ∧ (b0.toNat % 16 = 1 ∨ b0.toNat % 16 = 3)
  | _ => false

def getEnchanedHevcNaluIndexP (m : Msg) : Nat :=
  match m.payload with
  | b0 :: _ => if b0.toNat / 128 ≠ 0 then (if b0.toNat % 16 = 1 then 8 else if b0.toNat % 16 = 3 then 5 else 0) else 0
  | _ => 0

def audioCodecIdP (m : Msg) : Nat :=
  match m.payload with
  | b0 :: _ => b0.toNat / 16
  | _ => 0

def isAacSeqHeaderP (m : Msg) : Bool :=
  match m.payload with
  | b0 :: b1 :: _ => m.typeId = tAudio ∧ b0.toNat / 16 = 10 ∧ b1 = 0
  | _ => false

def videoCodecIdP (m : Msg) : Nat :=
  match m.payload with
  | b0 :: _ => if b0.toNat / 128 = 0 then b0.toNat % 16 else if isFourCcHvc1P m.payload then 12 else 7
  | _ => 0

def ptsP (m : Msg) : Nat :=
  match m.payload with
  | _ :: _ :: a :: b :: c :: _ => (m.ts + rd24 a b c) % 4294967296
  | _ => m.ts

def ctsP (m : Msg) : Nat :=
  match m.payload with
  | b0 :: _ :: a :: b :: c :: rest =>
    if m.typeId = tAudio then rd24 a b c
    else if b0.toNat / 128 ≠ 0 then
      (if b0.toNat % 16 = 1 then (match rest with | x :: y :: z :: _ => rd24 x y z | _ => 0) else 0)
    else rd24 a b c
  | _ => 0

/-! ### the pinned tree (S6): no length checks -/
namespace Pinned

def isAvcKeySeqHeader (m : Msg) : GoM Bool := do
  if m.typeId ≠ tVideo then return false
  if (← idx? "IsAvcKeySeqHeader[0]" m.payload 0) ≠ 0x17 then return false
  return (← idx? "IsAvcKeySeqHeader[1]" m.payload 1) = 0

def isHevcKeySeqHeader (m : Msg) : GoM Bool := do
  if m.typeId ≠ tVideo then return false
  let b0 ← idx? "IsHevcKeySeqHeader[0]" m.payload 0
  if b0.toNat / 128 ≠ 0 then
    if (← idx? "IsHevcKeySeqHeader[1]" m.payload 1) ≠ 0x68 then return false
    if (← idx? "IsHevcKeySeqHeader[2]" m.payload 2) ≠ 0x76 then return false
    if (← idx? "IsHevcKeySeqHeader[3]" m.payload 3) ≠ 0x63 then return false
    if (← idx? "IsHevcKeySeqHeader[4]" m.payload 4) ≠ 0x31 then return false
    return b0.toNat % 16 = 0
  else
    if b0 ≠ 0x1c then return false
    return (← idx? "IsHevcKeySeqHeader[1]" m.payload 1) = 0

def isVideoKeySeqHeader (m : Msg) : GoM Bool := do
  if ← isAvcKeySeqHeader m then return true
  isHevcKeySeqHeader m

def videoCodecId (m : Msg) : GoM Nat := do
  let b0 ← idx? "VideoCodecId[0]" m.payload 0
  if b0.toNat / 128 = 0 then return b0.toNat % 16
  if (← idx? "VideoCodecId[1]" m.payload 1) ≠ 0x68 then return 7
  if (← idx? "VideoCodecId[2]" m.payload 2) ≠ 0x76 then return 7
  if (← idx? "VideoCodecId[3]" m.payload 3) ≠ 0x63 then return 7
  if (← idx? "VideoCodecId[4]" m.payload 4) ≠ 0x31 then return 7
  return 12

def isAacSeqHeader (m : Msg) : GoM Bool := do
  if m.typeId ≠ tAudio then return false
  if (← idx? "AudioCodecId[0]" m.payload 0).toNat / 16 ≠ 10 then return false
  return (← idx? "IsAacSeqHeader[1]" m.payload 1) = 0

def cts (m : Msg) : GoM Nat := do
  if m.typeId = tAudio then
    return ← beUint24? "Cts:BeUint24" (← from? "Cts:Payload[2:]" m.payload 2)
  let b0 ← idx? "Cts[0]" m.payload 0
  if b0.toNat / 128 ≠ 0 then
    let packetType := b0.toNat % 16
    if packetType = 1 then
      return ← beUint24? "Cts:BeUint24" (← from? "Cts:Payload[5:]" m.payload 5)
    return 0
  beUint24? "Cts:BeUint24" (← from? "Cts:Payload[2:]" m.payload 2)

end Pinned

end Lal.MsgClass
