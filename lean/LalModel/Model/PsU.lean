import LalModel.Model.RtpUnpack
import LalModel.Model.Nalu
import LalModel.Model.AvPacket
/-
  Model of pkg/gb28181/unpack.go: PsUnpacker
    FeedRtpPacket (RtpPacketList: stale / insert / sequential pop / full ⇒ drop to the next start position),
    FeedRtpBody (nazabytes.Buffer; dispatch on the 32-bit start code), parsePackHeader, parsePackStreamBody,
    parsePsm, parseAvStream (PES header, PTS/DTS, frame boundary by PTS / RTP timestamp), readPts,
    iterateNaluByStartCode, onAvPacketWrap (wait for a parameter set).
  The callback `onAvPacket` is the list of packets returned. Index / slice expressions are `GoM` values with
  exactly the guards of the Go code (C13 owns their totality; this model is used on well-formed streams).

  `onAvPacketWrap` follows the tree with the `fix:` commit of branch w-C07: the NAL header is the byte after
  the start code, whatever its length; the pinned code reads `Payload[4]` (`Variant.pinned`).
-/
namespace Lal.PsU
open Lal Lal.Rtp Lal.Av
open Lal.RtpUnpack (PktList)

inductive Variant where
  | fixed | pinned
deriving Repr, DecidableEq

/-- `maxUnpackRtpListSize` -/
def maxUnpackRtpListSize : Nat := 1024

/-- `PsUnpacker` -/
structure St where
  list : PktList := { maxSize := maxUnpackRtpListSize }
  buf : Bytes := []                 -- unread part of `p.buf`
  audioBuf : Bytes := []
  videoBuf : Bytes := []
  audioStreamType : Nat := 0
  videoStreamType : Nat := 0
  audioPt : Int := 0                -- zero value of base.AvPacketPt (= AvPacketPtG711U)
  videoPt : Int := 0
  preAudioPts : Int := -1
  preVideoPts : Int := -1
  preAudioDts : Int := 0
  preVideoDts : Int := 0
  preAudioRtpts : Int := -1
  preVideoRtpts : Int := -1
  waitSpsFlag : Bool := true
deriving Repr, DecidableEq

/-- `readPts` (33 bits in 5 bytes) -/
def readPts (b : Bytes) (off : Nat) : GoM Int := do
  let b0 ← idx? "readPts b[0]" b off
  let b1 ← idx? "readPts b[1]" b (off + 1)
  let b2 ← idx? "readPts b[2]" b (off + 2)
  let b3 ← idx? "readPts b[3]" b (off + 3)
  let b4 ← idx? "readPts b[4]" b (off + 4)
  pure ((b0.toNat / 2 % 8 * 1073741824 + (b1.toNat * 256 + b2.toNat) / 2 * 32768 + (b3.toNat * 256 + b4.toNat) / 2 : Nat) : Int)

/-- `bele.BeUint16(rb[i:])` -/
def be16At (site : String) (rb : Bytes) (i : Nat) : GoM Nat := do
  if i > rb.length then throw (.panic site)
  let a ← idx? site rb i
  let b ← idx? site rb (i + 1)
  pure (rd16 a b)

/-- `parsePackHeader(rb, 4)` : `none` = -1 -/
def parsePackHeader (var : Variant) (rb : Bytes) : GoM (Option Nat) := do
  if rb.length ≤ 13 then return none
  let x ← idx? "parsePackHeader rb[i]" rb 13
  -- fix (branch w-C07): the stuffing bytes must have arrived too
  if var = .fixed ∧ rb.length < 14 + x.toNat % 8 then return none
  return some (10 + x.toNat % 8)

/-- `parsePackStreamBody(rb, 4)` -/
def parsePackStreamBody (rb : Bytes) : GoM (Option Nat) := do
  if rb.length < 6 then return none
  let l ← be16At "parsePackStreamBody" rb 4
  if rb.length < 6 + l then return none
  return some (2 + l)

/-- the payload type a PSM stream type maps to -/
def videoPtOf (t : Nat) : Int := if t = 0x1b then ptAvc else if t = 0x24 then ptHevc else ptUnknown
def audioPtOf (t : Nat) : Int := if t = 0x0f then ptAac else if t = 0x90 then ptG711A else if t = 0x91 then ptG711U else ptUnknown

/-- the `for esml > 0` loop of `parsePsm` (`esml` is a signed int) -/
def psmLoop (rb : Bytes) : Nat → Int → Nat → St → GoM (Nat × St)
  | 0, _, i, st => .ok (i, st)
  | fuel+1, esml, i, st =>
    if esml ≤ 0 then .ok (i, st) else do
      let streamType ← idx? "parsePsm rb[i] type" rb i
      let streamId ← idx? "parsePsm rb[i] id" rb (i + 1)
      let st :=
        if 0xe0 ≤ streamId.toNat ∧ streamId.toNat ≤ 0xef then
          { st with videoStreamType := streamType.toNat, videoPt := videoPtOf streamType.toNat }
        else if 0xc0 ≤ streamId.toNat ∧ streamId.toNat ≤ 0xdf then
          { st with audioStreamType := streamType.toNat, audioPt := audioPtOf streamType.toNat }
        else st
      let esil ← be16At "parsePsm esil" rb (i + 2)
      psmLoop rb fuel (esml - 4 - esil) (i + 4 + esil) st

/-- `parsePsm(rb, 4)` -/
def parsePsm (st : St) (rb : Bytes) : GoM (Option Nat × St) := do
  if rb.length - 4 < 6 then return (none, st)
  let l ← be16At "parsePsm psil" rb 8
  if rb.length - 10 < l + 2 then return (none, st)
  let esml ← be16At "parsePsm esml" rb (10 + l)
  let i := 12 + l
  if rb.length < i then throw (.panic "parsePsm rb[i:]")
  if rb.length - i < esml + 4 then return (none, st)
  let (i', st') ← psmLoop rb (esml + 1) esml i st
  return (some (i' + 4 - 4), st')

/-- position of the NAL header inside a packet that starts with a start code (zeros, then 01); `none`: no header byte.
    pinned: `Payload[4]` unconditionally -/
def nalHeaderPos (var : Variant) (payload : Bytes) : Option Nat :=
  match var with
  | .pinned => some 4
  | .fixed =>
    match Nalu.iterateNaluStartCode payload 0 with
    | some (p, l) => if p + l ≥ payload.length then none else some (p + l)
    | none => none

/-- `onAvPacketWrap` -/
def onAvPacketWrap (var : Variant) (st : St) (pkt : AvPacket) : GoM (St × List AvPacket) :=
  if pkt.isVideo then
    match nalHeaderPos var pkt.payload with
    | none => .ok (st, [])
    | some hp => do
      let h ← idx? "onAvPacketWrap Payload[4]" pkt.payload hp
      let typ := if pkt.pt = ptAvc then h.toNat % 32 else h.toNat % 128 / 2
      if st.waitSpsFlag then
        if pkt.pt = ptAvc then
          if typ = 7 ∨ typ = 8 then return ({ st with waitSpsFlag := false }, [pkt]) else return (st, [])
        else
          -- IsVideo() ⇒ the other case is AvPacketPtHevc
          if typ = 32 ∨ typ = 33 ∨ typ = 34 then return ({ st with waitSpsFlag := false }, [pkt]) else return (st, [])
      else return (st, [pkt])
  else .ok (st, [pkt])

/-- the loop of `iterateNaluByStartCode` : `startPos`, `preLeading` -/
def naluLoop (var : Variant) (vb : Bytes) (pt : Int) (ts pts : Int) : Nat → Nat → Nat → St → GoM (St × List AvPacket)
  | 0, _, _, st => .ok (st, [])
  | fuel+1, startPos, preLeading, st =>
    match Nalu.iterateNaluStartCode vb (startPos + preLeading) with
    | some (nextPos, leading) => do
      let (st1, o1) ← onAvPacketWrap var st { pt := pt, ts := ts, pts := pts, payload := (vb.drop startPos).take (nextPos - startPos) }
      let (st2, o2) ← naluLoop var vb pt ts pts fuel nextPos leading st1
      return (st2, o1 ++ o2)
    | none => onAvPacketWrap var st { pt := pt, ts := ts, pts := pts, payload := vb.drop startPos }

/-- `iterateNaluByStartCode(code, pts, dts)` on `p.videoBuf` -/
def iterateNaluByStartCode (var : Variant) (st : St) (pts dts : Int) : GoM (St × List AvPacket) :=
  match Nalu.iterateNaluStartCode st.videoBuf 0 with
  | none => .ok (st, [])
  | some (startPos, preLeading) =>
    naluLoop var st.videoBuf st.videoPt (Int.tdiv dts 90) (Int.tdiv pts 90) (st.videoBuf.length + 1) startPos preLeading st

/-- the PES header part of `parseAvStream(code, rtpts, rb, 4)`: `none` = -1 (wait for more data); otherwise
    PES_packet_length, pts (-1 = absent), dts, and the elementary-stream bytes `rb[i : i+length-3-phdl]` -/
def pesHeader (rb : Bytes) : GoM (Option (Nat × Int × Int × Bytes)) := do
  let length ← be16At "parseAvStream length" rb 4
  if rb.length - 6 < length then return none
  let f ← idx? "parseAvStream rb[i+1]" rb 7
  let ptsDtsFlag := f.toNat / 64
  let phdlB ← idx? "parseAvStream rb[i+2]" rb 8
  let phdl := phdlB.toNat
  let pts0 : Int ← (if ptsDtsFlag / 2 % 2 = 1 then readPts rb 9 else pure (-1))
  let j := if ptsDtsFlag / 2 % 2 = 1 then 5 else 0
  let dts : Int ← (if ptsDtsFlag % 2 = 1 then readPts rb (9 + j) else pure pts0)
  let i := 9 + phdl
  -- rb[i : i+length-3-phdl]
  let es ← (if length < 3 + phdl then throw (.panic "parseAvStream rb[i:i+length-3-phdl]") else slice? "parseAvStream payload" rb i (i + length - 3 - phdl))
  return some (length, pts0, dts, es)

/-- the audio branch of `parseAvStream` after the header -/
def avAudio (var : Variant) (st : St) (rtpts : Nat) (pts0 dts : Int) (es : Bytes) : St × List AvPacket :=
  if st.audioStreamType = 0x0f ∨ st.audioStreamType = 0x90 ∨ st.audioStreamType = 0x91 then
    let flushed : AvPacket := { pt := st.audioPt, ts := Int.tdiv st.preAudioDts 90, pts := Int.tdiv st.preAudioPts 90, payload := st.audioBuf }
    let (pts, dts, st1, out) :=
      if pts0 = -1 then
        if st.preAudioPts = -1 then
          if st.preAudioRtpts = -1 then (pts0, dts, st, [])
          else if st.preAudioRtpts ≠ (rtpts : Int) then (pts0, dts, { st with audioBuf := [] }, [flushed])
          else (pts0, dts, st, [])
        else
          -- a later PES packet of the same frame: the previous packet's pts and (fix: branch w-C07) dts
          (st.preAudioPts, (match var with | .fixed => st.preAudioDts | .pinned => dts), st, [])
      else if pts0 ≠ st.preAudioPts ∧ st.preAudioPts ≥ 0 then (pts0, dts, { st with audioBuf := [] }, [flushed])
      else (pts0, dts, st, [])
    -- audio packets are not filtered by onAvPacketWrap (IsVideo() is false)
    ({ st1 with audioBuf := st1.audioBuf ++ es, preAudioRtpts := rtpts, preAudioPts := pts, preAudioDts := dts }, out)
  else (st, [])

/-- the video branch of `parseAvStream` after the header: is this PES packet a new frame? then the buffered one is
    handed out NAL unit by NAL unit; the packet's bytes are buffered -/
def avVideo (var : Variant) (st : St) (rtpts : Nat) (pts0 dts : Int) (es : Bytes) : GoM (St × List AvPacket) := do
  let r : Int × St × List AvPacket ←
    (if pts0 = -1 then
      if st.preVideoPts = -1 then
        if st.preVideoRtpts = -1 then pure (pts0, st, [])
        else if st.preVideoRtpts ≠ (rtpts : Int) then do
          let (s, o) ← iterateNaluByStartCode var st st.preVideoRtpts st.preVideoRtpts
          pure (pts0, { s with videoBuf := [] }, o)
        else pure (pts0, st, [])
      else pure (st.preVideoPts, st, [])
    else if pts0 ≠ st.preVideoPts ∧ st.preVideoPts ≥ 0 then do
      let (s, o) ← iterateNaluByStartCode var st st.preVideoPts st.preVideoPts
      pure (pts0, { s with videoBuf := [] }, o)
    else pure (pts0, st, []))
  let (pts, st1, out) := r
  return ({ st1 with videoBuf := st1.videoBuf ++ es, preVideoRtpts := rtpts, preVideoPts := pts, preVideoDts := dts }, out)

/-- `parseAvStream(code, rtpts, rb, 4)` ; `audio` = (code == psPackStartCodeAudioStream) -/
def parseAvStream (var : Variant) (st : St) (audio : Bool) (rtpts : Nat) (rb : Bytes) : GoM (Option Nat × St × List AvPacket) := do
  match ← pesHeader rb with
  | none => return (none, st, [])
  | some (length, pts0, dts, es) =>
    if audio then
      let r := avAudio var st rtpts pts0 dts es
      return (some (2 + length), r.1, r.2)
    else
      let r ← avVideo var st rtpts pts0 dts es
      return (some (2 + length), r.1, r.2)

/-- the `for p.buf.Len() != 0` loop of `FeedRtpBody` ; the flag is "returned an error" -/
def bodyLoop (var : Variant) (rtpts : Nat) : Nat → St → GoM (St × List AvPacket × Bool)
  | 0, st => .ok (st, [], false)
  | fuel+1, st =>
    if st.buf = [] then .ok (st, [], false) else
    match st.buf with
    | c0 :: c1 :: c2 :: c3 :: _ => do
      let rb := st.buf
      let code := rd32 c0 c1 c2 c3
      let r : Option (Option Nat × St × List AvPacket) ←
        (if code = 0x1ba then do let c ← parsePackHeader var rb; pure (some (c, st, []))
         else if code = 0x1bb then do let c ← parsePackStreamBody rb; pure (some (c, st, []))
         else if code = 0x1bc then do let (c, s) ← parsePsm st rb; pure (some (c, s, []))
         else if code = 0x1c0 then do let x ← parseAvStream var st true rtpts rb; pure (some x)
         else if code = 0x1e0 then do let x ← parseAvStream var st false rtpts rb; pure (some x)
         else if code = 0x1b9 then pure (some (some 0, st, []))
         else if code = 0x1bd ∨ code = 0x1bf ∨ code = 0x1f0 ∨ code = 0x1f1 ∨ code = 0x1be ∨ code = 0x1ff then do
           let c ← parsePackStreamBody rb; pure (some (c, st, []))
         else pure none)
      match r with
      | none => return ({ st with buf := [], audioBuf := [], videoBuf := [] }, [], true)
      | some (none, st1, o1) => return (st1, o1, false)
      | some (some consumed, st1, o1) =>
        -- p.buf.Skip(i + consumed) : too large ⇒ Reset
        let st2 := { st1 with buf := if 4 + consumed > st1.buf.length then [] else st1.buf.drop (4 + consumed) }
        let (st3, o3, e) ← bodyLoop var rtpts fuel st2
        return (st3, o1 ++ o3, e)
    | _ => .error (.panic "FeedRtpBody bele.BeUint32(rb[i:])")

/-- `FeedRtpBody(rtpBody, rtpts)` -/
def feedRtpBody (var : Variant) (st : St) (body : Bytes) (rtpts : Nat) : GoM (St × List AvPacket × Bool) :=
  let st := { st with buf := st.buf ++ body }
  bodyLoop var rtpts (st.buf.length + 1) st

/-- `isStartPositionFn` -/
def isStartPosition (p : RtpPacket) : GoM Bool := do
  let b ← p.body
  return decide (b.length > 4) && b.take 3 == [0, 0, 1]

/-- the inner `for p.list.Size > 0` loop of the drop branch -/
def dropLoop : Nat → PktList → Nat → GoM PktList
  | 0, l, _ => .ok l
  | fuel+1, l, prevSeq =>
    if l.size = 0 then .ok l else
    match l.items with
    | [] => .error (.panic "PeekFirst: nil")
    | curr :: rest =>
      if Seq16.subSeq curr.hdr.seq prevSeq ≠ 1 then .ok l
      else do
        let s ← isStartPosition curr
        if s then return { l with doneFlag := true, doneSeq := (curr.hdr.seq + 65535) % 65536 }
        else dropLoop fuel { l with items := rest, size := l.size - 1 } curr.hdr.seq

/-- the outer `for` loop of `FeedRtpPacket` -/
def rtpLoop (var : Variant) : Nat → St → GoM (St × List AvPacket)
  | 0, st => .ok (st, [])
  | fuel+1, st =>
    if st.list.isFirstSequential then
      match st.list.items with
      | [] => .error (.panic "PopFirst: nil")
      | opkt :: rest => do
        let l1 : PktList := { st.list with items := rest, size := st.list.size - 1, doneFlag := true, doneSeq := opkt.hdr.seq }
        let body ← opkt.body
        let (st1, o1, e) ← feedRtpBody var { st with list := l1 } body opkt.hdr.timestamp
        -- list.Reset() leaves Size as it is
        let st2 := if e then { st1 with list := { st1.list with items := [], doneFlag := false, doneSeq := 0 } } else st1
        let (st3, o3) ← rtpLoop var fuel st2
        return (st3, o1 ++ o3)
    else if !st.list.full then .ok (st, [])
    else
      match st.list.items with
      | [] => .error (.panic "PopFirst: nil")
      | prev :: rest => do
        let l1 : PktList := { st.list with items := rest, size := st.list.size - 1 }
        let l2 ← dropLoop (rest.length + 1) l1 prev.hdr.seq
        rtpLoop var fuel { st with list := l2, buf := [], audioBuf := [], videoBuf := [] }

/-- `FeedRtpPacket(b)` (the returned error is ignored by `PubSession.feedPacket`) -/
def feedRtpPacket (var : Variant) (st : St) (b : Bytes) : GoM (St × List AvPacket) :=
  match parseRtpPacket b with
  | .error .err => .ok (st, [])
  | .error f => .error f
  | .ok ipkt =>
    if st.list.isStale ipkt.hdr.seq then .ok (st, [])
    else
      let st1 := { st with list := st.list.insert ipkt }
      rtpLoop var (2 * st1.list.items.length + 2) st1

def feedRtpPackets (var : Variant) : St → List Bytes → GoM (St × List AvPacket)
  | st, [] => .ok (st, [])
  | st, b :: bs => do
    let (st1, o1) ← feedRtpPacket var st b
    let (st2, o2) ← feedRtpPackets var st1 bs
    return (st2, o1 ++ o2)

def feedRtpBodies (var : Variant) : St → List (Nat × Bytes) → GoM (St × List AvPacket)
  | st, [] => .ok (st, [])
  | st, (ts, b) :: bs => do
    let (st1, o1, _) ← feedRtpBody var st b ts
    let (st2, o2) ← feedRtpBodies var st1 bs
    return (st2, o1 ++ o2)

end Lal.PsU
