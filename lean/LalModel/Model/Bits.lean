import LalModel.Model.Go
/-
  Model of naza `nazabits.BitReader` / `BitWriter` (MSB-first) and of the exp-Golomb
  readers `ReadUeGolomb` / `ReadSeGolomb`.

  The Go reader keeps (core, avail, index, pos, err) with the invariant
  8*index + pos = 8*len(core) - avail; the model keeps the UNREAD bits as a list and
  the sticky error flag. Quirks kept:
    * every read first calls `reserve(n)`: a sticky error makes every later read fail;
      a read that does not fit sets the sticky error and consumes nothing more;
    * `ReadBits32(0)` (the suffix of the code word `1`) still evaluates `core[index]`:
      when the `1` was the very last bit of the buffer this is an index-out-of-range panic;
    * `ReadBits32(n)` with n > 32 keeps the low 32 bits; `v = 1<<n + m - 1` is uint32 arithmetic;
    * `ReadSeGolomb` goes through int32.
-/
namespace Lal.Bits

/-- bits of one byte, most significant first -/
def byteBits (b : UInt8) : List Bool :=
  let n := b.toNat
  [decide (n / 128 % 2 = 1), decide (n / 64 % 2 = 1), decide (n / 32 % 2 = 1), decide (n / 16 % 2 = 1),
   decide (n / 8 % 2 = 1), decide (n / 4 % 2 = 1), decide (n / 2 % 2 = 1), decide (n % 2 = 1)]

def bitsOf : Bytes → List Bool
  | [] => []
  | b :: rest => byteBits b ++ bitsOf rest

def bitNat (b : Bool) : Nat := if b then 1 else 0

/-- value of a bit string read MSB-first -/
def bitsValAux : Nat → List Bool → Nat
  | acc, [] => acc
  | acc, b :: rest => bitsValAux (2 * acc + bitNat b) rest

def bitsVal (l : List Bool) : Nat := bitsValAux 0 l

/-- the `w` low bits of `v`, MSB-first (what `BitWriter.WriteBitsN(w, v)` appends) -/
def natBits : Nat → Nat → List Bool
  | 0, _ => []
  | w+1, v => decide (v / 2 ^ w % 2 = 1) :: natBits w v

/-- pack bits into bytes MSB-first, zero-padding the last byte (a `BitWriter` over a zeroed buffer) -/
def packBits : List Bool → Bytes
  | [] => []
  | b0 :: b1 :: b2 :: b3 :: b4 :: b5 :: b6 :: b7 :: rest =>
      b8 (bitsVal [b0, b1, b2, b3, b4, b5, b6, b7]) :: packBits rest
  | l => [b8 (bitsVal (l ++ List.replicate (8 - l.length) false))]

structure BitReader where
  bits : List Bool
  err : Bool := false
deriving Repr, DecidableEq

def newBitReader (b : Bytes) : BitReader := { bits := bitsOf b }

/-- One read: `none` = the Go call returned an error (result value is the zero value). -/
abbrev Rd (α : Type) := GoM (Option α × BitReader)

/-- `ReadBits8/16/32/64(n)` before truncation to the result width; `ReadBit` is `n = 1`.
    `n = 0` on an exhausted buffer is the panic described above. -/
def readBits (n : Nat) (br : BitReader) : Rd Nat :=
  if br.err then .ok (none, br)
  else if br.bits.length < n then .ok (none, { br with err := true })
  else if n = 0 ∧ br.bits.isEmpty then .error (.panic "nazabits.ReadBits: core[index]")
  else .ok (some (bitsVal (br.bits.take n)), { br with bits := br.bits.drop n })

def readBits32 (n : Nat) (br : BitReader) : Rd Nat :=
  match readBits n br with
  | .ok (some v, br') => .ok (some (v % 4294967296), br')
  | r => r

/-- `SkipBits(n)` / `SkipBytes(n)`: reserve and advance, never touches `core`. -/
def skipBits (n : Nat) (br : BitReader) : Option Unit × BitReader :=
  if br.err then (none, br)
  else if br.bits.length < n then (none, { br with err := true })
  else (some (), { br with bits := br.bits.drop n })

/-- number of leading `false` bits and what follows the first `true` -/
def splitZeros : List Bool → Nat × Option (List Bool)
  | [] => (0, none)
  | true :: rest => (0, some rest)
  | false :: rest => let (n, r) := splitZeros rest; (n + 1, r)

/-- `1 << n` in uint32 -/
def shl1u32 (n : Nat) : Nat := if n < 32 then 2 ^ n else 0

/-- `ReadUeGolomb` (= `ReadGolomb`) -/
def readUe (br : BitReader) : Rd Nat :=
  if br.err then .ok (none, br) else
  match splitZeros br.bits with
  | (_, none) => .ok (none, { bits := [], err := true })
  | (n, some rest) =>
    match readBits32 n { bits := rest } with
    | .ok (some m, br') => .ok (some ((shl1u32 n + m + 4294967295) % 4294967296), br')
    | r => r

def toI32 (n : Nat) : Int :=
  let m := n % 4294967296
  if m < 2147483648 then (m : Int) else (m : Int) - 4294967296

/-- the int32 arithmetic of `ReadSeGolomb` on the code number -/
def seOfUe (vv : Nat) : Int :=
  let v := toI32 (vv + 1)
  if v % 2 = 1 then -(v / 2) else v / 2

def readSe (br : BitReader) : Rd Int :=
  match readUe br with
  | .ok (some vv, br') => .ok (some (seOfUe vv), br')
  | .ok (none, br') => .ok (none, br')
  | .error e => .error e

/-- `ReadBytes(n)`: at a byte boundary one `reserve(8n)`; otherwise n times `ReadBits8(8)`
    (a failure in the middle keeps what was consumed). -/
def readBytesLoop : Nat → BitReader → Bytes → Rd Bytes
  | 0, br, acc => .ok (some acc.reverse, br)
  | k+1, br, acc =>
    match readBits 8 br with
    | .ok (some v, br') => readBytesLoop k br' (b8 v :: acc)
    | .ok (none, br') => .ok (none, br')
    | .error e => .error e

def readBytes (n : Nat) (br : BitReader) : Rd Bytes :=
  if br.bits.length % 8 = 0 then
    if br.err then .ok (none, br)
    else if br.bits.length < n * 8 then .ok (none, { br with err := true })
    else .ok (some (packBits (br.bits.take (n * 8))), { br with bits := br.bits.drop (n * 8) })
  else readBytesLoop n br []

/- ---- exp-Golomb WRITER (H.264 §9.1), used by the specification-side encoder and the round trips ---- -/

/-- position of the highest set bit: the `n` with 2^n ≤ v+1 < 2^(n+1) is `log2 (v+1)` -/
def ueBits (v : Nat) : List Bool :=
  let n := Nat.log2 (v + 1)
  List.replicate n false ++ true :: natBits n (v + 1 - 2 ^ n)

/-- H.264 §9.1.1 mapping of se(v) to the code number -/
def seCode (x : Int) : Nat := if x > 0 then (2 * x - 1).toNat else (-2 * x).toNat

def seBits (x : Int) : List Bool := ueBits (seCode x)

end Lal.Bits
