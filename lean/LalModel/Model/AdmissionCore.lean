/-
  C03 — admission of inputs. Model of the input slot of logic.Group and of its callers:

    pkg/logic/group__in.go          AddRtmpPubSession / AddRtspPubSession / AddCustomizePubSession /
                                    StartRtpPub / AddRtmpPullSession / AddRtspPullSession, the Del…
                                    counterparts with their identity checks, addIn / delIn (only their
                                    effect on the slots and on the "pipeline", see `Grp.hook`)
    pkg/logic/group__.go            hasInSession, inSessionUniqueKey, KickSession, Dispose, IsInactive, Tick
    pkg/logic/group__relay_pull.go  StartPull / StopPull / pullIfNeeded / shouldStartPull / stopPull / kickPull /
                                    isPullSessionConnecting / isPullSessionWanted
    pkg/logic/group__out_sub.go     AddRtmpSubSession / HandleNewRtspSubSessionDescribe / …Play / Del…
    pkg/logic/server_manager__.go   OnNew…/OnDel… callbacks, the notification log
    pkg/logic/server_manager__api.go CtrlStartRtpPub / CtrlKickSession / CtrlStartRelayPull / CtrlStopRelayPull,
                                    StatGroup
    pkg/logic/customize_pubsession.go FeedRtmpMsg / Dispose

  Every function below is one critical section of the Go (one hold of `group.mutex`, resp. of
  `ServerManager.mutex`). Sessions are identified by natural numbers (`Sid`; the Go uses the session's
  unique key / the pointer), streams by natural numbers (the Go uses the stream name).

  `Code` selects between the tree as pinned (`Code.pinned`, kept for the defect witnesses in
  Props/C03.lean) and the tree with the C03 repairs (`Code.fixed`, what the correspondence check runs).
  Core Lean only.
-/
namespace Lal.Adm

abbrev Sid := Nat
abbrev Stream := Nat

/-- which of the C03 repairs are present in the Go tree the model describes -/
structure Code where
  /-- `Group.delPullSession` tears the input down only when the session is the attached pull session -/
  pullIdCheck : Bool
  /-- `Group.StartRtpPub` refuses (error code, nothing installed) when the group has an input -/
  rtpPubCheck : Bool
  /-- `rtmp.ServerSession.doPublish/doPlay` reject a second publish/play on one connection (without it
      the second command panics in `modConnProps`: naza's connection refuses a second
      `ModWriteChanSize`, and the panic is in the connection's own goroutine) -/
  secondCmd : Bool
  /-- `rtsp.Server.handleTcpConnect` does not call OnDelRtsp(Pub|Sub)Session for a session the observer refused -/
  rtspFlag : Bool
  /-- `rtsp.ServerCommandSession.handleAnnounce/handleDescribe` reject a second ANNOUNCE / DESCRIBE on one connection -/
  rtspSecond : Bool
  /-- `Group.delCustomizePubSession` disposes the context it removes (later Feed… calls are rejected) -/
  custDispose : Bool
  /-- a relay-pull session's media is forwarded only while it is the attached pull session -/
  pullSrcCheck : Bool
  /-- the group remembers the attempt that is still connecting (`pullProxy.pullingSessionUk`):
      `stopPull` / `kickPull` cancel it (and report it), `AddRtmpPullSession / AddRtspPullSession` refuse
      a session that is not the wanted one (the C17 repair "relay pull stop and kick also cancel an attempt
      that is still connecting") -/
  pullWanted : Bool
deriving DecidableEq, Repr

def Code.pinned : Code := ⟨false, false, false, false, false, false, false, false⟩
def Code.fixed : Code := ⟨true, true, true, true, true, true, true, true⟩

/-! ## the group -/

/-- the fields of `logic.Group` (and of its `pullProxy`) that admission reads or writes -/
structure Grp where
  rtmpPub : Option Sid := none
  rtspPub : Option Sid := none
  custPub : Option Sid := none
  psPub : Option Sid := none
  pullRtmp : Option Sid := none        -- pullProxy.rtmpSession
  pullRtsp : Option Sid := none        -- pullProxy.rtspSession
  pulling : Bool := false              -- pullProxy.isSessionPulling
  /-- `pullProxy.pullingSessionUk` (`none` = ""): the attempt `pullIfNeeded` started last, until `stopPull`
      forgets it while it is still connecting. Nothing else resets it (not `resetRelayPullSession`, not
      `delPullSession`, not the attach). In the pinned tree the field does not exist; the model writes it
      there too and never reads it (`Code.pullWanted`). -/
  pullingUk : Option Sid := none
  apiEnable : Bool := false            -- pullProxy.apiEnable (static relay pull is off)
  pullIsRtsp : Bool := false           -- !strings.HasPrefix(pullProxy.pullUrl, "rtmp")
  retryNum : Option Nat := none        -- pullProxy.pullRetryNum (none = negative = retry for ever)
  startCount : Nat := 0                -- pullProxy.startCount
  rtmpSubs : List Sid := []            -- rtmpSubSessionSet (a set: no duplicates)
  rtspSubs : List Sid := []            -- rtspSubSessionSet
  /-- the pipeline started by `addIn` and stopped by `delIn` (push, hls, recording, hook session all
      start and stop at exactly these two points): `some key` while it runs, `key` being
      `inSessionUniqueKey()` at the time it was started (what `onHookSession` is given) -/
  hook : Option (Option Sid) := none
  avRemux : Bool := false              -- rtsp2RtmpRemuxer != nil
deriving DecidableEq, Repr

/-- what a group operation does to the outside, in order -/
inductive GObs where
  | relayStart (x : Sid)               -- observer.OnRelayPullStart
  | relayStop (x : Sid)                -- observer.OnRelayPullStop
  | hookStart (key : Option Sid)       -- option.onHookSession(inSessionUniqueKey(), streamName)
  | hookStop                           -- customizeHookSessionContext.OnStop()
  | dispose (x : Sid)                  -- x.Dispose()
  | spawn (x : Sid) (rtsp : Bool)      -- a new pull session and its goroutine
deriving DecidableEq, Repr

namespace Grp

def hasPub (g : Grp) : Bool := g.rtmpPub.isSome || g.rtspPub.isSome || g.custPub.isSome || g.psPub.isSome
def hasPull (g : Grp) : Bool := g.pullRtmp.isSome || g.pullRtsp.isSome
def hasIn (g : Grp) : Bool := g.hasPub || g.hasPull
def hasSub (g : Grp) : Bool := !g.rtmpSubs.isEmpty || !g.rtspSubs.isEmpty || g.hook.isSome
def hasOut (g : Grp) : Bool := g.hasSub            -- no relay push configured

/-- every session sitting in an input slot -/
def inputs (g : Grp) : List Sid :=
  g.rtmpPub.toList ++ g.rtspPub.toList ++ g.custPub.toList ++ g.psPub.toList ++ g.pullRtmp.toList ++ g.pullRtsp.toList

/-- `inSessionUniqueKey()` (the customize publisher is not in it) -/
def inKey (g : Grp) : Option Sid :=
  match g.rtmpPub with
  | some x => some x
  | none => match g.rtspPub with
    | some x => some x
    | none => match g.psPub with
      | some x => some x
      | none => match g.pullRtmp with
        | some x => some x
        | none => g.pullRtsp

def addIn (g : Grp) : Grp × List GObs :=
  ({ g with hook := some g.inKey }, [.hookStart g.inKey])

def delIn (g : Grp) : Grp × List GObs :=
  ({ g with rtmpPub := none, rtspPub := none, custPub := none, psPub := none, hook := none, avRemux := false },
   if g.hook.isSome then [.hookStop] else [])

/-- `shouldStartPull` -/
def shouldStartPull (g : Grp) : Bool :=
  !g.hasIn && !g.pulling && g.apiEnable &&
  (match g.retryNum with
   | some n => !(g.startCount > n)
   | none => true)

/-- `pullIfNeeded`; `nid` is the identity the new pull session gets if one is created -/
def pullIfNeeded (g : Grp) (nid : Sid) : Grp × Option Sid × List GObs :=
  if g.shouldStartPull then
    ({ g with pulling := true, startCount := g.startCount + 1, pullingUk := some nid }, some nid, [.spawn nid g.pullIsRtsp])
  else (g, none, [])

/-- `isPullSessionConnecting`: an attempt was started, has not attached, and was not told to stop -/
def isConnecting (g : Grp) : Bool := g.pulling && !g.hasPull && g.pullingUk.isSome

/-- `isPullSessionWanted` -/
def isWanted (g : Grp) (x : Sid) : Bool := g.pulling && g.pullingUk = some x

/-- why `AddRtmpPullSession / AddRtspPullSession` refuse: `base.ErrDupInStream`, `errRelayPullStopped` -/
inductive PullErr | dup | stopped
deriving DecidableEq, Repr

/-- the two guards of `AddRtmpPullSession / AddRtspPullSession`, in the order of the Go -/
def pullRefusal (code : Code) (g : Grp) (x : Sid) : Option PullErr :=
  if g.hasIn then some .dup
  else if code.pullWanted && !g.isWanted x then some .stopped
  else none

/-! ### arrivals -/

def addRtmpPub (g : Grp) (x : Sid) : Grp × Bool × List GObs :=
  if g.hasIn then (g, false, [])
  else let r := addIn { g with rtmpPub := some x }; (r.1, true, r.2)

def addRtspPub (g : Grp) (x : Sid) : Grp × Bool × List GObs :=
  if g.hasIn then (g, false, [])
  else let r := addIn { g with rtspPub := some x }; ({ r.1 with avRemux := true }, true, r.2)

def addCustPub (g : Grp) (x : Sid) : Grp × Bool × List GObs :=
  if g.hasIn then (g, false, [])
  else let r := addIn { g with custPub := some x }; (r.1, true, r.2)

/-- `StartRtpPub` (the listen on the requested port is assumed to succeed) -/
def startRtpPub (code : Code) (g : Grp) (x : Sid) : Grp × Bool × List GObs :=
  if code.rtpPubCheck && g.hasIn then (g, false, [])
  else let r := addIn { g with psPub := some x }; ({ r.1 with avRemux := true }, true, r.2)

def addRtmpPull (code : Code) (g : Grp) (x : Sid) : Grp × Bool × List GObs :=
  if (g.pullRefusal code x).isSome then (g, false, [])
  else let r := addIn { g with pullRtmp := some x }; (r.1, true, r.2 ++ [.relayStart x])

def addRtspPull (code : Code) (g : Grp) (x : Sid) : Grp × Bool × List GObs :=
  if (g.pullRefusal code x).isSome then (g, false, [])
  else let r := addIn { g with pullRtsp := some x }; ({ r.1 with avRemux := true }, true, r.2 ++ [.relayStart x])

/-! ### departures -/

def delRtmpPub (g : Grp) (x : Sid) : Grp × List GObs :=
  if g.rtmpPub = some x then g.delIn else (g, [])

def delRtspPub (g : Grp) (x : Sid) : Grp × List GObs :=
  if g.rtspPub = some x then g.delIn else (g, [])

def delCustPub (g : Grp) (x : Sid) : Grp × List GObs :=
  if g.custPub = some x then g.delIn else (g, [])

def delPsPub (g : Grp) (x : Sid) : Grp × List GObs :=
  if g.psPub = some x then g.delIn else (g, [])

/-- `resetRelayPullSession` -/
def resetPull (g : Grp) : Grp := { g with pulling := false, pullRtmp := none, pullRtsp := none }

/-- `DelRtmpPullSession` / `DelRtspPullSession`: `delPullSession` then `OnRelayPullStop` -/
def delPull (code : Code) (g : Grp) (x : Sid) : Grp × List GObs :=
  if code.pullIdCheck && !(g.pullRtmp = some x || g.pullRtsp = some x) then
    ({ g with pulling := false }, [.relayStop x])
  else
    let r := g.resetPull.delIn
    (r.1, r.2 ++ [.relayStop x])

/-! ### subscribers -/

def insert (l : List Sid) (x : Sid) : List Sid := if l.contains x then l else l ++ [x]

/-- `AddRtmpSubSession` -/
def addRtmpSub (g : Grp) (x nid : Sid) : Grp × Option Sid × List GObs :=
  pullIfNeeded { g with rtmpSubs := insert g.rtmpSubs x } nid

def delRtmpSub (g : Grp) (x : Sid) : Grp := { g with rtmpSubs := g.rtmpSubs.filter (· != x) }

/-- `HandleNewRtspSubSessionDescribe` -/
def describeRtspSub (g : Grp) (x : Sid) : Grp := { g with rtspSubs := insert g.rtspSubs x }

/-- `HandleNewRtspSubSessionPlay` -/
def playRtspSub (g : Grp) (nid : Sid) : Grp × Option Sid × List GObs := g.pullIfNeeded nid

def delRtspSub (g : Grp) (x : Sid) : Grp := { g with rtspSubs := g.rtspSubs.filter (· != x) }

/-! ### relay pull control, kick, tick, dispose -/

/-- `StartPull` -/
def startPull (g : Grp) (rtsp : Bool) (retry : Option Nat) (nid : Sid) : Grp × Option Sid × List GObs :=
  pullIfNeeded { g with apiEnable := true, pullIsRtsp := rtsp, retryNum := retry } nid

/-- `stopPull`: the attached pull session is disposed (it leaves through its own goroutine's
    `Del…PullSession`); an attempt that is still connecting cannot be closed from here, it is forgotten
    (so that its attach will be refused) and reported as the stopped session -/
def stopPull' (code : Code) (g : Grp) : Grp × Option Sid × List GObs :=
  let g := { g with startCount := 0 }
  match g.pullRtmp with
  | some x => (g, some x, [.dispose x])
  | none => match g.pullRtsp with
    | some x => (g, some x, [.dispose x])
    | none =>
      if code.pullWanted && g.isConnecting then ({ g with pullingUk := none }, g.pullingUk, [])
      else (g, none, [])

/-- `StopPull` -/
def stopPull (code : Code) (g : Grp) : Grp × Option Sid × List GObs := stopPull' code { g with apiEnable := false }

/-- the session-id prefix `KickSession` dispatches on -/
inductive KKind | rtmp | pull | rtspPub | psPub | rtspSub | other
deriving DecidableEq, Repr

/-- `KickSession` (`.pull` is `kickPull`) -/
def kick (code : Code) (g : Grp) (k : KKind) (x : Sid) : Grp × Bool × List GObs :=
  match k with
  | .rtmp => if g.rtmpPub = some x || g.rtmpSubs.contains x then (g, true, [.dispose x]) else (g, false, [])
  | .pull =>
    if g.pullRtmp = some x || g.pullRtsp = some x || (code.pullWanted && g.isConnecting && g.pullingUk = some x) then
      let r := stopPull' code { g with apiEnable := false }
      (r.1, true, r.2.2)
    else (g, false, [])
  | .rtspPub => if g.rtspPub = some x then (g, true, [.dispose x]) else (g, false, [])
  | .psPub => if g.psPub = some x then (g, true, [.dispose x]) else (g, false, [])
  | .rtspSub => if g.rtspSubs.contains x then (g, true, [.dispose x]) else (g, false, [])
  | .other => (g, false, [])

/-- `Tick` (pull module only: no session is idle, auto-stop is off) -/
def tick (g : Grp) (nid : Sid) : Grp × Option Sid × List GObs := g.pullIfNeeded nid

/-- `IsInactive` -/
def isInactive (g : Grp) : Bool :=
  !g.hasIn && !g.hasOut && !(g.hasPull || g.pulling || g.shouldStartPull)

/-- `Dispose` -/
def dispose (g : Grp) : Grp × List GObs :=
  let d := (g.rtmpPub.toList ++ g.rtspPub.toList ++ g.psPub.toList ++ g.rtmpSubs ++ g.rtspSubs).map GObs.dispose
  let r := delIn { g with rtmpSubs := [], rtspSubs := [] }
  (r.1, d ++ r.2)

/-- `GetStat`: the publisher, the pull session and the subscribers it lists -/
def statPub (g : Grp) : Option Sid :=
  match g.rtmpPub with
  | some x => some x
  | none => match g.rtspPub with
    | some x => some x
    | none => g.psPub

def statPull (g : Grp) : Option Sid :=
  match g.pullRtmp with
  | some x => some x
  | none => g.pullRtsp

def statSubs (g : Grp) : List Sid := g.rtmpSubs ++ g.rtspSubs

end Grp

/-! ## sessions and connections (per-connection automaton state; the transitions are in
    Model/RtmpConn.lean and Model/RtspConn.lean) -/

inductive NKind | pubStart | pubStop | subStart | subStop | pullStart | pullStop
deriving DecidableEq, Repr

inductive RTyp | unknown | pub | sub
deriving DecidableEq, Repr

/-- `rtmp.ServerSession` + the goroutine `rtmp.Server.handleTcpConnect` running it -/
structure RConn where
  typ : RTyp := .unknown          -- sessionStat.BaseType(): PUBSUB / PUB / SUB
  stream : Stream := 0            -- streamName (last publish / play)
  flag : Bool := false            -- DisposeByObserverFlag
  obs : Option Stream := none     -- avObserver: the group SetPubSessionObserver was called with
  closed : Bool := false          -- RunLoop has returned and handleTcpConnect has finished
deriving DecidableEq, Repr

/-- `rtsp.ServerCommandSession` + `rtsp.Server.handleTcpConnect` -/
structure SConn where
  pub : Option Sid := none        -- session.pubSession
  sub : Option Sid := none        -- session.subSession
  closed : Bool := false
deriving DecidableEq, Repr

/-- `rtsp.PubSession` created by ANNOUNCE -/
structure SPub where
  conn : Sid
  stream : Stream
  accepted : Bool := false        -- OnNewRtspPubSession returned nil (the group is its observer)
  flag : Bool := false            -- refused by the observer (the repair's DisposeByObserverFlag)
  ended : Bool := false           -- its connection's handleTcpConnect has finished
deriving DecidableEq, Repr

/-- `rtsp.SubSession` created by DESCRIBE -/
structure SSub where
  conn : Sid
  stream : Stream
  accepted : Bool := false
  flag : Bool := false
  ended : Bool := false
deriving DecidableEq, Repr

/-- `logic.CustomizePubSessionContext` handed to the application -/
structure Cust where
  stream : Stream
  disposed : Bool := false        -- disposeFlag
  deleted : Bool := false         -- DelCustomizePubSession was called with it
deriving DecidableEq, Repr

/-- `gb28181.PubSession` created by StartRtpPub + the goroutine running it -/
structure Ps where
  stream : Stream
  ended : Bool := false           -- RunLoop returned and DelPsPubSession was called
deriving DecidableEq, Repr

inductive PullSt | inflight | attached | done
deriving DecidableEq, Repr

/-- one relay-pull attempt: the pull session and the goroutine of `pullIfNeeded` -/
structure Pull where
  stream : Stream
  rtsp : Bool
  st : PullSt := .inflight
  /-- ghost: `AddRtmpPullSession / AddRtspPullSession` accepted it at some point -/
  wasAttached : Bool := false
deriving DecidableEq, Repr

inductive Sess where
  | rtmp (r : RConn)
  | rtspConn (c : SConn)
  | rtspPub (p : SPub)
  | rtspSub (q : SSub)
  | cust (c : Cust)
  | ps (p : Ps)
  | pull (p : Pull)
deriving DecidableEq, Repr

/-! ## the server manager -/

structure Notif where
  kind : NKind
  sid : Sid
deriving DecidableEq, Repr

/-- `logic.ServerManager`: the name → group map, every session object ever created, the
    notification queue (FIFO, one worker) -/
structure Srv where
  groups : Stream → Option Grp := fun _ => none
  sess : Sid → Option Sess := fun _ => none
  log : List Notif := []

namespace Srv

def setG (s : Srv) (st : Stream) (g : Grp) : Srv :=
  { s with groups := fun k => if k = st then some g else s.groups k }

def eraseG (s : Srv) (st : Stream) : Srv :=
  { s with groups := fun k => if k = st then none else s.groups k }

def setS (s : Srv) (x : Sid) (v : Sess) : Srv :=
  { s with sess := fun k => if k = x then some v else s.sess k }

/-- one notification handed to the notify worker (`nhOnPubStart` …) -/
def note (s : Srv) (k : NKind) (x : Sid) : Srv := { s with log := s.log ++ [⟨k, x⟩] }

/-- `getOrCreateGroup` -/
def getOrCreate (s : Srv) (st : Stream) : Grp := (s.groups st).getD {}

def fresh (s : Srv) (x : Sid) : Bool := (s.sess x).isNone

/-- the relay-pull notifications a group operation produced (`IGroupObserver.OnRelayPullStart/Stop`
    → `nhOnRelayPullStart/Stop`) go to the same queue -/
def noteRelay (s : Srv) : List GObs → Srv
  | [] => s
  | .relayStart x :: r => noteRelay (s.note .pullStart x) r
  | .relayStop x :: r => noteRelay (s.note .pullStop x) r
  | _ :: r => noteRelay s r

/-- a pull session created by `pullIfNeeded` -/
def spawned (s : Srv) (st : Stream) (rtsp : Bool) : Option Sid → Srv
  | some a => s.setS a (.pull { stream := st, rtsp := rtsp })
  | none => s

end Srv

/-! ### `ServerManager` callbacks (pkg/logic/server_manager__.go); `auth` is the verdict of
    `option.Authentication.OnPubStart / OnSubStart` -/
namespace Srv

def onNewRtmpPub (s : Srv) (x : Sid) (st : Stream) (auth : Bool) : Srv × Bool :=
  if !auth then (s, false) else
  let r := (s.getOrCreate st).addRtmpPub x
  if r.2.1 then ((s.setG st r.1).note .pubStart x, true) else (s, false)

def onDelRtmpPub (s : Srv) (x : Sid) (st : Stream) : Srv :=
  match s.groups st with
  | none => s
  | some g => (s.setG st (g.delRtmpPub x).1).note .pubStop x

def onNewRtmpSub (s : Srv) (x : Sid) (st : Stream) (auth : Bool) (nid : Sid) : Srv × Bool :=
  if !auth then (s, false) else
  let g := s.getOrCreate st
  let r := g.addRtmpSub x nid
  (((s.setG st r.1).spawned st g.pullIsRtsp r.2.1).note .subStart x, true)

def onDelRtmpSub (s : Srv) (x : Sid) (st : Stream) : Srv :=
  match s.groups st with
  | none => s
  | some g => (s.setG st (g.delRtmpSub x)).note .subStop x

def onNewRtspPub (s : Srv) (x : Sid) (st : Stream) (auth : Bool) : Srv × Bool :=
  if !auth then (s, false) else
  let r := (s.getOrCreate st).addRtspPub x
  if r.2.1 then ((s.setG st r.1).note .pubStart x, true) else (s, false)

def onDelRtspPub (s : Srv) (x : Sid) (st : Stream) : Srv :=
  match s.groups st with
  | none => s
  | some g => (s.setG st (g.delRtspPub x).1).note .pubStop x

def onNewRtspSubDescribe (s : Srv) (x : Sid) (st : Stream) (auth : Bool) : Srv × Bool :=
  if !auth then (s, false) else
  (((s.setG st ((s.getOrCreate st).describeRtspSub x))).note .subStart x, true)

def onNewRtspSubPlay (s : Srv) (st : Stream) (nid : Sid) : Srv :=
  let g := s.getOrCreate st
  let r := g.playRtspSub nid
  (s.setG st r.1).spawned st g.pullIsRtsp r.2.1

def onDelRtspSub (s : Srv) (x : Sid) (st : Stream) : Srv :=
  match s.groups st with
  | none => s
  | some g => (s.setG st (g.delRtspSub x)).note .subStop x

/-- `Group.DelRtmpPullSession / DelRtspPullSession` called by the pull goroutine on its own group -/
def delPull (code : Code) (s : Srv) (x : Sid) (st : Stream) : Srv :=
  match s.groups st with
  | none => s.note .pullStop x   -- (the goroutine holds its group object and notifies through it whatever the map says)
  | some g => let r := g.delPull code x; (s.setG st r.1).noteRelay r.2

end Srv

/-- the canonical outcome of one event, compared with the implementation -/
inductive Res where
  | ok                 -- callback / API call succeeded
  | refused            -- input refused: publisher disconnected / API reports failure
  | fail               -- API call reports failure (nothing found)
  | closed             -- the server ended the connection (protocol error)
  | crash              -- the server process terminates (Go panic outside any recover)
  | fwd (st : Stream)  -- the group of `st` broadcast the message
  | drop               -- nothing was broadcast
  | na                 -- the event does not apply in this state (ignored)
deriving DecidableEq, Repr

end Lal.Adm
