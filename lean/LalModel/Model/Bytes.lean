/-
  Byte-string conventions shared by every model (DESIGN.md §3).
  Multi-byte fields are specified arithmetically (div / mod by literals), never
  with shifts, so that `omega` closes the field round trips.
-/
namespace Lal

abbrev Bytes := List UInt8

/-- The byte `n mod 256`. -/
@[inline] def b8 (n : Nat) : UInt8 := UInt8.ofNat (n % 256)

def be16 (n : Nat) : Bytes := [b8 (n / 256), b8 n]
def be24 (n : Nat) : Bytes := [b8 (n / 65536), b8 (n / 256), b8 n]
def be32 (n : Nat) : Bytes := [b8 (n / 16777216), b8 (n / 65536), b8 (n / 256), b8 n]
def be64 (n : Nat) : Bytes :=
  [b8 (n / 72057594037927936), b8 (n / 281474976710656), b8 (n / 1099511627776), b8 (n / 4294967296),
   b8 (n / 16777216), b8 (n / 65536), b8 (n / 256), b8 n]
def le32 (n : Nat) : Bytes := [b8 n, b8 (n / 256), b8 (n / 65536), b8 (n / 16777216)]

def rd16 (a b : UInt8) : Nat := a.toNat * 256 + b.toNat
def rd24 (a b c : UInt8) : Nat := a.toNat * 65536 + b.toNat * 256 + c.toNat
def rd32 (a b c d : UInt8) : Nat := a.toNat * 16777216 + b.toNat * 65536 + c.toNat * 256 + d.toNat
def rd64 (a b c d e f g h : UInt8) : Nat :=
  a.toNat * 72057594037927936 + b.toNat * 281474976710656 + c.toNat * 1099511627776 + d.toNat * 4294967296 +
  e.toNat * 16777216 + f.toNat * 65536 + g.toNat * 256 + h.toNat

/-- `b[i:j]` when it is in range. -/
def slice (b : Bytes) (i n : Nat) : Bytes := (b.drop i).take n

end Lal
