import LalModel.Model.RtmpConn
import LalModel.Model.RtspConn
/-
  C03 — the remaining callers of the input slot (customize publisher, GB28181 `start_rtp_pub`, relay
  pull attempts, the HTTP-API calls of pkg/logic/server_manager__api.go, the 1 s tick of
  `ServerManager.RunLoop`) and the event alphabet `Ev` with `step` / `run`.
  Each event is one critical section of `ServerManager.mutex` (see Model/RtmpConn.lean for the one
  merge that is made).
-/
namespace Lal.Adm

def Srv.modC (s : Srv) (k : Sid) (f : Cust → Cust) : Srv :=
  match s.sess k with
  | some (.cust x) => s.setS k (.cust (f x))
  | _ => s

def Srv.modP (s : Srv) (a : Sid) (f : Pull → Pull) : Srv :=
  match s.sess a with
  | some (.pull x) => s.setS a (.pull (f x))
  | _ => s

/-! ### customize publisher (`ILalServer.AddCustomizePubSession / DelCustomizePubSession`, `FeedRtmpMsg`) -/

def custAdd (s : Srv) (k : Sid) (st : Stream) : Srv × Res :=
  if !(s.fresh k) then (s, .na) else
  let r := (s.getOrCreate st).addCustPub k
  if r.2.1 then ((s.setG st r.1).setS k (.cust { stream := st }), .ok) else (s, .refused)

def custDel (code : Code) (s : Srv) (k : Sid) : Srv × Res :=
  match s.sess k with
  | some (.cust cu) =>
    if cu.deleted then (s, .na) else
    let s1 := s.modC k (fun x => { x with deleted := true })
    (match s1.groups cu.stream with
     | none => (s1, .ok)
     | some g =>
       let s2 := s1.setG cu.stream (g.delCustPub k).1
       if code.custDispose && g.custPub = some k then (s2.modC k (fun x => { x with disposed := true }), .ok)
       else (s2, .ok))
  | _ => (s, .na)

/-- `ctx.FeedRtmpMsg` → `onRtmpMsg` = `group.OnReadRtmpAvMsg` -/
def custFeed (s : Srv) (k : Sid) : Srv × Res :=
  match s.sess k with
  | some (.cust cu) =>
    if cu.disposed then (s, .drop) else
    if (s.groups cu.stream).isSome then (s, .fwd cu.stream) else (s, .drop)
  | _ => (s, .na)

/-! ### GB28181 (`CtrlStartRtpPub`; the goroutine that runs the session and then calls `DelPsPubSession`) -/

def rtpPub (code : Code) (s : Srv) (k : Sid) (st : Stream) : Srv × Res :=
  if !(s.fresh k) then (s, .na) else
  let r := (s.getOrCreate st).startRtpPub code k
  if r.2.1 then ((s.setG st r.1).setS k (.ps { stream := st }), .ok) else (s, .refused)

def psEnd (s : Srv) (k : Sid) : Srv × Res :=
  match s.sess k with
  | some (.ps p) =>
    if p.ended then (s, .na) else
    let s1 := s.setS k (.ps { p with ended := true })
    (match s1.groups p.stream with
     | none => (s1, .ok)
     | some g => (s1.setG p.stream (g.delPsPub k).1, .ok))
  | _ => (s, .na)

/-- `OnAvPacketFromPsPubSession`: forwarded iff `rtsp2RtmpRemuxer != nil` -/
def psMedia (s : Srv) (k : Sid) : Srv × Res :=
  match s.sess k with
  | some (.ps p) =>
    if p.ended then (s, .na) else
    (match s.groups p.stream with
     | some g => if g.avRemux then (s, .fwd p.stream) else (s, .drop)
     | none => (s, .drop))
  | _ => (s, .na)

/-! ### relay pull -/

/-- `CtrlStartRelayPull` (auto-stop never) -/
def startPull (s : Srv) (st : Stream) (rtsp : Bool) (retry : Option Nat) (nid : Sid) : Srv × Res :=
  if !(s.fresh nid) then (s, .na) else
  let r := (s.getOrCreate st).startPull rtsp retry nid
  ((s.setG st r.1).spawned st rtsp r.2.1, if r.2.1.isSome then .ok else .fail)

/-- the origin answered: `OnPullSucc` / `OnDescribeResponse` → `AddRtmpPullSession / AddRtspPullSession`.
    Refused (the stream has an input by now, or the attempt was stopped / kicked while it was connecting) ⇒ the callback disposes the pull session, `Start` returns, `WaitChan` fires at once and the
    same goroutine calls `Del…PullSession`: the two critical sections are merged into this event (the
    refused Add changes nothing another goroutine can see). -/
def pullAttach (code : Code) (s : Srv) (a : Sid) : Srv × Res :=
  match s.sess a with
  | some (.pull p) =>
    if p.st != .inflight then (s, .na) else
    (match s.groups p.stream with
     | none => (s, .na)
     | some g =>
       let r := if p.rtsp then g.addRtspPull code a else g.addRtmpPull code a
       if r.2.1 then (((s.setG p.stream r.1).modP a (fun x => { x with st := .attached, wasAttached := true })).noteRelay r.2.2, .ok)
       else ((s.modP a (fun x => { x with st := .done })).delPull code a p.stream, .refused))
  | _ => (s, .na)

/-- the pull goroutine ends (`Start` failed, or `WaitChan` fired): `DelRtmpPullSession / DelRtspPullSession` -/
def pullDone (code : Code) (s : Srv) (a : Sid) : Srv × Res :=
  match s.sess a with
  | some (.pull p) =>
    if p.st = .done then (s, .na) else
    ((s.modP a (fun x => { x with st := .done })).delPull code a p.stream, .ok)
  | _ => (s, .na)

/-- the pull session read an audio / video message: `onReadRtmpAvMsg = group.OnReadRtmpAvMsg`, set when
    the session was created -/
def pullMedia (code : Code) (s : Srv) (a : Sid) : Srv × Res :=
  match s.sess a with
  | some (.pull p) =>
    if !(p.st = .inflight || p.st = .attached) then (s, .na) else
    if code.pullSrcCheck && p.st != .attached then (s, .drop) else
    if (s.groups p.stream).isSome then (s, .fwd p.stream) else (s, .drop)
  | _ => (s, .na)

/-- `CtrlStopRelayPull` (succeeds iff `StopPull` names a session: the attached one, or the attempt that
    is still connecting) -/
def stopPull (code : Code) (s : Srv) (st : Stream) : Srv × Res :=
  match s.groups st with
  | none => (s, .fail)
  | some g => let r := g.stopPull code; (s.setG st r.1, if r.2.1.isSome then .ok else .fail)

/-- the prefix of a session's unique key -/
def kkind (s : Srv) (x : Sid) : Grp.KKind :=
  match s.sess x with
  | some (.rtmp _) => .rtmp
  | some (.pull _) => .pull
  | some (.rtspPub _) => .rtspPub
  | some (.ps _) => .psPub
  | some (.rtspSub _) => .rtspSub
  | _ => .other

/-- `CtrlKickSession` -/
def kick (code : Code) (s : Srv) (st : Stream) (x : Sid) : Srv × Res :=
  match s.groups st with
  | none => (s, .fail)
  | some g => let r := g.kick code (kkind s x) x; (s.setG st r.1, if r.2.1 then .ok else .fail)

/-- the part of one 1 s tick of `ServerManager.RunLoop` that concerns group `st` -/
def tick (s : Srv) (st : Stream) (nid : Sid) : Srv × Res :=
  if !(s.fresh nid) then (s, .na) else
  match s.groups st with
  | none => (s, .ok)
  | some g =>
    if g.isInactive then (s.eraseG st, .ok)
    else let r := g.tick nid; ((s.setG st r.1).spawned st g.pullIsRtsp r.2.1, .ok)

/-- `StatGroup`: publisher, pull session, subscribers -/
def statView (s : Srv) (st : Stream) : Option Sid × Option Sid × List Sid :=
  match s.groups st with
  | none => (none, none, [])
  | some g => (g.statPub, g.statPull, g.statSubs)

inductive Ev where
  | rOpen (c : Sid) | rPublish (c : Sid) (st : Stream) (auth : Bool)
  | rPlay (c : Sid) (st : Stream) (auth : Bool) (nid : Sid) | rMedia (c : Sid) | rClose (c : Sid)
  | sOpen (c : Sid) | sAnnounce (c p : Sid) (st : Stream) (auth : Bool)
  | sDescribe (c q : Sid) (st : Stream) (auth : Bool) | sSetup (c : Sid) | sRecord (c : Sid)
  | sPlay (c nid : Sid) | sMedia (c : Sid) | sClose (c : Sid)
  | custAdd (k : Sid) (st : Stream) | custDel (k : Sid) | custFeed (k : Sid)
  | rtpPub (k : Sid) (st : Stream) | psEnd (k : Sid) | psMedia (k : Sid)
  | startPull (st : Stream) (rtsp : Bool) (retry : Option Nat) (nid : Sid)
  | pullAttach (a : Sid) | pullDone (a : Sid) | pullMedia (a : Sid)
  | stopPull (st : Stream) | kick (st : Stream) (x : Sid) | tick (st : Stream) (nid : Sid)
  | stat (st : Stream)
deriving DecidableEq, Repr

def step (code : Code) (s : Srv) : Ev → Srv × Res
  | .rOpen c => rOpen s c
  | .rPublish c st a => rPublish code s c st a
  | .rPlay c st a n => rPlay code s c st a n
  | .rMedia c => rMedia s c
  | .rClose c => rClose s c
  | .sOpen c => sOpen s c
  | .sAnnounce c p st a => sAnnounce code s c p st a
  | .sDescribe c q st a => sDescribe code s c q st a
  | .sSetup c => sSetup code s c
  | .sRecord c => sRecord s c
  | .sPlay c n => sPlay code s c n
  | .sMedia c => sMedia code s c
  | .sClose c => sClose code s c
  | .custAdd k st => custAdd s k st
  | .custDel k => custDel code s k
  | .custFeed k => custFeed s k
  | .rtpPub k st => rtpPub code s k st
  | .psEnd k => psEnd s k
  | .psMedia k => psMedia s k
  | .startPull st r n nid => startPull s st r n nid
  | .pullAttach a => pullAttach code s a
  | .pullDone a => pullDone code s a
  | .pullMedia a => pullMedia code s a
  | .stopPull st => stopPull code s st
  | .kick st x => kick code s st x
  | .tick st n => tick s st n
  | .stat _ => (s, .ok)

def init : Srv := {}

def run (code : Code) (evs : List Ev) : Srv := evs.foldl (fun s e => (step code s e).1) init

/-- the outcome of every event, in order -/
def results (code : Code) (s : Srv) : List Ev → List Res
  | [] => []
  | e :: r => (step code s e).2 :: results code (step code s e).1 r

end Lal.Adm
