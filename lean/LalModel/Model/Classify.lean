import LalModel.Model.Bytes
/-
  Model of the `base.RtmpMsg` classification helpers (pkg/base/t_rtmp.go) used by the group's
  fan-out. These Go functions index `Payload[0..4]`; this total model answers `false` where the
  payload is too short for the bytes a helper reads (the fault-aware versions that say exactly
  where the Go panics belong to C05). `typ` = MsgTypeId (8 audio, 9 video, 18 metadata).
-/
namespace Lal.Classify

def b (p : Bytes) (i : Nat) : Nat := (p[i]?.map (·.toNat)).getD 256   -- 256 = "not there"

def isExt (p : Bytes) : Bool := b p 0 < 256 && b p 0 / 128 % 2 == 1

def isHvc1 (p : Bytes) : Bool := b p 1 == 0x68 && b p 2 == 0x76 && b p 3 == 0x63 && b p 4 == 0x31

/-- `IsAvcKeySeqHeader` -/
def isAvcKeySeqHeader (typ : Nat) (p : Bytes) : Bool := typ == 9 && b p 0 == 0x17 && b p 1 == 0

/-- `IsHevcKeySeqHeader` -/
def isHevcKeySeqHeader (typ : Nat) (p : Bytes) : Bool :=
  typ == 9 &&
  (if isExt p then isHvc1 p && b p 0 % 16 == 0
   else b p 0 == 0x1c && b p 1 == 0)

def isVideoKeySeqHeader (typ : Nat) (p : Bytes) : Bool := isAvcKeySeqHeader typ p || isHevcKeySeqHeader typ p

/-- `IsAvcKeyNalu` -/
def isAvcKeyNalu (typ : Nat) (p : Bytes) : Bool := typ == 9 && b p 0 == 0x17 && b p 1 == 1

/-- `IsHevcKeyNalu` -/
def isHevcKeyNalu (typ : Nat) (p : Bytes) : Bool :=
  typ == 9 &&
  (if isExt p then b p 0 / 16 % 8 == 1 && b p 0 % 16 != 0
   else b p 0 == 0x1c && b p 1 == 1)

def isVideoKeyNalu (typ : Nat) (p : Bytes) : Bool := isAvcKeyNalu typ p || isHevcKeyNalu typ p

/-- `IsAacSeqHeader` -/
def isAacSeqHeader (typ : Nat) (p : Bytes) : Bool := typ == 8 && b p 0 < 256 && b p 0 / 16 == 10 && b p 1 == 0

end Lal.Classify
