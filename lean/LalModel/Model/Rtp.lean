import LalModel.Model.Bytes
import LalModel.Model.Go
/-
  Model of the packing side of pkg/rtprtcp:
    rtp_packet.go   RtpHeader.PackTo, MakeDefaultRtpHeader, MakeRtpPacket, ParseRtpHeader, ParseRtpPacket, RtpPacket.Body
    rtp_packer_payload_avc_hevc.go  RtpPackerPayloadAvcHevc.Pack (Nalu mode) / PackNal (single + FU-A / FU)
    rtp_packer_payload_aac.go / _pcm.go / _opus.go
    rtp_packer.go   RtpPacker.Pack / genSeq
  Go fixed-width values are naturals; wrap-around is written `% 2^k` where the code wraps.
-/
namespace Lal.Rtp
open Lal

/-- `rtprtcp.RtpHeader` (exported and unexported fields). -/
structure RtpHeader where
  version          : Nat := 0
  padding          : Nat := 0
  extension        : Nat := 0
  csrcCount        : Nat := 0
  mark             : Nat := 0
  packetType       : Nat := 0
  seq              : Nat := 0
  timestamp        : Nat := 0
  ssrc             : Nat := 0
  csrc             : List Nat := []
  extensionProfile : Nat := 0
  extensions       : Bytes := []
  payloadOffset    : Nat := 0
  paddingLength    : Nat := 0
deriving Repr, DecidableEq, Inhabited

/-- `rtprtcp.RtpPacket`; `pos` is the unexported `positionType` (0 = not computed / unknown). -/
structure RtpPacket where
  hdr : RtpHeader
  raw : Bytes
  pos : Nat := 0
deriving Repr, DecidableEq, Inhabited

/-- `RtpHeader.PackTo` : the 12 fixed bytes (CSRCs are not written by the Go code). All fields are `uint8`
    in Go, the shifts and ors are 8-bit. -/
def packTo (h : RtpHeader) : Bytes :=
  [b8 (h.csrcCount ||| h.extension * 16 ||| h.padding * 32 ||| h.version * 64),
   b8 (h.packetType ||| h.mark * 128)] ++ be16 h.seq ++ be32 h.timestamp ++ be32 h.ssrc

/-- `MakeDefaultRtpHeader` -/
def defaultHeader : RtpHeader := { version := 2, payloadOffset := 12 }

/-- `MakeRtpPacket(h, payload)` -/
def makeRtpPacket (h : RtpHeader) (payload : Bytes) : RtpPacket :=
  { hdr := h, raw := packTo h ++ payload }

/-- the CSRC loop of `ParseRtpHeader`: `n` identifiers still to read at `offset`. -/
def readCsrc (b : Bytes) : Nat → Nat → GoM (List Nat × Nat)
  | 0, off => .ok ([], off)
  | n+1, off =>
    if off + 4 > b.length then .error .err else
    match b.drop off with
    | a :: c :: d :: e :: _ =>
      match readCsrc b n (off + 4) with
      | .ok (l, o) => .ok (rd32 a c d e :: l, o)
      | .error f => .error f
    | _ => .error .err

/-- `rtprtcp.ParseRtpHeader`. `.error .err` = `base.ErrRtpRtcpShortBuffer`. -/
def parseRtpHeader (b : Bytes) : GoM RtpHeader :=
  match b with
  | b0 :: b1 :: s0 :: s1 :: t0 :: t1 :: t2 :: t3 :: c0 :: c1 :: c2 :: c3 :: _ =>
    let cc := b0.toNat % 16
    let ext := b0.toNat / 16 % 2
    let pad := b0.toNat / 32 % 2
    match readCsrc b cc 12 with
    | .error f => .error f
    | .ok (csrc, off) =>
      let h0 : RtpHeader :=
        { version := b0.toNat / 64, padding := pad, extension := ext, csrcCount := cc,
          mark := b1.toNat / 128, packetType := b1.toNat % 128,
          seq := rd16 s0 s1, timestamp := rd32 t0 t1 t2 t3, ssrc := rd32 c0 c1 c2 c3, csrc := csrc }
      let fin (h : RtpHeader) (off : Nat) : GoM RtpHeader :=
        if off ≥ b.length then .error .err else
        -- a padding count that leaves no payload is a short buffer (the guard that keeps `Body()` in range)
        if pad = 1 ∧ off + (b.getLastD 0).toNat ≥ b.length then .error .err else
        .ok { h with payloadOffset := off,
                     paddingLength := if pad = 1 then (b.getLastD 0).toNat else 0 }
      if ext ≠ 0 then
        if off + 4 > b.length then .error .err else
        match b.drop off with
        | p0 :: p1 :: l0 :: l1 :: _ =>
          -- `int(4*extensionLength)` : the product is computed in uint16
          let el4 := (4 * rd16 l0 l1) % 65536
          if off + 4 + el4 > b.length then .error .err else
          fin { h0 with extensionProfile := rd16 p0 p1, extensions := (b.drop (off + 4)).take el4 } (off + 4 + el4)
        | _ => .error .err
      else fin h0 off
  | _ => .error .err

/-- `rtprtcp.ParseRtpPacket` -/
def parseRtpPacket (b : Bytes) : GoM RtpPacket :=
  match parseRtpHeader b with
  | .ok h => .ok { hdr := h, raw := b }
  | .error f => .error f

/-- `RtpPacket.Body()` : `Raw[payloadOffset : len(Raw)-paddingLength]` (panics when out of range). -/
def RtpPacket.body (p : RtpPacket) : GoM Bytes :=
  let off := if p.hdr.payloadOffset = 0 then 12 else p.hdr.payloadOffset
  if p.hdr.padding = 1 then
    if p.hdr.paddingLength > p.raw.length then .error (.panic "Body: negative slice bound")
    else slice? "Body" p.raw off (p.raw.length - p.hdr.paddingLength)
  else from? "Body" p.raw off

/-! ### payload packers -/

/-- FU payload header bytes. `avc`: FU indicator + FU header (RFC 6184 §5.8);
    `hevc`: 2-byte payload header + FU header (RFC 7798 §4.4.3).
    `n0 n1` are the first two bytes of the NAL unit. -/
def fuHeader (hevc : Bool) (n0 n1 : UInt8) (first last : Bool) : Bytes :=
  let se := (if first then 128 else 0) + (if last then 64 else 0)
  if hevc then
    -- item[0] = (nal[0] & 0x81) | NaluTypeHevcFua<<1 ; item[1] = nal[1] ; item[2] = nalType | S | E
    [b8 (n0.toNat / 128 * 128 + 98 + n0.toNat % 2), n1, b8 (n0.toNat / 2 % 64 + se)]
  else
    -- item[0] = NaluTypeAvcFua | nri ; item[1] = nalType | S | E
    [b8 (28 + n0.toNat / 32 % 4 * 32), b8 (n0.toNat % 32 + se)]

def fuHeaderSize (hevc : Bool) : Nat := if hevc then 3 else 2

/-- The `for` loop of `PackNal` over `rest = nal[bpos:]`; `chunk = maxSize - headerSize`.
    The last packet never carries the start bit (the Go code does not set it there). -/
def fuLoop (hevc : Bool) (n0 n1 : UInt8) (chunk : Nat) : Nat → Bool → Bytes → List Bytes
  | 0, _, _ => []
  | fuel+1, first, rest =>
    if rest.length > chunk then
      (fuHeader hevc n0 n1 first false ++ rest.take chunk) :: fuLoop hevc n0 n1 chunk fuel false (rest.drop chunk)
    else [fuHeader hevc n0 n1 false true ++ rest]

/-- `RtpPackerPayloadAvcHevc.PackNal(nal, maxSize)` for `maxSize ≥ 1`.
    `maxSize < headerSize` indexes past a short item (panic); `maxSize = headerSize` makes no progress
    (the Go loop never ends; reported as a fault, never run by the harness). -/
def packNal (hevc : Bool) (nal : Bytes) (maxSize : Nat) : GoM (List Bytes) :=
  if nal.length ≤ maxSize then .ok [nal]
  else if maxSize < fuHeaderSize hevc then .error (.panic "PackNal: item index")
  else if maxSize = fuHeaderSize hevc then .error (.panic "PackNal: no progress")
  else
    let skip := if hevc then 2 else 1
    .ok (fuLoop hevc (nal.getD 0 0) (nal.getD 1 0) (maxSize - fuHeaderSize hevc) nal.length true (nal.drop skip))

/-- `RtpPackerPayloadAvcHevc.Pack` with the default option (`RtpPackerPayloadAvcHevcTypeNalu`).
    The line protocol writes an empty input as `-`, which the harness passes as a nil slice. -/
def avcHevcPack (hevc : Bool) (inp : Bytes) (maxSize : Nat) : GoM (List Bytes) :=
  if inp = [] ∨ maxSize = 0 then .ok [] else packNal hevc inp maxSize

/-- `RtpPackerPayloadAac.Pack` : AU-headers-length = 16 bits, one AU-header (13-bit size, 3-bit index). -/
def aacPack (inp : Bytes) (maxSize : Nat) : List Bytes :=
  if inp = [] ∨ maxSize = 0 then []
  else [[0, 16, b8 (inp.length / 32), b8 (inp.length % 32 * 8)] ++ inp]

/-- `RtpPackerPayloadPcm.Pack` and `RtpPackerPayloadOpus.Pack` -/
def rawPack (inp : Bytes) (maxSize : Nat) : List Bytes :=
  if inp = [] ∨ maxSize = 0 then [] else [inp]

inductive Kind where
  | avc | hevc | aac | pcm | opus
deriving Repr, DecidableEq

def payloadPack : Kind → Bytes → Nat → GoM (List Bytes)
  | .avc, i, m => avcHevcPack false i m
  | .hevc, i, m => avcHevcPack true i m
  | .aac, i, m => .ok (aacPack i m)
  | .pcm, i, m => .ok (rawPack i m)
  | .opus, i, m => .ok (rawPack i m)

/-! ### RtpPacker -/

/-- `h.Timestamp = uint32(float64(ms) * float64(clockRate) / 1000)` for `ms*rate < 2^53`
    (exact product; the correctly rounded quotient has the same integer part — see the trusted base). -/
def rtpTimestamp (ms rate : Nat) : Nat := ms * rate / 1000 % 4294967296

def mkPacket (pt ts ssrc mark seq : Nat) (payload : Bytes) : RtpPacket :=
  makeRtpPacket { defaultHeader with mark := mark, packetType := pt % 256, seq := seq, timestamp := ts, ssrc := ssrc } payload

/-- the loop of `RtpPacker.Pack` : marker on the last payload, `genSeq` = use then increment (`uint16`). -/
def packLoop (pt ts ssrc : Nat) : Nat → List Bytes → List RtpPacket
  | _, [] => []
  | seq, [p] => [mkPacket pt ts ssrc 1 seq p]
  | seq, p :: q :: rest => mkPacket pt ts ssrc 0 seq p :: packLoop pt ts ssrc ((seq + 1) % 65536) (q :: rest)

/-- `RtpPacker.Pack` : the packets and the packer's next sequence number. -/
def packerPack (kind : Kind) (rate ssrc maxSize : Nat) (seq : Nat) (pt ms : Nat) (payload : Bytes) :
    GoM (List RtpPacket × Nat) :=
  match payloadPack kind payload maxSize with
  | .error f => .error f
  | .ok ps => .ok (packLoop pt (rtpTimestamp ms rate) ssrc seq ps, (seq + ps.length) % 65536)

/-- consecutive `Pack` calls on one `RtpPacker`, one per frame `(ms, payload)` : the packets of each call -/
def packerPackAll (kind : Kind) (rate ssrc maxSize pt : Nat) : Nat → List (Nat × Bytes) → GoM (List (List RtpPacket))
  | _, [] => .ok []
  | seq, (ms, f) :: rest =>
    match packerPack kind rate ssrc maxSize seq pt ms f with
    | .error e => .error e
    | .ok (pkts, seq') =>
      match packerPackAll kind rate ssrc maxSize pt seq' rest with
      | .error e => .error e
      | .ok r => .ok (pkts :: r)

end Lal.Rtp
