import LalModel.Model.Go
import LalModel.Model.Amf0
import LalModel.Model.Chunk
import LalModel.Generated.C17
/-
  Model of `rtmp.Buffer` and of the command writers of `rtmp.MessagePacker` that carry caller-supplied
  strings (pkg/rtmp/message_packer.go: writeConnect, writePlay, writePublish, ChunkAndWrite), with the
  exact sequence of `Write` calls `Amf0.Write*` / `binary.Write` make (pkg/rtmp/amf0.go).

  `core` is the backing array: `len(core) = cap(core)` always (`make([]byte, n)`), so Go's capacity is
  `core.length`. Go panics are values (`Model/Go.lean`).
-/
namespace Lal.PackerBuf

structure PBuf where
  core : Bytes
  readPos : Nat
  writePos : Nat
deriving Repr, DecidableEq

/-- `NewBuffer(n)` -/
def newBuffer (n : Nat) : PBuf := { core := List.replicate n 0, readPos := 0, writePos := 0 }

/-- `for newLen-b.writePos < n { newLen *= 2 }` with `need = writePos + n`; fuelled (`need` steps suffice) -/
def growLen : Nat → Nat → Nat → Nat
  | 0, len, _ => len
  | fuel+1, len, need => if len < need then growLen fuel (len * 2) need else len

/-- the capacity `grow` allocates: `cap*2` (128 for an empty buffer), doubled until `data + n` fits -/
def newCap (cap data n : Nat) : Nat := growLen (data + n) (if cap = 0 then 128 else cap * 2) (data + n)

/-- `Buffer.grow(n)` (after `fix: rtmp message packer Buffer.grow grows until the write fits`): the pending data
    `core[readPos:writePos]` moves to the front of the new array -/
def PBuf.grow (b : PBuf) (n : Nat) : GoM PBuf :=
  if b.writePos + n ≤ b.core.length then .ok b
  else if b.readPos ≤ b.writePos ∧ b.writePos ≤ b.core.length then
    let dataLen := b.writePos - b.readPos
    .ok { core := (b.core.drop b.readPos).take dataLen ++ List.replicate (newCap b.core.length dataLen n - dataLen) 0,
          readPos := 0, writePos := dataLen }
  else .error (.panic "Buffer.grow: b.core[b.readPos:b.writePos]")

/-- the code before the fix: one doubling whatever `n` (kept to state the defect, not used by the model) -/
def PBuf.growOld (b : PBuf) (n : Nat) : GoM PBuf :=
  if b.writePos + n ≤ b.core.length then .ok b
  else if b.readPos ≤ b.writePos ∧ b.writePos ≤ b.core.length then
    let newLen := if b.core.length = 0 then 128 else b.core.length * 2
    .ok { core := ((b.core.drop b.readPos).take (b.writePos - b.readPos) ++ List.replicate newLen 0).take newLen,
          readPos := 0, writePos := b.writePos }
  else .error (.panic "Buffer.grow: b.core[b.readPos:b.writePos]")

/-- `copy(core[wp:], p)`: copies what fits -/
def copyAt (core : Bytes) (wp : Nat) (p : Bytes) : Bytes :=
  core.take wp ++ p.take (core.length - wp) ++ core.drop (wp + p.length)

/-- `Buffer.Write(p)` -/
def PBuf.write (b : PBuf) (p : Bytes) : GoM PBuf := do
  let b ← b.grow p.length
  if b.writePos ≤ b.core.length then
    .ok { b with core := copyAt b.core b.writePos p, writePos := b.writePos + p.length }
  else .error (.panic "Buffer.Write: b.core[b.writePos:]")

/-- `Buffer.WriteByte(c)` -/
def PBuf.writeByte (b : PBuf) (c : UInt8) : GoM PBuf := do
  let b ← b.grow 1
  if b.writePos < b.core.length then
    .ok { b with core := b.core.take b.writePos ++ [c] ++ b.core.drop (b.writePos + 1), writePos := b.writePos + 1 }
  else .error (.panic "Buffer.WriteByte: b.core[b.writePos]")

/-- `Buffer.Bytes()` = `b.core[b.readPos:b.writePos]` -/
def PBuf.bytes (b : PBuf) : GoM Bytes := slice? "Buffer.Bytes: b.core[b.readPos:b.writePos]" b.core b.readPos b.writePos

def PBuf.reset (b : PBuf) : PBuf := { b with readPos := 0, writePos := 0 }
def PBuf.modWritePos (b : PBuf) (p : Nat) : PBuf := { b with writePos := p }

/-- a run of `Write` calls -/
def PBuf.writes (b : PBuf) : List Bytes → GoM PBuf
  | [] => .ok b
  | p :: ps => do let b ← b.write p; b.writes ps

/-! ### the `Write` calls of the AMF0 writers -/

/-- "connect" -/
def sConnect : Bytes := [0x63, 0x6f, 0x6e, 0x6e, 0x65, 0x63, 0x74]
/-- "play" -/
def sPlay : Bytes := [0x70, 0x6c, 0x61, 0x79]
/-- "publish" -/
def sPublish : Bytes := [0x70, 0x75, 0x62, 0x6c, 0x69, 0x73, 0x68]
/-- "live" -/
def sLive : Bytes := [0x6c, 0x69, 0x76, 0x65]
/-- "app" -/
def sApp : Bytes := [0x61, 0x70, 0x70]
/-- "type" -/
def sType : Bytes := [0x74, 0x79, 0x70, 0x65]
/-- "nonprivate" -/
def sNonprivate : Bytes := [0x6e, 0x6f, 0x6e, 0x70, 0x72, 0x69, 0x76, 0x61, 0x74, 0x65]
/-- "flashVer" -/
def sFlashVer : Bytes := [0x66, 0x6c, 0x61, 0x73, 0x68, 0x56, 0x65, 0x72]
/-- "fpad" -/
def sFpad : Bytes := [0x66, 0x70, 0x61, 0x64]
/-- "tcUrl" -/
def sTcUrl : Bytes := [0x74, 0x63, 0x55, 0x72, 0x6c]
/-- "LNX 9,0,124,2" -/
def flashVerPull : Bytes := [0x4c, 0x4e, 0x58, 0x20, 0x39, 0x2c, 0x30, 0x2c, 0x31, 0x32, 0x34, 0x2c, 0x32]

def wString (s : Bytes) : List Bytes :=
  if s.length < 65536 then [[0x02], be16 s.length, s] else [[0x0c], be32 s.length, s]
def wNumber (bits : Bytes) : List Bytes := [[0x00], bits]
def wNull : List Bytes := [[0x05]]
def wBoolean (v : Bool) : List Bytes := [[0x01], [if v then 1 else 0]]

/-- one key/value of `Amf0.WriteObject` -/
def wPair (k : Bytes) (v : List Bytes) : List Bytes := be16 k.length :: k :: v
def wObject (pairs : List (List Bytes)) : List Bytes := [[0x03]] ++ pairs.flatten ++ [[0, 0, 9]]

/-- float64 bits of the transaction ids 1 and 3 -/
def f64_1 : Bytes := [0x3f, 0xf0, 0, 0, 0, 0, 0, 0]
def f64_3 : Bytes := [0x40, 0x08, 0, 0, 0, 0, 0, 0]


def connectWrites (app tcUrl : Bytes) (isPush : Bool) : List Bytes :=
  wString sConnect ++ wNumber f64_1 ++
  wObject [ wPair sApp (wString app),
            wPair sType (wString sNonprivate),
            wPair sFlashVer (wString (if isPush then Gen.flashVerPush else flashVerPull)),
            wPair sFpad (wBoolean false),
            wPair sTcUrl (wString tcUrl) ]

def playWrites (name : Bytes) : List Bytes :=
  wString sPlay ++ wNumber f64_3 ++ wNull ++ wString name

def publishWrites (name : Bytes) : List Bytes :=
  wString sPublish ++ wNumber f64_3 ++ wNull ++ wString name ++ wString sLive

/-! ### ChunkAndWrite -/

def csidOverConnection : Nat := 3
def csidOverStream : Nat := 5
def typeCommandAmf0 : Nat := 20

/-- the message `ChunkAndWrite` hands to the connection for a body: one chunk with a hand-written
    12-byte header when the body fits the local chunk size, `Message2Chunks` otherwise -/
def frame (body : Bytes) (csid typ sid : Nat) : Bytes :=
  if body.length ≤ Gen.localChunkSize then
    [b8 csid, 0, 0, 0] ++ be24 body.length ++ [b8 typ] ++ le32 sid ++ body
  else
    Chunk.message2Chunks body { csid := csid, msgLen := body.length, typ := typ, msid := sid, ts := 0 } none Gen.localChunkSize

/-- `packer.ChunkAndWrite(writer, csid, typeid, streamid)` against a writer that takes everything:
    the bytes handed to the writer and the buffer afterwards (`Reset`). -/
def chunkAndWrite (b : PBuf) (csid typ sid : Nat) : GoM (Bytes × PBuf) := do
  let all ← b.bytes
  if all.length < 12 then .error (.panic "writeSingleChunkHeader: out[..] on a buffer shorter than 12")
  else .ok (frame (all.drop 12) csid typ sid, b.reset)

/-- a command writer: `ModWritePos(12)`, the AMF0 writes, `ChunkAndWrite` -/
def command (b : PBuf) (ws : List Bytes) (csid sid : Nat) : GoM (Bytes × PBuf) := do
  let b ← (b.modWritePos 12).writes ws
  chunkAndWrite b csid typeCommandAmf0 sid

def writeConnect (b : PBuf) (app tcUrl : Bytes) (isPush : Bool) : GoM (Bytes × PBuf) :=
  command b (connectWrites app tcUrl isPush) csidOverConnection 0
def writePlay (b : PBuf) (name : Bytes) (sid : Nat) : GoM (Bytes × PBuf) :=
  command b (playWrites name) csidOverStream sid
def writePublish (b : PBuf) (name : Bytes) (sid : Nat) : GoM (Bytes × PBuf) :=
  command b (publishWrites name) csidOverStream sid

/-- `NewMessagePacker()` -/
def newPacker : PBuf := newBuffer Gen.packerInitCap

end Lal.PackerBuf
