import LalModel.Model.Bytes
/- Hex and small text helpers for the line protocol (driver only; nothing is proved about them). -/
namespace Lal.Hex

def hexDigit (n : Nat) : Char :=
  if n < 10 then Char.ofNat (48 + n) else Char.ofNat (87 + n)

def ofBytes (b : Bytes) : String :=
  if b.isEmpty then "-" else
  String.ofList (b.foldr (fun x acc => hexDigit (x.toNat / 16) :: hexDigit (x.toNat % 16) :: acc) [])

def digitVal (c : Char) : Option Nat :=
  if '0' ≤ c ∧ c ≤ '9' then some (c.toNat - 48)
  else if 'a' ≤ c ∧ c ≤ 'f' then some (c.toNat - 87)
  else if 'A' ≤ c ∧ c ≤ 'F' then some (c.toNat - 55)
  else none

def parseChars : List Char → Bytes → Option Bytes
  | [], acc => some acc.reverse
  | [_], _ => none
  | a :: b :: rest, acc =>
    match digitVal a, digitVal b with
    | some x, some y => parseChars rest (UInt8.ofNat (x * 16 + y) :: acc)
    | _, _ => none

def toBytes (s : String) : Option Bytes :=
  if s == "-" then some [] else parseChars s.toList []

end Lal.Hex
