import LalModel.Model.Auth
/-
  Model of the admission glue of pkg/logic/server_manager__.go as far as C14 goes: for every entry point
  (`OnNewRtmpPubSession`, `OnNewRtmpSubSession`, `OnNewHttpflvSubSession`, `OnNewHttptsSubSession`,
  `OnNewRtspPubSession`, `OnNewRtspSubSessionDescribe` after `handleDescribe`'s authentication stage, `serveHls`)
  the authentication callback is consulted FIRST; only when it returns nil the session is attached to its group
  (`getOrCreateGroup` + `Add…Session`), listed in the statistics and notified (`on_pub_start` / `on_sub_start`).
  `CtrlKickSession` / `Group.KickSession`: the session whose unique key equals the given id is disposed.

  The state keeps what an outsider can observe: attached sessions (what `StatAllGroup` lists), notifications sent,
  connections closed by the server.
-/
namespace Lal.Admission
open Lal.Str Lal.Auth

inductive Entry where
  | rtmpPub | rtmpSub | flvSub | tsSub | hlsM3u8 | hlsTs | rtspPub | rtspSub
deriving Repr, DecidableEq

def Entry.dir : Entry → Dir
  | .rtmpPub | .rtspPub => .pub
  | .hlsM3u8 | .hlsTs => .hls
  | _ => .sub

/-- `info.Protocol` of the session type -/
def Entry.protocol : Entry → Bytes
  | .rtmpPub | .rtmpSub => Gen.c14ProtoRtmp
  | .flvSub => Gen.c14ProtoFlv
  | .tsSub => Gen.c14ProtoTs
  | .hlsM3u8 | .hlsTs => Gen.c14ProtoHls
  | .rtspPub | .rtspSub => Gen.c14ProtoRtsp

/-- an attached session: unique key, stream, entry point -/
structure Session where
  id : Nat
  stream : Bytes
  entry : Entry
deriving Repr, DecidableEq

structure Sm where
  sessions : List Session := []   -- what the statistics list
  notified : List (Bytes × Entry) := []   -- on_pub_start / on_sub_start sent
  closed : List Nat := []         -- sessions disposed by the server
  nextId : Nat := 0
deriving Repr, DecidableEq

structure Outcome where
  admitted : Bool
  /-- the request got something beyond protocol chatter: the HTTP response header / file, the 200 to ANNOUNCE -/
  answered : Bool
deriving Repr, DecidableEq

/-- does the admitted request of this kind get an immediate answer when the stream has no publisher -/
def Entry.answers : Entry → Bool
  | .flvSub | .tsSub | .hlsM3u8 | .hlsTs | .rtspPub => true
  | _ => false

/-- does an admitted request of this kind become a listed, notified session (HLS without the sub-session mode does not) -/
def Entry.attaches : Entry → Bool
  | .hlsM3u8 | .hlsTs => false
  | _ => true

/-- the decision each entry point takes before anything else: RTSP DESCRIBE has passed `handleAuthorized`
    (`rtspPassed`, irrelevant for the others), the HLS client is not black-listed (`blacklisted`, HLS only), and
    the authentication callback returns nil (`.ts` files are served without consulting it) -/
def gate (E : Ext) (cfg : SimpleAuthConfig) (e : Entry) (stream query : Bytes) (rtspPassed blacklisted : Bool) : Bool :=
  match e with
  | .rtspSub => rtspPassed && admission E cfg .sub e.protocol stream query == .ok
  | .hlsM3u8 => admission E cfg .hls e.protocol stream query == .ok && !blacklisted
  | .hlsTs => !blacklisted
  | e => admission E cfg e.dir e.protocol stream query == .ok

/-- one request arriving at the server -/
def onNew (E : Ext) (cfg : SimpleAuthConfig) (sm : Sm) (e : Entry) (stream query : Bytes) (rtspPassed blacklisted : Bool) :
    Sm × Outcome :=
  if !gate E cfg e stream query rtspPassed blacklisted then (sm, ⟨false, false⟩)
  else if e.attaches then
    ({ sm with sessions := ⟨sm.nextId, stream, e⟩ :: sm.sessions, notified := (stream, e) :: sm.notified, nextId := sm.nextId + 1 },
     ⟨true, e.answers⟩)
  else (sm, ⟨true, e.answers⟩)

/-- `CtrlKickSession(stream, id)`: found → the session is disposed (connection closed) and, once its read loop
    has ended, removed from the group; not found → nothing changes. Returns whether it was found. -/
def kick (sm : Sm) (stream : Bytes) (id : Nat) : Sm × Bool :=
  if sm.sessions.any (fun s => s.id == id && s.stream == stream) then
    ({ sm with sessions := sm.sessions.filter (fun s => !(s.id == id && s.stream == stream)), closed := id :: sm.closed }, true)
  else (sm, false)

end Lal.Admission
