import LalModel.Model.Go
/-
  Model of pkg/sdp: Pack (pack.go), ParseSdp2RawContext / ParseM / ParseARtpMap / ParseAFmtPBase /
  ParseAControl (parse_raw.go), ParseSdp2LogicContext (parse_logic.go), ParseAsc / ParseSpsPps /
  ParseVpsSpsPps (avconfig.go).

  Text is `Bytes` restricted to ASCII (Go strings are byte strings; `strings.TrimSpace` and
  `strings.EqualFold` are modelled for ASCII input only). base64 (`encoding/base64.StdEncoding`)
  and hex (`encoding/hex`) are PARAMETERS (`Codec`): the model never looks inside them, the theorems use
  only the laws of `CodecLaws`. `DecodeString` returns the bytes decoded before an error together with
  the error, hence `Bytes × Bool`.
-/
namespace Lal.Sdp

def asc (s : String) : Bytes := s.toList.map fun c => UInt8.ofNat c.toNat

structure Codec where
  b64enc : Bytes → Bytes
  b64dec : Bytes → Bytes × Bool
  hexenc : Bytes → Bytes
  hexdec : Bytes → Bytes × Bool

/- ---------------- the few `strings` / `strconv` functions used ---------------- -/

/-- `strings.Split(s, "\r\n")` -/
def splitCRLF : Bytes → List Bytes
  | [] => [[]]
  | 13 :: 10 :: rest => [] :: splitCRLF rest
  | x :: rest =>
    match splitCRLF rest with
    | l :: ls => (x :: l) :: ls
    | [] => [[x]]

/-- `strings.Split(s, c)` for a one-byte separator -/
def splitByte (c : UInt8) : Bytes → List Bytes
  | [] => [[]]
  | x :: rest =>
    if x = c then [] :: splitByte c rest
    else match splitByte c rest with
      | l :: ls => (x :: l) :: ls
      | [] => [[x]]

/-- `strings.SplitN(s, c, 2)`: `none` when `c` does not occur (the result has one element) -/
def cut (c : UInt8) : Bytes → Option (Bytes × Bytes)
  | [] => none
  | x :: rest =>
    if x = c then some ([], rest)
    else match cut c rest with
      | some (a, b) => some (x :: a, b)
      | none => none

def hasPrefix (p s : Bytes) : Bool := s.take p.length == p
def trimPrefix (p s : Bytes) : Bytes := if hasPrefix p s then s.drop p.length else s
def trimLeftByte (c : UInt8) (s : Bytes) : Bytes := s.dropWhile (· == c)
def trimRightByte (c : UInt8) (s : Bytes) : Bytes := (s.reverse.dropWhile (· == c)).reverse
def isSpace (x : UInt8) : Bool := x == 9 || x == 10 || x == 11 || x == 12 || x == 13 || x == 32
/-- `strings.TrimSpace` on ASCII text -/
def trimSpace (s : Bytes) : Bytes := ((s.dropWhile isSpace).reverse.dropWhile isSpace).reverse
def lower (x : UInt8) : UInt8 := if 65 ≤ x.toNat ∧ x.toNat ≤ 90 then x + 32 else x
/-- `strings.EqualFold` on ASCII text -/
def equalFold (a b : Bytes) : Bool := a.map lower == b.map lower

def isDigit (x : UInt8) : Bool := 48 ≤ x.toNat && x.toNat ≤ 57
def digitsVal (s : Bytes) : Nat := s.foldl (fun acc x => acc * 10 + (x.toNat - 48)) 0

/-- optional sign of `strconv.Atoi` -/
def signSplit : Bytes → Bool × Bytes
  | 45 :: r => (true, r)
  | 43 :: r => (false, r)
  | r => (false, r)

/-- `strconv.Atoi` (64-bit int): value and whether it succeeded. A syntax error yields 0,
    a range error the clamped value (both with an error). -/
def atoi (s : Bytes) : Int × Bool :=
  let (neg, d) := signSplit s
  if d.isEmpty || !d.all isDigit then (0, false) else
  let v := digitsVal d
  if neg then
    if v > 9223372036854775808 then (-9223372036854775808, false) else (-(v : Int), true)
  else
    if v > 9223372036854775807 then (9223372036854775807, false) else ((v : Int), true)

def natDigits : Nat → Nat → Bytes → Bytes
  | 0, _, acc => acc
  | fuel+1, n, acc =>
    if n < 10 then UInt8.ofNat (48 + n) :: acc
    else natDigits fuel (n / 10) (UInt8.ofNat (48 + n % 10) :: acc)

/-- `%d` -/
def itoa (i : Int) : Bytes :=
  if i < 0 then 45 :: natDigits (i.natAbs + 1) i.natAbs [] else natDigits (i.natAbs + 1) i.natAbs []

/- ---------------- parse_raw.go ---------------- -/

structure M where
  media : Bytes := []
  pt : Int := 0
deriving Repr, DecidableEq

structure ARtpMap where
  payloadType : Int := 0
  encodingName : Bytes := []
  clockRate : Int := 0
  encodingParameters : Bytes := []
deriving Repr, DecidableEq

/-- `AFmtPBase`: the Go map as the list of assignments in order (lookup takes the last) -/
structure AFmtPBase where
  format : Int
  parameters : List (Bytes × Bytes)
deriving Repr, DecidableEq

def AFmtPBase.get (a : AFmtPBase) (k : Bytes) : Option Bytes :=
  (a.parameters.reverse.find? (·.1 == k)).map (·.2)

structure MediaDesc where
  m : M
  aRtpMap : ARtpMap := {}
  aFmtPBase : Option AFmtPBase := none
  aControl : Bytes := []
deriving Repr, DecidableEq

/-- `ParseM` (never fails: `strings.Split` returns at least one item) -/
def parseM (s : Bytes) : M :=
  let items := splitByte 32 (trimPrefix (asc "m=") s)
  { media := items.headD [], pt := match items[3]? with | some x => (atoi x).1 | none => 0 }

/-- `ParseARtpMap`; `none` = error -/
def parseARtpMap (s : Bytes) : Option ARtpMap :=
  match cut 58 s with
  | none => none
  | some (_, r) =>
    match cut 32 r with
    | none => none
    | some (pt, r) =>
      let (ptv, ok) := atoi pt
      if !ok then none else
      match cut 47 r with
      | none => none
      | some (name, r2) =>
        let (rate, params) := match cut 47 r2 with
          | some (a, b) => (a, b)
          | none => (r2, [])
        let (cr, ok) := atoi rate
        if !ok then none else
        some { payloadType := ptv, encodingName := name, clockRate := cr, encodingParameters := params }

def parseParams : List Bytes → Option (List (Bytes × Bytes))
  | [] => some []
  | pp :: rest =>
    match cut 61 (trimSpace pp) with
    | none => none
    | some kv => (parseParams rest).map (kv :: ·)

/-- `ParseAFmtPBase` -/
def parseAFmtPBase (s : Bytes) : Option AFmtPBase :=
  match cut 58 s with
  | none => none
  | some (_, r) =>
    match cut 32 r with
    | none => none
    | some (f, r) =>
      let (fv, ok) := atoi f
      if !ok then none else
      (parseParams (splitByte 59 (trimRightByte 59 (trimLeftByte 59 r)))).map fun ps =>
        { format := fv, parameters := ps }

/-- `ParseAControl` -/
def parseAControl (s : Bytes) : Option Bytes :=
  if hasPrefix (asc "a=control:") s then some (s.drop 10) else none

/-- the loop of `parseSdp2RawContext`: finished descriptions (reversed), the open one -/
def rawLoop : List Bytes → List MediaDesc → Option MediaDesc → Option (List MediaDesc)
  | [], done, md => some (match md with | some d => (d :: done).reverse | none => done.reverse)
  | line :: rest, done, md =>
    if hasPrefix (asc "m=") line then
      rawLoop rest (match md with | some d => d :: done | none => done) (some { m := parseM line })
    else if hasPrefix (asc "a=rtpmap") line then
      match parseARtpMap line with
      | none => none
      | some v => rawLoop rest done (md.map fun d => { d with aRtpMap := v })
    else if hasPrefix (asc "a=fmtp") line then
      match parseAFmtPBase line with
      | none => none
      | some v => rawLoop rest done (md.map fun d => { d with aFmtPBase := some v })
    else if hasPrefix (asc "a=control") line then
      match parseAControl line with
      | none => none
      | some v => rawLoop rest done (md.map fun d => { d with aControl := v })
    else rawLoop rest done md

def parseRawLines (lines : List Bytes) : Option (List MediaDesc) := rawLoop lines [] none

/-- the second attempt of `ParseSdp2RawContext`: glue the lines that follow an `a=fmtp` line and
    start with neither `m=` nor `a=` onto it -/
def takeCont : List Bytes → Bytes → Bytes × List Bytes
  | [], acc => (acc, [])
  | l :: rest, acc =>
    if !hasPrefix (asc "m=") l && !hasPrefix (asc "a=") l then takeCont rest (acc ++ l) else (acc, l :: rest)

def rescue : Nat → List Bytes → List Bytes
  | 0, _ => []
  | _, [] => []
  | fuel+1, l :: rest =>
    if hasPrefix (asc "a=fmtp") l then
      let (nl, rest') := takeCont rest l
      nl :: rescue fuel rest'
    else l :: rescue fuel rest

/-- `ParseSdp2RawContext` -/
def parseRaw (b : Bytes) : Option (List MediaDesc) :=
  let lines := splitCRLF b
  match parseRawLines lines with
  | some r => some r
  | none => parseRawLines (rescue lines.length lines)

/- ---------------- avconfig.go ---------------- -/

/-- `ParseAsc`: the value assigned to `LogicContext.Asc` (`none` = nil) -/
def parseAsc (c : Codec) (a : AFmtPBase) : Option Bytes :=
  match a.get (asc "config") with
  | none => none
  | some v => if v.length < 4 ∨ v.length % 2 ≠ 0 then none else some (c.hexdec v).1

/-- `ParseSpsPps`: the values assigned to `Sps`, `Pps` -/
def parseSpsPps (c : Codec) (a : AFmtPBase) : Option Bytes × Option Bytes :=
  match a.get (asc "sprop-parameter-sets") with
  | none => (none, none)
  | some v =>
    match cut 44 v with
    | none => (none, none)
    | some (s, p) =>
      let (sps, ok) := c.b64dec s
      if !ok then (none, none) else (some sps, some (c.b64dec p).1)

/-- `ParseVpsSpsPps` -/
def parseVpsSpsPps (c : Codec) (a : AFmtPBase) : Option Bytes × Option Bytes × Option Bytes :=
  match a.get (asc "sprop-vps"), a.get (asc "sprop-sps"), a.get (asc "sprop-pps") with
  | some v, some s, some p =>
    let (vps, ok1) := c.b64dec v
    let (sps, ok2) := c.b64dec s
    let (pps, ok3) := c.b64dec p
    if ok1 && ok2 && ok3 then (some vps, some sps, some pps) else (none, none, none)
  | _, _, _ => (none, none, none)

/- ---------------- parse_logic.go ---------------- -/

/-- `base.AvPacketPt*` (regenerated values are compared in Props) -/
def ptUnknown : Int := -1
def ptG711U : Int := 0
def ptG711A : Int := 8
def ptMp2 : Int := 14
def ptAvc : Int := 96
def ptHevc : Int := 98
def ptAac : Int := 97
def ptOpus : Int := 101

/-- `sdp.LogicContext` -/
structure LogicContext where
  rawSdp : Bytes := []
  audioClockRate : Int := 0
  videoClockRate : Int := 0
  asc : Option Bytes := none
  vps : Option Bytes := none
  sps : Option Bytes := none
  pps : Option Bytes := none
  audioPayloadTypeBase : Int := 0
  videoPayloadTypeBase : Int := 0
  audioPayloadTypeOrigin : Int := 0
  videoPayloadTypeOrigin : Int := 0
  audioAControl : Bytes := []
  videoAControl : Bytes := []
  hasAudio : Bool := false
  hasVideo : Bool := false
deriving Repr, DecidableEq

def audioByPt (r : LogicContext) (pt : Int) : LogicContext :=
  { r with audioPayloadTypeBase := pt, audioPayloadTypeOrigin := pt,
           audioClockRate := if r.audioClockRate = 0 then 8000 else r.audioClockRate }

/-- one iteration of the loop over `MediaDescList` -/
def logicStep (c : Codec) (r : LogicContext) (md : MediaDesc) : LogicContext :=
  if md.m.media = asc "audio" then
    let r := { r with hasAudio := true, audioClockRate := md.aRtpMap.clockRate, audioAControl := md.aControl,
                      audioPayloadTypeOrigin := md.aRtpMap.payloadType }
    let name := md.aRtpMap.encodingName
    if equalFold name (asc "MPEG4-GENERIC") then
      let r := { r with audioPayloadTypeBase := ptAac }
      match md.aFmtPBase with
      | some a => { r with asc := parseAsc c a }
      | none => r
    else if equalFold name (asc "PCMA") then { r with audioPayloadTypeBase := ptG711A }
    else if equalFold name (asc "PCMU") then { r with audioPayloadTypeBase := ptG711U }
    else if equalFold name (asc "opus") then { r with audioPayloadTypeBase := ptOpus }
    else if md.m.pt = ptG711U then audioByPt r ptG711U
    else if md.m.pt = ptG711A then audioByPt r ptG711A
    else if md.m.pt = ptMp2 then audioByPt r ptMp2
    else { r with audioPayloadTypeBase := ptUnknown }
  else if md.m.media = asc "video" then
    let r := { r with hasVideo := true, videoClockRate := md.aRtpMap.clockRate, videoAControl := md.aControl,
                      videoPayloadTypeOrigin := md.aRtpMap.payloadType }
    if md.aRtpMap.encodingName = asc "H264" then
      let r := { r with videoPayloadTypeBase := ptAvc }
      match md.aFmtPBase with
      | some a => let (s, p) := parseSpsPps c a; { r with sps := s, pps := p }
      | none => r
    else if md.aRtpMap.encodingName = asc "H265" then
      let r := { r with videoPayloadTypeBase := ptHevc }
      match md.aFmtPBase with
      | some a => let (v, s, p) := parseVpsSpsPps c a; { r with vps := v, sps := s, pps := p }
      | none => r
    else { r with videoPayloadTypeBase := ptUnknown }
  else r

/-- `ParseSdp2LogicContext` -/
def parseLogic (c : Codec) (b : Bytes) : Option LogicContext :=
  (parseRaw b).map fun mds => { mds.foldl (logicStep c) {} with rawSdp := b }

/-- `LogicContext.makeSetupUri` -/
def makeSetupUri (uri aControl : Bytes) : Bytes :=
  if hasPrefix (asc "rtsp://") aControl then aControl else uri ++ [47] ++ aControl

/- ---------------- pack.go ---------------- -/

structure VideoInfo where
  videoPt : Int
  vps : Option Bytes
  sps : Option Bytes
  pps : Option Bytes
deriving Repr, DecidableEq

structure AudioInfo where
  audioPt : Int
  samplingFrequency : Int
  asc : Option Bytes
deriving Repr, DecidableEq

/-- `buildVideoSdpInfo` as lines (each template line ends with "\n") -/
def videoLines (c : Codec) (v : VideoInfo) (streamid : Nat) : List Bytes :=
  if v.videoPt = ptAvc then
    match v.sps, v.pps with
    | some sps, some pps =>
      [asc "m=video 0 RTP/AVP " ++ itoa ptAvc,
       asc "a=rtpmap:96 H264/90000",
       asc "a=fmtp:96 packetization-mode=1; sprop-parameter-sets=" ++ c.b64enc sps ++ asc "," ++ c.b64enc pps
         ++ asc "; profile-level-id=640016",
       asc "a=control:streamid=" ++ itoa streamid]
    | _, _ => []
  else if v.videoPt = ptHevc then
    match v.sps, v.pps, v.vps with
    | some sps, some pps, some vps =>
      [asc "m=video 0 RTP/AVP " ++ itoa ptHevc,
       asc "a=rtpmap:98 H265/90000",
       asc "a=fmtp:98 profile-id=1;sprop-sps=" ++ c.b64enc sps ++ asc ";sprop-pps=" ++ c.b64enc pps
         ++ asc ";sprop-vps=" ++ c.b64enc vps,
       asc "a=control:streamid=" ++ itoa streamid]
    | _, _, _ => []
  else []

/-- `buildAudioSdpInfo` -/
def audioLines (c : Codec) (a : AudioInfo) (streamid : Nat) : List Bytes :=
  if a.audioPt = ptAac then
    match a.asc with
    | some ascb =>
      [asc "m=audio 0 RTP/AVP " ++ itoa ptAac,
       asc "b=AS:128",
       asc "a=rtpmap:" ++ itoa ptAac ++ asc " MPEG4-GENERIC/" ++ itoa a.samplingFrequency ++ asc "/2",
       asc "a=fmtp:" ++ itoa ptAac ++ asc " profile-level-id=1;mode=AAC-hbr;sizelength=13;indexlength=3;indexdeltalength=3; config="
         ++ c.hexenc ascb,
       asc "a=control:streamid=" ++ itoa streamid]
    | none => []
  else if a.audioPt = ptG711A then
    [asc "m=audio 0 RTP/AVP " ++ itoa ptG711A,
     asc "a=rtpmap:" ++ itoa ptG711A ++ asc " PCMA/" ++ itoa a.samplingFrequency,
     asc "a=control:streamid=" ++ itoa streamid]
  else if a.audioPt = ptG711U then
    [asc "m=audio 0 RTP/AVP " ++ itoa ptG711U,
     asc "a=rtpmap:" ++ itoa ptG711U ++ asc " PCMU/" ++ itoa a.samplingFrequency,
     asc "a=control:streamid=" ++ itoa streamid]
  else if a.audioPt = ptOpus then
    [asc "m=audio 0 RTP/AVP " ++ itoa ptOpus,
     asc "a=rtpmap:" ++ itoa ptOpus ++ asc " opus/48000/2",
     asc "a=control:streamid=" ++ itoa streamid]
  else []

def headerLines (tool : Bytes) : List Bytes :=
  [asc "v=0", asc "o=- 0 0 IN IP4 127.0.0.1", asc "s=No Name", asc "c=IN IP4 127.0.0.1", asc "t=0 0",
   asc "a=tool:" ++ tool]

/-- the lines `Pack` writes; `none` = "invalid video and audio info" -/
def packLines (c : Codec) (tool : Bytes) (v : VideoInfo) (a : AudioInfo) : Option (List Bytes) :=
  let vl := videoLines c v 0
  let al := audioLines c a (if vl.isEmpty then 0 else 1)
  if vl.isEmpty ∧ al.isEmpty then none else some (headerLines tool ++ vl ++ al)

/-- every template line ends with "\n", which `Pack` turns into "\r\n" -/
def joinCRLF (ls : List Bytes) : Bytes := ls.flatMap (· ++ [13, 10])

/-- `sdp.Pack` -/
def pack (c : Codec) (tool : Bytes) (v : VideoInfo) (a : AudioInfo) : Option LogicContext :=
  match packLines c tool v a with
  | none => none
  | some ls => parseLogic c (joinCRLF ls)

end Lal.Sdp
