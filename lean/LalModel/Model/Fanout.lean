import LalModel.Model.MsgClass
import LalModel.Model.GopRing
import LalModel.Model.DummyAudio
import LalModel.Model.TsRemux
import LalModel.Model.RtspRemux
import LalModel.Model.Sps
import LalModel.Model.HevcPs
import LalModel.Model.Amf0
import LalModel.Generated.C05Consts
/-
  Model of the fan-out of one published RTMP message with every output enabled:
    pkg/logic/group__core_streaming.go  OnReadRtmpAvMsg, broadcastByRtmpMsg, feedTsPackets, feedRtpPacket, OnPatPmt,
                                        OnFragmentOpen, onSdpFromRemux, feedWaitRtspSubSessions, write2RtmpSubSessions
    pkg/logic/group__out_sub.go         AddRtmpSubSession, AddHttpflvSubSession, AddHttptsSubSession,
                                        HandleNewRtspSubSessionDescribe / Play
    pkg/logic/group__in.go              addIn (which remuxers exist), delIn (the final flush)
    pkg/hls/muxer.go                    FeedMpegts, updateFragment, openFragment, closeFragment (fragment decisions only)
    pkg/rtprtcp/rtp_packet.go           IsAvcBoundary, IsHevcBoundary
  composed with the component models (DummyAudio, TsRemux, RtspRemux, GopRing, MsgClass, Sps, HevcPs, SeqHeader, Amf0).

  What is observable of a consumer here is what the L1 harness observes: the number of writes a subscriber
  received (RTMP / HTTP-FLV / HTTP-TS), the RTP bytes an RTSP subscriber was sent, the number of HLS fragments
  opened and the bytes written to them, the sizes of the FLV and TS recordings, and the group's codec statistics.
  Subscriber sets are Go maps; each subscriber's log depends only on its own flags and on shared state that does
  not depend on the iteration order, so the model iterates a list.

  Configuration as in the harness: `merge_write_size = 0`, HLS `fragment_duration_ms = 3000`.
-/
namespace Lal.Fanout
open Lal Lal.MsgClass

structure Cfg where
  rtmp : Bool
  flv : Bool
  hls : Bool
  httpts : Bool
  rtsp : Bool
  recFlv : Bool
  recTs : Bool
  dummy : Bool
  rtspWaitKey : Bool        -- out_wait_key_frame_flag
  gopNum : Nat
  dummyWaitMs : Nat
deriving Repr, DecidableEq

inductive Kind where
  | rtmp | flv | ts | rtsp
deriving Repr, DecidableEq

/-- a subscriber session as far as the fan-out reads and writes it -/
structure Sub where
  kind : Kind
  fresh : Bool := true
  wait : Bool := true            -- ShouldWaitVideoKeyFrame / ShouldWaitBoundary
  playing : Bool := false        -- RTSP: Stage = ReadPlay
  sdp : Option Sdp.LogicContext := none  -- RTSP: the SDP the session was given
  count : Nat := 0               -- writes (rtmp/flv/ts) or RTP bytes (rtsp)
deriving Repr, DecidableEq

/-- `hls.Muxer` fragment state -/
structure Hls where
  opened : Bool := false
  fragTs : Nat := 0
  closes : Nat := 0                         -- the current slot of `frags` is `closes % cap`
  durs : List Nat := List.replicate 13 0    -- fragmentInfo.duration of every slot, in 90 kHz ticks
  patpmt : Bytes := []
  creates : Nat := 0
  bytes : Nat := 0
deriving Repr, DecidableEq

def hlsFragTicks : Nat := 3000 * 90
def hlsMaxFragLen : Nat := 3000 * 90 * 10
def hlsNegMaxFragLen : Nat := Gen.hlsNegMaxfraglen

structure Stat where
  audioCodec : String := ""
  videoCodec : String := ""
  width : Nat := 0
  height : Nat := 0
deriving Repr, DecidableEq

structure G where
  cfg : Cfg
  dummy : Option DummyAudio.St
  ts : Option TsRemux.St
  rtsp : Option RtspRemux.St
  rtmpGop : GopRing.Cache Unit
  flvGop : GopRing.Cache Unit
  tsGop : GopRing.Ring Unit
  sdp : Option Sdp.LogicContext := none
  patpmt : Option Bytes := none
  hls : Option Hls
  subs : List Sub := []
  stat : Stat := {}
  recFlv : Nat := 0
  recTs : Nat := 0
deriving Repr

/-- `NewGroup` + `AddRtmpPubSession` (`addIn`) -/
def G.new (c : Cfg) : G :=
  let tsOn := c.hls || c.httpts || c.recTs
  { cfg := c,
    dummy := if c.dummy then some (DummyAudio.St.new c.dummyWaitMs) else none,
    ts := if tsOn then some {} else none,
    rtsp := if c.rtsp then some {} else none,
    rtmpGop := GopRing.Cache.new c.gopNum 0, flvGop := GopRing.Cache.new c.gopNum 0, tsGop := GopRing.Ring.new c.gopNum 0,
    hls := if c.hls then some {} else none,
    recFlv := if c.recFlv then 13 else 0 }

def mapSubs (g : G) (f : Sub → Sub) : G := { g with subs := g.subs.map f }

/-! ### HLS fragment decisions and `feedTsPackets` -/

def Hls.cur (h : Hls) : Nat := h.closes % 13
def Hls.curDur (h : Hls) (i : Nat) : Nat := h.durs.getD i 0

/-- `closeFragment` -/
def Hls.close (h : Hls) : Hls := if h.opened then { h with opened := false, closes := h.closes + 1 } else h

/-- `openFragment(ts)` up to the `OnFragmentOpen` callback -/
def Hls.openPre (h : Hls) (ts : Nat) : Hls :=
  let h := { h with creates := h.creates + 1, bytes := h.bytes + h.patpmt.length, opened := true }
  { h with durs := h.durs.set h.cur 0, fragTs := ts }

def tsLen (e : TsRemux.FrameEv) : Nat := (e.packets.map List.length).sum

/-- the loop over `httptsSubSessionSet` and the TS recording (`cached` items in `n` GOPs are in the TS cache) -/
def tsSubsStep (g : G) (e : TsRemux.FrameEv) (cached n : Nat) : G :=
  let g := mapSubs g fun s =>
    if s.kind ≠ .ts then s else
    let s := if s.fresh then
        { s with count := s.count + 1 + cached, wait := if n > 0 then false else s.wait, fresh := false } else s
    if s.wait then (if e.boundary then { s with count := s.count + 1, wait := false } else s)
    else { s with count := s.count + 1 }
  if g.cfg.recTs then { g with recTs := g.recTs + tsLen e } else g

/-- HTTP-TS subscribers, TS recording and the TS GOP cache (`feedTsPackets` after the HLS part) -/
def feedTsRest (g : G) (e : TsRemux.FrameEv) : GoM G := do
  let cached ← g.tsGop.all
  let n ← g.tsGop.count
  let g := tsSubsStep g e cached.length n
  return { g with tsGop := ← g.tsGop.feedMpegts () e.boundary }

/-- `if ts > m.fragTs { duration := ts - m.fragTs; if duration > f.duration { f.duration = duration } }` on slot `fi` -/
def Hls.bumpDur (h : Hls) (fi ts : Nat) : Hls :=
  if ts > h.fragTs ∧ ts - h.fragTs > h.curDur fi then { h with durs := h.durs.set fi (ts - h.fragTs) } else h

/-- `openFragment(ts)` with its `OnFragmentOpen` callback: `nested` handles the audio frame that
    `Group.OnFragmentOpen → FlushAudio` delivers; `p` = the frame still pending, consumed by the first open -/
def openF (nested : G → TsRemux.FrameEv → GoM G) (ts : Nat) (g : G) (h : Hls) (p : Option TsRemux.FrameEv) :
    GoM (G × Option TsRemux.FrameEv) :=
  let g := { g with hls := some (h.openPre ts) }
  match p with
  | some a =>
    match nested g a with
    | .ok g' => .ok (g', none)
    | .error e => .error e
  | none => .ok (g, none)

/-- `updateFragment(ts, boundary)` -/
def hlsUpdate (nested : G → TsRemux.FrameEv → GoM G) (g : G) (h : Hls) (ts : Nat) (boundary : Bool)
    (pending : Option TsRemux.FrameEv) : GoM (G × Option TsRemux.FrameEv) :=
  if h.opened then
    let fi := h.cur            -- `f := m.getCurrFrag()`: stays the OLD slot after a forced split
    let forced := (ts > h.fragTs ∧ ts - h.fragTs > hlsMaxFragLen) ∨ (h.fragTs > ts ∧ h.fragTs - ts > hlsNegMaxFragLen)
    match (if forced then openF nested ts g h.close pending else .ok (g, pending)) with
    | .error e => .error e
    | .ok r =>
      let h1 : Hls := (r.1.hls.getD h).bumpDur fi ts
      let g1 : G := { r.1 with hls := some h1 }
      if h1.curDur fi < hlsFragTicks then .ok (g1, r.2)
      else if boundary then openF nested ts g1 h1.close r.2
      else .ok (g1, r.2)
  else if boundary then openF nested ts g h.close pending
  else .ok (g, pending)

/-- `m.fragment.WriteFile(tsPackets)` when a fragment is open -/
def hlsWrite (g : G) (h : Hls) (e : TsRemux.FrameEv) : G :=
  let h2 : Hls := g.hls.getD h
  if h2.opened then { g with hls := some { h2 with bytes := h2.bytes + tsLen e } } else g

/-- `hls.Muxer.FeedMpegts`; returns whether `FlushAudio` was called with something to flush -/
def hlsFeed (nested : G → TsRemux.FrameEv → GoM G) (g : G) (e : TsRemux.FrameEv) (pending : Option TsRemux.FrameEv) :
    GoM (G × Bool) :=
  match g.hls with
  | none => .ok (g, false)
  | some h =>
    let ts := if e.f.sid = Gen.tsStreamIdAudio then e.f.pts else e.f.dts
    match hlsUpdate nested g h ts e.boundary pending with
    | .error f => .error f
    | .ok r =>
      .ok (hlsWrite r.1 h e, decide (pending.isSome ∧ r.2.isNone))

/-- `feedTsPackets` -/
def feedTsWith (nested : G → TsRemux.FrameEv → GoM G) (g : G) (e : TsRemux.FrameEv) (pending : Option TsRemux.FrameEv) :
    GoM (G × Bool) :=
  match hlsFeed nested g e pending with
  | .error f => .error f
  | .ok r =>
    match feedTsRest r.1 e with
    | .error f => .error f
    | .ok g' => .ok (g', r.2)

def feedTsInner (g : G) (e : TsRemux.FrameEv) : GoM G := do
  return (← feedTsWith (fun g _ => pure g) g e none).1

/-- the group as `IRtmp2MpegtsRemuxerObserver`; a Go run-time failure inside it is carried in the state -/
structure TsObs where
  g : G
  fault : Option Fault := none

def tsObserver : TsRemux.Observer TsObs where
  onPatPmt := fun o b =>
    let g : G := o.g
    let g : G := { g with patpmt := some b, hls := g.hls.map fun (h : Hls) => { h with patpmt := b } }
    { o with g := if g.cfg.recTs then { g with recTs := g.recTs + b.length } else g }
  onTs := fun o e pending =>
    match o.fault with
    | some _ => (o, false)
    | none =>
      match feedTsWith feedTsInner o.g e pending with
      | .ok (g, used) => ({ o with g := g }, used)
      | .error f => ({ o with fault := some f }, false)

/-! ### RTP boundary test and `feedRtpPacket` -/

def avcBoundaryType (t : Nat) : Bool := t = 7 ∨ t = 8 ∨ t = 5

/-- `rtprtcp.IsAvcBoundary` (with the length checks of the `fix:` commit) on the packet body -/
def isAvcBoundary (b : Bytes) : GoM Bool := do
  if b.length = 0 then return false
  let t := (← idx? "IsAvcBoundary: b[0]" b 0).toNat % 32
  if avcBoundaryType t then return true
  if t = 24 ∧ b.length > 3 then
    if avcBoundaryType ((← idx? "IsAvcBoundary: b[3]" b 3).toNat % 32) then return true
  if t = 28 ∧ b.length > 1 then
    let h ← idx? "IsAvcBoundary: b[1]" b 1
    if avcBoundaryType (h.toNat % 32) ∧ h.toNat / 128 ≠ 0 then return true
  return false

def hevcBoundaryType (t : Nat) : Bool := t = 32 ∨ t = 33 ∨ t = 34 ∨ (16 ≤ t ∧ t ≤ 23)

/-- `rtprtcp.IsHevcBoundary` -/
def isHevcBoundary (b : Bytes) : GoM Bool := do
  if b.length = 0 then return false
  let t := (← idx? "IsHevcBoundary: b[0]" b 0).toNat % 128 / 2
  if hevcBoundaryType t then return true
  if t = 49 ∧ b.length > 2 then
    let h ← idx? "IsHevcBoundary: b[2]" b 2
    if hevcBoundaryType (h.toNat % 64) ∧ h.toNat / 128 ≠ 0 then return true
  return false

/-- `SubSession.WriteRtpPacket`: only a playing session, only a payload type its SDP announces -/
def rtspWrite (s : Sub) (p : Rtp.RtpPacket) : Sub :=
  if ¬ s.playing then s else
  match s.sdp with
  | none => s
  | some c =>
    if c.audioPayloadTypeOrigin = p.hdr.packetType ∨ c.videoPayloadTypeOrigin = p.hdr.packetType
    then { s with count := s.count + p.raw.length } else s

/-- the boundary test of `feedRtpPacket`: only a video packet can be a GOP boundary (w-C05 fix) -/
def boundaryOf (c : Sdp.LogicContext) (p : Rtp.RtpPacket) : GoM Bool :=
  let isVideo := c.videoPayloadTypeOrigin = p.hdr.packetType
  if c.videoPayloadTypeBase = Sdp.ptAvc then (if isVideo then isAvcBoundary (p.raw.drop 12) else .ok false)
  else if c.videoPayloadTypeBase = Sdp.ptHevc then (if isVideo then isHevcBoundary (p.raw.drop 12) else .ok false)
  else .ok true

/-- the per-subscriber part of `feedRtpPacket` with `out_wait_key_frame_flag` -/
def rtpGate (g : G) (p : Rtp.RtpPacket) (boundary : Bool) : G :=
  mapSubs g fun s =>
    if s.kind ≠ .rtsp then s
    else if ¬ s.wait then rtspWrite s p
    else if boundary then { rtspWrite s p with wait := false }
    else s

/-- `feedRtpPacket(pkt)` -/
def feedRtp (g : G) (p : Rtp.RtpPacket) : GoM G :=
  if ¬ g.cfg.rtspWaitKey then .ok (mapSubs g fun s => if s.kind = .rtsp then rtspWrite s p else s)
  else if ¬ (g.subs.any fun s => s.kind = .rtsp ∧ s.wait) then .ok (rtpGate g p false)
  else
    match g.sdp with
    | none => .error (.panic "feedRtpPacket: nil sdpCtx")
    | some c =>
      match boundaryOf c p with
      | .ok b => .ok (rtpGate g p b)
      | .error f => .error f

def feedRtspEvs : G → List RtspRemux.Ev → GoM G
  | g, [] => .ok g
  | g, .sdp c :: rest =>
    -- onSdpFromRemux + feedWaitRtspSubSessions: sessions that have only sent DESCRIBE get the SDP
    let g := { g with sdp := some c }
    feedRtspEvs (mapSubs g fun s => if s.kind = .rtsp ∧ s.sdp.isNone then { s with sdp := some c } else s) rest
  | g, .rtp _ p :: rest => do feedRtspEvs (← feedRtp g p) rest

/-! ### `broadcastByRtmpMsg` -/

/-- FLV tag length of the message as recorded / sent: 11 + payload + 4, metadata without `@setDataFrame` -/
def flvTagLen (m : Msg) : GoM Nat := do
  if m.typeId = tMeta then
    let (b, _) ← Amf0.metadataEnsureWithoutSdf m.payload
    return 15 + b.length
  return 15 + m.payload.length

/-- `group.stat.AudioCodec` -/
def statAudio (st : Stat) (m : Msg) : GoM Stat := do
  if st.audioCodec = "" ∧ m.typeId = tAudio then
    let c ← audioCodecId m
    if c = 10 then return (if ← isAacSeqHeader m then { st with audioCodec := "AAC" } else st)
    else if c = 8 then return { st with audioCodec := "PCMU" }
    else if c = 7 then return { st with audioCodec := "PCMA" }
    else if c = 13 then return { st with audioCodec := "OPUS" }
    else return st
  else return st

/-- `avc.ParseSpsPpsFromSeqHeader` + `avc.ParseSps` for the width / height -/
def statDimsAvc (st : Stat) (m : Msg) : GoM Stat :=
  match SeqHeader.avcParse m.payload with
  | .ok r =>
    match Sps.parseSps r.1 with
    | .ok ctx => .ok { st with height := ctx.height, width := ctx.width }
    | .error .err => .ok st
    | .error e => .error e
  | .error .err => .ok st
  | .error e => .error e

/-- `hevc.ParseVpsSpsPpsFrom(Enhanced)SeqHeader` + `hevc.ParseSps` -/
def statDimsHevc (st : Stat) (m : Msg) (enh : Bool) : GoM Stat :=
  match (if enh then SeqHeader.hevcParseEnhanced m.payload else SeqHeader.hevcParse m.payload) with
  | .ok r =>
    match HevcPs.parseSps r.2.1 {} with
    | .ok (some _, ctx) => .ok { st with height := ctx.picHeightInLumaSamples, width := ctx.picWidthInLumaSamples }
    | .ok (none, _) => .ok st
    | .error .err => .ok st
    | .error e => .error e
  | .error .err => .ok st
  | .error e => .error e

/-- `group.stat.VideoCodec` -/
def statVideoCodec (st : Stat) (avc hevc : Bool) : Stat :=
  if st.videoCodec = "" then
    (let st := if avc then { st with videoCodec := "H264" } else st
     if hevc then { st with videoCodec := "H265" } else st)
  else st

/-- `group.stat.VideoWidth / VideoHeight` -/
def statDims (st : Stat) (m : Msg) (avc hevc enh : Bool) : GoM Stat :=
  if st.height = 0 ∨ st.width = 0 then
    match (if avc then statDimsAvc st m else .ok st) with
    | .ok st1 => if hevc then statDimsHevc st1 m enh else .ok st1
    | .error f => .error f
  else .ok st

/-- the `# 记录stat` part of `broadcastByRtmpMsg` -/
def statUpdate (st : Stat) (m : Msg) : GoM Stat := do
  let st ← statAudio st m
  let avc ← isAvcKeySeqHeader m
  let hevc ← isHevcKeySeqHeader m
  let enh ← isEnhanced m
  statDims (statVideoCodec st avc hevc) m avc hevc enh

/-- `rtmp.ParseMetadata(msg.Payload)` for the debug log -/
def metaCheck (m : Msg) : GoM Unit :=
  if m.typeId = tMeta then
    match Amf0.parseMetadata Gen.amf0MaxDepth (Gen.amf0MaxDepth - 1) m.payload with
    | .error (.panic e) => .error (.panic e)
    | _ => .ok ()
  else .ok ()

/-- `group.rtmp2MpegtsRemuxer.FeedRtmpMessage(msg)` with the group as observer -/
def tsPart (g : G) (m : Msg) : GoM G :=
  match g.ts with
  | none => .ok g
  | some ts =>
    match TsRemux.feed tsObserver ts { g := g } m with
    | .error f => .error f
    | .ok r =>
      match r.2.fault with
      | some f => .error f
      | none => .ok { r.2.g with ts := some r.1 }

/-- `group.rtmp2RtspRemuxer.FeedRtmpMsg(msg)` -/
def rtspPart (env : RtspRemux.Env) (g : G) (m : Msg) : GoM G :=
  match g.rtsp with
  | none => .ok g
  | some r =>
    match RtspRemux.feed env r m with
    | .error f => .error f
    | .ok q => feedRtspEvs { g with rtsp := some q.1 } q.2

def hdrCount {α} (c : GopRing.Cache α) : Nat :=
  (if c.metaWithout.isSome then 1 else 0) + (if c.vsh.isSome then 1 else 0) + (if c.ash.isSome then 1 else 0)

/-- one RTMP subscriber in `broadcastByRtmpMsg`: the fresh-subscriber prologue (`hdr` cached headers, `cached` GOP items
    in `n` GOPs), the wait-for-key-frame gate, then `write2RtmpSubSessions` -/
def rtmpSubStep (hdr cached n : Nat) (keyNalu isHdr : Bool) (s : Sub) : Sub :=
  if s.kind ≠ .rtmp then s else
  let s := if s.fresh then { s with count := s.count + hdr + cached, wait := if n > 0 then false else s.wait, fresh := false } else s
  -- a waiting subscriber still gets metadata and sequence headers
  let s := if s.wait ∧ isHdr then { s with count := s.count + 1 } else s
  let s := if s.wait ∧ keyNalu then { s with wait := false } else s
  if s.wait then s else { s with count := s.count + 1 }

/-- the loop over `rtmpSubSessionSet` and `write2RtmpSubSessions` -/
def rtmpSubs (g : G) (keyNalu isHdr : Bool) : GoM G := do
  let cached ← g.rtmpGop.r.all
  let n ← g.rtmpGop.r.count
  return mapSubs g (rtmpSubStep (hdrCount g.rtmpGop) cached.length n keyNalu isHdr)

/-- one HTTP-FLV subscriber -/
def flvSubStep (hdr cached n : Nat) (keyNalu isHdr : Bool) (s : Sub) : Sub :=
  if s.kind ≠ .flv then s else
  let s := if s.fresh then { s with count := s.count + hdr + cached, wait := if n > 0 then false else s.wait, fresh := false } else s
  if s.wait then (if keyNalu then { s with count := s.count + 1, wait := false }
                  else if isHdr then { s with count := s.count + 1 } else s)
  else { s with count := s.count + 1 }

/-- the loop over `httpflvSubSessionSet` -/
def flvSubs (g : G) (keyNalu isHdr : Bool) : GoM G := do
  let cached ← g.flvGop.r.all
  let n ← g.flvGop.r.count
  return mapSubs g (flvSubStep (hdrCount g.flvGop) cached.length n keyNalu isHdr)

/-- `recordFlv.WriteRaw(tag)` -/
def recFlvPart (g : G) (m : Msg) : GoM G :=
  if g.cfg.recFlv then
    match flvTagLen m with
    | .ok n => .ok { g with recFlv := g.recFlv + n }
    | .error f => .error f
  else .ok g

def withMeta {α} (c : GopRing.Cache α) (m : Msg) (b : α) : GopRing.Cache α :=
  if m.typeId = tMeta then { c with metaWith := some b, metaWithout := some b } else c

/-- `rtmpGopCache.Feed` / `SetMetadata` -/
def rtmpCachePart (g : G) (m : Msg) : GoM G :=
  if g.cfg.rtmp then
    match g.rtmpGop.feed m () with
    | .ok r => .ok { g with rtmpGop := withMeta r.1 m () }
    | .error f => .error f
  else .ok g

/-- `httpflvGopCache.Feed` / `SetMetadata` -/
def flvCachePart (g : G) (m : Msg) : GoM G :=
  if g.cfg.flv then
    match g.flvGop.feed m () with
    | .ok r => .ok { g with flvGop := withMeta r.1 m () }
    | .error f => .error f
  else .ok g

def statPart (g : G) (m : Msg) : GoM G :=
  match statUpdate g.stat m with
  | .ok st => .ok { g with stat := st }
  | .error f => .error f

/-- `broadcastByRtmpMsg(msg)` -/
def broadcast (env : RtspRemux.Env) (g : G) (m : Msg) : GoM G := do
  metaCheck m
  if m.payload.length = 0 then return g
  let g ← tsPart g m
  let g ← rtspPart env g m
  let key ← isVideoKeyNalu m
  let isHdr := decide (m.typeId = tMeta) || (← isVideoKeySeqHeader m) || (← isAacSeqHeader m)
  let g ← rtmpSubs g key isHdr
  let g ← flvSubs g key isHdr
  let g ← recFlvPart g m
  let g ← rtmpCachePart g m
  let g ← flvCachePart g m
  statPart g m

def broadcastAll (env : RtspRemux.Env) : G → List Msg → GoM G
  | g, [] => .ok g
  | g, m :: rest => do broadcastAll env (← broadcast env g m) rest

/-- `OnReadRtmpAvMsg(msg)` -/
def onMsg (env : RtspRemux.Env) (g : G) (m : Msg) : GoM G :=
  match g.dummy with
  | none => broadcast env g m
  | some d => do
    let (d, out) ← DummyAudio.feed d m
    broadcastAll env { g with dummy := some d } out

/-- after each event the harness's RTSP client finishes SETUP and PLAY of every session that has its SDP -/
def rtspProgress (g : G) : G :=
  mapSubs g fun s =>
    if s.kind = .rtsp ∧ ¬ s.playing ∧ s.sdp.isSome then
      { s with playing := true, wait := if g.stat.videoCodec = "" then false else s.wait }
    else s

/-- a subscriber joins -/
def join (g : G) (k : Kind) : G :=
  let s : Sub := match k with
    | .rtmp | .flv => { kind := k, wait := decide (g.stat.videoCodec ≠ "") }
    | .ts => { kind := k }
    | .rtsp => { kind := k, sdp := g.sdp }
  rtspProgress { g with subs := g.subs ++ [s] }

inductive Event where
  | msg (m : Msg)
  | join (k : Kind)
deriving Repr

def step (env : RtspRemux.Env) (g : G) : Event → GoM G
  | .msg m => do return rtspProgress (← onMsg env g m)
  | .join k => .ok (join g k)

def runAll (env : RtspRemux.Env) : G → List Event → GoM G
  | g, [] => .ok g
  | g, e :: rest => do runAll env (← step env g e) rest

/-- `DelRtmpPubSession` → `delIn`: the TS remuxer flushes its audio cache into the outputs -/
def finish (g : G) : GoM G :=
  match g.ts with
  | none => .ok g
  | some ts =>
    let (_, o) := TsRemux.dispose tsObserver ts { g := g }
    match o.fault with
    | some f => .error f
    | none => .ok o.g

end Lal.Fanout
