/-
  C20 — an abstract machine for the LOGIC of lal's synchronisation (DESIGN §7 C20).

  Threads execute straight-line programs of `acquire / release / read / write / send / recv / close`.
  A state is the list of threads (remaining program + locks held), the fill level and the closed flag of
  every channel, and a flag recording a Go run-time abort (`send`/`close` on a closed channel).
  One step = one thread executes its next operation, if it is enabled:
    * `acquire l`  only when no thread holds `l` (sync.Mutex.Lock; sync.Once.Do is an acquire/release pair
      around the callback for the purpose of blocking);
    * `send c`     aborts when `c` is closed, otherwise needs `buf c < cap c` (buffered channel);
    * `recv c`     needs `buf c > 0` or `c` closed;
    * `close c`    aborts when `c` is already closed;
    * everything else is always enabled.
  Memory accesses have no effect on the state: a data race is two different threads whose NEXT operations
  access the same location, one of them writing (co-enabled conflicting accesses).

  What is NOT modelled, and taken from the Go memory model as axioms of this machine: that a lock
  release happens-before the next acquire of the same lock (so mutual exclusion implies ordering), that
  sync/atomic and nazaatomic operations, sync.Once and channel operations are race-free by themselves,
  and that `go f()` happens-before the start of `f`. Unbuffered rendezvous channels are outside the model.
  Core Lean only.
-/
namespace Lal.Sync

abbrev Lock := Nat
abbrev Loc := Nat
abbrev Chan := Nat
abbrev Tid := Nat

inductive Op where
  | acquire (l : Lock)
  | release (l : Lock)
  | read (x : Loc)
  | write (x : Loc)
  | send (c : Chan)
  | recv (c : Chan)
  | close (c : Chan)
deriving DecidableEq, Repr

structure Thread where
  todo : List Op
  held : List Lock
deriving DecidableEq, Repr

structure State where
  threads : List Thread
  buf : Chan → Nat
  closed : Chan → Bool
  panicked : Bool

def upd {α : Type} (f : Nat → α) (k : Nat) (v : α) : Nat → α := fun n => if n = k then v else f n

/-- some thread holds lock `l` -/
def heldBySome (ts : List Thread) (l : Lock) : Bool := ts.any (fun t => t.held.contains l)

def init (progs : List (List Op)) : State :=
  { threads := progs.map (fun p => { todo := p, held := [] }), buf := fun _ => 0, closed := fun _ => false, panicked := false }

/-- Thread `i` executes its next operation; `none` when it has none or is blocked. -/
def next (cap : Chan → Nat) (s : State) (i : Tid) : Option State :=
  match s.threads[i]? with
  | none => none
  | some t =>
    match t.todo with
    | [] => none
    | .acquire l :: r =>
      if heldBySome s.threads l then none
      else some { s with threads := s.threads.set i { todo := r, held := l :: t.held } }
    | .release l :: r => some { s with threads := s.threads.set i { todo := r, held := t.held.erase l } }
    | .read _ :: r => some { s with threads := s.threads.set i { todo := r, held := t.held } }
    | .write _ :: r => some { s with threads := s.threads.set i { todo := r, held := t.held } }
    | .send c :: r =>
      if s.closed c then some { s with threads := s.threads.set i { todo := r, held := t.held }, panicked := true }
      else if s.buf c < cap c then
        some { s with threads := s.threads.set i { todo := r, held := t.held }, buf := upd s.buf c (s.buf c + 1) }
      else none
    | .recv c :: r =>
      if 0 < s.buf c then
        some { s with threads := s.threads.set i { todo := r, held := t.held }, buf := upd s.buf c (s.buf c - 1) }
      else if s.closed c then some { s with threads := s.threads.set i { todo := r, held := t.held } }
      else none
    | .close c :: r =>
      if s.closed c then some { s with threads := s.threads.set i { todo := r, held := t.held }, panicked := true }
      else some { s with threads := s.threads.set i { todo := r, held := t.held }, closed := upd s.closed c true }

/-- States reachable from `s` by any interleaving. -/
inductive Reach (cap : Chan → Nat) (s : State) : State → Prop where
  | refl : Reach cap s s
  | step {s' s'' : State} (i : Tid) : Reach cap s s' → next cap s' i = some s'' → Reach cap s s''

/-- Thread `i` is waiting for a lock that thread `j` holds. -/
def Waits (s : State) (i j : Tid) : Prop :=
  ∃ (ti tj : Thread) (l : Lock) (r : List Op), s.threads[i]? = some ti ∧ s.threads[j]? = some tj ∧ ti.todo = .acquire l :: r ∧ l ∈ tj.held

/-- A chain of waiting threads. `WaitsPlus s i i` is a wait-for cycle (a lock deadlock). -/
inductive WaitsPlus (s : State) : Tid → Tid → Prop where
  | single {i j : Tid} : Waits s i j → WaitsPlus s i j
  | cons {i j k : Tid} : Waits s i j → WaitsPlus s j k → WaitsPlus s i k

/-- The next operation of a thread accesses location `x`; `true` = write. -/
def nextAccess (t : Thread) : Option (Loc × Bool) :=
  match t.todo with
  | .read x :: _ => some (x, false)
  | .write x :: _ => some (x, true)
  | _ => none

/-- Two different threads are about to perform conflicting accesses to `x`. -/
def Race (s : State) (x : Loc) : Prop :=
  ∃ (i j : Tid) (ti tj : Thread) (wi wj : Bool), i ≠ j ∧ s.threads[i]? = some ti ∧ s.threads[j]? = some tj ∧
    nextAccess ti = some (x, wi) ∧ nextAccess tj = some (x, wj) ∧ (wi = true ∨ wj = true)

/-- Lock discipline of one thread relative to a ranking of the locks: every lock is acquired while only
    lower-ranked locks are held, only held locks are released, and nothing is held at the end. -/
def ordered (rank : Lock → Nat) : List Lock → List Op → Bool
  | held, [] => held.isEmpty
  | held, .acquire l :: r => held.all (fun h => rank h < rank l) && ordered rank (l :: held) r
  | held, .release l :: r => held.contains l && ordered rank (held.erase l) r
  | held, _ :: r => ordered rank held r

/-- Lock discipline relative to an acquired-while-holding relation (what the extractor produces):
    `b` is only ever acquired while the locks held are all related to it. -/
def conforms (holds : List (Lock × Lock)) : List Lock → List Op → Bool
  | held, [] => held.isEmpty
  | held, .acquire l :: r => held.all (fun h => holds.contains (h, l)) && conforms holds (l :: held) r
  | held, .release l :: r => held.contains l && conforms holds (held.erase l) r
  | held, _ :: r => conforms holds held r

/-- Lock-set discipline: every access to a location selected by `sel` happens while its guard is held. -/
def guarded (sel : Loc → Bool) (guard : Loc → Lock) : List Lock → List Op → Bool
  | _, [] => true
  | held, .acquire l :: r => guarded sel guard (l :: held) r
  | held, .release l :: r => guarded sel guard (held.erase l) r
  | held, .read x :: r => (!sel x || held.contains (guard x)) && guarded sel guard held r
  | held, .write x :: r => (!sel x || held.contains (guard x)) && guarded sel guard held r
  | held, _ :: r => guarded sel guard held r

/-- An access table row: location, write?, locks that are held at the access. -/
abbrev AccessRow := Loc × Bool × List Lock

/-- the access `(x, w)` made while holding `held` is one of the table's rows (with at least that row's locks held) -/
def accessOk (table : List AccessRow) (x : Loc) (w : Bool) (held : List Lock) : Bool :=
  table.any (fun r => r.1 == x && r.2.1 == w && r.2.2.all (fun l => held.contains l))

/-- every access of the program is covered by a row of the table (what the extractor claims of lal's threads) -/
def conformsAccess (table : List AccessRow) : List Lock → List Op → Bool
  | _, [] => true
  | held, .acquire l :: r => conformsAccess table (l :: held) r
  | held, .release l :: r => conformsAccess table (held.erase l) r
  | held, .read x :: r => accessOk table x false held && conformsAccess table held r
  | held, .write x :: r => accessOk table x true held && conformsAccess table held r
  | held, _ :: r => conformsAccess table held r

def closes (c : Chan) : List Op → Bool
  | [] => false
  | .close c' :: r => c' == c || closes c r
  | _ :: r => closes c r

/-- the program has no channel operation (the only operations that can block besides `acquire`) -/
def lockOnly : List Op → Bool
  | [] => true
  | .send _ :: _ => false
  | .recv _ :: _ => false
  | .close _ :: _ => false
  | _ :: r => lockOnly r

/-- A path in a finite relation. -/
inductive Path (E : List (Lock × Lock)) : Lock → Lock → Prop where
  | edge {a b : Lock} : (a, b) ∈ E → Path E a b
  | cons {a b c : Lock} : (a, b) ∈ E → Path E b c → Path E a c

def Acyclic (E : List (Lock × Lock)) : Prop := ∀ a, ¬ Path E a a

end Lal.Sync
