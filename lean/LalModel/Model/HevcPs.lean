import LalModel.Model.Bits
/-
  Model of pkg/hevc/hevc.go ParseVps / ParseSps / parsePtl / updatePtl / nal2rbsp, as far as
  BuildSeqHeaderFromVpsSpsPps depends on them (the hvcC profile/tier/level bytes).
  All reads return their error, so the parser is a plain `Option` chain over the bit reader;
  a Go panic (the `ReadBits32(0)` quirk of nazabits) aborts.
-/
namespace Lal.HevcPs
open Lal.Bits

/-- `hevc.Context` -/
structure Context where
  picWidthInLumaSamples : Nat := 0
  picHeightInLumaSamples : Nat := 0
  configurationVersion : Nat := 1
  generalProfileSpace : Nat := 0
  generalTierFlag : Nat := 0
  generalProfileIdc : Nat := 0
  generalProfileCompatibilityFlags : Nat := 0xffffffff
  generalConstraintIndicatorFlags : Nat := 0xffffffffffff
  generalLevelIdc : Nat := 0
  lengthSizeMinusOne : Nat := 3
  numTemporalLayers : Nat := 0
  temporalIdNested : Nat := 0
  chromaFormat : Nat := 0
  bitDepthLumaMinus8 : Nat := 0
  bitDepthChromaMinus8 : Nat := 0
deriving Repr, DecidableEq

/-- `hevc.newContext()` -/
def newContext : Context := {}

/-- `bytes.Replace(nal, {0,0,3}, {0,0}, -1)`: non-overlapping, left to right -/
def nal2rbsp : Bytes → Bytes
  | 0 :: 0 :: 3 :: rest => 0 :: 0 :: nal2rbsp rest
  | x :: rest => x :: nal2rbsp rest
  | [] => []

structure St where
  ctx : Context
  br : BitReader
deriving Repr, DecidableEq

/-- `none` = the function returns an error (the context keeps what was stored before) -/
def PM (α : Type) := St → GoM (Option α × St)

def PM.pure {α} (a : α) : PM α := fun s => .ok (some a, s)
def PM.bind {α β} (m : PM α) (f : α → PM β) : PM β := fun s =>
  match m s with
  | .ok (some a, s') => f a s'
  | .ok (none, s') => .ok (none, s')
  | .error e => .error e
instance : Monad PM where
  pure := PM.pure
  bind := PM.bind

def rd {α} (r : BitReader → Rd α) : PM α := fun s =>
  match r s.br with
  | .ok (some v, br) => .ok (some v, { s with br := br })
  | .ok (none, br) => .ok (none, { s with br := br })
  | .error e => .error e

def set (f : Context → Context) : PM Unit := fun s => .ok (some (), { s with ctx := f s.ctx })
def fail {α} : PM α := fun s => .ok (none, s)

/-- `updatePtl(ctx, &ptl)` -/
def updatePtl (ctx : Context) (space tier idc compat constr level : Nat) : Context :=
  let ctx := { ctx with generalProfileSpace := space }
  let ctx := if tier > ctx.generalTierFlag then { ctx with generalLevelIdc := level, generalTierFlag := tier }
             else if level > ctx.generalLevelIdc then { ctx with generalLevelIdc := level } else ctx
  let ctx := if idc > ctx.generalProfileIdc then { ctx with generalProfileIdc := idc } else ctx
  { ctx with generalProfileCompatibilityFlags := ctx.generalProfileCompatibilityFlags &&& compat,
             generalConstraintIndicatorFlags := ctx.generalConstraintIndicatorFlags &&& constr }

/-- the two per-sub-layer flag loops: returns the (profilePresent, levelPresent) lists -/
def readSubFlags : Nat → PM (List (Nat × Nat))
  | 0 => pure []
  | n+1 => do
    let p ← rd (readBits 1)
    let l ← rd (readBits 1)
    let rest ← readSubFlags n
    pure ((p, l) :: rest)

def skip2 : Nat → PM Unit
  | 0 => pure ()
  | n+1 => do let _ ← rd (readBits 2); skip2 n

def skipSub : List (Nat × Nat) → PM Unit
  | [] => pure ()
  | (p, l) :: rest => do
    if p ≠ 0 then do
      let _ ← rd (readBits32 32)
      let _ ← rd (readBits32 32)
      let _ ← rd (readBits32 24)
    if l ≠ 0 then do
      let _ ← rd (readBits 8)
    skipSub rest

/-- `parsePtl(br, ctx, maxSubLayersMinus1)` -/
def parsePtl (maxSubLayersMinus1 : Nat) : PM Unit := do
  let space ← rd (readBits 2)
  let tier ← rd (readBits 1)
  let idc ← rd (readBits 5)
  let compat ← rd (readBits32 32)
  let constr ← rd (readBits 48)
  let level ← rd (readBits 8)
  set fun c => updatePtl c space tier idc compat constr level
  if maxSubLayersMinus1 = 0 then pure () else do
    let flags ← readSubFlags maxSubLayersMinus1
    skip2 (8 - maxSubLayersMinus1)
    skipSub flags

/-- `defer recoverBitReaderPanic(&err)` (the `fix:` commit of branch w-C05): a run-time failure inside the bit
    reader is returned as an error. No caller looks at the context after an error; the model hands back the
    context it was given. -/
def recoverErr (ctx : Context) : GoM (Option Unit × Context) → GoM (Option Unit × Context)
  | .error (.panic _) => .ok (none, ctx)
  | r => r

/-- `hevc.ParseVps(vps, ctx)` without the `defer`; every reader error is mapped to ErrHevc (still an error) -/
def parseVpsRaw (vps : Bytes) (ctx : Context) : GoM (Option Unit × Context) :=
  if vps.length < 2 then .ok (none, ctx) else
  let p : PM Unit := do
    let _ ← rd (readBits 12)
    let m ← rd (readBits 3)
    set fun c => if m + 1 > c.numTemporalLayers then { c with numTemporalLayers := m + 1 } else c
    let _ ← rd (readBits32 17)
    parsePtl m
  match p { ctx := ctx, br := newBitReader (nal2rbsp (vps.drop 2)) } with
  | .ok (r, st) => .ok (r, st.ctx)
  | .error e => .error e

def skipUe : Nat → PM Unit
  | 0 => pure ()
  | n+1 => do let _ ← rd readUe; skipUe n

/-- `hevc.ParseVps(vps, ctx)` -/
def parseVps (vps : Bytes) (ctx : Context) : GoM (Option Unit × Context) := recoverErr ctx (parseVpsRaw vps ctx)

/-- `hevc.ParseSps(sps, ctx)` without the `defer` -/
def parseSpsRaw (sps : Bytes) (ctx : Context) : GoM (Option Unit × Context) :=
  if sps.length < 2 then .ok (none, ctx) else
  let p : PM Unit := do
    let _ ← rd (readBits 4)                                -- sps_video_parameter_set_id
    let m ← rd (readBits 3)                                -- sps_max_sub_layers_minus1
    set fun c => if m + 1 > c.numTemporalLayers then { c with numTemporalLayers := m + 1 } else c
    -- `ctx.TemporalIdNested, err = br.ReadBit()`: assigned (0) even when the read fails
    (fun s => match readBits 1 s.br with
      | .ok (some v, br) => .ok (some (), { ctx := { s.ctx with temporalIdNested := v }, br := br })
      | .ok (none, br) => .ok (none, { ctx := { s.ctx with temporalIdNested := 0 }, br := br })
      | .error e => .error e)
    parsePtl m
    let _ ← rd readUe                                      -- sps_seq_parameter_set_id
    let cf ← rd readUe
    set fun c => { c with chromaFormat := cf % 256 }
    if cf % 256 = 3 then do
      let _ ← rd (readBits 1)
    -- a failing read stores the zero value
    (fun s => match readUe s.br with
      | .ok (some v, br) => .ok (some (), { ctx := { s.ctx with picWidthInLumaSamples := v }, br := br })
      | .ok (none, br) => .ok (none, { ctx := { s.ctx with picWidthInLumaSamples := 0 }, br := br })
      | .error e => .error e)
    (fun s => match readUe s.br with
      | .ok (some v, br) => .ok (some (), { ctx := { s.ctx with picHeightInLumaSamples := v }, br := br })
      | .ok (none, br) => .ok (none, { ctx := { s.ctx with picHeightInLumaSamples := 0 }, br := br })
      | .error e => .error e)
    let cw ← rd (readBits 1)                               -- conformance_window_flag
    if cw ≠ 0 then skipUe 4
    let l ← rd readUe
    set fun c => { c with bitDepthLumaMinus8 := l % 256 }
    let ch ← rd readUe
    set fun c => { c with bitDepthChromaMinus8 := ch % 256 }
    let _ ← rd readUe                                      -- log2_max_pic_order_cnt_lsb_minus4
    let f ← rd (readBits 1)                                -- sps_sub_layer_ordering_info_present_flag
    skipUe (3 * (if f ≠ 0 then m + 1 else 1))
    skipUe 6
  match p { ctx := ctx, br := newBitReader (nal2rbsp (sps.drop 2)) } with
  | .ok (r, st) => .ok (r, st.ctx)
  | .error e => .error e

/-- `hevc.ParseSps(sps, ctx)` -/
def parseSps (sps : Bytes) (ctx : Context) : GoM (Option Unit × Context) := recoverErr ctx (parseSpsRaw sps ctx)

end Lal.HevcPs
