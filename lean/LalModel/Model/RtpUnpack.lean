import LalModel.Model.Rtp
import LalModel.Model.Seq16
/-
  Model of the receiving side of pkg/rtprtcp:
    rtp_packet_list.go       RtpPacketList (IsStale, Insert, PopFirst, Full, IsFirstSequential, SetDoneSeq)
    rtp_unpacker_avc_hevc.go calcPositionIfNeededAvc/Hevc, RtpUnpackerAvcHevc.TryUnpackOne
    rtp_unpacker_aac.go      parseAu, RtpUnpackerAac.TryUnpackOne
    rtp_unpacker_raw.go      RtpUnpackerRaw.TryUnpackOne
    rtp_unpack_container.go  RtpUnpackContainer.Feed
  Index / slice / divide panics of the Go code are `Fault.panic` values (the guards are exactly the code's).
-/
namespace Lal.RtpUnpack
open Lal Lal.Rtp Lal.Seq16

/-- what `onAvPacket` receives (the payload type is fixed per unpacker and not recorded) -/
structure AvPacket where
  ts      : Nat
  payload : Bytes
deriving Repr, DecidableEq

/-- `RtpPacketList` : the linked list as a list, the separately maintained `Size`, `doneSeqFlag`, `doneSeq`, `maxSize`. -/
structure PktList where
  items    : List RtpPacket := []
  size     : Nat := 0
  doneFlag : Bool := false
  doneSeq  : Nat := 0
  maxSize  : Nat
deriving Repr, DecidableEq

/-- `RtpPacketList.IsStale` -/
def PktList.isStale (l : PktList) (seq : Nat) : Bool :=
  l.doneFlag && decide (compareSeq seq l.doneSeq ≤ 0)

/-- the loop of `RtpPacketList.Insert`; the flag says whether an item was added (`Size++`). -/
def insertSorted (p : RtpPacket) : List RtpPacket → List RtpPacket × Bool
  | [] => ([p], true)
  | q :: rest =>
    let c := compareSeq p.hdr.seq q.hdr.seq
    if c = 0 then (q :: rest, false)
    else if c = -1 then (p :: q :: rest, true)
    else let r := insertSorted p rest; (q :: r.1, r.2)

def PktList.insert (l : PktList) (p : RtpPacket) : PktList :=
  let r := insertSorted p l.items
  { l with items := r.1, size := if r.2 then l.size + 1 else l.size }

/-- `RtpPacketList.Full` -/
def PktList.full (l : PktList) : Bool := decide (l.size ≥ l.maxSize)

/-- `RtpPacketList.IsFirstSequential` -/
def PktList.isFirstSequential (l : PktList) : Bool :=
  match l.items with
  | [] => false
  | first :: _ => if !l.doneFlag then true else decide (subSeq first.hdr.seq l.doneSeq = 1)

/-- `RtpPacketList.PopFirst` (the caller guarantees a non-empty list; nil dereference otherwise) -/
def PktList.popFirst (l : PktList) : GoM PktList :=
  match l.items with
  | [] => .error (.panic "PopFirst: nil")
  | _ :: rest => .ok { l with items := rest, size := l.size - 1 }

/-- Result of `TryUnpackOne` when `unpackedFlag` is true: the delivered packets, `unpackedSeq`,
    the remaining list, and by how much the protocol decremented `list.Size`. -/
structure Unpacked where
  outs    : List AvPacket
  seq     : Nat
  rest    : List RtpPacket
  sizeDec : Nat
deriving Repr, DecidableEq

/-- `IRtpUnpackerProtocol` -/
structure Proto where
  calcPosition : RtpPacket → GoM RtpPacket
  tryUnpackOne : List RtpPacket → GoM (Option Unpacked)

/-- `uint32(x)` of a Go `int` -/
def toU32 (x : Int) : Nat := (x % 4294967296).toNat

/-- the millisecond value of an RTP timestamp: ⌊ts·1000/rate⌋ -/
def msOf (rate ts : Nat) : Nat := ts * 1000 / rate

/-- `rtpTimestamp2Ms(ts, clockRate)` = `int64(uint64(ts) * 1000 / uint64(clockRate))`, the timestamp itself for a clock rate
    ≤ 0 (the clock rate is any `int` an SDP can announce). The pinned code computed `ts / uint32(clockRate/1000)` (S11:
    drift, division by zero below 1 kHz): see `tsMsPinned` in Proof/TsDrift.lean. -/
def tsMs (rate : Int) (ts : Nat) : GoM Nat := if rate ≤ 0 then .ok ts else .ok (ts * 1000 / rate.toNat)

/-! ### AVC / HEVC -/

def fuPos (fh : UInt8) : Nat :=
  if fh.toNat / 128 = 1 then 2 else if fh.toNat / 64 % 2 = 1 then 4 else 3

/-- `calcPositionIfNeededAvc` -/
def calcPositionAvc (p : RtpPacket) : GoM RtpPacket := do
  let b ← p.body
  if b.length < 1 then return p
  let b0 ← idx? "calcPositionIfNeededAvc b[0]" b 0
  let t := b0.toNat % 32
  if t ≤ 23 then return { p with pos := 1 }
  else if t = 28 then
    if b.length < 2 then return p
    let fh ← idx? "calcPositionIfNeededAvc b[1]" b 1
    return { p with pos := fuPos fh }
  else if t = 24 then return { p with pos := 5 }
  else return p

/-- `calcPositionIfNeededHevc` -/
def calcPositionHevc (p : RtpPacket) : GoM RtpPacket := do
  let b ← p.body
  if b.length < 1 then return p
  let b0 ← idx? "calcPositionIfNeededHevc b[0]" b 0
  let t := b0.toNat / 2 % 64
  if t < 48 then return { p with pos := 1 }
  else if t = 49 then
    if b.length < 3 then return p
    let fh ← idx? "calcPositionIfNeededHevc b[2]" b 2
    return { p with pos := fuPos fh }
  else if t = 48 then
    if b.length < 2 then return p
    return { p with pos := 6 }
  else return p

/-- the two loops over an aggregation packet (`2-byte size, NAL` repeated) : `none` = "invalid STAP-A packet" -/
def aggLoop : Nat → Bytes → Option Bytes
  | _, [] => some []
  | 0, _ => none
  | _, [_] => none
  | fuel+1, a :: b :: rest =>
    let n := rd16 a b
    if rest.length < n then none
    else (aggLoop fuel (rest.drop n)).map fun r => be32 n ++ rest.take n ++ r

/-- the walk from a FU start over middles to the end packet: collected packets (end included) and the rest -/
def fuCollect : Nat → List RtpPacket → Option (List RtpPacket × List RtpPacket)
  | _, [] => none
  | prevSeq, p :: rest =>
    if subSeq p.hdr.seq prevSeq ≠ 1 then none
    else if p.pos = 3 then (fuCollect p.hdr.seq rest).map fun r => (p :: r.1, r.2)
    else if p.pos = 4 then some ([p], rest)
    else none

/-- FU payloads without their `hdrLen` header bytes -/
def fuBodies (hdrLen : Nat) : List RtpPacket → GoM Bytes
  | [] => .ok []
  | p :: rest => do
    let b ← p.body
    let d ← from? "Body()[naluTypeLen+1:]" b hdrLen
    let r ← fuBodies hdrLen rest
    return d ++ r

/-- `RtpUnpackerAvcHevc.TryUnpackOne` -/
def tryUnpackOneAvcHevc (hevc : Bool) (rate : Int) (items : List RtpPacket) : GoM (Option Unpacked) :=
  match items with
  | [] => .ok none
  | first :: rest =>
    if first.pos = 1 then do
      let ts ← tsMs rate first.hdr.timestamp
      let b ← first.body
      return some { outs := [{ ts := ts, payload := be32 b.length ++ b }], seq := first.hdr.seq, rest := rest, sizeDec := 1 }
    else if first.pos = 5 ∨ first.pos = 6 then do
      let ts ← tsMs rate first.hdr.timestamp
      let b ← first.body
      let buf ← from? "Body()[skip:]" b (if first.pos = 5 then 1 else 2)
      match aggLoop buf.length buf with
      | none => return none
      | some payload =>
        return some { outs := [{ ts := ts, payload := payload }], seq := first.hdr.seq, rest := rest, sizeDec := 1 }
    else if first.pos = 2 then
      match fuCollect first.hdr.seq rest with
      | none => .ok none
      | some (more, rest') => do
        let last := more.getLastD first
        let ts ← tsMs rate last.hdr.timestamp
        let fb ← first.body
        let hdr ←
          if hevc then do
            let b2 ← idx? "buf[2]" fb 2
            let b0 ← idx? "buf[0]" fb 0
            let b1 ← idx? "buf[1]" fb 1
            -- naluType[0] = (buf[0] & 0x81) | (fuType << 1) ; naluType[1] = buf[1]
            pure [b8 (b0.toNat / 128 * 128 + b0.toNat % 2 + b2.toNat % 64 * 2), b1]
          else do
            let ind ← idx? "Body()[0]" fb 0
            let fh ← idx? "Body()[1]" fb 1
            -- naluType[0] = (fuIndicator & 0xE0) | (fuHeader & 0x1F)
            pure [b8 (ind.toNat / 32 * 32 + fh.toNat % 32)]
        let data ← fuBodies (if hevc then 3 else 2) (first :: more)
        return some { outs := [{ ts := ts, payload := be32 (hdr.length + data.length) ++ hdr ++ data }],
                      seq := last.hdr.seq, rest := rest', sizeDec := 1 + more.length }
    else .ok none

def protoAvcHevc (hevc : Bool) (rate : Int) : Proto :=
  { calcPosition := if hevc then calcPositionHevc else calcPositionAvc,
    tryUnpackOne := tryUnpackOneAvcHevc hevc rate }

/-! ### AAC (mpeg4-generic, AAC-hbr) -/

structure Au where
  size : Nat
  pos  : Nat
deriving Repr, DecidableEq

/-- the loop of `parseAu` : `n` AU-headers left, `pauh` header position, `pau` data position -/
def parseAuLoop (b : Bytes) : Nat → Nat → Nat → GoM (List Au)
  | 0, _, _ => .ok []
  | n+1, pauh, pau => do
    let h0 ← idx? "parseAu b[pauh]" b pauh
    let h1 ← idx? "parseAu b[pauh+1]" b (pauh + 1)
    let sz := (h0.toNat * 256 + h1.toNat / 8 * 8) / 8
    let r ← parseAuLoop b n (pauh + 2) (pau + sz)
    return { size := sz, pos := pau } :: r

/-- `parseAu` : a packet shorter than its AU-header section carries no access unit (`nil`) -/
def parseAu (b : Bytes) : GoM (List Au) := do
  if b.length < 2 then return []
  let b0 ← idx? "parseAu b[0]" b 0
  let b1 ← idx? "parseAu b[1]" b 1
  let ahl := (rd16 b0 b1 + 7) / 8
  if 2 + ahl > b.length then return []
  parseAuLoop b (ahl / 2) 2 (2 + ahl)

/-- the fragment loop of `RtpUnpackerAac.TryUnpackOne` (`acc` = `as` joined, `cache` = `cacheSize`) -/
def aacFragLoop (rate : Int) (total ts0 : Nat) : Nat → Nat → Bytes → Nat → List RtpPacket → GoM (Option Unpacked)
  | _, _, _, _, [] => .ok none
  | seq, cache, acc, cnt, p :: rest =>
    if subSeq p.hdr.seq seq ≠ 1 then .ok none
    else if p.hdr.timestamp ≠ ts0 then .ok none
    else do
      let b ← p.body
      let aus ← parseAu b
      match aus with
      | [a] =>
        if a.size ≠ total then return none
        else
          let tail ← from? "b[aus[0].pos:]" b a.pos
          let cache' := cache + tail.length
          if cache' < total then aacFragLoop rate total ts0 p.hdr.seq cache' (acc ++ tail) (cnt + 1) rest
          else if cache' = total then do
            let ts ← tsMs rate p.hdr.timestamp
            return some { outs := [{ ts := ts, payload := acc ++ tail }], seq := p.hdr.seq, rest := rest, sizeDec := cnt + 1 }
          else return none
      | _ => return none

/-- the "more complete access units" loop -/
def aacMulti (rate : Int) (ts : Nat) (b : Bytes) : Nat → List Au → GoM (List AvPacket)
  | _, [] => .ok []
  | i, a :: rest => do
    -- Timestamp + uint32(i*1024) wraps in uint32
    let t ← tsMs rate ((ts + i * 1024 % 4294967296) % 4294967296)
    -- an access unit that exceeds the packet ends the loop (`break`)
    if a.pos + a.size > b.length then return []
    let payload ← slice? "b[pos:pos+size]" b a.pos (a.pos + a.size)
    let r ← aacMulti rate ts b (i + 1) rest
    return { ts := t, payload := payload } :: r

/-- `RtpUnpackerAac.TryUnpackOne` -/
def tryUnpackOneAac (rate : Int) (items : List RtpPacket) : GoM (Option Unpacked) :=
  match items with
  | [] => .ok none
  | p :: rest => do
    let b ← p.body
    let aus ← parseAu b
    match aus with
    | [a] =>
      let tail ← from? "b[aus[0].pos:]" b a.pos
      if a.size ≤ tail.length then do
        let ts ← tsMs rate p.hdr.timestamp
        return some { outs := [{ ts := ts, payload := tail.take a.size }], seq := p.hdr.seq, rest := rest, sizeDec := 1 }
      else
        -- fragmented; `packetCount` counts the following packets only (the Go code's own count)
        aacFragLoop rate a.size p.hdr.timestamp p.hdr.seq tail.length tail 0 rest
    | _ => do
      let outs ← aacMulti rate p.hdr.timestamp b 0 aus
      return some { outs := outs, seq := p.hdr.seq, rest := rest, sizeDec := 1 }

def protoAac (rate : Int) : Proto :=
  { calcPosition := fun p => .ok p, tryUnpackOne := tryUnpackOneAac rate }

/-! ### raw (G.711 A/U, Opus) -/

/-- `RtpUnpackerRaw.TryUnpackOne` -/
def tryUnpackOneRaw (rate : Int) (items : List RtpPacket) : GoM (Option Unpacked) :=
  match items with
  | [] => .ok none
  | p :: rest => do
    let b ← p.body
    let ts ← tsMs rate p.hdr.timestamp
    return some { outs := [{ ts := ts, payload := b }], seq := p.hdr.seq, rest := rest, sizeDec := 1 }

def protoRaw (rate : Int) : Proto :=
  { calcPosition := fun p => .ok p, tryUnpackOne := tryUnpackOneRaw rate }

def protoOf : Kind → Int → Proto
  | .avc, r => protoAvcHevc false r
  | .hevc, r => protoAvcHevc true r
  | .aac, r => protoAac r
  | .pcm, r => protoRaw r
  | .opus, r => protoRaw r

/-! ### RtpUnpackContainer -/

/-- `RtpUnpackContainer.tryUnpackOne` : on success the list is advanced and `SetDoneSeq` called -/
def tryOne (pr : Proto) (l : PktList) : GoM (Option (PktList × List AvPacket)) :=
  match pr.tryUnpackOne l.items with
  | .error f => .error f
  | .ok none => .ok none
  | .ok (some u) =>
    .ok (some ({ l with items := u.rest, size := l.size - u.sizeDec, doneFlag := true, doneSeq := u.seq }, u.outs))

/-- `for { if !r.tryUnpackOneSequential() { break }; count++ }` : list, outputs, count -/
def seqLoop (pr : Proto) : Nat → PktList → GoM (PktList × List AvPacket × Nat)
  | 0, l => .ok (l, [], 0)
  | fuel+1, l =>
    if !l.isFirstSequential then .ok (l, [], 0) else
    match tryOne pr l with
    | .error f => .error f
    | .ok none => .ok (l, [], 0)
    | .ok (some (l', o)) =>
      match seqLoop pr fuel l' with
      | .error f => .error f
      | .ok (l'', o', c) => .ok (l'', o ++ o', c + 1)

/-- `RtpUnpackContainer.Feed` : the new list and what `onAvPacket` received during the call.
    Every successful unpack removes at least one packet, so `items.length + 1` iterations suffice. -/
def feed (pr : Proto) (l : PktList) (pkt : RtpPacket) : GoM (PktList × List AvPacket) :=
  if l.isStale pkt.hdr.seq then .ok (l, []) else
  match pr.calcPosition pkt with
  | .error f => .error f
  | .ok pkt' =>
    let l1 := l.insert pkt'
    match seqLoop pr (l1.items.length + 1) l1 with
    | .error f => .error f
    | .ok (l2, o2, count) =>
      if count > 0 then .ok (l2, o2)
      else if l2.full then
        match tryOne pr l2 with
        | .error f => .error f
        | .ok none =>
          match l2.popFirst with
          | .error f => .error f
          | .ok l3 => .ok (l3, o2)
        | .ok (some (l3, o3)) =>
          match seqLoop pr (l3.items.length + 1) l3 with
          | .error f => .error f
          | .ok (l4, o4, _) => .ok (l4, o2 ++ o3 ++ o4)
      else .ok (l2, o2)

/-- feeding a whole arrival sequence -/
def feedAll (pr : Proto) : PktList → List RtpPacket → GoM (PktList × List AvPacket)
  | l, [] => .ok (l, [])
  | l, p :: ps =>
    match feed pr l p with
    | .error f => .error f
    | .ok (l', o) =>
      match feedAll pr l' ps with
      | .error f => .error f
      | .ok (l'', o') => .ok (l'', o ++ o')

end Lal.RtpUnpack
