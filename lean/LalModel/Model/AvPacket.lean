import LalModel.Model.Bytes
/-
  `base.AvPacket` (pkg/base/avpacket.go) as the ingest paths use it: payload type, DTS (`Timestamp`, ms),
  PTS (ms) and the payload. `base.AvPacketPt` values are the integers of the Go constants
  (compared with the regenerated ones in Props/C07 `consts_agree`).
-/
namespace Lal.Av

def ptUnknown : Int := -1
def ptG711U : Int := 0
def ptG711A : Int := 8
def ptAvc : Int := 96
def ptAac : Int := 97
def ptHevc : Int := 98
def ptOpus : Int := 101

/-- `base.AvPacket` -/
structure AvPacket where
  pt : Int
  ts : Int                -- Timestamp (int64, ms)
  pts : Int := 0          -- Pts (int64, ms)
  payload : Bytes
deriving Repr, DecidableEq, Inhabited

/-- `AvPacket.IsAudio` -/
def AvPacket.isAudio (p : AvPacket) : Bool :=
  p.pt == ptAac || p.pt == ptG711A || p.pt == ptG711U || p.pt == ptOpus

/-- `AvPacket.IsVideo` -/
def AvPacket.isVideo (p : AvPacket) : Bool := p.pt == ptAvc || p.pt == ptHevc

/-- `base.RtmpMsg` as the ingest paths produce it: the header fields that vary, and the payload
    (`MsgLen = len(Payload)`) -/
structure RtmpMsg where
  typ : Nat       -- MsgTypeId
  csid : Nat
  msid : Nat
  ts : Nat        -- TimestampAbs (uint32)
  payload : Bytes
deriving Repr, DecidableEq, Inhabited

end Lal.Av
