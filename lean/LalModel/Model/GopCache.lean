import LalModel.Model.Classify
/-
  Model of remux.GopCache (pkg/remux/gop_cache.go): cached metadata / sequence headers and the
  ring of GOPs, with the ring arithmetic exactly as in the Go. Items are the already serialised
  bytes (RTMP chunks or FLV tags) the group hands in.
-/
namespace Lal.GopCache

structure T where
  metaWith : Option Bytes := none      -- MetadataEnsureWithSetDataFrame
  metaWithout : Option Bytes := none   -- MetadataEnsureWithoutSetDataFrame
  vsh : Option Bytes := none           -- VideoSeqHeader
  ash : Option Bytes := none           -- AacSeqHeader
  vshPayload : Option Bytes := none    -- videoSeqHeaderPayload
  ashPayload : Option Bytes := none    -- aacSeqHeaderPayload
  ring : List (List Bytes) := []       -- gopRing, length gopSize
  first : Nat := 0
  last : Nat := 0
  gopSize : Nat := 1                   -- gopNum + 1
  cap : Nat := 0                       -- singleGopMaxFrameNum (0 = unlimited)
deriving Repr, DecidableEq

/-- `NewGopCache(_, _, gopNum, singleGopMaxFrameNum)` -/
def new (gopNum cap : Nat) : T :=
  { ring := List.replicate (gopNum + 1) [], gopSize := gopNum + 1, cap := cap }

def isEmpty (g : T) : Bool := g.first == g.last
def isFull (g : T) : Bool := (g.last + 1) % g.gopSize == g.first

/-- `GetGopCount` -/
def gopCount (g : T) : Nat := (g.last + g.gopSize - g.first) % g.gopSize

/-- `GetGopDataAt(pos)` -/
def gopDataAt (g : T) (pos : Nat) : List Bytes :=
  if pos ≥ gopCount g then [] else (g.ring[(pos + g.first) % g.gopSize]?).getD []

/-- all cached GOP items, oldest GOP first — what a fresh consumer is sent -/
def allGopData (g : T) : List Bytes := (List.range (gopCount g)).flatMap (gopDataAt g)

def setRing (g : T) (i : Nat) (v : List Bytes) : T := { g with ring := g.ring.set i v }

/-- `feedNewGop` -/
def feedNewGop (g : T) (item : Bytes) : T :=
  let g1 := if isFull g then { g with first := (g.first + 1) % g.gopSize } else g
  let g2 := setRing g1 g1.last [item]
  { g2 with last := (g2.last + 1) % g2.gopSize }

/-- `feedLastGop`; the Bool is the function's result (false = dropped: over the frame limit) -/
def feedLastGop (g : T) (item : Bytes) : T × Bool :=
  if !isEmpty g then
    let pos := (g.last + g.gopSize - 1) % g.gopSize
    let cur := (g.ring[pos]?).getD []
    if cur.length < g.cap || g.cap == 0 then (setRing g pos (cur ++ [item]), true)
    else (g, false)
  else (g, true)

/-- `Feed(msg, b)` -/
def feed (g : T) (typ : Nat) (payload : Bytes) (item : Bytes) : T × Bool :=
  if typ == 18 then (g, true)
  else if typ == 8 && Classify.isAacSeqHeader typ payload then
    let g1 := match g.ashPayload with
      | some old => if old != payload then { g with first := 0, last := 0 } else g
      | none => g
    ({ g1 with ash := some item, ashPayload := some payload }, true)
  else if typ == 9 && Classify.isVideoKeySeqHeader typ payload then
    -- a changed video sequence header invalidates the cached GOPs
    let g1 := match g.vshPayload with
      | some old => if old != payload then { g with first := 0, last := 0 } else g
      | none => g
    ({ g1 with vsh := some item, vshPayload := some payload }, true)
  else if g.gopSize > 1 then
    if Classify.isVideoKeyNalu typ payload then (feedNewGop g item, true)
    else feedLastGop g item
  else (g, true)

/-- `SetMetadata(w, wo)` -/
def setMetadata (g : T) (w wo : Bytes) : T := { g with metaWith := some w, metaWithout := some wo }

/-- `Clear()` -/
def clear (g : T) : T :=
  { g with metaWith := none, metaWithout := none, vsh := none, ash := none, vshPayload := none, ashPayload := none, first := 0, last := 0 }

end Lal.GopCache
