import LalModel.Generated.C17
import LalModel.Model.Go
/-
  Model of relay pull and relay push of a `logic.Group`:
    pkg/logic/group__relay_pull.go  (pullProxy, StartPull, StopPull, kickPull, tickPullModule, pullIfNeeded,
                                     stopPull, shouldStartPull, shouldAutoStopPull, isPullSessionWanted)
    pkg/logic/group__relay_push.go  (pushProxy, startPushIfNeeded, stopPushIfNeeded, Add/DelRtmpPushSession)
    pkg/logic/group__in.go          (AddRtmpPullSession, DelRtmpPullSession/delPullSession, Add*PubSession,
                                     addIn/delIn as far as relay is concerned)
    pkg/logic/group__out_sub.go     (addSub), pkg/logic/group__.go (Tick, KickSession, hasInSession, hasOutSession)
    pkg/logic/server_manager__api.go (CtrlStartRelayPull / CtrlStopRelayPull / CtrlKickSession answers)

  One event = one critical section of `Group.mutex`. What is not one critical section is split: a pull is
  `start` (inside join / tick / API start), `pullAttach` (the origin answered: `AddRtmpPullSession`), `pullDone`
  (the pull goroutine's `DelRtmpPullSession`: connect failure, refusal, or end of an attached session); a push
  likewise per target. Wall-clock time (`time.Now()` in ms) and connection outcomes are event parameters.

  Sessions are numbered in order of creation (`nextId`). `pullLive` / `Push.live` are GHOST fields: the pull /
  push goroutines that exist. They never influence a non-ghost field; events that refer to a goroutine that does
  not exist cannot happen and are no-ops.
-/
namespace Lal.Relay

/-- who publishes -/
inductive Pub where
  | rtmp (queryLen : Nat)   -- rtmp.ServerSession, with the length of its URL parameters
  | rtsp
  | other                   -- customize / gb28181 publisher: an input, but relay push does not serve it
deriving Repr, DecidableEq

structure Pull where
  staticEnable : Bool
  apiEnable : Bool := false
  retryNum : Int                 -- pullRetryNum: < 0 forever, 0 never retry, n
  autoStopMs : Int               -- autoStopPullAfterNoOutMs: < 0 never, 0 immediately, t
  startCount : Nat := 0
  lastHasOut : Int := 0          -- lastHasOutTs (ms)
  pulling : Bool := false        -- isSessionPulling
  pullingId : Option Nat := none -- pullingSessionUk: the connecting attempt that may still attach
  attached : Option Nat := none  -- rtmpSession / rtspSession
deriving Repr, DecidableEq

structure Push where
  isPushing : Bool := false
  session : Option Nat := none
  live : List Nat := []          -- ghost: ids of the push goroutines of this target started and not yet done
deriving Repr, DecidableEq

structure State where
  pull : Pull
  pub : Option Pub := none
  subs : Nat := 0
  pushEnable : Bool
  push : List Push
  nextId : Nat := 0
  pullLive : List Nat := []             -- ghost: ids of pull goroutines started and not yet done
  pullStarts : Nat := 0                 -- OnRelayPullStart notifications
  pullStops : Nat := 0                  -- OnRelayPullStop notifications
deriving Repr, DecidableEq

/-- `NewGroup` -> `initRelayPushByConfig`, `initRelayPullByConfig` (`now` = time of creation) -/
def init (static : Bool) (targets : Nat) (now : Int) : State :=
  { pull := { staticEnable := static, retryNum := Gen.staticRelayPullRetryNum, autoStopMs := Gen.staticRelayPullAutoStopMs,
              lastHasOut := now },
    pushEnable := targets > 0,
    push := List.replicate targets {} }

inductive StartErr where
  | dupIn          -- an input exists (`base.ErrDupInStream`)
  | pulling        -- an attempt is in flight or attached (`base.ErrDupInStream` as well)
  | notEnable
  | autoStop
  | retryLimited
deriving Repr, DecidableEq

inductive Obs where
  | startPull (id : Nat)             -- pull goroutine launched
  | stopCalled                       -- `stopPull` ran (start counter reset)
  | disposePull (id : Nat)           -- `Dispose` of a pull session (by stop / kick / auto stop, or by its own callback after a refusal)
  | cancelPull (id : Nat)            -- a connecting attempt was told it is no longer wanted
  | pullAttached (id : Nat)
  | pullRefused (id : Nat)
  | pullEnded (id : Nat)
  | startPush (target id : Nat) (queryLen : Nat)
  | disposePush (target id : Nat)
  | pushAttached (target id : Nat)
  | pushRefused (target id : Nat)
  | pushEnded (target id : Nat)
  | pubAccepted
  | pubRefused
  | apiStart (r : Except StartErr Nat)   -- `Group.StartPull`: session id or error
  | apiStop (r : Option Nat)             -- `Group.StopPull`: session id or ""
  | kick (found : Bool)
deriving Repr, DecidableEq

inductive Event where
  | subJoin (now : Int)
  | subLeave
  | tick (now : Int)
  | apiStart (retryNum autoStopMs : Int) (now : Int)
  | apiStop
  | kick (id : Nat)
  | pullAttach (id : Nat)
  | pullDone (id : Nat)
  | pubArrive (p : Pub)
  | pubLeave
  | pushAttach (target id : Nat)
  | pushDone (target id : Nat)
deriving Repr, DecidableEq

/-! ### predicates of group__.go -/

def State.hasPull (s : State) : Bool := s.pull.attached.isSome
def State.hasIn (s : State) : Bool := s.pub.isSome || s.hasPull
def State.hasSub (s : State) : Bool := s.subs > 0
def State.hasPush (s : State) : Bool := s.push.any fun p => p.isPushing && p.session.isSome
def State.hasOut (s : State) : Bool := s.hasSub || s.hasPush

/-- `rtmpPubSession != nil || rtspPubSession != nil` and the publisher's URL parameters -/
def State.pushSource (s : State) : Option Nat :=
  match s.pub with
  | some (.rtmp q) => some q
  | some .rtsp => some 0
  | _ => none

/-! ### relay pull -/

/-- `shouldAutoStopPull` -/
def shouldAutoStop (s : State) (now : Int) : Bool :=
  if s.pull.autoStopMs < 0 then false
  else if s.hasOut then false
  else if s.pull.autoStopMs = 0 then true
  else s.pull.lastHasOut != -1 && now - s.pull.lastHasOut ≥ s.pull.autoStopMs

/-- `shouldStartPull` -/
def shouldStartPull (s : State) (now : Int) : Except StartErr Unit :=
  if s.hasIn then .error .dupIn
  else if s.pull.pulling then .error .pulling
  else if !s.pull.staticEnable && !s.pull.apiEnable then .error .notEnable
  else if shouldAutoStop s now then .error .autoStop
  else if s.pull.retryNum ≥ 0 ∧ (s.pull.startCount : Int) > s.pull.retryNum then .error .retryLimited
  else .ok ()

/-- `pullIfNeeded` -/
def pullIfNeeded (s : State) (now : Int) : State × Except StartErr Nat × List Obs :=
  let s := if s.hasOut then { s with pull := { s.pull with lastHasOut := now } } else s
  match shouldStartPull s now with
  | .error e => (s, .error e, [])
  | .ok () =>
    let id := s.nextId
    ({ s with pull := { s.pull with pulling := true, startCount := s.pull.startCount + 1, pullingId := some id },
              nextId := id + 1, pullLive := s.pullLive ++ [id] },
     .ok id, [.startPull id])

/-- `isPullSessionConnecting` -/
def State.connecting (s : State) : Bool := s.pull.pulling && !s.hasPull && s.pull.pullingId.isSome

/-- `stopPull`: the start counter is reset; an attached session is disposed; a connecting attempt (`connecting`
    implies `pullingId` is set) is forgotten, so that it is refused when it tries to attach -/
def stopPull (s : State) : State × Option Nat × List Obs :=
  match s.pull.attached with
  | some id => ({ s with pull := { s.pull with startCount := 0 } }, some id, [.stopCalled, .disposePull id])
  | none =>
    if s.connecting then
      ({ s with pull := { s.pull with startCount := 0, pullingId := none } }, s.pull.pullingId,
       .stopCalled :: (s.pull.pullingId.map Obs.cancelPull).toList)
    else ({ s with pull := { s.pull with startCount := 0 } }, none, [.stopCalled])

/-! ### relay push -/

/-- the loop of `startPushIfNeeded` over the targets (`i` = index of the first element of `ps`) -/
def startPushLoop (q : Nat) : Nat → Nat → List Push → List Push × Nat × List Obs
  | _, nextId, [] => ([], nextId, [])
  | i, nextId, p :: ps =>
    if p.isPushing then
      let (ps', n', obs) := startPushLoop q (i + 1) nextId ps
      (p :: ps', n', obs)
    else
      let (ps', n', obs) := startPushLoop q (i + 1) (nextId + 1) ps
      ({ p with isPushing := true, live := p.live ++ [nextId] } :: ps', n', .startPush i nextId q :: obs)

/-- `startPushIfNeeded` -/
def startPushIfNeeded (s : State) : State × List Obs :=
  if !s.pushEnable then (s, [])
  else match s.pushSource with
    | none => (s, [])
    | some q =>
      ({ s with push := (startPushLoop q 0 s.nextId s.push).1, nextId := (startPushLoop q 0 s.nextId s.push).2.1 },
       (startPushLoop q 0 s.nextId s.push).2.2)

def stopPushLoop : Nat → List Push → List Push × List Obs
  | _, [] => ([], [])
  | i, p :: ps =>
    let (ps', obs) := stopPushLoop (i + 1) ps
    match p.session with
    | some id => ({ p with session := none } :: ps', .disposePush i id :: obs)
    | none => (p :: ps', obs)

/-- `stopPushIfNeeded` -/
def stopPushIfNeeded (s : State) : State × List Obs :=
  if !s.pushEnable then (s, [])
  else ({ s with push := (stopPushLoop 0 s.push).1 }, (stopPushLoop 0 s.push).2)

/-- `delIn` as far as relay is concerned: pushes are stopped, every publisher slot is cleared -/
def delIn (s : State) : State × List Obs :=
  ({ (stopPushIfNeeded s).1 with pub := none }, (stopPushIfNeeded s).2)

def setPush (ps : List Push) (i : Nat) (f : Push → Push) : List Push :=
  match ps[i]? with
  | some p => ps.set i (f p)
  | none => ps

/-! ### the step function -/

/-- `tickPullModule` -/
def tickPull (s : State) (now : Int) : State × List Obs :=
  let s := if s.hasSub then { s with pull := { s.pull with lastHasOut := now } } else s
  if shouldAutoStop s now then ((stopPull s).1, (stopPull s).2.2)
  else ((pullIfNeeded s now).1, (pullIfNeeded s now).2.2)

/-- `StartPull` -/
def apiStartPull (s : State) (r a : Int) (now : Int) : State × List Obs :=
  let s := { s with pull := { s.pull with apiEnable := true, retryNum := r, autoStopMs := a } }
  ((pullIfNeeded s now).1, (pullIfNeeded s now).2.2 ++ [.apiStart (pullIfNeeded s now).2.1])

/-- `StopPull` -/
def apiStopPull (s : State) : State × List Obs :=
  let s := { s with pull := { s.pull with apiEnable := false } }
  ((stopPull s).1, (stopPull s).2.2 ++ [.apiStop (stopPull s).2.1])

/-- `KickSession` for a pull session id -> `kickPull` -/
def kickPull (s : State) (id : Nat) : State × List Obs :=
  if s.pull.attached = some id ∨ (s.connecting ∧ s.pull.pullingId = some id) then
    let s := { s with pull := { s.pull with apiEnable := false } }
    ((stopPull s).1, (stopPull s).2.2 ++ [.kick true])
  else (s, [.kick false])

/-- the origin answered the play: `OnPullSucc` -> `AddRtmpPullSession`; refused => the callback disposes the session -/
def pullAttach (s : State) (id : Nat) : State × List Obs :=
  if id ∈ s.pullLive ∧ s.pull.attached ≠ some id then
    if s.hasIn then (s, [.pullRefused id, .disposePull id])
    else if !(s.pull.pulling && s.pull.pullingId == some id) then (s, [.pullRefused id, .disposePull id])
    else
      -- setRtmpPullSession, addIn (startPushIfNeeded finds no rtmp/rtsp publisher: the input is the pull)
      let s := { s with pull := { s.pull with attached := some id }, pullStarts := s.pullStarts + 1 }
      ((startPushIfNeeded s).1, .pullAttached id :: (startPushIfNeeded s).2)
  else (s, [])

/-- the pull goroutine ends: `DelRtmpPullSession` -> `delPullSession` -/
def pullDone (s : State) (id : Nat) : State × List Obs :=
  if id ∈ s.pullLive then
    let s := { s with pullLive := s.pullLive.erase id, pullStops := s.pullStops + 1 }
    if s.pull.attached = some id then
      -- resetRelayPullSession, delIn
      let s := { s with pull := { s.pull with pulling := false, attached := none } }
      ((delIn s).1, .pullEnded id :: (delIn s).2)
    else
      -- not the session of the group: only the in-flight flag is cleared
      ({ s with pull := { s.pull with pulling := false } }, [.pullEnded id])
  else (s, [])

/-- `Add{Rtmp,Rtsp,Customize}PubSession` -/
def pubArrive (s : State) (p : Pub) : State × List Obs :=
  if s.hasIn then (s, [.pubRefused])
  else ((startPushIfNeeded { s with pub := some p }).1, .pubAccepted :: (startPushIfNeeded { s with pub := some p }).2)

/-- the target answered the publish: `AddRtmpPushSession` -/
def pushAttach (s : State) (t id : Nat) : State × List Obs :=
  if (∃ p, s.push[t]? = some p ∧ id ∈ p.live ∧ p.session ≠ some id) then
    if s.pushSource.isNone then (s, [.pushRefused t id, .disposePush t id])
    else ({ s with push := setPush s.push t fun p => { p with session := some id } }, [.pushAttached t id])
  else (s, [])

/-- the push goroutine ends: `DelRtmpPushSession` -/
def pushDone (s : State) (t id : Nat) : State × List Obs :=
  if (∃ p, s.push[t]? = some p ∧ id ∈ p.live) then
    ({ s with push := setPush s.push t fun p => { isPushing := false, session := none, live := p.live.erase id } }, [.pushEnded t id])
  else (s, [])

def step (s : State) : Event → State × List Obs
  -- AddRtmpSubSession ...: the set grows, `addSub` -> `pullIfNeeded`
  | .subJoin now => ((pullIfNeeded { s with subs := s.subs + 1 } now).1, (pullIfNeeded { s with subs := s.subs + 1 } now).2.2)
  | .subLeave => ({ s with subs := s.subs - 1 }, [])
  -- Tick: tickPullModule, startPushIfNeeded
  | .tick now => ((startPushIfNeeded (tickPull s now).1).1, (tickPull s now).2 ++ (startPushIfNeeded (tickPull s now).1).2)
  | .apiStart r a now => apiStartPull s r a now
  | .apiStop => apiStopPull s
  | .kick id => kickPull s id
  | .pullAttach id => pullAttach s id
  | .pullDone id => pullDone s id
  | .pubArrive p => pubArrive s p
  -- Del*PubSession of the accepted publisher
  | .pubLeave => if s.pub.isSome then delIn s else (s, [])
  | .pushAttach t id => pushAttach s t id
  | .pushDone t id => pushDone s t id

/-- a whole history -/
def run (s : State) : List Event → State × List Obs
  | [] => (s, [])
  | e :: es => ((run (step s e).1 es).1, (step s e).2 ++ (run (step s e).1 es).2)

/-! ### answers of the HTTP API (server_manager__api.go) -/

inductive ApiCode where
  | succ | startRelayPullFail | sessionNotFound
deriving Repr, DecidableEq

/-- `CtrlStartRelayPull` -/
def ctrlStartCode : Except StartErr Nat → ApiCode
  | .ok _ => .succ
  | .error _ => .startRelayPullFail

/-- `CtrlStopRelayPull` (the group exists) -/
def ctrlStopCode : Option Nat → ApiCode
  | some _ => .succ
  | none => .sessionNotFound

/-- `CtrlKickSession` (the group exists) -/
def ctrlKickCode : Bool → ApiCode
  | true => .succ
  | false => .sessionNotFound

end Lal.Relay
