import LalModel.Model.Bytes
import LalModel.Generated.C08
/-
  Model of pkg/rtmp/chunk_divider.go (calcHeader, message2Chunks) and
  pkg/rtmp/chunk_composer.go (ChunkComposer.RunLoop) with pkg/rtmp/stream.go.
  Go `uint32` arithmetic is written with explicit `% 2^32`.
  `Gen.maxTimestampInMessageHeader`, `Gen.defaultChunkSize` are regenerated from
  the source on every run.
-/
namespace Lal.Chunk

def maxTs : Nat := Gen.maxTimestampInMessageHeader
def u32 : Nat := 4294967296

/-- base.RtmpHeader (`ts` = TimestampAbs) -/
structure Header where
  csid   : Nat := 0
  msgLen : Nat := 0
  typ    : Nat := 0
  msid   : Nat := 0
  ts     : Nat := 0
deriving Repr, DecidableEq, Inhabited

structure Msg where
  hdr : Header
  payload : Bytes
deriving Repr, DecidableEq

/-! ### divider -/

/-- chunk basic header as `calcHeader` writes it (csid ≥ 2) -/
def basicHeader (fmt csid : Nat) : Bytes :=
  if 2 ≤ csid ∧ csid ≤ 63 then [b8 (fmt * 64 + csid)]
  else if 64 ≤ csid ∧ csid ≤ 319 then [b8 (fmt * 64), b8 (csid - 64)]
  else [b8 (fmt * 64 + 1), b8 (csid - 64), b8 ((csid - 64) / 256)]

def fmtOf (h : Header) : Option Header → Nat
  | none => 0
  | some p =>
    if h.msid = p.msid then
      if h.msgLen = p.msgLen ∧ h.typ = p.typ then (if h.ts = p.ts then 3 else 2) else 1
    else 0

/-- the `timestamp` local of `calcHeader` -/
def tsField (h : Header) : Option Header → Nat
  | none => h.ts
  | some p =>
    if h.msid = p.msid then
      if h.ts ≥ maxTs then h.ts else (h.ts + u32 - p.ts) % u32
    else h.ts

/-- whether `calcHeader` writes 0xFFFFFF in the 3-byte field and appends the 4-byte extended timestamp
    (`if timestamp >= maxTimestampInMessageHeader`) -/
def hasExt (t : Nat) : Bool := t ≥ maxTs

def calcHeader (h : Header) (prev : Option Header) : Bytes :=
  let f := fmtOf h prev
  let t := tsField h prev
  basicHeader f h.csid ++
  (if f ≤ 2 then
     be24 (if hasExt t then maxTs else t) ++
     (if f ≤ 1 then be24 h.msgLen ++ [b8 h.typ] ++ (if f = 0 then le32 h.msid else []) else [])
   else []) ++
  (if hasExt t then be32 t else [])

def chunksAux : Nat → Bytes → Header → Option Header → Nat → Bytes
  | 0, _, _, _, _ => []
  | fuel+1, payload, h, prev, cs =>
    if payload.isEmpty then []
    else calcHeader h prev ++ payload.take cs ++ chunksAux fuel (payload.drop cs) h (some h) cs

/-- `message2Chunks(message, header, prevHeader, chunkSize)`, `chunkSize ≥ 1`
    (Go divides by it). An empty message yields no bytes at all. -/
def message2Chunks (payload : Bytes) (h : Header) (prev : Option Header) (cs : Nat) : Bytes :=
  chunksAux payload.length payload h prev cs

/-! ### composer -/

structure Stream where
  hdr       : Header := {}
  timestamp : Nat := 0      -- the chunk header's timestamp field (absolute or delta)
  absTsFlag : Bool := false
  buf       : Bytes := []
deriving Repr, DecidableEq, Inhabited

structure Composer where
  peerChunkSize : Nat := Gen.defaultChunkSize
  streams : List (Nat × Stream) := []
deriving Repr, DecidableEq

def Composer.get (c : Composer) (csid : Nat) : Stream :=
  match c.streams.lookup csid with
  | some s => s
  | none => {}

def Composer.set (c : Composer) (csid : Nat) (s : Stream) : Composer :=
  { c with streams := (csid, s) :: c.streams.filter (fun p => p.1 != csid) }

inductive Res where
  | eof                                            -- reader ran dry inside a chunk: RunLoop returns the read error
  | fail (delivered : List Msg)                    -- RunLoop returns a protocol error (after these callbacks)
  | ok (c : Composer) (delivered : List Msg) (rest : Bytes)
deriving Repr

/-- aggregate message (type 22) sub-message loop; `fuel` ≥ buffer length -/
def aggregate (csid : Nat) (baseAbs : Nat) : Nat → Bytes → Option Nat → List Msg → (List Msg × Bool)
  | 0, _, _, acc => (acc.reverse, true)
  | fuel+1, buf, baseTs?, acc =>
    if buf.isEmpty then (acc.reverse, true) else
    match buf with
    | t :: l0 :: l1 :: l2 :: t0 :: t1 :: t2 :: t3 :: s0 :: s1 :: s2 :: rest =>
      let len := rd24 l0 l1 l2
      let ts := rd24 t0 t1 t2 + t3.toNat * 16777216
      let msid := rd24 s0 s1 s2
      let baseTs := baseTs?.getD ts
      let abs := (baseAbs + ts + u32 - baseTs) % u32
      if rest.length < len then (acc.reverse, false) else
      let m : Msg := { hdr := { csid := csid, msgLen := len, typ := t.toNat, msid := msid, ts := abs },
                       payload := rest.take len }
      let rest' := rest.drop len
      if rest'.length < 4 then ((m :: acc).reverse, false)
      else aggregate csid baseAbs fuel (rest'.drop 4) (some baseTs) (m :: acc)
    | _ => (acc.reverse, false)

/-- bytes the composer reads as this chunk's body -/
def neededSize (msgLen bufLen peer : Nat) : Nat :=
  let n := (msgLen + u32 - bufLen) % u32
  if n > peer then peer else n

/-- §5.3.1.1 as `RunLoop` reads it: format, chunk stream id, rest -/
def parseBasic : Bytes → Option (Nat × Nat × Bytes)
  | [] => none
  | b0 :: r0 =>
    let fmt := b0.toNat / 64
    let c6 := b0.toNat % 64
    if c6 = 0 then (match r0 with | x :: r => some (fmt, 64 + x.toNat, r) | _ => none)
    else if c6 = 1 then (match r0 with | x :: y :: r => some (fmt, 64 + x.toNat + y.toNat * 256, r) | _ => none)
    else some (fmt, c6, r0)

/-- the `switch fmt` that reads the message header into the stream -/
def parseMsgHeader (fmt : Nat) (s : Stream) (r1 : Bytes) : Option (Stream × Bytes) :=
  if fmt = 0 then
    (match r1 with
     | t0 :: t1 :: t2 :: l0 :: l1 :: l2 :: ty :: i0 :: i1 :: i2 :: i3 :: r =>
       let ts := rd24 t0 t1 t2
       some ({ s with timestamp := ts, absTsFlag := true,
                      hdr := { s.hdr with ts := ts, msgLen := rd24 l0 l1 l2, typ := ty.toNat,
                                          msid := rd32 i3 i2 i1 i0 } }, r)
     | _ => none)
  else if fmt = 1 then
    (match r1 with
     | t0 :: t1 :: t2 :: l0 :: l1 :: l2 :: ty :: r =>
       some ({ s with timestamp := rd24 t0 t1 t2,
                      hdr := { s.hdr with msgLen := rd24 l0 l1 l2, typ := ty.toNat } }, r)
     | _ => none)
  else if fmt = 2 then
    (match r1 with
     | t0 :: t1 :: t2 :: r => some ({ s with timestamp := rd24 t0 t1 t2 }, r)
     | _ => none)
  else some (s, r1)

/-- the extended timestamp step (`if stream.timestamp >= maxTimestampInMessageHeader`) -/
def parseExt (fmt : Nat) (s1 : Stream) (r2 : Bytes) : Option (Stream × Bytes) :=
  if s1.timestamp ≥ maxTs then
    (match r2 with
     | e0 :: e1 :: e2 :: e3 :: r =>
       let nts := rd32 e0 e1 e2 e3
       let abs :=
         if fmt = 0 then nts
         else if fmt = 1 ∨ fmt = 2 then (s1.hdr.ts + u32 - maxTs + nts) % u32
         else s1.hdr.ts
       some ({ s1 with timestamp := nts, hdr := { s1.hdr with ts := abs } }, r)
     | _ => none)
  else some (s1, r2)

/-- chunk data read into the stream and, when the message is complete, the callback(s) -/
def takeBody (c : Composer) (csid : Nat) (s2 : Stream) (r3 : Bytes) : Res :=
  let need := neededSize s2.hdr.msgLen s2.buf.length c.peerChunkSize
  if r3.length < need then .eof else
  let s3 := { s2 with buf := s2.buf ++ r3.take need }
  let rest := r3.drop need
  if s3.buf.length = s3.hdr.msgLen then
    let peer :=
      if s3.hdr.typ = 1 then
        (match s3.buf with
         | a :: b :: c' :: d :: _ => rd32 a b c' d
         | _ => c.peerChunkSize)
      else c.peerChunkSize
    let abs := if s3.absTsFlag then s3.hdr.ts else (s3.hdr.ts + s3.timestamp) % u32
    let h : Header := { s3.hdr with csid := csid, ts := abs }
    if s3.hdr.typ = 22 then
      let (ms, good) := aggregate csid abs s3.buf.length s3.buf none []
      if good then
        .ok ({ c with peerChunkSize := peer }.set csid { s3 with hdr := h, absTsFlag := false, buf := [] }) ms rest
      else .fail ms
    else
      .ok ({ c with peerChunkSize := peer }.set csid { s3 with hdr := h, absTsFlag := false, buf := [] })
          [{ hdr := h, payload := s3.buf }] rest
  else if s3.buf.length > s3.hdr.msgLen then .fail []
  else .ok (c.set csid s3) [] rest

/-- One iteration of the `for` loop of `RunLoop`: one chunk. -/
def readChunk (c : Composer) (inp : Bytes) : Res :=
  match parseBasic inp with
  | none => .eof
  | some (fmt, csid, r1) =>
    match parseMsgHeader fmt (c.get csid) r1 with
    | none => .eof
    | some (s1, r2) =>
      match parseExt fmt s1 r2 with
      | none => .eof
      | some (s2, r3) => takeBody c csid s2 r3

/-- outcome of feeding a whole byte string to `RunLoop` (the reader then reports EOF) -/
structure Run where
  msgs : List Msg
  failed : Bool       -- ended with a protocol error rather than by running out of input
  leftover : Nat      -- bytes of an incomplete trailing chunk
  final : Composer
deriving Repr

def runLoop : Nat → Composer → Bytes → List Msg → Run
  | 0, c, inp, acc => { msgs := acc, failed := false, leftover := inp.length, final := c }
  | fuel+1, c, inp, acc =>
    match readChunk c inp with
    | .eof => { msgs := acc, failed := false, leftover := inp.length, final := c }
    | .fail ms => { msgs := acc ++ ms, failed := true, leftover := 0, final := c }
    | .ok c' ms rest => runLoop fuel c' rest (acc ++ ms)

/-- every chunk consumes at least one byte, so `inp.length + 1` iterations suffice -/
def compose (c : Composer) (inp : Bytes) : Run := runLoop (inp.length + 1) c inp []

end Lal.Chunk
