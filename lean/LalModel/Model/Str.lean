import LalModel.Model.Bytes
/-
  The few functions of Go's `strings` / `strconv` / `fmt` packages the C14 models use, on `Bytes`
  (Go strings are byte strings). Everything is structural recursion so that `decide` evaluates it.

  `lower` is `strings.ToLower` restricted to what the models need: ASCII letters are lower-cased, every
  other byte is kept. Go additionally maps non-ASCII runes through `unicode.ToLower` and replaces
  invalid UTF-8 by U+FFFD; the only use (`SimpleAuthCtx.check`) compares the result with 32 characters
  of `[0-9a-f]`, and no non-ASCII rune lower-cases into that alphabet, so the comparison has the same
  outcome (trusted; the correspondence run includes non-ASCII and invalid UTF-8 values).
-/
namespace Lal.Str

/-- an ASCII literal as a Go string -/
def asc (s : String) : Bytes := s.toList.map fun c => UInt8.ofNat c.toNat

def lowerByte (x : UInt8) : UInt8 := if 65 ≤ x.toNat ∧ x.toNat ≤ 90 then UInt8.ofNat (x.toNat + 32) else x
def upperByte (x : UInt8) : UInt8 := if 97 ≤ x.toNat ∧ x.toNat ≤ 122 then UInt8.ofNat (x.toNat - 32) else x
/-- `strings.ToLower` (ASCII part, see the header) -/
def lower (s : Bytes) : Bytes := s.map lowerByte
def upper (s : Bytes) : Bytes := s.map upperByte

/-- `strings.HasPrefix(s, p)` -/
def hasPrefix (s p : Bytes) : Bool := s.take p.length == p
/-- `strings.HasSuffix(s, p)` -/
def hasSuffix (s p : Bytes) : Bool := p.length ≤ s.length && s.drop (s.length - p.length) == p
/-- `strings.TrimPrefix(s, p)` -/
def trimPrefix (s p : Bytes) : Bytes := if hasPrefix s p then s.drop p.length else s

/-- `strings.Index(s, pat)`; `none` is Go's -1 -/
def indexOf (pat : Bytes) : Bytes → Option Nat
  | [] => if pat = [] then some 0 else none
  | x :: r =>
    if hasPrefix (x :: r) pat then some 0 else
    match indexOf pat r with
    | some i => some (i + 1)
    | none => none

/-- `strings.Contains(s, pat)` -/
def contains (s pat : Bytes) : Bool := (indexOf pat s).isSome

/-- `strings.Cut(s, c)` for a one-byte separator: before, after, found -/
def cut (c : UInt8) : Bytes → Bytes × Bytes × Bool
  | [] => ([], [], false)
  | x :: r =>
    if x = c then ([], r, true)
    else let (a, b, f) := cut c r; (x :: a, b, f)

/-- `strings.Split(s, c)` for a one-byte separator (never empty: `Split("", c) = [""]`) -/
def splitByte (c : UInt8) : Bytes → List Bytes
  | [] => [[]]
  | x :: r =>
    if x = c then [] :: splitByte c r
    else match splitByte c r with
      | l :: ls => (x :: l) :: ls
      | [] => [[x]]

/-- `strings.SplitN(s, c, 2)` as a pair; `none` when `c` does not occur (one element) -/
def cut2 (c : UInt8) (s : Bytes) : Option (Bytes × Bytes) :=
  match cut c s with
  | (a, b, true) => some (a, b)
  | _ => none

/-- `strings.Join(l, sep)` -/
def joinWith (sep : Bytes) : List Bytes → Bytes
  | [] => []
  | [a] => a
  | a :: b :: r => a ++ sep ++ joinWith sep (b :: r)

/-- `strings.LastIndexByte(s, c)` -/
def lastIndexByte (c : UInt8) : Bytes → Option Nat
  | [] => none
  | x :: r =>
    match lastIndexByte c r with
    | some i => some (i + 1)
    | none => if x = c then some 0 else none

/-- `strings.Count(s, c)` for a one-byte pattern -/
def countByte (c : UInt8) (s : Bytes) : Nat := (s.filter (· == c)).length

def isSpace (x : UInt8) : Bool := x == 9 || x == 10 || x == 11 || x == 12 || x == 13 || x == 32
/-- `strings.TrimSpace` on ASCII text -/
def trimSpace (s : Bytes) : Bytes := ((s.dropWhile isSpace).reverse.dropWhile isSpace).reverse

/-- decimal digits of a natural number, most significant first (`%d` of a non-negative int) -/
def natDigits (fuel n : Nat) (acc : Bytes) : Bytes :=
  match fuel with
  | 0 => acc
  | fuel + 1 =>
    let acc := UInt8.ofNat (48 + n % 10) :: acc
    if n / 10 = 0 then acc else natDigits fuel (n / 10) acc

def natDec (n : Nat) : Bytes := natDigits (n + 1) n []

/-- `fmt.Sprintf("%d", i)` -/
def intDec (i : Int) : Bytes :=
  match i with
  | .ofNat n => natDec n
  | .negSucc n => 45 :: natDec (n + 1)

def isHexDigit (c : UInt8) : Bool :=
  (48 ≤ c.toNat && c.toNat ≤ 57) || (97 ≤ c.toNat && c.toNat ≤ 102) || (65 ≤ c.toNat && c.toNat ≤ 70)

def unhex (c : UInt8) : Nat :=
  if 48 ≤ c.toNat ∧ c.toNat ≤ 57 then c.toNat - 48
  else if 97 ≤ c.toNat ∧ c.toNat ≤ 102 then c.toNat - 87
  else if 65 ≤ c.toNat ∧ c.toNat ≤ 70 then c.toNat - 55
  else 0

def hexDigitLower (n : Nat) : UInt8 := if n < 10 then UInt8.ofNat (48 + n) else UInt8.ofNat (87 + n)

/-- `hex.EncodeToString` (lower case) -/
def hexLower : Bytes → Bytes
  | [] => []
  | x :: r => hexDigitLower (x.toNat / 16) :: hexDigitLower (x.toNat % 16) :: hexLower r

end Lal.Str
