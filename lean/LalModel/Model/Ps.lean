import LalModel.Model.Rtp
import LalModel.Model.RtpUnpack
import LalModel.Model.Nalu
/-
  Model of pkg/gb28181/unpack.go: PsUnpacker.FeedRtpPacket, FeedRtpBody, parsePackHeader, parsePackStreamBody,
  parsePsm, parseAvStream, readPts, iterateNaluByStartCode, onAvPacketWrap; of the parts of
  nazabytes.Buffer they use (Write appends, Bytes is the unread part, Skip past the end resets) and of
  rtprtcp.RtpPacketList (Insert / PopFirst / PeekFirst / Reset / SetDoneSeq / Full / IsFirstSequential).
  Every `rb[i]`, `rb[i:]`, `rb[i:j]` of the Go code is an `idx?` / `from?` / `slice?` here with exactly the
  guards the code has, so a missing guard is a reachable `Fault.panic`.
-/
namespace Lal.Ps
open Lal Lal.Rtp Lal.RtpUnpack Lal.Seq16 Lal.Nalu

/-- what `onAvPacket` receives -/
structure Out where
  pt  : Int
  ts  : Int     -- Timestamp (dts / 90)
  pts : Int
  payload : Bytes
deriving Repr, DecidableEq

/-- the demultiplexer part of `PsUnpacker` (everything but the RTP packet list) -/
structure Dm where
  buf  : Bytes := []
  audioBuf : Bytes := []
  videoBuf : Bytes := []
  audioStreamType : Nat := 0
  videoStreamType : Nat := 0
  audioPt : Int := 0
  videoPt : Int := 0
  preAudioPts : Int := -1
  preVideoPts : Int := -1
  preAudioDts : Int := 0
  preVideoDts : Int := 0
  preAudioRtpts : Int := -1
  preVideoRtpts : Int := -1
  waitSps : Bool := true
deriving Repr

structure St where
  list : PktList
  dm : Dm := {}
deriving Repr

/-- `NewPsUnpacker` (`maxUnpackRtpListSize`) -/
def init (maxSize : Nat) : St := { list := { maxSize := maxSize } }

/-- `bele.BeUint16(rb[i:])` -/
def be16At (site : String) (rb : Bytes) (i : Nat) : GoM Nat := do
  let r ← from? site rb i
  let a ← idx? site r 0
  let b ← idx? site r 1
  return rd16 a b

/-- `bele.BeUint32(rb[i:])` -/
def be32At (site : String) (rb : Bytes) (i : Nat) : GoM Nat := do
  let r ← from? site rb i
  let a ← idx? site r 0
  let b ← idx? site r 1
  let c ← idx? site r 2
  let d ← idx? site r 3
  return rd32 a b c d

/-- `readPts` : `b[0]..b[4]` -/
def readPts (b : Bytes) : GoM Int := do
  let b0 ← idx? "readPts b[0]" b 0
  let b1 ← idx? "readPts b[1]" b 1
  let b2 ← idx? "readPts b[2]" b 2
  let b3 ← idx? "readPts b[3]" b 3
  let b4 ← idx? "readPts b[4]" b 4
  return ((b0.toNat / 2 % 8 * 1073741824 + rd16 b1 b2 / 2 * 32768 + rd16 b3 b4 / 2 : Nat) : Int)

/-- `parsePackHeader(rb, index)` : `none` = -1 -/
def parsePackHeader (rb : Bytes) (index : Nat) : GoM (Option Nat) :=
  if rb.length ≤ index + 9 then .ok none else
  match idx? "parsePackHeader rb[i]" rb (index + 9) with
  | .error f => .error f
  | .ok x =>
    -- the stuffing bytes are not all there yet: wait for the next rtp packet
    if rb.length < index + 10 + x.toNat % 8 then .ok none else .ok (some (10 + x.toNat % 8))

/-- `parsePackStreamBody(rb, index)` -/
def parsePackStreamBody (rb : Bytes) (index : Nat) : GoM (Option Nat) :=
  if rb.length < index + 2 then .ok none else
  match be16At "parsePackStreamBody rb[i:]" rb index with
  | .error f => .error f
  | .ok l => if rb.length < index + 2 + l then .ok none else .ok (some (2 + l))

def videoPtOf (t : Nat) : Int := if t = 27 then 96 else if t = 36 then 98 else -1
def audioPtOf (t : Nat) : Int := if t = 15 then 97 else if t = 144 then 8 else if t = 145 then 0 else -1

/-- the stream-type bookkeeping of one elementary stream map entry -/
def psmEntry (s : Dm) (streamType id : Nat) : Dm :=
  if 224 ≤ id ∧ id ≤ 239 then { s with videoStreamType := streamType, videoPt := videoPtOf streamType }
  else if 192 ≤ id ∧ id ≤ 223 then { s with audioStreamType := streamType, audioPt := audioPtOf streamType }
  else s

/-- the `for esml > 0` loop of `parsePsm` -/
def psmLoop (rb : Bytes) : Nat → Dm → Nat → Int → GoM (Dm × Nat)
  | 0, s, i, _ => .ok (s, i)
  | fuel+1, s, i, esml =>
    if esml ≤ 0 then .ok (s, i) else
    match idx? "parsePsm rb[i] (stream_type)" rb i with
    | .error f => .error f
    | .ok streamType =>
      match idx? "parsePsm rb[i] (stream_id)" rb (i + 1) with
      | .error f => .error f
      | .ok streamId =>
        match be16At "parsePsm rb[i:] (es_info_length)" rb (i + 2) with
        | .error f => .error f
        | .ok esil => psmLoop rb fuel (psmEntry s streamType.toNat streamId.toNat) (i + 4 + esil) (esml - 4 - esil)

/-- `PsUnpacker.parsePsm(rb, index)` -/
def parsePsm (s : Dm) (rb : Bytes) (index : Nat) : GoM (Dm × Option Nat) :=
  match from? "parsePsm rb[i:] (a)" rb index with
  | .error f => .error f
  | .ok r0 =>
    if r0.length < 6 then .ok (s, none) else
    match be16At "parsePsm rb[i:] (program_stream_info_length)" rb (index + 4) with
    | .error f => .error f
    | .ok l =>
      match from? "parsePsm rb[i:] (b)" rb (index + 6) with
      | .error f => .error f
      | .ok r1 =>
        if r1.length < l + 2 then .ok (s, none) else
        match be16At "parsePsm rb[i:] (elementary_stream_map_length)" rb (index + 6 + l) with
        | .error f => .error f
        | .ok esml =>
          match from? "parsePsm rb[i:] (c)" rb (index + 8 + l) with
          | .error f => .error f
          | .ok r2 =>
            if r2.length < esml + 4 then .ok (s, none) else
            match psmLoop rb (esml + 1) s (index + 8 + l) esml with
            | .error f => .error f
            | .ok (s, i) => .ok (s, some (i + 4 - index))

/-- `PsUnpacker.onAvPacketWrap` : `waitSpsFlag` afterwards and the packet handed to `onAvPacket`, if any -/
def onAvPacketWrap (w : Bool) (o : Out) : GoM (Bool × List Out) :=
  if o.pt = 96 ∨ o.pt = 98 then
    match iterateNaluStartCode o.payload 0 with
    | none => .ok (w, [])
    | some (pos, length) =>
      if pos + length ≥ o.payload.length then .ok (w, []) else
      match idx? "onAvPacketWrap Payload[pos+length]" o.payload (pos + length) with
      | .error f => .error f
      | .ok h =>
        let typ := if o.pt = 96 then h.toNat % 32 else h.toNat / 2 % 64
        if w then
          if o.pt = 96 then
            if typ = 7 ∨ typ = 8 then .ok (false, [o]) else .ok (w, [])
          else
            if typ = 32 ∨ typ = 33 ∨ typ = 34 then .ok (false, [o]) else .ok (w, [])
        else .ok (w, [o])
  else .ok (w, [o])

/-- the `for startPos >= 0` loop of `iterateNaluByStartCode` over `videoBuf` -/
def naluLoop (buf : Bytes) (vpt pts dts : Int) : Nat → Bool → Nat → Nat → GoM (Bool × List Out)
  | 0, w, _, _ => .ok (w, [])
  | fuel+1, w, startPos, preLeading =>
    match iterateNaluStartCode buf (startPos + preLeading) with
    | some (nextPos, leading) =>
      match slice? "videoBuf[startPos:nextPos]" buf startPos nextPos with
      | .error f => .error f
      | .ok nalu =>
        match onAvPacketWrap w { pt := vpt, ts := dts.tdiv 90, pts := pts.tdiv 90, payload := nalu } with
        | .error f => .error f
        | .ok (w, o) =>
          match naluLoop buf vpt pts dts fuel w nextPos leading with
          | .error f => .error f
          | .ok (w, o') => .ok (w, o ++ o')
    | none =>
      match from? "videoBuf[startPos:]" buf startPos with
      | .error f => .error f
      | .ok nalu => onAvPacketWrap w { pt := vpt, ts := dts.tdiv 90, pts := pts.tdiv 90, payload := nalu }

/-- `PsUnpacker.iterateNaluByStartCode(code, pts, dts)` -/
def iterateNalu (buf : Bytes) (vpt : Int) (w : Bool) (pts dts : Int) : GoM (Bool × List Out) :=
  match iterateNaluStartCode buf 0 with
  | none => .ok (w, [])
  | some (startPos, preLeading) => naluLoop buf vpt pts dts (buf.length + 1) w startPos preLeading

/-- the PES header of `parseAvStream`: PTS, DTS and the payload; `none` = the PES packet is skipped -/
def pesHeader (rb : Bytes) (i length flag phdl : Nat) : GoM (Option (Int × Int × Bytes)) :=
  if 3 + phdl > length then .ok none
  else if flag / 2 % 2 = 1 ∧ phdl < 5 then .ok none
  else
    match (if flag / 2 % 2 = 1 then (from? "parseAvStream rb[i:] (pts)" rb i >>= readPts) else .ok (-1)) with
    | .error f => .error f
    | .ok pts0 =>
      let j := if flag / 2 % 2 = 1 then 5 else 0
      if flag % 2 = 1 ∧ phdl < j + 5 then .ok none
      else
        match (if flag % 2 = 1 then (from? "parseAvStream rb[i+j:] (dts)" rb (i + j) >>= readPts) else .ok pts0) with
        | .error f => .error f
        | .ok dts =>
          match slice? "parseAvStream rb[i:i+length-3-phdl]" rb (i + phdl) (i + phdl + length - 3 - phdl) with
          | .error f => .error f
          | .ok payload => .ok (some (pts0, dts, payload))

/-- audio: (hand the cached frame to the callback?, pts to remember) -/
def audioDecision (s : Dm) (rt pts0 : Int) : Bool × Int :=
  if pts0 = -1 then
    if s.preAudioPts = -1 then
      if s.preAudioRtpts = -1 then (false, pts0)
      else if s.preAudioRtpts ≠ rt then (true, pts0) else (false, pts0)
    else (false, s.preAudioPts)
  else
    if pts0 ≠ s.preAudioPts ∧ s.preAudioPts ≥ 0 then (true, pts0) else (false, pts0)

/-- audio: the dts to remember. A PES packet without PTS behind one that had a PTS continues the same frame and takes
    over its dts as well as its pts (`pts = p.preAudioPts; dts = p.preAudioDts`); the video branch takes over the pts only. -/
def audioDts (s : Dm) (pts0 dts : Int) : Int :=
  if pts0 = -1 ∧ s.preAudioPts ≠ -1 then s.preAudioDts else dts

/-- the audio branch of `parseAvStream` once the PES header is read -/
def avAudio (s : Dm) (rt pts0 dts : Int) (payload : Bytes) : GoM (Dm × List Out) :=
  if s.audioStreamType = 15 ∨ s.audioStreamType = 144 ∨ s.audioStreamType = 145 then
    if (audioDecision s rt pts0).1 then
      match onAvPacketWrap s.waitSps { pt := s.audioPt, ts := s.preAudioDts.tdiv 90, pts := s.preAudioPts.tdiv 90, payload := s.audioBuf } with
      | .error f => .error f
      | .ok (w, o) =>
        .ok ({ s with waitSps := w, audioBuf := payload, preAudioRtpts := rt, preAudioPts := (audioDecision s rt pts0).2,
                      preAudioDts := audioDts s pts0 dts }, o)
    else .ok ({ s with audioBuf := s.audioBuf ++ payload, preAudioRtpts := rt, preAudioPts := (audioDecision s rt pts0).2,
                       preAudioDts := audioDts s pts0 dts }, [])
  else .ok (s, [])

/-- video: (timestamp to hand the cached frame over with, if it is complete; pts to remember) -/
def videoDecision (s : Dm) (rt pts0 : Int) : Option Int × Int :=
  if pts0 = -1 then
    if s.preVideoPts = -1 then
      if s.preVideoRtpts = -1 then (none, pts0)
      else if s.preVideoRtpts ≠ rt then (some s.preVideoRtpts, pts0) else (none, pts0)
    else (none, s.preVideoPts)
  else
    if pts0 ≠ s.preVideoPts ∧ s.preVideoPts ≥ 0 then (some s.preVideoPts, pts0) else (none, pts0)

/-- the video branch of `parseAvStream` once the PES header is read -/
def avVideo (s : Dm) (rt pts0 dts : Int) (payload : Bytes) : GoM (Dm × List Out) :=
  match (videoDecision s rt pts0).1 with
  | some t =>
    match iterateNalu s.videoBuf s.videoPt s.waitSps t t with
    | .error f => .error f
    | .ok (w, o) =>
      .ok ({ s with waitSps := w, videoBuf := payload, preVideoRtpts := rt, preVideoPts := (videoDecision s rt pts0).2, preVideoDts := dts }, o)
  | none => .ok ({ s with videoBuf := s.videoBuf ++ payload, preVideoRtpts := rt, preVideoPts := (videoDecision s rt pts0).2, preVideoDts := dts }, [])

/-- `PsUnpacker.parseAvStream(code, rtpts, rb, index)` ; `audio` = (code == psPackStartCodeAudioStream) -/
def parseAvStream (s : Dm) (audio : Bool) (rtpts : Nat) (rb : Bytes) (index : Nat) : GoM (Dm × List Out × Option Nat) :=
  if rb.length < index + 2 then .ok (s, [], none) else
  match be16At "parseAvStream rb[i:] (PES_packet_length)" rb index with
  | .error f => .error f
  | .ok length =>
    if rb.length < index + 2 + length then .ok (s, [], none)
    else if length < 3 then .ok (s, [], some (2 + length))
    else
      match idx? "parseAvStream rb[i+1]" rb (index + 3) with
      | .error f => .error f
      | .ok f =>
        match idx? "parseAvStream rb[i+2]" rb (index + 4) with
        | .error e => .error e
        | .ok ph =>
          match pesHeader rb (index + 5) length (f.toNat / 64) ph.toNat with
          | .error e => .error e
          | .ok none => .ok (s, [], some (2 + length))
          | .ok (some (pts0, dts, payload)) =>
            match (if audio then avAudio s rtpts pts0 dts payload else avVideo s rtpts pts0 dts payload) with
            | .error e => .error e
            | .ok (s, o) => .ok (s, o, some (2 + length))

/-- `Buffer.Skip(n)` -/
def skip (buf : Bytes) (n : Nat) : Bytes := if n > buf.length then [] else buf.drop n

/-- the `switch code` of `FeedRtpBody`: `none` = unknown start code -/
def dispatch (s : Dm) (rtpts : Nat) (rb : Bytes) (code : Nat) : GoM (Option (Dm × List Out × Option Nat)) :=
  if code = 0x1ba then
    match parsePackHeader rb 4 with
    | .error f => .error f
    | .ok c => .ok (some (s, [], c))
  else if code = 0x1bb ∨ code = 0x1bd ∨ code = 0x1bf ∨ code = 0x1f0 ∨ code = 0x1f1 ∨ code = 0x1be ∨ code = 0x1ff then
    match parsePackStreamBody rb 4 with
    | .error f => .error f
    | .ok c => .ok (some (s, [], c))
  else if code = 0x1bc then
    match parsePsm s rb 4 with
    | .error f => .error f
    | .ok (s, c) => .ok (some (s, [], c))
  else if code = 0x1c0 then
    match parseAvStream s true rtpts rb 4 with
    | .error f => .error f
    | .ok r => .ok (some r)
  else if code = 0x1e0 then
    match parseAvStream s false rtpts rb 4 with
    | .error f => .error f
    | .ok r => .ok (some r)
  else if code = 0x1b9 then .ok (some (s, [], some 0))
  else .ok none

/-- the `for p.buf.Len() != 0` loop of `FeedRtpBody`; the flag is "returned an error" -/
def bodyLoop (rtpts : Nat) : Nat → Dm → GoM (Dm × List Out × Bool)
  | 0, s => .ok (s, [], false)
  | fuel+1, s =>
    if s.buf = [] then .ok (s, [], false)
    else if s.buf.length < 4 then .ok (s, [], false)
    else
      match be32At "FeedRtpBody rb[i:]" s.buf 0 with
      | .error f => .error f
      | .ok code =>
        match dispatch s rtpts s.buf code with
        | .error f => .error f
        | .ok none => .ok ({ s with buf := [], audioBuf := [], videoBuf := [] }, [], true)
        | .ok (some (s', o, none)) => .ok (s', o, false)
        | .ok (some (s', o, some consumed)) =>
          match bodyLoop rtpts fuel { s' with buf := skip s'.buf (4 + consumed) } with
          | .error f => .error f
          | .ok (s'', o', e) => .ok (s'', o ++ o', e)

/-- `PsUnpacker.FeedRtpBody(rtpBody, rtpts)` -/
def feedRtpBody (s : Dm) (body : Bytes) (rtpts : Nat) : GoM (Dm × List Out × Bool) :=
  bodyLoop rtpts (s.buf.length + body.length + 1) { s with buf := s.buf ++ body }

/-! ### FeedRtpPacket -/

def listReset (l : PktList) : PktList := { l with doneFlag := false, doneSeq := 0, items := [], size := 0 }

/-- `isStartPositionFn` -/
def isStartPosition (p : RtpPacket) : GoM Bool :=
  match p.body with
  | .error f => .error f
  | .ok b =>
    if b.length > 4 then
      match slice? "body[0:3]" b 0 3 with
      | .error f => .error f
      | .ok h => .ok (h == [0, 0, 1])
    else .ok false

/-- the inner `for p.list.Size > 0` drop loop -/
def dropLoop : Nat → PktList → RtpPacket → GoM PktList
  | 0, l, _ => .ok l
  | fuel+1, l, prev =>
    if l.size > 0 then
      match l.items with
      | [] => .error (.panic "PeekFirst: nil")
      | curr :: rest =>
        if subSeq curr.hdr.seq prev.hdr.seq ≠ 1 then .ok l else
        match isStartPosition curr with
        | .error f => .error f
        | .ok st =>
          if st then .ok { l with doneFlag := true, doneSeq := (curr.hdr.seq + 65535) % 65536 }
          else dropLoop fuel { l with items := rest, size := l.size - 1 } curr
    else .ok l

/-- the outer `for` loop of `FeedRtpPacket` -/
def pktLoop : Nat → St → GoM (St × List Out)
  | 0, s => .ok (s, [])
  | fuel+1, s =>
    if s.list.isFirstSequential then
      match s.list.items with
      | [] => .error (.panic "PopFirst: nil")
      | opkt :: rest =>
        match opkt.body with
        | .error f => .error f
        | .ok body =>
          match feedRtpBody s.dm body opkt.hdr.timestamp with
          | .error f => .error f
          | .ok (dm, o, e) =>
            let l : PktList := { s.list with items := rest, size := s.list.size - 1, doneFlag := true, doneSeq := opkt.hdr.seq }
            match pktLoop fuel { list := if e then listReset l else l, dm := dm } with
            | .error f => .error f
            | .ok (s', o') => .ok (s', o ++ o')
    else if !s.list.full then .ok (s, [])
    else
      match s.list.items with
      | [] => .error (.panic "PopFirst: nil")
      | prev :: rest =>
        match dropLoop (rest.length + 1) { s.list with items := rest, size := s.list.size - 1 } prev with
        | .error f => .error f
        | .ok l => pktLoop fuel { list := l, dm := { s.dm with buf := [], audioBuf := [], videoBuf := [] } }

/-- `PsUnpacker.FeedRtpPacket(b)` -/
def feedRtpPacket (s : St) (b : Bytes) : GoM (St × List Out) :=
  match parseRtpPacket b with
  | .error (.panic site) => .error (.panic site)
  | .error .err => .ok (s, [])
  | .ok pkt =>
    if s.list.isStale pkt.hdr.seq then .ok (s, []) else
    pktLoop (2 * (s.list.insert pkt).items.length + 2) { s with list := s.list.insert pkt }

def feedAll : St → List Bytes → GoM (St × List Out)
  | s, [] => .ok (s, [])
  | s, b :: rest =>
    match feedRtpPacket s b with
    | .error f => .error f
    | .ok (s', o) =>
      match feedAll s' rest with
      | .error f => .error f
      | .ok (s'', o') => .ok (s'', o ++ o')

/-- consecutive `FeedRtpBody` calls: the error flags and the packets -/
def bodyAll : Dm → List (Nat × Bytes) → GoM (List Bool × List Out)
  | _, [] => .ok ([], [])
  | s, (ts, b) :: rest =>
    match feedRtpBody s b ts with
    | .error f => .error f
    | .ok (s', o, e) =>
      match bodyAll s' rest with
      | .error f => .error f
      | .ok (es, o') => .ok (e :: es, o ++ o')

end Lal.Ps
