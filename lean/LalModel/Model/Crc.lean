import LalModel.Model.Bytes
import LalModel.Generated.C09
/-
  Model of pkg/mpegts/crc32.go.

    func CalcCrc32(crc uint32, buf []byte) uint32 { return ^crc32.Update(^crc, crc32table, buf) }

  `crc32table` is neither `crc32.IEEETable` nor the Castagnoli table, so `hash/crc32.Update`
  takes `simpleUpdate`:   crc = ^crc; for v in p { crc = tab[byte(crc)^v] ^ (crc >> 8) }; return ^crc
  and the two complements on either side cancel. The table (`Gen.crcTable`, regenerated from the
  source on every run) holds the MPEG-2 table entries byte-swapped, the register is kept
  byte-swapped too, and `PsiSection.Pack` stores it with `bele.LePutUint32`.
-/
namespace Lal.Crc

/-- one iteration of `simpleUpdate`; `crc < 2^32` -/
def tableStep (tab : List Nat) (crc : Nat) (v : UInt8) : Nat :=
  tab.getD ((crc % 256) ^^^ v.toNat) 0 ^^^ (crc / 256)

/-- `mpegts.CalcCrc32(crc, buf)` -/
def calcCrc32 (crc : Nat) (buf : Bytes) : Nat :=
  buf.foldl (tableStep Gen.crcTable) crc

end Lal.Crc
