import LalModel.Model.AvPacket
import LalModel.Model.Nalu
import LalModel.Model.SeqHeader
import LalModel.Model.Aac
import LalModel.Model.Amf0
import LalModel.Generated.Amf0Consts
import LalModel.Generated.C07
/-
  Model of pkg/remux/avpacket2rtmp.go: AvPacket2RtmpRemuxer
    InitWithAvConfig / OnSdp, FeedAvPacket / OnAvPacket, emitRtmpAvMsg, setVps/setSps/setPps, clearVideoSeqHeader
  and of rtmp.BuildMetadata(-1, -1, audiocodecid, videocodecid) as the remuxer calls it.

  FUNCTIONAL model: the callback `onRtmpMsg` is the list of messages returned. The only index expressions of
  the Go code are `nal[0]` on a slice handed out by avc.SplitNaluAvcc / SplitNaluAnnexb (never empty: both
  iterators only hand out `nals[a:b]` with a < b) and `pkt.Payload[7:]` behind `len(pkt.Payload)-5 >= 7`.

  The frame type of a video message follows the tree with the `fix:` commit of branch w-C07 (S13): key frame
  iff ANY NAL unit written into the message is IDR (H.264) / IRAP (H.265). The pinned behaviour — the byte is
  rewritten by every NAL unit, so the LAST one decides — is kept as `Variant.pinned` for the witness.
-/
namespace Lal.Av2Rtmp
open Lal Lal.Av

abbrev Msg := Av.RtmpMsg

inductive Variant where
  | fixed | pinned
deriving Repr, DecidableEq

/-- `AvPacket2RtmpRemuxer` -/
structure St where
  videoFormat : Nat := 1          -- option.VideoFormat: 1 = Avcc (DefaultApsOption), 2 = Annexb, 0 = unknown
  audioFormat : Nat := 1          -- option.AudioFormat: 1 = raw AAC (default), 2 = ADTS, 0 = unknown
  hasEmittedMetadata : Bool := false
  audioType : Int := ptUnknown
  videoType : Int := ptUnknown
  vps : Bytes := []
  sps : Bytes := []
  pps : Bytes := []
  hasAdts2Asc : Bool := false
deriving Repr, DecidableEq, Inhabited

/-- `rtmp.BuildMetadata(-1, -1, audiocodecid, videocodecid)` (model and read-back theorem: C18 `build_read_back`);
    the version strings are regenerated from pkg/base -/
def buildMetadata (audiocodecid videocodecid : Int) : Bytes :=
  (Amf0.buildMetadata Gen.metaEncoder Gen.lalVersionDot (-1) (-1) audiocodecid videocodecid).getD []

/-- `uint32(timestamp)` of an int64 -/
def u32 (t : Int) : Nat := (t % 4294967296).toNat

/-- `emitRtmpAvMsg` -/
def emit (st : St) (isAudio : Bool) (payload : Bytes) (ts : Int) : St × List Msg :=
  let m : Msg := { typ := if isAudio then 8 else 9, csid := if isAudio then 6 else 7, msid := 1, ts := u32 ts, payload := payload }
  if st.hasEmittedMetadata then (st, [m])
  else
    let a : Int := if st.audioType = ptAac then 10 else -1
    let v : Int := if st.videoType = ptAvc then 7 else if st.videoType = ptHevc then 12 else -1
    ({ st with hasEmittedMetadata := true },
     [{ typ := 18, csid := 5, msid := 1, ts := 0, payload := buildMetadata a v }, m])

/-- `InitWithAvConfig(asc, vps, sps, pps)` (`none` = nil slice) -/
def initWithAvConfig (st : St) (asc vps sps pps : Option Bytes) : St × List Msg :=
  let st := if asc.isSome then { st with audioType := ptAac } else st
  let st := if sps.isSome ∧ pps.isSome then { st with videoType := if vps.isSome then ptHevc else ptAvc } else st
  if st.audioType = ptUnknown ∧ st.videoType = ptUnknown then (st, [])
  else
    let ash : Option Bytes :=
      if st.audioType ≠ ptUnknown then (Aac.makeAudioDataSeqHeaderWithAsc (asc.getD [])).toOption else some []
    match ash with
    | none => (st, [])
    | some ash =>
      let vsh : Option Bytes :=
        if st.videoType ≠ ptUnknown then
          (if st.videoType = ptHevc then SeqHeader.hevcBuild (vps.getD []) (sps.getD []) (pps.getD [])
           else SeqHeader.avcBuild (sps.getD []) (pps.getD [])).toOption
        else some []
      match vsh with
      | none => (st, [])
      | some vsh =>
        let (st, m1) := if st.audioType ≠ ptUnknown then emit st true ash 0 else (st, [])
        let (st, m2) := if st.videoType ≠ ptUnknown then emit st false vsh 0 else (st, [])
        (st, m1 ++ m2)

/-- the message under construction in the video branch of `FeedAvPacket`: `payload[0]`, `payload[1]` and
    `payload[5:pos]` (bytes 2..4, the composition time, stay zero) -/
structure VAcc where
  b0 : UInt8 := 0
  b1 : UInt8 := 0
  body : Bytes := []
deriving Repr, DecidableEq, Inhabited

/-- `avc.ParseNaluType` (`v & 0x1f`) / `hevc.ParseNaluType` (`(v & 0x7E) >> 1`) -/
def naluTypeOf (hevc : Bool) (h : UInt8) : Nat := if hevc then h.toNat % 128 / 2 else h.toNat % 32
/-- `hevc.IsIrapNalu` -/
def isIrap (t : Nat) : Bool := 16 ≤ t && t ≤ 23

/- The H.264 and the H.265 branch of the loop `for _, nal := range nals` have the same shape; what differs: -/

/-- `NaluTypeAud` -/
def audType (hevc : Bool) : Nat := if hevc then 35 else 9
/-- SPS / PPS, resp. VPS / SPS / PPS -/
def isPsType (hevc : Bool) (t : Nat) : Bool := if hevc then t == 32 || t == 33 || t == 34 else t == 7 || t == 8
/-- `setVps` / `setSps` / `setPps` -/
def setPs (hevc : Bool) (st : St) (t : Nat) (nal : Bytes) : St :=
  if hevc then (if t = 32 then { st with vps := nal } else if t = 33 then { st with sps := nal } else { st with pps := nal })
  else (if t = 7 then { st with sps := nal } else { st with pps := nal })
/-- `len(r.sps) > 0 && len(r.pps) > 0` (H.265: and `len(r.vps) > 0`) -/
def psComplete (hevc : Bool) (st : St) : Bool :=
  (!hevc || decide (st.vps.length > 0)) && decide (st.sps.length > 0) && decide (st.pps.length > 0)
/-- `avc.BuildSeqHeaderFromSpsPps` / `hevc.BuildSeqHeaderFromVpsSpsPps` -/
def buildSh (hevc : Bool) (st : St) : GoM Bytes :=
  if hevc then SeqHeader.hevcBuild st.vps st.sps st.pps else SeqHeader.avcBuild st.sps st.pps
/-- `NaluTypeIdrSlice` / `IsIrapNalu` -/
def isKeyType (hevc : Bool) (t : Nat) : Bool := if hevc then isIrap t else t == 5
/-- `RtmpAvcKeyFrame` / `RtmpHevcKeyFrame`, `RtmpAvcInterFrame` / `RtmpHevcInterFrame` -/
def keyByte (hevc : Bool) : UInt8 := if hevc then 0x1c else 0x17
def interByte (hevc : Bool) : UInt8 := if hevc then 0x2c else 0x27

/-- writing one slice / SEI / … NAL unit into the message -/
def accNal (var : Variant) (hevc : Bool) (acc : VAcc) (key : Bool) (nal : Bytes) : VAcc :=
  let b0 :=
    match var with
    | .pinned => if key then keyByte hevc else interByte hevc
    | .fixed => if key || acc.b0 == keyByte hevc then keyByte hevc else interByte hevc
  { b0 := b0, b1 := 1, body := acc.body ++ be32 nal.length ++ nal }

/-- one iteration of `for _, nal := range nals` -/
def step (var : Variant) (hevc : Bool) (ts : Int) (s : St × List Msg × VAcc) (nal : Bytes) : St × List Msg × VAcc :=
  let t := naluTypeOf hevc (nal.headD 0)
  if t = audType hevc then s
  else if isPsType hevc t then
    let st := setPs hevc s.1 t nal
    if psComplete hevc st then
      match buildSh hevc st with
      | .ok vsh =>
        let r := emit st false vsh ts
        ({ r.1 with vps := [], sps := [], pps := [] }, s.2.1 ++ r.2, s.2.2)
      | .error _ => (st, s.2.1, s.2.2)        -- `continue`: nothing cleared
    else (st, s.2.1, s.2.2)
  else (s.1, s.2.1, accNal var hevc s.2.2 (isKeyType hevc t) nal)

/-- the video branch of `FeedAvPacket` after the split -/
def feedVideoNals (var : Variant) (st : St) (hevc : Bool) (ts : Int) (nals : List Bytes) : St × List Msg :=
  let r := nals.foldl (step var hevc ts) (st, [], {})
  if r.2.2.body ≠ [] then
    let e := emit r.1 false ([r.2.2.b0, r.2.2.b1, 0, 0, 0] ++ r.2.2.body) ts
    (e.1, r.2.1 ++ e.2)
  else (r.1, r.2.1)

/-- `FeedAvPacket` -/
def feedAvPacket (var : Variant) (st : St) (pkt : AvPacket) : St × List Msg :=
  if pkt.pt = ptAvc ∨ pkt.pt = ptHevc then
    let (nals, err) := if st.videoFormat = 1 then Nalu.splitNaluAvcc pkt.payload else Nalu.splitNaluAnnexb pkt.payload
    if err then (st, []) else feedVideoNals var st (pkt.pt = ptHevc) pkt.ts nals
  else if pkt.pt = ptAac then
    if st.audioFormat = 1 then emit st true ([0xaf, 1] ++ pkt.payload) pkt.ts
    else if st.audioFormat = 2 then
      let (st, m1) :=
        if !st.hasAdts2Asc then
          -- an error of MakeAudioDataSeqHeaderWithAdtsHeader is logged, the (nil) result is emitted all the same
          let sh := ((Aac.makeAudioDataSeqHeaderWithAdtsHeader pkt.payload).toOption).getD []
          let (st, m) := emit st true sh pkt.ts
          ({ st with hasAdts2Asc := true }, m)
        else (st, [])
      if pkt.payload.length < 12 then (st, m1)          -- length := len - 5 ; if length < 7 return
      else
        let (st, m2) := emit st true ([0xaf, 1] ++ pkt.payload.drop 7) pkt.ts
        (st, m1 ++ m2)
    else (st, [])
  else if pkt.pt = ptG711A then emit st true (0x72 :: pkt.payload) pkt.ts
  else if pkt.pt = ptG711U then emit st true (0x82 :: pkt.payload) pkt.ts
  else if pkt.pt = ptOpus then emit st true (0xdf :: pkt.payload) pkt.ts
  else (st, [])

/-- a sequence of `FeedAvPacket` calls -/
def feedAll (var : Variant) : St → List AvPacket → St × List Msg
  | st, [] => (st, [])
  | st, p :: ps =>
    let (st1, o1) := feedAvPacket var st p
    let (st2, o2) := feedAll var st1 ps
    (st2, o1 ++ o2)

end Lal.Av2Rtmp
