import LalModel.Model.Str
import LalModel.Model.Url
import LalModel.Generated.C14
/-
  Model of lal's access-control decisions (C14):

  * pkg/logic/simple_auth.go — `SimpleAuthCtx.OnPubStart / OnSubStart / OnHls / check`;
  * pkg/rtsp/auth.go — `Auth.ParseAuthorization / CheckAuthorization / MakeAuthenticate /
    FeedWwwAuthenticate / MakeAuthorization / getV`, and
    pkg/rtsp/server_command_session.go — `handleAuthorized`, the authentication stage of `handleDescribe`;
  * pkg/logic/ip_blacklist.go — `IpBlacklist.Add / Has / eraseStale`;
  * pkg/logic/server_manager__.go — the order of the checks in `serveHls`.

  MD5 (`nazamd5.Md5`), `url.ParseQuery` and base64 are PARAMETERS (`Ext`); the theorems use the laws of
  `ExtLaws` only. The driver and the examples instantiate them with `Md5.md5hex`, `Url.parseQuery`,
  `Md5.b64enc/b64dec`. The nonce the RTSP server issues (`crypto/rand` through MD5) and the clock of the
  blacklist (`time.Now().Unix()`) are inputs.
-/
namespace Lal.Auth
open Lal.Str

structure Ext where
  md5hex : Bytes → Bytes
  parseQuery : Bytes → Option (List (Bytes × Bytes))
  b64enc : Bytes → Bytes
  b64dec : Bytes → Option Bytes

structure ExtLaws (E : Ext) : Prop where
  /-- an MD5 digest prints as 32 characters -/
  md5len : ∀ x, (E.md5hex x).length = 32
  /-- … of hexadecimal digits -/
  md5hexDigits : ∀ x, ∀ c ∈ E.md5hex x, isHexDigit c = true
  /-- what `EncodeToString` produces, `DecodeString` reads back -/
  b64rt : ∀ x, E.b64dec (E.b64enc x) = some x

/-! ### simple auth (pkg/logic/simple_auth.go) -/

structure SimpleAuthConfig where
  key : Bytes
  dangerousLalSecret : Bytes
  pubRtmp : Bool
  subRtmp : Bool
  subHttpflv : Bool
  subHttpts : Bool
  pubRtsp : Bool
  subRtsp : Bool
  hlsM3u8 : Bool
deriving Repr, DecidableEq

/-- what `check` returns: nil, `ErrSimpleAuthParamNotFound`, `ErrSimpleAuthFailed`, or the error of `url.ParseQuery` -/
inductive Verdict where
  | ok | notFound | failed | badQuery
deriving Repr, DecidableEq

/-- `SimpleAuthCalcSecret` -/
def calcSecret (E : Ext) (key streamName : Bytes) : Bytes := E.md5hex (key ++ streamName)

/-- `SimpleAuthCtx.check` -/
def check (E : Ext) (cfg : SimpleAuthConfig) (streamName urlParam : Bytes) : Verdict :=
  match E.parseQuery urlParam with
  | none => .badQuery
  | some q =>
    let v := Url.get q Gen.c14SecretName
    if v = [] then .notFound
    else if cfg.dangerousLalSecret ≠ [] ∧ v = cfg.dangerousLalSecret then .ok
    else if lower v = calcSecret E cfg.key streamName then .ok
    else .failed

/-- `SimpleAuthCtx.OnPubStart` -/
def onPubStart (E : Ext) (cfg : SimpleAuthConfig) (protocol streamName urlParam : Bytes) : Verdict :=
  if (cfg.pubRtmp ∧ protocol = Gen.c14ProtoRtmp) ∨ (cfg.pubRtsp ∧ protocol = Gen.c14ProtoRtsp)
  then check E cfg streamName urlParam else .ok

/-- `SimpleAuthCtx.OnSubStart` -/
def onSubStart (E : Ext) (cfg : SimpleAuthConfig) (protocol streamName urlParam : Bytes) : Verdict :=
  if (cfg.subRtmp ∧ protocol = Gen.c14ProtoRtmp) ∨ (cfg.subHttpflv ∧ protocol = Gen.c14ProtoFlv) ∨
     (cfg.subHttpts ∧ protocol = Gen.c14ProtoTs) ∨ (cfg.subRtsp ∧ protocol = Gen.c14ProtoRtsp)
  then check E cfg streamName urlParam else .ok

/-- `SimpleAuthCtx.OnHls` -/
def onHls (E : Ext) (cfg : SimpleAuthConfig) (streamName urlParam : Bytes) : Verdict :=
  if cfg.hlsM3u8 then check E cfg streamName urlParam else .ok

/-- the three kinds of request the authentication callback is consulted for -/
inductive Dir where
  | pub | sub | hls
deriving Repr, DecidableEq

/-- the callback `ServerManager` consults for a request of this kind (`OnHls` ignores the protocol) -/
def admission (E : Ext) (cfg : SimpleAuthConfig) (d : Dir) (protocol streamName urlParam : Bytes) : Verdict :=
  match d with
  | .pub => onPubStart E cfg protocol streamName urlParam
  | .sub => onSubStart E cfg protocol streamName urlParam
  | .hls => onHls E cfg streamName urlParam

/-! ### RTSP authentication (pkg/rtsp/auth.go) -/

/-- `rtsp.Auth`; `issued` is the nonce of the last Digest challenge this object produced -/
structure AuthSt where
  username : Bytes := []
  password : Bytes := []
  typ : Bytes := []
  realm : Bytes := []
  nonce : Bytes := []
  algorithm : Bytes := []
  uri : Bytes := []
  response : Bytes := []
  opaqueV : Bytes := []
  stale : Bytes := []
  issued : Bytes := []
deriving Repr, DecidableEq

/-- `Auth.getV(s, pre)`: the text between `pre` and the next `"` -/
def getV (s pre : Bytes) : Bytes :=
  match indexOf pre s with
  | none => []
  | some b =>
    let rest := s.drop (b + pre.length)
    match indexOf [34] rest with
    | none => []
    | some e => rest.take e

def basicPrefix : Bytes := Gen.c14AuthTypeBasic ++ [32]
def digestPrefix : Bytes := Gen.c14AuthTypeDigest ++ [32]

/-- `Auth.ParseAuthorization` (the returned error is ignored by the only caller) -/
def parseAuthorization (E : Ext) (a : AuthSt) (authStr : Bytes) : AuthSt :=
  let a : AuthSt := { issued := a.issued }
  if hasPrefix authStr basicPrefix then
    match E.b64dec (trimPrefix authStr basicPrefix) with
    | none => a
    | some info =>
      match cut2 58 info with
      | none => a
      | some (u, p) => { a with typ := Gen.c14AuthTypeBasic, username := u, password := p }
  else if hasPrefix authStr digestPrefix then
    let s := trimPrefix authStr digestPrefix
    { a with
      typ := Gen.c14AuthTypeDigest
      username := getV s (asc "username=\"")
      realm := getV s (asc "realm=\"")
      nonce := getV s (asc "nonce=\"")
      uri := getV s (asc "uri=\"")
      algorithm := getV s (asc "algorithm=\"")
      response := getV s (asc "response=\"")
      opaqueV := getV s (asc "opaque=\"")
      stale := getV s (asc "stale=\"") }
  else a

/-- the RFC 2617 request-digest without qop, as `CheckAuthorization` / `MakeAuthorization` compute it -/
def digestResponse (E : Ext) (username realm password nonce method uri : Bytes) : Bytes :=
  let ha1 := E.md5hex (username ++ [58] ++ realm ++ [58] ++ password)
  let ha2 := E.md5hex (method ++ [58] ++ uri)
  E.md5hex (ha1 ++ [58] ++ nonce ++ [58] ++ ha2)

/-- `Auth.CheckAuthorization` -/
def checkAuthorization (E : Ext) (a : AuthSt) (method username password : Bytes) : Bool :=
  if a.typ = Gen.c14AuthTypeBasic then
    username = a.username ∧ password = a.password
  else if a.typ = Gen.c14AuthTypeDigest then
    a.issued ≠ [] ∧ a.nonce = a.issued ∧
      a.response = digestResponse E username a.realm password a.nonce method a.uri
  else false

/-- `Auth.MakeAuthenticate(method)`; `fresh` is what `a.nonce()` returns this time -/
def makeAuthenticate (a : AuthSt) (method fresh : Bytes) : AuthSt × Bytes :=
  if method = Gen.c14AuthTypeBasic then
    (a, method ++ asc " realm=\"" ++ Gen.c14RtspRealm ++ asc "\"")
  else if method = Gen.c14AuthTypeDigest then
    ({ a with issued := fresh },
     method ++ asc " realm=\"" ++ Gen.c14RtspRealm ++ asc "\", nonce=\"" ++ fresh ++ asc "\"")
  else (a, [])

/-- `rtsp.ServerAuthConfig` -/
structure AuthConf where
  enable : Bool
  method : Int
  username : Bytes
  password : Bytes
deriving Repr, DecidableEq

/-- outcome of `handleAuthorized`: go on with the DESCRIBE, answer 401 with this `WWW-Authenticate`
    value, or return an error (the command loop closes the connection) -/
inductive AuthOut where
  | pass
  | challenge (authenticate : Bytes)
  | fail
deriving Repr, DecidableEq

/-- `ServerCommandSession.handleAuthorized`; `authorization` is `Headers.Get("Authorization")` -/
def handleAuthorized (E : Ext) (conf : AuthConf) (a : AuthSt) (reqMethod authorization fresh : Bytes) :
    AuthSt × AuthOut :=
  if authorization ≠ [] then
    let a := parseAuthorization E a authorization
    if ((a.typ = Gen.c14AuthTypeBasic ∧ conf.method = 0) ∨ (a.typ = Gen.c14AuthTypeDigest ∧ conf.method = 1)) ∧
       checkAuthorization E a reqMethod conf.username conf.password = true
    then (a, .pass) else (a, .fail)
  else if conf.method = 0 then
    let (a, s) := makeAuthenticate a Gen.c14AuthTypeBasic fresh
    (a, .challenge s)
  else if conf.method = 1 then
    let (a, s) := makeAuthenticate a Gen.c14AuthTypeDigest fresh
    (a, .challenge s)
  else (a, .fail)

/-- the authentication stage of `handleDescribe` -/
def describeAuth (E : Ext) (conf : AuthConf) (a : AuthSt) (authorization fresh : Bytes) : AuthSt × AuthOut :=
  if conf.enable then handleAuthorized E conf a (asc "DESCRIBE") authorization fresh else (a, .pass)

/-! #### client side (pull / push sessions) -/

/-- `Auth.FeedWwwAuthenticate(auths, username, password)` with `auths = [s]` (only the first is used) -/
def feedWwwAuthenticate (a : AuthSt) (auths : List Bytes) (username password : Bytes) : AuthSt :=
  let a := { a with username := username, password := password }
  match auths with
  | [] => a
  | s :: _ =>
    let s := trimSpace (trimPrefix s (asc "WWW-Authenticate"))
    if hasPrefix s Gen.c14AuthTypeBasic then { a with typ := Gen.c14AuthTypeBasic }
    else if !hasPrefix s Gen.c14AuthTypeDigest then a
    else
      let alg := getV s (asc "algorithm=\"")
      { a with
        typ := Gen.c14AuthTypeDigest
        realm := getV s (asc "realm=\"")
        nonce := getV s (asc "nonce=\"")
        algorithm := if alg = [] then asc "MD5" else alg }

/-- `Auth.MakeAuthorization(method, uri)` -/
def makeAuthorization (E : Ext) (a : AuthSt) (method uri : Bytes) : Bytes :=
  if a.username = [] then []
  else if a.typ = Gen.c14AuthTypeBasic then
    a.typ ++ [32] ++ E.b64enc (a.username ++ [58] ++ a.password)
  else if a.typ = Gen.c14AuthTypeDigest then
    a.typ ++ asc " username=\"" ++ a.username ++ asc "\", realm=\"" ++ a.realm ++ asc "\", nonce=\"" ++ a.nonce ++
      asc "\", uri=\"" ++ uri ++ asc "\", response=\"" ++
      digestResponse E a.username a.realm a.password a.nonce method uri ++
      asc "\", algorithm=\"" ++ a.algorithm ++ asc "\""
  else []

/-! ### IP blacklist (pkg/logic/ip_blacklist.go) -/

/-- `IpBlacklist.ips`: address ↦ second until which it is listed (insertion order is not observable) -/
abbrev Blacklist := List (Bytes × Int)

/-- `IpBlacklist.Add(ip, durationSec)` at `now` -/
def blAdd (l : Blacklist) (ip : Bytes) (durationSec now : Int) : Blacklist :=
  (ip, now + durationSec) :: l.filter (fun e => e.1 ≠ ip)

/-- `eraseStale` at `now` -/
def blErase (l : Blacklist) (now : Int) : Blacklist := l.filter (fun e => ¬ e.2 < now)

/-- `IpBlacklist.Has(ip)` at `now` -/
def blHas (l : Blacklist) (ip : Bytes) (now : Int) : Blacklist × Bool :=
  let l := blErase l now
  (l, l.any (fun e => e.1 = ip))

/-- one call on the blacklist -/
inductive BlOp where
  | add (ip : Bytes) (durationSec : Int)
  | has (ip : Bytes)
deriving Repr, DecidableEq

/-- the blacklist after a sequence of calls, each made at the given second -/
def blRun (l : Blacklist) : List (BlOp × Int) → Blacklist
  | [] => l
  | (.add ip d, t) :: r => blRun (blAdd l ip d t) r
  | (.has ip, t) :: r => blRun (blHas l ip t).1 r

/-! ### order of the checks in `ServerManager.serveHls` -/

/-- what `serveHls` does with a request the mux delivered: nothing written (the handler returns; net/http
    answers an empty 200), 404, or the request is handed to `hls.ServerHandler.ServeHTTP` -/
inductive HlsGate where
  | urlError | authReject | blacklisted | serve
deriving Repr, DecidableEq

def serveHlsGate (E : Ext) (cfg : SimpleAuthConfig) (u : Option Url.UrlCtx) (streamNameOf : Url.UrlCtx → Bytes)
    (bl : Blacklist) (remoteIp : Bytes) (now : Int) : HlsGate :=
  match u with
  | none => .urlError
  | some u =>
    if u.fileType = asc "m3u8" ∧ onHls E cfg (streamNameOf u) u.rawQuery ≠ .ok then .authReject
    else if (blHas bl remoteIp now).2 then .blacklisted
    else .serve

end Lal.Auth
