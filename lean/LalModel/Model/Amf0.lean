import LalModel.Model.Go
/-
  Model of pkg/rtmp/amf0.go (Amf0.Write*, Amf0.Read*, amf0.read) and pkg/rtmp/metadata.go
  (ParseMetadata, MetadataEnsureWithSdf, MetadataEnsureWithoutSdf, BuildMetadata).

  * `Amf`  : AMF0 value trees (what is on the wire). Numbers are their 8 IEEE-754 bytes, never floats.
  * `Val`  : what lal's readers hand back: `float64 | bool | string | ObjectPairArray`. Object, ECMA array
             and strict array all come back as an `ObjectPairArray` (strict array entries have key ""), and
             null / undefined / unsupported members are consumed but NOT appended (amf0.read).
  * Readers are written in `Except Fault` with exactly the guards of the Go code: `b[i]`, `b[i:]`, `b[i:j]`,
    `bele.BeUint16/32/Float64` are `idx?`, `from?`, `slice?`; a missing guard is a reachable `.panic`.
  * Two explicit resources, both reported as `.panic` when exhausted so that the totality theorem covers them:
      `fuel`  – bound on the length of any path of calls/loop iterations (top level: `fuelFor b = 2*len+2`);
      `stack` – number of nested container frames the Go stack can still hold (`.panic "stack"` = Go's fatal
                "stack overflow"). `depth` is the explicit nesting counter of the Go code (outermost
                container 1) and `lim` its bound `Amf0MaxNestingDepth`: `read` refuses a container when
                `depth >= lim`.
  Go `int` arithmetic `len(b)-index` is compared only as `>= 3` / `< 1`; truncated `Nat` subtraction gives the
  same truth value when `index > len(b)`.
-/
namespace Lal.Amf0

/-- AMF0 value trees -/
inductive Amf where
  | num (bits : Bytes)                 -- 8 bytes, IEEE-754 binary64 big endian
  | bool (b : Bool)
  | str (s : Bytes)
  | obj (kvs : List (Bytes × Amf))
  | ecma (kvs : List (Bytes × Amf))    -- associative-count = kvs.length
  | strict (vs : List Amf)
  | null
  | undef
deriving Repr

/-- Go-side values: `interface{}` holding float64 | bool | string | ObjectPairArray -/
inductive Val where
  | num (bits : Bytes)
  | bool (b : Bool)
  | str (s : Bytes)
  | opa (kvs : List (Bytes × Val))
deriving Repr

abbrev Opa := List (Bytes × Val)

/- decidable equality (the deriving handler does not cover nested inductives) -/
mutual
def Amf.decEq : (a b : Amf) → Decidable (a = b)
  | .num x, .num y => if h : x = y then isTrue (by rw [h]) else isFalse (fun e => by cases e; exact h rfl)
  | .num _, .bool _ => isFalse (fun e => by cases e)
  | .num _, .str _ => isFalse (fun e => by cases e)
  | .num _, .obj _ => isFalse (fun e => by cases e)
  | .num _, .ecma _ => isFalse (fun e => by cases e)
  | .num _, .strict _ => isFalse (fun e => by cases e)
  | .num _, .null => isFalse (fun e => by cases e)
  | .num _, .undef => isFalse (fun e => by cases e)
  | .bool _, .num _ => isFalse (fun e => by cases e)
  | .bool x, .bool y => if h : x = y then isTrue (by rw [h]) else isFalse (fun e => by cases e; exact h rfl)
  | .bool _, .str _ => isFalse (fun e => by cases e)
  | .bool _, .obj _ => isFalse (fun e => by cases e)
  | .bool _, .ecma _ => isFalse (fun e => by cases e)
  | .bool _, .strict _ => isFalse (fun e => by cases e)
  | .bool _, .null => isFalse (fun e => by cases e)
  | .bool _, .undef => isFalse (fun e => by cases e)
  | .str _, .num _ => isFalse (fun e => by cases e)
  | .str _, .bool _ => isFalse (fun e => by cases e)
  | .str x, .str y => if h : x = y then isTrue (by rw [h]) else isFalse (fun e => by cases e; exact h rfl)
  | .str _, .obj _ => isFalse (fun e => by cases e)
  | .str _, .ecma _ => isFalse (fun e => by cases e)
  | .str _, .strict _ => isFalse (fun e => by cases e)
  | .str _, .null => isFalse (fun e => by cases e)
  | .str _, .undef => isFalse (fun e => by cases e)
  | .obj _, .num _ => isFalse (fun e => by cases e)
  | .obj _, .bool _ => isFalse (fun e => by cases e)
  | .obj _, .str _ => isFalse (fun e => by cases e)
  | .obj x, .obj y => match Amf.decEqKvs x y with
    | isTrue h => isTrue (by rw [h])
    | isFalse h => isFalse (fun e => by cases e; exact h rfl)
  | .obj _, .ecma _ => isFalse (fun e => by cases e)
  | .obj _, .strict _ => isFalse (fun e => by cases e)
  | .obj _, .null => isFalse (fun e => by cases e)
  | .obj _, .undef => isFalse (fun e => by cases e)
  | .ecma _, .num _ => isFalse (fun e => by cases e)
  | .ecma _, .bool _ => isFalse (fun e => by cases e)
  | .ecma _, .str _ => isFalse (fun e => by cases e)
  | .ecma _, .obj _ => isFalse (fun e => by cases e)
  | .ecma x, .ecma y => match Amf.decEqKvs x y with
    | isTrue h => isTrue (by rw [h])
    | isFalse h => isFalse (fun e => by cases e; exact h rfl)
  | .ecma _, .strict _ => isFalse (fun e => by cases e)
  | .ecma _, .null => isFalse (fun e => by cases e)
  | .ecma _, .undef => isFalse (fun e => by cases e)
  | .strict _, .num _ => isFalse (fun e => by cases e)
  | .strict _, .bool _ => isFalse (fun e => by cases e)
  | .strict _, .str _ => isFalse (fun e => by cases e)
  | .strict _, .obj _ => isFalse (fun e => by cases e)
  | .strict _, .ecma _ => isFalse (fun e => by cases e)
  | .strict x, .strict y => match Amf.decEqVs x y with
    | isTrue h => isTrue (by rw [h])
    | isFalse h => isFalse (fun e => by cases e; exact h rfl)
  | .strict _, .null => isFalse (fun e => by cases e)
  | .strict _, .undef => isFalse (fun e => by cases e)
  | .null, .num _ => isFalse (fun e => by cases e)
  | .null, .bool _ => isFalse (fun e => by cases e)
  | .null, .str _ => isFalse (fun e => by cases e)
  | .null, .obj _ => isFalse (fun e => by cases e)
  | .null, .ecma _ => isFalse (fun e => by cases e)
  | .null, .strict _ => isFalse (fun e => by cases e)
  | .null, .null => isTrue rfl
  | .null, .undef => isFalse (fun e => by cases e)
  | .undef, .num _ => isFalse (fun e => by cases e)
  | .undef, .bool _ => isFalse (fun e => by cases e)
  | .undef, .str _ => isFalse (fun e => by cases e)
  | .undef, .obj _ => isFalse (fun e => by cases e)
  | .undef, .ecma _ => isFalse (fun e => by cases e)
  | .undef, .strict _ => isFalse (fun e => by cases e)
  | .undef, .null => isFalse (fun e => by cases e)
  | .undef, .undef => isTrue rfl
def Amf.decEqKvs : (a b : List (Bytes × Amf)) → Decidable (a = b)
  | [], [] => isTrue rfl
  | [], _ :: _ => isFalse (fun e => by cases e)
  | _ :: _, [] => isFalse (fun e => by cases e)
  | (k, v) :: r, (k', v') :: r' =>
    if hk : k = k' then
      match Amf.decEq v v', Amf.decEqKvs r r' with
      | isTrue hv, isTrue hr => isTrue (by rw [hk, hv, hr])
      | isFalse hv, _ => isFalse (fun e => by cases e; exact hv rfl)
      | _, isFalse hr => isFalse (fun e => by cases e; exact hr rfl)
    else isFalse (fun e => by cases e; exact hk rfl)
def Amf.decEqVs : (a b : List Amf) → Decidable (a = b)
  | [], [] => isTrue rfl
  | [], _ :: _ => isFalse (fun e => by cases e)
  | _ :: _, [] => isFalse (fun e => by cases e)
  | v :: r, v' :: r' =>
    match Amf.decEq v v', Amf.decEqVs r r' with
    | isTrue hv, isTrue hr => isTrue (by rw [hv, hr])
    | isFalse hv, _ => isFalse (fun e => by cases e; exact hv rfl)
    | _, isFalse hr => isFalse (fun e => by cases e; exact hr rfl)
end
instance : DecidableEq Amf := Amf.decEq

mutual
def Val.decEq : (a b : Val) → Decidable (a = b)
  | .num x, .num y => if h : x = y then isTrue (by rw [h]) else isFalse (fun e => by cases e; exact h rfl)
  | .num _, .bool _ => isFalse (fun e => by cases e)
  | .num _, .str _ => isFalse (fun e => by cases e)
  | .num _, .opa _ => isFalse (fun e => by cases e)
  | .bool _, .num _ => isFalse (fun e => by cases e)
  | .bool x, .bool y => if h : x = y then isTrue (by rw [h]) else isFalse (fun e => by cases e; exact h rfl)
  | .bool _, .str _ => isFalse (fun e => by cases e)
  | .bool _, .opa _ => isFalse (fun e => by cases e)
  | .str _, .num _ => isFalse (fun e => by cases e)
  | .str _, .bool _ => isFalse (fun e => by cases e)
  | .str x, .str y => if h : x = y then isTrue (by rw [h]) else isFalse (fun e => by cases e; exact h rfl)
  | .str _, .opa _ => isFalse (fun e => by cases e)
  | .opa _, .num _ => isFalse (fun e => by cases e)
  | .opa _, .bool _ => isFalse (fun e => by cases e)
  | .opa _, .str _ => isFalse (fun e => by cases e)
  | .opa x, .opa y => match Val.decEqKvs x y with
    | isTrue h => isTrue (by rw [h])
    | isFalse h => isFalse (fun e => by cases e; exact h rfl)
def Val.decEqKvs : (a b : List (Bytes × Val)) → Decidable (a = b)
  | [], [] => isTrue rfl
  | [], _ :: _ => isFalse (fun e => by cases e)
  | _ :: _, [] => isFalse (fun e => by cases e)
  | (k, v) :: r, (k', v') :: r' =>
    if hk : k = k' then
      match Val.decEq v v', Val.decEqKvs r r' with
      | isTrue hv, isTrue hr => isTrue (by rw [hk, hv, hr])
      | isFalse hv, _ => isFalse (fun e => by cases e; exact hv rfl)
      | _, isFalse hr => isFalse (fun e => by cases e; exact hr rfl)
    else isFalse (fun e => by cases e; exact hk rfl)
end
instance : DecidableEq Val := Val.decEq

instance instDecidableEqExcept {ε α} [DecidableEq ε] [DecidableEq α] : DecidableEq (Except ε α)
  | .ok a, .ok b => if h : a = b then isTrue (by rw [h]) else isFalse (fun e => by cases e; exact h rfl)
  | .error a, .error b => if h : a = b then isTrue (by rw [h]) else isFalse (fun e => by cases e; exact h rfl)
  | .ok _, .error _ => isFalse (fun e => by cases e)
  | .error _, .ok _ => isFalse (fun e => by cases e)

/-! ## Writers (amf0.go) -/

/-- `Amf0.WriteNumber` (the float64 as its bits) -/
def writeNumber (bits : Bytes) : Bytes := 0x00 :: bits

/-- `Amf0.WriteString`: short form below 65536 bytes, long form (marker 0x0c, uint32 length) otherwise -/
def writeString (s : Bytes) : Bytes :=
  if s.length < 65536 then 0x02 :: (be16 s.length ++ s) else 0x0c :: (be32 s.length ++ s)

/-- `Amf0.WriteNull` -/
def writeNull : Bytes := [0x05]

/-- `Amf0.WriteBoolean` -/
def writeBoolean (b : Bool) : Bytes := [0x01, if b then 1 else 0]

/-- one `switch opa[i].Value.(type)` arm of `WriteObject`; `none` = `Log.Panicf("unknown value type")` -/
def writeObjectValue : Amf → Option Bytes
  | .str s => some (writeString s)
  | .num n => some (writeNumber n)
  | .bool b => some (writeBoolean b)
  | _ => none

/-- the loop of `Amf0.WriteObject`; key length is written as `uint16(len(key))` -/
def writeObjectPairs : List (Bytes × Amf) → Option Bytes
  | [] => some []
  | (k, v) :: r =>
    match writeObjectValue v, writeObjectPairs r with
    | some e, some er => some (be16 k.length ++ k ++ e ++ er)
    | _, _ => none

/-- `Amf0.WriteObject`; `none` = the Go function panics (value kind it cannot write) -/
def writeObject (kvs : List (Bytes × Amf)) : Option Bytes :=
  match writeObjectPairs kvs with
  | some p => some (0x03 :: (p ++ [0, 0, 9]))
  | none => none

/-- What lal can write for a value tree (top level): number, boolean, string, null, flat object. -/
def write : Amf → Option Bytes
  | .num n => some (writeNumber n)
  | .bool b => some (writeBoolean b)
  | .str s => some (writeString s)
  | .null => some writeNull
  | .obj kvs => writeObject kvs
  | _ => none

/-! ## The AMF0 serialisation of every tree (agrees with lal's writers wherever lal has one; lal has no
    writer for nested objects, arrays and undefined – those forms are what its readers accept from peers). -/
mutual
def enc : Amf → Bytes
  | .num bits => writeNumber bits
  | .bool b => writeBoolean b
  | .str s => writeString s
  | .obj kvs => 0x03 :: (encKvs kvs ++ [0, 0, 9])
  | .ecma kvs => 0x08 :: (be32 kvs.length ++ (encKvs kvs ++ [0, 0, 9]))
  | .strict vs => 0x0a :: (be32 vs.length ++ encVs vs)
  | .null => [0x05]
  | .undef => [0x06]
def encKvs : List (Bytes × Amf) → Bytes
  | [] => []
  | (k, v) :: r => be16 k.length ++ (k ++ (enc v ++ encKvs r))
def encVs : List Amf → Bytes
  | [] => []
  | v :: r => enc v ++ encVs r
end

/- The Go-side image of a tree: container kind forgotten, null/undefined members dropped.
   `member k v` is what `amf0.read(b, index, k, ops)` appends to `ops` for the value `v`. -/
mutual
def erase : Amf → Val
  | .num bits => .num bits
  | .bool b => .bool b
  | .str s => .str s
  | .obj kvs => .opa (members kvs)
  | .ecma kvs => .opa (members kvs)
  | .strict vs => .opa (items vs)
  | .null => .opa []      -- never used: null/undef are not appended (see `member`)
  | .undef => .opa []
def member (k : Bytes) : Amf → Opa
  | .null => []
  | .undef => []
  | .num bits => [(k, .num bits)]
  | .bool b => [(k, .bool b)]
  | .str s => [(k, .str s)]
  | .obj kvs => [(k, .opa (members kvs))]
  | .ecma kvs => [(k, .opa (members kvs))]
  | .strict vs => [(k, .opa (items vs))]
def members : List (Bytes × Amf) → Opa
  | [] => []
  | (k, v) :: r => member k v ++ members r
def items : List Amf → Opa
  | [] => []
  | v :: r => member [] v ++ items r
end

/- container nesting depth: scalars 0, a container one more than its deepest member -/
mutual
def depth : Amf → Nat
  | .obj kvs => depthKvs kvs + 1
  | .ecma kvs => depthKvs kvs + 1
  | .strict vs => depthVs vs + 1
  | _ => 0
def depthKvs : List (Bytes × Amf) → Nat
  | [] => 0
  | (_, v) :: r => max (depth v) (depthKvs r)
def depthVs : List Amf → Nat
  | [] => 0
  | v :: r => max (depth v) (depthVs r)
end

/- Well-formedness of a tree (decidable): what fits AMF0's length fields. Numbers are 8 bytes, strings shorter
   than 2^32 (the writer picks the short or long form), keys shorter than 2^16, array counts below 2^32. -/
mutual
def wf : Amf → Bool
  | .num bits => bits.length == 8
  | .bool _ => true
  | .str s => s.length < 4294967296
  | .obj kvs => wfKvs kvs
  | .ecma kvs => kvs.length < 4294967296 && wfKvs kvs
  | .strict vs => vs.length < 4294967296 && wfVs vs
  | .null => true
  | .undef => true
def wfKvs : List (Bytes × Amf) → Bool
  | [] => true
  | (k, v) :: r => k.length < 65536 && (wf v && wfKvs r)
def wfVs : List Amf → Bool
  | [] => true
  | v :: r => wf v && wfVs r
end

/-- what `Amf0.WriteObject` accepts as a member value -/
def scalarValue : Amf → Bool
  | .num _ => true
  | .bool _ => true
  | .str _ => true
  | _ => false

/-- the trees lal itself can write: number, boolean, string, null, object of scalar members -/
def lalWritable : Amf → Bool
  | .num _ => true
  | .bool _ => true
  | .str _ => true
  | .null => true
  | .obj kvs => kvs.all fun kv => scalarValue kv.2
  | _ => false

/-! ## Readers -/

/-- `bele.BeUint16(b)` (`_ = b[1]` bounds check first) -/
def beUint16? (b : Bytes) : GoM Nat :=
  match idx? "bele.BeUint16:b[1]" b 1 with
  | .error e => .error e
  | .ok b1 =>
    match idx? "bele.BeUint16:b[0]" b 0 with
    | .error e => .error e
    | .ok b0 => .ok (rd16 b0 b1)

/-- big-endian 32-bit value, Horner form (multiplications by 256 only: the kernel unfolds `Nat.mul` by unary
    recursion on a literal second argument when the first is not a literal) -/
def rdU32 (a b c d : UInt8) : Nat := ((a.toNat * 256 + b.toNat) * 256 + c.toNat) * 256 + d.toNat

/-- `bele.BeUint32(b)` -/
def beUint32? (b : Bytes) : GoM Nat :=
  match idx? "bele.BeUint32:b[3]" b 3 with
  | .error e => .error e
  | .ok b3 =>
    match idx? "bele.BeUint32:b[0]" b 0, idx? "bele.BeUint32:b[1]" b 1, idx? "bele.BeUint32:b[2]" b 2 with
    | .ok b0, .ok b1, .ok b2 => .ok (rdU32 b0 b1 b2 b3)
    | .error e, _, _ => .error e
    | _, .error e, _ => .error e
    | _, _, .error e => .error e

/-- `Amf0.ReadStringWithoutType` -/
def readStringWithoutType (b : Bytes) : GoM (Bytes × Nat) :=
  if b.length < 2 then .error .err else
  match beUint16? b with
  | .error e => .error e
  | .ok l =>
    if l > b.length - 2 then .error .err else
    match slice? "ReadStringWithoutType:b[2:2+l]" b 2 (2 + l) with
    | .error e => .error e
    | .ok s => .ok (s, 2 + l)

/-- `Amf0.ReadLongStringWithoutType` -/
def readLongStringWithoutType (b : Bytes) : GoM (Bytes × Nat) :=
  if b.length < 4 then .error .err else
  match beUint32? b with
  | .error e => .error e
  | .ok l =>
    if l > b.length - 4 then .error .err else
    match slice? "ReadLongStringWithoutType:b[4:4+l]" b 4 (4 + l) with
    | .error e => .error e
    | .ok s => .ok (s, 4 + l)

/-- `Amf0.ReadString` -/
def readString (b : Bytes) : GoM (Bytes × Nat) :=
  if b.length < 1 then .error .err else
  match idx? "ReadString:b[0]" b 0 with
  | .error e => .error e
  | .ok m =>
    if m = 0x02 then
      match from? "ReadString:b[1:]" b 1 with
      | .error e => .error e
      | .ok s =>
        match readStringWithoutType s with
        | .error e => .error e
        | .ok (v, l) => .ok (v, l + 1)
    else if m = 0x0c then
      match from? "ReadString:b[1:]" b 1 with
      | .error e => .error e
      | .ok s =>
        match readLongStringWithoutType s with
        | .error e => .error e
        | .ok (v, l) => .ok (v, l + 1)
    else .error .err

/-- `Amf0.ReadNumber` -/
def readNumber (b : Bytes) : GoM (Bytes × Nat) :=
  if b.length < 9 then .error .err else
  match idx? "ReadNumber:b[0]" b 0 with
  | .error e => .error e
  | .ok m =>
    if m ≠ 0x00 then .error .err else
    match from? "ReadNumber:b[1:]" b 1 with
    | .error e => .error e
    | .ok s =>
      match idx? "bele.BeFloat64:b[7]" s 7 with
      | .error e => .error e
      | .ok _ => .ok (s.take 8, 9)

/-- `Amf0.ReadBoolean` -/
def readBoolean (b : Bytes) : GoM (Bool × Nat) :=
  if b.length < 2 then .error .err else
  match idx? "ReadBoolean:b[0]" b 0 with
  | .error e => .error e
  | .ok m =>
    if m ≠ 0x01 then .error .err else
    match idx? "ReadBoolean:b[1]" b 1 with
    | .error e => .error e
    | .ok x => .ok (x ≠ 0, 2)

/-- `Amf0.ReadNull` -/
def readNull (b : Bytes) : GoM Nat :=
  if b.length < 1 then .error .err else
  match idx? "ReadNull:b[0]" b 0 with
  | .error e => .error e
  | .ok m => if m ≠ 0x05 then .error .err else .ok 1

/-- `Amf0.ReadUndefinedOrUnsupported` -/
def readUndefinedOrUnsupported (b : Bytes) : GoM Nat :=
  if b.length < 1 then .error .err else .ok 1

/-- `len(b)-index >= 3 && bytes.Equal(b[index:index+3], Amf0TypeMarkerObjectEndBytes)` -/
def atEnd? (b : Bytes) (index : Nat) : GoM Bool :=
  if b.length - index ≥ 3 then
    match slice? "b[index:index+3]" b index (index + 3) with
    | .error e => .error e
    | .ok s => .ok (s == [0, 0, 9])
  else .ok false

/-- head of `ReadObject`: length and marker checks -/
def readObjectHdr (b : Bytes) : GoM Unit :=
  if b.length < 1 then .error .err else
  match idx? "ReadObject:b[0]" b 0 with
  | .error e => .error e
  | .ok m => if m ≠ 0x03 then .error .err else .ok ()

/-- head of `ReadArray` / `ReadStrictArray` (marker `mk`): length and marker checks, `count` -/
def readArrayHdr (mk : UInt8) (b : Bytes) : GoM Nat :=
  if b.length < 5 then .error .err else
  match idx? "ReadArray:b[0]" b 0 with
  | .error e => .error e
  | .ok m =>
    if m ≠ mk then .error .err else
    match from? "ReadArray:b[1:]" b 1 with
    | .error e => .error e
    | .ok s => beUint32? s

mutual
/-- `amf0.read(b, index, k, ops, depth)`; `lim` is `Amf0MaxNestingDepth` -/
def read (lim fuel stack depth : Nat) (b : Bytes) (index : Nat) (k : Bytes) (ops : Opa) : GoM (Opa × Nat) :=
  match fuel with
  | 0 => .error (.panic "fuel")
  | fuel + 1 =>
  if b.length - index < 1 then .error .err else
  match idx? "read:b[index]" b index with
  | .error e => .error e
  | .ok vt =>
    if (vt = 0x03 ∨ vt = 0x08 ∨ vt = 0x0a) ∧ depth ≥ lim then .error .err else
    match from? "read:b[index:]" b index with
    | .error e => .error e
    | .ok s =>
      if vt = 0x00 then
        match readNumber s with
        | .error e => .error e
        | .ok (v, l) => .ok (ops ++ [(k, .num v)], index + l)
      else if vt = 0x01 then
        match readBoolean s with
        | .error e => .error e
        | .ok (v, l) => .ok (ops ++ [(k, .bool v)], index + l)
      else if vt = 0x02 ∨ vt = 0x0c then
        match readString s with
        | .error e => .error e
        | .ok (v, l) => .ok (ops ++ [(k, .str v)], index + l)
      else if vt = 0x05 then
        match readNull s with
        | .error e => .error e
        | .ok l => .ok (ops, index + l)
      else if vt = 0x03 then
        match stack with
        | 0 => .error (.panic "stack")
        | stack + 1 =>
          match readObjectHdr s with
          | .error e => .error e
          | .ok _ =>
            match objLoop lim fuel stack (depth + 1) s 1 [] with
            | .error e => .error e
            | .ok (v, l) => .ok (ops ++ [(k, .opa v)], index + l)
      else if vt = 0x08 then
        match stack with
        | 0 => .error (.panic "stack")
        | stack + 1 =>
          match readArrayHdr 0x08 s with
          | .error e => .error e
          | .ok count =>
            match arrLoop lim fuel stack (depth + 1) s count 5 [] with
            | .error e => .error e
            | .ok (v, l) => .ok (ops ++ [(k, .opa v)], index + l)
      else if vt = 0x0a then
        match stack with
        | 0 => .error (.panic "stack")
        | stack + 1 =>
          match readArrayHdr 0x0a s with
          | .error e => .error e
          | .ok count =>
            match strictLoop lim fuel stack (depth + 1) s count 5 [] with
            | .error e => .error e
            | .ok (v, l) => .ok (ops ++ [(k, .opa v)], index + l)
      else if vt = 0x06 ∨ vt = 0x0d then
        match readUndefinedOrUnsupported s with
        | .error e => .error e
        | .ok l => .ok (ops, index + l)
      else .error .err
termination_by structural fuel

/-- the `for` loop of `readObject(b, depth)` -/
def objLoop (lim fuel stack depth : Nat) (b : Bytes) (index : Nat) (ops : Opa) : GoM (Opa × Nat) :=
  match fuel with
  | 0 => .error (.panic "fuel")
  | fuel + 1 =>
  match atEnd? b index with
  | .error e => .error e
  | .ok true => .ok (ops, index + 3)
  | .ok false =>
    match from? "ReadObject:b[index:]" b index with
    | .error e => .error e
    | .ok s =>
      match readStringWithoutType s with
      | .error e => .error e
      | .ok (k, l) =>
        match read lim fuel stack depth b (index + l) k ops with
        | .error e => .error e
        | .ok (ops', index') => objLoop lim fuel stack depth b index' ops'
termination_by structural fuel

/-- the `for i := 0; i < count; i++` loop of `readArray(b, depth)` and its tolerant end-marker check -/
def arrLoop (lim fuel stack depth : Nat) (b : Bytes) (count index : Nat) (ops : Opa) : GoM (Opa × Nat) :=
  match fuel with
  | 0 => .error (.panic "fuel")
  | fuel + 1 =>
  match count with
  | 0 =>
    match atEnd? b index with
    | .error e => .error e
    | .ok true => .ok (ops, index + 3)
    | .ok false => .ok (ops, index)
  | count + 1 =>
    match from? "ReadArray:b[index:]" b index with
    | .error e => .error e
    | .ok s =>
      match readStringWithoutType s with
      | .error e => .error e
      | .ok (k, l) =>
        match read lim fuel stack depth b (index + l) k ops with
        | .error e => .error e
        | .ok (ops', index') => arrLoop lim fuel stack depth b count index' ops'
termination_by structural fuel

/-- the loop of `readStrictArray(b, depth)` -/
def strictLoop (lim fuel stack depth : Nat) (b : Bytes) (count index : Nat) (ops : Opa) : GoM (Opa × Nat) :=
  match fuel with
  | 0 => .error (.panic "fuel")
  | fuel + 1 =>
  match count with
  | 0 => .ok (ops, index)
  | count + 1 =>
    match read lim fuel stack depth b index [] ops with
    | .error e => .error e
    | .ok (ops', index') => strictLoop lim fuel stack depth b count index' ops'
termination_by structural fuel
end

/-- enough fuel for every path of calls on `b` (proved in `Proof/Amf0.lean`: never exhausted) -/
def fuelFor (b : Bytes) : Nat := 2 * b.length + 2

/-- `Amf0.ReadObject` = `readObject(b, 1)` -/
def readObject (lim stack : Nat) (b : Bytes) : GoM (Opa × Nat) :=
  match readObjectHdr b with
  | .error e => .error e
  | .ok _ => objLoop lim (fuelFor b) stack 1 b 1 []

/-- `Amf0.ReadArray` (ECMA array) = `readArray(b, 1)` -/
def readArray (lim stack : Nat) (b : Bytes) : GoM (Opa × Nat) :=
  match readArrayHdr 0x08 b with
  | .error e => .error e
  | .ok count => arrLoop lim (fuelFor b) stack 1 b count 5 []

/-- `Amf0.ReadStrictArray` = `readStrictArray(b, 1)` -/
def readStrictArray (lim stack : Nat) (b : Bytes) : GoM (Opa × Nat) :=
  match readArrayHdr 0x0a b with
  | .error e => .error e
  | .ok count => strictLoop lim (fuelFor b) stack 1 b count 5 []

/-- `Amf0.ReadObjectOrArray` -/
def readObjectOrArray (lim stack : Nat) (b : Bytes) : GoM (Opa × Nat) :=
  if b.length < 1 then .error .err else
  match idx? "ReadObjectOrArray:b[0]" b 0 with
  | .error e => .error e
  | .ok m =>
    if m = 0x03 then readObject lim stack b
    else if m = 0x08 then readArray lim stack b
    else .error .err

/-- The top-level image of a tree: `none` for null/undefined (their readers return no value). -/
def top : Amf → Option Val
  | .null => none
  | .undef => none
  | v => some (erase v)

/-- One value read with the exported reader its type marker selects (`ReadNumber`, `ReadBoolean`, `ReadString`,
    `ReadObject`, `ReadNull`, `ReadUndefinedOrUnsupported`, `ReadArray`, `ReadStrictArray`) – the way lal's
    callers, which know the type they expect, and the harness read a value. -/
def readValue (lim stack : Nat) (b : Bytes) : GoM (Option Val × Nat) :=
  match b with
  | [] => .error .err
  | m :: _ =>
    if m = 0x00 then
      match readNumber b with
      | .error e => .error e
      | .ok (v, l) => .ok (some (.num v), l)
    else if m = 0x01 then
      match readBoolean b with
      | .error e => .error e
      | .ok (v, l) => .ok (some (.bool v), l)
    else if m = 0x02 ∨ m = 0x0c then
      match readString b with
      | .error e => .error e
      | .ok (v, l) => .ok (some (.str v), l)
    else if m = 0x03 then
      match readObject lim stack b with
      | .error e => .error e
      | .ok (v, l) => .ok (some (.opa v), l)
    else if m = 0x05 then
      match readNull b with
      | .error e => .error e
      | .ok l => .ok (none, l)
    else if m = 0x06 then
      match readUndefinedOrUnsupported b with
      | .error e => .error e
      | .ok l => .ok (none, l)
    else if m = 0x08 then
      match readArray lim stack b with
      | .error e => .error e
      | .ok (v, l) => .ok (some (.opa v), l)
    else if m = 0x0a then
      match readStrictArray lim stack b with
      | .error e => .error e
      | .ok (v, l) => .ok (some (.opa v), l)
    else .error .err

/-! ## metadata.go -/

/-- "@setDataFrame" -/
def sdfName : Bytes := [0x40, 0x73, 0x65, 0x74, 0x44, 0x61, 0x74, 0x61, 0x46, 0x72, 0x61, 0x6d, 0x65]

/-- `Amf0.WriteString(buf, "@setDataFrame")` -/
def sdfPrefix : Bytes := writeString sdfName

/-- `ParseMetadata` -/
def parseMetadata (lim stack : Nat) (b : Bytes) : GoM Opa :=
  match from? "ParseMetadata:b[pos:]" b 0 with
  | .error e => .error e
  | .ok s0 =>
    match readString s0 with
    | .error e => .error e
    | .ok (v, l) =>
      let pos := 0 + l
      let next : GoM Nat :=
        if v = sdfName then
          match from? "ParseMetadata:b[pos:]" b pos with
          | .error e => .error e
          | .ok s1 =>
            match readString s1 with
            | .error e => .error e
            | .ok (_, l1) => .ok (pos + l1)
        else .ok pos
      match next with
      | .error e => .error e
      | .ok pos =>
        match from? "ParseMetadata:b[pos:]" b pos with
        | .error e => .error e
        | .ok s2 =>
          match readObjectOrArray lim stack s2 with
          | .error e => .error e
          | .ok (opa, _) => .ok opa

/-- `MetadataEnsureWithSdf`: returned bytes and whether the returned error is non-nil -/
def metadataEnsureWithSdf (b : Bytes) : GoM (Bytes × Bool) :=
  match readString b with
  | .error (.panic s) => .error (.panic s)
  | .error .err => .ok (b, true)
  | .ok (v, _) =>
    if v = sdfName then .ok (b, false)
    else .ok (sdfPrefix ++ b, false)

/-- `MetadataEnsureWithoutSdf` -/
def metadataEnsureWithoutSdf (b : Bytes) : GoM (Bytes × Bool) :=
  match readString b with
  | .error (.panic s) => .error (.panic s)
  | .error .err => .ok (b, true)
  | .ok (v, l) =>
    if v ≠ sdfName then .ok (b, false)
    else
      match from? "MetadataEnsureWithoutSdf:b[l:]" b l with
      | .error e => .error e
      | .ok s => .ok (s, false)

/-! ### float64(int) for `BuildMetadata` (Go `int` is 64 bit; IEEE-754 round to nearest even) -/

def log2f : Nat → Nat → Nat
  | 0, _ => 0
  | f + 1, n => if n ≥ 2 then log2f f (n / 2) + 1 else 0

/-- bits of `float64(n)` for `n ≥ 0` -/
def f64BitsOfNat (n : Nat) : Nat :=
  if n = 0 then 0 else
  let e := log2f 64 n
  if e ≤ 52 then (e + 1023) * 2 ^ 52 + (n * 2 ^ (52 - e) - 2 ^ 52)
  else
    let sh := e - 52
    let q := n / 2 ^ sh
    let r := n % 2 ^ sh
    let half := 2 ^ (sh - 1)
    let q' := if r > half ∨ (r = half ∧ q % 2 = 1) then q + 1 else q
    (e + 1023) * 2 ^ 52 + (q' - 2 ^ 52)

/-- the 8 bytes of `float64(i)` -/
def f64OfInt (i : Int) : Bytes :=
  be64 ((if i < 0 then 2 ^ 63 else 0) + f64BitsOfNat i.natAbs)

def kWidth : Bytes := [0x77, 0x69, 0x64, 0x74, 0x68]
def kHeight : Bytes := [0x68, 0x65, 0x69, 0x67, 0x68, 0x74]
def kAudiocodecid : Bytes := [0x61, 0x75, 0x64, 0x69, 0x6f, 0x63, 0x6f, 0x64, 0x65, 0x63, 0x69, 0x64]
def kVideocodecid : Bytes := [0x76, 0x69, 0x64, 0x65, 0x6f, 0x63, 0x6f, 0x64, 0x65, 0x63, 0x69, 0x64]
def kVersion : Bytes := [0x76, 0x65, 0x72, 0x73, 0x69, 0x6f, 0x6e]
def kLal : Bytes := [0x6c, 0x61, 0x6c]
/-- "onMetaData" -/
def onMetaData : Bytes := [0x6f, 0x6e, 0x4d, 0x65, 0x74, 0x61, 0x44, 0x61, 0x74, 0x61]

/-- the `ObjectPairArray` `BuildMetadata` assembles; `encoder`/`version` are
    `base.LalRtmpBuildMetadataEncoder` / `base.LalVersionDot` -/
def metadataPairs (encoder version : Bytes) (width height audiocodecid videocodecid : Int) : List (Bytes × Amf) :=
  (if width ≠ -1 then [(kWidth, Amf.num (f64OfInt width))] else []) ++
  (if height ≠ -1 then [(kHeight, Amf.num (f64OfInt height))] else []) ++
  (if audiocodecid ≠ -1 then [(kAudiocodecid, Amf.num (f64OfInt audiocodecid))] else []) ++
  (if videocodecid ≠ -1 then [(kVideocodecid, Amf.num (f64OfInt videocodecid))] else []) ++
  [(kVersion, Amf.str encoder), (kLal, Amf.str version)]

/-- `BuildMetadata` (`none` cannot happen: every value is a number or a string) -/
def buildMetadata (encoder version : Bytes) (width height audiocodecid videocodecid : Int) : Option Bytes :=
  match writeObject (metadataPairs encoder version width height audiocodecid videocodecid) with
  | some o => some (writeString onMetaData ++ o)
  | none => none

end Lal.Amf0
