import LalModel.Model.TsRmx
/-
  lal's HLS muxer (pkg/hls/muxer.go) as the observer of `Rtmp2MpegtsRemuxer`, reduced to what decides WHICH BYTES
  end up in WHICH SEGMENT FILE: `FeedPatPmt`, `FeedMpegts`, `updateFragment`, `openFragment`, `closeFragment`.
  Playlists, file names, the fragment ring, clean-up and the notify callbacks belong to C10 and are left out.

  `f.duration` (a float64 number of seconds) is kept in 90 kHz ticks; `duration < FragmentDurationMs / 1000` is then
  `ticks < FragmentDurationMs * 90` (both sides of the Go comparison are correctly rounded quotients of integers that
  differ, if at all, by far more than one unit in the last place).
-/
namespace Lal.HlsConcat
open Lal Lal.TsRmx

structure St where
  /-- `config.FragmentDurationMs` -/
  fragMs  : Nat
  patpmt  : Bytes := []
  opened  : Bool := false
  fragTs  : Nat := 0
  /-- duration of the current fragment, in ticks -/
  curDur  : Nat := 0
  /-- the segment files in creation order; the last one is open when `opened` -/
  segs    : List Bytes := []
deriving Repr, DecidableEq

/-- `openFragment`: a new file that starts with PAT and PMT; `OnFragmentOpen` follows -/
def openFragment (s : St) (ts : Nat) : St :=
  { s with opened := true, segs := s.segs ++ [s.patpmt], curDur := 0, fragTs := ts }

/-- `closeFragment` -/
def closeFragment (s : St) : St := { s with opened := false }

/-- the locals of `updateFragment` that live across `OnFragmentOpen`: `m.opened` at its beginning, whether the split
    was forced, and `f.duration` of `f := m.getCurrFrag()` (the fragment that was current at the beginning) -/
structure Loc where
  wasOpen : Bool
  forced  : Bool
  heldDur : Nat
deriving Repr, DecidableEq

/-- `updateFragment` up to and including the forced split -/
def update1 (s : St) (ts : Nat) : St × Loc × Bool :=
  if s.opened then
    let maxfraglen := s.fragMs * 90 * 10
    if (ts > s.fragTs ∧ ts - s.fragTs > maxfraglen) ∨ (s.fragTs > ts ∧ s.fragTs - ts > Gen.negMaxfraglen) then
      (openFragment (closeFragment s) ts, { wasOpen := true, forced := true, heldDur := s.curDur }, true)
    else (s, { wasOpen := true, forced := false, heldDur := s.curDur }, false)
  else (s, { wasOpen := false, forced := false, heldDur := 0 }, false)

/-- the rest of `updateFragment` -/
def update2 (s : St) (l : Loc) (ts : Nat) (boundary : Bool) : St × Bool :=
  if l.wasOpen then
    -- `if ts > m.fragTs { … f.duration = max … }`: after a forced split `m.fragTs = ts`, nothing is added, and `f` is
    -- the fragment that has just been closed
    let held := if ts > s.fragTs then max l.heldDur (ts - s.fragTs) else l.heldDur
    let s := if l.forced then s else { s with curDur := held }
    if held < s.fragMs * 90 then (s, false)
    else if boundary then (openFragment (closeFragment s) ts, true)
    else (s, false)
  else if boundary then (openFragment (closeFragment s) ts, true)
  else (s, false)

/-- the time `FeedMpegts` passes to `updateFragment`: PTS of an audio frame, DTS of a video frame -/
def itemTs (i : Item) : Nat := if i.sid = Gen.tsStreamIdAudio then i.pts else i.dts

/-- the muxer as the remuxer's observer -/
def observer : Observer St :=
  { τ := Loc,
    patpmt := fun m b => { m with patpmt := b },
    enter1 := fun m i => update1 m (itemTs i),
    enter2 := fun m l i => update2 m l (itemTs i) i.boundary,
    leave := fun m i =>
      -- `if !m.opened { return }`, else the packets are appended to the current file
      if m.opened then
        match m.segs.reverse with
        | cur :: older => { m with segs := ((cur ++ i.packets.flatten) :: older).reverse }
        | [] => m
      else m }

end Lal.HlsConcat
