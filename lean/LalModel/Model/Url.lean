import LalModel.Model.Str
/-
  The parts of Go's `net/url` (go1.23) that lal's access-control code goes through, on `Bytes`:

  * `unescape` in the modes `encodeQueryComponent` (`+` becomes a space), `encodePath` and
    `encodeFragment` (`+` kept): every `%` must be followed by two hex digits, otherwise an error;
  * `url.ParseQuery` (`parseQuery`): pairs are cut at `&`; a pair containing `;` is skipped and makes the
    call return an error; empty pairs are skipped; a pair whose key or value does not unescape is skipped and
    makes the call return an error; `Values.Get` returns the first value recorded for the key;
  * `url.Parse("http://<host>" ++ requestURI)` for a request URI that begins with `/` and a fixed host:
    control bytes (< 0x20, 0x7f) are rejected, the fragment is cut at the first `#`, the query at the
    first `?`, path and fragment are unescaped;
  * lal's `base.parseUrlPath` and `UrlContext.GetFileType / GetFilenameWithoutType`.

  In `Model/Auth.lean` the query parser is a PARAMETER; `parseQuery` below instantiates it in the driver.
-/
namespace Lal.Url
open Lal.Str

/-- `unescape`: `none` = EscapeError. `plus` = mode is `encodeQueryComponent`. -/
def unescape (plus : Bool) : Bytes → Option Bytes
  | [] => some []
  | 37 :: a :: b :: r =>
    if isHexDigit a && isHexDigit b then
      match unescape plus r with
      | some t => some (UInt8.ofNat (unhex a * 16 + unhex b) :: t)
      | none => none
    else none
  | 37 :: _ => none
  | x :: r =>
    match unescape plus r with
    | some t => some ((if plus && x == 43 then 32 else x) :: t)
    | none => none

/-- what `parseQuery` does with one `&`-separated piece: `none` = skipped, no error;
    `some none` = skipped with an error; `some (some kv)` = recorded -/
def queryPiece (p : Bytes) : Option (Option (Bytes × Bytes)) :=
  if p.contains 59 then some none
  else if p = [] then none
  else
    let (k, v, _) := cut 61 p
    match unescape true k with
    | none => some none
    | some k' =>
      match unescape true v with
      | none => some none
      | some v' => some (some (k', v'))

/-- the pairs recorded (in order) and whether an error is returned -/
def parseQueryAll (q : Bytes) : List (Bytes × Bytes) × Bool :=
  if q = [] then ([], false) else
  (splitByte 38 q).foldr (fun p (acc : List (Bytes × Bytes) × Bool) =>
    match queryPiece p with
    | none => acc
    | some none => (acc.1, true)
    | some (some kv) => (kv :: acc.1, acc.2)) ([], false)

/-- `url.ParseQuery` as lal uses it (`if err != nil { return err }`): `none` = error -/
def parseQuery (q : Bytes) : Option (List (Bytes × Bytes)) :=
  match parseQueryAll q with
  | (kvs, false) => some kvs
  | (_, true) => none

/-- `Values.Get(key)`: first value recorded for the key, `""` when there is none -/
def get (kvs : List (Bytes × Bytes)) (key : Bytes) : Bytes :=
  match kvs with
  | [] => []
  | (k, v) :: r => if k = key then v else get r key

/-! ### lal's UrlContext (the fields the HLS handler and the path strategy read) -/

structure UrlCtx where
  path : Bytes
  lastItem : Bytes
  rawQuery : Bytes
deriving Repr, DecidableEq

/-- `base.parseUrlPath` -/
def parseUrlPath (path rawQuery : Bytes) : UrlCtx :=
  match lastIndexByte 47 path with
  | none => { path := path, lastItem := [], rawQuery := rawQuery }
  | some i => { path := path, lastItem := path.drop (i + 1), rawQuery := rawQuery }

/-- `calcFilenameAndTypeIfNeeded`: (filename without type, file type) -/
def nameAndType (lastItem : Bytes) : Bytes × Bytes :=
  match lastIndexByte 46 lastItem with
  | some i => (lastItem.take i, lastItem.drop (i + 1))
  | none => ([], [])

def UrlCtx.fileType (u : UrlCtx) : Bytes := (nameAndType u.lastItem).2
def UrlCtx.filenameWithoutType (u : UrlCtx) : Bytes := (nameAndType u.lastItem).1

def isCtl (b : UInt8) : Bool := b.toNat < 32 || b == 127

/-- `base.ParseUrl("http://<host>" ++ uri, 80)` for `uri` beginning with `/` (what
    `base.ParseHttpRequest` builds from `req.RequestURI`); `none` = error -/
def parseRequestUri (uri : Bytes) : Option UrlCtx :=
  if uri.any isCtl then none else
  let (u, frag, _) := cut 35 uri
  let (p, q, _) := cut 63 u
  match unescape false p with
  | none => none
  | some path =>
    match unescape false frag with
    | none => none
    | some _ => some (parseUrlPath path q)

end Lal.Url
