import LalModel.Model.Rtp
import LalModel.Model.RtpUnpack
import LalModel.Model.Rtcp
import LalModel.Model.Sdp
/-
  Model of pkg/rtsp/base_in_session.go: InitWithSdp, SetupWithChannel, HandleInterleavedPacket,
  handleRtpPacket, handleRtcpPacket (the UDP callbacks onReadRtpPacket / onReadRtcpPacket call the same two
  handlers), and of rtprtcp.IsAvcBoundary / IsHevcBoundary (rtp_packet.go).
  Not modelled: AvPacketQueue (`BaseInSessionTimestampFilterFlag`; the model is the session with the flag off,
  the queue is exercised by differential fuzzing only), session statistics, log dumps.
-/
namespace Lal.RtspIn
open Lal Lal.Rtp Lal.RtpUnpack Lal.Rtcp Lal.Sdp

/-- `unpackerItemMaxSize` (pkg/rtsp/rtsp.go) -/
def unpackerItemMaxSize : Nat := 1024

/-! ### IsAvcBoundary / IsHevcBoundary -/

def avcBoundaryType (t : Nat) : Bool := t = 7 ∨ t = 8 ∨ t = 5

/-- `rtprtcp.IsAvcBoundary` on the packet body (the STAP-A and FU-A tests exclude each other: 24 ≠ 28) -/
def avcBoundaryOfBody (b : Bytes) : GoM Bool :=
  if b.length < 1 then .ok false else
  match idx? "IsAvcBoundary b[0]" b 0 with
  | .error f => .error f
  | .ok b0 =>
    if avcBoundaryType (b0.toNat % 32) then .ok true
    else if b0.toNat % 32 = 24 ∧ b.length > 3 then
      match idx? "IsAvcBoundary b[3]" b 3 with
      | .error f => .error f
      | .ok b3 => .ok (avcBoundaryType (b3.toNat % 32))
    else if b0.toNat % 32 = 28 ∧ b.length > 1 then
      match idx? "IsAvcBoundary b[1]" b 1 with
      | .error f => .error f
      | .ok b1 => .ok (avcBoundaryType (b1.toNat % 32) && decide (b1.toNat / 128 = 1))
    else .ok false

def isAvcBoundary (p : RtpPacket) : GoM Bool :=
  match p.body with
  | .error f => .error f
  | .ok b => avcBoundaryOfBody b

def hevcBoundaryType (t : Nat) : Bool :=
  t = 32 ∨ t = 33 ∨ t = 34 ∨ t = 16 ∨ t = 17 ∨ t = 18 ∨ t = 19 ∨ t = 20 ∨ t = 21 ∨ t = 22 ∨ t = 23

/-- `rtprtcp.IsHevcBoundary` on the packet body -/
def hevcBoundaryOfBody (b : Bytes) : GoM Bool :=
  if b.length < 1 then .ok false else
  match idx? "IsHevcBoundary b[0]" b 0 with
  | .error f => .error f
  | .ok b0 =>
    if hevcBoundaryType (b0.toNat / 2 % 64) then .ok true
    else if b0.toNat / 2 % 64 = 49 ∧ b.length > 2 then
      match idx? "IsHevcBoundary b[2]" b 2 with
      | .error f => .error f
      | .ok b2 => .ok (hevcBoundaryType (b2.toNat % 64) && decide (b2.toNat / 128 = 1))
    else .ok false

def isHevcBoundary (p : RtpPacket) : GoM Bool :=
  match p.body with
  | .error f => .error f
  | .ok b => hevcBoundaryOfBody b

/-! ### the session -/

inductive Ev where
  | rtp (seq : Nat)                         -- observer.OnRtpPacket
  | av (pt : Int) (ts : Nat) (payload : Bytes)  -- observer.OnAvPacket
  | wr (channel : Int) (b : Bytes)          -- cmdSession.WriteInterleavedPacket
deriving Repr, DecidableEq

/-- one RTP unpacker: `nil` when the SDP does not describe an unpackable stream -/
structure Unp where
  kind : Kind
  rate : Int
  list : PktList
deriving Repr

structure Sess where
  ctx : LogicContext
  aRtp : Int := 0
  aRtcp : Int := 0
  vRtp : Int := 0
  vRtcp : Int := 0
  aSsrc : Nat := 0
  vSsrc : Nat := 0
  aRr : RrProducer := {}
  vRr : RrProducer := {}
  aUnp : Option Unp := none
  vUnp : Option Unp := none

/-- `LogicContext.IsAudioUnpackable`: false without an audio media description (the zero value of
    `audioPayloadTypeBase` equals `AvPacketPtG711U`) -/
def isAudioUnpackable (c : LogicContext) : Bool :=
  c.hasAudio && decide ((c.audioPayloadTypeBase = ptAac ∧ c.asc.isSome) ∨ c.audioPayloadTypeBase = ptG711A ∨ c.audioPayloadTypeBase = ptG711U
    ∨ c.audioPayloadTypeBase = ptOpus)

/-- `LogicContext.IsVideoUnpackable` -/
def isVideoUnpackable (c : LogicContext) : Bool :=
  c.videoPayloadTypeBase = ptAvc ∨ c.videoPayloadTypeBase = ptHevc

/-- the protocol `DefaultRtpUnpackerFactory` chooses for a base payload type -/
def kindOfPt (pt : Int) : Option Kind :=
  if pt = ptAac then some .aac
  else if pt = ptG711U ∨ pt = ptG711A then some .pcm
  else if pt = ptOpus then some .opus
  else if pt = ptAvc then some .avc
  else if pt = ptHevc then some .hevc
  else none

def mkUnp (pt : Int) (rate : Int) : Option Unp :=
  (kindOfPt pt).map fun k => { kind := k, rate := rate, list := { maxSize := unpackerItemMaxSize } }

/-- `BaseInSession.InitWithSdp` -/
def initWithSdp (c : LogicContext) : Sess :=
  { ctx := c,
    aUnp := if isAudioUnpackable c then mkUnp c.audioPayloadTypeBase c.audioClockRate else none,
    vUnp := if isVideoUnpackable c then mkUnp c.videoPayloadTypeBase c.videoClockRate else none }

def hasSuffix (suf s : Bytes) : Bool := s.drop (s.length - suf.length) == suf && suf.length ≤ s.length

/-- `BaseInSession.SetupWithChannel` : `none` = `ErrRtsp` -/
def setupWithChannel (s : Sess) (uri : Bytes) (rtp rtcp : Int) : Option Sess :=
  if s.ctx.audioAControl ≠ [] ∧ hasSuffix s.ctx.audioAControl uri then some { s with aRtp := rtp, aRtcp := rtcp }
  else if s.ctx.videoAControl ≠ [] ∧ hasSuffix s.ctx.videoAControl uri then some { s with vRtp := rtp, vRtcp := rtcp }
  else none

def feedUnp (u : Unp) (pt : Int) (pkt : RtpPacket) : GoM (Unp × List Ev) :=
  match feed (protoOf u.kind u.rate) u.list pkt with
  | .error f => .error f
  | .ok (l, outs) => .ok ({ u with list := l }, outs.map fun o => Ev.av pt o.ts o.payload)

/-- `BaseInSession.handleRtpPacket` (the returned error is ignored by both callers: `.ok` with no event) -/
def handleRtp (s : Sess) (b : Bytes) : GoM (Sess × List Ev) :=
  if b.length < 12 then .ok (s, []) else do
    let b1 ← idx? "handleRtpPacket b[1]" b 1
    let pt : Int := (b1.toNat % 128 : Nat)
    if ¬ (s.ctx.audioPayloadTypeOrigin = pt ∨ s.ctx.videoPayloadTypeOrigin = pt) then return (s, [])
    match parseRtpHeader b with
    | .error (.panic site) => throw (.panic site)
    | .error .err => return (s, [])
    | .ok h =>
      let pkt : RtpPacket := { hdr := h, raw := b }
      if s.ctx.audioPayloadTypeOrigin = pt then
        let s := { s with aSsrc := h.ssrc, aRr := s.aRr.feed h.seq }
        match s.aUnp with
        | none => return (s, [Ev.rtp h.seq])
        | some u =>
          let (u', evs) ← feedUnp u s.ctx.audioPayloadTypeBase pkt
          return ({ s with aUnp := some u' }, Ev.rtp h.seq :: evs)
      else
        let s := { s with vSsrc := h.ssrc, vRr := s.vRr.feed h.seq }
        match s.vUnp with
        | none => return (s, [Ev.rtp h.seq])
        | some u =>
          let (u', evs) ← feedUnp u s.ctx.videoPayloadTypeBase pkt
          return ({ s with vUnp := some u' }, Ev.rtp h.seq :: evs)

/-- `BaseInSession.handleRtcpPacket` in interleaved mode (`rAddr == nil`) -/
def handleRtcp (s : Sess) (b : Bytes) : GoM (Sess × List Ev) :=
  if b.length < 4 then .ok (s, []) else do
    let b1 ← idx? "handleRtcpPacket b[1]" b 1
    if b1.toNat = 200 then
      if b.length < 28 then return (s, [])
      let sr ← parseSr b
      if sr.ssrc = s.aSsrc then
        let (rr, p) := s.aRr.produce sr.middleNtp
        let s := { s with aRr := p }
        match rr with
        | some buf => return (s, [Ev.wr s.aRtcp buf])
        | none => return (s, [])
      else if sr.ssrc = s.vSsrc then
        let (rr, p) := s.vRr.produce sr.middleNtp
        let s := { s with vRr := p }
        match rr with
        | some buf => return (s, [Ev.wr s.vRtcp buf])
        | none => return (s, [])
      else return (s, [])
    else return (s, [])

/-- `BaseInSession.HandleInterleavedPacket` -/
def handleInterleaved (s : Sess) (b : Bytes) (channel : Int) : GoM (Sess × List Ev) :=
  if channel = s.aRtp ∨ channel = s.vRtp then handleRtp s b
  else if channel = s.aRtcp ∨ channel = s.vRtcp then handleRtcp s b
  else .ok (s, [])

/-- a whole sequence of interleaved packets -/
def run : Sess → List (Int × Bytes) → GoM (Sess × List Ev)
  | s, [] => .ok (s, [])
  | s, (ch, b) :: rest =>
    match handleInterleaved s b ch with
    | .error f => .error f
    | .ok (s', e) =>
      match run s' rest with
      | .error f => .error f
      | .ok (s'', e') => .ok (s'', e ++ e')

end Lal.RtspIn
