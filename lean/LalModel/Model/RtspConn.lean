import LalModel.Model.AdmissionCore
/-
  C03 — the per-connection automaton of an RTSP server connection.

    pkg/rtsp/server.go                  Server.handleTcpConnect: RunLoop, then OnDelRtspPubSession if
                                        session.pubSession != nil, else OnDelRtspSubSession if
                                        session.subSession != nil
    pkg/rtsp/server_command_session.go  runCmdLoop: handleAnnounce (pubSession is set BEFORE the
                                        observer is asked), handleDescribe (same for subSession),
                                        handleSetup, handleRecord, handlePlay, TEARDOWN

  A refused ANNOUNCE / DESCRIBE makes the command loop return; the tail of handleTcpConnect follows in
  the same goroutine and is merged into the same event.
-/
namespace Lal.Adm

def Srv.modSP (s : Srv) (p : Sid) (f : SPub → SPub) : Srv :=
  match s.sess p with
  | some (.rtspPub x) => s.setS p (.rtspPub (f x))
  | _ => s

def Srv.modSS (s : Srv) (q : Sid) (f : SSub → SSub) : Srv :=
  match s.sess q with
  | some (.rtspSub x) => s.setS q (.rtspSub (f x))
  | _ => s

/-- `Server.handleTcpConnect` after `session.RunLoop()` returned -/
def rtspTail (code : Code) (s : Srv) (c : Sid) (k : SConn) : Srv :=
  let s := s.setS c (.rtspConn { k with closed := true })
  match k.pub with
  | some p =>
    (match s.sess p with
     | some (.rtspPub pp) =>
       let s := s.modSP p (fun x => { x with ended := true })
       if code.rtspFlag && pp.flag then s else s.onDelRtspPub p pp.stream
     | _ => s)
  | none =>
    match k.sub with
    | some q =>
      (match s.sess q with
       | some (.rtspSub qq) =>
         let s := s.modSS q (fun x => { x with ended := true })
         if code.rtspFlag && qq.flag then s else s.onDelRtspSub q qq.stream
       | _ => s)
    | none => s

def sOpen (s : Srv) (c : Sid) : Srv × Res :=
  if s.fresh c then (s.setS c (.rtspConn {}), .ok) else (s, .na)

/-- ANNOUNCE: `p` names the `PubSession` it creates -/
def sAnnounce (code : Code) (s : Srv) (c p : Sid) (st : Stream) (auth : Bool) : Srv × Res :=
  match s.sess c with
  | some (.rtspConn k) =>
    if k.closed || !(s.fresh p) then (s, .na) else
    if code.rtspSecond && (k.pub.isSome || k.sub.isSome) then (rtspTail code s c k, .closed) else
    let k1 := { k with pub := some p }
    let s1 := (s.setS c (.rtspConn k1)).setS p (.rtspPub { conn := c, stream := st })
    let r2 := s1.onNewRtspPub p st auth
    if r2.2 then (r2.1.modSP p (fun x => { x with accepted := true }), .ok)
    else (rtspTail code (s1.modSP p (fun x => { x with flag := true })) c k1, .refused)
  | _ => (s, .na)

/-- DESCRIBE: `q` names the `SubSession` it creates -/
def sDescribe (code : Code) (s : Srv) (c q : Sid) (st : Stream) (auth : Bool) : Srv × Res :=
  match s.sess c with
  | some (.rtspConn k) =>
    if k.closed || !(s.fresh q) then (s, .na) else
    if code.rtspSecond && (k.pub.isSome || k.sub.isSome) then (rtspTail code s c k, .closed) else
    let k1 := { k with sub := some q }
    let s1 := (s.setS c (.rtspConn k1)).setS q (.rtspSub { conn := c, stream := st })
    let r2 := s1.onNewRtspSubDescribe q st auth
    if r2.2 then (r2.1.modSS q (fun x => { x with accepted := true }), .ok)
    else (rtspTail code (s1.modSS q (fun x => { x with flag := true })) c k1, .refused)
  | _ => (s, .na)

/-- SETUP -/
def sSetup (code : Code) (s : Srv) (c : Sid) : Srv × Res :=
  match s.sess c with
  | some (.rtspConn k) =>
    if k.closed then (s, .na) else
    if k.pub.isNone && k.sub.isNone then (rtspTail code s c k, .closed) else (s, .ok)
  | _ => (s, .na)

/-- RECORD -/
def sRecord (s : Srv) (c : Sid) : Srv × Res :=
  match s.sess c with
  | some (.rtspConn k) => if k.closed then (s, .na) else (s, .ok)
  | _ => (s, .na)

/-- PLAY -/
def sPlay (code : Code) (s : Srv) (c : Sid) (nid : Sid) : Srv × Res :=
  match s.sess c with
  | some (.rtspConn k) =>
    if k.closed || !(s.fresh nid) then (s, .na) else
    (match k.sub with
     | none => (rtspTail code s c k, .closed)
     | some q =>
       match s.sess q with
       | some (.rtspSub qq) => (s.onNewRtspSubPlay qq.stream nid, .ok)
       | _ => (s, .na))
  | _ => (s, .na)

/-- an interleaved RTP packet on the command connection -/
def sMedia (code : Code) (s : Srv) (c : Sid) : Srv × Res :=
  match s.sess c with
  | some (.rtspConn k) =>
    if k.closed then (s, .na) else
    (match k.pub with
     | some p =>
       (match s.sess p with
        | some (.rtspPub pp) =>
          if pp.accepted && (s.groups pp.stream).isSome then (s, .fwd pp.stream) else (s, .drop)
        | _ => (s, .na))
     | none => if k.sub.isSome then (s, .drop) else (rtspTail code s c k, .closed))
  | _ => (s, .na)

/-- TEARDOWN, or the connection ends -/
def sClose (code : Code) (s : Srv) (c : Sid) : Srv × Res :=
  match s.sess c with
  | some (.rtspConn k) => if k.closed then (s, .na) else (rtspTail code s c k, .ok)
  | _ => (s, .na)

end Lal.Adm
