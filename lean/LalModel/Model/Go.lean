import LalModel.Model.Bytes
/-
  Go run-time failures as values (DESIGN.md §3). A model written in `Except Fault`
  returns `.error (.panic site)` exactly where the Go code would panic and
  `.error .err` where it returns an error.
-/
namespace Lal

inductive Fault where
  | err                  -- the Go function returns a non-nil error
  | panic (site : String) -- index out of range, slice bounds, divide by zero, nil call
deriving Repr, DecidableEq

abbrev GoM := Except Fault

deriving instance DecidableEq for Except

/-- `b[i]` -/
def idx? (site : String) (b : Bytes) (i : Nat) : GoM UInt8 :=
  match b[i]? with
  | some x => .ok x
  | none => .error (.panic site)

/-- `b[i:]` (panics when `i > len(b)`) -/
def from? (site : String) (b : Bytes) (i : Nat) : GoM Bytes :=
  if i ≤ b.length then .ok (b.drop i) else .error (.panic site)

/-- `b[:j]` (for a slice whose capacity equals its length) -/
def upto? (site : String) (b : Bytes) (j : Nat) : GoM Bytes :=
  if j ≤ b.length then .ok (b.take j) else .error (.panic site)

/-- `b[i:j]` -/
def slice? (site : String) (b : Bytes) (i j : Nat) : GoM Bytes :=
  if i ≤ j ∧ j ≤ b.length then .ok ((b.drop i).take (j - i)) else .error (.panic site)

/-- integer division -/
def div? (site : String) (x y : Nat) : GoM Nat :=
  if y = 0 then .error (.panic site) else .ok (x / y)

def isPanic {α} : GoM α → Bool
  | .error (.panic _) => true
  | _ => false

/-- canonical outcome class for the line protocol -/
def outcome {α} (show_ : α → String) : GoM α → String
  | .ok a => show_ a
  | .error .err => "err"
  | .error (.panic _) => "panic"

end Lal
