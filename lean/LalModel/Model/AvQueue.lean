import LalModel.Model.AvPacket
/-
  Model of pkg/rtsp/avpacket_queue.go: AvPacketQueue
    Feed, adjustTsHandleRotate (TimestampFilterHandleRotateFlag = true, the default), adjustTs (flag false),
    PopAllByForce, popAllAudio, popAllVideo
  over naza's circularqueue (capacity `maxQueueSize`; PushBack on a full queue returns an error that the code
  ignores, i.e. the packet is lost — `avqueue_never_full` shows that this never happens).
  The callback `onAvPacket` is the list of packets returned, in call order.
-/
namespace Lal.AvQueue
open Lal Lal.Av

/-- `maxQueueSize` (compared with the regenerated constant in Props/C07) -/
def maxQueueSize : Nat := 128

/-- the three per-track variables of `adjustTsHandleRotate` -/
structure Track where
  prevOriginTs : Int := -1
  prevModTs : Int := -1
  prevIntervalTs : Int := -1
deriving Repr, DecidableEq, Inhabited

/-- `AvPacketQueue` -/
structure Q where
  audioQueue : List AvPacket := []
  videoQueue : List AvPacket := []
  audioBaseTs : Int := -1
  videoBaseTs : Int := -1
  audio : Track := {}
  video : Track := {}
deriving Repr, DecidableEq, Inhabited

/-- `circularqueue.PushBack` (error ignored by the caller) -/
def pushBack (q : List AvPacket) (p : AvPacket) : List AvPacket :=
  if q.length ≥ maxQueueSize then q else q ++ [p]

/-- the closure `fn` of `adjustTsHandleRotate` : the track variables and the packet's new timestamp -/
def rotateFn (t : Track) (ts : Int) : Track × Int :=
  if t.prevOriginTs = -1 then ({ t with prevOriginTs := ts, prevModTs := 0 }, 0)
  else
    let interval := ts - t.prevOriginTs
    let (t1, ts1) :=
      if interval < -1000 then ({ t with prevOriginTs := ts }, t.prevModTs + t.prevIntervalTs)
      else ({ t with prevOriginTs := ts, prevIntervalTs := interval }, t.prevModTs + interval)
    let ts2 := if ts1 < 0 then 0 else ts1
    ({ t1 with prevModTs := ts2 }, ts2)

/-- `adjustTsHandleRotate` -/
def adjustTsHandleRotate (q : Q) (pkt : AvPacket) : Q × AvPacket :=
  if pkt.isVideo then
    let (t, ts) := rotateFn q.video pkt.ts
    let p := { pkt with ts := ts }
    ({ q with video := t, videoQueue := pushBack q.videoQueue p }, p)
  else
    let (t, ts) := rotateFn q.audio pkt.ts
    let p := { pkt with ts := ts }
    ({ q with audio := t, audioQueue := pushBack q.audioQueue p }, p)

/-- `PopAllByForce` -/
def popAllByForce (q : Q) : Q × List AvPacket :=
  let q := { q with videoBaseTs := -1, audioBaseTs := -1 }
  if q.audioQueue.isEmpty && !q.videoQueue.isEmpty then ({ q with videoQueue := [] }, q.videoQueue)
  else if !q.audioQueue.isEmpty && q.videoQueue.isEmpty then ({ q with audioQueue := [] }, q.audioQueue)
  else (q, [])

/-- `adjustTs` -/
def adjustTs (q : Q) (pkt : AvPacket) : Q × AvPacket × List AvPacket :=
  if pkt.isVideo then
    let (q, out) := if pkt.ts < q.videoBaseTs then popAllByForce q else (q, [])
    let q := if q.videoBaseTs = -1 then { q with videoBaseTs := pkt.ts } else q
    let p := { pkt with ts := pkt.ts - q.videoBaseTs }
    ({ q with videoQueue := pushBack q.videoQueue p }, p, out)
  else
    let (q, out) := if pkt.ts < q.audioBaseTs then popAllByForce q else (q, [])
    let q := if q.audioBaseTs = -1 then { q with audioBaseTs := pkt.ts } else q
    let p := { pkt with ts := pkt.ts - q.audioBaseTs }
    ({ q with audioQueue := pushBack q.audioQueue p }, p, out)

/-- `for !a.audioQueue.Empty() && !a.videoQueue.Empty() { … }` ; `fedAudio` = `pkt.IsAudio()` of the packet fed -/
def mergeLoop (fedAudio : Bool) : Nat → List AvPacket → List AvPacket → List AvPacket × List AvPacket × List AvPacket
  | 0, aq, vq => (aq, vq, [])
  | _, [], vq => ([], vq, [])
  | _, aq, [] => (aq, [], [])
  | fuel+1, a :: aq, v :: vq =>
    if a.ts < v.ts then
      let (x, y, o) := mergeLoop fedAudio fuel aq (v :: vq); (x, y, a :: o)
    else if a.ts > v.ts then
      let (x, y, o) := mergeLoop fedAudio fuel (a :: aq) vq; (x, y, v :: o)
    else if fedAudio then
      let (x, y, o) := mergeLoop fedAudio fuel (a :: aq) vq; (x, y, v :: o)
    else
      let (x, y, o) := mergeLoop fedAudio fuel aq (v :: vq); (x, y, a :: o)

/-- `Feed` : `rotate` = `TimestampFilterHandleRotateFlag` -/
def feed (rotate : Bool) (q : Q) (pkt : AvPacket) : Q × List AvPacket :=
  let (q, p, out0) :=
    if rotate then let (q, p) := adjustTsHandleRotate q pkt; (q, p, [])
    else adjustTs q pkt
  let (aq, vq, out1) := mergeLoop p.isAudio (q.audioQueue.length + q.videoQueue.length) q.audioQueue q.videoQueue
  let q := { q with audioQueue := aq, videoQueue := vq }
  if vq.length ≥ maxQueueSize then ({ q with videoQueue := [] }, out0 ++ out1 ++ vq)
  else if aq.length ≥ maxQueueSize then ({ q with audioQueue := [] }, out0 ++ out1 ++ aq)
  else (q, out0 ++ out1)

def feedAll (rotate : Bool) : Q → List AvPacket → Q × List AvPacket
  | q, [] => (q, [])
  | q, p :: ps =>
    let (q1, o1) := feed rotate q p
    let (q2, o2) := feedAll rotate q1 ps
    (q2, o1 ++ o2)

end Lal.AvQueue
