import LalModel.Model.RtspIn
import LalModel.Model.Hex
/-
  Model of pkg/rtsp/server_command_session.go (runCmdLoop and the handle* functions), rtsp.go
  (parseTransport / parseRtpRtcpChannel / parseClientPort) and interleaved.go (readInterleaved), at the level of
  parsed requests: header parsing (`nazahttp.ReadHttpHeader`) is trusted, its result for a well-formed request is the
  `Req` the model is given (the Content-Length / body step of lal's own `readHttpMessage` is modelled at the end of
  this file); whether `base.ParseRtspUrl` accepts the URI is an input (`uriOk`, the URL code has its
  own model in Model/Url.lean). The observer (lal's logic layer) is the harness': ANNOUNCE and PLAY are accepted,
  DESCRIBE is answered as the scenario says. Authorization headers are not modelled (auth.go: parsing and digest
  check belong to C14); only the challenge path (no Authorization header) is.
-/
namespace Lal.RtspSrv
open Lal Lal.Sdp Lal.RtspIn

structure Req where
  method : Bytes
  uri : Bytes
  uriOk : Bool
  cseq : Bytes
  transport : Bytes
  body : Bytes
deriving Repr, DecidableEq

inductive Tok where
  | req (r : Req)
  | frame (ch : Nat) (b : Bytes)
deriving Repr, DecidableEq

/-- what the peer sees on the connection, one item per `conn.Write` -/
inductive Item where
  | wsHdr (len : Nat)                         -- `writeWsFrameHeader`
  | resp (code : Nat) (cseq : Bytes) (extra : Bytes)
  | frame (ch : Int) (b : Bytes)              -- `WriteInterleavedPacket` (receiver reports)
deriving Repr, DecidableEq

/-- uint16 of a Go int -/
def toU16 (x : Int) : Nat := (x % 65536).toNat

/-- `parseTransport(setupTransport, key)` : `none` = error -/
def parseTransport (t key : Bytes) : Option (Nat × Nat) :=
  let items := splitByte 59 t
  let clientPort := items.foldl (fun acc item =>
    if hasPrefix key item then
      match splitByte 61 item with
      | [_, v] => v
      | _ => acc
    else acc) []
  match splitByte 45 clientPort with
  | [a, b] =>
    let (x, okx) := atoi a
    if !okx then none else
    let (y, oky) := atoi b
    if !oky then none else some (toU16 x, toU16 y)
  | _ => none

/-- `strings.Contains` -/
def contains (pat : Bytes) : Bytes → Bool
  | [] => pat.isEmpty
  | x :: r => hasPrefix pat (x :: r) || contains pat r

/-- how the observer answers DESCRIBE -/
inductive Describe where
  | refuse                 -- ok = false
  | later                  -- ok = true, sdp = nil
  | sdp (raw : Bytes)
deriving Repr, DecidableEq

structure St where
  ws : Bool
  auth : Nat               -- 0 off, 1 Basic, 2 Digest, 3 unsupported method
  describe : Describe
  pub : Option Sess := none
  sub : Option LogicContext := none   -- the sub session's sdp context (zero value before feedSdp)
  subExists : Bool := false

def wsWrap (ws : Bool) (it : Item) (len : Nat) : List Item := if ws then [Item.wsHdr len, it] else [it]

def m (s : String) : Bytes := asc s

/-- `SetupWithChannel` of a sub session (BaseOutSession): only success matters -/
def subSetupOk (c : LogicContext) (uri : Bytes) : Bool :=
  (c.audioAControl ≠ [] ∧ RtspIn.hasSuffix c.audioAControl uri) ∨ (c.videoAControl ≠ [] ∧ RtspIn.hasSuffix c.videoAControl uri)

/-- one request: the new state, what is written, the observer events, and whether the loop ends.
    Response lengths (for the WebSocket frame header) are not modelled: the harness reports `h` items without length. -/
def handleReq (cdc : Codec) (s : St) (r : Req) : GoM (St × List Item × Bool) :=
  if r.method = m "OPTIONS" then .ok (s, wsWrap s.ws (.resp 200 r.cseq []) 0, false)
  else if r.method = m "ANNOUNCE" then
    if !r.uriOk then .ok (s, [], true) else
    match parseLogic cdc r.body with
    | none => .ok (s, [], true)
    | some ctx =>
      -- one ANNOUNCE or DESCRIBE per connection: `pubSession != nil || subSession != nil` ⇒ ErrRtsp
      if s.pub.isSome || s.subExists then .ok (s, [], true) else
      .ok ({ s with pub := some (initWithSdp ctx) }, [.resp 200 r.cseq []], false)   -- no ws header (as the code)
  else if r.method = m "DESCRIBE" then
    if s.auth ≠ 0 then
      -- no Authorization header: challenge
      if s.auth = 1 then .ok (s, wsWrap s.ws (.resp 401 r.cseq (m "Basic")) 0, false)
      else if s.auth = 2 then .ok (s, wsWrap s.ws (.resp 401 r.cseq (m "Digest")) 0, false)
      else .ok (s, [], true)
    else if !r.uriOk then .ok (s, [], true)
    else if s.pub.isSome || s.subExists then .ok (s, [], true)   -- one ANNOUNCE or DESCRIBE per connection
    else
      let s := { s with subExists := true, sub := some {} }
      match s.describe with
      | .refuse => .ok (s, [], true)
      | .later => .ok (s, [], false)
      | .sdp raw =>
        let ctx := (parseLogic cdc raw).getD {}
        .ok ({ s with sub := some ctx }, wsWrap s.ws (.resp 200 r.cseq []) 0, false)
  else if r.method = m "SETUP" then
    if contains (m "interleaved") r.transport then
      match parseTransport r.transport (m "interleaved") with
      | none => .ok (s, [], true)
      | some (rtp, rtcp) =>
        match s.pub with
        | some p =>
          match setupWithChannel p r.uri rtp rtcp with
          | none => .ok (s, [], true)
          | some p' => .ok ({ s with pub := some p' }, wsWrap s.ws (.resp 200 r.cseq r.transport) 0, false)
        | none =>
          if s.subExists then
            if subSetupOk (s.sub.getD {}) r.uri then .ok (s, wsWrap s.ws (.resp 200 r.cseq r.transport) 0, false)
            else .ok (s, [], true)
          else .ok (s, [], true)
    else
      match parseTransport r.transport (m "client_port") with
      | none => .ok (s, [], true)
      | some _ =>
        -- UDP: a local port pair is acquired (environment: assumed available)
        match s.pub with
        | some p =>
          match setupWithChannel p r.uri p.aRtp p.aRtcp with      -- same uri test as SetupWithConn; channels untouched
          | none => .ok (s, [], true)
          | some _ => .ok (s, wsWrap s.ws (.resp 200 r.cseq (m "udp")) 0, false)
        | none =>
          if s.subExists then
            if subSetupOk (s.sub.getD {}) r.uri then .ok (s, wsWrap s.ws (.resp 200 r.cseq (m "udp")) 0, false)
            else .ok (s, [], true)
          else .ok (s, [], true)
  else if r.method = m "RECORD" then .ok (s, [.resp 200 r.cseq []], false)
  else if r.method = m "PLAY" then
    if !s.subExists then .ok (s, [], true) else .ok (s, wsWrap s.ws (.resp 200 r.cseq []) 0, false)
  else if r.method = m "TEARDOWN" then .ok (s, [], true)     -- the reply races with the close: not compared
  else .ok (s, [], false)

def evItems (evs : List Ev) : List Item × List Ev :=
  (evs.filterMap fun e => match e with | .wr ch b => some (Item.frame ch b) | _ => none,
   evs.filter fun e => match e with | .wr _ _ => false | _ => true)

/-- `runCmdLoop` over the tokens; result: items written, observer events, index (1-based) of the token at which the
    server closed the connection (`none` = it read until EOF) -/
def loop (cdc : Codec) : St → Nat → List Tok → GoM (List Item × List Ev × Option Nat)
  | _, _, [] => .ok ([], [], none)
  | s, k, .req r :: rest =>
    match handleReq cdc s r with
    | .error f => .error f
    | .ok (s', items, stop) =>
      if stop then .ok (items, [], some k) else
      match loop cdc s' (k + 1) rest with
      | .error f => .error f
      | .ok (i2, e2, c) => .ok (items ++ i2, e2, c)
  | s, k, .frame ch b :: rest =>
    match s.pub with
    | some p =>
      match handleInterleaved p b (ch : Nat) with
      | .error f => .error f
      | .ok (p', evs) =>
        let (its, es) := evItems evs
        -- in WebSocket mode WriteInterleavedPacket also writes a frame header
        let its := if s.ws then its.flatMap fun i => [Item.wsHdr 0, i] else its
        match loop cdc { s with pub := some p' } (k + 1) rest with
        | .error f => .error f
        | .ok (i2, e2, c) => .ok (its ++ i2, es ++ e2, c)
    | none =>
      if s.subExists then loop cdc s (k + 1) rest
      else .ok ([], [], some k)

def runSession (cdc : Codec) (ws : Bool) (auth : Nat) (d : Describe) (toks : List Tok) :=
  loop cdc { ws := ws, auth := auth, describe := d } 1 toks

/-! ### readInterleaved (interleaved.go) on a byte string: `$` channel, 16-bit length, data -/

inductive Frame where
  | notInterleaved                 -- first byte is not `$` (the byte is unread)
  | frame (ch : Nat) (b rest : Bytes)
  | short                          -- read error (EOF inside the frame)
deriving Repr, DecidableEq

def readInterleaved : Bytes → Frame
  | [] => .short
  | 36 :: ch :: a :: c :: rest =>
    let n := rd16 a c
    if rest.length < n then .short else .frame ch.toNat (rest.take n) (rest.drop n)
  | 36 :: _ => .short
  | _ => .notInterleaved

/-! ### readHttpMessage (http_message.go): the Content-Length of the peer and the body allocation -/

/-- `maxHttpMsgBodyLength` -/
def maxHttpMsgBodyLength : Nat := 1048576

/-- what the header section gave for `Content-Length`: no (or an empty) value, a value `strconv.Atoi` rejects, a Go int -/
inductive ContentLength where
  | absent
  | bad
  | val (n : Int)
deriving Repr, DecidableEq

/-- `make([]byte, n)` for a Go int `n`: a negative length, and one above what the runtime can address (2^48 on 64 bit),
    is `panic: makeslice: len out of range` -/
def makeLen? (site : String) (n : Int) : GoM Nat :=
  if n < 0 ∨ n > 281474976710656 then .error (.panic site) else .ok n.toNat

/-- the body step of `readHttpMessage`; `avail` = the bytes the reader still delivers; result: (Body, what stays unread),
    `none` = `io.ReadFull` failed (the peer closed before `cl` bytes: EOF / unexpected EOF, returned as the error) -/
def readMsgBody (cl : ContentLength) (avail : Bytes) : GoM (Option (Bytes × Bytes)) :=
  match cl with
  | .absent => .ok (some ([], avail))
  | .bad => .error .err
  | .val n =>
    if n < 0 ∨ n > maxHttpMsgBodyLength then .error .err else
    match makeLen? "readHttpMessage make([]byte, cl)" n with
    | .error f => .error f
    | .ok k => if avail.length < k then .ok none else .ok (some (avail.take k, avail.drop k))

/-- the same step of `nazahttp.ReadHttpMessage` (naza v0.30.49), which lal called before: no check between Atoi and make -/
def readMsgBodyNaza (cl : ContentLength) (avail : Bytes) : GoM (Option (Bytes × Bytes)) :=
  match cl with
  | .absent => .ok (some ([], avail))
  | .bad => .error .err
  | .val n =>
    match makeLen? "ReadHttpMessage make([]byte, cl)" n with
    | .error f => .error f
    | .ok k => if avail.length < k then .ok none else .ok (some (avail.take k, avail.drop k))

end Lal.RtspSrv
