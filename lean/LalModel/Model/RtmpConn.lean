import LalModel.Model.AdmissionCore
/-
  C03 — the per-connection automaton of an RTMP server connection: which `ServerManager` callbacks
  fire, and when.

    pkg/rtmp/server.go          Server.handleTcpConnect: RunLoop, then (unless DisposeByObserverFlag)
                                OnDelRtmpPubSession / OnDelRtmpSubSession by sessionStat.BaseType()
    pkg/rtmp/server_session.go  doPublish / doPlay (BaseType, streamName, the OnNew… callback,
                                DisposeByObserverFlag on error), doMsg for audio/video (avObserver)

  One event = the handling of one command message (one hold of `ServerManager.mutex`). A command that
  makes `RunLoop` return is followed at once, in the same goroutine, by the tail of
  `handleTcpConnect`; the two critical sections are merged into one event (the first of the two changes
  nothing another goroutine can see).
-/
namespace Lal.Adm

/-- modify the `rtmp.ServerSession` `c` (no-op when `c` is something else) -/
def Srv.modR (s : Srv) (c : Sid) (f : RConn → RConn) : Srv :=
  match s.sess c with
  | some (.rtmp r) => s.setS c (.rtmp (f r))
  | _ => s

/-- `Server.handleTcpConnect` after `session.RunLoop()` returned; `r` is the session's state then -/
def rtmpTail (s : Srv) (c : Sid) (r : RConn) : Srv :=
  let s := s.modR c (fun r => { r with closed := true })
  if r.flag then s else
  match r.typ with
  | .pub => s.onDelRtmpPub c r.stream
  | .sub => s.onDelRtmpSub c r.stream
  | .unknown => s

/-- a new TCP connection: `NewServerSession` -/
def rOpen (s : Srv) (c : Sid) : Srv × Res :=
  if s.fresh c then (s.setS c (.rtmp {}), .ok) else (s, .na)

/-- `doPublish` -/
def rPublish (code : Code) (s : Srv) (c : Sid) (st : Stream) (auth : Bool) : Srv × Res :=
  match s.sess c with
  | some (.rtmp r) =>
    if r.closed then (s, .na) else
    if r.typ != .unknown then (if code.secondCmd then (rtmpTail s c r, .closed) else (s, .crash)) else
    let s1 := s.modR c (fun r => { r with typ := .pub, stream := st })
    let r2 := s1.onNewRtmpPub c st auth
    if r2.2 then (r2.1.modR c (fun r => { r with obs := some st }), .ok)
    else (s1.modR c (fun r => { r with flag := true, closed := true }), .refused)
  | _ => (s, .na)

/-- `doPlay`; `nid` names the relay-pull session `AddRtmpSubSession → pullIfNeeded` may create -/
def rPlay (code : Code) (s : Srv) (c : Sid) (st : Stream) (auth : Bool) (nid : Sid) : Srv × Res :=
  match s.sess c with
  | some (.rtmp r) =>
    if r.closed || !(s.fresh nid) then (s, .na) else
    if r.typ != .unknown then (if code.secondCmd then (rtmpTail s c r, .closed) else (s, .crash)) else
    let s1 := s.modR c (fun r => { r with typ := .sub, stream := st })
    let r2 := s1.onNewRtmpSub c st auth nid
    if r2.2 then (r2.1, .ok)
    else (s1.modR c (fun r => { r with flag := true, closed := true }), .refused)
  | _ => (s, .na)

/-- an audio / video / metadata message on a publishing connection: `avObserver.OnReadRtmpAvMsg`.
    `Group.OnReadRtmpAvMsg` does not look at who calls it. -/
def rMedia (s : Srv) (c : Sid) : Srv × Res :=
  match s.sess c with
  | some (.rtmp r) =>
    if r.closed || r.typ != .pub then (s, .na) else
    match r.obs with
    | some st => if (s.groups st).isSome then (s, .fwd st) else (s, .drop)
    | none => (s, .drop)
  | _ => (s, .na)

/-- the connection ends (peer closed it, or it was disposed): `RunLoop` returns -/
def rClose (s : Srv) (c : Sid) : Srv × Res :=
  match s.sess c with
  | some (.rtmp r) => if r.closed then (s, .na) else (rtmpTail s c r, .ok)
  | _ => (s, .na)

end Lal.Adm
