import LalModel.Model.Hls
/-
  The text `hls.Muxer` writes: `fmt.Sprintf` calls of writePlaylist / writeRecordPlaylist / DefaultPathStrategy,
  over the structured playlists of `Model/Hls.lean`. The correspondence compares this text byte for byte with
  the files the real muxer writes.

  `%.3f` of `float64(t)/90000` is printed through integer arithmetic: `round(t/90)` milliseconds. Exact whenever
  `t % 90 ≠ 45` (no decimal tie; the double is within 2^-53 relative of `t/90000`, the nearest tie is ≥ 1/90000 away)
  and `t < 2^53`.
-/
namespace Lal.Hls.Text

def pad3 (n : Nat) : String :=
  (if n < 10 then "00" else if n < 100 then "0" else "") ++ toString n

/-- `%.3f` of a duration of `t` ticks -/
def durText (t : Nat) : String :=
  let ms := (t + 45) / 90
  toString (ms / 1000) ++ "." ++ pad3 (ms % 1000)

/-- `DefaultPathStrategy.GetTsFileName` -/
def segName (stream : String) (now id : Nat) : String := stream ++ "-" ++ toString now ++ "-" ++ toString id ++ ".ts"

def nameText (stream : String) : Option (Nat × Nat) → String
  | some (now, id) => segName stream now id
  | none => ""

def entryText (stream : String) (e : Entry) : String :=
  (if e.discont then "#EXT-X-DISCONTINUITY\n" else "") ++
  "#EXTINF:" ++ durText e.dur ++ ",\n" ++ nameText stream e.name ++ "\n"

def playlistText (stream : String) (p : Playlist) : String :=
  "#EXTM3U\n#EXT-X-VERSION:3\n" ++
  (if p.live then "#EXT-X-ALLOW-CACHE:NO\n" else "") ++
  "#EXT-X-TARGETDURATION:" ++ toString p.target ++ "\n" ++
  "#EXT-X-MEDIA-SEQUENCE:" ++ toString p.mediaSeq ++ "\n\n" ++
  String.join (p.entries.map (entryText stream)) ++
  (if p.ended then "#EXT-X-ENDLIST\n" else "")

/-- `DefaultPathStrategy`: out path `<root>/<stream>`, `playlist.m3u8`, `record.m3u8`, `.bak` -/
def pathText (root stream : String) : Path → String
  | .dir => root ++ "/" ++ stream
  | .live => root ++ "/" ++ stream ++ "/playlist.m3u8"
  | .liveBak => root ++ "/" ++ stream ++ "/playlist.m3u8.bak"
  | .record => root ++ "/" ++ stream ++ "/record.m3u8"
  | .recordBak => root ++ "/" ++ stream ++ "/record.m3u8.bak"
  | .seg now id => root ++ "/" ++ stream ++ "/" ++ segName stream now id

end Lal.Hls.Text
