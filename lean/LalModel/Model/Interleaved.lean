import LalModel.Model.Bytes
/-
  Model of rtsp.packInterleaved (pkg/rtsp/interleaved.go): the framing of one RTP/RTCP packet on the
  RTSP TCP connection: '$', one channel byte, the packet length as `uint16`, the packet.
  `uint8(channel)` and `uint16(len)` truncate, as the Go conversions do.
-/
namespace Lal.Interleaved

def pack (channel : Nat) (pkt : Bytes) : Bytes :=
  [0x24, b8 channel] ++ be16 (pkt.length % 65536) ++ pkt

end Lal.Interleaved
