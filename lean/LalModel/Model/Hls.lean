import LalModel.Model.Bytes
import LalModel.Model.Fs
import LalModel.Generated.C10
/-
  Model of `hls.Muxer` (pkg/hls/muxer.go, m3u8.go, fragment.go), branch by branch, as a function that
  returns the LIST OF FILE-SYSTEM OPERATIONS every call performs.

  * Timestamps and durations are exact integers in 90 kHz ticks (`uint64` in Go; assumed < 2^53).
    Go computes `float64(ts-fragTs)/90000` and compares / prints those doubles. Every comparison in the
    code is between correctly rounded quotients `RN(a/90000)`, `RN(b/90000)` (IEEE division) of integers,
    which are ordered exactly like `a`, `b` as long as the values stay below 2^36 s; `int(d + 0.5)` of
    `d = RN(t/90000)` is `(t + 45000) / 90000` (a tie `t = 90000k + 45000` is exactly representable);
    `%.3f` of `RN(t/90000)` prints `round(t/90)` milliseconds whenever `t % 90 ≠ 45` (no decimal tie) —
    always true for the `ms * 90` timestamps lal's remuxers produce. The generator stays inside that range.
  * File names are structured (`Path.seg now id` ↦ `<stream>-<now>-<id>.ts`), playlists are structured
    (`Playlist`), the text is produced by `Hls.Text` (driver) and compared with what the real code writes.
  * `observer.OnFragmentOpen()` re-enters `FeedMpegts` with the audio the remuxer had cached
    (`Group.OnFragmentOpen → Rtmp2MpegtsRemuxer.FlushAudio → onFrame → Group.OnTsPackets → Muxer.FeedMpegts`);
    the cached frame is the `pending` component of the world.
-/
namespace Lal.Hls
open Lal.Fs

/-- Files of one stream's directory. -/
inductive Path where
  | dir                       -- the out path itself (MkdirAll / RemoveAll)
  | live | liveBak            -- playlist.m3u8, playlist.m3u8.bak
  | record | recordBak        -- record.m3u8, record.m3u8.bak
  | seg (now id : Nat)        -- <stream>-<now>-<id>.ts
deriving DecidableEq, Repr

/-- One `#EXTINF` entry. `name = none` is Go's `filename == ""` (a ring slot never used). -/
structure Entry where
  discont : Bool
  dur     : Nat
  name    : Option (Nat × Nat)
deriving DecidableEq, Repr

/-- A media playlist as `writePlaylist` / `writeRecordPlaylist` lay it out. `live` selects the header
    (`#EXT-X-ALLOW-CACHE:NO` only in the live playlist). -/
structure Playlist where
  live     : Bool
  target   : Nat
  mediaSeq : Nat
  entries  : List Entry
  ended    : Bool
deriving DecidableEq, Repr

structure Frame where
  audio    : Bool
  pts      : Nat
  dts      : Nat
  key      : Bool
  boundary : Bool
  pkts     : Bytes
deriving Repr, DecidableEq

/-- What one `IFile.Write` of the fragment writer carries. -/
inductive Chunk where
  | patpmt (b : Bytes)
  | frame (f : Frame)
deriving Repr, DecidableEq

def Chunk.bytes : Chunk → Bytes
  | .patpmt b => b
  | .frame f => f.pkts

abbrev FOp := Fs.Op Path Playlist Chunk
abbrev Dir := Fs.Dir Path Playlist Chunk
abbrev HFile := Fs.File Playlist Chunk

def under : Path → Path → Bool := fun _ _ => true

structure Cfg where
  fragDurMs : Nat
  fragNum   : Nat
  delThr    : Nat
  cleanup   : Nat          -- 0 never, 1 in the end, 2 asap
deriving Repr, DecidableEq

/-- `fragmentInfo` -/
structure FragInfo where
  id      : Nat := 0
  dur     : Nat := 0
  discont : Bool := false
  name    : Option (Nat × Nat) := none
deriving DecidableEq, Repr

structure Mux where
  opened : Bool := false
  fragTs : Nat := 0
  /-- `recordMaxFragDuration`, ticks -/
  recMax : Nat := 0
  nfrags : Nat := 0
  frag   : Nat := 0
  frags  : List FragInfo
  patpmt : Bytes := []
  /-- `fragment.fp`: the file the fragment writer holds -/
  cur    : Path := .dir
deriving Repr

def Cfg.cap (c : Cfg) : Nat := c.fragNum + c.delThr + 1

def newMux (c : Cfg) : Mux := { frags := List.replicate c.cap {} }

/-- index of `getFrag(n)` -/
def fragIdx (c : Cfg) (m : Mux) (n : Nat) : Nat := (m.frag + n) % c.cap
def getFrag (c : Cfg) (m : Mux) (n : Nat) : FragInfo := m.frags.getD (fragIdx c m n) {}
def fragmentId (m : Mux) : Nat := m.frag + m.nfrags

def incrFrag (c : Cfg) (m : Mux) : Mux :=
  if m.nfrags = c.fragNum then { m with frag := m.frag + 1 } else { m with nfrags := m.nfrags + 1 }

/-- `iterateFragsInPlaylist` -/
def playlistFrags (c : Cfg) (m : Mux) : List FragInfo := (List.range m.nfrags).map (getFrag c m)

def entryOf (f : FragInfo) : Entry := { discont := f.discont, dur := f.dur, name := f.name }

/-- `int(d + 0.5)` of a duration of `t` ticks (`d = float64(t)/90000`): seconds rounded to nearest, half up -/
def roundSec (t : Nat) : Nat := (t + 45000) / 90000

/-- The `EXT-X-TARGETDURATION` of the live playlist (`writePlaylist`). -/
def liveTarget (c : Cfg) (fs : List FragInfo) : Nat :=
  fs.foldl (fun mx f => if roundSec f.dur > mx then roundSec f.dur else mx) (c.fragDurMs / 1000)

def livePlaylist (c : Cfg) (m : Mux) (isLast : Bool) : Playlist :=
  { live := true, target := liveTarget c (playlistFrags c m), mediaSeq := m.frag,
    entries := (playlistFrags c m).map entryOf, ended := isLast }

/-- `writeM3u8File` -/
def writeM3u8 (p bak : Path) (pl : Playlist) : List FOp := [.writeFile bak pl, .rename bak p]

/-- `writeRecordPlaylist`; `old` is what `ReadFile(record.m3u8)` returns. -/
def writeRecord (c : Cfg) (m : Mux) (old : Option HFile) : Mux × List FOp :=
  -- `getClosedFrag()` = `getFrag(nfrags - 1)`: index `(frag + nfrags - 1) % cap` (called after `incrFrag`, so
  -- `frag + nfrags ≥ 1`; with `fragment_num = 0` the Go `int` `nfrags - 1` is -1 and `frag ≥ 1`)
  let cf := m.frags.getD ((m.frag + m.nfrags - 1) % c.cap) {}
  let m1 := if roundSec cf.dur > m.recMax then { m with recMax := roundSec cf.dur } else m
  match old with
  | some { content := .doc pl, .. } =>
    -- TrimSuffix ENDLIST, updateTargetDurationInM3u8, append the entry, ENDLIST
    let pl' : Playlist := { pl with target := if m1.recMax > pl.target then m1.recMax else pl.target,
                                    entries := pl.entries ++ [entryOf cf], ended := true }
    (m1, [.readFile .record] ++ writeM3u8 .record .recordBak pl')
  | some { content := .data _, .. } =>
    -- a file without `#EXT-X-TARGETDURATION:` ⇒ updateTargetDurationInM3u8 fails, nothing is written
    (m1, [.readFile .record])
  | none =>
    let pl' : Playlist := { live := false, target := m1.recMax, mediaSeq := 0, entries := [entryOf cf], ended := true }
    (m1, [.readFile .record] ++ writeM3u8 .record .recordBak pl')

/-- `closeFragment(isLast)`; `d` is the directory when the call starts. -/
def closeFragment (c : Cfg) (isLast : Bool) (m : Mux) (d : Dir) : Mux × List FOp :=
  if !m.opened then (m, []) else
  let m1 := incrFrag c { m with opened := false }
  let ops1 : List FOp := [.close m.cur] ++ writeM3u8 .live .liveBak (livePlaylist c m1 isLast)
  if c.cleanup = Gen.c10CleanupNever ∨ c.cleanup = Gen.c10CleanupInTheEnd then
    let (m2, ops2) := writeRecord c m1 (applyAll under d ops1 .record)
    (m2, ops1 ++ ops2)
  else if c.cleanup = Gen.c10CleanupAsap then
    match (getFrag c m1 m1.nfrags).name with
    | some (now, id) => (m1, ops1 ++ [.remove (.seg now id)])
    | none => (m1, ops1)
  else (m1, ops1)

/-- The observer's reaction to `OnFragmentOpen`: feed the cached audio frame (if any) into the muxer. -/
abbrev Nested := Mux → Dir → Frame → Mux × List FOp

/-- Result of the calls that can fail: new muxer, what is left in the remuxer's audio cache, the operations
    performed, `ok = false` when the call returned an error. -/
structure UR where
  m    : Mux
  pend : Option Frame
  ops  : List FOp
  ok   : Bool

/-- `openFragment(ts, discont)` -/
def openFragment (c : Cfg) (nested : Nested) (now : Nat) (ts : Nat) (discont : Bool)
    (m : Mux) (d : Dir) (pend : Option Frame) : UR :=
  if m.opened then { m := m, pend := pend, ops := [], ok := false } else
  let id := fragmentId m
  let p := Path.seg now id
  let ops1 : List FOp := [.create p, .write p (.patpmt m.patpmt)]
  let idx := fragIdx c m m.nfrags
  let m1 : Mux := { m with opened := true, cur := p, fragTs := ts,
                           frags := m.frags.set idx { id := id, dur := 0, discont := discont, name := some (now, id) } }
  match pend with
  | none => { m := m1, pend := none, ops := ops1, ok := true }
  | some a =>
    -- `m.observer.OnFragmentOpen()`; the remuxer empties its cache before it calls back
    let r := nested m1 (applyAll under d ops1) a
    { m := r.1, pend := none, ops := ops1 ++ r.2, ok := true }

/-- `closeFragment(false)` then `openFragment(ts, discont)` -/
def reopen (c : Cfg) (nested : Nested) (now : Nat) (ts : Nat) (discont : Bool)
    (m : Mux) (d : Dir) (pend : Option Frame) : UR :=
  let r1 := closeFragment c false m d
  let r2 := openFragment c nested now ts discont r1.1 (applyAll under d r1.2) pend
  { r2 with ops := r1.2 ++ r2.ops }

/-- the forced-split test of `updateFragment` -/
def forceSplit (c : Cfg) (m : Mux) (ts : Nat) : Prop :=
  (ts > m.fragTs ∧ ts - m.fragTs > c.fragDurMs * 90 * 10) ∨ (m.fragTs > ts ∧ m.fragTs - ts > Gen.c10NegMaxfraglen)

instance (c : Cfg) (m : Mux) (ts : Nat) : Decidable (forceSplit c m ts) := by unfold forceSplit; infer_instance

/-- `if ts > m.fragTs { if duration > f.duration { f.duration = duration } }` through the pointer `f = &frags[fi]` -/
def updDur (m : Mux) (fi ts : Nat) : Mux :=
  if ts > m.fragTs then
    if ts - m.fragTs > (m.frags.getD fi {}).dur then
      { m with frags := m.frags.set fi { (m.frags.getD fi {}) with dur := ts - m.fragTs } }
    else m
  else m

/-- `updateFragment` when a fragment is open -/
def updateOpened (c : Cfg) (nested : Nested) (now : Nat) (ts : Nat) (boundary : Bool)
    (m : Mux) (d : Dir) (pend : Option Frame) : UR :=
  let fi := fragIdx c m m.nfrags             -- `f := m.getCurrFrag()`: a pointer into the ring, kept across the split
  let r1 : UR := if forceSplit c m ts then reopen c nested now ts true m d pend
                 else { m := m, pend := pend, ops := [], ok := true }
  if !r1.ok then r1 else
  let m2 := updDur r1.m fi ts
  if (m2.frags.getD fi {}).dur < c.fragDurMs * 90 then { r1 with m := m2 }
  else if boundary then
    let r3 := reopen c nested now ts false m2 (applyAll under d r1.ops) r1.pend
    { r3 with ops := r1.ops ++ r3.ops }
  else { r1 with m := m2 }

/-- `updateFragment(ts, boundary)` -/
def updateFragment (c : Cfg) (nested : Nested) (now : Nat) (ts : Nat) (boundary : Bool)
    (m : Mux) (d : Dir) (pend : Option Frame) : UR :=
  if m.opened then updateOpened c nested now ts boundary m d pend
  else if boundary then reopen c nested now ts true m d pend
  else { m := m, pend := pend, ops := [], ok := true }

/-- `FeedMpegts(tsPackets, frame, boundary)` -/
def feedWith (c : Cfg) (nested : Nested) (now : Nat) (f : Frame)
    (m : Mux) (d : Dir) (pend : Option Frame) : Mux × Option Frame × List FOp :=
  let ts := if f.audio then f.pts else f.dts
  let r := updateFragment c nested now ts f.boundary m d pend
  if !r.ok then (r.m, r.pend, r.ops)
  else if !r.m.opened then (r.m, r.pend, r.ops)
  else (r.m, r.pend, r.ops ++ [.write r.m.cur (.frame f)])

/-- the re-entrant call: the audio cache is already empty (reset before the callback), so nothing nests further -/
def feedInner (c : Cfg) (now : Nat) : Nested := fun m d a =>
  let r := feedWith c (fun m _ _ => (m, [])) now a m d none
  (r.1, r.2.2)

def feed (c : Cfg) (now : Nat) (f : Frame) (m : Mux) (d : Dir) (pend : Option Frame) : Mux × Option Frame × List FOp :=
  feedWith c (feedInner c now) now f m d pend

/-! ### The world: at most one live muxer per stream name, the directory, the remuxer's audio cache -/

structure World where
  mux     : Option Mux := none
  dir     : Dir := Fs.empty
  pending : Option Frame := none

inductive Ev where
  /-- publish: `NewMuxer` + `Start` -/
  | start
  | patpmt (b : Bytes)
  /-- the remuxer caches an audio frame that `FlushAudio` will hand over at the next `OnFragmentOpen` -/
  | pend (f : Frame)
  | feed (f : Frame) (now : Nat)
  /-- unpublish: `Dispose` (then the group drops the muxer) -/
  | dispose
  /-- the delayed task of `ServerManager.CleanupHlsIfNeeded` fires -/
  | cleanup
deriving Repr

def step (c : Cfg) (w : World) : Ev → World × List FOp
  | .start =>
    match w.mux with
    | some _ => (w, [])
    | none =>
      -- `Start`: ensureDir, continueMediaSequence (the live playlist of an earlier publish of this name, if it is still there)
      let m := newMux c
      let m' := match w.dir .live with
        | some { content := .doc pl, .. } => { m with frag := pl.mediaSeq + pl.entries.length }
        | _ => m
      ({ w with mux := some m', pending := none }, [.mkdirAll .dir, .readFile .live])
  | .patpmt b =>
    match w.mux with
    | some m => ({ w with mux := some { m with patpmt := b } }, [])
    | none => (w, [])
  | .pend f => ({ w with pending := some f }, [])
  | .feed f now =>
    match w.mux with
    | some m =>
      let (m', p', ops) := feed c now f m w.dir w.pending
      ({ mux := some m', dir := applyAll under w.dir ops, pending := p' }, ops)
    | none => (w, [])
  | .dispose =>
    match w.mux with
    | some m =>
      let (_, ops) := closeFragment c true m w.dir
      ({ w with mux := none, dir := applyAll under w.dir ops }, ops)
    | none => (w, [])
  | .cleanup =>
    if c.cleanup = Gen.c10CleanupInTheEnd ∨ c.cleanup = Gen.c10CleanupAsap then
      match w.mux with
      | some _ => (w, [])                               -- "cancel cleanup hls file path since hls muxer still alive"
      | none => ({ w with dir := applyAll under w.dir [.removeAll .dir] }, [.removeAll .dir])
    else (w, [])

/-- The operations of every event, grouped per event. -/
def run (c : Cfg) : World → List Ev → List (List FOp)
  | _, [] => []
  | w, e :: es => let (w', ops) := step c w e; ops :: run c w' es

def runWorld (c : Cfg) : World → List Ev → World
  | w, [] => w
  | w, e :: es => runWorld c (step c w e).1 es

end Lal.Hls
